module verifextract

go 1.23.0
