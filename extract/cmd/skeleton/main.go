// Command skeleton extracts the control skeleton of the decision chains of cloudflare/pat-go (T3 of DESIGN.md §4):
// for each listed function, in source order, every call (by callee name), every return (error / no error / value),
// every assignment through a map, a receiver or a package variable, and every `if` (by the calls and comparisons of
// its condition). The Lean side (Proofs/Skel*.lean) compares each skeleton with the one the hand-written model of
// that function was written against: a check moved behind a state change, a dropped or added step, a reordered
// pair of statements changes the skeleton and breaks the theorem of the properties that rest on that function.
//
// Usage: skeleton <repo root>   (Lean module on stdout)
package main

import (
	"fmt"
	"go/ast"
	"go/parser"
	"go/printer"
	"go/token"
	"os"
	"path/filepath"
	"reflect"
	"sort"
	"strings"
)

type target struct {
	dir, recv, fn, lean string
	full                bool // also the text of every simple statement: the arithmetic forks, where a changed operand is a changed result
	loops               bool // also the header of every `for` and every increment/decrement: the digit recodings and the table-driven multiplications
}

var targets = []target{
	{"tokens/type3", "RateLimitedAttester", "innerVerifyRequest", "attester_innerVerifyRequest", false, false},
	{"tokens/type3", "RateLimitedAttester", "VerifyRequest", "attester_VerifyRequest", false, false},
	{"tokens/type3", "RateLimitedAttester", "FinalizeIndex", "attester_FinalizeIndex", false, false},
	{"tokens/type3", "", "computeIndex", "computeIndex", false, false},
	{"tokens/type3", "RateLimitedIssuer", "Evaluate", "issuer3_Evaluate", false, false},
	{"tokens/type3", "", "decryptOriginTokenRequest", "decryptOriginTokenRequest", false, false},
	{"tokens/type3", "RateLimitedTokenRequestState", "FinalizeToken", "client3_FinalizeToken", false, false},
	{"tokens/type1", "BasicPrivateIssuer", "Evaluate", "issuer1_Evaluate", false, false},
	{"tokens/type1", "BasicPrivateIssuer", "Verify", "issuer1_Verify", false, false},
	{"tokens/type1", "BasicPrivateTokenRequestState", "FinalizeToken", "client1_FinalizeToken", false, false},
	{"tokens/type2", "BasicPublicIssuer", "Evaluate", "issuer2_Evaluate", false, false},
	{"tokens/type2", "BasicPublicTokenRequestState", "FinalizeToken", "client2_FinalizeToken", false, false},
	{"tokens/type5", "BatchedPrivateIssuer", "Evaluate", "issuer5_Evaluate", false, false},
	{"tokens/type5", "BatchedPrivateIssuer", "Verify", "issuer5_Verify", false, false},
	{"tokens/type5", "BatchedPrivateTokenRequestState", "FinalizeTokens", "client5_FinalizeTokens", false, false},
	{"tokens/batched", "BasicBatchedIssuer", "EvaluateBatch", "batch_EvaluateBatch", false, false},
	{"tokens/batched", "", "NewBasicBatchedIssuer", "batch_NewBasicBatchedIssuer", false, false},
	// the ECDSA fork (C12, C13) and the Ed25519 fork's top level (C14, C15): statement by statement
	{"ecdsa", "", "hashToInt", "ecdsa_hashToInt", true, false},
	{"ecdsa", "", "fermatInverse", "ecdsa_fermatInverse", true, false},
	{"ecdsa", "", "randFieldElement", "ecdsa_randFieldElement", true, false},
	{"ecdsa", "", "CreateKey", "ecdsa_CreateKey", true, false},
	{"ecdsa", "", "GenerateKey", "ecdsa_GenerateKey", true, false},
	{"ecdsa", "", "hashBlind", "ecdsa_hashBlind", true, false},
	{"ecdsa", "", "BlindPublicKeyWithContext", "ecdsa_BlindPublicKeyWithContext", true, false},
	{"ecdsa", "", "UnblindPublicKeyWithContext", "ecdsa_UnblindPublicKeyWithContext", true, false},
	{"ecdsa", "", "BlindKeySignWithContext", "ecdsa_BlindKeySignWithContext", true, false},
	{"ecdsa", "", "Sign", "ecdsa_Sign", true, false},
	{"ecdsa", "", "signGeneric", "ecdsa_signGeneric", true, false},
	{"ecdsa", "", "SignASN1", "ecdsa_SignASN1", true, false},
	{"ecdsa", "", "Verify", "ecdsa_Verify", true, false},
	{"ecdsa", "", "verifyGeneric", "ecdsa_verifyGeneric", true, false},
	{"ecdsa", "", "VerifyASN1", "ecdsa_VerifyASN1", true, false},
	{"ed25519", "", "GenerateKey", "ed_GenerateKey", true, false},
	{"ed25519", "", "newKeyFromSeed", "ed_newKeyFromSeed", true, false},
	{"ed25519", "", "signInternal", "ed_signInternal", true, false},
	{"ed25519", "", "sign", "ed_sign", true, false},
	{"ed25519", "", "Verify", "ed_Verify", true, false},
	{"ed25519", "", "BlindPublicKeyWithContext", "ed_BlindPublicKeyWithContext", true, false},
	{"ed25519", "", "UnblindPublicKeyWithContext", "ed_UnblindPublicKeyWithContext", true, false},
	{"ed25519", "", "blindKeySign", "ed_blindKeySign", true, false},
	// the codecs with hand-rolled framing (C03, C04): TokenChallenge, type 5 request, generic batch request and response list, EncapKey
	{dir: "tokens", recv: "TokenChallenge", fn: "Marshal", lean: "cd_TokenChallenge_Marshal", full: true, loops: true},
	{dir: "tokens", recv: "", fn: "UnmarshalTokenChallenge", lean: "cd_UnmarshalTokenChallenge", full: true, loops: true},
	{dir: "tokens/type5", recv: "BatchedPrivateTokenRequest", fn: "Marshal", lean: "cd_type5_Marshal", full: true, loops: true},
	{dir: "tokens/type5", recv: "BatchedPrivateTokenRequest", fn: "Unmarshal", lean: "cd_type5_Unmarshal", full: true, loops: true},
	{dir: "tokens/batched", recv: "BatchedTokenRequest", fn: "Marshal", lean: "cd_batch_Marshal", full: true, loops: true},
	{dir: "tokens/batched", recv: "BatchedTokenRequest", fn: "Unmarshal", lean: "cd_batch_Unmarshal", full: true, loops: true},
	{dir: "tokens/batched", recv: "", fn: "UnmarshalBatchedTokenResponses", lean: "cd_UnmarshalBatchedTokenResponses", full: true, loops: true},
	{dir: "tokens/type3", recv: "EncapKey", fn: "Marshal", lean: "cd_EncapKey_Marshal", full: true, loops: true},
	{dir: "tokens/type3", recv: "", fn: "UnmarshalEncapKey", lean: "cd_UnmarshalEncapKey", full: true, loops: true},
	// the digit recodings and the table-driven scalar multiplications of the internal package (C14, C15): every statement and loop header
	{dir: "ed25519/internal/edwards25519", recv: "Scalar", fn: "signedRadix16", lean: "sc_signedRadix16", full: true, loops: true},
	{dir: "ed25519/internal/edwards25519", recv: "Scalar", fn: "nonAdjacentForm", lean: "sc_nonAdjacentForm", full: true, loops: true},
	{dir: "ed25519/internal/edwards25519", recv: "Scalar", fn: "SetBytesWithClamping", lean: "sc_SetBytesWithClamping", full: true, loops: true},
	{dir: "ed25519/internal/edwards25519", recv: "", fn: "basepointTable", lean: "sm_basepointTable", full: true, loops: true},
	{dir: "ed25519/internal/edwards25519", recv: "", fn: "basepointNafTable", lean: "sm_basepointNafTable", full: true, loops: true},
	{dir: "ed25519/internal/edwards25519", recv: "Point", fn: "ScalarBaseMult", lean: "sm_ScalarBaseMult", full: true, loops: true},
	{dir: "ed25519/internal/edwards25519", recv: "Point", fn: "ScalarMult", lean: "sm_ScalarMult", full: true, loops: true},
	{dir: "ed25519/internal/edwards25519", recv: "Point", fn: "VarTimeDoubleScalarBaseMult", lean: "sm_VarTimeDoubleScalarBaseMult", full: true, loops: true},
	{dir: "ed25519/internal/edwards25519", recv: "projLookupTable", fn: "FromP3", lean: "tb_proj_FromP3", full: true, loops: true},
	{dir: "ed25519/internal/edwards25519", recv: "affineLookupTable", fn: "FromP3", lean: "tb_affine_FromP3", full: true, loops: true},
	{dir: "ed25519/internal/edwards25519", recv: "nafLookupTable5", fn: "FromP3", lean: "tb_naf5_FromP3", full: true, loops: true},
	{dir: "ed25519/internal/edwards25519", recv: "nafLookupTable8", fn: "FromP3", lean: "tb_naf8_FromP3", full: true, loops: true},
	{dir: "ed25519/internal/edwards25519", recv: "projLookupTable", fn: "SelectInto", lean: "tb_proj_SelectInto", full: true, loops: true},
	{dir: "ed25519/internal/edwards25519", recv: "affineLookupTable", fn: "SelectInto", lean: "tb_affine_SelectInto", full: true, loops: true},
	{dir: "ed25519/internal/edwards25519", recv: "nafLookupTable5", fn: "SelectInto", lean: "tb_naf5_SelectInto", full: true, loops: true},
	{dir: "ed25519/internal/edwards25519", recv: "nafLookupTable8", fn: "SelectInto", lean: "tb_naf8_SelectInto", full: true, loops: true},
}

func die(format string, a ...any) {
	fmt.Fprintf(os.Stderr, "skeleton: "+format+"\n", a...)
	os.Exit(1)
}

func str(fset *token.FileSet, n ast.Node) string {
	var sb strings.Builder
	printer.Fprint(&sb, fset, n)
	s := strings.Join(strings.Fields(sb.String()), " ")
	if len(s) > 70 {
		s = s[:70] + "…"
	}
	return s
}

func full(fset *token.FileSet, n ast.Node) string {
	// comments are not part of the pin
	if ds, ok := n.(*ast.DeclStmt); ok {
		if gd, ok := ds.Decl.(*ast.GenDecl); ok {
			gd.Doc = nil
			for _, sp := range gd.Specs {
				if vs, ok := sp.(*ast.ValueSpec); ok {
					vs.Doc, vs.Comment = nil, nil
				}
			}
		}
	}
	var sb strings.Builder
	printer.Fprint(&sb, fset, n)
	return strings.Join(strings.Fields(sb.String()), " ")
}

func callee(c *ast.CallExpr) string {
	switch f := c.Fun.(type) {
	case *ast.Ident:
		return f.Name
	case *ast.SelectorExpr:
		if x, ok := f.X.(*ast.Ident); ok {
			return x.Name + "." + f.Sel.Name
		}
		return "(…)." + f.Sel.Name
	case *ast.ArrayType:
		return "[]conv"
	case *ast.FuncLit:
		return "func-literal"
	}
	return "?"
}

// noise: calls that build byte strings or convert values and carry no decision
var noise = map[string]bool{"len": true, "make": true, "copy": true, "append": true, "[]conv": true, "string": true, "uint16": true, "uint8": true, "int": true, "uint64": true,
	"cryptobyte.NewBuilder": true, "b.AddUint16": true, "b.AddUint8": true, "b.AddBytes": true, "b.AddUint16LengthPrefixed": true, "b.BytesOrPanic": true,
	"fmt.Errorf": true, "hex.EncodeToString": true, "new": true, "cap": true}

func main() {
	if len(os.Args) != 2 {
		die("usage: skeleton <repo root>")
	}
	type pkg struct {
		fset  *token.FileSet
		files []*ast.File
	}
	pkgs := map[string]*pkg{}
	fmt.Printf("/-! GENERATED by /verif/extract/cmd/skeleton — do not edit. -/\nnamespace PatVerif.Generated.Skeletons\n\n")
	for _, t := range targets {
		p := pkgs[t.dir]
		if p == nil {
			p = &pkg{fset: token.NewFileSet()}
			names, _ := filepath.Glob(filepath.Join(os.Args[1], t.dir, "*.go"))
			sort.Strings(names)
			for _, n := range names {
				if strings.HasSuffix(n, "_test.go") {
					continue
				}
				f, err := parser.ParseFile(p.fset, n, nil, parser.ParseComments)
				if err != nil {
					die("%v", err)
				}
				skip := false
				for _, cg := range f.Comments {
					if cg.Pos() < f.Package && strings.Contains(cg.Text(), "go:build verif") {
						skip = true
					}
				}
				if !skip {
					p.files = append(p.files, f)
				}
			}
			pkgs[t.dir] = p
		}
		var fd *ast.FuncDecl
		for _, f := range p.files {
			for _, d := range f.Decls {
				x, ok := d.(*ast.FuncDecl)
				if !ok || x.Name.Name != t.fn {
					continue
				}
				r := ""
				if x.Recv != nil && len(x.Recv.List) == 1 {
					ty := x.Recv.List[0].Type
					if s, ok := ty.(*ast.StarExpr); ok {
						ty = s.X
					}
					if id, ok := ty.(*ast.Ident); ok {
						r = id.Name
					}
				}
				if r == t.recv {
					fd = x
				}
			}
		}
		if fd == nil {
			die("%s: function %s.%s not found", t.dir, t.recv, t.fn)
		}
		recv := ""
		if fd.Recv != nil && len(fd.Recv.List[0].Names) == 1 {
			recv = fd.Recv.List[0].Names[0].Name
		}
		var ev []string
		add := func(format string, a ...any) { ev = append(ev, fmt.Sprintf(format, a...)) }
		var walk func(n ast.Node)
		calls := func(e ast.Node) {
			ast.Inspect(e, func(n ast.Node) bool {
				if c, ok := n.(*ast.CallExpr); ok {
					if nm := callee(c); !noise[nm] {
						add("call %s", nm)
					}
				}
				_, isLit := n.(*ast.FuncLit)
				return !isLit
			})
		}
		walk = func(n ast.Node) {
			switch s := n.(type) {
			case *ast.BlockStmt:
				for _, st := range s.List {
					walk(st)
				}
			case *ast.IfStmt:
				if s.Init != nil {
					walk(s.Init)
				}
				calls(s.Cond)
				if t.full {
					add("if %s {", full(p.fset, s.Cond))
				} else {
					add("if %s {", str(p.fset, s.Cond))
				}
				walk(s.Body)
				if s.Else != nil {
					add("} else {")
					walk(s.Else)
				}
				add("}")
			case *ast.ForStmt:
				if t.loops {
					part := func(n ast.Node) string {
						if n == nil || reflect.ValueOf(n).IsNil() {
							return ""
						}
						return full(p.fset, n)
					}
					add("for %s; %s; %s {", part(s.Init), part(s.Cond), part(s.Post))
				} else {
					add("for {")
				}
				walk(s.Body)
				add("}")
			case *ast.RangeStmt:
				calls(s.X)
				add("range %s {", str(p.fset, s.X))
				walk(s.Body)
				add("}")
			case *ast.SwitchStmt:
				if t.loops && s.Tag != nil {
					add("switch %s {", full(p.fset, s.Tag))
				} else {
					add("switch {")
				}
				walk(s.Body)
				add("}")
			case *ast.CaseClause:
				if t.loops {
					var cs []string
					for _, e := range s.List {
						cs = append(cs, full(p.fset, e))
					}
					add("case %s:", strings.Join(cs, ", "))
				} else {
					add("case:")
				}
				for _, st := range s.Body {
					walk(st)
				}
			case *ast.ReturnStmt:
				for _, r := range s.Results {
					calls(r)
				}
				kind := "value"
				if n := len(s.Results); n > 0 {
					last := str(p.fset, s.Results[n-1])
					switch {
					case last == "nil":
						kind = "no-error"
					case last == "err" || strings.HasPrefix(last, "fmt.Errorf") || strings.HasPrefix(last, "errors.New"):
						kind = "error"
					case last == "true" || last == "false":
						kind = last
					}
				}
				if t.full {
					add("return %s: %s", kind, full(p.fset, s))
				} else {
					add("return %s", kind)
				}
			case *ast.AssignStmt:
				if t.full {
					add("stmt %s", full(p.fset, s))
				}
				for _, r := range s.Rhs {
					calls(r)
				}
				for _, l := range s.Lhs {
					switch x := l.(type) {
					case *ast.IndexExpr:
						add("store %s", str(p.fset, x))
					case *ast.SelectorExpr:
						if id, ok := x.X.(*ast.Ident); ok && id.Name == recv && recv != "" {
							add("store %s", str(p.fset, x))
						}
					}
				}
			case *ast.ExprStmt:
				if t.full {
					add("stmt %s", full(p.fset, s))
				}
				calls(s.X)
			case *ast.DeferStmt:
				add("defer %s", callee(s.Call))
			case *ast.GoStmt:
				add("go %s", callee(s.Call))
			case *ast.BranchStmt:
				add("%s", s.Tok.String())
			case *ast.IncDecStmt:
				// counters carry no decision (except where the loops themselves are pinned)
				if t.loops {
					add("stmt %s", full(p.fset, s))
				}
			case *ast.DeclStmt:
				if t.full {
					add("stmt %s", full(p.fset, s))
				}
				calls(s)
			default:
				if n != nil {
					calls(n)
				}
			}
		}
		walk(fd.Body)
		var q []string
		for _, e := range ev {
			q = append(q, fmt.Sprintf("%q", e))
		}
		fmt.Printf("/-- %s: %s.%s -/\ndef %s : List String :=\n  [%s]\n\n", t.dir, t.recv, t.fn, t.lean, strings.Join(q, ",\n   "))
	}
	fmt.Printf("end PatVerif.Generated.Skeletons\n")
}
