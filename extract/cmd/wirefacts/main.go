// Command wirefacts extracts, from the Marshal/Unmarshal functions of the fixed-layout wire structures of
// cloudflare/pat-go, the sequence of cryptobyte calls each one makes, in source order, as Lean data
// (T2 of DESIGN.md §4: a descriptor per structure). The Lean side interprets each descriptor
// (Model/WireEv.lean) and proves it equal to the codec of Model/Structs.lean (Proofs/WireFacts.lean).
//
// Usage: wirefacts <repo root>  — Lean module on stdout; exit 1 with a message naming the construct when a
// function contains anything but the expected calls (a loop, another call, an unknown method): the tie is then
// broken and the check says so.
package main

import (
	"fmt"
	"go/ast"
	"go/constant"
	"go/parser"
	"go/token"
	"os"
	"path/filepath"
	"sort"
	"strings"
)

type target struct {
	dir, recv, fn, lean string
}

var targets = []target{
	{"tokens", "Token", "Marshal", "token_Marshal"},
	{"tokens", "Token", "AuthenticatorInput", "token_AuthenticatorInput"},
	{"tokens/type1", "", "UnmarshalPrivateToken", "type1_UnmarshalToken"},
	{"tokens/type2", "", "UnmarshalToken", "type2_UnmarshalToken"},
	{"tokens/type3", "", "UnmarshalToken", "type3_UnmarshalToken"},
	{"tokens/type5", "", "UnmarshalBatchedPrivateToken", "type5_UnmarshalToken"},
	{"tokens/type1", "BasicPrivateTokenRequest", "Marshal", "req1_Marshal"},
	{"tokens/type1", "BasicPrivateTokenRequest", "Unmarshal", "req1_Unmarshal"},
	{"tokens/type2", "BasicPublicTokenRequest", "Marshal", "req2_Marshal"},
	{"tokens/type2", "BasicPublicTokenRequest", "Unmarshal", "req2_Unmarshal"},
	{"tokens/type3", "RateLimitedTokenRequest", "Marshal", "req3_Marshal"},
	{"tokens/type3", "RateLimitedTokenRequest", "Unmarshal", "req3_Unmarshal"},
	{"tokens/type3", "InnerTokenRequest", "Marshal", "inner_Marshal"},
	{"tokens/type3", "InnerTokenRequest", "Unmarshal", "inner_Unmarshal"},
}

type pkg struct {
	fset   *token.FileSet
	files  []*ast.File
	consts map[string]constant.Value
}

func die(format string, a ...any) {
	fmt.Fprintf(os.Stderr, "wirefacts: "+format+"\n", a...)
	os.Exit(1)
}

func loadPkg(root, dir string) *pkg {
	p := &pkg{fset: token.NewFileSet(), consts: map[string]constant.Value{}}
	names, err := filepath.Glob(filepath.Join(root, dir, "*.go"))
	if err != nil || len(names) == 0 {
		die("no Go files in %s", dir)
	}
	sort.Strings(names)
	for _, n := range names {
		if strings.HasSuffix(n, "_test.go") {
			continue
		}
		f, err := parser.ParseFile(p.fset, n, nil, parser.ParseComments)
		if err != nil {
			die("%v", err)
		}
		// files guarded by the verif build tag are instrumentation, not part of the code under test
		skip := false
		for _, cg := range f.Comments {
			if cg.Pos() < f.Package && strings.Contains(cg.Text(), "go:build verif") {
				skip = true
			}
		}
		if !skip {
			p.files = append(p.files, f)
		}
	}
	// package-level integer constants; two passes so that order between files does not matter
	for pass := 0; pass < 3; pass++ {
		for _, f := range p.files {
			for _, d := range f.Decls {
				gd, ok := d.(*ast.GenDecl)
				if !ok || gd.Tok != token.CONST {
					continue
				}
				for _, sp := range gd.Specs {
					vs := sp.(*ast.ValueSpec)
					for i, n := range vs.Names {
						if i < len(vs.Values) {
							if v, ok := p.constVal(vs.Values[i]); ok {
								p.consts[n.Name] = v
							}
						}
					}
				}
			}
		}
	}
	return p
}

func (p *pkg) constVal(e ast.Expr) (constant.Value, bool) {
	switch x := e.(type) {
	case *ast.BasicLit:
		if x.Kind != token.INT {
			return nil, false
		}
		return constant.MakeFromLiteral(x.Value, token.INT, 0), true
	case *ast.Ident:
		v, ok := p.consts[x.Name]
		return v, ok
	case *ast.ParenExpr:
		return p.constVal(x.X)
	case *ast.CallExpr: // conversion such as uint16(0x0001)
		if id, ok := x.Fun.(*ast.Ident); ok && len(x.Args) == 1 && strings.HasPrefix(id.Name, "uint") {
			return p.constVal(x.Args[0])
		}
	case *ast.BinaryExpr:
		a, ok1 := p.constVal(x.X)
		b, ok2 := p.constVal(x.Y)
		if ok1 && ok2 && (x.Op == token.ADD || x.Op == token.SUB || x.Op == token.MUL) {
			return constant.BinaryOp(a, x.Op, b), true
		}
	}
	return nil, false
}

func (p *pkg) find(recv, fn string) *ast.FuncDecl {
	for _, f := range p.files {
		for _, d := range f.Decls {
			fd, ok := d.(*ast.FuncDecl)
			if !ok || fd.Name.Name != fn {
				continue
			}
			r := ""
			if fd.Recv != nil && len(fd.Recv.List) == 1 {
				t := fd.Recv.List[0].Type
				if s, ok := t.(*ast.StarExpr); ok {
					t = s.X
				}
				if id, ok := t.(*ast.Ident); ok {
					r = id.Name
				}
			}
			if r == recv {
				return fd
			}
		}
	}
	return nil
}

// fieldName: the label of the thing a call reads into or writes from: `&r.F`, `r.F`, `&local`, `[]byte(r.F)`.
func fieldName(e ast.Expr) (string, bool) {
	switch x := e.(type) {
	case *ast.UnaryExpr:
		if x.Op == token.AND {
			return fieldName(x.X)
		}
	case *ast.SelectorExpr:
		return x.Sel.Name, true
	case *ast.Ident:
		return x.Name, true
	case *ast.ParenExpr:
		return fieldName(x.X)
	case *ast.CallExpr: // []byte(r.F)
		if _, ok := x.Fun.(*ast.ArrayType); ok && len(x.Args) == 1 {
			return fieldName(x.Args[0])
		}
	}
	return "", false
}

type extractor struct {
	p      *pkg
	name   string
	events []string
	where  func(ast.Node) string
}

func (x *extractor) emit(format string, a ...any) { x.events = append(x.events, fmt.Sprintf(format, a...)) }

func (x *extractor) bad(n ast.Node, what string) {
	die("%s: %s: unexpected %s", x.name, x.where(n), what)
}

var harmlessCalls = map[string]bool{"make": true, "copy": true, "len": true, "NewBuilder": true, "String": true, "BytesOrPanic": true, "Errorf": true}

func (x *extractor) call(c *ast.CallExpr) bool {
	name := ""
	switch f := c.Fun.(type) {
	case *ast.SelectorExpr:
		name = f.Sel.Name
	case *ast.Ident:
		name = f.Name
	case *ast.ArrayType: // []byte(...)
		return true
	default:
		x.bad(c, "call form")
	}
	arg := func(i int) string {
		if i >= len(c.Args) {
			x.bad(c, "arity of "+name)
		}
		s, ok := fieldName(c.Args[i])
		if !ok {
			x.bad(c, "argument of "+name)
		}
		return s
	}
	num := func(i int) string {
		v, ok := x.p.constVal(c.Args[i])
		if !ok {
			x.bad(c, "non-constant width in "+name)
		}
		return v.ExactString()
	}
	switch name {
	case "ReadUint8":
		x.emit(".u8 %q", arg(0))
	case "ReadUint16":
		x.emit(".u16 %q", arg(0))
	case "ReadBytes":
		x.emit(".fixed %s %q", num(1), arg(0))
	case "ReadUint8LengthPrefixed":
		x.emit(".vec8 %q", arg(0))
	case "ReadUint16LengthPrefixed":
		x.emit(".vec16 %q", arg(0))
	case "Empty":
		recv, _ := fieldName(c.Fun.(*ast.SelectorExpr).X)
		if recv == "s" {
			x.emit(".endStrict")
		} else {
			x.emit(".nonEmpty %q", recv)
		}
	case "AddUint8":
		x.emit(".wU8 %q", arg(0))
	case "AddUint16":
		if v, ok := x.p.constVal(c.Args[0]); ok {
			x.emit(".wConst16 %s", v.ExactString())
		} else {
			x.emit(".wU16 %q", arg(0))
		}
	case "AddBytes":
		x.emit(".wBytes %q", arg(0))
	case "AddUint8LengthPrefixed", "AddUint16LengthPrefixed":
		fl, ok := c.Args[0].(*ast.FuncLit)
		if !ok || len(fl.Body.List) != 1 {
			x.bad(c, "length-prefixed builder body")
		}
		es, ok := fl.Body.List[0].(*ast.ExprStmt)
		if !ok {
			x.bad(c, "length-prefixed builder body")
		}
		ic, ok := es.X.(*ast.CallExpr)
		if !ok {
			x.bad(c, "length-prefixed builder body")
		}
		if sel, ok := ic.Fun.(*ast.SelectorExpr); !ok || sel.Sel.Name != "AddBytes" {
			x.bad(c, "length-prefixed builder body")
		}
		f, ok := fieldName(ic.Args[0])
		if !ok {
			x.bad(c, "length-prefixed builder body")
		}
		if name == "AddUint8LengthPrefixed" {
			x.emit(".wVec8 %q", f)
		} else {
			x.emit(".wVec16 %q", f)
		}
		return false // do not descend into the closure
	case "copy":
		dst, ok1 := fieldName(c.Args[0])
		src, ok2 := fieldName(c.Args[1])
		if !ok1 || !ok2 {
			x.bad(c, "copy form")
		}
		x.emit(".copy %q %q", dst, src)
	default:
		if !harmlessCalls[name] && !strings.HasPrefix(name, "uint") {
			x.bad(c, "call of "+name)
		}
	}
	return true
}

func (x *extractor) run(fd *ast.FuncDecl) {
	ast.Inspect(fd.Body, func(n ast.Node) bool {
		switch s := n.(type) {
		case *ast.ForStmt, *ast.RangeStmt, *ast.GoStmt, *ast.DeferStmt, *ast.SwitchStmt, *ast.SelectStmt:
			x.bad(n, "statement")
		case *ast.AssignStmt:
			if len(s.Lhs) == 1 {
				if l, ok := fieldName(s.Lhs[0]); ok && l == "raw" {
					if id, ok := s.Rhs[0].(*ast.Ident); ok && id.Name == "nil" {
						x.emit(".resetRaw")
					} else {
						x.emit(".storeRaw")
					}
				}
			}
		case *ast.IfStmt:
			if b, ok := s.Cond.(*ast.BinaryExpr); ok && b.Op == token.NEQ {
				if l, ok := fieldName(b.X); ok && l == "raw" {
					x.emit(".cacheHit")
					return false
				}
			}
		case *ast.BinaryExpr:
			if s.Op == token.NEQ || s.Op == token.EQL {
				if l, ok := s.X.(*ast.Ident); ok {
					if v, ok := x.p.constVal(s.Y); ok && s.Op == token.NEQ {
						x.emit(".checkEq %q %s", l.Name, v.ExactString())
					}
				}
			}
		case *ast.ReturnStmt:
			if len(s.Results) == 1 {
				if id, ok := s.Results[0].(*ast.Ident); ok && id.Name == "true" {
					x.emit(".endLax")
				}
			}
		case *ast.CallExpr:
			return x.call(s)
		}
		return true
	})
}

func main() {
	if len(os.Args) != 2 {
		die("usage: wirefacts <repo root>")
	}
	pkgs := map[string]*pkg{}
	var out strings.Builder
	out.WriteString("import PatVerif.Model.WireEv\n/-! GENERATED by /verif/extract/cmd/wirefacts from the Marshal/Unmarshal functions of tokens/… — do not edit. -/\n")
	out.WriteString("namespace PatVerif.Generated.WireFacts\nopen PatVerif.WireEv\n\n")
	for _, t := range targets {
		p := pkgs[t.dir]
		if p == nil {
			p = loadPkg(os.Args[1], t.dir)
			pkgs[t.dir] = p
		}
		fd := p.find(t.recv, t.fn)
		if fd == nil {
			die("%s: function %s.%s not found", t.dir, t.recv, t.fn)
		}
		x := &extractor{p: p, name: t.dir + ":" + t.recv + "." + t.fn, where: func(n ast.Node) string { return p.fset.Position(n.Pos()).String() }}
		x.run(fd)
		fmt.Fprintf(&out, "/-- %s (%s.%s) -/\ndef %s : List Ev :=\n  [%s]\n\n", t.dir, t.recv, t.fn, t.lean, strings.Join(x.events, ",\n   "))
	}
	out.WriteString("end PatVerif.Generated.WireFacts\n")
	fmt.Print(out.String())
}
