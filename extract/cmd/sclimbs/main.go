// Command sclimbs translates the limb arithmetic of ed25519/internal/edwards25519/scalar.go — scReduce, scMulAdd and
// their helpers load3/load4 — into Lean (T1 of DESIGN.md §4, for C14/C15).
//
// Both functions are straight-line code over int64 locals. The body is cut into blocks wherever the source leaves a
// blank line (the ref10 text groups its statements this way: one fold of a high limb, one round of carries, …). Each block
// becomes
//
//	def <fn>_b<k>      (l : Limbs) : Limbs      the values, computed in unbounded Int
//	def <fn>_b<k>_safe (l : Limbs) : Prop       every +, -, *, << of the block stays inside int64, every | has non-negative operands
//
// so that, where the _safe conditions hold, Go's wrapping int64 evaluation and the Int evaluation coincide (this
// reading of int64 arithmetic is the translator's part of the trusted base). Operators are rendered through
// PatVerif.Go (ishr = floor division by 2^k, the arithmetic shift; ishl = multiplication by 2^k; iand with a mask
// 2^j-1 = remainder mod 2^j; ior = bitwise or of non-negative values; toByte = remainder mod 256).
// The byte loads at the head and the byte stores at the tail become <fn>_load and <fn>_store.
//
// Usage: sclimbs <repo root>   (Lean module on stdout)
package main

import (
	"fmt"
	"go/ast"
	"go/parser"
	"go/token"
	"math/big"
	"os"
	"path/filepath"
	"sort"
	"strconv"
	"strings"
)

func die(format string, a ...any) {
	fmt.Fprintf(os.Stderr, "sclimbs: "+format+"\n", a...)
	os.Exit(1)
}

var fset = token.NewFileSet()

func pos(n ast.Node) string { return fset.Position(n.Pos()).String() }

// ---- expressions ----

type tr struct {
	byteArrays map[string]bool // parameters of array-of-byte type (read through load3/load4)
	loadParam  string          // inside load3/load4: the slice parameter
	conds      []string        // side conditions collected for the statement being translated
}

func lit(e ast.Expr) (*big.Int, bool) {
	switch x := e.(type) {
	case *ast.BasicLit:
		if x.Kind != token.INT {
			return nil, false
		}
		v, ok := new(big.Int).SetString(x.Value, 0)
		return v, ok
	case *ast.ParenExpr:
		return lit(x.X)
	case *ast.BinaryExpr:
		a, ok1 := lit(x.X)
		b, ok2 := lit(x.Y)
		if !ok1 || !ok2 {
			return nil, false
		}
		switch x.Op {
		case token.SHL:
			return new(big.Int).Lsh(a, uint(b.Int64())), true
		case token.ADD:
			return new(big.Int).Add(a, b), true
		case token.SUB:
			return new(big.Int).Sub(a, b), true
		case token.MUL:
			return new(big.Int).Mul(a, b), true
		}
	}
	return nil, false
}

func (t *tr) inRange(e string) { t.conds = append(t.conds, "Go.inI64 "+e) }

func (t *tr) expr(e ast.Expr) string {
	if v, ok := lit(e); ok {
		if v.Sign() < 0 {
			return "(" + v.String() + ")"
		}
		return v.String()
	}
	switch x := e.(type) {
	case *ast.ParenExpr:
		return t.expr(x.X)
	case *ast.Ident:
		return x.Name
	case *ast.IndexExpr:
		// carry[i] (a local int64 array) or in[i] inside load3/load4
		id, ok := x.X.(*ast.Ident)
		iv, ok2 := lit(x.Index)
		if !ok || !ok2 {
			die("%s: unsupported index expression", pos(e))
		}
		if id.Name == t.loadParam {
			return fmt.Sprintf("(b (o + %s))", iv)
		}
		return id.Name + iv.String()
	case *ast.CallExpr:
		fn, ok := x.Fun.(*ast.Ident)
		if !ok || len(x.Args) != 1 {
			die("%s: unsupported call", pos(e))
		}
		switch fn.Name {
		case "int64":
			// int64(in[i]) of a byte: the value itself
			return t.expr(x.Args[0])
		case "byte":
			return "(Go.toByte " + t.expr(x.Args[0]) + ")"
		case "load3", "load4":
			sl, ok := x.Args[0].(*ast.SliceExpr)
			if !ok || sl.High != nil || sl.Max != nil {
				die("%s: load argument must be x[k:]", pos(e))
			}
			arr, ok := sl.X.(*ast.Ident)
			if !ok || !t.byteArrays[arr.Name] {
				die("%s: load from something that is not a byte-array parameter", pos(e))
			}
			off := big.NewInt(0)
			if sl.Low != nil {
				v, ok := lit(sl.Low)
				if !ok {
					die("%s: non-constant offset", pos(e))
				}
				off = v
			}
			t.conds = append(t.conds, fmt.Sprintf("%s_safe %s %s", fn.Name, arr.Name, off))
			return fmt.Sprintf("(%s %s %s)", fn.Name, arr.Name, off)
		}
		die("%s: unsupported call to %s", pos(e), fn.Name)
	case *ast.BinaryExpr:
		switch x.Op {
		case token.ADD, token.SUB, token.MUL:
			a, b := t.expr(x.X), t.expr(x.Y)
			s := fmt.Sprintf("(%s %s %s)", a, x.Op.String(), b)
			t.inRange(s)
			return s
		case token.SHL, token.SHR:
			k, ok := lit(x.Y)
			if !ok || k.Sign() < 0 || k.Cmp(big.NewInt(63)) > 0 {
				die("%s: shift by a non-constant", pos(e))
			}
			a := t.expr(x.X)
			if x.Op == token.SHR {
				return fmt.Sprintf("(Go.ishr %s %s)", a, k)
			}
			s := fmt.Sprintf("(Go.ishl %s %s)", a, k)
			t.inRange(s)
			return s
		case token.AND:
			m, ok := lit(x.X)
			other := x.Y
			if !ok {
				m, ok = lit(x.Y)
				other = x.X
			}
			if !ok {
				die("%s: & without a constant mask", pos(e))
			}
			m1 := new(big.Int).Add(m, big.NewInt(1))
			if m.Sign() <= 0 || new(big.Int).And(m, m1).Sign() != 0 {
				die("%s: mask %s is not 2^j-1", pos(e), m)
			}
			return fmt.Sprintf("(Go.iand %d %s)", m1.BitLen()-1, t.expr(other))
		case token.OR:
			a, b := t.expr(x.X), t.expr(x.Y)
			t.conds = append(t.conds, "0 ≤ "+a, "0 ≤ "+b)
			return fmt.Sprintf("(Go.ior %s %s)", a, b)
		}
	}
	die("%s: unsupported expression %T", pos(e), e)
	return ""
}

// ---- statements ----

type stmt struct {
	lhs   string // Lean name assigned ("" for a byte store)
	store int    // index of a byte store, -1 otherwise
	rhs   string
	conds []string
	line  int
}

func (t *tr) stmt(s ast.Stmt, outArr string) *stmt {
	switch x := s.(type) {
	case *ast.DeclStmt:
		return nil // var carry [N]int64
	case *ast.AssignStmt:
		if len(x.Lhs) != 1 || len(x.Rhs) != 1 {
			die("%s: unsupported assignment", pos(s))
		}
		t.conds = nil
		st := &stmt{store: -1, line: fset.Position(s.Pos()).Line}
		var cur string
		switch l := x.Lhs[0].(type) {
		case *ast.Ident:
			st.lhs, cur = l.Name, l.Name
		case *ast.IndexExpr:
			id, ok := l.X.(*ast.Ident)
			iv, ok2 := lit(l.Index)
			if !ok || !ok2 {
				die("%s: unsupported assignment target", pos(s))
			}
			if id.Name == outArr {
				st.store = int(iv.Int64())
			} else {
				st.lhs, cur = id.Name+iv.String(), id.Name+iv.String()
			}
		default:
			die("%s: unsupported assignment target", pos(s))
		}
		r := t.expr(x.Rhs[0])
		switch x.Tok {
		case token.DEFINE, token.ASSIGN:
		case token.ADD_ASSIGN, token.SUB_ASSIGN, token.OR_ASSIGN:
			op := map[token.Token]string{token.ADD_ASSIGN: "+", token.SUB_ASSIGN: "-"}[x.Tok]
			if x.Tok == token.OR_ASSIGN {
				t.conds = append(t.conds, "0 ≤ "+cur, "0 ≤ "+r)
				r = fmt.Sprintf("(Go.ior %s %s)", cur, r)
			} else {
				r = fmt.Sprintf("(%s %s %s)", cur, op, r)
				t.inRange(r)
			}
		default:
			die("%s: unsupported assignment operator %s", pos(s), x.Tok)
		}
		st.rhs, st.conds = r, t.conds
		return st
	case *ast.ReturnStmt:
		return nil
	}
	die("%s: unsupported statement %T", pos(s), s)
	return nil
}

// ---- emitting ----

var limbNames = func() []string {
	var n []string
	for i := 0; i < 24; i++ {
		n = append(n, "s"+strconv.Itoa(i))
	}
	return n
}()

func isLimb(n string) bool {
	if !strings.HasPrefix(n, "s") {
		return false
	}
	k, err := strconv.Atoi(n[1:])
	return err == nil && k >= 0 && k < 24
}

func emitLets(sb *strings.Builder, stmts []*stmt, indent string) {
	for _, s := range stmts {
		fmt.Fprintf(sb, "%slet %s := %s\n", indent, s.lhs, s.rhs)
	}
}

// safe: nested so that each condition sees the variables as they are at that statement
func emitSafe(sb *strings.Builder, stmts []*stmt, indent string) {
	depth := 0
	for _, s := range stmts {
		if s.store < 0 {
			// conditions of the right-hand side are stated about the value before the name is rebound
		}
		for _, c := range s.conds {
			fmt.Fprintf(sb, "%s%s ∧\n", indent, c)
		}
		if s.store < 0 {
			fmt.Fprintf(sb, "%s(let %s := %s\n", indent, s.lhs, s.rhs)
			depth++
		}
	}
	fmt.Fprintf(sb, "%sTrue%s\n", indent, strings.Repeat(")", depth))
}

func limbRecord(stmts []*stmt, inputs string) string {
	// all 24 limbs, current names (a limb never assigned keeps the value it came in with)
	var fs []string
	for _, n := range limbNames {
		fs = append(fs, n+" := "+n)
	}
	return "{ " + strings.Join(fs, ", ") + " }"
}

func translateFunc(sb *strings.Builder, fd *ast.FuncDecl) {
	name := fd.Name.Name
	t := &tr{byteArrays: map[string]bool{}}
	var params []string
	for _, f := range fd.Type.Params.List {
		for _, n := range f.Names {
			t.byteArrays[n.Name] = true
			params = append(params, n.Name)
		}
	}
	outArr := params[0] // both functions write their first parameter
	// cut into blocks at blank lines
	var blocks [][]*stmt
	lastLine := -10
	for _, s := range fd.Body.List {
		if _, ok := s.(*ast.DeclStmt); ok {
			continue
		}
		st := t.stmt(s, outArr)
		if st == nil {
			continue
		}
		endLine := fset.Position(s.End()).Line
		if st.line > lastLine+1 || len(blocks) == 0 {
			blocks = append(blocks, nil)
		}
		blocks[len(blocks)-1] = append(blocks[len(blocks)-1], st)
		lastLine = endLine
	}
	// classify: load blocks (define names that are not limbs, or limbs from loads) come first, the store block last
	isStore := func(b []*stmt) bool { return b[0].store >= 0 }
	readsBytes := func(b []*stmt) bool {
		for _, s := range b {
			if strings.Contains(s.rhs, "(load3 ") || strings.Contains(s.rhs, "(load4 ") {
				return true
			}
		}
		return false
	}
	ins := params[1:]
	sig := ""
	for _, p := range ins {
		sig += fmt.Sprintf(" (%s : Nat → Int)", p)
	}
	var chain []string
	k := 0
	i := 0
	// head: every block that reads bytes, plus (scMulAdd) the block that forms the products from a*, b*, c*
	var head []*stmt
	for i < len(blocks) && readsBytes(blocks[i]) {
		head = append(head, blocks[i]...)
		i++
	}
	definesLimbsFromNonLimbs := func(b []*stmt) bool {
		for _, s := range b {
			if !isLimb(s.lhs) {
				return false
			}
		}
		return strings.Contains(b[0].rhs, "a0") || strings.Contains(b[0].rhs, "c0")
	}
	if i < len(blocks) && definesLimbsFromNonLimbs(blocks[i]) {
		head = append(head, blocks[i]...)
		i++
	}
	defined := map[string]bool{}
	for _, s := range head {
		defined[s.lhs] = true
	}
	for _, n := range limbNames {
		if !defined[n] {
			die("%s: limb %s is not defined by the head of the function", name, n)
		}
	}
	fmt.Fprintf(sb, "/-- `%s`: byte loads%s (source lines %d–%d) -/\n", name, map[bool]string{true: " and the limb products", false: ""}[len(ins) > 1], head[0].line, head[len(head)-1].line)
	fmt.Fprintf(sb, "def %s_load%s : Limbs :=\n", name, sig)
	emitLets(sb, head, "  ")
	fmt.Fprintf(sb, "  %s\n\n", limbRecord(head, ""))
	fmt.Fprintf(sb, "def %s_load_safe%s : Prop :=\n", name, sig)
	emitSafe(sb, head, "  ")
	sb.WriteString("\n")
	prelude := func() string {
		var b strings.Builder
		for _, n := range limbNames {
			fmt.Fprintf(&b, "  let %s := l.%s\n", n, n)
		}
		return b.String()
	}
	for ; i < len(blocks); i++ {
		b := blocks[i]
		if isStore(b) {
			break
		}
		k++
		for _, s := range b {
			if s.store >= 0 {
				die("%s: byte store in the middle of the function (line %d)", name, s.line)
			}
		}
		// a carry must be assigned in the block that reads it
		assigned := map[string]bool{}
		for _, s := range b {
			for _, w := range strings.FieldsFunc(s.rhs, func(r rune) bool {
				return !(r == '_' || r >= '0' && r <= '9' || r >= 'a' && r <= 'z' || r >= 'A' && r <= 'Z' || r == '.')
			}) {
				if strings.HasPrefix(w, "carry") && !assigned[w] {
					die("%s: %s read before it is assigned in its block (line %d)", name, w, s.line)
				}
			}
			assigned[s.lhs] = true
		}
		fmt.Fprintf(sb, "/-- `%s`, source lines %d–%d -/\n", name, b[0].line, b[len(b)-1].line)
		fmt.Fprintf(sb, "def %s_b%d (l : Limbs) : Limbs :=\n%s", name, k, prelude())
		emitLets(sb, b, "  ")
		fmt.Fprintf(sb, "  %s\n\n", limbRecord(b, ""))
		fmt.Fprintf(sb, "def %s_b%d_safe (l : Limbs) : Prop :=\n%s", name, k, prelude())
		emitSafe(sb, b, "  ")
		sb.WriteString("\n")
		chain = append(chain, fmt.Sprintf("%s_b%d", name, k))
	}
	if i != len(blocks)-1 {
		die("%s: expected exactly one block of byte stores at the end", name)
	}
	st := blocks[i]
	sort.SliceStable(st, func(a, b int) bool { return st[a].store < st[b].store })
	for j, s := range st {
		if s.store != j {
			die("%s: byte stores do not cover 0..%d exactly once", name, len(st)-1)
		}
	}
	fmt.Fprintf(sb, "/-- `%s`: byte stores (source lines %d–%d) -/\n", name, blocks[i][0].line, blocks[i][len(st)-1].line)
	fmt.Fprintf(sb, "def %s_store (l : Limbs) : List Int :=\n%s  [", name, prelude())
	for j, s := range st {
		if j > 0 {
			sb.WriteString(",\n   ")
		}
		sb.WriteString(s.rhs)
	}
	sb.WriteString("]\n\n")
	fmt.Fprintf(sb, "def %s_store_safe (l : Limbs) : Prop :=\n%s", name, prelude())
	emitSafe(sb, st, "  ")
	sb.WriteString("\n")
	// the blocks in order, and the whole function
	fmt.Fprintf(sb, "def %s_blocks : List (Limbs → Limbs) := [%s]\n", name, strings.Join(chain, ", "))
	fmt.Fprintf(sb, "def %s_safes : List (Limbs → Prop) := [%s]\n\n", name, strings.Join(func() []string {
		var o []string
		for _, c := range chain {
			o = append(o, c+"_safe")
		}
		return o
	}(), ", "))
	args := strings.Join(ins, " ")
	fmt.Fprintf(sb, "def %s%s : List Int := %s_store (%s_blocks.foldl (fun l f => f l) (%s_load %s))\n\n", name, sig, name, name, name, args)
}

func translateLoad(sb *strings.Builder, fd *ast.FuncDecl) {
	t := &tr{byteArrays: map[string]bool{}, loadParam: fd.Type.Params.List[0].Names[0].Name}
	var stmts []*stmt
	var ret string
	for _, s := range fd.Body.List {
		if r, ok := s.(*ast.ReturnStmt); ok {
			ret = t.expr(r.Results[0])
			continue
		}
		if st := t.stmt(s, ""); st != nil {
			stmts = append(stmts, st)
		}
	}
	fmt.Fprintf(sb, "def %s (b : Nat → Int) (o : Nat) : Int :=\n", fd.Name.Name)
	emitLets(sb, stmts, "  ")
	fmt.Fprintf(sb, "  %s\n\n", ret)
	fmt.Fprintf(sb, "def %s_safe (b : Nat → Int) (o : Nat) : Prop :=\n", fd.Name.Name)
	emitSafe(sb, stmts, "  ")
	sb.WriteString("\n")
}

// ---- the Scalar constants, the methods that are one call of scMulAdd / scReduce, and isReduced ----

var scConsts = []string{"scZero", "scOne", "scMinusOne"}

func translateConsts(sb *strings.Builder, f *ast.File) {
	found := map[string]bool{}
	for _, d := range f.Decls {
		gd, ok := d.(*ast.GenDecl)
		if !ok || gd.Tok != token.VAR {
			continue
		}
		for _, sp := range gd.Specs {
			vs := sp.(*ast.ValueSpec)
			for i, n := range vs.Names {
				want := false
				for _, c := range scConsts {
					want = want || c == n.Name
				}
				if !want || i >= len(vs.Values) {
					continue
				}
				// Scalar{[32]byte{...}}
				outer, ok := vs.Values[i].(*ast.CompositeLit)
				if !ok || len(outer.Elts) != 1 {
					die("%s: unexpected shape of %s", pos(vs), n.Name)
				}
				inner, ok := outer.Elts[0].(*ast.CompositeLit)
				if !ok || len(inner.Elts) != 32 {
					die("%s: %s is not a 32-byte literal", pos(vs), n.Name)
				}
				var xs []string
				for _, e := range inner.Elts {
					v, ok := lit(e)
					if !ok {
						die("%s: non-constant byte in %s", pos(e), n.Name)
					}
					xs = append(xs, v.String())
				}
				fmt.Fprintf(sb, "def %s_bytes : List Int := [%s]\n", n.Name, strings.Join(xs, ", "))
				fmt.Fprintf(sb, "def %s : Nat → Int := fun i => %s_bytes.getD i 0\n\n", n.Name, n.Name)
				found[n.Name] = true
			}
		}
	}
	for _, c := range scConsts {
		if !found[c] {
			die("constant %s not found", c)
		}
	}
}

// a method whose body is `scMulAdd(&s.s, &A.s, &B.s, &C.s); return s`
func translateWrappers(sb *strings.Builder, f *ast.File) {
	operand := func(e ast.Expr) string {
		// &X.s
		u, ok := e.(*ast.UnaryExpr)
		if !ok || u.Op != token.AND {
			die("%s: operand is not &X.s", pos(e))
		}
		sel, ok := u.X.(*ast.SelectorExpr)
		if !ok || sel.Sel.Name != "s" {
			die("%s: operand is not &X.s", pos(e))
		}
		return sel.X.(*ast.Ident).Name
	}
	for _, name := range []string{"MultiplyAdd", "Add", "Subtract", "Negate", "Multiply"} {
		var fd *ast.FuncDecl
		for _, d := range f.Decls {
			if x, ok := d.(*ast.FuncDecl); ok && x.Recv != nil && x.Name.Name == name {
				fd = x
			}
		}
		if fd == nil {
			die("method %s not found", name)
		}
		recv := fd.Recv.List[0].Names[0].Name
		if len(fd.Body.List) != 2 {
			die("%s: method %s is not one call and a return", pos(fd), name)
		}
		es, ok := fd.Body.List[0].(*ast.ExprStmt)
		if !ok {
			die("%s: method %s: first statement is not a call", pos(fd), name)
		}
		call, ok := es.X.(*ast.CallExpr)
		if !ok || call.Fun.(*ast.Ident).Name != "scMulAdd" || len(call.Args) != 4 || operand(call.Args[0]) != recv {
			die("%s: method %s does not call scMulAdd(&%s.s, …)", pos(fd), name, recv)
		}
		ret, ok := fd.Body.List[1].(*ast.ReturnStmt)
		if !ok || len(ret.Results) != 1 || ret.Results[0].(*ast.Ident).Name != recv {
			die("%s: method %s does not return its receiver", pos(fd), name)
		}
		var params []string
		for _, fl := range fd.Type.Params.List {
			for _, n := range fl.Names {
				params = append(params, fmt.Sprintf("(%s : Nat → Int)", n.Name))
			}
		}
		fmt.Fprintf(sb, "/-- `(*Scalar).%s` -/\ndef Scalar_%s %s : List Int := scMulAdd %s %s %s\n\n", name, name, strings.Join(params, " "),
			operand(call.Args[1]), operand(call.Args[2]), operand(call.Args[3]))
	}
	// SetUniformBytes / SetBytes: len check, zeroed wide buffer, copy, scReduce
	for _, name := range []string{"SetUniformBytes", "SetBytes"} {
		var fd *ast.FuncDecl
		for _, d := range f.Decls {
			if x, ok := d.(*ast.FuncDecl); ok && x.Recv != nil && x.Name.Name == name {
				fd = x
			}
		}
		if fd == nil {
			die("method %s not found", name)
		}
		recv := fd.Recv.List[0].Names[0].Name
		arg := fd.Type.Params.List[0].Names[0].Name
		b := fd.Body.List
		if len(b) != 5 {
			die("%s: method %s has %d statements, expected 5", pos(fd), name, len(b))
		}
		// if len(x) != N { panic }
		ifs, ok := b[0].(*ast.IfStmt)
		var n *big.Int
		if ok {
			if c, ok := ifs.Cond.(*ast.BinaryExpr); ok && c.Op == token.NEQ {
				if ce, ok := c.X.(*ast.CallExpr); ok && ce.Fun.(*ast.Ident).Name == "len" && ce.Args[0].(*ast.Ident).Name == arg {
					n, _ = lit(c.Y)
				}
			}
		}
		if n == nil {
			die("%s: method %s does not start with a length check", pos(fd), name)
		}
		// var wideBytes [64]byte
		ds, ok := b[1].(*ast.DeclStmt)
		if !ok {
			die("%s: method %s: expected `var wideBytes [64]byte`", pos(fd), name)
		}
		vs := ds.Decl.(*ast.GenDecl).Specs[0].(*ast.ValueSpec)
		at, ok := vs.Type.(*ast.ArrayType)
		wl, ok2 := lit(at.Len)
		if !ok || !ok2 || wl.Int64() != 64 || len(vs.Values) != 0 {
			die("%s: method %s: expected a zeroed [64]byte", pos(fd), name)
		}
		wide := vs.Names[0].Name
		// copy(wide[:], x[:])
		cp, ok := b[2].(*ast.ExprStmt)
		okc := false
		if ok {
			if ce, ok := cp.X.(*ast.CallExpr); ok && ce.Fun.(*ast.Ident).Name == "copy" && len(ce.Args) == 2 {
				d, ok1 := ce.Args[0].(*ast.SliceExpr)
				sx, ok2 := ce.Args[1].(*ast.SliceExpr)
				okc = ok1 && ok2 && d.Low == nil && d.High == nil && sx.Low == nil && sx.High == nil && d.X.(*ast.Ident).Name == wide && sx.X.(*ast.Ident).Name == arg
			}
		}
		if !okc {
			die("%s: method %s: expected copy(%s[:], %s[:])", pos(fd), name, wide, arg)
		}
		// scReduce(&s.s, &wide)
		rd, ok := b[3].(*ast.ExprStmt)
		okr := false
		if ok {
			if ce, ok := rd.X.(*ast.CallExpr); ok && ce.Fun.(*ast.Ident).Name == "scReduce" && len(ce.Args) == 2 && operand(ce.Args[0]) == recv {
				if u, ok := ce.Args[1].(*ast.UnaryExpr); ok && u.Op == token.AND && u.X.(*ast.Ident).Name == wide {
					okr = true
				}
			}
		}
		if !okr {
			die("%s: method %s: expected scReduce(&%s.s, &%s)", pos(fd), name, recv, wide)
		}
		fmt.Fprintf(sb, "/-- `(*Scalar).%s` on an input of the %s bytes it insists on: the first %s bytes of a zeroed 64-byte buffer, then `scReduce` -/\n", name, n, n)
		fmt.Fprintf(sb, "def Scalar_%s (%s : Nat → Int) : List Int := scReduce (fun i => if i < %s then %s i else 0)\n\n", name, arg, n, arg)
	}
}

// isReduced: a downward loop over the bytes with a tagless switch of comparisons against scMinusOne
func translateIsReduced(sb *strings.Builder, f *ast.File) {
	var fd *ast.FuncDecl
	for _, d := range f.Decls {
		if x, ok := d.(*ast.FuncDecl); ok && x.Recv == nil && x.Name.Name == "isReduced" {
			fd = x
		}
	}
	if fd == nil {
		die("isReduced not found")
	}
	arg := fd.Type.Params.List[0].Names[0].Name
	if len(fd.Body.List) != 2 {
		die("%s: isReduced: expected a loop and a return", pos(fd))
	}
	loop, ok := fd.Body.List[0].(*ast.ForStmt)
	if !ok {
		die("%s: isReduced: expected a for loop", pos(fd))
	}
	// i := len(s.s) - 1; i >= 0; i--
	init, ok1 := loop.Init.(*ast.AssignStmt)
	cond, ok2 := loop.Cond.(*ast.BinaryExpr)
	post, ok3 := loop.Post.(*ast.IncDecStmt)
	if !ok1 || !ok2 || !ok3 || post.Tok != token.DEC || cond.Op != token.GEQ {
		die("%s: isReduced: loop is not `for i := len-1; i >= 0; i--`", pos(loop))
	}
	iv := init.Lhs[0].(*ast.Ident).Name
	ib, ok := init.Rhs[0].(*ast.BinaryExpr)
	if !ok || ib.Op != token.SUB {
		die("%s: isReduced: loop does not start at len-1", pos(loop))
	}
	if one, ok := lit(ib.Y); !ok || one.Int64() != 1 {
		die("%s: isReduced: loop does not start at len-1", pos(loop))
	}
	if z, ok := lit(cond.Y); !ok || z.Sign() != 0 || cond.X.(*ast.Ident).Name != iv {
		die("%s: isReduced: loop condition is not i >= 0", pos(loop))
	}
	if len(loop.Body.List) != 1 {
		die("%s: isReduced: loop body is not one switch", pos(loop))
	}
	sw, ok := loop.Body.List[0].(*ast.SwitchStmt)
	if !ok || sw.Tag != nil || sw.Init != nil {
		die("%s: isReduced: loop body is not a tagless switch", pos(loop))
	}
	side := func(e ast.Expr) string {
		// X.s[i]
		ix, ok := e.(*ast.IndexExpr)
		if !ok || ix.Index.(*ast.Ident).Name != iv {
			die("%s: isReduced: comparison operand is not X.s[%s]", pos(e), iv)
		}
		sel := ix.X.(*ast.SelectorExpr)
		n := sel.X.(*ast.Ident).Name
		if n == arg {
			return "(s i)"
		}
		return "(" + n + " i)"
	}
	var arms []string
	for _, c := range sw.Body.List {
		cc := c.(*ast.CaseClause)
		if len(cc.List) != 1 || len(cc.Body) != 1 {
			die("%s: isReduced: unsupported case", pos(cc))
		}
		be, ok := cc.List[0].(*ast.BinaryExpr)
		if !ok {
			die("%s: isReduced: case is not a comparison", pos(cc))
		}
		op := map[token.Token]string{token.GTR: ">", token.LSS: "<", token.GEQ: "≥", token.LEQ: "≤", token.EQL: "=", token.NEQ: "≠"}[be.Op]
		if op == "" {
			die("%s: isReduced: unsupported comparison", pos(cc))
		}
		ret, ok := cc.Body[0].(*ast.ReturnStmt)
		if !ok {
			die("%s: isReduced: case does not return", pos(cc))
		}
		arms = append(arms, fmt.Sprintf("if %s %s %s then %s", side(be.X), op, side(be.Y), ret.Results[0].(*ast.Ident).Name))
	}
	last := fd.Body.List[1].(*ast.ReturnStmt).Results[0].(*ast.Ident).Name
	fmt.Fprintf(sb, "/-- `isReduced`: the loop over i = n-1, …, 0 (the argument counts the bytes still to look at) -/\n")
	fmt.Fprintf(sb, "def isReduced_loop (s : Nat → Int) : Nat → Bool\n  | 0 => %s\n  | i + 1 =>\n    %s\n    else isReduced_loop s i\n\n", last, strings.Join(arms, "\n    else "))
	fmt.Fprintf(sb, "def isReduced (s : Nat → Int) : Bool := isReduced_loop s 32\n\n")
}

func main() {
	if len(os.Args) != 2 {
		die("usage: sclimbs <repo root>")
	}
	path := filepath.Join(os.Args[1], "ed25519/internal/edwards25519/scalar.go")
	f, err := parser.ParseFile(fset, path, nil, 0)
	if err != nil {
		die("%v", err)
	}
	funcs := map[string]*ast.FuncDecl{}
	for _, d := range f.Decls {
		if fd, ok := d.(*ast.FuncDecl); ok && fd.Recv == nil {
			funcs[fd.Name.Name] = fd
		}
	}
	var sb strings.Builder
	sb.WriteString("import PatVerif.Model.GoInt\n/-! Generated by /verif/extract/cmd/sclimbs from ed25519/internal/edwards25519/scalar.go — do not edit. -/\n")
	sb.WriteString("namespace PatVerif.Generated.ScLimbs\nopen PatVerif\nset_option linter.unusedVariables false\nset_option maxRecDepth 16384\n\n")
	sb.WriteString("structure Limbs where\n")
	for _, n := range limbNames {
		fmt.Fprintf(&sb, "  %s : Int\n", n)
	}
	sb.WriteString("\n")
	for _, n := range []string{"load3", "load4"} {
		fd, ok := funcs[n]
		if !ok {
			die("function %s not found", n)
		}
		translateLoad(&sb, fd)
	}
	for _, n := range []string{"scReduce", "scMulAdd"} {
		fd, ok := funcs[n]
		if !ok {
			die("function %s not found", n)
		}
		translateFunc(&sb, fd)
	}
	translateConsts(&sb, f)
	translateWrappers(&sb, f)
	translateIsReduced(&sb, f)
	sb.WriteString("end PatVerif.Generated.ScLimbs\n")
	fmt.Print(sb.String())
}
