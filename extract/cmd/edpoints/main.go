// Command edpoints translates the point formulas of ed25519/internal/edwards25519/edwards25519.go — the conversions between
// the coordinate systems, the (re)additions, the doubling, negation, comparison, selection and conditional negation — into
// Lean (T1 of DESIGN.md §4, for C14/C15), on top of the translated field arithmetic (Generated/FeLimbs.lean).
//
// These functions contain no arithmetic of their own: each is a sequence of method calls on field elements that live in
// local variables or in fields of the point structs. The translation is literal — `v.X.Multiply(&p.X, &p.T)` becomes
// `let v := { v with X := Multiply v.X p.X p.T }` — and, as in felimbs, functional: a function that writes through its
// receiver returns the receiver's new value. Because arguments and receiver may alias, the translator refuses a function in
// which a field of one pointer operand is read after the same field of another operand of the same type was written.
// `checkInitialized` (a panic on the all-zero Point) is dropped: points are assumed initialised, which every constructor
// guarantees. Anything outside this subset stops the translator.
//
// Usage: edpoints <repo root>   (Lean module on stdout)
package main

import (
	"fmt"
	"go/ast"
	"go/parser"
	"go/printer"
	"go/token"
	"os"
	"path/filepath"
	"sort"
	"strings"
)

func die(format string, a ...any) {
	fmt.Fprintf(os.Stderr, "edpoints: "+format+"\n", a...)
	os.Exit(1)
}

var fset = token.NewFileSet()

func pos(n ast.Node) string { return fset.Position(n.Pos()).String() }

// the field package's methods, as translated by felimbs: name -> (number of element operands after the receiver,
// takes a trailing int, result kind)
type fmeth struct {
	nElem   int
	hasCond bool
	result  string // "elem" (the receiver's new value), "nat", "pair" (receiver and first operand both change)
}

var fieldMethods = map[string]fmeth{
	"Multiply": {2, false, "elem"}, "Square": {1, false, "elem"}, "Add": {2, false, "elem"}, "Subtract": {2, false, "elem"},
	"Negate": {1, false, "elem"}, "Set": {1, false, "elem"}, "One": {0, false, "elem"}, "Zero": {0, false, "elem"},
	"Select": {2, true, "elem"}, "Swap": {1, true, "pair"}, "Invert": {1, false, "elem"}, "Equal": {1, false, "nat"},
	"IsNegative": {0, false, "nat"}, "Absolute": {1, false, "elem"},
}

var structs = map[string][][2]string{} // struct -> [(field, type)]
var structOrder []string

type fn struct {
	key, lean string
	decl      *ast.FuncDecl
	recv      [2]string   // name, type
	params    [][2]string // name, type ("*T" or "int")
	result    string      // "*T", "int", ""
}

var funcs = map[string]*fn{}

func typeStr(e ast.Expr) string {
	switch x := e.(type) {
	case *ast.Ident:
		return x.Name
	case *ast.StarExpr:
		if _, ok := x.X.(*ast.ArrayType); ok {
			return "bytes"
		}
		return "*" + typeStr(x.X)
	case *ast.SelectorExpr:
		if id, ok := x.X.(*ast.Ident); ok && id.Name == "field" && x.Sel.Name == "Element" {
			return "Element"
		}
	case *ast.ArrayType:
		return "bytes"
	case *ast.Ellipsis:
		return "..." + typeStr(x.Elt)
	}
	die("%s: unsupported type", pos(e))
	return ""
}

func fieldType(st, f string) string {
	for _, p := range structs[st] {
		if p[0] == f {
			return p[1]
		}
	}
	return ""
}

type tr struct {
	f       *fn
	types   map[string]string // variable -> struct type ("Element", "Point", …) it holds or points to
	isParam map[string]bool
	out     strings.Builder
	tmp     int
	written map[string]map[string]bool
	pend    map[string]map[string]bool
}

func (t *tr) emit(format string, a ...any) {
	t.out.WriteString("  ")
	fmt.Fprintf(&t.out, format, a...)
	t.out.WriteString("\n")
}

// place: a variable or a field of a variable holding a struct / element
type place struct {
	v, f string // variable, field ("" = the variable itself)
	typ  string
	ro   string // non-empty: a package-level constant (Lean term)
}

func (p place) lean() string {
	if p.ro != "" {
		return p.ro
	}
	if p.f == "" {
		return p.v
	}
	return p.v + "." + p.f
}

var pkgConsts = map[string]string{} // name -> type

func (t *tr) place(e ast.Expr) place {
	switch x := e.(type) {
	case *ast.ParenExpr:
		return t.place(x.X)
	case *ast.UnaryExpr:
		if x.Op == token.AND {
			return t.place(x.X)
		}
	case *ast.Ident:
		if ty, ok := t.types[x.Name]; ok {
			return place{v: x.Name, typ: ty}
		}
		if ty, ok := pkgConsts[x.Name]; ok {
			return place{typ: ty, ro: x.Name}
		}
	case *ast.SelectorExpr:
		if id, ok := x.X.(*ast.Ident); ok {
			if ty, ok := t.types[id.Name]; ok {
				ft := fieldType(ty, x.Sel.Name)
				if ft == "" {
					die("%s: %s has no field %s", pos(e), ty, x.Sel.Name)
				}
				return place{v: id.Name, f: x.Sel.Name, typ: ft}
			}
		}
	case *ast.CallExpr:
		// new(T): a fresh zero value; or a nested method call returning its receiver
		if id, ok := x.Fun.(*ast.Ident); ok && id.Name == "new" && len(x.Args) == 1 {
			ty := typeStr(x.Args[0])
			t.tmp++
			n := fmt.Sprintf("tmp_%d", t.tmp)
			t.types[n] = ty
			t.emit("let %s : %s := %s", n, ty, zero(ty))
			return place{v: n, typ: ty}
		}
		pl, kind := t.call(x)
		if kind == "place" {
			return pl
		}
	}
	die("%s: cannot resolve this operand", pos(e))
	return place{}
}

func zero(ty string) string {
	if ty == "Element" {
		return "{ l0 := 0, l1 := 0, l2 := 0, l3 := 0, l4 := 0 }"
	}
	var fs []string
	for _, p := range structs[ty] {
		fs = append(fs, p[0]+" := "+zero(p[1]))
	}
	return "{ " + strings.Join(fs, ", ") + " }"
}

func (t *tr) noteRead(p place) {
	if p.ro != "" || !t.isParam[p.v] {
		return
	}
	for q, fs := range t.written {
		if q == p.v || t.types[q] != t.types[p.v] {
			continue
		}
		if fs["*"] || (p.f != "" && fs[p.f]) || (p.f == "" && len(fs) > 0) {
			die("%s: %s.%s is read after %s was written; the operands may alias", t.f.key, p.v, p.f, q)
		}
	}
}

func (t *tr) noteWrite(p place) {
	if !t.isParam[p.v] {
		return
	}
	if t.pend[p.v] == nil {
		t.pend[p.v] = map[string]bool{}
	}
	f := p.f
	if f == "" {
		f = "*"
	}
	t.pend[p.v][f] = true
}

func (t *tr) endStmt() {
	for v, fs := range t.pend {
		if t.written[v] == nil {
			t.written[v] = map[string]bool{}
		}
		for f := range fs {
			t.written[v][f] = true
		}
	}
	t.pend = map[string]map[string]bool{}
}

func (t *tr) assign(p place, val string) {
	if p.ro != "" {
		die("%s: write to the package-level value %s", t.f.key, p.ro)
	}
	if p.f == "" {
		t.emit("let %s := %s", p.v, val)
	} else {
		t.emit("let %s := { %s with %s := %s }", p.v, p.v, p.f, val)
	}
	t.noteWrite(p)
}

// call translates a method call; kind is "place" (the call returns its receiver) or "nat" (val is a term)
func (t *tr) call(x *ast.CallExpr) (place, string) {
	sel, ok := x.Fun.(*ast.SelectorExpr)
	if !ok {
		die("%s: unsupported call", pos(x))
	}
	recv := t.place(sel.X)
	name := sel.Sel.Name
	if recv.typ == "Element" {
		m, ok := fieldMethods[name]
		if !ok {
			die("%s: field method %s is not in the translated interface", pos(x), name)
		}
		want := m.nElem
		if m.hasCond {
			want++
		}
		if len(x.Args) != want {
			die("%s: wrong number of operands for %s", pos(x), name)
		}
		var ops []place
		for i := 0; i < m.nElem; i++ {
			ops = append(ops, t.place(x.Args[i]))
		}
		cond := ""
		if m.hasCond {
			cond = " " + t.intExpr(x.Args[m.nElem])
		}
		args := recv.lean()
		t.noteRead(recv)
		for _, o := range ops {
			if o.typ != "Element" {
				die("%s: operand of %s is not an element", pos(x), name)
			}
			t.noteRead(o)
			args += " " + o.lean()
		}
		leanName := name
		if name == "Add" {
			leanName = "FeLimbs.Add"
		}
		switch m.result {
		case "elem":
			t.assign(recv, fmt.Sprintf("%s %s%s", leanName, args, cond))
			return recv, "place"
		case "pair":
			t.tmp++
			r := fmt.Sprintf("r_%d", t.tmp)
			t.emit("let %s := %s %s%s", r, leanName, args, cond)
			t.assign(recv, r+".1")
			t.assign(ops[0], r+".2")
			return recv, "place"
		case "nat":
			return place{ro: fmt.Sprintf("(%s %s)", leanName, args)}, "nat"
		}
	}
	// a method of one of the point types
	f := funcs[recv.typ+"."+name]
	if f == nil {
		die("%s: %s.%s is not translated", pos(x), recv.typ, name)
	}
	if len(x.Args) != len(f.params) {
		die("%s: wrong number of operands for %s", pos(x), f.key)
	}
	args := recv.lean()
	t.noteRead(recv)
	for i, a := range x.Args {
		if f.params[i][1] == "int" {
			args += " " + t.intExpr(a)
			continue
		}
		o := t.place(a)
		if "*"+o.typ != f.params[i][1] {
			die("%s: operand %d of %s has type %s", pos(x), i, f.key, o.typ)
		}
		t.noteRead(o)
		args += " " + o.lean()
	}
	if f.result == "int" {
		return place{ro: fmt.Sprintf("(%s %s)", f.lean, args)}, "nat"
	}
	t.assign(recv, fmt.Sprintf("%s %s", f.lean, args))
	return recv, "place"
}

func (t *tr) intExpr(e ast.Expr) string {
	switch x := e.(type) {
	case *ast.Ident:
		if t.types[x.Name] == "int" {
			return x.Name
		}
	case *ast.ParenExpr:
		return t.intExpr(x.X)
	case *ast.BinaryExpr:
		if x.Op == token.AND {
			return fmt.Sprintf("(U64.and %s %s)", t.intExpr(x.X), t.intExpr(x.Y))
		}
	case *ast.CallExpr:
		if nodeName(x.Fun) == "int" && len(x.Args) == 1 {
			// int(x[31]>>7)
			if sh, ok := x.Args[0].(*ast.BinaryExpr); ok && sh.Op == token.SHR {
				ix, ok1 := sh.X.(*ast.IndexExpr)
				k, ok2 := sh.Y.(*ast.BasicLit)
				if ok1 && ok2 {
					il, ok3 := ix.Index.(*ast.BasicLit)
					if ok3 && t.types[nodeName(ix.X)] == "bytes" {
						return fmt.Sprintf("(U64.shr (%s.getD %s 0) %s)", nodeName(ix.X), il.Value, k.Value)
					}
				}
			}
			die("%s: unsupported conversion", pos(e))
		}
		p, kind := t.call(x)
		if kind == "nat" {
			return p.ro
		}
	}
	die("%s: unsupported integer expression", pos(e))
	return ""
}

func (t *tr) body() {
	for _, s := range t.f.decl.Body.List {
		t.stmt(s)
		t.endStmt()
	}
}

func (t *tr) stmt(s ast.Stmt) {
	switch x := s.(type) {
	case *ast.DeclStmt:
		gd := x.Decl.(*ast.GenDecl)
		for _, sp := range gd.Specs {
			vs := sp.(*ast.ValueSpec)
			if len(vs.Values) != 0 || gd.Tok != token.VAR {
				die("%s: unsupported declaration", pos(s))
			}
			ty := typeStr(vs.Type)
			for _, n := range vs.Names {
				t.types[n.Name] = ty
				t.emit("let %s : %s := %s", n.Name, ty, zero(ty))
			}
		}
	case *ast.ExprStmt:
		c, ok := x.X.(*ast.CallExpr)
		if !ok {
			die("%s: unsupported statement", pos(s))
		}
		if id, ok := c.Fun.(*ast.Ident); ok && id.Name == "checkInitialized" {
			return // precondition: the points are initialised (see the package comment)
		}
		t.call(c)
	case *ast.AssignStmt:
		if len(x.Lhs) == 2 && len(x.Rhs) == 1 && x.Tok == token.DEFINE {
			c, ok := x.Rhs[0].(*ast.CallExpr)
			if !ok || nodeName(c.Fun) != "SqrtRatio" || len(c.Args) != 2 {
				die("%s: unsupported two-value assignment", pos(s))
			}
			recv := t.place(c.Fun.(*ast.SelectorExpr).X)
			u, v := t.place(c.Args[0]), t.place(c.Args[1])
			if recv.v == u.v || recv.v == v.v || u.v == v.v {
				die("%s: SqrtRatio needs distinct operands", pos(s))
			}
			t.tmp++
			r := fmt.Sprintf("r_%d", t.tmp)
			t.emit("let %s := SqrtRatio %s %s %s", r, recv.lean(), u.lean(), v.lean())
			t.types[nodeName(x.Lhs[0])] = "Element"
			t.types[nodeName(x.Lhs[1])] = "int"
			t.emit("let %s := %s.1", nodeName(x.Lhs[0]), r)
			t.emit("let %s := %s.2", nodeName(x.Lhs[1]), r)
			return
		}
		if len(x.Lhs) != 1 || len(x.Rhs) != 1 {
			die("%s: unsupported assignment", pos(s))
		}
		if st, ok := x.Lhs[0].(*ast.StarExpr); ok && x.Tok == token.ASSIGN {
			// *v = *u
			dst := t.place(st.X)
			src, ok := x.Rhs[0].(*ast.StarExpr)
			if !ok {
				die("%s: unsupported assignment", pos(s))
			}
			sp := t.place(src.X)
			t.noteRead(sp)
			t.assign(dst, sp.lean())
			return
		}
		// out[31] |= byte(x.IsNegative() << 7)
		if ix, ok := x.Lhs[0].(*ast.IndexExpr); ok && x.Tok == token.OR_ASSIGN {
			arr := nodeName(ix.X)
			il, ok := ix.Index.(*ast.BasicLit)
			if !ok || t.types[arr] != "bytes" {
				die("%s: unsupported array store", pos(s))
			}
			c, ok := x.Rhs[0].(*ast.CallExpr)
			if !ok || nodeName(c.Fun) != "byte" {
				die("%s: unsupported array store", pos(s))
			}
			sh, ok := c.Args[0].(*ast.BinaryExpr)
			if !ok || sh.Op != token.SHL {
				die("%s: unsupported array store", pos(s))
			}
			k, ok := sh.Y.(*ast.BasicLit)
			if !ok {
				die("%s: unsupported array store", pos(s))
			}
			t.emit("let %s := U64.orAt %s %s (U64.toByte (U64.shl %s %s))", arr, arr, il.Value, t.intExpr(sh.X), k.Value)
			return
		}
		id, ok := x.Lhs[0].(*ast.Ident)
		if !ok {
			die("%s: unsupported assignment", pos(s))
		}
		if c, ok := x.Rhs[0].(*ast.CallExpr); ok {
			// out := copyFieldElement(buf, &y): the 32 bytes of y (the helper's body is checked in main)
			if nodeName(c.Fun) == "copyFieldElement" && x.Tok == token.DEFINE {
				p := t.place(c.Args[1])
				t.noteRead(p)
				t.types[id.Name] = "bytes"
				t.emit("let %s := FeLimbs.Bytes %s", id.Name, p.lean())
				return
			}
			// y := new(field.Element).SetBytes(x): the field decoder fails only on a length other than 32, which the guard
			// above has excluded (Proofs/EdPoints shows the other branch is never taken)
			if sel, ok := c.Fun.(*ast.SelectorExpr); ok && sel.Sel.Name == "SetBytes" && x.Tok == token.DEFINE {
				if t.types[nodeName(c.Args[0])] != "bytes" {
					die("%s: SetBytes of something that is not a byte slice", pos(s))
				}
				recv := t.place(sel.X)
				t.types[id.Name] = "Element"
				t.emit("let %s := resGet (SetBytes %s %s)", id.Name, recv.lean(), nodeName(c.Args[0]))
				return
			}
		}
		if x.Tok == token.ASSIGN {
			// vv = vv.Add(vv, feOne): the pointer is assigned what it already points to
			p := t.place(x.Rhs[0])
			if p.v != id.Name && !(t.types[id.Name] == p.typ) {
				die("%s: unsupported pointer assignment", pos(s))
			}
			if p.v != id.Name {
				t.emit("let %s := %s", id.Name, p.lean())
			}
			return
		}
		if x.Tok != token.DEFINE {
			die("%s: unsupported assignment", pos(s))
		}
		// x := new(T).M(…): a pointer to a fresh value; the name then stands for that value
		p := t.place(x.Rhs[0])
		if p.f != "" || p.ro != "" {
			die("%s: unsupported pointer variable", pos(s))
		}
		t.types[id.Name] = p.typ
		t.emit("let %s := %s", id.Name, p.v)
	case *ast.IfStmt:
		// an early `return nil, err` under a test of the input length or of a flag; the receiver is unchanged on that path
		if x.Init != nil || x.Else != nil || len(x.Body.List) != 1 || !strings.HasSuffix(t.f.result, "?") {
			die("%s: unsupported if", pos(s))
		}
		rs, ok := x.Body.List[0].(*ast.ReturnStmt)
		if !ok || len(rs.Results) != 2 || nodeName(rs.Results[0]) != "nil" {
			die("%s: unsupported if body", pos(s))
		}
		be, ok := x.Cond.(*ast.BinaryExpr)
		if !ok {
			die("%s: unsupported condition", pos(s))
		}
		lit, ok := be.Y.(*ast.BasicLit)
		if !ok {
			die("%s: unsupported condition", pos(s))
		}
		var lhs string
		if c, ok := be.X.(*ast.CallExpr); ok && nodeName(c.Fun) == "len" && t.types[nodeName(c.Args[0])] == "bytes" {
			lhs = nodeName(c.Args[0]) + ".length"
		} else if id, ok := be.X.(*ast.Ident); ok && t.types[id.Name] == "int" {
			lhs = id.Name
		} else {
			die("%s: unsupported condition", pos(s))
		}
		op := map[token.Token]string{token.NEQ: "≠", token.EQL: "="}[be.Op]
		if op == "" {
			die("%s: unsupported comparison", pos(s))
		}
		t.emit("if %s %s %s then none else", lhs, op, lit.Value)
	case *ast.ReturnStmt:
		if strings.HasSuffix(t.f.result, "?") {
			if len(x.Results) != 2 || nodeName(x.Results[1]) != "nil" || nodeName(x.Results[0]) != t.f.recv[0] {
				die("%s: unsupported return", pos(s))
			}
			t.emit("some %s", t.f.recv[0])
			return
		}
		if t.f.result == "bytes" {
			if len(x.Results) != 1 || t.types[nodeName(x.Results[0])] != "bytes" {
				die("%s: unsupported return", pos(s))
			}
			t.emit("%s", nodeName(x.Results[0]))
			return
		}
		if len(x.Results) != 1 {
			die("%s: unsupported return", pos(s))
		}
		if t.f.result == "int" {
			t.emit("%s", t.intExpr(x.Results[0]))
			return
		}
		p := t.place(x.Results[0])
		if p.v != t.f.recv[0] || p.f != "" {
			die("%s: the function is expected to return its receiver", pos(s))
		}
		t.emit("%s", p.v)
	default:
		die("%s: unsupported statement %T", pos(s), s)
	}
}

var wanted = []string{
	"projP2.Zero", "projCached.Zero", "affineCached.Zero", "Point.Set", "projP2.FromP1xP1", "projP2.FromP3", "Point.fromP1xP1",
	"Point.fromP2", "projCached.FromP3", "affineCached.FromP3", "projP1xP1.Add", "projP1xP1.Sub", "projP1xP1.AddAffine",
	"projP1xP1.SubAffine", "projP1xP1.Double", "Point.Add", "Point.Subtract", "Point.Negate", "Point.Equal", "projCached.Select",
	"affineCached.Select", "projCached.CondNeg", "affineCached.CondNeg", "Point.bytes", "Point.SetBytes",
}

// functions of the file that are not translated (byte encodings, constructors built on them, the panic helper)
var skipped = map[string]bool{"checkInitialized": true, "NewIdentityPoint": true, "NewGeneratorPoint": true, "Point.Bytes": true,
	"copyFieldElement": true}

func main() {
	if len(os.Args) != 2 {
		die("usage: edpoints <repo root>")
	}
	path := filepath.Join(os.Args[1], "ed25519", "internal", "edwards25519", "edwards25519.go")
	file, err := parser.ParseFile(fset, path, nil, 0)
	if err != nil {
		die("%v", err)
	}
	var dBytes []string
	for _, d := range file.Decls {
		switch x := d.(type) {
		case *ast.GenDecl:
			for _, sp := range x.Specs {
				switch s := sp.(type) {
				case *ast.TypeSpec:
					st, ok := s.Type.(*ast.StructType)
					if !ok {
						if s.Name.Name == "incomparable" {
							continue
						}
						die("%s: unsupported type declaration", pos(s))
					}
					var fs [][2]string
					for _, fl := range st.Fields.List {
						for _, n := range fl.Names {
							if n.Name == "_" {
								continue
							}
							ty := typeStr(fl.Type)
							if ty != "Element" {
								die("%s: field %s is not a field element", pos(fl), n.Name)
							}
							fs = append(fs, [2]string{n.Name, ty})
						}
					}
					structs[s.Name.Name] = fs
					structOrder = append(structOrder, s.Name.Name)
				case *ast.ValueSpec:
					if x.Tok != token.VAR {
						die("%s: unsupported declaration", pos(s))
					}
					name := s.Names[0].Name
					switch name {
					case "d":
						// new(field.Element).SetBytes([]byte{…})
						c := s.Values[0].(*ast.CallExpr)
						lit, ok := c.Args[0].(*ast.CompositeLit)
						if !ok || nodeName(c.Fun) != "SetBytes" {
							die("%s: d is not SetBytes of a byte literal", pos(s))
						}
						for _, e := range lit.Elts {
							bl, ok := e.(*ast.BasicLit)
							if !ok {
								die("%s: unsupported byte literal", pos(e))
							}
							var v int
							fmt.Sscanf(bl.Value, "%v", &v)
							dBytes = append(dBytes, fmt.Sprint(v))
						}
						pkgConsts["d"] = "Element"
					case "d2":
						c := s.Values[0].(*ast.CallExpr)
						if nodeName(c.Fun) != "Add" || len(c.Args) != 2 || nodeName(c.Args[0]) != "d" || nodeName(c.Args[1]) != "d" {
							die("%s: d2 is not Add(d, d)", pos(s))
						}
						pkgConsts["d2"] = "Element"
					case "feOne":
						c := s.Values[0].(*ast.CallExpr)
						if nodeName(c.Fun) != "One" {
							die("%s: feOne is not One()", pos(s))
						}
						pkgConsts["feOne"] = "Element"
					case "identity", "generator":
						// built by Point.SetBytes, which is not translated
					default:
						die("%s: unexpected package variable %s", pos(s), name)
					}
				}
			}
		case *ast.FuncDecl:
			f := &fn{decl: x}
			key := x.Name.Name
			if x.Recv != nil {
				r := x.Recv.List[0]
				f.recv = [2]string{r.Names[0].Name, typeStr(r.Type)}
				key = strings.TrimPrefix(f.recv[1], "*") + "." + key
			}
			f.key, f.lean = key, strings.ReplaceAll(key, ".", "_")
			if key == "copyFieldElement" {
				// translated at its call site as `Bytes y`: the body must be exactly copy(buf[:], v.Bytes()); return buf[:]
				var b strings.Builder
				for _, st := range x.Body.List {
					b.WriteString(stmtText(st) + ";")
				}
				if b.String() != "copy(buf[:],v.Bytes());return buf[:];" {
					die("%s: copyFieldElement is no longer `copy(buf[:], v.Bytes()); return buf[:]` (%s)", pos(x), b.String())
				}
			}
			if skipped[key] {
				continue
			}
			for _, p := range x.Type.Params.List {
				for _, n := range p.Names {
					f.params = append(f.params, [2]string{n.Name, typeStr(p.Type)})
				}
			}
			if x.Type.Results != nil {
				rl := x.Type.Results.List
				switch {
				case len(rl) == 1:
					f.result = typeStr(rl[0].Type)
				case len(rl) == 2 && typeStr(rl[1].Type) == "error":
					f.result = typeStr(rl[0].Type) + "?"
				default:
					die("%s: unsupported results", pos(x))
				}
			}
			funcs[key] = f
		}
	}
	var extra []string
	for k := range funcs {
		found := false
		for _, w := range wanted {
			found = found || w == k
		}
		if !found {
			extra = append(extra, k)
		}
	}
	sort.Strings(extra)
	if len(extra) > 0 {
		die("functions that are neither translated nor on the list of skipped ones: %s", strings.Join(extra, ", "))
	}
	for _, w := range wanted {
		if funcs[w] == nil {
			die("function %s not found", w)
		}
	}
	var sb strings.Builder
	sb.WriteString("import PatVerif.Generated.FeLimbs\n")
	sb.WriteString("/-! Generated by /verif/extract/cmd/edpoints from ed25519/internal/edwards25519/edwards25519.go — do not edit. -/\n")
	sb.WriteString("set_option linter.unusedVariables false\n")
	sb.WriteString("namespace PatVerif.Generated.EdPoints\nopen PatVerif PatVerif.Generated PatVerif.Generated.FeLimbs\n\n")
	for _, n := range structOrder {
		fmt.Fprintf(&sb, "structure %s where\n", n)
		for _, p := range structs[n] {
			fmt.Fprintf(&sb, "  %s : %s\n", p[0], p[1])
		}
		sb.WriteString("  deriving Repr, DecidableEq\n\n")
	}
	sb.WriteString("/-- the element of a successful `SetBytes` (which fails only on a length other than 32) -/\ndef resGet (r : Res Element) : Element :=\n  match r with\n  | .ok e => e\n  | _ => " + zero("Element") + "\n\n")
	z := zero("Element")
	if len(dBytes) != 32 {
		die("d is not given by 32 bytes")
	}
	fmt.Fprintf(&sb, "/-- the curve constant, as `SetBytes` of the 32 bytes in the source -/\ndef d : Element :=\n  match SetBytes %s [%s] with\n  | .ok e => e\n  | _ => %s\n\n", z, strings.Join(dBytes, ", "), z)
	fmt.Fprintf(&sb, "def d2 : Element := FeLimbs.Add %s d d\n\ndef feOne : Element := One %s\n\n", z, z)
	for _, w := range wanted {
		f := funcs[w]
		t := &tr{f: f, types: map[string]string{}, isParam: map[string]bool{}, written: map[string]map[string]bool{}, pend: map[string]map[string]bool{}}
		sig := fmt.Sprintf("(%s : %s)", f.recv[0], strings.TrimPrefix(f.recv[1], "*"))
		t.types[f.recv[0]] = strings.TrimPrefix(f.recv[1], "*")
		t.isParam[f.recv[0]] = true
		for _, p := range f.params {
			if p[1] == "int" {
				t.types[p[0]] = "int"
				sig += fmt.Sprintf(" (%s : Nat)", p[0])
				continue
			}
			if p[1] == "bytes" {
				t.types[p[0]] = "bytes"
				sig += fmt.Sprintf(" (%s : List Nat)", p[0])
				continue
			}
			if !strings.HasPrefix(p[1], "*") {
				die("%s: parameter %s is not a pointer", w, p[0])
			}
			t.types[p[0]] = strings.TrimPrefix(p[1], "*")
			t.isParam[p[0]] = true
			sig += fmt.Sprintf(" (%s : %s)", p[0], strings.TrimPrefix(p[1], "*"))
		}
		rt := strings.TrimPrefix(f.recv[1], "*")
		switch {
		case f.result == "int":
			rt = "Nat"
		case f.result == "bytes":
			rt = "List Nat"
		case f.result == f.recv[1]+"?":
			rt = "Option " + rt
		case f.result != f.recv[1]:
			die("%s: unexpected result type %s", w, f.result)
		}
		t.body()
		line := fset.Position(f.decl.Pos()).Line
		fmt.Fprintf(&sb, "/-- `%s` (edwards25519.go:%d) -/\ndef %s %s : %s :=\n%s\n", w, line, f.lean, sig, rt, t.out.String())
	}
	sb.WriteString("end PatVerif.Generated.EdPoints\n")
	fmt.Print(sb.String())
}

func stmtText(n ast.Node) string {
	var b strings.Builder
	if err := printer.Fprint(&b, fset, n); err != nil {
		return "?"
	}
	return strings.Join(strings.Fields(strings.ReplaceAll(b.String(), ", ", ",")), " ")
}

func nodeName(e ast.Expr) string {
	switch x := e.(type) {
	case *ast.Ident:
		return x.Name
	case *ast.SelectorExpr:
		return x.Sel.Name
	}
	return ""
}
