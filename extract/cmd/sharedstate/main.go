// Command sharedstate lists the state of cloudflare/pat-go that outlives a call (T3 of DESIGN.md §4):
//
//  1. every package-level variable of the anchored packages, with its type as written and whether any
//     function of the package touches it other than by reading it (assignment to it or through it, ++/--,
//     address taken, or a method call on it);
//  2. the fields of the long-lived types (issuers, attester, clients, request states, requests, keys);
//  3. every assignment through a method receiver (a write to the object a method was called on).
//
// The Lean side (Proofs/SharedState.lean) compares the three lists with the inventory the footprint
// model of C17 and the memory model of C16 assume. A new package variable, a new field or a new receiver
// write is a broken tie: the model no longer describes the code's shared state.
//
// Usage: sharedstate <repo root>   (Lean module on stdout)
package main

import (
	"fmt"
	"go/ast"
	"go/parser"
	"go/printer"
	"go/token"
	"os"
	"path/filepath"
	"sort"
	"strings"
)

var pkgs = []string{"quicwire", "util", "tokens", "tokens/type1", "tokens/type2", "tokens/type3", "tokens/type5", "tokens/batched",
	"ecdsa", "ed25519", "ed25519/internal/edwards25519", "ed25519/internal/edwards25519/field"}

func die(format string, a ...any) {
	fmt.Fprintf(os.Stderr, "sharedstate: "+format+"\n", a...)
	os.Exit(1)
}

func exprString(fset *token.FileSet, e ast.Expr) string {
	var sb strings.Builder
	printer.Fprint(&sb, fset, e)
	return strings.Join(strings.Fields(sb.String()), " ")
}

// base returns the identifier an lvalue or operand is rooted in: x, x.f, x[i], *x, x.f[i].g …
func base(e ast.Expr) *ast.Ident {
	for {
		switch x := e.(type) {
		case *ast.Ident:
			return x
		case *ast.SelectorExpr:
			e = x.X
		case *ast.IndexExpr:
			e = x.X
		case *ast.StarExpr:
			e = x.X
		case *ast.ParenExpr:
			e = x.X
		case *ast.SliceExpr:
			e = x.X
		default:
			return nil
		}
	}
}

func main() {
	if len(os.Args) != 2 {
		die("usage: sharedstate <repo root>")
	}
	var vars, fields, writes []string
	for _, dir := range pkgs {
		fset := token.NewFileSet()
		names, _ := filepath.Glob(filepath.Join(os.Args[1], dir, "*.go"))
		sort.Strings(names)
		var files []*ast.File
		for _, n := range names {
			if strings.HasSuffix(n, "_test.go") {
				continue
			}
			f, err := parser.ParseFile(fset, n, nil, parser.ParseComments)
			if err != nil {
				die("%v", err)
			}
			skip := false
			for _, cg := range f.Comments {
				if cg.Pos() < f.Package && (strings.Contains(cg.Text(), "go:build verif") || strings.Contains(cg.Text(), "go:build s390x") || strings.Contains(cg.Text(), "+build s390x")) {
					skip = true // instrumentation, and files for another architecture
				}
			}
			if !skip {
				files = append(files, f)
			}
		}
		if len(files) == 0 {
			die("no Go files in %s", dir)
		}
		// 1. package-level variables
		pkgVars := map[string]string{}
		var order []string
		for _, f := range files {
			for _, d := range f.Decls {
				gd, ok := d.(*ast.GenDecl)
				if !ok || gd.Tok != token.VAR {
					continue
				}
				for _, sp := range gd.Specs {
					vs := sp.(*ast.ValueSpec)
					for i, n := range vs.Names {
						if n.Name == "_" {
							continue
						}
						ty := ""
						if vs.Type != nil {
							ty = exprString(fset, vs.Type)
						} else if i < len(vs.Values) {
							ty = "= " + exprString(fset, vs.Values[i])
						} else if len(vs.Values) == 1 {
							ty = "= " + exprString(fset, vs.Values[0])
						}
						if len(ty) > 60 {
							ty = ty[:60] + "…"
						}
						pkgVars[n.Name] = ty
						order = append(order, n.Name)
					}
				}
			}
		}
		touched := map[string]bool{}
		note := func(e ast.Expr, shadow map[string]bool) {
			if id := base(e); id != nil {
				if _, ok := pkgVars[id.Name]; ok && !shadow[id.Name] && id.Obj == nil || (id.Obj != nil && id.Obj.Kind == ast.Var && isPkgLevel(id, files)) {
					if _, ok := pkgVars[id.Name]; ok {
						touched[id.Name] = true
					}
				}
			}
		}
		for _, f := range files {
			for _, d := range f.Decls {
				fd, ok := d.(*ast.FuncDecl)
				if !ok || fd.Body == nil {
					continue
				}
				recv := ""
				recvType := ""
				if fd.Recv != nil && len(fd.Recv.List) == 1 {
					if len(fd.Recv.List[0].Names) == 1 {
						recv = fd.Recv.List[0].Names[0].Name
					}
					t := fd.Recv.List[0].Type
					if s, ok := t.(*ast.StarExpr); ok {
						t = s.X
					}
					recvType = exprString(fset, t)
				}
				ast.Inspect(fd.Body, func(n ast.Node) bool {
					switch s := n.(type) {
					case *ast.AssignStmt:
						if s.Tok == token.DEFINE {
							return true
						}
						for _, l := range s.Lhs {
							note(l, nil)
							if id := base(l); id != nil && recv != "" && id.Name == recv && !strings.Contains(dir, "internal") {
								if _, isIdent := l.(*ast.Ident); !isIdent {
									writes = append(writes, fmt.Sprintf("%s:%s.%s:%s", dir, recvType, fd.Name.Name, exprString(fset, l)))
								}
							}
						}
					case *ast.IncDecStmt:
						note(s.X, nil)
					case *ast.UnaryExpr:
						if s.Op == token.AND {
							note(s.X, nil)
							if id := base(s.X); id != nil && recv != "" && id.Name == recv && !strings.Contains(dir, "internal") {
								if _, isIdent := s.X.(*ast.Ident); !isIdent {
									writes = append(writes, fmt.Sprintf("%s:%s.%s:&%s", dir, recvType, fd.Name.Name, exprString(fset, s.X)))
								}
							}
						}
					case *ast.CallExpr:
						if sel, ok := s.Fun.(*ast.SelectorExpr); ok {
							// a method call on a package-level variable (or on something reached through it)
							if id := base(sel.X); id != nil {
								if _, ok := pkgVars[id.Name]; ok && isPkgLevel(id, files) {
									touched[id.Name] = true
								}
							}
						}
					}
					return true
				})
			}
		}
		for _, n := range order {
			t := "read-only"
			if touched[n] {
				t = "touched"
			}
			vars = append(vars, fmt.Sprintf("%s:%s:%s:%s", dir, n, pkgVars[n], t))
		}
		// 2. fields of the struct types of the package (the value types of the internal arithmetic are not long-lived objects)
		for _, f := range files {
			if strings.Contains(dir, "internal") {
				break
			}
			for _, d := range f.Decls {
				gd, ok := d.(*ast.GenDecl)
				if !ok || gd.Tok != token.TYPE {
					continue
				}
				for _, sp := range gd.Specs {
					ts := sp.(*ast.TypeSpec)
					st, ok := ts.Type.(*ast.StructType)
					if !ok {
						continue
					}
					var fs []string
					for _, fl := range st.Fields.List {
						ty := exprString(fset, fl.Type)
						if len(fl.Names) == 0 {
							fs = append(fs, ty)
						}
						for _, n := range fl.Names {
							fs = append(fs, n.Name+" "+ty)
						}
					}
					fields = append(fields, fmt.Sprintf("%s:%s:%s", dir, ts.Name.Name, strings.Join(fs, "; ")))
				}
			}
		}
	}
	sort.Strings(writes)
	emit := func(name string, xs []string) string {
		var q []string
		for _, x := range xs {
			q = append(q, fmt.Sprintf("%q", x))
		}
		return fmt.Sprintf("def %s : List String :=\n  [%s]\n", name, strings.Join(q, ",\n   "))
	}
	fmt.Printf("/-! GENERATED by /verif/extract/cmd/sharedstate — do not edit. -/\nnamespace PatVerif.Generated.SharedState\n\n")
	fmt.Printf("/-- package : name : type or initialiser : read-only | touched -/\n%s\n", emit("packageVars", vars))
	fmt.Printf("/-- package : type : fields -/\n%s\n", emit("structFields", fields))
	fmt.Printf("/-- package : Type.method : lvalue written through the receiver -/\n%s\n", emit("receiverWrites", writes))
	fmt.Printf("end PatVerif.Generated.SharedState\n")
}

// isPkgLevel: the identifier resolves (by the parser's file-scope resolution) to a package-level declaration,
// i.e. it is not shadowed by a local of the same name.
func isPkgLevel(id *ast.Ident, files []*ast.File) bool {
	if id.Obj == nil {
		return true // unresolved within the file: declared in another file of the package
	}
	if id.Obj.Kind != ast.Var {
		return false
	}
	vs, ok := id.Obj.Decl.(*ast.ValueSpec)
	if !ok {
		return false
	}
	for _, f := range files {
		for _, d := range f.Decls {
			if gd, ok := d.(*ast.GenDecl); ok && gd.Tok == token.VAR {
				for _, sp := range gd.Specs {
					if sp == vs {
						return true
					}
				}
			}
		}
	}
	return false
}
