// Command felimbs translates the field arithmetic of ed25519/internal/edwards25519/field (fe.go, fe_generic.go and the
// two *_noasm.go files) into Lean (T1 of DESIGN.md §4, for C14/C15).
//
// The code is straight-line uint64 arithmetic on five 51-bit limbs, a handful of constant-trip loops and chains of
// method calls on *Element values. The translation is literal:
//
//   - uint64 operators become the wrapping operators of PatVerif.U64 (Model/GoU64.lean) — no side conditions;
//   - a function that writes through a pointer parameter returns the new value of what it points to; a method call
//     `x.M(a, b)` becomes `let x := M x a b`; pointer variables (`v2 := a.Square(v)`) are resolved to the variable they
//     point to at translation time;
//   - `for i := 0; i < N; i++ { … }` whose body ignores `i` becomes `U64.iter N (fun t => …) t`; `range` loops over
//     constant-size arrays are unrolled with their integer variables folded to constants;
//   - the functional reading is only right if no argument is read after an aliasing receiver has been written. The
//     translator checks that textually for every function (a read of p.f after a write of q.f, p ≠ q, is refused unless
//     the function is listed under `distinct`, in which case every call site in the package is checked to pass
//     textually distinct operands).
//
// Anything outside this subset stops the translator (a broken tie, never a silent fallback).
//
// Usage: felimbs <repo root>   (Lean module on stdout)
package main

import (
	"fmt"
	"go/ast"
	"go/parser"
	"go/token"
	"math/big"
	"os"
	"path/filepath"
	"sort"
	"strings"
)

func die(format string, a ...any) {
	fmt.Fprintf(os.Stderr, "felimbs: "+format+"\n", a...)
	os.Exit(1)
}

var fset = token.NewFileSet()

func pos(n ast.Node) string { return fset.Position(n.Pos()).String() }

// ---- declarations ----

type param struct {
	name string
	typ  string // "*Element", "uint64", "uint128", "int", "uint32", "[]byte", "*[32]byte"
}

type fnInfo struct {
	name    string
	decl    *ast.FuncDecl
	params  []param // receiver first
	results []param
	mutates []bool // per param
	// shape of the Lean result: the Go results in order (pointer results that name a mutated parameter are that
	// parameter's final value), then the mutated parameters not already returned
	resMut []int // for each Lean result component: index of the mutated parameter it carries, or -1 for a plain value
	unsafe string // non-empty: why the alias check failed (then the function needs distinct operands)
}

var (
	structs   = map[string][]string{} // struct name -> field names
	funcs     = map[string]*fnInfo{}
	order     []string
	constants = map[string]*big.Int{}
	pkgVars   = map[string]string{} // name -> Lean term (of type Element)
)

func typeString(e ast.Expr) string {
	switch x := e.(type) {
	case *ast.Ident:
		return x.Name
	case *ast.StarExpr:
		return "*" + typeString(x.X)
	case *ast.ArrayType:
		if x.Len == nil {
			return "[]" + typeString(x.Elt)
		}
		if v, ok := litIn(x.Len, nil); ok {
			return "[" + v.String() + "]" + typeString(x.Elt)
		}
	}
	die("%s: unsupported type", pos(e))
	return ""
}

func leanType(t string) string {
	switch t {
	case "*Element", "Element":
		return "Element"
	case "uint128":
		return "uint128"
	case "uint64", "int", "uint32", "uint":
		return "Nat"
	case "[]byte", "*[32]byte", "[32]byte", "[8]byte":
		return "List Nat"
	}
	die("unsupported type %s", t)
	return ""
}

func isPtrElem(t string) bool { return t == "*Element" }
func isMutable(t string) bool { return t == "*Element" || t == "*[32]byte" }

// ---- constant folding ----

func litIn(e ast.Expr, env map[string]*big.Int) (*big.Int, bool) {
	switch x := e.(type) {
	case *ast.BasicLit:
		if x.Kind != token.INT {
			return nil, false
		}
		v, ok := new(big.Int).SetString(x.Value, 0)
		return v, ok
	case *ast.Ident:
		if v, ok := env[x.Name]; ok {
			return v, true
		}
		if v, ok := constants[x.Name]; ok {
			return v, true
		}
		return nil, false
	case *ast.ParenExpr:
		return litIn(x.X, env)
	case *ast.CallExpr:
		if id, ok := x.Fun.(*ast.Ident); ok && len(x.Args) == 1 && (id.Name == "uint" || id.Name == "int" || id.Name == "uint64") {
			return litIn(x.Args[0], env)
		}
		return nil, false
	case *ast.BinaryExpr:
		a, ok1 := litIn(x.X, env)
		b, ok2 := litIn(x.Y, env)
		if !ok1 || !ok2 {
			return nil, false
		}
		switch x.Op {
		case token.SHL:
			return new(big.Int).Lsh(a, uint(b.Int64())), true
		case token.ADD:
			return new(big.Int).Add(a, b), true
		case token.SUB:
			return new(big.Int).Sub(a, b), true
		case token.MUL:
			return new(big.Int).Mul(a, b), true
		case token.QUO:
			if b.Sign() == 0 || a.Sign() < 0 {
				return nil, false
			}
			return new(big.Int).Quo(a, b), true
		case token.REM:
			if b.Sign() == 0 || a.Sign() < 0 {
				return nil, false
			}
			return new(big.Int).Rem(a, b), true
		}
	}
	return nil, false
}

// ---- function bodies ----

type tr struct {
	fn      *fnInfo
	kinds   map[string]string   // variable -> "elem" | "u128" | "scalar" | "bytes"
	alias   map[string]string   // pointer variable -> the element variable it points to
	consts  map[string]*big.Int // integer variables with a value known at translation time
	arrLen  map[string]int64
	out     *strings.Builder
	indent  string
	tmp     int
	written map[string]map[string]bool // alias check: param -> fields written so far ("*" = all)
	pend    map[string]map[string]bool // writes of the statement being translated
}

func (t *tr) emit(format string, a ...any) {
	t.out.WriteString(t.indent)
	fmt.Fprintf(t.out, format, a...)
	t.out.WriteString("\n")
}

func (t *tr) fresh(prefix string) string {
	t.tmp++
	return fmt.Sprintf("%s_%d", prefix, t.tmp)
}

func (t *tr) isParam(name string) int {
	for i, p := range t.fn.params {
		if p.name == name {
			return i
		}
	}
	return -1
}

// alias check bookkeeping
func (t *tr) noteRead(v, field string) {
	i := t.isParam(v)
	if i < 0 || !isPtrElem(t.fn.params[i].typ) {
		return
	}
	for q, fs := range t.written {
		if q == v {
			continue
		}
		if fs["*"] || fs[field] || (field == "*" && len(fs) > 0) {
			if t.fn.unsafe == "" {
				t.fn.unsafe = fmt.Sprintf("%s.%s is read after %s was written", v, field, q)
			}
		}
	}
}

func (t *tr) noteWrite(v, field string) {
	i := t.isParam(v)
	if i < 0 || !isMutable(t.fn.params[i].typ) {
		return
	}
	if t.pend[v] == nil {
		t.pend[v] = map[string]bool{}
	}
	t.pend[v][field] = true
}

func (t *tr) endStmt() {
	for v, fs := range t.pend {
		if t.written[v] == nil {
			t.written[v] = map[string]bool{}
		}
		for f := range fs {
			t.written[v][f] = true
		}
	}
	t.pend = map[string]map[string]bool{}
}

// target resolves a pointer-valued expression to the element variable it points to, emitting the side effects of
// nested calls first. Package-level elements resolve to their (read-only) Lean constant.
func (t *tr) target(e ast.Expr) string {
	switch x := e.(type) {
	case *ast.ParenExpr:
		return t.target(x.X)
	case *ast.Ident:
		if a, ok := t.alias[x.Name]; ok {
			return a
		}
		if t.kinds[x.Name] == "elem" {
			return x.Name
		}
		if _, ok := pkgVars[x.Name]; ok {
			return x.Name
		}
	case *ast.UnaryExpr:
		if x.Op == token.AND {
			if id, ok := x.X.(*ast.Ident); ok && t.kinds[id.Name] == "elem" {
				return id.Name
			}
		}
	case *ast.CallExpr:
		if id, ok := x.Fun.(*ast.Ident); ok && id.Name == "new" && len(x.Args) == 1 && typeString(x.Args[0]) == "Element" {
			n := t.fresh("tmp")
			t.kinds[n] = "elem"
			t.emit("let %s : Element := %s", n, zeroOf("Element"))
			return n
		}
		vals, targets := t.call(x)
		_ = vals
		if len(targets) > 0 && targets[0] != "" {
			return targets[0]
		}
	}
	die("%s: cannot resolve what this pointer expression points to", pos(e))
	return ""
}

func zeroOf(s string) string {
	var fs []string
	for _, f := range structs[s] {
		fs = append(fs, f+" := 0")
	}
	return "{ " + strings.Join(fs, ", ") + " }"
}

// call translates a call of a translated function or method. It emits `let`s for the call and for the variables it
// mutates and returns, per Go result, the Lean term (for plain values) and the target variable (for *Element results).
func (t *tr) call(x *ast.CallExpr) (vals []string, targets []string) {
	var name string
	var args []ast.Expr
	switch f := x.Fun.(type) {
	case *ast.Ident:
		name = f.Name
		args = x.Args
	case *ast.SelectorExpr:
		name = f.Sel.Name
		args = append([]ast.Expr{f.X}, x.Args...)
	}
	fi := funcs[name]
	if fi == nil {
		die("%s: call of %s, which is not translated", pos(x), name)
	}
	if len(args) != len(fi.params) {
		die("%s: wrong number of arguments for %s", pos(x), name)
	}
	// evaluate the operands left to right; pointer operands are read at the call, i.e. after all nested calls
	type opnd struct{ tgt, val string }
	ops := make([]opnd, len(args))
	for i, a := range args {
		if isMutable(fi.params[i].typ) {
			if fi.params[i].typ == "*Element" {
				ops[i].tgt = t.target(a)
			} else {
				ops[i].tgt = t.arrTarget(a)
			}
		} else {
			ops[i].val, _ = t.expr(a)
		}
	}
	var argv []string
	for i := range args {
		if ops[i].tgt != "" {
			argv = append(argv, ops[i].tgt)
			if !fi.mutates[i] || true {
				t.noteRead(ops[i].tgt, "*")
			}
		} else {
			argv = append(argv, ops[i].val)
		}
	}
	callTerm := name + " " + strings.Join(argv, " ")
	// distinct-operand functions: the operands must be textually distinct at every call site
	if fi.unsafe != "" {
		seen := map[string]bool{}
		for i := range args {
			if ops[i].tgt == "" {
				continue
			}
			if seen[ops[i].tgt] {
				die("%s: %s needs distinct operands (%s) but %s is passed twice", pos(x), name, fi.unsafe, ops[i].tgt)
			}
			seen[ops[i].tgt] = true
		}
	}
	if len(fi.resMut) == 0 {
		die("%s: call of %s, which returns nothing and changes nothing", pos(x), name)
	}
	if len(fi.resMut) == 1 && fi.resMut[0] < 0 {
		// a pure function of its operands: used in place
		return []string{"(" + callTerm + ")"}, []string{""}
	}
	single := len(fi.resMut) == 1
	if single {
		// one changed operand and nothing else: `x.M(a, b)` is `let x := M x a b`
		tgt := ops[fi.resMut[0]].tgt
		if _, ro := pkgVars[tgt]; ro {
			die("%s: %s would write the package-level element %s", pos(x), name, tgt)
		}
		t.emit("let %s := %s", tgt, callTerm)
		t.noteWrite(tgt, "*")
		for range fi.results {
			vals = append(vals, tgt)
			targets = append(targets, tgt)
		}
		return
	}
	res := t.fresh("r")
	t.emit("let %s := %s", res, callTerm)
	comp := func(i int) string {
		if single {
			return res
		}
		if i == len(fi.resMut)-1 {
			return res + strings.Repeat(".2", i)
		}
		return res + strings.Repeat(".2", i) + ".1"
	}
	for i, m := range fi.resMut {
		if m >= 0 {
			tgt := ops[m].tgt
			if _, ro := pkgVars[tgt]; ro {
				die("%s: %s would write the package-level element %s", pos(x), name, tgt)
			}
			t.emit("let %s := %s", tgt, comp(i))
			t.noteWrite(tgt, "*")
		}
	}
	for i := range fi.results {
		m := fi.resMut[i]
		if m >= 0 {
			vals = append(vals, ops[m].tgt)
			targets = append(targets, ops[m].tgt)
		} else {
			vals = append(vals, comp(i))
			targets = append(targets, "")
		}
	}
	return
}

func (t *tr) arrTarget(e ast.Expr) string {
	switch x := e.(type) {
	case *ast.UnaryExpr:
		if id, ok := x.X.(*ast.Ident); ok && x.Op == token.AND && t.kinds[id.Name] == "bytes" {
			return id.Name
		}
	case *ast.Ident:
		if t.kinds[x.Name] == "bytes" {
			return x.Name
		}
	}
	die("%s: unsupported array operand", pos(e))
	return ""
}

var binops = map[token.Token]string{token.ADD: "U64.add", token.SUB: "U64.sub", token.MUL: "U64.mul", token.AND: "U64.and",
	token.OR: "U64.or", token.XOR: "U64.xor"}

// expr translates a value expression; the second result is its kind ("scalar", "u128", "bytes", "elem").
func (t *tr) expr(e ast.Expr) (string, string) {
	if v, ok := litIn(e, t.consts); ok {
		if v.Sign() < 0 {
			die("%s: negative constant", pos(e))
		}
		return v.String(), "scalar"
	}
	switch x := e.(type) {
	case *ast.ParenExpr:
		return t.expr(x.X)
	case *ast.Ident:
		k := t.kinds[x.Name]
		if k == "" {
			die("%s: unknown identifier %s", pos(e), x.Name)
		}
		if _, isAlias := t.alias[x.Name]; isAlias {
			die("%s: pointer used as a value", pos(e))
		}
		return x.Name, k
	case *ast.StarExpr:
		tg := t.target(x.X)
		t.noteRead(tg, "*")
		return tg, "elem"
	case *ast.SelectorExpr:
		// field of an element or of a uint128
		if id, ok := x.X.(*ast.Ident); ok {
			if t.kinds[id.Name] == "u128" {
				return id.Name + "." + x.Sel.Name, "scalar"
			}
		}
		tg := t.target(x.X)
		t.noteRead(tg, x.Sel.Name)
		return tg + "." + x.Sel.Name, "scalar"
	case *ast.UnaryExpr:
		if x.Op == token.XOR {
			a, _ := t.expr(x.X)
			return "(U64.not " + a + ")", "scalar"
		}
	case *ast.BinaryExpr:
		switch x.Op {
		case token.ADD, token.SUB, token.MUL, token.AND, token.OR, token.XOR:
			a, _ := t.expr(x.X)
			b, _ := t.expr(x.Y)
			return fmt.Sprintf("(%s %s %s)", binops[x.Op], a, b), "scalar"
		case token.SHL, token.SHR:
			k, ok := litIn(x.Y, t.consts)
			if !ok || k.Sign() < 0 || k.Cmp(big.NewInt(63)) > 0 {
				die("%s: shift by something that is not a constant in 0..63", pos(e))
			}
			a, _ := t.expr(x.X)
			if x.Op == token.SHL {
				return fmt.Sprintf("(U64.shl %s %s)", a, k), "scalar"
			}
			return fmt.Sprintf("(U64.shr %s %s)", a, k), "scalar"
		}
	case *ast.CompositeLit:
		name := typeString(x.Type)
		fs := structs[name]
		if fs == nil || len(fs) != len(x.Elts) {
			die("%s: unsupported composite literal", pos(e))
		}
		var parts []string
		for i, el := range x.Elts {
			if _, keyed := el.(*ast.KeyValueExpr); keyed {
				die("%s: keyed composite literal", pos(e))
			}
			v, _ := t.expr(el)
			parts = append(parts, fs[i]+" := "+v)
		}
		k := "elem"
		if name == "uint128" {
			k = "u128"
		}
		return "({ " + strings.Join(parts, ", ") + " } : " + name + ")", k
	case *ast.IndexExpr:
		// a byte of a byte slice at a constant index
		iv, ok := litIn(x.Index, t.consts)
		if !ok {
			die("%s: index that is not a constant", pos(e))
		}
		b, k := t.expr(x.X)
		if k != "bytes" {
			die("%s: index into something that is not a byte slice", pos(e))
		}
		return fmt.Sprintf("(%s.getD %s 0)", b, iv), "scalar"
	case *ast.SliceExpr:
		b, k := t.expr(x.X)
		if k != "bytes" {
			die("%s: slice of something that is not a byte slice", pos(e))
		}
		if x.Low == nil && x.High == nil {
			return b, "bytes"
		}
		lo, ok1 := litIn(x.Low, t.consts)
		hi, ok2 := litIn(x.High, t.consts)
		if !ok1 || !ok2 || x.Max != nil {
			die("%s: slice bounds that are not constants", pos(e))
		}
		return fmt.Sprintf("(U64.bslice %s %s %s)", b, lo, hi), "bytes"
	case *ast.CallExpr:
		switch f := x.Fun.(type) {
		case *ast.Ident:
			switch f.Name {
			case "uint64", "int":
				a, _ := t.expr(x.Args[0])
				return "(U64.ofInt " + a + ")", "scalar"
			case "byte":
				a, _ := t.expr(x.Args[0])
				return "(U64.toByte " + a + ")", "scalar"
			}
		case *ast.SelectorExpr:
			full := exprString(f)
			switch full {
			case "binary.LittleEndian.Uint64":
				a, _ := t.expr(x.Args[0])
				return "(U64.leU64 " + a + ")", "scalar"
			case "subtle.ConstantTimeCompare":
				a, _ := t.expr(x.Args[0])
				b, _ := t.expr(x.Args[1])
				return fmt.Sprintf("(U64.ctCompare %s %s)", a, b), "scalar"
			}
		}
		vals, targets := t.call(x)
		if len(vals) != 1 {
			die("%s: multi-value call used as a value", pos(e))
		}
		fi := funcs[calleeName(x)]
		if targets[0] != "" && fi.results[0].typ != "[]byte" {
			die("%s: pointer result used as a value", pos(e))
		}
		return vals[0], kindOf(fi.results[0].typ)
	}
	die("%s: unsupported expression %T", pos(e), e)
	return "", ""
}

func kindOf(typ string) string {
	switch typ {
	case "uint128":
		return "u128"
	case "[]byte", "*[32]byte", "[32]byte", "[8]byte":
		return "bytes"
	case "*Element", "Element":
		return "elem"
	}
	return "scalar"
}

func calleeName(x *ast.CallExpr) string {
	switch f := x.Fun.(type) {
	case *ast.Ident:
		return f.Name
	case *ast.SelectorExpr:
		return f.Sel.Name
	}
	return ""
}

func exprString(e ast.Expr) string {
	switch x := e.(type) {
	case *ast.Ident:
		return x.Name
	case *ast.SelectorExpr:
		return exprString(x.X) + "." + x.Sel.Name
	}
	return "?"
}

type flow int

const (
	flowNext flow = iota
	flowBreak
	flowReturn
)

// stmts translates a statement list; a `return` produces the final term of the function.
func (t *tr) stmts(list []ast.Stmt) flow {
	for i, s := range list {
		f := t.stmt(s, list[i+1:])
		t.endStmt()
		if f != flowNext {
			return f
		}
	}
	return flowNext
}

func (t *tr) assignVar(name, val, kind string) {
	t.kinds[name] = kind
	delete(t.alias, name)
	t.emit("let %s := %s", name, val)
}

func (t *tr) stmt(s ast.Stmt, rest []ast.Stmt) flow {
	switch x := s.(type) {
	case *ast.DeclStmt:
		gd := x.Decl.(*ast.GenDecl)
		if gd.Tok != token.VAR {
			die("%s: unsupported declaration", pos(s))
		}
		for _, sp := range gd.Specs {
			vs := sp.(*ast.ValueSpec)
			if len(vs.Values) != 0 {
				die("%s: var with initialiser", pos(s))
			}
			ty := typeString(vs.Type)
			for _, n := range vs.Names {
				switch ty {
				case "Element":
					t.kinds[n.Name] = "elem"
					t.emit("let %s : Element := %s", n.Name, zeroOf("Element"))
				case "[32]byte", "[8]byte":
					t.kinds[n.Name] = "bytes"
					ln := int64(32)
					if ty == "[8]byte" {
						ln = 8
					}
					t.arrLen[n.Name] = ln
					t.emit("let %s : List Nat := List.replicate %d 0", n.Name, ln)
				default:
					die("%s: var of type %s", pos(s), ty)
				}
			}
		}
		return flowNext
	case *ast.ExprStmt:
		c, ok := x.X.(*ast.CallExpr)
		if !ok {
			die("%s: unsupported expression statement", pos(s))
		}
		if exprString(c.Fun) == "binary.LittleEndian.PutUint64" {
			dst, ok := c.Args[0].(*ast.SliceExpr)
			id, ok2 := dst.X.(*ast.Ident)
			if !ok || !ok2 || dst.Low != nil || dst.High != nil || t.arrLen[id.Name] != 8 {
				die("%s: PutUint64 into something that is not a whole 8-byte array", pos(s))
			}
			v, _ := t.expr(c.Args[1])
			t.emit("let %s := U64.lePut64 %s", id.Name, v)
			return flowNext
		}
		t.call(c)
		return flowNext
	case *ast.AssignStmt:
		return t.assign(x)
	case *ast.IfStmt:
		if x.Init != nil || x.Else != nil {
			die("%s: unsupported if", pos(s))
		}
		// (1) a guard that panics; (2) a condition on translation-time constants
		if len(x.Body.List) == 1 {
			if es, ok := x.Body.List[0].(*ast.ExprStmt); ok {
				if c, ok := es.X.(*ast.CallExpr); ok && exprString(c.Fun) == "panic" {
					cond := t.guard(x.Cond)
					t.emit("if %s then Res.panic else", cond)
					return flowNext
				}
			}
		}
		be, ok := x.Cond.(*ast.BinaryExpr)
		if !ok {
			die("%s: unsupported condition", pos(s))
		}
		a, ok1 := litIn(be.X, t.consts)
		var b *big.Int
		ok2 := false
		if c, ok := be.Y.(*ast.CallExpr); ok && exprString(c.Fun) == "len" {
			if id, ok := c.Args[0].(*ast.Ident); ok && t.arrLen[id.Name] > 0 {
				b, ok2 = big.NewInt(t.arrLen[id.Name]), true
			}
		} else {
			b, ok2 = litIn(be.Y, t.consts)
		}
		if !ok1 || !ok2 {
			die("%s: condition that is not decided at translation time", pos(s))
		}
		var holds bool
		switch be.Op {
		case token.GEQ:
			holds = a.Cmp(b) >= 0
		case token.LSS:
			holds = a.Cmp(b) < 0
		default:
			die("%s: unsupported comparison", pos(s))
		}
		if holds {
			return t.stmts(x.Body.List)
		}
		return flowNext
	case *ast.BranchStmt:
		if x.Tok == token.BREAK && x.Label == nil {
			return flowBreak
		}
	case *ast.ForStmt:
		return t.forLoop(x)
	case *ast.RangeStmt:
		return t.rangeLoop(x)
	case *ast.ReturnStmt:
		t.ret(x)
		return flowReturn
	}
	die("%s: unsupported statement %T", pos(s), s)
	return flowNext
}

// guard: `len(x) != 32`
func (t *tr) guard(e ast.Expr) string {
	be, ok := e.(*ast.BinaryExpr)
	if ok && be.Op == token.NEQ {
		if c, ok := be.X.(*ast.CallExpr); ok && exprString(c.Fun) == "len" {
			if id, ok := c.Args[0].(*ast.Ident); ok && t.kinds[id.Name] == "bytes" {
				if v, ok := litIn(be.Y, nil); ok {
					t.arrLen[id.Name] = v.Int64()
					return fmt.Sprintf("%s.length ≠ %s", id.Name, v)
				}
			}
		}
	}
	die("%s: unsupported guard", pos(e))
	return ""
}

func (t *tr) assign(x *ast.AssignStmt) flow {
	// two results of bits.Mul64 / bits.Add64 or of a translated function
	if len(x.Lhs) == 2 && len(x.Rhs) == 1 {
		c, ok := x.Rhs[0].(*ast.CallExpr)
		if !ok {
			die("%s: unsupported assignment", pos(x))
		}
		var v1, v2 string
		switch exprString(c.Fun) {
		case "bits.Mul64", "bits.Add64":
			var as []string
			for _, a := range c.Args {
				v, _ := t.expr(a)
				as = append(as, v)
			}
			p := t.fresh("p")
			t.emit("let %s := U64.%s %s", p, strings.Replace(exprString(c.Fun), "bits.", "bits", 1), strings.Join(as, " "))
			v1, v2 = p+".1", p+".2"
		default:
			vals, targets := t.call(c)
			if len(vals) != 2 || targets[0] != "" || targets[1] != "" {
				die("%s: unsupported two-value call", pos(x))
			}
			v1, v2 = vals[0], vals[1]
		}
		for i, v := range []string{v1, v2} {
			id, ok := x.Lhs[i].(*ast.Ident)
			if !ok {
				die("%s: unsupported assignment target", pos(x))
			}
			if id.Name != "_" {
				t.assignVar(id.Name, v, "scalar")
			}
		}
		return flowNext
	}
	if len(x.Lhs) == len(x.Rhs) && len(x.Lhs) > 1 && x.Tok == token.DEFINE {
		// a, b := e1, e2 with fresh names: the right-hand sides are evaluated first, in order
		var vs, ks []string
		for _, r := range x.Rhs {
			v, k := t.expr(r)
			n := t.fresh("e")
			t.emit("let %s := %s", n, v)
			vs, ks = append(vs, n), append(ks, k)
		}
		for i, l := range x.Lhs {
			id, ok := l.(*ast.Ident)
			if !ok {
				die("%s: unsupported assignment target", pos(x))
			}
			t.assignVar(id.Name, vs[i], ks[i])
		}
		return flowNext
	}
	if len(x.Lhs) != 1 || len(x.Rhs) != 1 {
		die("%s: unsupported assignment", pos(x))
	}
	opOf := map[token.Token]token.Token{token.ADD_ASSIGN: token.ADD, token.SUB_ASSIGN: token.SUB, token.AND_ASSIGN: token.AND,
		token.OR_ASSIGN: token.OR, token.XOR_ASSIGN: token.XOR}
	rhs := x.Rhs[0]
	switch l := x.Lhs[0].(type) {
	case *ast.Ident:
		// a pointer variable?
		if x.Tok == token.DEFINE || x.Tok == token.ASSIGN {
			if c, ok := rhs.(*ast.CallExpr); ok {
				if fi := funcs[calleeName(c)]; fi != nil && len(fi.results) == 1 && fi.results[0].typ == "*Element" {
					_, targets := t.call(c)
					t.alias[l.Name] = targets[0]
					t.kinds[l.Name] = "ptr"
					return flowNext
				}
			}
		}
		v, k := t.expr(rhs)
		if op, ok := opOf[x.Tok]; ok {
			v = fmt.Sprintf("(%s %s %s)", binops[op], l.Name, v)
		} else if x.Tok != token.DEFINE && x.Tok != token.ASSIGN {
			die("%s: unsupported assignment operator", pos(x))
		}
		if c, ok := litIn(rhs, t.consts); ok && (x.Tok == token.DEFINE || x.Tok == token.ASSIGN) {
			t.consts[l.Name] = c
		} else {
			delete(t.consts, l.Name)
		}
		t.assignVar(l.Name, v, k)
		return flowNext
	case *ast.SelectorExpr:
		tg := t.target(l.X)
		if _, ro := pkgVars[tg]; ro {
			die("%s: write to the package-level element %s", pos(x), tg)
		}
		v, _ := t.expr(rhs)
		if op, ok := opOf[x.Tok]; ok {
			t.noteRead(tg, l.Sel.Name)
			v = fmt.Sprintf("(%s %s.%s %s)", binops[op], tg, l.Sel.Name, v)
		} else if x.Tok != token.ASSIGN {
			die("%s: unsupported assignment operator", pos(x))
		}
		t.emit("let %s := { %s with %s := %s }", tg, tg, l.Sel.Name, v)
		t.noteWrite(tg, l.Sel.Name)
		return flowNext
	case *ast.StarExpr:
		tg := t.target(l.X)
		if _, ro := pkgVars[tg]; ro {
			die("%s: write to the package-level element %s", pos(x), tg)
		}
		if x.Tok != token.ASSIGN {
			die("%s: unsupported assignment operator", pos(x))
		}
		v, k := t.expr(rhs)
		if k != "elem" {
			die("%s: *p = something that is not an Element", pos(x))
		}
		t.emit("let %s : Element := %s", tg, v)
		t.noteWrite(tg, "*")
		return flowNext
	case *ast.IndexExpr:
		id, ok := l.X.(*ast.Ident)
		iv, ok2 := litIn(l.Index, t.consts)
		if !ok || !ok2 || t.kinds[id.Name] != "bytes" || x.Tok != token.OR_ASSIGN {
			die("%s: unsupported array store", pos(x))
		}
		if iv.Sign() < 0 || iv.Int64() >= t.arrLen[id.Name] {
			die("%s: array store out of range", pos(x))
		}
		v, _ := t.expr(rhs)
		t.emit("let %s := U64.orAt %s %s %s", id.Name, id.Name, iv, v)
		t.noteWrite(id.Name, "*")
		return flowNext
	}
	die("%s: unsupported assignment target", pos(x))
	return flowNext
}

// for i := a; i < N; i++ { body } with a body that does not mention i and assigns one element variable
func (t *tr) forLoop(x *ast.ForStmt) flow {
	init, ok := x.Init.(*ast.AssignStmt)
	cond, ok2 := x.Cond.(*ast.BinaryExpr)
	post, ok3 := x.Post.(*ast.IncDecStmt)
	if !ok || !ok2 || !ok3 || init.Tok != token.DEFINE || len(init.Lhs) != 1 || cond.Op != token.LSS || post.Tok != token.INC {
		die("%s: unsupported loop", pos(x))
	}
	iv := init.Lhs[0].(*ast.Ident).Name
	from, okf := litIn(init.Rhs[0], nil)
	to, okt := litIn(cond.Y, nil)
	if !okf || !okt || exprString(cond.X) != iv || exprString(post.X) != iv {
		die("%s: unsupported loop header", pos(x))
	}
	mentions := false
	ast.Inspect(x.Body, func(n ast.Node) bool {
		if id, ok := n.(*ast.Ident); ok && id.Name == iv {
			mentions = true
		}
		return true
	})
	if mentions {
		die("%s: loop body uses its counter", pos(x))
	}
	n := new(big.Int).Sub(to, from)
	if n.Sign() < 0 {
		n = big.NewInt(0)
	}
	// the body must be calls `v.M(&v, …)` changing exactly one local element variable
	sub := &tr{fn: t.fn, kinds: copyMap(t.kinds), alias: copyMap(t.alias), consts: map[string]*big.Int{}, arrLen: t.arrLen,
		out: &strings.Builder{}, indent: t.indent + "  ", tmp: t.tmp, written: t.written, pend: t.pend}
	var carried string
	for _, s := range x.Body.List {
		es, ok := s.(*ast.ExprStmt)
		if !ok {
			die("%s: unsupported statement in a counting loop", pos(s))
		}
		c, ok := es.X.(*ast.CallExpr)
		if !ok {
			die("%s: unsupported statement in a counting loop", pos(s))
		}
		_, targets := sub.call(c)
		if len(targets) != 1 || targets[0] == "" {
			die("%s: unsupported call in a counting loop", pos(s))
		}
		if carried != "" && carried != targets[0] {
			die("%s: a counting loop changing two variables", pos(s))
		}
		carried = targets[0]
	}
	t.tmp = sub.tmp
	// every other variable the body reads is loop-invariant (only `carried` is assigned, checked above)
	t.emit("let %s := U64.iter %s (fun %s =>", carried, n, carried)
	t.out.WriteString(sub.out.String())
	t.emit("  %s) %s", carried, carried)
	t.noteWrite(carried, "*")
	return flowNext
}

func copyMap(m map[string]string) map[string]string {
	n := map[string]string{}
	for k, v := range m {
		n[k] = v
	}
	return n
}

// for i, v := range <array of constant size>: unrolled
func (t *tr) rangeLoop(x *ast.RangeStmt) flow {
	if x.Tok != token.DEFINE {
		die("%s: unsupported range loop", pos(x))
	}
	var elems []string
	switch r := x.X.(type) {
	case *ast.CompositeLit:
		for _, el := range r.Elts {
			v, _ := t.expr(el)
			elems = append(elems, v)
		}
	case *ast.Ident:
		n := t.arrLen[r.Name]
		if n == 0 {
			die("%s: range over something that is not a constant-size array", pos(x))
		}
		// a range over an array works on a copy taken before the loop
		cp := t.fresh(r.Name + "_copy")
		t.emit("let %s := %s", cp, r.Name)
		for i := int64(0); i < n; i++ {
			elems = append(elems, fmt.Sprintf("(%s.getD %d 0)", cp, i))
		}
	default:
		die("%s: unsupported range operand", pos(x))
	}
	kn, vn := "_", "_"
	if x.Key != nil {
		kn = x.Key.(*ast.Ident).Name
	}
	if x.Value != nil {
		vn = x.Value.(*ast.Ident).Name
	}
	savedK, hadK := t.consts[kn]
	for i, el := range elems {
		if kn != "_" {
			t.consts[kn] = big.NewInt(int64(i))
			t.kinds[kn] = "scalar"
		}
		if vn != "_" {
			t.assignVar(vn, el, "scalar")
		}
		f := t.stmts(x.Body.List)
		if f == flowBreak {
			break
		}
		if f == flowReturn {
			die("%s: return inside a range loop", pos(x))
		}
	}
	if hadK {
		t.consts[kn] = savedK
	} else {
		delete(t.consts, kn)
	}
	return flowNext
}

func (t *tr) ret(x *ast.ReturnStmt) {
	fi := t.fn
	var goVals []string
	var goTargets []string
	if len(x.Results) == 0 {
		// named results
		for _, r := range fi.results {
			if r.name == "" {
				break
			}
			goVals = append(goVals, r.name)
			goTargets = append(goTargets, "")
		}
	} else {
		for i, r := range x.Results {
			if fi.results[i].typ == "*Element" {
				tg := t.target(r)
				goVals = append(goVals, tg)
				goTargets = append(goTargets, tg)
			} else if fi.results[i].typ == "[]byte" {
				v, _ := t.expr(r)
				goVals = append(goVals, v)
				goTargets = append(goTargets, v)
			} else {
				v, _ := t.expr(r)
				goVals = append(goVals, v)
				goTargets = append(goTargets, "")
			}
		}
	}
	t.finish(goVals, goTargets)
}

// finish writes the result term: Go results, then mutated parameters not among them
func (t *tr) finish(goVals, goTargets []string) {
	fi := t.fn
	var comps []string
	for i := range fi.results {
		m := fi.resMut[i]
		if m >= 0 {
			if i >= len(goTargets) || goTargets[i] != fi.params[m].name {
				die("%s: result %d is expected to be the parameter %s", fi.name, i, fi.params[m].name)
			}
			comps = append(comps, fi.params[m].name)
		} else {
			comps = append(comps, goVals[i])
		}
	}
	for i := len(fi.results); i < len(fi.resMut); i++ {
		comps = append(comps, fi.params[fi.resMut[i]].name)
	}
	term := comps[0]
	if len(comps) > 1 {
		term = "(" + strings.Join(comps, ", ") + ")"
	}
	if fi.name == "SetBytes" {
		term = "Res.ok " + term
	}
	t.emit("%s", term)
}

// ---- mutation analysis ----

func computeMutates() {
	for _, fi := range funcs {
		fi.mutates = make([]bool, len(fi.params))
	}
	changed := true
	for changed {
		changed = false
		for _, name := range order {
			fi := funcs[name]
			idx := map[string]int{}
			for i, p := range fi.params {
				idx[p.name] = i
			}
			mark := func(e ast.Expr) {
				for {
					switch x := e.(type) {
					case *ast.ParenExpr:
						e = x.X
						continue
					case *ast.UnaryExpr:
						e = x.X
						continue
					case *ast.StarExpr:
						e = x.X
						continue
					case *ast.SelectorExpr:
						e = x.X
						continue
					case *ast.IndexExpr:
						e = x.X
						continue
					}
					break
				}
				if id, ok := e.(*ast.Ident); ok {
					if i, ok := idx[id.Name]; ok && isMutable(fi.params[i].typ) && !fi.mutates[i] {
						fi.mutates[i] = true
						changed = true
					}
				}
			}
			ast.Inspect(fi.decl.Body, func(n ast.Node) bool {
				switch x := n.(type) {
				case *ast.AssignStmt:
					for _, l := range x.Lhs {
						switch l.(type) {
						case *ast.SelectorExpr, *ast.StarExpr, *ast.IndexExpr:
							mark(l)
						}
					}
				case *ast.CallExpr:
					callee := funcs[calleeName(x)]
					if callee == nil {
						return true
					}
					var args []ast.Expr
					if sel, ok := x.Fun.(*ast.SelectorExpr); ok {
						args = append([]ast.Expr{sel.X}, x.Args...)
					} else {
						args = x.Args
					}
					for i, a := range args {
						if i < len(callee.mutates) && callee.mutates[i] {
							mark(a)
						}
					}
				}
				return true
			})
		}
	}
	for _, name := range order {
		fi := funcs[name]
		fi.resMut = nil
		used := map[int]bool{}
		for ri, r := range fi.results {
			m := -1
			if r.typ == "*Element" || r.typ == "[]byte" {
				// which parameter the result points to is settled when the `return` is translated; by the conventions of
				// this package it is the receiver (or, for `bytes`, the array parameter)
				for i, p := range fi.params {
					if fi.mutates[i] && !used[i] && ((r.typ == "*Element" && p.typ == "*Element") || (r.typ == "[]byte" && p.typ == "*[32]byte")) {
						m = i
						break
					}
				}
				if m < 0 && r.typ == "*Element" {
					die("%s: returns a pointer but changes no element parameter", name)
				}
			}
			if m >= 0 {
				used[m] = true
			}
			fi.resMut = append(fi.resMut, m)
			_ = ri
		}
		for i := range fi.params {
			if fi.mutates[i] && !used[i] {
				fi.resMut = append(fi.resMut, i)
			}
		}
	}
}

// ---- main ----

var wanted = []string{
	"mul64", "addMul64", "shiftRightBy51", "carryPropagateGeneric", "carryPropagate", "feMulGeneric", "feSquareGeneric",
	"feMul", "feSquare", "Zero", "One", "reduce", "Add", "Subtract", "Negate", "Set", "SetBytes", "bytes", "Bytes", "Equal",
	"mask64Bits", "Select", "Swap", "IsNegative", "Absolute", "Multiply", "Square", "mul51", "Mult32", "Pow22523", "Invert",
	"SqrtRatio",
}

func main() {
	if len(os.Args) != 2 {
		die("usage: felimbs <repo root>")
	}
	dir := filepath.Join(os.Args[1], "ed25519", "internal", "edwards25519", "field")
	names := []string{"fe.go", "fe_generic.go", "fe_amd64_noasm.go", "fe_arm64_noasm.go"}
	var files []*ast.File
	for _, n := range names {
		f, err := parser.ParseFile(fset, filepath.Join(dir, n), nil, parser.ParseComments)
		if err != nil {
			die("%v", err)
		}
		if len(f.Comments) > 0 {
			for _, cg := range f.Comments {
				if cg.End() < f.Package && strings.Contains(cg.Text(), "go:build") {
					die("%s carries a build constraint; which implementation is compiled is no longer known", n)
				}
			}
		}
		files = append(files, f)
	}
	// any other non-test Go or assembly file in the directory could replace what is translated here
	ents, _ := os.ReadDir(dir)
	for _, e := range ents {
		n := e.Name()
		known := false
		for _, k := range names {
			known = known || k == n
		}
		if n == "verif_hooks.go" {
			// the harness hook: only compiled with -tags verif, and must say so on its first line
			b, _ := os.ReadFile(filepath.Join(dir, n))
			if !strings.HasPrefix(string(b), "//go:build verif\n") {
				die("%s is not guarded by the verif build tag", n)
			}
			continue
		}
		if !known && !strings.HasSuffix(n, "_test.go") && (strings.HasSuffix(n, ".go") || strings.HasSuffix(n, ".s")) {
			die("unexpected source file %s in the field package", n)
		}
	}
	type pv struct {
		name string
		lit  *ast.CompositeLit
	}
	var pvs []pv
	for _, f := range files {
		for _, d := range f.Decls {
			switch x := d.(type) {
			case *ast.GenDecl:
				for _, sp := range x.Specs {
					switch s := sp.(type) {
					case *ast.TypeSpec:
						st, ok := s.Type.(*ast.StructType)
						if !ok {
							die("%s: unsupported type declaration", pos(s))
						}
						var fs []string
						for _, fl := range st.Fields.List {
							if typeString(fl.Type) != "uint64" {
								die("%s: field that is not uint64", pos(fl))
							}
							for _, n := range fl.Names {
								fs = append(fs, n.Name)
							}
						}
						structs[s.Name.Name] = fs
					case *ast.ValueSpec:
						if x.Tok == token.CONST {
							v, ok := litIn(s.Values[0], nil)
							if !ok {
								die("%s: constant that is not an integer", pos(s))
							}
							constants[s.Names[0].Name] = v
						} else if x.Tok == token.VAR {
							u, ok := s.Values[0].(*ast.UnaryExpr)
							if !ok || u.Op != token.AND {
								die("%s: unsupported package variable", pos(s))
							}
							pvs = append(pvs, pv{s.Names[0].Name, u.X.(*ast.CompositeLit)})
						}
					}
				}
			case *ast.FuncDecl:
				fi := &fnInfo{name: x.Name.Name, decl: x}
				if x.Recv != nil {
					r := x.Recv.List[0]
					fi.params = append(fi.params, param{r.Names[0].Name, typeString(r.Type)})
				}
				for _, f := range x.Type.Params.List {
					for _, n := range f.Names {
						fi.params = append(fi.params, param{n.Name, typeString(f.Type)})
					}
				}
				if x.Type.Results != nil {
					for _, f := range x.Type.Results.List {
						if len(f.Names) == 0 {
							fi.results = append(fi.results, param{"", typeString(f.Type)})
						}
						for _, n := range f.Names {
							fi.results = append(fi.results, param{n.Name, typeString(f.Type)})
						}
					}
				}
				if funcs[fi.name] != nil {
					die("two functions named %s", fi.name)
				}
				funcs[fi.name] = fi
			}
		}
	}
	for _, w := range wanted {
		if funcs[w] == nil {
			die("function %s not found", w)
		}
	}
	var extra []string
	for n := range funcs {
		found := false
		for _, w := range wanted {
			found = found || w == n
		}
		if !found {
			extra = append(extra, n)
		}
	}
	sort.Strings(extra)
	if len(extra) > 0 {
		die("functions that are not translated: %s", strings.Join(extra, ", "))
	}
	order = wanted
	computeMutates()

	var sb strings.Builder
	sb.WriteString("import PatVerif.Basic\nimport PatVerif.Model.GoU64\n")
	sb.WriteString("/-! Generated by /verif/extract/cmd/felimbs from ed25519/internal/edwards25519/field — do not edit. -/\n")
	sb.WriteString("set_option linter.unusedVariables false\n")
	sb.WriteString("namespace PatVerif.Generated.FeLimbs\nopen PatVerif\n\n")
	var sn []string
	for n := range structs {
		sn = append(sn, n)
	}
	sort.Strings(sn)
	for _, n := range sn {
		fmt.Fprintf(&sb, "structure %s where\n", n)
		for _, f := range structs[n] {
			fmt.Fprintf(&sb, "  %s : Nat\n", f)
		}
		sb.WriteString("  deriving Repr, DecidableEq\n\n")
	}
	var cn []string
	for n := range constants {
		cn = append(cn, n)
	}
	sort.Strings(cn)
	for _, n := range cn {
		fmt.Fprintf(&sb, "def %s : Nat := %s\n", n, constants[n])
	}
	sb.WriteString("\n")
	for _, p := range pvs {
		tt := &tr{kinds: map[string]string{}, consts: map[string]*big.Int{}}
		v, _ := tt.expr(p.lit)
		pkgVars[p.name] = v
		fmt.Fprintf(&sb, "def %s : Element := %s\n", p.name, v)
	}
	sb.WriteString("\n")
	// constants are referred to by name in the bodies
	savedConsts := constants
	constants = map[string]*big.Int{}
	var distinct []string
	for _, name := range order {
		fi := funcs[name]
		t := &tr{fn: fi, kinds: map[string]string{}, alias: map[string]string{}, consts: map[string]*big.Int{}, arrLen: map[string]int64{},
			out: &strings.Builder{}, indent: "  ", written: map[string]map[string]bool{}, pend: map[string]map[string]bool{}}
		for n := range savedConsts {
			t.kinds[n] = "scalar"
		}
		var sig []string
		for _, p := range fi.params {
			t.kinds[p.name] = kindOf(p.typ)
			if p.typ == "*[32]byte" {
				t.arrLen[p.name] = 32
			}
			sig = append(sig, fmt.Sprintf("(%s : %s)", p.name, leanType(p.typ)))
		}
		for _, r := range fi.results {
			if r.name != "" && kindOf(r.typ) == "scalar" {
				t.emit("let %s : %s := 0", r.name, leanType(r.typ))
				t.kinds[r.name] = kindOf(r.typ)
			}
		}
		var rt []string
		for i, m := range fi.resMut {
			if m >= 0 {
				rt = append(rt, leanType(fi.params[m].typ))
			} else {
				rt = append(rt, leanType(fi.results[i].typ))
			}
		}
		if len(rt) == 0 {
			die("%s returns nothing and changes nothing", name)
		}
		rts := strings.Join(rt, " × ")
		if name == "SetBytes" {
			rts = "Res " + rts
		}
		f := t.stmts(fi.decl.Body.List)
		if f != flowReturn {
			if len(fi.results) != 0 {
				die("%s: falls off its end", name)
			}
			t.finish(nil, nil)
		}
		line := fset.Position(fi.decl.Pos())
		doc := fmt.Sprintf("/-- `%s` (%s:%d)", name, filepath.Base(line.Filename), line.Line)
		if fi.unsafe != "" {
			doc += " — the functional reading needs distinct operands: " + fi.unsafe
			distinct = append(distinct, name)
		}
		fmt.Fprintf(&sb, "%s -/\ndef %s %s : %s :=\n%s\n", doc, name, strings.Join(sig, " "), rts, t.out.String())
	}
	sort.Strings(distinct)
	fmt.Fprintf(&sb, "/-- functions whose translation assumes that their pointer operands are distinct (checked at every call site of the package) -/\n")
	fmt.Fprintf(&sb, "def distinctOperands : List String := [%s]\n\n", quoteAll(distinct))
	sb.WriteString("end PatVerif.Generated.FeLimbs\n")

	// call sites of the distinct-operand functions elsewhere in the edwards25519 package
	if len(distinct) > 0 {
		pdir := filepath.Dir(dir)
		pents, _ := os.ReadDir(pdir)
		for _, e := range pents {
			if !strings.HasSuffix(e.Name(), ".go") || strings.HasSuffix(e.Name(), "_test.go") {
				continue
			}
			f, err := parser.ParseFile(fset, filepath.Join(pdir, e.Name()), nil, 0)
			if err != nil {
				die("%v", err)
			}
			ast.Inspect(f, func(n ast.Node) bool {
				c, ok := n.(*ast.CallExpr)
				if !ok {
					return true
				}
				sel, ok := c.Fun.(*ast.SelectorExpr)
				if !ok {
					return true
				}
				need := false
				for _, d := range distinct {
					need = need || d == sel.Sel.Name
				}
				if !need {
					return true
				}
				seen := map[string]bool{}
				for _, a := range append([]ast.Expr{sel.X}, c.Args...) {
					s := strings.TrimPrefix(nodeText(a), "&")
					if strings.HasPrefix(s, "new(") {
						continue
					}
					if seen[s] {
						die("%s: %s is called with the operand %s twice", pos(c), sel.Sel.Name, s)
					}
					seen[s] = true
				}
				return true
			})
		}
	}
	fmt.Print(sb.String())
}

func quoteAll(xs []string) string {
	var q []string
	for _, x := range xs {
		q = append(q, fmt.Sprintf("%q", x))
	}
	return strings.Join(q, ", ")
}

func nodeText(e ast.Expr) string {
	switch x := e.(type) {
	case *ast.Ident:
		return x.Name
	case *ast.UnaryExpr:
		return x.Op.String() + nodeText(x.X)
	case *ast.SelectorExpr:
		return nodeText(x.X) + "." + x.Sel.Name
	case *ast.CallExpr:
		s := nodeText(x.Fun) + "("
		for i, a := range x.Args {
			if i > 0 {
				s += ","
			}
			s += nodeText(a)
		}
		return s + ")"
	case *ast.ParenExpr:
		return nodeText(x.X)
	case *ast.StarExpr:
		return "*" + nodeText(x.X)
	}
	return fmt.Sprintf("%T@%s", e, pos(e))
}
