// Command quicwire translates /repo/quicwire/wire.go into Lean 4 (T1 of DESIGN.md §4).
//
// Usage: quicwire <repo root>   — writes the Lean module to stdout, fails (exit 1, message on
// stderr naming the construct) on any syntax outside the supported subset.
//
// Subset: functions over []byte, uint64/uint32/uint8/byte and int/int64; `if`, tagged and untagged
// `switch`, `return`, `panic`, `:=`, `=`, local `const`; integer literals, comparisons,
// `& | << >> + -`, `len`, conversions, index, two-part slices, `append` (element and spread forms),
// `binary.BigEndian.Uint32/64`, calls to functions of the same file.
//
// Semantics of the output: every function returns `Res`, in which Go's run-time panics (index,
// slice bounds, explicit panic) are `Res.panic`. Unsigned values are `Nat` with explicit wrapping
// at left shifts and byte conversions; `int` values are `Int`.
package main

import (
	"crypto/sha256"
	"fmt"
	"go/ast"
	"go/constant"
	"go/parser"
	"go/token"
	"os"
	"path/filepath"
	"sort"
	"strings"
)

type ty int

const (
	tNat ty = iota
	tInt
	tBytes
	tUnknown
)

type fnSig struct {
	params  []string
	ptypes  []ty
	results []ty
	optRes  []bool // result position may be nil (Option Bytes)
	rnames  []string
}

type tr struct {
	fset   *token.FileSet
	sigs   map[string]*fnSig
	cur    *fnSig
	fresh  int
	consts map[string]constant.Value // package-level integer constants
	loop   *loopCtx                  // set while translating the body of a `for { }`
	aux    []string                  // auxiliary definitions (loops) to emit before the current function
	fname  string
	nloops int
}

// loopCtx: a `for { … }` becomes a fuel-indexed recursive definition over the variables assigned in its body;
// it returns `Sum.inl v` for a `return v` inside the loop and `Sum.inr state` for a `break`.
type loopCtx struct {
	name  string
	args  string   // the captured (read-only) variables, as an argument string
	state []string // variables assigned in the body
}

func (l *loopCtx) tuple() string {
	if len(l.state) == 1 {
		return l.state[0]
	}
	return "(" + strings.Join(l.state, ", ") + ")"
}

// constVal evaluates an integer constant expression over literals and package-level constants.
func (t *tr) constVal(e ast.Expr) (constant.Value, bool) {
	switch x := e.(type) {
	case *ast.BasicLit:
		if x.Kind != token.INT {
			return nil, false
		}
		v := constant.MakeFromLiteral(x.Value, token.INT, 0)
		return v, v.Kind() == constant.Int
	case *ast.Ident:
		v, ok := t.consts[x.Name]
		return v, ok
	case *ast.ParenExpr:
		return t.constVal(x.X)
	case *ast.BinaryExpr:
		a, ok1 := t.constVal(x.X)
		b, ok2 := t.constVal(x.Y)
		if !ok1 || !ok2 {
			return nil, false
		}
		switch x.Op {
		case token.SHL, token.SHR:
			n, ok := constant.Uint64Val(b)
			if !ok || n > 200 {
				return nil, false
			}
			return constant.Shift(a, x.Op, uint(n)), true
		case token.ADD, token.SUB, token.MUL, token.AND, token.OR:
			return constant.BinaryOp(a, x.Op, b), true
		}
	}
	return nil, false
}

// namedConst: a constant expression that mentions a package-level constant (it is emitted as its value;
// expressions over literals only keep their shape, as before)
func (t *tr) namedConst(e ast.Expr) bool {
	if _, ok := t.constVal(e); !ok {
		return false
	}
	found := false
	ast.Inspect(e, func(n ast.Node) bool {
		if id, ok := n.(*ast.Ident); ok {
			if _, ok := t.consts[id.Name]; ok {
				found = true
			}
		}
		return true
	})
	return found
}

func (t *tr) isConstExpr(e ast.Expr) bool {
	return untypedConst(e) || t.namedConst(e)
}

func die(fset *token.FileSet, n ast.Node, msg string) {
	fmt.Fprintf(os.Stderr, "quicwire translator: %s: unsupported construct: %s\n", fset.Position(n.Pos()), msg)
	os.Exit(1)
}

func goType(e ast.Expr) ty {
	switch t := e.(type) {
	case *ast.Ident:
		switch t.Name {
		case "uint64", "uint32", "uint8", "byte", "uint16":
			return tNat
		case "int", "int64":
			return tInt
		case "string":
			return tBytes // a Go string is its bytes here (only len, conversion and append are used on it)
		}
	case *ast.ArrayType:
		if t.Len == nil {
			if id, ok := t.Elt.(*ast.Ident); ok && id.Name == "byte" {
				return tBytes
			}
		}
	}
	return tUnknown
}

func leanTy(t ty, opt bool) string {
	switch t {
	case tNat:
		return "Nat"
	case tInt:
		return "Int"
	case tBytes:
		if opt {
			return "Option Bytes"
		}
		return "Bytes"
	}
	return "?"
}

type env map[string]ty

func (t *tr) tmp() string {
	t.fresh++
	return fmt.Sprintf("t%d", t.fresh)
}

// typeOf infers the sort of an expression (want is the sort expected by the context, used for
// untyped constants).
func (t *tr) typeOf(e ast.Expr, en env, want ty) ty {
	if t.namedConst(e) {
		if want == tUnknown {
			return tInt
		}
		return want
	}
	switch x := e.(type) {
	case *ast.BasicLit:
		if x.Kind == token.STRING {
			return tBytes
		}
		if want == tUnknown {
			return tInt
		}
		return want
	case *ast.Ident:
		if v, ok := en[x.Name]; ok {
			return v
		}
		if x.Name == "nil" {
			return tBytes
		}
		die(t.fset, e, "unknown identifier "+x.Name)
	case *ast.ParenExpr:
		return t.typeOf(x.X, en, want)
	case *ast.UnaryExpr:
		return t.typeOf(x.X, en, want)
	case *ast.BinaryExpr:
		switch x.Op {
		case token.SHL, token.SHR:
			return t.typeOf(x.X, en, want)
		}
		if t.isConstExpr(x.X) {
			return t.typeOf(x.Y, en, want)
		}
		return t.typeOf(x.X, en, tUnknown)
	case *ast.CallExpr:
		if id, ok := x.Fun.(*ast.Ident); ok {
			if id.Name == "len" {
				return tInt
			}
			if id.Name == "append" || id.Name == "make" {
				return tBytes
			}
			if g := goType(id); g != tUnknown {
				return g
			}
			if s, ok := t.sigs[id.Name]; ok && len(s.results) == 1 {
				return s.results[0]
			}
		}
		if sel, ok := x.Fun.(*ast.SelectorExpr); ok && (sel.Sel.Name == "Uint32" || sel.Sel.Name == "Uint64") {
			return tNat
		}
		if goType(x.Fun) == tBytes {
			return tBytes // []byte(s)
		}
		die(t.fset, e, "call in expression")
	case *ast.IndexExpr:
		return tNat
	case *ast.SliceExpr:
		return tBytes
	}
	die(t.fset, e, fmt.Sprintf("expression %T", e))
	return tUnknown
}

// expr translates e in continuation-passing style: k receives a Lean term for the (pure) value.
func (t *tr) expr(e ast.Expr, en env, want ty, k func(string) string) string {
	if t.namedConst(e) {
		v, _ := t.constVal(e)
		if constant.Sign(v) < 0 {
			if want != tInt {
				die(t.fset, e, "negative constant in an unsigned context")
			}
			return k("(-(" + constant.UnaryOp(token.SUB, v, 0).ExactString() + " : Int))")
		}
		if want == tInt {
			return k("(" + v.ExactString() + " : Int)")
		}
		return k("(" + v.ExactString() + " : Nat)")
	}
	switch x := e.(type) {
	case *ast.BasicLit:
		if x.Kind == token.STRING {
			if x.Value != `""` {
				die(t.fset, e, "non-empty string literal")
			}
			return k("([] : Bytes)")
		}
		if x.Kind != token.INT {
			die(t.fset, e, "non-integer literal")
		}
		if want == tInt {
			return k("(" + x.Value + " : Int)")
		}
		return k("(" + x.Value + " : Nat)")
	case *ast.Ident:
		if x.Name == "nil" {
			return k("none")
		}
		if _, ok := en[x.Name]; !ok {
			die(t.fset, e, "unknown identifier "+x.Name)
		}
		return k(x.Name)
	case *ast.ParenExpr:
		return t.expr(x.X, en, want, k)
	case *ast.UnaryExpr:
		if x.Op == token.SUB {
			return t.expr(x.X, en, tInt, func(v string) string { return k("(-" + v + ")") })
		}
		die(t.fset, e, "unary "+x.Op.String())
	case *ast.BinaryExpr:
		lt := t.typeOf(e, en, want)
		switch x.Op {
		case token.SHL, token.SHR:
			if t.isConstExpr(x.X) && want != tUnknown {
				lt = want
			}
			return t.expr(x.X, en, lt, func(a string) string {
				return t.expr(x.Y, en, tNat, func(b string) string {
					if x.Op == token.SHR {
						return k("(Go.shr " + a + " " + b + ")")
					}
					// the width of a left shift is that of its left operand: byte if it is a byte expression
					if t.isByte(x.X, en) {
						return k("(Go.shl8 " + a + " " + b + ")")
					}
					return k("(Go.shl64 " + a + " " + b + ")")
				})
			})
		case token.REM:
			if lt != tInt {
				die(t.fset, e, "unsigned remainder")
			}
			return t.expr(x.X, en, lt, func(a string) string {
				return t.expr(x.Y, en, lt, func(b string) string { return k("(Go.irem " + a + " " + b + ")") })
			})
		case token.AND, token.OR, token.ADD, token.SUB:
			return t.expr(x.X, en, lt, func(a string) string {
				return t.expr(x.Y, en, lt, func(b string) string {
					switch x.Op {
					case token.AND:
						return k("(Go.band " + a + " " + b + ")")
					case token.OR:
						return k("(Go.bor " + a + " " + b + ")")
					case token.ADD:
						return k("(" + a + " + " + b + ")")
					default:
						if lt == tNat {
							die(t.fset, e, "unsigned subtraction")
						}
						return k("(" + a + " - " + b + ")")
					}
				})
			})
		}
		die(t.fset, e, "binary "+x.Op.String())
	case *ast.IndexExpr:
		return t.expr(x.X, en, tBytes, func(b string) string {
			return t.expr(x.Index, en, tInt, func(i string) string {
				v := t.tmp()
				return "(Go.idx " + b + " " + i + ").bind fun " + v + " =>\n" + k(v)
			})
		})
	case *ast.SliceExpr:
		if x.Slice3 {
			die(t.fset, e, "three-index slice")
		}
		return t.expr(x.X, en, tBytes, func(b string) string {
			v := t.tmp()
			switch {
			case x.Low != nil && x.High == nil:
				return t.expr(x.Low, en, tInt, func(lo string) string {
					return "(Go.sliceFrom " + b + " " + lo + ").bind fun " + v + " =>\n" + k(v)
				})
			case x.Low != nil && x.High != nil:
				return t.expr(x.Low, en, tInt, func(lo string) string {
					return t.expr(x.High, en, tInt, func(hi string) string {
						return "(Go.slice " + b + " " + lo + " " + hi + ").bind fun " + v + " =>\n" + k(v)
					})
				})
			case x.Low == nil && x.High != nil:
				ht := t.typeOf(x.High, en, tInt)
				return t.expr(x.High, en, ht, func(hi string) string {
					if ht == tNat {
						hi = "(" + hi + " : Int)"
					}
					return "(Go.sliceTo " + b + " " + hi + ").bind fun " + v + " =>\n" + k(v)
				})
			}
			die(t.fset, e, "slice form")
			return ""
		})
	case *ast.CallExpr:
		if id, ok := x.Fun.(*ast.Ident); ok {
			switch {
			case id.Name == "len":
				return t.expr(x.Args[0], en, tBytes, func(b string) string { return k("(Go.len " + b + ")") })
			case id.Name == "make":
				if len(x.Args) != 2 || goType(x.Args[0]) != tBytes {
					die(t.fset, e, "make form")
				}
				return t.expr(x.Args[1], en, tInt, func(n string) string {
					v := t.tmp()
					return "(Go.makeBytes " + n + ").bind fun " + v + " =>\n" + k(v)
				})
			case id.Name == "append":
				return t.expr(x.Args[0], en, tBytes, func(b string) string {
					if x.Ellipsis.IsValid() {
						return t.expr(x.Args[1], en, tBytes, func(v string) string { return k("(" + b + " ++ " + v + ")") })
					}
					var elems []string
					var rec func(i int) string
					rec = func(i int) string {
						if i == len(x.Args) {
							return k("(Go.appendBytes " + b + " [" + strings.Join(elems, ", ") + "])")
						}
						return t.expr(x.Args[i], en, tNat, func(v string) string {
							elems = append(elems, v)
							return rec(i + 1)
						})
					}
					return rec(1)
				})
			case goType(id) != tUnknown:
				to := goType(id)
				from := t.typeOf(x.Args[0], en, to)
				return t.expr(x.Args[0], en, from, func(v string) string {
					switch {
					case id.Name == "byte" || id.Name == "uint8":
						if from == tInt {
							return k("(Go.u8 (Int.toNat " + v + "))")
						}
						return k("(Go.u8 " + v + ")")
					case to == tNat && from == tInt:
						return k("(Int.toNat " + v + ")")
					case to == tInt && from == tNat:
						return k("(" + v + " : Int)")
					default:
						return k(v)
					}
				})
			default:
				s, ok := t.sigs[id.Name]
				if !ok || len(s.results) != 1 {
					die(t.fset, e, "call of "+id.Name+" in expression")
				}
				return t.call(id.Name, x.Args, en, func(vs []string) string { return k(vs[0]) })
			}
		}
		if goType(x.Fun) == tBytes && len(x.Args) == 1 {
			return t.expr(x.Args[0], en, tBytes, k) // []byte(s): the same bytes
		}
		if sel, ok := x.Fun.(*ast.SelectorExpr); ok {
			if sel.Sel.Name == "Uint32" || sel.Sel.Name == "Uint64" {
				return t.expr(x.Args[0], en, tBytes, func(b string) string {
					v := t.tmp()
					return "(Go.be" + sel.Sel.Name + " " + b + ").bind fun " + v + " =>\n" + k(v)
				})
			}
		}
		die(t.fset, e, "call")
	}
	die(t.fset, e, fmt.Sprintf("expression %T", e))
	return ""
}

// untypedConst: an expression made of integer literals only (its type comes from the context)
func untypedConst(e ast.Expr) bool {
	switch x := e.(type) {
	case *ast.BasicLit:
		return true
	case *ast.ParenExpr:
		return untypedConst(x.X)
	case *ast.BinaryExpr:
		return untypedConst(x.X) && untypedConst(x.Y)
	}
	return false
}

func (t *tr) isByte(e ast.Expr, en env) bool {
	switch x := e.(type) {
	case *ast.ParenExpr:
		return t.isByte(x.X, en)
	case *ast.BasicLit:
		return true // an untyped constant shifted inside a byte expression ((1<<6)|byte(..))
	case *ast.CallExpr:
		if id, ok := x.Fun.(*ast.Ident); ok {
			return id.Name == "byte" || id.Name == "uint8"
		}
	case *ast.IndexExpr:
		return true
	case *ast.BinaryExpr:
		return t.isByte(x.X, en)
	}
	return false
}

// call translates a call of a function of this file; k receives the names of its results.
func (t *tr) call(name string, args []ast.Expr, en env, k func([]string) string) string {
	s := t.sigs[name]
	var vals []string
	var rec func(i int) string
	rec = func(i int) string {
		if i == len(args) {
			var rs []string
			for range s.results {
				rs = append(rs, t.tmp())
			}
			pat := rs[0]
			if len(rs) == 2 {
				pat = "(" + rs[0] + ", " + rs[1] + ")"
			}
			return "(" + name + " " + strings.Join(vals, " ") + ").bind fun " + pat + " =>\n" + k(rs)
		}
		return t.expr(args[i], en, s.ptypes[i], func(v string) string {
			vals = append(vals, v)
			return rec(i + 1)
		})
	}
	return rec(0)
}

func (t *tr) cond(e ast.Expr, en env, k func(string) string) string {
	b, ok := e.(*ast.BinaryExpr)
	if !ok {
		die(t.fset, e, "condition")
	}
	ops := map[token.Token]string{token.LSS: "<", token.LEQ: "≤", token.GTR: ">", token.GEQ: "≥", token.EQL: "=", token.NEQ: "≠"}
	op, ok := ops[b.Op]
	if !ok {
		die(t.fset, e, "condition operator "+b.Op.String())
	}
	var lt ty
	if t.isConstExpr(b.X) {
		lt = t.typeOf(b.Y, en, tUnknown)
	} else {
		lt = t.typeOf(b.X, en, tUnknown)
	}
	return t.expr(b.X, en, lt, func(a string) string {
		return t.expr(b.Y, en, lt, func(c string) string { return k("(" + a + " " + op + " " + c + ")") })
	})
}

func (t *tr) ret(r *ast.ReturnStmt, en env) string {
	s := t.cur
	if len(r.Results) == 0 {
		// naked return of named results
		var vs []string
		for i, n := range s.rnames {
			vs = append(vs, t.wrapRes(i, n, false))
		}
		return ".ok (" + strings.Join(vs, ", ") + ")"
	}
	if len(r.Results) == 1 && len(s.results) > 1 {
		// return f(x) forwarding several results is not used in wire.go
		die(t.fset, r, "forwarding return")
	}
	var vals []string
	var rec func(i int) string
	rec = func(i int) string {
		if i == len(r.Results) {
			return ".ok (" + strings.Join(vals, ", ") + ")"
		}
		isNil := false
		if id, ok := r.Results[i].(*ast.Ident); ok && id.Name == "nil" {
			isNil = true
		}
		return t.expr(r.Results[i], en, s.results[i], func(v string) string {
			vals = append(vals, t.wrapRes(i, v, isNil))
			return rec(i + 1)
		})
	}
	return rec(0)
}

func (t *tr) wrapRes(i int, v string, isNil bool) string {
	if t.cur.results[i] == tBytes && t.cur.optRes[i] {
		if isNil {
			return "none"
		}
		return "(some " + v + ")"
	}
	return v
}

// stmts translates a statement list; what follows an `if`/`switch` whose arms all return is its `else`.
func (t *tr) stmts(list []ast.Stmt, en env) string {
	if len(list) == 0 {
		if t.loop != nil {
			// end of the loop body: next iteration
			return t.loop.name + t.loop.args + " fuel " + strings.Join(parenAll(t.loop.state), " ")
		}
		return ".err -- fell off the end of a block"
	}
	st, rest := list[0], list[1:]
	switch s := st.(type) {
	case *ast.ReturnStmt:
		if t.loop != nil {
			if len(s.Results) != 1 {
				die(t.fset, st, "return inside a loop")
			}
			return t.expr(s.Results[0], en, t.cur.results[0], func(v string) string { return ".ok (Sum.inl " + v + ")" })
		}
		return t.ret(s, en)
	case *ast.BranchStmt:
		if s.Tok != token.BREAK || t.loop == nil || s.Label != nil {
			die(t.fset, st, "branch statement")
		}
		return ".ok (Sum.inr " + t.loop.tuple() + ")"
	case *ast.IncDecStmt:
		n := s.X.(*ast.Ident).Name
		if en[n] != tInt {
			die(t.fset, st, "++/-- on a non-int")
		}
		op := " + "
		if s.Tok == token.DEC {
			op = " - "
		}
		return "let " + n + " := (" + n + op + "(1 : Int))\n" + t.stmts(rest, en)
	case *ast.ForStmt:
		if s.Init != nil || s.Cond != nil || s.Post != nil || t.loop != nil {
			die(t.fset, st, "for statement other than a top-level `for { }`")
		}
		if len(t.cur.results) != 1 {
			die(t.fset, st, "loop in a function with several results")
		}
		// state: the variables assigned in the body (they must exist already)
		var state []string
		seen := map[string]bool{}
		ast.Inspect(s.Body, func(n ast.Node) bool {
			var id *ast.Ident
			switch a := n.(type) {
			case *ast.IncDecStmt:
				id, _ = a.X.(*ast.Ident)
			case *ast.AssignStmt:
				if a.Tok == token.DEFINE {
					die(t.fset, a, "definition inside a loop")
				}
				id, _ = a.Lhs[0].(*ast.Ident)
			}
			if id != nil && !seen[id.Name] {
				if _, ok := en[id.Name]; !ok {
					die(t.fset, n, "loop assigns an unknown variable")
				}
				seen[id.Name] = true
				state = append(state, id.Name)
			}
			return true
		})
		// captured variables, in a fixed order: parameters first, then other locals by name
		var capt []string
		for _, p := range t.cur.params {
			if !seen[p] {
				capt = append(capt, p)
			}
		}
		var locals []string
		for n := range en {
			if !seen[n] && !contains(t.cur.params, n) {
				locals = append(locals, n)
			}
		}
		sort.Strings(locals)
		capt = append(capt, locals...)
		t.nloops++
		lc := &loopCtx{name: fmt.Sprintf("%s_loop%d", t.fname, t.nloops), state: state}
		var binders, stTys, fuelTerms []string
		for _, c := range capt {
			lc.args += " " + c
			binders = append(binders, "("+c+" : "+leanTy(en[c], false)+")")
			if en[c] == tBytes {
				fuelTerms = append(fuelTerms, c+".length")
			}
		}
		for _, v := range state {
			stTys = append(stTys, leanTy(en[v], false))
		}
		t.loop = lc
		body := t.stmts(s.Body.List, en.copy())
		t.loop = nil
		body = "    " + strings.ReplaceAll(body, "\n", "\n    ")
		retTy := leanTy(t.cur.results[0], t.cur.optRes[0])
		def := fmt.Sprintf("def %s %s : Nat → %s → Res (%s ⊕ %s)\n  | 0, %s => .err -- out of fuel\n  | fuel + 1, %s =>\n%s\n",
			lc.name, strings.Join(binders, " "), strings.Join(stTys, " → "), retTy, strings.Join(stTys, " × "),
			strings.Join(underscores(len(state)), ", "), strings.Join(state, ", "), body)
		t.aux = append(t.aux, def)
		// enough fuel for one step per byte of every captured byte string, plus slack
		fuel := "(" + strings.Join(append(fuelTerms, "2"), " + ") + ")"
		r := t.tmp()
		return "(" + lc.name + lc.args + " " + fuel + " " + strings.Join(parenAll(state), " ") + ").bind fun " + r + " =>\nmatch " + r + " with\n| Sum.inl v => .ok v\n| Sum.inr " +
			lc.tuple() + " =>\n" + t.stmts(rest, en)
	case *ast.ExprStmt:
		if c, ok := s.X.(*ast.CallExpr); ok {
			if id, ok := c.Fun.(*ast.Ident); ok && id.Name == "panic" {
				return ".panic"
			}
		}
		die(t.fset, st, "expression statement")
	case *ast.IfStmt:
		if s.Init != nil || s.Else != nil {
			die(t.fset, st, "if with init/else")
		}
		return t.cond(s.Cond, en, func(c string) string {
			return "if " + c + " then\n" + t.stmts(s.Body.List, en.copy()) + "\nelse\n" + t.stmts(rest, en)
		})
	case *ast.DeclStmt:
		gd := s.Decl.(*ast.GenDecl)
		if gd.Tok != token.CONST {
			die(t.fset, st, "declaration")
		}
		out := ""
		for _, sp := range gd.Specs {
			vs := sp.(*ast.ValueSpec)
			for i, n := range vs.Names {
				en[n.Name] = tInt
				out += "let " + n.Name + " : Int := " + vs.Values[i].(*ast.BasicLit).Value + "\n"
			}
		}
		return out + t.stmts(rest, en)
	case *ast.AssignStmt:
		if len(s.Rhs) == 1 {
			if c, ok := s.Rhs[0].(*ast.CallExpr); ok {
				if id, ok := c.Fun.(*ast.Ident); ok {
					if sig, ok := t.sigs[id.Name]; ok && len(sig.results) == len(s.Lhs) && len(s.Lhs) > 1 {
						return t.call(id.Name, c.Args, en, func(rs []string) string {
							out := ""
							for i, l := range s.Lhs {
								n := l.(*ast.Ident).Name
								en[n] = sig.results[i]
								out += "let " + n + " := " + rs[i] + "\n"
							}
							return out + t.stmts(rest, en)
						})
					}
				}
			}
		}
		if len(s.Lhs) != 1 || len(s.Rhs) != 1 {
			die(t.fset, st, "assignment form")
		}
		n := s.Lhs[0].(*ast.Ident).Name
		want := tUnknown
		if old, ok := en[n]; ok && s.Tok == token.ASSIGN {
			want = old
		}
		vt := t.typeOf(s.Rhs[0], en, want)
		return t.expr(s.Rhs[0], en, vt, func(v string) string {
			en[n] = vt
			return "let " + n + " := " + v + "\n" + t.stmts(rest, en)
		})
	case *ast.SwitchStmt:
		if s.Init != nil {
			die(t.fset, st, "switch with init")
		}
		arms := func(tag string, tagTy ty) string {
			out := ""
			var deflt []ast.Stmt
			hasDefault := false
			for _, cc := range s.Body.List {
				c := cc.(*ast.CaseClause)
				if c.List == nil {
					deflt, hasDefault = c.Body, true
					continue
				}
				if len(c.List) != 1 {
					die(t.fset, c, "case list")
				}
				if tag != "" {
					lit, ok := c.List[0].(*ast.BasicLit)
					if !ok {
						die(t.fset, c, "case value")
					}
					out += "if " + tag + " = (" + lit.Value + " : Nat) then\n" + t.stmts(c.Body, en.copy()) + "\nelse "
				} else {
					out += t.cond(c.List[0], en, func(cnd string) string {
						return "if " + cnd + " then\n" + t.stmts(c.Body, en.copy()) + "\nelse "
					})
				}
			}
			if hasDefault {
				return out + "\n" + t.stmts(deflt, en.copy())
			}
			return out + "\n" + t.stmts(rest, en)
		}
		if s.Tag == nil {
			return arms("", tUnknown)
		}
		return t.expr(s.Tag, en, tNat, func(v string) string {
			tg := t.tmp()
			return "let " + tg + " := " + v + "\n" + arms(tg, tNat)
		})
	}
	die(t.fset, st, fmt.Sprintf("statement %T", st))
	return ""
}

func parenAll(xs []string) []string {
	var o []string
	for _, x := range xs {
		o = append(o, "("+x+")")
	}
	return o
}

func underscores(n int) []string {
	var o []string
	for i := 0; i < n; i++ {
		o = append(o, "_")
	}
	return o
}

func contains(xs []string, x string) bool {
	for _, y := range xs {
		if x == y {
			return true
		}
	}
	return false
}

func (e env) copy() env {
	c := env{}
	for k, v := range e {
		c[k] = v
	}
	return c
}

func main() {
	if len(os.Args) != 2 && len(os.Args) != 5 {
		fmt.Fprintln(os.Stderr, "usage: quicwire <repo root> [<file relative to the root> <Lean namespace suffix> <func,func,…>]")
		os.Exit(2)
	}
	rel, nsName := "quicwire/wire.go", "Quicwire"
	only, found := map[string]bool{}, map[string]bool{}
	selecting := len(os.Args) == 5
	if len(os.Args) == 5 {
		rel, nsName = os.Args[2], os.Args[3]
		for _, f := range strings.Split(os.Args[4], ",") {
			only[f] = true
		}
	}
	path := filepath.Join(os.Args[1], filepath.FromSlash(rel))
	src, err := os.ReadFile(path)
	if err != nil {
		fmt.Fprintln(os.Stderr, err)
		os.Exit(1)
	}
	fset := token.NewFileSet()
	f, err := parser.ParseFile(fset, path, src, 0)
	if err != nil {
		fmt.Fprintln(os.Stderr, err)
		os.Exit(1)
	}
	t := &tr{fset: fset, sigs: map[string]*fnSig{}, consts: map[string]constant.Value{}}
	// package-level integer constants (in source order, so that one may refer to an earlier one)
	for _, d := range f.Decls {
		gd, ok := d.(*ast.GenDecl)
		if !ok || gd.Tok != token.CONST {
			continue
		}
		for _, sp := range gd.Specs {
			vs := sp.(*ast.ValueSpec)
			if len(vs.Values) != len(vs.Names) {
				die(fset, vs, "constant without a value of its own (iota / repeated)")
			}
			for i, n := range vs.Names {
				v, ok := t.constVal(vs.Values[i])
				if !ok {
					die(fset, vs, "constant "+n.Name+" is not an integer constant expression")
				}
				t.consts[n.Name] = v
			}
		}
	}
	var fns []*ast.FuncDecl
	for _, d := range f.Decls {
		fd, ok := d.(*ast.FuncDecl)
		if !ok {
			continue
		}
		if selecting && !only[fd.Name.Name] {
			continue
		}
		found[fd.Name.Name] = true
		if fd.Recv != nil {
			die(fset, fd, "method")
		}
		s := &fnSig{}
		for _, p := range fd.Type.Params.List {
			pt := goType(p.Type)
			if pt == tUnknown {
				die(fset, p, "parameter type")
			}
			for _, n := range p.Names {
				s.params = append(s.params, n.Name)
				s.ptypes = append(s.ptypes, pt)
			}
		}
		if fd.Type.Results != nil {
			for _, r := range fd.Type.Results.List {
				rt := goType(r.Type)
				if rt == tUnknown {
					die(fset, r, "result type")
				}
				cnt := len(r.Names)
				if cnt == 0 {
					cnt = 1
				}
				for i := 0; i < cnt; i++ {
					s.results = append(s.results, rt)
					s.optRes = append(s.optRes, false)
					if len(r.Names) > 0 {
						s.rnames = append(s.rnames, r.Names[i].Name)
					}
				}
			}
		}
		// a []byte result is optional if some return statement returns nil there
		ast.Inspect(fd.Body, func(n ast.Node) bool {
			if r, ok := n.(*ast.ReturnStmt); ok {
				for i, e := range r.Results {
					if id, ok := e.(*ast.Ident); ok && id.Name == "nil" && i < len(s.optRes) {
						s.optRes[i] = true
					}
				}
			}
			return true
		})
		t.sigs[fd.Name.Name] = s
		fns = append(fns, fd)
	}
	for f := range only {
		if !found[f] {
			fmt.Fprintf(os.Stderr, "quicwire translator: %s: function %s not found\n", rel, f)
			os.Exit(1)
		}
	}
	var out strings.Builder
	fmt.Fprintf(&out, "import PatVerif.Model.GoSem\n/-! GENERATED by /verif/extract/cmd/quicwire from %s — do not edit.\n", rel)
	if len(os.Args) == 2 {
		fmt.Fprintf(&out, "source sha256: %x -/\n", sha256.Sum256(src))
	} else {
		// only the translated functions count: the rest of the file may change freely
		h := sha256.New()
		for _, fd := range fns {
			h.Write(src[fset.Position(fd.Pos()).Offset:fset.Position(fd.End()).Offset])
		}
		fmt.Fprintf(&out, "sha256 of the translated functions' source text: %x -/\n", h.Sum(nil))
	}
	fmt.Fprintf(&out, "namespace PatVerif.Generated.%s\nopen PatVerif\n\n", nsName)
	for _, fd := range fns {
		s := t.sigs[fd.Name.Name]
		t.cur = s
		t.fresh = 0
		t.fname, t.nloops, t.aux = fd.Name.Name, 0, nil
		en := env{}
		var ps []string
		for i, p := range s.params {
			en[p] = s.ptypes[i]
			ps = append(ps, "("+p+" : "+leanTy(s.ptypes[i], false)+")")
		}
		for i, n := range s.rnames {
			en[n] = s.results[i]
		}
		var rs []string
		for i, r := range s.results {
			rs = append(rs, leanTy(r, s.optRes[i]))
		}
		body := t.stmts(fd.Body.List, en)
		// named results start at their zero values
		pre := ""
		for i, n := range s.rnames {
			if s.results[i] != tBytes {
				pre += "let " + n + " : " + leanTy(s.results[i], false) + " := 0\n"
			}
		}
		for _, a := range t.aux {
			fmt.Fprintf(&out, "%s\n", a)
		}
		fmt.Fprintf(&out, "def %s %s : Res (%s) :=\n%s%s\n\n", fd.Name.Name, strings.Join(ps, " "), strings.Join(rs, " × "), pre, body)
	}
	fmt.Fprintf(&out, "end PatVerif.Generated.%s\n", nsName)
	fmt.Print(out.String())
}
