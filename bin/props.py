"""Per-property configuration of bin/check."""

COMMON_TB = [
    "correspondence harness /verif/harness (Go, calls the real packages in-process) and its canonicalisation",
    "hand-written Lean model tied to /repo by executing model and implementation on the same operations",
]

CONFIG = {
    "C19": {
        "rule": "Values: every class boundary ±2, random values of every bit length, values above 2^62-1; "
                "decoder inputs: all (sampled in quick) two-byte prefixes × lengths 0..9 and random strings; "
                "length-prefixed strings with declared lengths around the remaining size, 2^14, 2^30, 2^62-1, "
                "minimal and non-minimal prefixes; thorough: every v < 2^30 against the closed form.",
        "level_text": "Every clause of C19 is a Lean theorem about the model of quicwire/wire.go, for all values, byte strings and "
                      "declared lengths (no bound): shortest form, prefix untouched, size = length, decode∘encode, reads only the "
                      "announced bytes, fails exactly on short input, re-encoding no longer, length-prefixed round trips, no panic "
                      "and (nil,-1) for any declared length beyond the input. The model is tied to the Go code by running both on "
                      "the same operations (1e5 quick / 2e6 thorough) and by direct oracles incl. every v < 2^30 (thorough).",
        "level_note": "Two ties, both checked on every run. (1) Translation: /verif/extract/cmd/quicwire translates quicwire/wire.go "
                      "(go/ast + go/constant; shifts, ors, index and slice expressions as written, partial operations in a Res monad) into "
                      "lean/PatVerif/Generated/Quicwire.lean; Proofs/QuicwireRefine.lean proves each of the 11 translated functions equal "
                      "to the model's, and Props/C19Gen.lean restates the clauses of C19 about the translated functions. A change of "
                      "wire.go outside the translated subset, or one that breaks a refinement proof, is a broken obligation. "
                      "(2) Execution: the correspondence stream and direct oracles. Trusted: Lean kernel (+ leanchecker in thorough), "
                      "axioms propext/Classical.choice/Quot.sound, the translator (≈650 lines of Go) and Model/GoSem.lean (Go's operators on "
                      "uint64/int/[]byte), the Go harness and line-protocol canonicalisation.",
        "trusted_base": COMMON_TB,
        "extractors": [{"name": "quicwire", "out": "Quicwire.lean"}],
        "extra_modules": ["PatVerif.Proofs.QuicwireRefine", "PatVerif.Props.C19Gen"],
        "assumptions": ["Go uint64/int arithmetic in quicwire does not wrap for the modelled inputs (lengths < 2^31)",
                        "Model/GoSem.lean states Go's semantics of >>, <<, |, &, byte(), indexing, slicing and append correctly"],
        "contradicts": "PatVerif.Props.C19 (append_spec, size_spec, encLen_minimal, consume_encode, consume_prefix, "
                       "consume_fail_iff, reencode_shorter, consumeVarintBytes_total/short, *_roundtrip)",
    },
    "C04": {
        "rule": "Per structure (Token ×4 widths, TokenChallenge, TokenRequest types 1/2/3/5, inner request, EncapKey, generic batch "
                "request, batch response list): random well-formed values through encoder and decoder; mutated encodings "
                "(truncations, extensions, bit flips and value classes at the type/length/count bytes, non-minimal and oversized "
                "varint prefixes, foreign type tags, other KEM ids); object-reuse histories over {Marshal, Unmarshal good A/B, "
                "Unmarshal bad} (random, and exhaustive to length 4 for type 1 in quick).",
        "level_text": "Round trip, canonical re-encoding (no longer than any accepted string, decodes to the same value), the cache invariant "
                      "of request objects over arbitrary Marshal/Unmarshal histories, and type separation are Lean theorems for every "
                      "structure: each structure is a composition of codec combinators whose two laws are proved once, for all values "
                      "and all byte strings. The model is tied to the Go code by executing both on the same operations and by direct "
                      "round-trip/canonical/reuse oracles on the implementation.",
        "level_note": "Trusted: Lean kernel, the three standard axioms, the harness; x/crypto cryptobyte and go-hpke are modelled "
                      "(read/add semantics restated in Model/Codec.lean; HPKE public-key validity is an oracle parameter). Two ties: "
                      "(1) for the fixed-layout structures (Token and its four decoders, TokenRequest types 1, 2, 3, the type-3 inner "
                      "request) /verif/extract/cmd/wirefacts extracts on every run the sequence of cryptobyte calls of each Marshal / "
                      "Unmarshal (field names, widths, tags, emptiness and trailing-data checks, cache reset/use) into "
                      "Generated/WireFacts.lean, and Proofs/WireFacts.lean proves each sequence, interpreted by Model/WireEv.lean, equal to "
                      "the codec of Model/Structs.lean; any other call, loop or statement kind in those functions is a broken tie. "
                      "(2) for TokenChallenge, type 5, the batches and EncapKey (hand-rolled framing, hand-written models): a statement-level pin of the "
                      "nine Marshal/Unmarshal functions regenerated on every run (extract/cmd/skeleton, loop headers and case values included, "
                      "vs Proofs/SkelCodecs, rfl); (3) for every structure the correspondence stream and the direct oracles (by execution, sampled).",
        "trusted_base": COMMON_TB + ["cryptobyte read/build semantics as restated in Model/Codec.lean", "go-hpke public-key validity (oracle column)",
                                     "the meaning given to the extracted cryptobyte calls in Model/WireEv.lean"],
        "extractors": [{"name": "wirefacts", "out": "WireFacts.lean"}, {"name": "skeleton", "out": "Skeletons.lean"}],
        "extra_modules": ["PatVerif.Proofs.WireFacts", "PatVerif.Proofs.SkelCodecs"],
        "assumptions": ["byte strings shorter than 2^31", "HPKE KEM table of go-hpke as read from its source (ids 0x10,0x12,0x20,0x21,0xFFFE,0xFFFF)"],
        "contradicts": "PatVerif.Props.C04",
    },
    "C20": {
        "rule": "Every name length 0..1100 (quick, thinned above 200) / 0..20000 (thorough) with letter, 0xFF, random and zero-rich "
                "contents through pad/unpad; random strings with trailing/leading/inner zeros through unpad; end to end with a real "
                "client and issuer: lengths around every block boundary, registered name vs names differing in the last byte, "
                "one byte longer/shorter, with a padding-like suffix, and the empty registration set.",
        "level_text": "pad/unpad laws (padded length = 32·blocks, unpad∘pad = id for names not ending in 0, unpad never returns a name ending "
                      "in 0, injectivity), and the wire-size formula 488 + 32·blocks derived from the type-3 request codec, are Lean theorems "
                      "for all names. Tied to the Go code through hooks on padOriginName/unpadOriginName and through real "
                      "CreateTokenRequest → Marshal → Evaluate runs whose size and served/refused verdict the model predicts. "
                      "In addition padOriginName and unpadOriginName are translated from tokens/type3/client.go into Lean on every run "
                      "(the `for` loop becomes a fuel-indexed recursion), proved equal to the model's pad/unpad "
                      "(Proofs/PaddingRefine.lean, incl. that the fuel suffices), and the clauses are restated about the translated code "
                      "(Props/C20Gen.lean).",
        "level_note": "Trusted: Lean kernel, standard axioms, harness. HPKE ciphertext expansion (32-byte enc, 16-byte tag) is modelled as constants "
                      "and validated by the end-to-end stream; names longer than ~65000 bytes make the client's own builder panic (not a peer input).",
        "trusted_base": COMMON_TB + ["HPKE X25519/AES-128-GCM expansion constants 32+16"],
        "extractors": [{"name": "quicwire", "out": "Padding.lean",
                        "args": ["tokens/type3/client.go", "Padding", "padOriginName,unpadOriginName"]}],
        "extra_modules": ["PatVerif.Proofs.UnpadRefine", "PatVerif.Proofs.PaddingRefine", "PatVerif.Props.C20Gen"],
        "assumptions": ["origin names shorter than 65279 bytes",
                        "Model/GoSem.lean states Go's semantics of int %, make, index, slice and append correctly"],
        "contradicts": "PatVerif.Props.C20, PatVerif.Props.C20Gen",
    },
    "C09": {
        "rule": "Histories of VerifyRequest / FinalizeIndex calls on a fresh real attester with real P-384 keys: alphabet of 11 calls "
                "(verify for 2 clients; finalize over 2 clients × 2 index keys × 2 anonymous origin IDs; one finalize with a corrupt key), "
                "all histories up to length 3 (quick) / 4 (thorough); plus random histories of length 6..44 over 4 clients × 4 index keys × 4 "
                "anonymous IDs. Outcomes and the full per-client maps (via the VerifSnapshot hook) are compared after every history; "
                "index strings are mapped to ordinals through a reference computation outside the attester.",
        "level_text": "The attester's bookkeeping is a state machine; its refinement to a four-line specification (accept iff the client is "
                      "known and the index is unbound or bound to the same ID) and the characterisation of every call's outcome by the history "
                      "before it are Lean theorems by induction over arbitrary call sequences; the four clauses of C09 are corollaries. "
                      "The model is tied to attester.go by executing both on the same histories, comparing outcomes and full map snapshots.",
        "level_note": "Trusted: Lean kernel, standard axioms, harness. Client/index/anonymous IDs are abstracted to opaque names; the hex-string keys "
                      "of the Go maps are mapped to ordinals by the harness (injective on the generated worlds).",
        "extractors": [{"name": "skeleton", "out": "Skeletons.lean"}],
        "extra_modules": ["PatVerif.Proofs.SkelAttesterIndex"],
        "trusted_base": COMMON_TB,
        "assumptions": ["hex encoding of keys is injective (Go maps keyed by hex strings behave as maps keyed by the byte strings)"],
        "contradicts": "PatVerif.Props.C09 (refines, outcome_spec, functional, repeat_accepted, unbound_accepted, unknown_refused, reject_preserves)",
    },
    "C05": {
        "rule": "Batches over {type 1, type 2} × {known key, unknown key id, malformed blinded element} (no issuer of that type arises from the "
                "configuration) — every composition up to length 3 (quick, sampled above length 1) / 4 (thorough, length 4 sampled), plus random batches of 4..9 "
                "requests incl. duplicates — against 9 issuer configurations: both types, one type only, two keys per type, reversed order, "
                "always-failing issuers ahead of good ones, colliding (type, last key-id byte) pairs, and the empty configuration. The request "
                "crosses the wire (Marshal → Unmarshal) before EvaluateBatch; the oracle column is each matching issuer's own Evaluate called directly.",
        "level_text": "EvaluateBatch is modelled as `map` of a per-request slot function followed by the response-list encoder; that the client's "
                      "decoder returns exactly one entry per request in order (decode_batch), that an entry is present iff a configured issuer of "
                      "that type and truncated key id evaluates successfully (present_iff), that an entry depends on its own request only (isolation) "
                      "and that with distinct (type, key-id byte) pairs the slot holds that issuer's response (evalOne_distinct) are Lean theorems for "
                      "all configurations and batches. Tied to the Go code by executing both on the same batches (bytes compared) and by direct "
                      "oracles: entry count/order, presence vs direct evaluation, finalization of present entries under their own request state.",
        "level_note": "Trusted: Lean kernel, standard axioms, harness. The per-type issuers' Evaluate is an oracle parameter (CfgSized: a successful "
                      "evaluation returns 145 resp. 256 bytes — validated on every run); token validity of a finalized entry is C01/C02's subject "
                      "and is checked here on the implementation only (`finalizes` is not a theorem of this file).",
        "extractors": [{"name": "skeleton", "out": "Skeletons.lean"}],
        "extra_modules": ["PatVerif.Proofs.SkelBatch"],
        "trusted_base": COMMON_TB + ["per-type Evaluate as oracle (CfgSized hypothesis)"],
        "assumptions": ["CfgSized", "batch responses shorter than 2^62 bytes"],
        "contradicts": "PatVerif.Props.C05 (decode_batch, present_iff, isolation, evalOne_distinct)",
    },
    "C06": {
        "rule": "Directly constructed, validly signed requests of real P-384 clients; every bit (quick: every 9th) of request key, name key id, "
                "ciphertext and signature flipped; ciphertext extended/truncated; signature by another key, over other contents, (r,N-s) twin, "
                "r=0, wrong lengths; wrong/empty/leading-zero blind; other or malformed client key; other client's consistent request; "
                "non-point and short keys; each with the client already cached or not.",
        "level_text": "VerifyRequest is modelled as a decision chain over abstract primitives; accept_iff (acceptance = request key decodes ∧ 96-byte "
                      "signature verifies under it over type‖request_key‖name_key_id‖len‖ciphertext ∧ client key decodes ∧ request key = client key "
                      "blinded with the blind), reject_no_state, accept_state and injectivity of the signed message are Lean theorems for every "
                      "instantiation of the primitives. The driver instantiates them with executable Lean references (P-384 decompression, ECDSA "
                      "verification, SHA-384, XMD hash-to-field blinding), so model and Go code are compared on verdict and cache effect with no oracle.",
        "level_note": "Trusted: Lean kernel, standard axioms, harness. The Exec references are validated against Go's standard library; the abstract "
                      "theorems do not depend on them. Cryptographic unforgeability is not claimed.",
        "extractors": [{"name": "skeleton", "out": "Skeletons.lean"}],
        "extra_modules": ["PatVerif.Proofs.SkelAttesterVerify"],
        "trusted_base": COMMON_TB + ["PatVerif/Exec references (validated differentially, not proved)"],
        "assumptions": [],
        "contradicts": "PatVerif.Props.C06 (accept_iff, reject_no_state, accept_state)",
    },
    "C07": {
        "rule": "Real client requests against real issuers (2 quick / 6 thorough deployments × 2/4 clients): honest; every bit of the request "
                "(quick: every 13th) by field; truncations at every structural boundary; one-byte extension; (r,N-s) twin; unregistered and near-miss "
                "origins; sealed to another issuer's name key; signature spliced from another request; re-signed by another key; request key swapped "
                "and re-signed; random byte strings. HPKE-open and blind-RSA results are oracle columns computed outside Evaluate.",
        "level_text": "Evaluate is modelled as a decision chain; respond_only_if (a response implies complete parse, HPKE open under the bound AAD, "
                      "registered origin, request key decodes, signature verifies over the whole request, blind signature made), unregistered_refused, "
                      "and — under idealised AEAD/signature hypotheses stated in the theorem — only_honest_accepted (every accepted byte string is the "
                      "honest request or its signature twin) are Lean theorems. Verdict and issuer-blinded request key are compared with the Go code; "
                      "the blinded key is recomputed by the Lean P-384/XMD reference.",
        "level_note": "Tamper rejection is a theorem of the symbolic model only (ideal AEAD and signature relative to one honest request); on the real "
                      "primitives it is observed per bit, not proved. HPKE and blind RSA are oracle parameters; response bytes are compared by length.",
        "extractors": [{"name": "skeleton", "out": "Skeletons.lean"}],
        "extra_modules": ["PatVerif.Proofs.SkelIssuer3"],
        "trusted_base": COMMON_TB + ["go-hpke and circl blindrsa as oracles", "PatVerif/Exec references"],
        "assumptions": ["idealised AEAD/ECDSA hypotheses of only_honest_accepted"],
        "contradicts": "PatVerif.Props.C07 (respond_only_if, only_honest_accepted)",
    },
    "C08": {
        "rule": "(client, index key) pairs × 4 full client→issuer→attester flows each with fresh blinds (random, leading zeros, ≥ N), nonces, "
                "challenges and origin names; other client / other index key variants; FinalizeIndex alone with adversarial blind and key encodings.",
        "level_text": "That the ID equals HKDF(salt = client key, ikm = client key blinded by the index key, info = IssuerOriginAlias) for every request "
                      "blind (id_is_function_of_client_and_index_key, id_stable) is a Lean theorem from the blinding laws, and the laws are proved for "
                      "every group of prime order (Mathlib ZMod); distinctness is a theorem under named injectivity hypotheses. The Lean reference "
                      "(P-384, XMD-SHA-384 hash-to-field, HKDF-SHA-384) computes the ID from client key and index key alone and must equal what the "
                      "Go attester returns after real flows with fresh randomness.",
        "level_note": "Trusted: Lean kernel, standard axioms (Mathlib for ZMod), harness, Exec references. HKDF/encoding injectivity is a hypothesis.",
        "extractors": [{"name": "skeleton", "out": "Skeletons.lean"}],
        "extra_modules": ["PatVerif.Proofs.SkelAttesterIndex", "PatVerif.Proofs.SkelIssuer3", "PatVerif.Proofs.Group"],
        "trusted_base": COMMON_TB + ["Mathlib v4.33.0 (ZMod, Field)", "PatVerif/Exec references"],
        "assumptions": ["P-384 group order is prime", "hkdf_inj, enc_inj in distinct_ids"],
        "contradicts": "PatVerif.Props.C08",
    },
    "C03": {
        "rule": "28 probe groups covering the 36 peer-facing entry points (decoders; finalizers on real request states; issuer evaluation "
                "of decoded values; token verification; attester VerifyRequest/FinalizeIndex incl. blind and key arguments; ecdsa.Verify/"
                "VerifyASN1; ed25519.Verify; quicwire consumers). Inputs per entry: the honest message, every truncation (sampled above 80 "
                "bytes in quick), 1..8-byte extensions, every value class at the first 8 bytes, varint prefixes 2^14..2^62-1 spliced in front "
                "and after the 3-byte header, random bit flips / byte classes / cuts, random strings, nil and empty — each placed in a buffer "
                "with 64 poisoned spare bytes. Per call: recovered panic, TotalAlloc delta ≤ 4 MiB + 512·|input|, wall time < 3 s. The literal "
                "Lean models of the hand-rolled decoders and finalizers are compared on outcome and value.",
        "level_text": "For every function with raw slice/index/make expressions a literal Lean model in which those operations are partial, and "
                      "theorems that the result is never `panic` for every input and every behaviour of the dependency calls, with a linear bound "
                      "on make() sizes (type-5 decoder ≤ 2·|input|, FinalizeTokens ≤ |input|+64); cryptobyte-only decoders are total by "
                      "construction; termination by Lean's checker. Tied to the Go code by comparing the literal models with the implementation on "
                      "the malformed stream, and by direct no-panic / allocation / time oracles on every entry point. The literal models of the "
                      "type-5 request decoder, the generic batch request and response decoders and unpadOriginName are moreover proved to "
                      "compute exactly the codecs / specification of C04 and C20 (Proofs/LiteralRefine.lean, Proofs/UnpadRefine.lean), for "
                      "every input: the two hand-written views of each decoder cannot drift apart.",
        "level_note": "Partial: dependencies (circl, go-hpke, crypto/*, cryptobyte ASN.1) not panicking on arbitrary bytes is assumed and only "
                      "observed; wall-clock hangs and resident memory are runtime facts — the theorem is termination and a make-size bound of the "
                      "model, the harness's timeout/allocation counters validate it. ed25519.Verify's public-key length is a documented precondition.",
        "trusted_base": COMMON_TB + ["dependencies are total on arbitrary bytes (observed, not proved)"],
        "assumptions": ["inputs shorter than 2^31 bytes", "ed25519 public keys are 32 bytes (documented precondition)"],
        "mem_gb": 6,
        "extractors": [{"name": "skeleton", "out": "Skeletons.lean"}],
        "extra_modules": ["PatVerif.Proofs.LiteralRefine", "PatVerif.Proofs.UnpadRefine", "PatVerif.Proofs.SkelCodecs"],
        "contradicts": "PatVerif.Props.C03",
    },
    "C01": {
        "rule": "Honest runs of types 1, 2, 5 (fixed and random blinds) and 3 with the request crossing the wire (Marshal → fresh object "
                "Unmarshal): challenges of length 0,1,31,32,33,55,255,1000,65535 and random; 6/40 keys per type; batch sizes 1..8/1..64; "
                "origin names of 1..200 bytes. Oracle columns from circl/std directly: blinded element for the given blind, VOPRF FullEvaluate, "
                "RSASSA-PSS signature for the given salt; SHA-256 and the token layout are computed by the Lean model.",
        "level_text": "honest_issuance: for every scheme satisfying the primitives' contract (Scheme.Laws), every key, challenge, 32-byte nonce and key id "
                      "and all randomness, the request survives dec∘enc, the issuer evaluates, the client finalizes, the token verifies and equals "
                      "type‖nonce‖SHA-256(challenge)‖key id‖authenticator with an Nk-byte authenticator — a Lean theorem over the modelled glue. "
                      "The model (with Lean's own SHA-256) must reproduce the Go request and token bytes for fixed blinds, and the token for random ones.",
        "level_note": "The VOPRF / blind-RSA / HPKE contracts are hypotheses (Scheme.Laws), not proved; type 5 is the per-element statement plus the "
                      "type-5 request codec of C04; type 3 compares token prefix, authenticator length/validity and request size.",
        "extractors": [{"name": "skeleton", "out": "Skeletons.lean"}],
        "extra_modules": ["PatVerif.Proofs.SkelEvaluate"],
        "trusted_base": COMMON_TB + ["circl oprf/blindrsa, crypto/rsa as oracles", "PatVerif/Exec SHA-256"],
        "assumptions": ["Scheme.Laws (primitive contract)"],
        "contradicts": "PatVerif.Props.C01.honest_issuance",
    },
    "C02": {
        "rule": "Per type, on real request states: the honest response; every bit of it (quick: strides 7/17/13/5 for types 1/2/3/5); truncations and a "
                "one-byte extension; responses under another issuer key; responses to another request of the same client; type 5 with elements "
                "dropped, duplicated, rotated, swapped, added, and the empty list. Types 1/2: the primitive's own finalize verdict is an oracle column "
                "(circl called directly on an independent split) and the model predicts the returned token bytes; types 3/5: direct oracles.",
        "level_text": "finalize_bound (a returned token carries the request's own type, nonce, digest and key id and the primitive's unblinded value), "
                      "finalize_sound_rechecked (types 2/3: unconditional, the client re-verifies), finalize_sound_voprf (types 1/5 under the named DLEQ-soundness "
                      "hypothesis), finalize_rejects, and the type-5 element-count check are Lean theorems for all responses. Every token any finalize call "
                      "returns in the stream is re-verified under the pinned key and field-compared (direct oracle).",
        "level_note": "DLEQ soundness is a hypothesis; that every bit flip is rejected is observed exhaustively per bit (thorough), not proved of the real primitives.",
        "extractors": [{"name": "skeleton", "out": "Skeletons.lean"}],
        "extra_modules": ["PatVerif.Proofs.SkelClients"],
        "trusted_base": COMMON_TB + ["circl oprf client / blindrsa verifier as oracle"],
        "assumptions": ["DLEQ soundness (finalize_sound_voprf)"],
        "contradicts": "PatVerif.Props.C02",
    },
    "C10": {
        "rule": "Honestly issued type-1 and type-5 tokens under 3/6 keys; every single-bit variant of the 146/162-byte token (quick: every 11th); "
                "authenticators of length 0, Nk-1, Nk+1; 31-byte nonce; shifted field boundary; full (token, key) matrix incl. the other type's issuer. "
                "Oracle column: circl FullEvaluate of the input the harness builds from the token's fields.",
        "level_text": "verify_iff (Verify accepts iff authenticator = VOPRF_k(type‖nonce‖context‖key id as carried), for fields of any length), "
                      "changed_auth_rejected (unconditional), changed_input_rejected (under a named PRF non-collision hypothesis) and authInput_injective "
                      "are Lean theorems; the model recomputes the authenticator input and compares it with the harness's before deciding.",
        "level_note": "The VOPRF is an oracle; 'changes ⇒ reject' for input fields needs PRF collision-freeness (hypothesis).",
        "extractors": [{"name": "skeleton", "out": "Skeletons.lean"}],
        "extra_modules": ["PatVerif.Proofs.SkelVerify"],
        "trusted_base": COMMON_TB + ["circl FullEvaluate as oracle"],
        "assumptions": ["PRF non-collision in changed_input_rejected"],
        "contradicts": "PatVerif.Props.C10",
    },
    "C11": {
        "rule": "The three shipped Rust vectors replayed through the WithBlind entry points, through the request/response decoders and through the "
                "repo's own batch issuer (request bytes and tokens must equal the vectors); 25/600 (key, challenge, nonce) × blinds "
                "{random, 1, N-1, small} (type 1), {random, 1, leading zeros} with one salt (type 2), two blind vectors (type 5), each run twice.",
        "level_text": "token_independent_of_blind (two honest runs whose randomness determines the same authenticator give byte-identical tokens), with "
                      "the algebra behind it proved in general: r⁻¹•(k•(r•P)) = k•P in every prime-order group and (m·r^e)^d·r⁻¹ = m^d in every ZMod N "
                      "(Mathlib). Purity of the Go entry points is what the stream checks: same arguments twice ⇒ identical bytes, and the model "
                      "predicts request and token bytes from oracle columns that do not depend on the blind.",
        "level_note": "Purity of Go code is observed, not proved. The Rust vectors are the independent implementation.",
        "trusted_base": COMMON_TB + ["Mathlib v4.33.0 (ZMod, Units)", "Rust interop vectors shipped in the repository"],
        "assumptions": ["Scheme.Laws"],
        "extra_modules": ["PatVerif.Proofs.Group"],
        "contradicts": "PatVerif.Props.C11",
    },
    "C12": {
        "rule": "4 curves × 12/200 (key, blind key, context, digest): blind keys random, with leading zeros, ≥ N, 1..8 bytes, longer than the field; "
                "contexts of 0/1/13/40 bytes; digests of 0..128 bytes. Blinded and unblinded public keys are recomputed by the Lean reference "
                "(XMD hash-to-field, textbook curve arithmetic) and compared coordinate by coordinate; blinded signatures are verified by the fork, "
                "by crypto/ecdsa and by the Lean ECDSA model, under the blinded and the unblinded key.",
        "level_text": "hashBlind_spec (the blinding factor is hash_to_field with XMD over the curve's hash, DST 'ECDSA Key Blind', of blind-key bytes‖0x00‖context, "
                      "with the per-curve table), blinded_signature_verifies, not_under_unblinded (explicit exceptional set), unblind_blind, blind_comm and "
                      "blind_changes_key are Lean theorems — the algebra for every module over ZMod n with n prime (Mathlib). The executable definition the "
                      "spec theorem is about is run against the Go fork on all four curves.",
        "level_note": "Prime order of the NIST groups is a hypothesis of the algebra; 'blind-key bytes' is read as the big-endian bytes without leading zeros "
                      "(what D.FillBytes of BitLen bytes gives).",
        "trusted_base": COMMON_TB + ["Mathlib v4.33.0", "PatVerif/Exec references (validated vs crypto/elliptic, circl)"],
        "assumptions": ["the NIST curve groups have prime order"],
        "extractors": [{"name": "skeleton", "out": "Skeletons.lean"}],
        "extra_modules": ["PatVerif.Proofs.Group", "PatVerif.Proofs.Sig", "PatVerif.Proofs.SkelEcdsa"],
        "contradicts": "PatVerif.Props.C12",
    },
    "C13": {
        "rule": "4 curves × 6/120 keys: valid signatures, (r,N-s) twins, r/s ∈ {0, ±1, N-1, N, N+1, r+N, s+N, -r, -s, 2^k, random, r-N}, swapped, "
                "digest flipped/truncated/extended, digests of 0..128 bytes and all-0xFF; ASN.1: canonical, trailing bytes outside/inside, long length "
                "form, leading 00, negative, one/three integers, nested, indefinite, wrong tag, empty, zero integers, bit flips, truncations; entropy "
                "readers failing at every position (quick: every 3rd) up to BitSize/8+10 with chunk sizes ∞/1/7. Three-way: fork vs Lean model vs crypto/ecdsa.",
        "level_text": "verify_range, hashToInt_lt, parseSig_canonical / parseSig_trailing_rejected (over a model of cryptobyte's DER reader with readTLV_tlv "
                      "proved for all four length forms), sign_verifies (algebra) and fail-closed entropy are Lean theorems about the executable "
                      "specification; fork, specification and the standard library are compared on every generated input.",
        "level_note": "'Same verdict as crypto/ecdsa for every input' is a statement about two programs: the theorems are about the common specification, "
                      "the equality is observed. The s390x assembly path is not built here.",
        "trusted_base": COMMON_TB + ["crypto/ecdsa as the reference verdict", "cryptobyte ASN.1 semantics as restated in Model/DER.lean", "Mathlib (algebra)"],
        "assumptions": [],
        "extractors": [{"name": "skeleton", "out": "Skeletons.lean"}],
        "extra_modules": ["PatVerif.Proofs.DER", "PatVerif.Proofs.Sig", "PatVerif.Proofs.SkelEcdsa"],
        "contradicts": "PatVerif.Props.C13",
    },
    "C14": {
        "rule": "60/3000 seeds × messages of 0/1/32/100/1000 bytes: key derivation and signatures byte-compared with crypto/ed25519 and the Lean RFC 8032 "
                "model; verification on valid signatures and on S+L, S+2L, S=L, L-1, 0, 2^252, 2^253-1, all-FF, high bits of the last byte, wrong lengths, "
                "bit flips in signature and key, 13 small-order / non-canonical point encodings as A and as R (cross product with S=0), random keys; "
                "GenerateKey with readers failing at every position 0..34 and chunk sizes ∞/1/5.",
        "level_text": "noncanonical_S_rejected, bad_shape_rejected, isReduced_spec (byte-wise comparison = numeric comparison), the constant L-1, and EdDSA "
                      "correctness in every prime-order module are Lean theorems about the executable RFC 8032 specification (arithmetic over Nat); fork, "
                      "specification and crypto/ed25519 are compared three ways on every generated input.",
        "level_note": "The scalar limb arithmetic is proved: /verif/extract/cmd/sclimbs translates scReduce, scMulAdd, isReduced, the three Scalar "
                      "constants and the Scalar methods that are one call of them from scalar.go into lean/PatVerif/Generated/ScLimbs.lean on every run "
                      "(blocks of straight-line int64 code, each with generated no-overflow side conditions), and Proofs/ScReduce, Proofs/ScMulAdd*, "
                      "Proofs/ScScalar prove, for all byte inputs, that no int64 operation overflows and that the 32 output bytes are the canonical "
                      "little-endian encoding of the input mod L resp. (a·b+c) mod L, that Add/Subtract/Negate/Multiply/MultiplyAdd/SetBytes/"
                      "SetUniformBytes are the corresponding residues, and that isReduced is exactly `< L`. The translated definitions are also "
                      "executed (second driver, scdriver) on every scalar operation of the stream and compared with the Go code's output. "
                      "The field arithmetic is proved as well: /verif/extract/cmd/felimbs translates every function of "
                      "ed25519/internal/edwards25519/field (fe.go, fe_generic.go, the *_noasm.go wrappers) into Generated/FeLimbs.lean on every run, "
                      "with Go's wrapping uint64 semantics and no side conditions, after checking that the pointer code may be read functionally "
                      "(alias check; distinct operands at every call site of SqrtRatio/Swap); Proofs/FeCarry, FeMul, FeMisc, FeBytes, FePow prove, for "
                      "all limbs inside the element invariant, that no 64- or 128-bit operation wraps, that carryPropagate/reduce/Add/Subtract/Negate/"
                      "Multiply/Square/Mult32/Pow22523/Invert compute the corresponding residues mod 2^255-19 with limbs back inside the invariant, that "
                      "SetBytes/Bytes are the little-endian codec of the canonical residue (same encoding iff same residue), and Equal/IsNegative/"
                      "Select/Swap their definitions. The translated field code is executed by scdriver on every field operation of the stream "
                      "(raw limbs in, raw limbs out, arbitrary 64-bit limbs included) and compared with the Go code. "
                      "Absolute, SqrtRatio (sound and complete), the point formulas and the point codec are translated (extract/cmd/edpoints -> "
                      "Generated/EdPoints.lean) and proved too (Proofs/FeAbs, FeSqrt, FeSqrtComplete, EdPoints, EdDecode, EdComplete: 2^255-19 is prime, d is a "
                      "non-square, the addition law is complete, Point.Add is the affine twisted-Edwards sum on valid points, the decoder accepts exactly "
                      "encodings of curve points). The affine law is a commutative group law — closure, neutral element, inverses and ASSOCIATIVITY are "
                      "proved over any field in which the law is complete (Proofs/EdAssoc; polynomial certificates computed with sympy, checked by the "
                      "kernel) — so the curve points are an AddCommGroup whose + and - are the translated Point.Add and Point.Negate (Proofs/EdGroup). "
                      "The digit recodings are modelled literally (Model/Recode.lean: int8 wrap-around, word/shift window extraction, the pos/carry "
                      "loop) and proved for every 32-byte scalar with the top bit clear: signedRadix16 returns 64 digits in [-8,8) (top digit in [0,8]) with "
                      "value the scalar; nonAdjacentForm(w), 2<=w<=8, returns 256 digits, each zero or odd with |d| < 2^(w-1), with value the scalar; "
                      "both equal the number-level expansions (Proofs/Recode). The three multiplication loops and four tables of scalarmult.go/tables.go "
                      "are written over an abstract group (Model/ScalarMultAlg.lean) and proved to compute k•Q, k•B and a•A+b•B in every commutative "
                      "group, with no table index out of range (Proofs/ScalarMultAlg; composed in Props/C14Mult). The recodings, loops and tables are "
                      "hand-written models tied by (a) a statement-level pin of the 16 Go functions regenerated on every run (extract/cmd/skeleton with "
                      "loop headers vs Proofs/SkelScalarMult, rfl), (b) execution: c14.dg runs the literal recoding model (scdriver) and the number-level "
                      "one (driver) against the Go recodings, c14.sm the multiplications against the RFC 8032 reference and math/big. "
                      "The coordinate-changing Go loops themselves are covered as well: Model/ScalarMultLit.lean transcribes scalarmult.go and tables.go "
                      "statement by statement over the TRANSLATED point formulas (executed by scdriver on every c14.sm operation), Proofs/EdRepr proves "
                      "every translated formula correct w.r.t. the group element its coordinates stand for (P3, P1xP1, P2, cached, affine-cached), and "
                      "Proofs/ScalarMultRefine, ScalarBaseMultRefine, DoubleScalarMultRefine prove that for every scalar and every valid point "
                      "ScalarMult, ScalarBaseMult (with the translated basepointTable; the generator is decoded by the kernel) and "
                      "VarTimeDoubleScalarBaseMult return valid points standing for x•g, x•B and a•gA+b•B in the curve group, with no table lookup "
                      "out of range. Running that proved ScalarMult on the bytes of L in the kernel gives L•B = 0 in the curve group (Proofs/BaseOrder.order_B), "
                      "hence the verification equation of every honest signature: VarTimeDoubleScalarBaseMult(k, -A, S) with A = s•B and S = (r+k·s) mod L "
                      "stands for r•B (honest_signature_point). The RFC 8032 reference that the driver executes computes +, - and k• in the same group, and "
                      "for every scalar the 32 bytes the translated Go pipeline writes for ScalarMult equal the reference's bytes (Proofs/EdRefGroup, "
                      "EdEncode.scalarMult_bytes_agree). PARTIAL: the transcription of scalarmult.go/tables.go is by hand (pinned and executed, not translated); "
                      "SetBytesWithClamping is three byte operations followed by the translated scReduce (Model/Clamp.lean, proved to be the clamped integer mod L: "
                      "Proofs/Clamp); ModInverse (math/big) is not modelled. "
                      "Public keys must be 32 bytes (documented precondition).",
        "trusted_base": COMMON_TB + ["crypto/ed25519 as the reference", "PatVerif/Exec/Ed25519 (validated differentially)"],
        "assumptions": ["Model/ScalarMultLit.lean and Model/Recode.lean transcribe scalarmult.go, tables.go and the two recodings faithfully (pinned statement by statement on every run, executed against the Go code; hand-written)",
                        "Model/GoInt.lean reads Go's int64 +, -, *, <<, >>, & (2^j-1), | and byte() correctly where the generated side conditions hold",
                        "Model/GoU64.lean reads Go's uint64 operators, bits.Mul64/Add64 and binary.LittleEndian correctly; felimbs' functional reading "
                        "of pointer code is right where its alias check passes"],
        "extractors": [{"name": "sclimbs", "out": "ScLimbs.lean"}, {"name": "felimbs", "out": "FeLimbs.lean"},
                       {"name": "edpoints", "out": "EdPoints.lean"}, {"name": "skeleton", "out": "Skeletons.lean"}],
        "aux_driver": {"exe": "scdriver", "ops": ["c14.screduce", "c14.scmuladd", "c14.sccanon", "c14.fe", "c14.fel", "c14.pt", "c14.dg", "c14.sm"]},
        "extra_modules": ["PatVerif.Proofs.Sig", "PatVerif.Proofs.DER", "PatVerif.Proofs.ScReduce", "PatVerif.Proofs.ScMulAdd", "PatVerif.Proofs.ScScalar",
                          "PatVerif.Proofs.FeCarry", "PatVerif.Proofs.FeMul", "PatVerif.Proofs.FeMisc", "PatVerif.Proofs.FeBytes", "PatVerif.Proofs.FePow",
                          "PatVerif.Proofs.FeAbs", "PatVerif.Proofs.FeField", "PatVerif.Proofs.FeSqrt", "PatVerif.Proofs.EdPoints", "PatVerif.Proofs.EdDecode", "PatVerif.Proofs.SkelEd25519",
                          "PatVerif.Proofs.PrimeP", "PatVerif.Proofs.FeInv", "PatVerif.Proofs.EdComplete", "PatVerif.Proofs.FeSqrtComplete", "PatVerif.Proofs.EdRefBridge", "PatVerif.Proofs.SkelScalarMult", "PatVerif.Proofs.EdAssoc", "PatVerif.Proofs.ScalarMultAlg", "PatVerif.Proofs.EdGroup", "PatVerif.Proofs.Recode", "PatVerif.Proofs.ScalarMultLit", "PatVerif.Proofs.EdRepr", "PatVerif.Proofs.ScalarMultRefine", "PatVerif.Proofs.ScalarBaseMultRefine", "PatVerif.Proofs.DoubleScalarMultRefine", "PatVerif.Proofs.Clamp", "PatVerif.Proofs.ScalarGlue", "PatVerif.Proofs.EdRefGroup", "PatVerif.Proofs.BaseOrder", "PatVerif.Proofs.EdEncode", "PatVerif.Props.C14Mult", "PatVerif.Props.C14Gen"],
        "contradicts": "PatVerif.Props.C14, PatVerif.Props.C14Gen, PatVerif.Props.C14Mult",
    },
    "C15": {
        "rule": "40/1500 (seed, blind, context, message): blinded key, unblinded key and the whole blinded signature byte-compared with the Lean reference; "
                "crypto/ed25519 accepts under the blinded key and rejects under the original; pairs of blinds (commutation), changed blind/context; blinds "
                "that are not 32 bytes and arbitrary bytes as public keys through BlindPublicKey.",
        "level_text": "blind_pk_spec (blinded key = key × SHA-512(blind‖0x00‖context)[0:32] mod L), determinism, blinded_signature_verifies, unblind_blind, "
                      "blind_comm, blind_changes_key are Lean theorems (algebra over any prime-order module); the executable reference computes the exact "
                      "bytes of blinded keys and signatures and must equal the fork's.",
        "level_note": "Unblinding inverts blinding on the prime-order subgroup only (hypothesis n•A = 0). The scalar side of blinding — SetBytes of the "
                      "digest's first 32 bytes (any 32 bytes, reduced mod L), Multiply, MultiplyAdd, ModInverse's inputs — is the translated and proved limb "
                      "code of C14 (Generated/ScLimbs.lean, Proofs/ScScalar); the field arithmetic under the point operations is translated and proved "
                      "too (Generated/FeLimbs.lean, Proofs/Fe*, see C14), so are the point formulas (Generated/EdPoints.lean; the curve points form a commutative group "
                      "under the translated Point.Add, associativity included: Proofs/EdAssoc, EdGroup). ScalarMult — the operation blinding and unblinding "
                      "perform on the key — is signedRadix16 (literal model, proved: Proofs/Recode) followed by the table-driven loop (abstract-group model, "
                      "proved to compute x•Q in every commutative group: Proofs/ScalarMultAlg, Props/C14Mult); both models are pinned statement by statement "
                      "to scalar.go/scalarmult.go/tables.go on every run and executed against the Go code (c14.dg, c14.sm); the coordinate-changing Go loop itself, "
                      "transcribed over the translated formulas (Model/ScalarMultLit.lean), is proved to return a valid point standing for x•g in the curve "
                      "group for every scalar and valid point (Proofs/EdRepr, ScalarMultRefine.scalarMult_correct), and composed with the translated SetBytes: "
                      "for any 32 digest bytes h and valid key A standing for g the result stands for (h mod L)•g (Proofs/ScalarGlue.blind_mult_translated). "
                      "Unblinding inverts blinding on multiples of the base point whenever b·b' ≡ 1 (mod L), because L•B = 0 in the curve group — proved by running the "
                      "proved ScalarMult on the bytes of L in the kernel (Proofs/BaseOrder.order_B, unblind_blind_on_curve). "
                      "Not modelled: ModInverse (math/big), i.e. that the b' the code computes satisfies b·b' ≡ 1 is observed (scalarInverses stream), not proved.",
        "trusted_base": COMMON_TB + ["Mathlib", "PatVerif/Exec/Ed25519"],
        "assumptions": ["A lies in the prime-order subgroup for unblind_blind",
                        "Model/GoInt.lean reads Go's int64 operators correctly where the generated side conditions hold"],
        "extractors": [{"name": "sclimbs", "out": "ScLimbs.lean"}, {"name": "felimbs", "out": "FeLimbs.lean"},
                       {"name": "edpoints", "out": "EdPoints.lean"}, {"name": "skeleton", "out": "Skeletons.lean"}],
        "aux_driver": {"exe": "scdriver", "ops": ["c14.screduce", "c14.scmuladd", "c14.sccanon", "c14.fe", "c14.fel", "c14.pt", "c14.dg", "c14.sm"]},
        "extra_modules": ["PatVerif.Proofs.Group", "PatVerif.Proofs.Sig", "PatVerif.Proofs.ScReduce", "PatVerif.Proofs.ScMulAdd", "PatVerif.Proofs.ScScalar",
                          "PatVerif.Proofs.FeCarry", "PatVerif.Proofs.FeMul", "PatVerif.Proofs.FeMisc", "PatVerif.Proofs.FeBytes", "PatVerif.Proofs.FePow",
                          "PatVerif.Proofs.FeAbs", "PatVerif.Proofs.FeField", "PatVerif.Proofs.FeSqrt", "PatVerif.Proofs.EdPoints", "PatVerif.Proofs.EdDecode", "PatVerif.Proofs.SkelEd25519",
                          "PatVerif.Proofs.PrimeP", "PatVerif.Proofs.FeInv", "PatVerif.Proofs.EdComplete", "PatVerif.Proofs.FeSqrtComplete", "PatVerif.Proofs.EdRefBridge", "PatVerif.Proofs.SkelScalarMult", "PatVerif.Proofs.EdAssoc", "PatVerif.Proofs.ScalarMultAlg", "PatVerif.Proofs.EdGroup", "PatVerif.Proofs.Recode", "PatVerif.Proofs.ScalarMultLit", "PatVerif.Proofs.EdRepr", "PatVerif.Proofs.ScalarMultRefine", "PatVerif.Proofs.ScalarBaseMultRefine", "PatVerif.Proofs.DoubleScalarMultRefine", "PatVerif.Proofs.Clamp", "PatVerif.Proofs.ScalarGlue", "PatVerif.Proofs.EdRefGroup", "PatVerif.Proofs.BaseOrder", "PatVerif.Proofs.EdEncode", "PatVerif.Props.C14Mult", "PatVerif.Props.C14Gen"],
        "contradicts": "PatVerif.Props.C15",
    },
    "C16": {
        "rule": "17 operation groups covering the exported operations that take or return byte slices (Ed25519 and ECDSA key blinding, signing, "
                "verification; all decoders; request creation, evaluation and finalization of types 1/2/3; attester calls; type-3 Evaluate; quicwire "
                "append/consume): every argument is placed behind 8 sentinel bytes inside a buffer with 0/1/16/64/300 bytes of spare capacity, the whole "
                "buffer is compared before/after, each operation runs twice with different spare contents (0xA5 / 0x3C) and must return identical "
                "results; plus call histories per type (create → marshal → finalize → finalize another valid response → failing finalize → marshal; "
                "evaluate twice) re-reading request encodings, ciphertexts, token fields and responses handed out earlier.",
        "level_text": "In the slice/heap model: append touches only the slice's own array or the fresh one (append_other_arrays), writes exactly the bytes "
                      "behind the slice's length when there is room (append_in_place) and nothing else (append_elsewhere), a derived string built in a "
                      "fresh array leaves every other array unchanged (buildFresh_preserves), and re-appending the same bytes onto the same base slice "
                      "reproduces the same array (append_idempotent; different bytes do not: append_other_bytes_changes) — Lean theorems for all heaps, "
                      "slices and capacities. Which Go operation is which case is established by running every operation on sentinel-guarded buffers.",
        "level_note": "The theorems are about the memory model, not about each Go function; the tie is the guarded-buffer stream (sampled). "
                      "Memory reachable only through unsafe or cgo is out of scope.",
        "extractors": [{"name": "sharedstate", "out": "SharedState.lean"}],
        "extra_modules": ["PatVerif.Proofs.SharedState"],
        "trusted_base": COMMON_TB,
        "assumptions": ["Go's append semantics as modelled (in place iff len+n ≤ cap)"],
        "contradicts": "PatVerif.Props.C16",
    },
    "C18": {
        "rule": "300/10000 RSA public keys: moduli of every byte length 1..520 with top bit set/clear/leading zero bytes, exponents "
                "{1,3,65537,2^31-1,2^31,2^40,2^62,127,128,255,256,0,random}; both SubjectPublicKeyInfo forms encoded by Go and by the Lean DER "
                "encoder (bytes compared), decoded by both; mutated encodings through the tolerant reader; the legacy form against "
                "x509.MarshalPKIXPublicKey; key ids of type-1/2/3/5 issuers and the byte a request carries, and the type-3 name key id, "
                "recomputed by the Lean SHA-256 from the serialized keys.",
        "level_text": "algIdPSS_bytes (the AlgorithmIdentifier is the 63 prescribed bytes: SHA-384, MGF1-SHA-384, salt 48), spkiPSS_shape, "
                      "unmarshal_spkiPSS / unmarshal_spkiLegacy (decoding inverts encoding for every modulus and every exponent with ≤ 8 content octets), "
                      "over a DER model whose TLV round trip is proved for all four length forms and whose INTEGER round trip is proved for all naturals; "
                      "key ids are executable definitions (SHA-256 of the serialized key, last byte, SHA-256 of the EncapKey encoding) compared with the issuers and clients.",
        "level_note": "cryptobyte's ASN.1 builder/reader and encoding/asn1 are modelled (Model/DER.lean) and validated by the byte comparison; negative moduli/exponents are outside the model.",
        "trusted_base": COMMON_TB + ["cryptobyte ASN.1 semantics as restated in Model/DER.lean", "PatVerif/Exec SHA-256"],
        "assumptions": ["keys shorter than 2^32 bytes", "exponent fits 8 content octets (Go int)"],
        "extra_modules": ["PatVerif.Proofs.DER"],
        "contradicts": "PatVerif.Props.C18",
    },
    "C17": {
        "rule": "Harness built with -race. Per scenario a freshly constructed shared object (\"from first use onwards\") is used by 8/16 goroutines × 6/40 "
                "calls released at once, 3/25 rounds: Ed25519 key (Sign, Verify, Blind, BlindKeySign; first scenario in the process so the package tables are "
                "built concurrently), ECDSA key (Sign, SignASN1, Verify, VerifyASN1, BlindPublicKey, BlindKeySign), type-1/5 issuers (TokenKeyID, Evaluate, "
                "Verify of the finalized token), type-2 issuer, type-3 issuer (registered and unregistered origins), generic batch issuer. Every call's result is "
                "compared with what a sequential call gives; every race report is a failing input (deduplicated by stack).",
        "level_text": "readonly_racefree, readonly_sequentially_consistent (calls whose shared accesses are reads never conflict and, under every interleaving, "
                      "observe exactly what they observe alone), once_consistent / once_racefree (sync.Once-guarded initialisation), lazy_cache_races "
                      "(an unsynchronised lazy cache does race) are Lean theorems about the footprint model. That the Go calls have read-only / Once-only "
                      "footprints on shared objects is established with the Go race detector on the scenarios above.",
        "level_note": "PARTIAL: the theorem is about the footprint abstraction; Go's memory model, the scheduler and data races inside dependencies are not "
                      "modelled — the race detector observes them on the executed interleavings, it does not prove their absence. Sharing one circl "
                      "oprf.PublicKey object between clients is circl's contract, not pat-go's, and is not exercised.",
        "extractors": [{"name": "sharedstate", "out": "SharedState.lean"}],
        "extra_modules": ["PatVerif.Proofs.SharedState"],
        "trusted_base": COMMON_TB + ["Go race detector (ThreadSanitizer) as the oracle for footprints"],
        "assumptions": ["footprints of the Go calls are as observed"],
        "race": True,
        "contradicts": "PatVerif.Props.C17",
    },
}
