import Lean
/-! `lake env lean --run Audit.lean Mod1 Mod2 …` — lists every theorem declared in the given
modules with the axioms it depends on, as JSON lines; exit code 1 if any axiom is outside
{propext, Classical.choice, Quot.sound} or a declaration's value contains `sorryAx`. -/
open Lean

def allowed : List Name := [``propext, ``Classical.choice, ``Quot.sound]

def main (args : List String) : IO UInt32 := do
  initSearchPath (← findSysroot)
  let mods := args.map (fun s => s.toName)
  let env ← importModules (mods.toArray.map (fun m => { module := m })) {}
  let mut bad := false
  let mut n := 0
  for m in mods do
    let some idx := env.getModuleIdx? m | throw (IO.userError s!"module {m} not found")
    for (name, ci) in env.constants.map₁.toList do
      if env.getModuleIdxFor? name != some idx then continue
      match ci with
      | .thmInfo _ =>
        if name.isInternal then continue
        let (axs, _) ← ((collectAxioms name : CoreM (Array Name)).toIO
          { fileName := "", fileMap := default } { env := env })
        let extra := axs.toList.filter (fun a => !allowed.contains a)
        if !extra.isEmpty then bad := true
        n := n + 1
        IO.println (Json.compress (Json.mkObj [
          ("module", toString m), ("theorem", toString name),
          ("axioms", Json.arr (axs.map (fun a => Json.str (toString a)))),
          ("ok", extra.isEmpty)]))
      | .axiomInfo _ =>
        bad := true
        IO.println (Json.compress (Json.mkObj [("module", toString m), ("axiom_declared", toString name), ("ok", false)]))
      | _ => pure ()
  IO.eprintln s!"audited {n} theorems; ok={!bad}"
  return if bad then 1 else 0
