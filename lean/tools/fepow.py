#!/usr/bin/env python3
"""Proof-authoring aid (not run by any check, not trusted): reads the translated addition chains `Pow22523` and `Invert`
from lean/PatVerif/Generated/FeLimbs.lean and prints the body of Proofs/FePow.lean's two chain theorems — one `have` per
`let`, carrying the exponent reached so far. Lean re-checks every step."""
import re, sys

src = open(sys.argv[1]).read()

def chain(name, arg):
    body = src[src.index("def %s " % name):]
    body = body[:body.index("\n\n")].split("\n")[1:]
    out, env, names = [], {arg: ("h" + arg, 1)}, []
    i = 0
    n = 0
    while i < len(body):
        ln = body[i].strip()
        i += 1
        m = re.match(r"let (\w+) : Element := \{", ln)
        if m:
            n += 1; names.append("n%d" % n); env[m.group(1)] = (None, None); continue
        m = re.match(r"let (\w+) := Square (\w+) (\w+)$", ln)
        if m:
            n += 1; names.append("n%d" % n)
            h, k = env[m.group(3)]
            out.append("  have h%d : Pw n%d z %d := Pw_sq _ %s" % (n, n, 2 * k, h))
            env[m.group(1)] = ("h%d" % n, 2 * k); continue
        m = re.match(r"let (\w+) := Multiply (\w+) (\w+) (\w+)$", ln)
        if m:
            n += 1; names.append("n%d" % n)
            (h1, k1), (h2, k2) = env[m.group(3)], env[m.group(4)]
            out.append("  have h%d : Pw n%d z %d := Pw_mul _ %s %s" % (n, n, k1 + k2, h1, h2))
            env[m.group(1)] = ("h%d" % n, k1 + k2); continue
        m = re.match(r"let (\w+) := U64.iter (\d+) \(fun (\w+) =>$", ln)
        if m:
            assert body[i].strip() == "let %s := Square %s %s" % (m.group(1), m.group(1), m.group(1)), body[i]
            assert body[i + 1].strip() == "%s) %s" % (m.group(1), m.group(1)), body[i + 1]
            i += 2
            n += 1; names.append("n%d" % n)
            h, k = env[m.group(1)]
            cnt = int(m.group(2))
            out.append("  have h%d : Pw n%d z %d := Pw_iter %d %s" % (n, n, k * 2 ** cnt, cnt, h))
            env[m.group(1)] = ("h%d" % n, k * 2 ** cnt); continue
        if re.match(r"^\w+$", ln):
            res = ln
            break
        raise SystemExit("unexpected line: " + ln)
    h, k = env[res]
    return names, out, h, k

for name, arg in (("Pow22523", "x"), ("Invert", "z")):
    names, out, h, k = chain(name, arg)
    print("-- %s: exponent %d" % (name, k))
    print("  unfold %s" % name)
    print("  extract_lets -merge " + " ".join(names))
    print("\n".join(out))
    print("  exact %s" % h)
    print()
