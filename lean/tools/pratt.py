#!/usr/bin/env python3
"""Proof-authoring aid (not run by any check, not trusted): prints Proofs/PrimeP.lean — a Pratt certificate for 2^255 - 19.
For every prime of the certificate tree above 10^6 it picks a primitive root a and prints a Lucas test
(a^(n-1) = 1 and a^((n-1)/q) ≠ 1 for every prime q | n-1, by Mathlib's `lucas_primality`); smaller primes are left to `norm_num`.
Lean re-checks every power and every factorisation. Needs sympy (python3-vt)."""
from sympy import factorint, isprime, primitive_root

P = 2**255 - 19
done, out = {}, []

def small(n): return n < 10**6

def cert(n):
    if n in done: return
    done[n] = True
    assert isprime(n)
    if small(n):
        out.append("theorem prime_%d : Nat.Prime %d := by norm_num\n" % (n, n))
        return
    f = factorint(n - 1)
    for q in f: cert(q)
    a = primitive_root(n)
    qs = []
    for q, e in sorted(f.items()):
        qs += [q] * e
    lst = "[" + ", ".join(map(str, qs)) + "]"
    pat = " | ".join(["rfl"] * len(qs))
    lines = ["theorem prime_%d : Nat.Prime %d := by" % (n, n),
             "  apply lucas_primality %d (%d : ZMod %d)" % (n, a, n),
             "  · norm_num; reduce_mod_char",
             "  · intro q hq hd",
             "    have hl : ∀ x ∈ (%s : List ℕ), x.Prime := by" % lst,
             "      intro x hx; simp only [List.mem_cons, List.mem_nil_iff, or_false] at hx",
             "      rcases hx with %s" % pat,
             "      exacts [%s]" % ", ".join("prime_%d" % q for q in qs),
             "    have hmem := mem_of_dvd_prod q hq %s hl (by norm_num at hd ⊢; exact hd)" % lst,
             "    simp only [List.mem_cons, List.mem_nil_iff, or_false] at hmem",
             "    rcases hmem with %s" % pat]
    for q in qs:
        c = pow(a, (n - 1) // q, n)
        assert c != 1
        lines += ["    · norm_num; reduce_mod_char",
                  "      have := ne_one_of %d %d (by norm_num)" % (n, c),
                  "      simpa using this"]
    out.append("\n".join(lines) + "\n")

cert(P)
print("""import Mathlib.NumberTheory.LucasPrimality
import Mathlib.Tactic.ReduceModChar
import Mathlib.Tactic.NormNum.Prime
/-! A Pratt certificate for p = 2^255 - 19 (written by lean/tools/pratt.py; every step is re-checked here): p and the primes of its
certificate tree pass the Lucas test. -/
namespace PatVerif.Proofs.PrimeP

theorem ne_one_of (n c : ℕ) (hc : c % n ≠ 1 % n) : ((c : ℕ) : ZMod n) ≠ 1 := by
  intro h; apply hc
  exact (ZMod.natCast_eq_natCast_iff' c 1 n).1 (by simpa using h)

theorem mem_of_dvd_prod (q : ℕ) (hq : q.Prime) (l : List ℕ) (hl : ∀ x ∈ l, x.Prime) (h : q ∣ l.prod) : q ∈ l := by
  obtain ⟨a, ha, hqa⟩ := (Prime.dvd_prod_iff hq.prime).1 h
  rwa [(Nat.prime_dvd_prime_iff_eq hq (hl a ha)).1 hqa]

theorem prime_2 : Nat.Prime 2 := Nat.prime_two
""")
for o in out:
    if o.startswith("theorem prime_2 "): continue
    print(o)
print("end PatVerif.Proofs.PrimeP")
