#!/usr/bin/env python3
"""Proof-authoring aid (not part of any check): interval analysis of the limb code in scalar.go, printed as the
Lean statements and proof scripts of Proofs/ScReduce.lean / Proofs/ScMulAdd.lean. Lean checks every bound it prints;
nothing here is trusted."""
import re, sys

SRC = "/repo/ed25519/internal/edwards25519/scalar.go"
lines = open(SRC).read().split("\n")


def func_body(name):
    i = next(k for k, l in enumerate(lines) if l.startswith("func " + name + "("))
    j = next(k for k in range(i, len(lines)) if lines[k] == "}")
    return i + 1, j  # 0-based line indexes of body


def blocks(name):
    i, j = func_body(name)
    out, cur = [], []
    for k in range(i, j):
        l = lines[k].strip()
        if not l:
            if cur:
                out.append(cur)
                cur = []
            continue
        if l.startswith("var ") or l.startswith("//"):
            if cur:
                out.append(cur)
                cur = []
            continue
        cur.append(l)
    if cur:
        out.append(cur)
    return out


M21 = (1 << 21) - 1


def analyse(blks, init):
    """blks: list of blocks (lists of statement strings) operating on s0..s23; returns list of bounds dicts after each block"""
    b = dict(init)
    res = []
    for blk in blks:
        carry = {}
        for st in blk:
            m = re.fullmatch(r"s(\d+) ([+-])= s(\d+) \* (\d+)", st)
            if m:
                t, sg, u, c = int(m[1]), m[2], int(m[3]), int(m[4])
                lo, hi = b[u][0] * c, b[u][1] * c
                if sg == "-":
                    lo, hi = -hi, -lo
                b[t] = (b[t][0] + lo, b[t][1] + hi)
                continue
            m = re.fullmatch(r"s(\d+) = 0", st)
            if m:
                b[int(m[1])] = (0, 0)
                continue
            m = re.fullmatch(r"carry\[(\d+)\] = \(s(\d+) \+ \(1 << 20\)\) >> 21", st)
            if m:
                k, u = int(m[1]), int(m[2])
                carry[k] = ("round", u, ((b[u][0] + (1 << 20)) >> 21, (b[u][1] + (1 << 20)) >> 21))
                continue
            m = re.fullmatch(r"carry\[(\d+)\] = s(\d+) >> 21", st)
            if m:
                k, u = int(m[1]), int(m[2])
                carry[k] = ("floor", u, (b[u][0] >> 21, b[u][1] >> 21))
                continue
            m = re.fullmatch(r"s(\d+) \+= carry\[(\d+)\]", st)
            if m:
                t, k = int(m[1]), int(m[2])
                b[t] = (b[t][0] + carry[k][2][0], b[t][1] + carry[k][2][1])
                continue
            m = re.fullmatch(r"s(\d+) -= carry\[(\d+)\] << 21", st)
            if m:
                t, k = int(m[1]), int(m[2])
                kind, u, _ = carry[k]
                assert u == t
                b[t] = (-(1 << 20), (1 << 20) - 1) if kind == "round" else (0, M21)
                # a limb already inside the target range keeps its tighter bounds? no: keep it simple
                continue
            raise SystemExit("unhandled statement: " + st)
        res.append(dict(b))
    return res


def bnd_def(name, b):
    parts = []
    for i in range(24):
        lo, hi = b[i]
        if lo == hi:
            parts.append(f"l.s{i} = {lo}" if lo >= 0 else f"l.s{i} = ({lo})")
        else:
            parts.append(f"({lo}) ≤ l.s{i} ∧ l.s{i} ≤ {hi}")
    return f"def {name} (l : Limbs) : Prop :=\n  " + " ∧\n  ".join(parts) + "\n"


if __name__ == "__main__":
    fn = sys.argv[1]
    blks = blocks(fn)
    for i, b in enumerate(blks):
        print(i, len(b), b[0][:60], file=sys.stderr)


L = 7237005577332262213973186563042994240857116359379907606001950938285454250989
UNFOLD = "Go.inI64, Go.ishr, Go.ishl"


def spec(fn, k, pre, post, exact=False):
    rel = f"val ({fn}_b{k} l) = val l" if exact else f"(val ({fn}_b{k} l) - val l) % L = 0"
    return (f"theorem {fn}_b{k}_spec (l : Limbs) (h : {pre} l) :\n"
            f"    {post} ({fn}_b{k} l) ∧ {fn}_b{k}_safe l ∧ {rel} := by\n"
            f"  simp only [{pre}] at h\n"
            f"  simp only [{post}, {fn}_b{k}, {fn}_b{k}_safe, val, L, {UNFOLD}]\n"
            f"  and_intros <;> first | trivial | omega\n")


def gen_reduce():
    blks = blocks("scReduce")
    mid = blks[1:-1]
    init = {i: (0, M21) for i in range(23)}
    init[23] = (0, (1 << 29) - 1)
    bs = analyse(mid, init)
    out = []
    out.append("import PatVerif.Generated.ScLimbs\nimport PatVerif.Proofs.ScHelp\n/-! Written by lean/tools/scproof.py (interval analysis of scalar.go); every bound is checked here by `omega`. -/\n"
               "namespace PatVerif.Proofs.ScReduce\nopen PatVerif PatVerif.Generated.ScLimbs PatVerif.Proofs.ScHelp\nset_option maxRecDepth 16384\nset_option maxHeartbeats 4000000\n")
    out.append(bnd_def("R0", init))
    n = len(mid)
    for k in range(1, n - 1):  # b1 .. b18 by intervals; b19+b20 together
        out.append(bnd_def(f"R{k}", bs[k - 1]))
        out.append(spec("scReduce", k, f"R{k-1}", f"R{k}"))
    return "\n".join(out) + "\nend PatVerif.Proofs.ScReduce\n"


if __name__ == "__main__" and len(sys.argv) > 2 and sys.argv[2] == "gen":
    if sys.argv[1] == "scReduce":
        open("/verif/lean/PatVerif/Proofs/ScReduce.lean", "w").write(gen_reduce())


def load_facts(fn, arrs):
    """(have-lines, names) for every loadN(arr[off:]) in the head block of fn"""
    blks = blocks(fn)
    haves, names = [], []
    seen = set()
    for st in blks[0]:
        for m in re.finditer(r"load([34])\((\w+)\[(\d*):\]\)", st):
            n, arr, off = int(m[1]), m[2], int(m[3] or 0)
            key = (n, arr, off)
            if key in seen:
                continue
            seen.add(key)
            nm = f"e{n}_{arr}{off}"
            args = " ".join(f"(h{arr} ({off} + {i}))" for i in range(n))
            haves.append(f"  have {nm} := load{n}_eq {arr} {off} {args}")
            names.append(nm)
    return haves, names


def gen_reduce_io():
    out = []
    haves, names = load_facts("scReduce", ["s"])
    out.append("theorem scReduce_load_spec (s : Nat → Int) (hs : ∀ i, 0 ≤ s i ∧ s i ≤ 255) :\n"
               "    R0 (scReduce_load s) ∧ scReduce_load_safe s ∧ val (scReduce_load s) = leFn s 64 := by")
    out += haves
    for n in names:
        out.append(f"  have {n}s := {n}.2")
    out.append("  simp only [R0, scReduce_load, scReduce_load_safe, val, leFn]")
    out.append("  simp only [" + ", ".join(n + ".1" for n in names) + "]")
    out.append("  clear " + " ".join(names))
    out.append("  simp only [" + ", ".join(n + "s" for n in names) + ", true_and]")
    out.append("  simp only [Go.iand, Go.ishr, Nat.reduceAdd, Nat.reduceMul]")
    for i in range(64):
        out.append(f"  have b{i} := hs {i}")
    out.append("  and_intros <;> first | trivial | assumption | omega\n")
    return "\n".join(out)


RF = ("def RF (l : Limbs) : Prop :=\n  " + " ∧ ".join(f"0 ≤ l.s{i} ∧ l.s{i} ≤ 2097151" for i in range(11)) +
      " ∧ 0 ≤ l.s11 ∧ l.s11 ≤ 2097152 ∧\n  " + " ∧ ".join(f"l.s{i} = 0" for i in range(12, 24)) + "\n")


def final_lemma(fn, kf, kc, pre):
    a = f"({fn}_b{kc} ({fn}_b{kf} l))"
    return (f"/-- the last fold and the last round of carries: the result is the canonical representative -/\n"
            f"theorem {fn}_final (l : Limbs) (h : {pre} l) :\n"
            f"    RF {a} ∧ {fn}_b{kf}_safe l ∧ {fn}_b{kc}_safe ({fn}_b{kf} l) ∧\n"
            f"    (val {a} - val l) % L = 0 ∧ 0 ≤ val {a} ∧ val {a} < L := by\n"
            f"  simp only [{pre}] at h\n"
            f"  simp only [RF, {fn}_b{kc}, {fn}_b{kf}, {fn}_b{kf}_safe, {fn}_b{kc}_safe, val, L, {UNFOLD}]\n"
            f"  and_intros <;> first | trivial | omega\n")


def store_lemma(fn, arr):
    blks = blocks(fn)
    st = blks[-1]
    ors = []
    for line in st:
        m = re.fullmatch(rf"{arr}\[(\d+)\] = byte\(\(s(\d+) >> (\d+)\) \| \(s(\d+) << (\d+)\)\)", line)
        if m:
            ors.append((int(m[2]), int(m[3]), int(m[4]), int(m[5])))
        else:
            assert re.fullmatch(rf"{arr}\[(\d+)\] = byte\(s(\d+) >> (\d+)\)", line), line
    out = [f"theorem {fn}_store_spec (l : Limbs) (h : RF l) :\n"
           f"    {fn}_store_safe l ∧ bytesOK ({fn}_store l) ∧ ({fn}_store l).length = 32 ∧ leVal ({fn}_store l) = val l := by",
           "  simp only [RF] at h"]
    names = []
    for j, (a, p, b, k) in enumerate(ors):
        out.append(f"  have o{j} := ior_ishl (Go.ishr l.s{a} {p}) l.s{b} {k} (by simp only [Go.ishr]; omega) (by simp only [Go.ishr]; omega) (by omega)")
        names.append(f"o{j}")
    out.append(f"  simp only [{fn}_store, {fn}_store_safe, bytesOK, leVal, List.length, val]")
    out.append("  simp only [" + ", ".join(names) + "]")
    out.append("  clear " + " ".join(names))
    out.append("  simp only [Go.toByte, Go.ishr, Go.ishl, Go.inI64]")
    out.append("  and_intros <;> first | trivial | omega\n")
    return "\n".join(out)


def chain_theorem(fn, nblocks, pres, arrs, inval, final_pair):
    """pres[k] = name of the bound after block k (pres[0] after load)"""
    sig = " ".join(f"({a} : Nat → Int) (h{a} : ∀ i, 0 ≤ {a} i ∧ {a} i ≤ 255)" for a in arrs)
    args = " ".join(arrs)
    out = [f"/-- `{fn}` as translated from scalar.go: no int64 operation overflows, the output is 32 bytes, and it is the\n"
           f"little-endian encoding of the canonical representative modulo the group order -/\n"
           f"theorem {fn}_correct {sig} :\n"
           f"    {fn}_load_safe {args} ∧ safeChain {fn}_blocks {fn}_safes ({fn}_load {args}) ∧\n"
           f"    {fn}_store_safe ({fn}_blocks.foldl (fun l f => f l) ({fn}_load {args})) ∧\n"
           f"    bytesOK ({fn} {args}) ∧ ({fn} {args}).length = 32 ∧ leVal ({fn} {args}) = ({inval}) % L := by",
           f"  simp only [{fn}, {fn}_blocks, {fn}_safes, safeChain, List.foldl]",
           f"  generalize hl0 : {fn}_load {args} = l0"]
    kf, kc = final_pair
    for k in range(1, nblocks + 1):
        out.append(f"  generalize hl{k} : {fn}_b{k} l{k-1} = l{k}")
    out.append(f"  have h0 := {fn}_load_spec {args} " + " ".join("h" + a for a in arrs))
    out.append("  rw [hl0] at h0")
    out.append("  obtain ⟨g0, sl, v0⟩ := h0")
    for k in range(1, kf):
        out.append(f"  have h{k} := {fn}_b{k}_spec l{k-1} g{k-1}")
        out.append(f"  rw [hl{k}] at h{k}")
        out.append(f"  obtain ⟨g{k}, s{k}, v{k}⟩ := h{k}")
    out.append(f"  have hF := {fn}_final l{kf-1} g{kf-1}")
    out.append(f"  rw [hl{kf}, hl{kc}] at hF")
    out.append(f"  obtain ⟨gF, s{kf}, s{kc}, vF, vlo, vhi⟩ := hF")
    out.append(f"  obtain ⟨ss, sb, sn, sv⟩ := {fn}_store_spec l{kc} gF")
    out.append(f"  refine ⟨sl, ⟨" + ", ".join(f"s{k}" for k in range(1, nblocks + 1)) + ", trivial⟩, ss, sb, sn, ?_⟩")
    out.append("  rw [sv]")
    out.append("  clear sl ss sb sn sv gF " + " ".join(f"g{k}" for k in range(0, kf)) + " " + " ".join(f"s{k}" for k in range(1, nblocks + 1))
               + " " + " ".join(f"hl{k}" for k in range(0, nblocks + 1)))
    out.append("  simp only [L] at *")
    out.append("  omega\n")
    return "\n".join(out)


def gen_reduce_full():
    head = gen_reduce()
    head = head.replace("\nend PatVerif.Proofs.ScReduce\n", "\n")
    parts = [head, final_lemma("scReduce", 19, 20, "R18"), gen_reduce_io(), store_lemma("scReduce", "out"),
             chain_theorem("scReduce", 20, None, ["s"], "leFn s 64", (19, 20)), "end PatVerif.Proofs.ScReduce\n"]
    return "\n".join(parts)


if __name__ == "__main__" and len(sys.argv) > 2 and sys.argv[2] == "full":
    if sys.argv[1] == "scReduce":
        open("/verif/lean/PatVerif/Proofs/ScReduce.lean", "w").write(gen_reduce_full())


def limb_exprs(x):
    """the twelve limb expressions of a 32-byte array x, as the translator prints them (from the a-lines of scMulAdd)"""
    blks = blocks("scMulAdd")
    out = []
    for st in blks[0]:
        m = re.fullmatch(r"a(\d+) := (.*)", st)
        if not m:
            continue
        e = m[2]
        mm = re.fullmatch(r"2097151 & load3\(a\[(\d*):\]\)", e)
        if mm:
            out.append(f"(Go.iand 21 (load3 {x} {int(mm[1] or 0)}))")
            continue
        mm = re.fullmatch(r"2097151 & \(load([34])\(a\[(\d+):\]\) >> (\d+)\)", e)
        if mm:
            out.append(f"(Go.iand 21 (Go.ishr (load{mm[1]} {x} {mm[2]}) {mm[3]}))")
            continue
        mm = re.fullmatch(r"\(load([34])\(a\[(\d+):\]\) >> (\d+)\)", e)
        if mm:
            out.append(f"(Go.ishr (load{mm[1]} {x} {mm[2]}) {mm[3]})")
            continue
        raise SystemExit("limb expr: " + st)
    assert len(out) == 12
    return out


def limb_loads():
    blks = blocks("scMulAdd")
    res = []
    for st in blks[0]:
        if not st.startswith("a"):
            continue
        m = re.search(r"load([34])\(a\[(\d*):\]\)", st)
        res.append((int(m[1]), int(m[2] or 0)))
    return res


LIMB_HI = [M21] * 11 + [(1 << 25) - 1]


def limbs12_lemma():
    E = limb_exprs("x")
    loads = limb_loads()
    bounds = " ∧ ".join(f"(0 ≤ {E[i]} ∧ {E[i]} ≤ {LIMB_HI[i]})" for i in range(12))
    total = " + ".join(f"{E[i]} * 2^{21*i}" for i in range(12))
    safes = " ∧ ".join(f"load{n}_safe x {o}" for n, o in loads)
    out = [f"theorem limbs12_spec (x : Nat → Int) (hx : ∀ i, 0 ≤ x i ∧ x i ≤ 255) :\n    ({bounds}) ∧\n    ({total} = leFn x 32) ∧\n    ({safes}) := by"]
    names = []
    for n, o in loads:
        nm = f"e{n}_{o}"
        args = " ".join(f"(hx ({o} + {i}))" for i in range(n))
        out.append(f"  have {nm} := load{n}_eq x {o} {args}")
        names.append(nm)
    for n in names:
        out.append(f"  have {n}s := {n}.2")
    out.append("  simp only [leFn]")
    out.append("  simp only [" + ", ".join(n + ".1" for n in names) + "]")
    out.append("  clear " + " ".join(names))
    out.append("  simp only [" + ", ".join(n + "s" for n in names) + ", and_self, and_true]")
    out.append("  simp only [Go.iand, Go.ishr, Nat.reduceAdd, Nat.reduceMul]")
    for i in range(32):
        out.append(f"  have b{i} := hx {i}")
    out.append("  and_intros <;> first | trivial | omega\n")
    return "\n".join(out)


def products():
    """s_k = [c_k] + sum a_i*b_j, parsed from the product block"""
    blks = blocks("scMulAdd")
    res = {}
    for st in blks[1]:
        m = re.fullmatch(r"s(\d+) := (.*)", st)
        k, e = int(m[1]), m[2]
        if e == "int64(0)":
            res[k] = (False, [])
            continue
        terms = [t.strip() for t in e.split("+")]
        hasc = terms[0].startswith("c")
        if hasc:
            assert terms[0] == f"c{k}"
            terms = terms[1:]
        prs = []
        for t in terms:
            mm = re.fullmatch(r"a(\d+) ?\* ?b(\d+)", t)
            prs.append((int(mm[1]), int(mm[2])))
        res[k] = (hasc, prs)
    return res


HDR = ("/-! Written by lean/tools/scproof.py (interval analysis of scalar.go); every bound is checked here by `omega`. -/\n"
       "namespace PatVerif.Proofs.ScMulAdd\nopen PatVerif PatVerif.Generated.ScLimbs PatVerif.Proofs.ScHelp\nset_option maxRecDepth 16384\nset_option maxHeartbeats 4000000\n")
END = "end PatVerif.Proofs.ScMulAdd\n"


def gen_muladd():
    """returns {module name: text}: bounds, block lemmas in two halves, head, and store + chain"""
    blks = blocks("scMulAdd")
    mid = blks[2:-1]
    prods = products()
    init = {}
    for k in range(24):
        hasc, prs = prods[k]
        hi = (LIMB_HI[k] if hasc else 0) + sum(LIMB_HI[i] * LIMB_HI[j] for i, j in prs)
        init[k] = (0, hi)
    bs = analyse(mid, init)
    n = len(mid)
    mods = {}
    bnd = ["import PatVerif.Proofs.ScHelp\n" + HDR, bnd_def("M0", init)]
    for k in range(1, n - 1):
        bnd.append(bnd_def(f"M{k}", bs[k - 1]))
    mods["ScMulAddBnd"] = "\n".join(bnd) + "\n" + END
    split = 3  # the two long carry rounds (and the first fold) on one side, the rest on the other
    a = ["import PatVerif.Proofs.ScMulAddBnd\n" + HDR]
    for k in range(1, split):
        a.append(spec("scMulAdd", k, f"M{k-1}", f"M{k}"))
    mods["ScMulAddA"] = "\n".join(a) + "\n" + END
    b = ["import PatVerif.Proofs.ScMulAddBnd\n" + HDR]
    for k in range(split, n - 1):
        b.append(spec("scMulAdd", k, f"M{k-1}", f"M{k}"))
    b.append(final_lemma("scMulAdd", n - 1, n, f"M{n-2}"))
    mods["ScMulAddB"] = "\n".join(b) + "\n" + END
    # head
    c = ["import PatVerif.Proofs.ScMulAddBnd\n" + HDR, limbs12_lemma()]
    Ea, Eb, Ec = limb_exprs("a"), limb_exprs("b"), limb_exprs("c")
    h = ["theorem mul_bnd (x y hx hy : Int) (x0 : 0 ≤ x) (x1 : x ≤ hx) (y0 : 0 ≤ y) (y1 : y ≤ hy) : 0 ≤ x * y ∧ x * y ≤ hx * hy :=\n"
         "  ⟨Int.mul_nonneg x0 y0, Int.mul_le_mul x1 y1 y0 (Int.le_trans x0 x1)⟩\n",
         "theorem scMulAdd_load_spec (a b c : Nat → Int) (ha : ∀ i, 0 ≤ a i ∧ a i ≤ 255) (hb : ∀ i, 0 ≤ b i ∧ b i ≤ 255) (hc : ∀ i, 0 ≤ c i ∧ c i ≤ 255) :\n"
         "    M0 (scMulAdd_load a b c) ∧ scMulAdd_load_safe a b c ∧ val (scMulAdd_load a b c) = leFn a 32 * leFn b 32 + leFn c 32 := by",
         "  obtain ⟨ba, sa, fa⟩ := limbs12_spec a ha",
         "  obtain ⟨bb, sb, fb⟩ := limbs12_spec b hb",
         "  obtain ⟨bc, sc, fc⟩ := limbs12_spec c hc",
         "  simp only [M0, scMulAdd_load, scMulAdd_load_safe, val]",
         "  rw [← sa, ← sb, ← sc]",
         "  clear sa sb sc",
         "  simp only [fa, fb, fc, true_and]",
         "  clear fa fb fc"]
    for x, E in (("a", Ea), ("b", Eb), ("c", Ec)):
        for i in range(12):
            h.append(f"  generalize {E[i]} = {x}{i} at *")
    h.append("  simp only [Go.inI64]")
    for i in range(12):
        for j in range(12):
            h.append(f"  have p{i}_{j} := mul_bnd a{i} b{j} {LIMB_HI[i]} {LIMB_HI[j]} (by omega) (by omega) (by omega) (by omega)")
    h.append("  simp only [Int.reduceMul] at " + " ".join(f"p{i}_{j}" for i in range(12) for j in range(12)))
    h.append("  and_intros <;> first | trivial | omega | grind\n")
    c.append("\n".join(h))
    mods["ScMulAddC"] = "\n".join(c) + "\n" + END
    d = ["import PatVerif.Proofs.ScMulAddA\nimport PatVerif.Proofs.ScMulAddB\nimport PatVerif.Proofs.ScMulAddC\n" + HDR,
         store_lemma("scMulAdd", "s"),
         chain_theorem("scMulAdd", n, None, ["a", "b", "c"], "leFn a 32 * leFn b 32 + leFn c 32", (n - 1, n))]
    mods["ScMulAdd"] = "\n".join(d) + "\n" + END
    return mods


if __name__ == "__main__" and len(sys.argv) > 2 and sys.argv[2] == "full":
    if sys.argv[1] == "scMulAdd":
        for name, text in gen_muladd().items():
            open(f"/verif/lean/PatVerif/Proofs/{name}.lean", "w").write(text)
