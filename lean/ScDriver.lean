import PatVerif.Hex
import PatVerif.Generated.ScLimbs
/-! Second driver (C14/C15 only): runs the *translated* limb code of `Generated/ScLimbs.lean` — the definitions
`Proofs/ScReduce.lean` and `Proofs/ScMulAdd.lean` are about — on the scalar operations of the stream, so that the
translator's reading of the Go source is itself compared with the implementation on every run. -/
open PatVerif PatVerif.Hex PatVerif.Generated.ScLimbs

def asFn (b : Bytes) : Nat → Int := fun i => ((b.getD i 0).toNat : Int)
def asBytes (l : List Int) : Bytes := l.map fun x => UInt8.ofNat x.toNat

def answer (line : String) : String :=
  match line.splitOn " " with
  | ["c14.screduce", w] =>
    match parseV w with
    | some w => if w.length = 64 then "ok " ++ hxv (asBytes (scReduce (asFn w))) else "-"
    | none => "-"
  | ["c14.scmuladd", a, b, c] =>
    match parseV a, parseV b, parseV c with
    | some a, some b, some c =>
      if a.length = 32 ∧ b.length = 32 ∧ c.length = 32 then "ok " ++ hxv (asBytes (scMulAdd (asFn a) (asFn b) (asFn c))) else "-"
    | _, _, _ => "-"
  | ["c14.sccanon", x] =>
    match parseV x with
    | some x => if x.length = 32 then (if isReduced (asFn x) then "1" else "0") else "-"
    | none => "-"
  | _ => "-"

partial def loop (h : IO.FS.Stream) (out : IO.FS.Stream) : IO Unit := do
  let line ← h.getLine
  if line.isEmpty then return ()
  out.putStrLn (answer (line.dropEndWhile (fun c => c == '\n' || c == '\r')).toString)
  loop h out

def main : IO Unit := do
  let stdout ← IO.getStdout
  loop (← IO.getStdin) stdout
  stdout.flush
