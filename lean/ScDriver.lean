import PatVerif.Basic
import PatVerif.Hex
import PatVerif.Generated.ScLimbs
import PatVerif.Generated.FeLimbs
import PatVerif.Generated.EdPoints
import PatVerif.Model.Recode
import PatVerif.Model.ScalarMultLit
import PatVerif.Model.Clamp
/-! Second driver (C14/C15 only): runs the *translated* limb code of `Generated/ScLimbs.lean` and `Generated/FeLimbs.lean` — the
definitions `Proofs/Sc*.lean` and `Proofs/Fe*.lean` are about — on the scalar and field operations of the stream, so that the
translators' reading of the Go source is itself compared with the implementation on every run. -/
open PatVerif PatVerif.Hex PatVerif.Generated.ScLimbs

def asFn (b : Bytes) : Nat → Int := fun i => ((b.getD i 0).toNat : Int)
def asBytes (l : List Int) : Bytes := l.map fun x => UInt8.ofNat x.toNat

namespace Fe
open PatVerif.Generated.FeLimbs

def leNat : Bytes → Nat
  | [] => 0
  | b :: bs => b.toNat + 256 * leNat bs
def leBytes : Nat → Nat → Bytes
  | 0, _ => []
  | n + 1, v => UInt8.ofNat (v % 256) :: leBytes n (v / 256)

def limbsOf (b : Bytes) : Element :=
  let w := fun i => leNat ((b.drop (8 * i)).take 8)
  ⟨w 0, w 1, w 2, w 3, w 4⟩
def limbsHex (e : Element) : String :=
  hxv (leBytes 8 e.l0 ++ leBytes 8 e.l1 ++ leBytes 8 e.l2 ++ leBytes 8 e.l3 ++ leBytes 8 e.l4)
def encHex (l : List Nat) : String := hxv (l.map UInt8.ofNat)

/-- the operation of `field.VerifOp`, through the translated functions: (limbs of the result, integer result, encoding) -/
def run (op : String) (a b : Element) (k : Nat) (x : Bytes) : Option (Element × Nat × List Nat) :=
  let z : Element := ⟨0, 0, 0, 0, 0⟩
  let fin := fun (v : Element) (n : Nat) => some (v, n, Bytes v)
  match op with
  | "mul" => fin (Multiply z a b) 0
  | "sq" => fin (Square z a) 0
  | "add" => fin (PatVerif.Generated.FeLimbs.Add z a b) 0
  | "sub" => fin (Subtract z a b) 0
  | "neg" => fin (Negate z a) 0
  | "inv" => fin (Invert z a) 0
  | "pow22523" => fin (Pow22523 z a) 0
  | "mult32" => fin (Mult32 z a (k % 4294967296)) 0
  | "abs" => fin (Absolute z a) 0
  | "carry" => fin (carryPropagate (Set z a)) 0
  | "reduce" => fin (reduce (Set z a)) 0
  | "select" => fin (Select z a b k) 0
  | "swap" => let r := Swap a b k; some (r.1, 0, Bytes r.2)
  | "sqrtratio" => let r := SqrtRatio z a b; fin r.1 r.2
  | "equal" => fin (Set z a) (Equal a b)
  | "isneg" => fin (Set z a) (IsNegative a)
  | "setbytes" =>
    match SetBytes z (x.map UInt8.toNat) with
    | .ok v => fin v 0
    | _ => none
  | "bytes" => fin (Set z a) 0
  | _ => none
end Fe

namespace Pt
open PatVerif.Generated.FeLimbs PatVerif.Generated.EdPoints

def z : Element := ⟨0, 0, 0, 0, 0⟩

/-- `(*Point).SetBytes`, the translated function -/
def decode (x : Bytes) : Option Point := Point_SetBytes ⟨z, z, z, z⟩ (x.map UInt8.toNat)

/-- `(*Point).Bytes`, the translated `bytes` -/
def encode (v : Point) : Bytes := (Point_bytes v (List.replicate 32 0)).map UInt8.ofNat

def run (op : String) (a b : Bytes) : String :=
  let needB := op = "add" ∨ op = "sub" ∨ op = "equal"
  let zp : Point := ⟨z, z, z, z⟩
  match decode a, (if needB then decode b else some zp) with
  | some P, some Q =>
    match op with
    | "add" => "ok " ++ hxv (encode (Point_Add zp P Q))
    | "sub" => "ok " ++ hxv (encode (Point_Subtract zp P Q))
    | "neg" => "ok " ++ hxv (encode (Point_Negate zp P))
    | "double" => "ok " ++ hxv (encode (Point_Add zp P P))
    | "recode" => "ok " ++ hxv (encode P)
    | "equal" => if Point_Equal P Q = 1 then "ok 01" else "ok 00"
    | _ => "-"
  | _, _ => "undecodable"
end Pt

def answer (line : String) : String :=
  match line.splitOn " " with
  | ["c14.screduce", w] =>
    match parseV w with
    | some w => if w.length = 64 then "ok " ++ hxv (asBytes (scReduce (asFn w))) else "-"
    | none => "-"
  | ["c14.scmuladd", a, b, c] =>
    match parseV a, parseV b, parseV c with
    | some a, some b, some c =>
      if a.length = 32 ∧ b.length = 32 ∧ c.length = 32 then "ok " ++ hxv (asBytes (scMulAdd (asFn a) (asFn b) (asFn c))) else "-"
    | _, _, _ => "-"
  | ["c14.sccanon", x] =>
    match parseV x with
    | some x => if x.length = 32 then (if isReduced (asFn x) then "1" else "0") else "-"
    | none => "-"
  -- digit recodings: the translated `SetBytes` (reduction modulo L), then the literal model of the Go loops (Model/Recode.lean)
  | ["c14.dg", kind, x] =>
    match parseV x with
    | some x =>
      if x.length = 32 then
        let s : List Nat := (Scalar_SetBytes (asFn x)).map Int.toNat
        let out := fun (ds : Option (List Int)) =>
          match ds with
          | some ds => "ok " ++ hxv (ds.map fun d => UInt8.ofNat (d % 256).toNat)
          | none => "panic"
        match kind with
        | "radix16" => out (PatVerif.Model.Recode.signedRadix16 s)
        | "naf5" => out (PatVerif.Model.Recode.nonAdjacentForm s 5)
        | "naf8" => out (PatVerif.Model.Recode.nonAdjacentForm s 8)
        | _ => "-"
      else "-"
    | none => "-"
  -- scalar multiplications: translated decoder and `SetBytes`, literal recodings, the literal transcription of scalarmult.go / tables.go
  -- over the translated formulas (Model/ScalarMultLit.lean), translated encoder. `clamp` goes through `Model/Clamp.lean` (three byte operations, then the translated `scReduce`).
  | ["c14.sm", op, a, A, b] =>
    match parseV a, parseV A, parseV b with
    | some a, some A, some b =>
      if a.length = 32 ∧ b.length = 32 then
        let sc := fun (x : Bytes) => (Scalar_SetBytes (asFn x)).map Int.toNat
        let enc := fun (P : PatVerif.Generated.EdPoints.Point) => "ok " ++ hxv (Pt.encode P)
        match op with
        | "base" =>
          match PatVerif.Model.Recode.signedRadix16 (sc a) with
          | some ds => enc (PatVerif.Model.ScalarMultLit.scalarBaseMult PatVerif.Model.ScalarMultLit.basepointTable ds)
          | none => "panic"
        | "clamp" =>
          match PatVerif.Model.Clamp.setBytesWithClamping (a.map UInt8.toNat) with
          | some out =>
            match PatVerif.Model.Recode.signedRadix16 (out.map Int.toNat) with
            | some ds => enc (PatVerif.Model.ScalarMultLit.scalarBaseMult PatVerif.Model.ScalarMultLit.basepointTable ds)
            | none => "panic"
          | none => "panic"
        | "var" =>
          match Pt.decode A with
          | some P =>
            match PatVerif.Model.Recode.signedRadix16 (sc a) with
            | some ds => enc (PatVerif.Model.ScalarMultLit.scalarMult ds P)
            | none => "panic"
          | none => "undecodable"
        | "double" =>
          match Pt.decode A with
          | some P =>
            match PatVerif.Model.Recode.nonAdjacentForm (sc a) 5, PatVerif.Model.Recode.nonAdjacentForm (sc b) 8 with
            | some an, some bn =>
              match PatVerif.Model.ScalarMultLit.doubleScalarMult PatVerif.Model.ScalarMultLit.basepointNafTable an bn P with
              | some R => enc R
              | none => "panic"
            | _, _ => "panic"
          | none => "undecodable"
        | _ => "-"
      else "-"
    | _, _, _ => "-"
  | ["c14.pt", op, a, b] =>
    match parseV a, parseV b with
    | some a, some b => Pt.run op a b
    | _, _ => "-"
  | [fe, op, a, b, k, x] =>
    if fe = "c14.fe" ∨ fe = "c14.fel" then
      match parseV a, parseV b, k.toNat?, parseV x with
      | some a, some b, some k, some x =>
        if a.length = 40 ∧ b.length = 40 then
          match Fe.run op (Fe.limbsOf a) (Fe.limbsOf b) k x with
          | some (v, n, enc) =>
            if fe = "c14.fe" then "ok " ++ Fe.encHex enc ++ " " ++ toString n
            else "ok " ++ Fe.limbsHex v ++ " " ++ toString n ++ " " ++ Fe.encHex enc
          | none => "-"
        else "-"
      | _, _, _, _ => "-"
    else "-"
  | _ => "-"

partial def loop (h : IO.FS.Stream) (out : IO.FS.Stream) : IO Unit := do
  let line ← h.getLine
  if line.isEmpty then return ()
  out.putStrLn (answer (line.dropEndWhile (fun c => c == '\n' || c == '\r')).toString)
  loop h out

def main : IO Unit := do
  let stdout ← IO.getStdout
  loop (← IO.getStdin) stdout
  stdout.flush
