import PatVerif.Drive.C19
import PatVerif.Drive.C04
import PatVerif.Drive.C20
import PatVerif.Drive.C09
import PatVerif.Drive.C05
import PatVerif.Drive.T3
import PatVerif.Drive.C03
import PatVerif.Drive.Iss
import PatVerif.Drive.Sig
import PatVerif.Drive.C18
import PatVerif.Drive.C16
import PatVerif.Drive.C17
/-! Line-protocol driver: one operation per input line, one outcome line per operation,
computed by the model definitions the theorems are about. -/
open PatVerif

def dispatch (line : String) : String :=
  match line.splitOn " " with
  | [] => "bad-op"
  | op :: args =>
    let r :=
      if op.startsWith "c19." then Drive.C19.handle op args
      else if op.startsWith "c04." then Drive.C04.handle op args
      else if op.startsWith "c20." then Drive.C20.handle op args
      else if op.startsWith "c09." then Drive.C09.handle op args
      else if op.startsWith "c05." then Drive.C05.handle op args
      else if op.startsWith "c03." then Drive.C03.handle op args
      else if op.startsWith "c18." then Drive.C18.handle op args
      else if op.startsWith "c16." then Drive.C16.handle op args
      else if op.startsWith "c17." then Drive.C17.handle op args
      else if op.startsWith "c12." || op.startsWith "c13." || op.startsWith "c14." || op.startsWith "c15." then Drive.Sig.handle op args
      else if op.startsWith "c01." || op.startsWith "c02." || op.startsWith "c10." || op.startsWith "c11." then Drive.Iss.handle op args
      else if op.startsWith "c06." || op.startsWith "c07." || op.startsWith "c08." then Drive.T3.handle op args
      else none
    match r with
    | some s => s
    | none => "bad-op"

partial def loop (h : IO.FS.Stream) (out : IO.FS.Stream) : IO Unit := do
  let line ← h.getLine
  if line.isEmpty then return ()
  let l := (line.dropEndWhile (fun c => c == '\n' || c == '\r')).toString
  if l.isEmpty || l.startsWith "#" then
    loop h out
  else
    out.putStrLn (dispatch l)
    loop h out

def main : IO Unit := do
  let stdin ← IO.getStdin
  let stdout ← IO.getStdout
  loop stdin stdout
  stdout.flush
