import PatVerif.Basic
/-!
# Go slices over shared backing arrays

A heap is a family of byte arrays (index ↦ byte); a slice is a window (array, offset, length,
capacity) onto one. `append` writes **in place** when the result fits the capacity — that is how an
innocent-looking `append(arg, x)` can overwrite bytes of the caller's buffer that lie behind `arg` —
and into a fresh array otherwise.
-/
namespace PatVerif.Slices

abbrev Arr := Nat → UInt8
abbrev Heap := Nat → Arr

structure Slice where
  arr : Nat
  off : Nat
  len : Nat
  cap : Nat          -- counted from `off`
  deriving Repr, DecidableEq

/-- byte `i` of the slice -/
def get (h : Heap) (s : Slice) (i : Nat) : UInt8 := h s.arr (s.off + i)

/-- the slice's contents as a value -/
def read (h : Heap) (s : Slice) : Bytes := (List.range s.len).map (get h s)

/-- overwrite positions `pos … pos+|xs|-1` of an array -/
def writeAt (a : Arr) (pos : Nat) (xs : Bytes) : Arr :=
  fun i => if pos ≤ i ∧ i < pos + xs.length then xs.getD (i - pos) 0 else a i

/-- Go's `append(s, xs...)`; `fresh` names the array a reallocation would use -/
def append (h : Heap) (fresh : Nat) (s : Slice) (xs : Bytes) : Heap × Slice :=
  if s.len + xs.length ≤ s.cap then
    (fun a => if a = s.arr then writeAt (h a) (s.off + s.len) xs else h a, { s with len := s.len + xs.length })
  else
    (fun a => if a = fresh then fun i => if i < s.len then get h s i else xs.getD (i - s.len) 0 else h a,
     { arr := fresh, off := 0, len := s.len + xs.length, cap := 2 * (s.len + xs.length) })

/-- `b := make([]byte, 0, n); b = append(b, x...); b = append(b, y...)` — a derived string built in
a fresh array -/
def buildFresh (h : Heap) (fresh : Nat) (content : Bytes) : Heap × Slice :=
  (fun a => if a = fresh then fun i => content.getD i 0 else h a,
   { arr := fresh, off := 0, len := content.length, cap := content.length })

end PatVerif.Slices
