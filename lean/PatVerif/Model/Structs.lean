import PatVerif.Model.Codec

/-!
# The wire structures of pat-go as lawful codecs

Each Go `Marshal`/`Unmarshal` pair is one composition of the combinators of `Model/Codec.lean`,
in the order of the `cryptobyte` calls in the source. Round trip and canonical re-encoding are
the two `Codec` laws and hold by construction; `Props/C04.lean` instantiates them.
-/
namespace PatVerif.Structs
open PatVerif Codec
set_option linter.unusedSimpArgs false

/-! ## Token (tokens/token.go, tokens/type*/token.go) -/

structure Token where
  tokenType : Nat
  nonce : Bytes
  context : Bytes
  keyId : Bytes
  auth : Bytes
  deriving DecidableEq, Repr

/-- `Token.AuthenticatorInput` -/
def Token.authInput (t : Token) : Bytes := encU16 t.tokenType ++ t.nonce ++ t.context ++ t.keyId

/-- `Token.Marshal` -/
def Token.marshal (t : Token) : Bytes := t.authInput ++ t.auth

def Token.WF (nk : Nat) (t : Token) : Prop :=
  t.tokenType < 65536 ∧ t.nonce.length = 32 ∧ t.context.length = 32 ∧ t.keyId.length = 32 ∧ t.auth.length = nk

/-- `UnmarshalPrivateToken` (nk = 48), `type2/type3.UnmarshalToken` (256),
`UnmarshalBatchedPrivateToken` (64): five reads, no type check, trailing bytes ignored -/
def tokenCodec (nk : Nat) : Codec Token :=
  (u16 ⊗ fixed 32 ⊗ fixed 32 ⊗ fixed 32 ⊗ fixed nk).iso
    (fun p => ⟨p.1, p.2.1, p.2.2.1, p.2.2.2.1, p.2.2.2.2⟩)
    (fun t => (t.tokenType, t.nonce, t.context, t.keyId, t.auth))
    (Token.WF nk)
    (by intro a h; exact ⟨rfl, h⟩)
    (by intro t h; exact ⟨rfl, h⟩)

theorem tokenCodec_strict (nk : Nat) : (tokenCodec nk).Strict :=
  iso_strict (pair_strict u16_strict (pair_strict (fixed_strict _) (pair_strict (fixed_strict _)
    (pair_strict (fixed_strict _) (fixed_strict _)))))

theorem tokenCodec_enc (nk : Nat) (t : Token) : (tokenCodec nk).enc t = t.marshal := by
  simp [tokenCodec, iso, pair, u16, fixed, Token.marshal, Token.authInput]

/-! ## TokenRequest of types 1 and 2 -/

structure BasicReq where
  keyId : UInt8
  blinded : Bytes
  deriving DecidableEq, Repr

/-- `type1.BasicPrivateTokenRequest` (ty = 1, n = Ne = 49) and
`type2.BasicPublicTokenRequest` (ty = 2, n = 256): tag check, key id, blinded message;
trailing bytes ignored (the generic batch decoder relies on that) -/
def basicReqCodec (ty : Nat) (hty : ty < 65536) (n : Nat) : Codec BasicReq :=
  (tag16 ty hty ⊗ u8 ⊗ fixed n).iso
    (fun p => ⟨p.2.1, p.2.2⟩) (fun r => ((), r.keyId, r.blinded))
    (fun r => r.blinded.length = n)
    (by intro a h; exact ⟨rfl, h.2.2⟩)
    (by intro r h; exact ⟨rfl, trivial, trivial, h⟩)

theorem basicReqCodec_strict (ty : Nat) (hty : ty < 65536) (n : Nat) : (basicReqCodec ty hty n).Strict :=
  iso_strict (pair_strict (tag16_strict _ _) (pair_strict u8_strict (fixed_strict _)))

def req1Codec : Codec BasicReq := basicReqCodec 1 (by decide) 49
def req2Codec : Codec BasicReq := basicReqCodec 2 (by decide) 256

/-! ## TokenRequest of type 3 and its encrypted inner request -/

structure Req3 where
  requestKey : Bytes
  nameKeyId : Bytes
  encrypted : Bytes
  signature : Bytes
  deriving DecidableEq, Repr

def Req3.WF (r : Req3) : Prop :=
  r.requestKey.length = 49 ∧ r.nameKeyId.length = 32 ∧
  (r.encrypted.length < 65536 ∧ r.encrypted ≠ []) ∧ r.signature.length = 96

def req3Prefix : Codec Req3 :=
  (tag16 3 (by decide) ⊗ fixed 49 ⊗ fixed 32 ⊗ vec16 true ⊗ fixed 96).iso
    (fun p => ⟨p.2.1, p.2.2.1, p.2.2.2.1, p.2.2.2.2⟩)
    (fun r => ((), r.requestKey, r.nameKeyId, r.encrypted, r.signature))
    Req3.WF
    (by
      intro a h
      refine ⟨rfl, h.2.1, h.2.2.1, ⟨h.2.2.2.1.1, ?_⟩, h.2.2.2.2⟩
      exact h.2.2.2.1.2 rfl)
    (by
      intro r h
      exact ⟨rfl, trivial, h.1, h.2.1, ⟨h.2.2.1.1, fun _ => h.2.2.1.2⟩, h.2.2.2⟩)

/-- `RateLimitedTokenRequest.Unmarshal`: the whole input must be consumed -/
def req3Codec : ExactCodec Req3 := req3Prefix.exact

theorem req3Prefix_strict : req3Prefix.Strict :=
  iso_strict (pair_strict (tag16_strict _ _) (pair_strict (fixed_strict _) (pair_strict (fixed_strict _)
    (pair_strict (vec16_strict _) (fixed_strict _)))))

/-- the message the client signs and issuer and attester verify:
`type || request_key || name_key_id || uint16-prefixed ciphertext` -/
def req3SignedMessage (r : Req3) : Bytes :=
  encU16 3 ++ r.requestKey ++ r.nameKeyId ++ (encU16 r.encrypted.length ++ r.encrypted)

theorem req3_enc (r : Req3) : req3Codec.enc r = req3SignedMessage r ++ r.signature := by
  simp [req3Codec, exact, req3Prefix, iso, pair, tag16, fixed, vec16, req3SignedMessage]

structure Inner where
  keyId : UInt8
  blindedMsg : Bytes
  paddedOrigin : Bytes
  deriving DecidableEq, Repr

def Inner.WF (r : Inner) : Prop := r.blindedMsg.length = 256 ∧ r.paddedOrigin.length < 65536

/-- `InnerTokenRequest`: trailing bytes ignored -/
def innerCodec : Codec Inner :=
  (u8 ⊗ fixed 256 ⊗ vec16 false).iso
    (fun p => ⟨p.1, p.2.1, p.2.2⟩) (fun r => (r.keyId, r.blindedMsg, r.paddedOrigin))
    Inner.WF
    (by intro a h; exact ⟨rfl, h.2.1, h.2.2.1⟩)
    (by intro r h; exact ⟨rfl, trivial, h.1, h.2, fun h' => by simp at h'⟩)

theorem innerCodec_strict : innerCodec.Strict :=
  iso_strict (pair_strict u8_strict (pair_strict (fixed_strict _) (vec16_strict _)))

/-! ## TokenChallenge -/

/-- `strings.Split(s, ",")` on bytes: always at least one element -/
def splitComma : Bytes → List Bytes
  | [] => [[]]
  | c :: r =>
    if c = 44 then [] :: splitComma r
    else
      match splitComma r with
      | [] => [[c]]
      | w :: ws => (c :: w) :: ws

/-- `strings.Join(xs, ",")` -/
def joinComma : List Bytes → Bytes
  | [] => []
  | [w] => w
  | w :: ws => w ++ 44 :: joinComma ws

theorem splitComma_ne_nil (s : Bytes) : splitComma s ≠ [] := by
  induction s with
  | nil => simp [splitComma]
  | cons c r ih =>
    unfold splitComma
    split
    · simp
    · split <;> simp

theorem join_split (s : Bytes) : joinComma (splitComma s) = s := by
  induction s with
  | nil => simp [splitComma, joinComma]
  | cons c r ih =>
    unfold splitComma
    split
    · rename_i hc
      have hne := splitComma_ne_nil r
      cases hs : splitComma r with
      | nil => exact absurd hs hne
      | cons w ws =>
        rw [hs] at ih
        simp [joinComma, ih, hc]
    · cases hs : splitComma r with
      | nil => exact absurd hs (splitComma_ne_nil r)
      | cons w ws =>
        rw [hs] at ih
        simp only []
        cases ws with
        | nil => simp [joinComma] at ih ⊢; exact ih
        | cons w2 ws2 => simp [joinComma] at ih ⊢; exact ih

theorem split_noComma (s : Bytes) : ∀ w ∈ splitComma s, (44 : UInt8) ∉ w := by
  induction s with
  | nil => simp [splitComma]
  | cons c r ih =>
    unfold splitComma
    split
    · intro w hw
      simp at hw
      rcases hw with rfl | hw
      · simp
      · exact ih w hw
    · rename_i hc
      cases hs : splitComma r with
      | nil => exact absurd hs (splitComma_ne_nil r)
      | cons w ws =>
        rw [hs] at ih
        intro w' hw'
        simp at hw'
        rcases hw' with rfl | hw'
        · have := ih w (by simp)
          simp
          exact ⟨fun h => hc h.symm, this⟩
        · exact ih w' (by simp [hw'])

theorem split_join (xs : List Bytes) (hne : xs ≠ []) (hc : ∀ w ∈ xs, (44 : UInt8) ∉ w) :
    splitComma (joinComma xs) = xs := by
  induction xs with
  | nil => exact absurd rfl hne
  | cons w ws ih =>
    have hw : (44 : UInt8) ∉ w := hc w (by simp)
    cases ws with
    | nil =>
      simp only [joinComma]
      clear ih hc hne
      induction w with
      | nil => simp [splitComma]
      | cons c r ihr =>
        have hcr : c ≠ 44 := by intro e; apply hw; simp [e]
        have hr : (44 : UInt8) ∉ r := by intro e; apply hw; simp [e]
        unfold splitComma
        simp [hcr, ihr hr]
    | cons w2 ws2 =>
      have ih' := ih (by simp) (fun w' h' => hc w' (by simp [h']))
      simp only [joinComma] at ih' ⊢
      clear ih hc hne
      induction w with
      | nil => simp [splitComma]; exact ih'
      | cons c r ihr =>
        have hcr : c ≠ 44 := by intro e; apply hw; simp [e]
        have hr : (44 : UInt8) ∉ r := by intro e; apply hw; simp [e]
        have := ihr hr
        simp only [List.cons_append]
        unfold splitComma
        simp [hcr, this]

structure Challenge where
  tokenType : Nat
  issuerName : Bytes
  redemptionNonce : Bytes
  originInfo : List Bytes
  deriving DecidableEq, Repr

def Challenge.WF (c : Challenge) : Prop :=
  c.tokenType < 65536 ∧ (c.issuerName.length < 65536 ∧ c.issuerName ≠ []) ∧ c.redemptionNonce.length < 256 ∧
  (joinComma c.originInfo).length < 65536 ∧ c.originInfo ≠ [] ∧ ∀ w ∈ c.originInfo, (44 : UInt8) ∉ w

/-- `TokenChallenge.Marshal` / `UnmarshalTokenChallenge` (origin list joined with commas);
trailing bytes ignored -/
def challengeCodec : Codec Challenge :=
  (u16 ⊗ vec16 true ⊗ vec8 ⊗ vec16 false).iso
    (fun p => ⟨p.1, p.2.1, p.2.2.1, splitComma p.2.2.2⟩)
    (fun c => (c.tokenType, c.issuerName, c.redemptionNonce, joinComma c.originInfo))
    Challenge.WF
    (by
      intro a h
      refine ⟨?_, h.1, ⟨h.2.1.1, h.2.1.2 rfl⟩, h.2.2.1, ?_, splitComma_ne_nil _, split_noComma _⟩
      · simp [join_split]
      · simp only [join_split]; exact h.2.2.2.1)
    (by
      intro c h
      refine ⟨?_, h.1, ⟨h.2.1.1, fun _ => h.2.1.2⟩, h.2.2.1, h.2.2.2.1, fun h' => by simp at h'⟩
      simp [split_join _ h.2.2.2.2.1 h.2.2.2.2.2])

/-! ## TokenRequest of type 5 (varint-framed list of 32-byte elements) -/

structure Req5 where
  keyId : UInt8
  blinded : List Bytes
  deriving DecidableEq, Repr

def chunks32 : ExactCodec (List Bytes) := many (fixed 32) (by intro a h; simp [fixed] at h ⊢; omega)

theorem chunks32_strict : chunks32.Strict := many_strict _ (fixed_strict 32)

def req5Codec : Codec Req5 :=
  (tag16 5 (by decide) ⊗ u8 ⊗ ExactCodec.within varBytes chunks32 chunks32_strict).iso
    (fun p => ⟨p.2.1, p.2.2⟩) (fun r => ((), r.keyId, r.blinded))
    (fun r => (∀ w ∈ r.blinded, w.length = 32) ∧ (chunks32.enc r.blinded).length ≤ Quicwire.maxVarint)
    (by intro a h; exact ⟨rfl, h.2.2⟩)
    (by intro r h; exact ⟨rfl, trivial, trivial, h⟩)

/-! ## Generic batch request: varint-framed list of type-1 / type-2 requests -/

structure BatchElem where
  ty : Nat
  req : BasicReq
  deriving DecidableEq, Repr

def batchElemBody (ty : Nat) : Codec BasicReq :=
  if ty = 1 then
    (u8 ⊗ fixed 49).iso (fun p => ⟨p.1, p.2⟩) (fun r => (r.keyId, r.blinded)) (fun r => r.blinded.length = 49)
      (by intro a h; exact ⟨rfl, h.2⟩) (by intro r h; exact ⟨rfl, trivial, h⟩)
  else if ty = 2 then
    (u8 ⊗ fixed 256).iso (fun p => ⟨p.1, p.2⟩) (fun r => (r.keyId, r.blinded)) (fun r => r.blinded.length = 256)
      (by intro a h; exact ⟨rfl, h.2⟩) (by intro r h; exact ⟨rfl, trivial, h⟩)
  else Codec.fail []

theorem batchElemBody_strict (ty : Nat) : (batchElemBody ty).Strict := by
  unfold batchElemBody
  split
  · exact iso_strict (pair_strict u8_strict (fixed_strict _))
  · split
    · exact iso_strict (pair_strict u8_strict (fixed_strict _))
    · exact fail_strict _

/-- one element: the type tag selects the per-type request decoder; other types are rejected -/
def batchElemCodec : Codec BatchElem :=
  (sigma u16 batchElemBody).iso (fun p => ⟨p.1, p.2⟩) (fun e => (e.ty, e.req))
    (fun e => e.ty < 65536 ∧ (batchElemBody e.ty).wf e.req)
    (by intro a h; exact ⟨rfl, h⟩) (by intro e h; exact ⟨rfl, h⟩)

theorem batchElemCodec_strict : batchElemCodec.Strict :=
  iso_strict (sigma_strict u16_strict batchElemBody_strict)

theorem batchElem_pos (e : BatchElem) (_ : batchElemCodec.wf e) : 0 < (batchElemCodec.enc e).length := by
  simp [batchElemCodec, iso, sigma, u16, encU16]

def batchElems : ExactCodec (List BatchElem) := many batchElemCodec batchElem_pos

theorem batchElems_strict : batchElems.Strict := many_strict _ batchElemCodec_strict

/-- `BatchedTokenRequest.Marshal/Unmarshal`: the list must be non-empty; bytes after the
declared list are ignored -/
def batchReqCodec : Codec (List BatchElem) :=
  (ExactCodec.within varBytes batchElems batchElems_strict).filter (fun es => !es.isEmpty)

/-! ## Generic batch response list -/

/-- `none` = absent; `some (ty, body)` = present -/
abbrev RespEntry := Option (Nat × Bytes)

def respLen (ty : Nat) : Option Nat :=
  if ty = 1 then some 145 else if ty = 2 then some 256 else none

def respBody (ty : Nat) : Codec Bytes :=
  match respLen ty with
  | some n => fixed n
  | none => Codec.fail []

theorem respBody_strict (ty : Nat) : (respBody ty).Strict := by
  unfold respBody; split
  · exact fixed_strict _
  · exact fail_strict _

def respPresent : Codec (Nat × Bytes) := sigma u16 respBody

theorem respPresent_strict : respPresent.Strict := sigma_strict u16_strict respBody_strict

/-- status byte 0 (absent) or 1 (present, followed by type and a body of the type's length) -/
def respEntryBody (st : UInt8) : Codec RespEntry :=
  if st = 0 then
    Codec.unit.iso (fun _ => none) (fun _ => ()) (fun e => e = none)
      (by intro a _; exact ⟨rfl, rfl⟩) (by intro e h; subst h; exact ⟨rfl, trivial⟩)
  else if st = 1 then
    respPresent.iso some (fun e => e.getD (0, [])) (fun e => ∃ p, e = some p ∧ respPresent.wf p)
      (by intro a h; exact ⟨rfl, a, rfl, h⟩)
      (by intro e ⟨p, hp, hw⟩; subst hp; exact ⟨rfl, hw⟩)
  else Codec.fail []

theorem respEntryBody_strict (st : UInt8) : (respEntryBody st).Strict := by
  unfold respEntryBody
  split
  · exact iso_strict unit_strict
  · split
    · exact iso_strict respPresent_strict
    · exact fail_strict _

def respEntryCodec : Codec (UInt8 × RespEntry) := sigma u8 respEntryBody

theorem respEntryCodec_strict : respEntryCodec.Strict := sigma_strict u8_strict respEntryBody_strict

theorem respEntry_pos (e : UInt8 × RespEntry) (_ : respEntryCodec.wf e) : 0 < (respEntryCodec.enc e).length := by
  simp [respEntryCodec, sigma, u8]

def respEntries : ExactCodec (List (UInt8 × RespEntry)) := many respEntryCodec respEntry_pos

theorem respEntries_strict : respEntries.Strict := many_strict _ respEntryCodec_strict

/-- `UnmarshalBatchedTokenResponses` -/
def batchRespCodec : Codec (List (UInt8 × RespEntry)) :=
  ExactCodec.within varBytes respEntries respEntries_strict

/-- what the Go decoder returns: the bodies, an absent entry as the empty string -/
def respBodies (es : List (UInt8 × RespEntry)) : List Bytes :=
  es.map fun e => match e.2 with | some (_, b) => b | none => []

/-! ## EncapKey -/

/-- HPKE KEM ids known to the HPKE library and their public-key sizes -/
def kemPkSize (kem : Nat) : Option Nat :=
  if kem = 0x0010 then some 65
  else if kem = 0x0012 then some 133
  else if kem = 0x0020 then some 32
  else if kem = 0x0021 then some 56
  else if kem = 0xFFFE then some 378
  else if kem = 0xFFFF then some 564
  else none

def kdfKnown (k : Nat) : Bool := k = 1 || k = 2 || k = 3
def aeadKnown (a : Nat) : Bool := a = 1 || a = 2 || a = 3 || a = 0xFFFF

structure EncapKey where
  id : UInt8
  kem : Nat
  publicKey : Bytes
  kdf : Nat
  aead : Nat
  deriving DecidableEq, Repr

def encapPk (kem : Nat) : Codec Bytes :=
  match kemPkSize kem with
  | some n => fixed n
  | none => Codec.fail []

/-- `EncapKey.Marshal` / `UnmarshalEncapKey`. `pkOk kem bytes` is the HPKE library's verdict on
the public key bytes (always true for X25519/X448; an on-curve check for the NIST KEMs):
a parameter of the model, supplied by the harness from the library itself. -/
def encapKeyCodec (pkOk : Nat → Bytes → Bool) : Codec EncapKey :=
  ((u8 ⊗ sigma u16 encapPk ⊗ u16 ⊗ u16).filter
      (fun p => kdfKnown p.2.2.1 && aeadKnown p.2.2.2 && pkOk p.2.1.1 p.2.1.2)).iso
    (fun p => ⟨p.1, p.2.1.1, p.2.1.2, p.2.2.1, p.2.2.2⟩)
    (fun k => (k.id, (k.kem, k.publicKey), k.kdf, k.aead))
    (fun k => (k.kem < 65536 ∧ (encapPk k.kem).wf k.publicKey) ∧ k.kdf < 65536 ∧ k.aead < 65536 ∧
      (kdfKnown k.kdf && aeadKnown k.aead && pkOk k.kem k.publicKey) = true)
    (by intro a h; exact ⟨rfl, h.1.2.1, h.1.2.2.1, h.1.2.2.2, h.2⟩)
    (by intro k h; exact ⟨rfl, ⟨trivial, h.1, h.2.1, h.2.2.1⟩, h.2.2.2⟩)

/-! ## The request object and its encoding cache -/

/-- a request object: the cached encoding (`raw`, `none` = nil) and the exported fields -/
structure Obj (α : Type) where
  raw : Option Bytes
  val : α

/-- `Marshal()`: return the cache if present, else encode and fill the cache -/
def Obj.marshal {α : Type} (enc : α → Bytes) (o : Obj α) : Bytes × Obj α :=
  match o.raw with
  | some r => (r, o)
  | none => (enc o.val, { o with raw := some (enc o.val) })

/-- `Unmarshal(data)` on success: the cache is dropped and the fields are the decoded value.
(On failure the Go code may have overwritten a prefix of the fields; the model keeps that in
`partialVal`, supplied per structure.) -/
def Obj.unmarshal {α : Type} (dec : Bytes → Option α) (partialVal : α → Bytes → α) (o : Obj α) (b : Bytes) :
    Bool × Obj α :=
  match dec b with
  | some v => (true, { raw := none, val := v })
  | none => (false, { raw := none, val := partialVal o.val b })

/-- the cache invariant: the cache is empty or holds the encoding of the current fields -/
def Obj.Inv {α : Type} (enc : α → Bytes) (o : Obj α) : Prop :=
  o.raw = none ∨ o.raw = some (enc o.val)

end PatVerif.Structs
