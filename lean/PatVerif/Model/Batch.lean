import PatVerif.Model.Structs
/-!
# The generic batch issuer (tokens/batched/issuer.go:47-95)

`IssuerCfg.eval` is the outcome of the configured issuer's own `Evaluate` on a request — a
parameter of the model (an oracle column in the correspondence harness, computed by calling that
issuer directly).
-/
namespace PatVerif.Batch
open PatVerif Codec Structs

structure IssuerCfg where
  ty : Nat
  keyIdLast : UInt8
  eval : BasicReq → Option Bytes

/-- the per-request slot (issuer.go:50-74): among the issuers configured for the request's type,
in configuration order, the first whose key id ends in the request's truncated key id *and* whose
evaluation succeeds; `none` if there is none -/
def evalOne : List IssuerCfg → BatchElem → Option Bytes
  | [], _ => none
  | i :: rest, e =>
    if i.ty = e.ty ∧ i.keyIdLast = e.req.keyId then
      match i.eval e.req with
      | some resp => some resp
      | none => evalOne rest e
    else evalOne rest e

/-- the entry written for a slot (issuer.go:78-86): present iff the slot holds a non-empty response -/
def entryOf (cfg : List IssuerCfg) (e : BatchElem) : UInt8 × RespEntry :=
  match evalOne cfg e with
  | some resp => if resp.length > 0 then (1, some (e.ty, resp)) else (0, none)
  | none => (0, none)

def encodeEntry (x : UInt8 × RespEntry) : Bytes :=
  match x.2 with
  | some (ty, body) => [1] ++ encU16 ty ++ body
  | none => [0]

/-- `EvaluateBatch`: one entry per request, in request order, behind a varint length -/
def evaluateBatch (cfg : List IssuerCfg) (es : List BatchElem) : Bytes :=
  varBytes.enc ((es.map fun e => encodeEntry (entryOf cfg e)).flatten)

/-- every successful evaluation of a configured issuer has the response length of its type and
the configuration only holds issuers of the two carried types -/
def CfgSized (cfg : List IssuerCfg) : Prop :=
  ∀ i ∈ cfg, i.ty < 65536 ∧ ∀ r resp, i.eval r = some resp → respLen i.ty = some resp.length ∧ resp.length > 0

/-- no two configured issuers share (type, last key-id byte) -/
def CfgDistinct : List IssuerCfg → Prop
  | [] => True
  | i :: rest => (∀ j ∈ rest, ¬ (j.ty = i.ty ∧ j.keyIdLast = i.keyIdLast)) ∧ CfgDistinct rest

end PatVerif.Batch
