/-!
# The scalar digit recodings of `ed25519/internal/edwards25519/scalar.go` (C14, C15)

`(*Scalar).signedRadix16` (the digits `ScalarBaseMult` and `ScalarMult` consume) and `(*Scalar).nonAdjacentForm`
(the digits `VarTimeDoubleScalarBaseMult` consumes), written as the Go code is written: `int8` arithmetic wraps
(`wrap8`), `>>` on a signed value is the arithmetic shift (floor division), the 64-bit words of the non-adjacent form are
combined with `>>`, `<<` (modulo 2^64) and `|`, the loops are a structural recursion resp. a fuel-indexed one (the position
grows by at least one per round, 256 rounds suffice). A scalar is the list of its 32 bytes as naturals. `none` is the
Go function's `panic("scalar has high bit set illegally")`.

The statement-level pin of the two Go functions is `Proofs/SkelScalarMult.lean`; the theorems are in `Proofs/Recode.lean`;
`scdriver` executes these definitions against the Go code (`VerifScalarDigits`) on every C14/C15 run. Core Lean only.
-/
namespace PatVerif.Model.Recode

/-- conversion to Go's `int8`: two's-complement wrap-around -/
def wrap8 (x : Int) : Int := (x + 128) % 256 - 128

/-- "Compute unsigned radix-16 digits": `digits[2*i] = s[i] & 15; digits[2*i+1] = (s[i] >> 4) & 15` -/
def nibbles : List Nat → List Int
  | [] => []
  | b :: bs => ((b % 16 : Nat) : Int) :: (((b / 16) % 16 : Nat) : Int) :: nibbles bs

/-- "Recenter coefficients": `carry := (digits[i] + 8) >> 4; digits[i] -= carry << 4; digits[i+1] += carry` for every
digit but the last, which only absorbs the carry. `c` is the carry that the previous round added to the head. -/
def recenter : Int → List Int → List Int
  | _, [] => []
  | c, [d] => [wrap8 (d + c)]
  | c, d :: d' :: ds =>
    let x := wrap8 (d + c)
    let carry := wrap8 (x + 8) / 16
    wrap8 (x - wrap8 (carry * 16)) :: recenter carry (d' :: ds)

/-- `(*Scalar).signedRadix16` -/
def signedRadix16 (s : List Nat) : Option (List Int) :=
  if s.getD 31 0 > 127 then none else some (recenter 0 (nibbles s))

/-- little-endian value of a digit list in radix `2^k` -/
def evalDigits (k : Nat) : List Int → Int
  | [] => 0
  | d :: ds => d + (2 : Int) ^ k * evalDigits k ds

/-- little-endian value of a byte list -/
def leNat : List Nat → Nat
  | [] => 0
  | b :: bs => b + 256 * leNat bs

/-- `binary.LittleEndian.Uint64(s[8*i:])` -/
def word64 (s : List Nat) (i : Nat) : Nat := leNat ((s.drop (8 * i)).take 8)

/-- the loop of `nonAdjacentForm`; `d` are the five 64-bit words (`digits[4] = 0`) -/
def nafLoop (d : Nat → Nat) (w : Nat) : Nat → Nat → Nat → List Int → List Int
  | 0, _, _, naf => naf
  | fuel + 1, pos, carry, naf =>
    if pos < 256 then
      let iw := pos / 64
      let ib := pos % 64
      let bitBuf :=
        if ib < 64 - w then d iw >>> ib
        else (d iw >>> ib) ||| ((d (1 + iw) <<< (64 - ib)) % 2 ^ 64)
      let window := carry + (bitBuf &&& (2 ^ w - 1))
      if window &&& 1 = 0 then nafLoop d w fuel (pos + 1) carry naf
      else if window < 2 ^ w / 2 then nafLoop d w fuel (pos + w) 0 (naf.set pos (wrap8 window))
      else nafLoop d w fuel (pos + w) 1 (naf.set pos (wrap8 (wrap8 window - wrap8 ((2 : Int) ^ w))))
    else naf

/-- `(*Scalar).nonAdjacentForm(w)`; `none` is one of its three panics -/
def nonAdjacentForm (s : List Nat) (w : Nat) : Option (List Int) :=
  if s.getD 31 0 > 127 then none
  else if w < 2 then none
  else if w > 8 then none
  else
    let d := fun i => if i < 4 then word64 s i else 0
    some (nafLoop d w 256 0 0 (List.replicate 256 0))

/-! ## Specification: the digit expansions computed from the number -/

/-- signed radix-16 expansion of `r` with `n + 1` digits: `n` digits in [-8, 8), the last one takes what is left -/
def radix16Spec : Nat → Int → List Int
  | 0, r => [r]
  | n + 1, r =>
    let d := (r + 8) % 16 - 8
    d :: radix16Spec n ((r - d) / 16)

/-- width-`w` non-adjacent form of `r`, `n` digits: an odd remainder gives the residue of least absolute value modulo `2^w` -/
def nafSpec (w : Nat) : Nat → Int → List Int
  | 0, _ => []
  | n + 1, r =>
    if r % 2 = 0 then 0 :: nafSpec w n (r / 2)
    else
      let d := (r + (2 : Int) ^ (w - 1)) % (2 : Int) ^ w - (2 : Int) ^ (w - 1)
      d :: nafSpec w n ((r - d) / 2)

end PatVerif.Model.Recode
