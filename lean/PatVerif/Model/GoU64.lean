/-!
# Go `uint64` arithmetic as used by the translated field code (`Generated/FeLimbs.lean`)

Values are `Nat` below `2^64`; every operator wraps exactly as Go's does, so the translated
definitions compute what the Go code computes for **all** operands — there are no side conditions
here. That no wrap-around actually happens under the `Element` invariant is what
`Proofs/Fe*.lean` prove.

* `x + y`, `x - y`, `x * y` are taken mod `2^64`;
* `x << k` is multiplication by `2^k` mod `2^64`, `x >> k` is division by `2^k`;
* `&`, `|`, `^` are the bitwise operations of the naturals, `^x` is `2^64 - 1 - x`;
* `bits.Mul64(x, y)` is `(hi, lo)` of the 128-bit product, `bits.Add64(x, y, c)` is `(sum, carryOut)`;
* `binary.LittleEndian.Uint64` / `PutUint64` read and write eight bytes, least significant first;
* arrays and slices of bytes are lists of naturals below 256.
-/
namespace PatVerif.U64

def W : Nat := 18446744073709551616

def add (x y : Nat) : Nat := (x + y) % 18446744073709551616
def sub (x y : Nat) : Nat := (x + 18446744073709551616 - y % 18446744073709551616) % 18446744073709551616
def mul (x y : Nat) : Nat := (x * y) % 18446744073709551616
def shr (x k : Nat) : Nat := x / 2 ^ k
def shl (x k : Nat) : Nat := (x * 2 ^ k) % 18446744073709551616
def and (x y : Nat) : Nat := x &&& y
def or (x y : Nat) : Nat := x ||| y
def xor (x y : Nat) : Nat := x ^^^ y
def not (x : Nat) : Nat := 18446744073709551615 - x % 18446744073709551616
/-- conversion of a non-negative `int` / `uint32` to `uint64` -/
def ofInt (x : Nat) : Nat := x % 18446744073709551616
/-- conversion to `byte` -/
def toByte (x : Nat) : Nat := x % 256
/-- `bits.Mul64`: (hi, lo) -/
def bitsMul64 (x y : Nat) : Nat × Nat := ((x * y) / 18446744073709551616, (x * y) % 18446744073709551616)
/-- `bits.Add64`: (sum, carryOut) -/
def bitsAdd64 (x y c : Nat) : Nat × Nat := ((x + y + c) % 18446744073709551616, (x + y + c) / 18446744073709551616)

/-- `binary.LittleEndian.Uint64(b)` for a slice of at least eight bytes -/
def leU64 (b : List Nat) : Nat :=
  b.getD 0 0 + b.getD 1 0 * 2 ^ 8 + b.getD 2 0 * 2 ^ 16 + b.getD 3 0 * 2 ^ 24 + b.getD 4 0 * 2 ^ 32
  + b.getD 5 0 * 2 ^ 40 + b.getD 6 0 * 2 ^ 48 + b.getD 7 0 * 2 ^ 56
/-- the eight bytes `binary.LittleEndian.PutUint64` writes -/
def lePut64 (x : Nat) : List Nat :=
  [x % 256, x / 2 ^ 8 % 256, x / 2 ^ 16 % 256, x / 2 ^ 24 % 256, x / 2 ^ 32 % 256, x / 2 ^ 40 % 256,
   x / 2 ^ 48 % 256, x / 2 ^ 56 % 256]
/-- `x[lo:hi]` on a byte slice, bounds known to the translator -/
def bslice (b : List Nat) (lo hi : Nat) : List Nat := (b.drop lo).take (hi - lo)
/-- `a[i] |= v` on a byte array -/
def orAt (a : List Nat) (i : Nat) (v : Nat) : List Nat := a.set i (a.getD i 0 ||| v)
/-- `subtle.ConstantTimeCompare` -/
def ctCompare (a b : List Nat) : Nat := if a = b then 1 else 0
/-- a counting loop whose body does not look at the counter -/
def iter {α : Type} : Nat → (α → α) → α → α
  | 0, _, x => x
  | n + 1, f, x => iter n f (f x)

end PatVerif.U64
