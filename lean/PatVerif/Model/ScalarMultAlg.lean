/-!
# The table-driven scalar multiplications of `ed25519/internal/edwards25519` over an abstract group (C14, C15)

`scalarmult.go` and `tables.go` contain no arithmetic of their own: they call the point formulas (`Add`, `Sub`, `AddAffine`,
`SubAffine`, `Double`, the coordinate conversions) in a fixed pattern driven by the digits of `signedRadix16` resp.
`nonAdjacentForm`. This file writes that pattern down over any carrier `G` with a zero, an addition and a negation — the four
coordinate systems of the Go code are representations of one group element and are not distinguished here; which Go statement is
which step is pinned textually by `Proofs/SkelScalarMult.lean`. `Proofs/ScalarMultAlg.lean` proves that in every commutative group
the three loops compute `k • Q`, `k • B` and `a • A + b • B` from any digit lists with the digit sets that `Proofs/Recode.lean`
establishes for the recodings, and that no table index leaves its table. Core Lean only.
-/
namespace PatVerif.Model.ScalarMultAlg

structure Ops (G : Type) where
  zero : G
  add : G → G → G
  neg : G → G

variable {G : Type} (o : Ops G)

/-- `Double` (through `projP2`/`projP1xP1`) -/
def dbl (x : G) : G := o.add x x
/-- `Sub` / `SubAffine` -/
def sub (x y : G) : G := o.add x (o.neg y)
def dbl4 (x : G) : G := dbl o (dbl o (dbl o (dbl o x)))
def dbl8 (x : G) : G := dbl4 o (dbl4 o x)

/-- the loop of the four `FromP3` of `tables.go`: `points[0] = q`, `points[i+1] = step + points[i]` -/
def tableFrom (step : G) : Nat → G → List G
  | 0, _ => []
  | n + 1, cur => cur :: tableFrom step n (o.add step cur)

/-- `projLookupTable.FromP3`, `affineLookupTable.FromP3`: `q, 2q, …, 8q` -/
def lookupTable (q : G) : List G := tableFrom o q 8 q
/-- `nafLookupTable5.FromP3` (`n = 8`), `nafLookupTable8.FromP3` (`n = 64`): `q, 3q, 5q, …` built with `q2 = q + q` -/
def nafTable (n : Nat) (q : G) : List G := tableFrom o (o.add q q) n q

/-- the constant-time `SelectInto`: `|x|` selects entry `|x| − 1` for `1 ≤ |x| ≤ 8` and the zero element otherwise; negated for `x < 0` -/
def selectCT (table : List G) (x : Int) : G :=
  let xabs := x.natAbs
  let dest := if 1 ≤ xabs ∧ xabs ≤ 8 then table.getD (xabs - 1) o.zero else o.zero
  if x < 0 then o.neg dest else dest

/-- the variable-time `SelectInto`: `v.points[x/2]`; `none` is Go's index-out-of-range panic -/
def selectVT (table : List G) (x : Int) : Option G :=
  if 0 ≤ x then table[(x / 2).toNat]? else none

/-- `(*Point).ScalarMult`: `tmp1 = 0 + x_63·Q`, then for `i = 62 … 0`: four doublings and `+ x_i·Q` -/
def varMult (digits : List Int) (q : G) : G :=
  let table := lookupTable o q
  match digits.reverse with
  | [] => o.zero
  | top :: rest =>
    rest.foldl (fun t d => o.add (dbl4 o t) (selectCT o table d)) (o.add o.zero (selectCT o table top))

/-- `basepointTable`: table `i` is built from `p`, then `p` is doubled eight times -/
def baseTables : Nat → G → List (List G)
  | 0, _ => []
  | n + 1, p => lookupTable o p :: baseTables n (dbl8 o p)

/-- `(*Point).ScalarBaseMult`: the odd digits, four doublings, the even digits -/
def baseMult (digits : List Int) (b : G) : G :=
  let tables := baseTables o 32 b
  let odd := (List.range 32).foldl (fun v j => o.add v (selectCT o (tables.getD j []) (digits.getD (2 * j + 1) 0))) o.zero
  let v := dbl4 o odd
  (List.range 32).foldl (fun v j => o.add v (selectCT o (tables.getD j []) (digits.getD (2 * j) 0))) v

/-- one position of `VarTimeDoubleScalarBaseMult`: double, then `± aTable[|a|/2]`, then `± bTable[|b|/2]` -/
def doubleStep (aTable bTable : List G) (acc : G) (a b : Int) : Option G :=
  let t := dbl o acc
  let t1 : Option G :=
    if a > 0 then (selectVT aTable a).map (fun m => o.add t m)
    else if a < 0 then (selectVT aTable (-a)).map (fun m => sub o t m)
    else some t
  match t1 with
  | none => none
  | some t1 =>
    if b > 0 then (selectVT bTable b).map (fun m => o.add t1 m)
    else if b < 0 then (selectVT bTable (-b)).map (fun m => sub o t1 m)
    else some t1

/-- the loop of `VarTimeDoubleScalarBaseMult` over the positions from high to low -/
def doubleLoop (aTable bTable : List G) : List (Int × Int) → G → Option G
  | [], acc => some acc
  | (a, b) :: rest, acc =>
    match doubleStep o aTable bTable acc a b with
    | none => none
    | some acc' => doubleLoop aTable bTable rest acc'

/-- `(*Point).VarTimeDoubleScalarBaseMult(a, A, b)` with base point `B`: positions 255 … 0 -/
def doubleMult (aNaf bNaf : List Int) (A B : G) : Option G :=
  doubleLoop o (nafTable o 8 A) (nafTable o 64 B) (aNaf.zip bNaf).reverse o.zero

end PatVerif.Model.ScalarMultAlg
