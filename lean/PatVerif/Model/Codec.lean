import PatVerif.Basic
import PatVerif.Model.Quicwire
import PatVerif.Props.C19

/-!
# Lawful prefix codecs

A `Codec α` is an encoder, a prefix decoder (value + unread rest) and a well-formedness
predicate, together with the two laws every wire structure of pat-go is supposed to satisfy:

* `dec_enc` — decoding the encoding of a well-formed value (followed by anything) returns
  that value and leaves exactly what followed;
* `enc_dec` — whenever the decoder accepts `b`, the decoded value is well-formed and its
  canonical encoding plus the unread rest is no longer than `b`
  (so by `dec_enc` the canonical encoding decodes to the same value).

`Strict` is the stronger fact that holds for everything built from `cryptobyte` reads only:
an accepted `b` *is* the canonical encoding followed by the rest. It fails — correctly — for
QUIC-varint framing, whose decoder accepts non-minimal length prefixes.

The combinators mirror the calls the Go code is written with (`ReadUint16`/`AddUint16`,
`ReadBytes(n)`/`AddBytes`, `ReadUint{8,16}LengthPrefixed`, a constant tag check, the
hand-rolled varint framing). Laws are proved once per combinator; every message structure in
`Model/Structs.lean` is a composition.
-/
namespace PatVerif
set_option linter.unusedSimpArgs false

structure Codec (α : Type) where
  enc : α → Bytes
  dec : Bytes → Option (α × Bytes)
  wf : α → Prop
  dec_enc : ∀ a r, wf a → dec (enc a ++ r) = some (a, r)
  enc_dec : ∀ b a r, dec b = some (a, r) → wf a ∧ (enc a).length + r.length ≤ b.length

namespace Codec

/-- an accepted string is exactly the canonical encoding followed by the unread rest -/
def Strict {α : Type} (c : Codec α) : Prop := ∀ b a r, c.dec b = some (a, r) → b = c.enc a ++ r

/-- the derived "canonical re-encoding" statement of C04 -/
theorem canonical {α : Type} (c : Codec α) (b : Bytes) (a : α) (r : Bytes) (h : c.dec b = some (a, r)) :
    (c.enc a).length ≤ b.length ∧ c.dec (c.enc a) = some (a, []) := by
  have ⟨hw, hl⟩ := c.enc_dec b a r h
  refine ⟨by omega, ?_⟩
  have := c.dec_enc a [] hw
  simpa using this

/-- encodings of well-formed values determine the value -/
theorem enc_injective {α : Type} (c : Codec α) (a a' : α) (h : c.wf a) (h' : c.wf a') (e : c.enc a = c.enc a') : a = a' := by
  have d1 := c.dec_enc a [] h
  have d2 := c.dec_enc a' [] h'
  rw [e, d2] at d1
  simp at d1
  exact d1.symm

/-- `cryptobyte.String.read(n)`: the next `n` bytes -/
def readN (n : Nat) (s : Bytes) : Option (Bytes × Bytes) :=
  if n ≤ s.length then some (s.take n, s.drop n) else none

theorem readN_append (a r : Bytes) (n : Nat) (h : a.length = n) : readN n (a ++ r) = some (a, r) := by
  subst h; unfold readN; simp

theorem readN_some {n : Nat} {s a r : Bytes} (h : readN n s = some (a, r)) : s = a ++ r ∧ a.length = n := by
  unfold readN at h
  split at h
  · simp only [Option.some.injEq, Prod.mk.injEq] at h
    obtain ⟨rfl, rfl⟩ := h
    constructor
    · simp
    · simp; omega
  · simp at h

/-- `ReadUint8` / `AddUint8` -/
def u8 : Codec UInt8 where
  enc x := [x]
  dec
    | x :: r => some (x, r)
    | [] => none
  wf _ := True
  dec_enc := by intros; rfl
  enc_dec := by
    intro b a r h
    cases b with
    | nil => simp at h
    | cons x t => simp at h; obtain ⟨rfl, rfl⟩ := h; simp; omega

theorem u8_strict : u8.Strict := by
  intro b a r h
  cases b with
  | nil => simp [u8] at h
  | cons x t => simp [u8] at h; obtain ⟨rfl, rfl⟩ := h; simp [u8]

def encU16 (v : Nat) : Bytes := [UInt8.ofNat (v / 256), UInt8.ofNat v]

def decU16 : Bytes → Option (Nat × Bytes)
  | x :: y :: r => some (x.toNat * 256 + y.toNat, r)
  | _ => none

theorem decU16_enc (v : Nat) (r : Bytes) (h : v < 65536) : decU16 (encU16 v ++ r) = some (v, r) := by
  simp [decU16, encU16, UInt8.toNat_ofNat']; omega

theorem decU16_some {b r : Bytes} {v : Nat} (h : decU16 b = some (v, r)) : b = encU16 v ++ r ∧ v < 65536 := by
  match b, h with
  | x :: y :: t, h =>
    simp [decU16] at h
    obtain ⟨rfl, rfl⟩ := h
    have hx := x.toNat_lt
    have hy := y.toNat_lt
    refine ⟨?_, by omega⟩
    have e1 : UInt8.ofNat ((x.toNat * 256 + y.toNat) / 256) = x := by
      apply UInt8.toNat_inj.mp
      simp [UInt8.toNat_ofNat'] <;> omega
    have e2 : UInt8.ofNat (x.toNat * 256 + y.toNat) = y := by
      apply UInt8.toNat_inj.mp
      simp [UInt8.toNat_ofNat'] <;> omega
    simp [encU16, e1, e2]

/-- `ReadUint16` / `AddUint16` (big-endian) -/
def u16 : Codec Nat where
  enc := encU16
  dec := decU16
  wf v := v < 65536
  dec_enc := fun a r h => decU16_enc a r h
  enc_dec := by
    intro b a r h
    have ⟨hb, hv⟩ := decU16_some h
    subst hb
    exact ⟨hv, by simp⟩

theorem u16_strict : u16.Strict := fun _ _ _ h => (decU16_some h).1

/-- `ReadBytes(&f, n)` / `AddBytes(f)` for a field of fixed width `n` -/
def fixed (n : Nat) : Codec Bytes where
  enc v := v
  dec s := readN n s
  wf v := v.length = n
  dec_enc := by intro a r h; exact readN_append a r n h
  enc_dec := by
    intro b a r h
    have ⟨hb, hl⟩ := readN_some h
    subst hb
    exact ⟨hl, by simp⟩

theorem fixed_strict (n : Nat) : (fixed n).Strict := fun _ _ _ h => (readN_some h).1

/-- a constant 16-bit tag: `ReadUint16(&t) && t == v` / `AddUint16(v)` -/
def tag16 (v : Nat) (hv : v < 65536) : Codec Unit where
  enc _ := encU16 v
  dec s :=
    match decU16 s with
    | some (t, r) => if t = v then some ((), r) else none
    | none => none
  wf _ := True
  dec_enc := by
    intro a r _
    simp [decU16_enc v r hv]
  enc_dec := by
    intro b a r h
    split at h
    · rename_i t r' hd
      split at h
      · rename_i ht
        simp at h; subst h; subst ht
        have ⟨hb, _⟩ := decU16_some hd
        subst hb
        simp
      · simp at h
    · simp at h

theorem tag16_strict (v : Nat) (hv : v < 65536) : (tag16 v hv).Strict := by
  intro b a r h
  simp only [tag16] at h ⊢
  split at h
  · rename_i t r' hd
    split at h
    · rename_i ht
      simp at h; subst h; subst ht
      exact (decU16_some hd).1
    · simp at h
  · simp at h

/-- `ReadUint16LengthPrefixed` / `AddUint16LengthPrefixed`; `nonEmpty` adds the `x.Empty()`
rejection some decoders apply -/
def vec16 (nonEmpty : Bool) : Codec Bytes where
  enc v := encU16 v.length ++ v
  dec s :=
    match decU16 s with
    | some (n, r) =>
      match readN n r with
      | some (v, r') => if nonEmpty && v.isEmpty then none else some (v, r')
      | none => none
    | none => none
  wf v := v.length < 65536 ∧ (nonEmpty = true → v ≠ [])
  dec_enc := by
    intro a r ⟨h1, h2⟩
    rw [List.append_assoc, decU16_enc _ _ h1]
    simp only [readN_append a r a.length rfl]
    cases nonEmpty with
    | false => simp
    | true => simp [h2 rfl]
  enc_dec := by
    intro b a r h
    split at h
    · rename_i n r1 hd
      split at h
      · rename_i v r2 hr
        have ⟨hb, hn⟩ := decU16_some hd
        have ⟨hr1, hl⟩ := readN_some hr
        split at h
        · simp at h
        · rename_i hne
          simp at h; obtain ⟨rfl, rfl⟩ := h
          subst hb; subst hr1
          refine ⟨⟨by omega, ?_⟩, by simp [encU16]; omega⟩
          intro hT; subst hT
          intro hv; subst hv
          simp at hne
      · simp at h
    · simp at h

theorem vec16_strict (ne : Bool) : (vec16 ne).Strict := by
  intro b a r h
  simp only [vec16] at h ⊢
  split at h
  · rename_i n r1 hd
    split at h
    · rename_i v r2 hr
      have ⟨hb, hn⟩ := decU16_some hd
      have ⟨hr1, hl⟩ := readN_some hr
      split at h
      · simp at h
      · simp at h; obtain ⟨rfl, rfl⟩ := h
        subst hb; subst hr1; subst hl
        simp
    · simp at h
  · simp at h

/-- `ReadUint8LengthPrefixed` / `AddUint8LengthPrefixed` -/
def vec8 : Codec Bytes where
  enc v := UInt8.ofNat v.length :: v
  dec s :=
    match s with
    | n :: r => readN n.toNat r
    | [] => none
  wf v := v.length < 256
  dec_enc := by
    intro a r h
    have : a.length % 256 = a.length := by omega
    simp [UInt8.toNat_ofNat', this, readN_append a r a.length rfl]
  enc_dec := by
    intro b a r h
    match b, h with
    | n :: t, h =>
      simp at h
      have ⟨ht, hl⟩ := readN_some h
      subst ht
      have := n.toNat_lt
      exact ⟨by show _ < 256; omega, by simp; omega⟩

theorem vec8_strict : vec8.Strict := by
  intro b a r h
  match b, h with
  | n :: t, h =>
    simp [vec8] at h ⊢
    have ⟨ht, hl⟩ := readN_some h
    subst ht
    simp only [List.cons.injEq, and_true]
    apply UInt8.toNat_inj.mp
    have := n.toNat_lt
    simp [UInt8.toNat_ofNat', hl] <;> omega

/-- sequence of two fields -/
def pair {α β : Type} (c1 : Codec α) (c2 : Codec β) : Codec (α × β) where
  enc p := c1.enc p.1 ++ c2.enc p.2
  dec s :=
    match c1.dec s with
    | some (a, r1) =>
      match c2.dec r1 with
      | some (b, r2) => some ((a, b), r2)
      | none => none
    | none => none
  wf p := c1.wf p.1 ∧ c2.wf p.2
  dec_enc := by
    intro p r ⟨h1, h2⟩
    rw [List.append_assoc, c1.dec_enc _ _ h1]
    simp [c2.dec_enc _ _ h2]
  enc_dec := by
    intro b p r h
    split at h
    · rename_i a r1 h1
      split at h
      · rename_i b' r2 h2
        simp at h; obtain ⟨rfl, rfl⟩ := h
        have ⟨w1, l1⟩ := c1.enc_dec _ _ _ h1
        have ⟨w2, l2⟩ := c2.enc_dec _ _ _ h2
        exact ⟨⟨w1, w2⟩, by simp; omega⟩
      · simp at h
    · simp at h

theorem pair_strict {α β : Type} {c1 : Codec α} {c2 : Codec β} (s1 : c1.Strict) (s2 : c2.Strict) :
    (pair c1 c2).Strict := by
  intro b p r h
  simp only [pair] at h ⊢
  split at h
  · rename_i a r1 h1
    split at h
    · rename_i b' r2 h2
      simp at h; obtain ⟨rfl, rfl⟩ := h
      rw [s1 _ _ _ h1, s2 _ _ _ h2]; simp
    · simp at h
  · simp at h

infixr:35 " ⊗ " => pair

/-- a field whose layout depends on a tag read before it (`switch token_type { … }`) -/
def sigma {α β : Type} (c1 : Codec α) (c2 : α → Codec β) : Codec (α × β) where
  enc p := c1.enc p.1 ++ (c2 p.1).enc p.2
  dec s :=
    match c1.dec s with
    | some (a, r1) =>
      match (c2 a).dec r1 with
      | some (b, r2) => some ((a, b), r2)
      | none => none
    | none => none
  wf p := c1.wf p.1 ∧ (c2 p.1).wf p.2
  dec_enc := by
    intro p r ⟨h1, h2⟩
    rw [List.append_assoc, c1.dec_enc _ _ h1]
    simp [(c2 p.1).dec_enc _ _ h2]
  enc_dec := by
    intro b p r h
    split at h
    · rename_i a r1 h1
      split at h
      · rename_i b' r2 h2
        simp at h; obtain ⟨rfl, rfl⟩ := h
        have ⟨w1, l1⟩ := c1.enc_dec _ _ _ h1
        have ⟨w2, l2⟩ := (c2 a).enc_dec _ _ _ h2
        exact ⟨⟨w1, w2⟩, by simp; omega⟩
      · simp at h
    · simp at h

theorem sigma_strict {α β : Type} {c1 : Codec α} {c2 : α → Codec β} (s1 : c1.Strict) (s2 : ∀ a, (c2 a).Strict) :
    (sigma c1 c2).Strict := by
  intro b p r h
  simp only [sigma] at h ⊢
  split at h
  · rename_i a r1 h1
    split at h
    · rename_i b' r2 h2
      simp at h; obtain ⟨rfl, rfl⟩ := h
      rw [s1 _ _ _ h1, s2 _ _ _ _ h2]; simp
    · simp at h
  · simp at h

/-- the codec that accepts nothing (unknown tag) -/
def fail {α : Type} (dflt : Bytes) : Codec α where
  enc _ := dflt
  dec _ := none
  wf _ := False
  dec_enc := by intro _ _ h; exact absurd h id
  enc_dec := by intro _ _ _ h; simp at h

theorem fail_strict {α : Type} (d : Bytes) : (fail d : Codec α).Strict := by
  intro _ _ _ h; simp [fail] at h

/-- the empty field -/
def unit : Codec Unit where
  enc _ := []
  dec s := some ((), s)
  wf _ := True
  dec_enc := by intros; rfl
  enc_dec := by intro b a r h; simp at h; subst h; simp

theorem unit_strict : unit.Strict := by
  intro b a r h; simp [unit] at h ⊢; exact h

/-- transport along a bijection between the well-formed values -/
def iso {α β : Type} (c : Codec α) (f : α → β) (g : β → α) (wfβ : β → Prop)
    (hgf : ∀ a, c.wf a → g (f a) = a ∧ wfβ (f a))
    (hfg : ∀ b, wfβ b → f (g b) = b ∧ c.wf (g b)) : Codec β where
  enc b := c.enc (g b)
  dec s :=
    match c.dec s with
    | some (a, r) => some (f a, r)
    | none => none
  wf := wfβ
  dec_enc := by
    intro b r h
    have ⟨e, w⟩ := hfg b h
    simp [c.dec_enc _ r w, e]
  enc_dec := by
    intro s b r h
    split at h
    · rename_i a r' hd
      simp at h; obtain ⟨rfl, rfl⟩ := h
      have ⟨w, l⟩ := c.enc_dec _ _ _ hd
      have ⟨e, w'⟩ := hgf a w
      exact ⟨w', by rw [e]; exact l⟩
    · simp at h

theorem iso_strict {α β : Type} {c : Codec α} {f : α → β} {g : β → α} {wfβ : β → Prop}
    {hgf : ∀ a, c.wf a → g (f a) = a ∧ wfβ (f a)} {hfg : ∀ b, wfβ b → f (g b) = b ∧ c.wf (g b)}
    (s : c.Strict) : (iso c f g wfβ hgf hfg).Strict := by
  intro b x r h
  simp only [iso] at h ⊢
  split at h
  · rename_i a r' hd
    simp at h; obtain ⟨rfl, rfl⟩ := h
    have ⟨w, _⟩ := c.enc_dec _ _ _ hd
    rw [(hgf a w).1]
    exact s _ _ _ hd
  · simp at h

/-- restrict the accepted values by a decidable predicate checked after parsing -/
def filter {α : Type} (c : Codec α) (p : α → Bool) : Codec α where
  enc := c.enc
  dec s :=
    match c.dec s with
    | some (a, r) => if p a then some (a, r) else none
    | none => none
  wf a := c.wf a ∧ p a = true
  dec_enc := by
    intro a r ⟨h1, h2⟩
    simp [c.dec_enc _ r h1, h2]
  enc_dec := by
    intro s a r h
    split at h
    · rename_i a' r' hd
      split at h
      · rename_i hp
        simp at h; obtain ⟨rfl, rfl⟩ := h
        have ⟨w, l⟩ := c.enc_dec _ _ _ hd
        exact ⟨⟨w, hp⟩, l⟩
      · simp at h
    · simp at h

theorem filter_strict {α : Type} {c : Codec α} (p : α → Bool) (s : c.Strict) : (filter c p).Strict := by
  intro b a r h
  simp only [filter] at h ⊢
  split at h
  · rename_i a' r' hd
    split at h
    · simp at h; obtain ⟨rfl, rfl⟩ := h; exact s _ _ _ hd
    · simp at h
  · simp at h

/-- QUIC-varint length prefix followed by that many bytes (`quicwire.AppendVarint(len)` +
`AddBytes`; `quicwire.ConsumeVarint` + bounded read). Not `Strict`: the prefix may be
non-minimal. -/
def varBytes : Codec Bytes where
  enc v := Quicwire.encode v.length ++ v
  dec s :=
    let p := Quicwire.consumeVarint s
    if p.2 < 0 then none
    else
      let body := s.drop p.2.toNat
      if p.1 > body.length then none
      else some (body.take p.1, body.drop p.1)
  wf v := v.length ≤ Quicwire.maxVarint
  dec_enc := by
    intro a r h
    have hc := Props.C19.consume_encode a.length (a ++ r) h
    have hl := (Props.C19.size_spec a.length h).2
    rw [List.append_assoc]
    simp only [hc]
    have hpos : ¬ ((Quicwire.encLen a.length : Nat) : Int) < 0 := by omega
    simp only [hpos, ite_false, Int.toNat_natCast]
    have hdrop : List.drop (Quicwire.encLen a.length) (Quicwire.encode a.length ++ (a ++ r)) = a ++ r := by
      rw [← hl]; simp
    simp [hdrop]
  enc_dec := by
    intro s a r h
    simp only at h
    split at h
    · simp at h
    · rename_i hn
      split at h
      · simp at h
      · rename_i hsz
        simp only [Option.some.injEq, Prod.mk.injEq] at h
        obtain ⟨rfl, rfl⟩ := h
        have hn' : (Quicwire.consumeVarint s).2 ≠ -1 := by
          intro e; rw [e] at hn; simp at hn
        have ⟨hmax, hle, _⟩ := Props.C19.reencode_shorter s hn'
        cases s with
        | nil => simp [Quicwire.consumeVarint] at hn'
        | cons b0 t =>
          have hfail := (not_congr (Props.C19.consume_fail_iff (b0 :: t))).mp hn'
          have ⟨h1, _⟩ := Props.C19.consume_ok_spec b0 t hn'
          have hlen : Quicwire.prefixLen b0 ≤ (b0 :: t).length := by
            apply Nat.le_of_not_lt
            intro hlt
            exact hfail (Or.inr ⟨b0, t, rfl, hlt⟩)
          rw [h1] at hsz hle ⊢
          simp only [Int.toNat_natCast, List.length_drop] at hsz ⊢
          have hl := (Props.C19.size_spec _ hmax).2
          have htake : (List.take (Quicwire.consumeVarint (b0 :: t)).1 (List.drop (Quicwire.prefixLen b0) (b0 :: t))).length
              = (Quicwire.consumeVarint (b0 :: t)).1 := by
            simp only [List.length_take, List.length_drop]; omega
          constructor
          · show _ ≤ Quicwire.maxVarint
            rw [htake]; exact hmax
          · simp only [List.length_append, htake, hl, List.length_drop]
            omega

end Codec

/-- A codec for a *whole* buffer (a decoder that ends with `s.Empty()` or walks a list until its
input is exhausted). -/
structure ExactCodec (α : Type) where
  enc : α → Bytes
  dec : Bytes → Option α
  wf : α → Prop
  dec_enc : ∀ a, wf a → dec (enc a) = some a
  enc_dec : ∀ b a, dec b = some a → wf a ∧ (enc a).length ≤ b.length

/-- an accepted buffer is exactly the canonical encoding -/
def ExactCodec.Strict {α : Type} (c : ExactCodec α) : Prop := ∀ b a, c.dec b = some a → b = c.enc a

namespace Codec

/-- a prefix codec followed by the trailing-data check `s.Empty()` -/
def exact {α : Type} (c : Codec α) : ExactCodec α where
  enc := c.enc
  dec b :=
    match c.dec b with
    | some (a, []) => some a
    | _ => none
  wf := c.wf
  dec_enc := by
    intro a h
    have := c.dec_enc a [] h
    simp at this
    simp [this]
  enc_dec := by
    intro b a h
    split at h
    · rename_i a' hd
      simp at h; subst h
      have ⟨w, l⟩ := c.enc_dec _ _ _ hd
      exact ⟨w, by simpa using l⟩
    · simp at h

/-- walk a list of elements until the buffer is exhausted; every step must consume something -/
def manyDec {α : Type} (c : Codec α) : Nat → Bytes → Option (List α)
  | _, [] => some []
  | 0, _ :: _ => none
  | fuel + 1, b@(_ :: _) =>
    match c.dec b with
    | some (a, r) =>
      if r.length < b.length then
        match manyDec c fuel r with
        | some as => some (a :: as)
        | none => none
      else none
    | none => none

def manyEnc {α : Type} (c : Codec α) : List α → Bytes
  | [] => []
  | a :: as => c.enc a ++ manyEnc c as

theorem manyDec_enc {α : Type} (c : Codec α) (as : List α)
    (hw : ∀ a ∈ as, c.wf a ∧ 0 < (c.enc a).length) :
    ∀ fuel, (manyEnc c as).length ≤ fuel → manyDec c fuel (manyEnc c as) = some as := by
  induction as with
  | nil => intro fuel _; cases fuel <;> simp [manyEnc, manyDec]
  | cons a as ih =>
    intro fuel hf
    have ⟨wa, pa⟩ := hw a (by simp)
    have hlen : (manyEnc c (a :: as)).length = (c.enc a).length + (manyEnc c as).length := by
      simp [manyEnc]
    cases fuel with
    | zero => omega
    | succ fuel =>
      cases hb : manyEnc c (a :: as) with
      | nil => rw [hb] at hlen; simp at hlen; omega
      | cons x t =>
        have hd : c.dec (manyEnc c (a :: as)) = some (a, manyEnc c as) := c.dec_enc a _ wa
        have hlt : (manyEnc c as).length < (manyEnc c (a :: as)).length := by omega
        have ih' := ih (fun a' h' => hw a' (by simp [h'])) fuel (by omega)
        simp only [manyDec]
        rw [← hb, hd]
        simp [hlt, ih']

theorem manyDec_some {α : Type} (c : Codec α) :
    ∀ fuel b as, manyDec c fuel b = some as →
      (∀ a ∈ as, c.wf a) ∧ (manyEnc c as).length ≤ b.length := by
  intro fuel
  induction fuel with
  | zero =>
    intro b as h
    cases b with
    | nil => simp [manyDec] at h; subst h; simp [manyEnc]
    | cons x t => simp [manyDec] at h
  | succ fuel ih =>
    intro b as h
    cases b with
    | nil => simp [manyDec] at h; subst h; simp [manyEnc]
    | cons x t =>
      simp only [manyDec] at h
      split at h
      · rename_i a r hd
        split at h
        · split at h
          · rename_i as' hm
            simp at h; subst h
            have ⟨w, l⟩ := c.enc_dec _ _ _ hd
            have ⟨ws, ls⟩ := ih r as' hm
            constructor
            · intro a' ha'
              simp at ha'
              rcases ha' with rfl | ha'
              · exact w
              · exact ws a' ha'
            · simp [manyEnc] at l ⊢; omega
          · simp at h
        · simp at h
      · simp at h

theorem manyDec_strict {α : Type} (c : Codec α) (hs : c.Strict) :
    ∀ fuel b as, manyDec c fuel b = some as → b = manyEnc c as := by
  intro fuel
  induction fuel with
  | zero =>
    intro b as h
    cases b with
    | nil => simp [manyDec] at h; subst h; simp [manyEnc]
    | cons x t => simp [manyDec] at h
  | succ fuel ih =>
    intro b as h
    cases b with
    | nil => simp [manyDec] at h; subst h; simp [manyEnc]
    | cons x t =>
      simp only [manyDec] at h
      split at h
      · rename_i a r hd
        split at h
        · split at h
          · rename_i as' hm
            simp at h; subst h
            rw [hs _ _ _ hd, ih r as' hm]
            simp [manyEnc]
          · simp at h
        · simp at h
      · simp at h

theorem exact_strict {α : Type} {c : Codec α} (hs : c.Strict) : (exact c).Strict := by
  intro b a h
  simp only [exact] at h ⊢
  split at h
  · rename_i a' hd
    simp at h; subst h
    simpa using hs _ _ _ hd
  · simp at h

/-- the element list of a buffer: elements are well-formed and have non-empty encodings -/
def many {α : Type} (c : Codec α) (hpos : ∀ a, c.wf a → 0 < (c.enc a).length) : ExactCodec (List α) where
  enc := manyEnc c
  dec b := manyDec c b.length b
  wf as := ∀ a ∈ as, c.wf a
  dec_enc := by
    intro as h
    exact manyDec_enc c as (fun a ha => ⟨h a ha, hpos a (h a ha)⟩) _ (Nat.le_refl _)
  enc_dec := by
    intro b as h
    exact manyDec_some c _ b as h

theorem many_strict {α : Type} {c : Codec α} (hpos : ∀ a, c.wf a → 0 < (c.enc a).length) (hs : c.Strict) :
    (many c hpos).Strict := fun b as h => manyDec_strict c hs _ b as h

end Codec

namespace ExactCodec

/-- an exact inner structure carried inside a length-delimited field -/
def within {α : Type} (outer : Codec Bytes) (inner : ExactCodec α) (hs : inner.Strict) : Codec α where
  enc a := outer.enc (inner.enc a)
  dec s :=
    match outer.dec s with
    | some (body, r) =>
      match inner.dec body with
      | some a => some (a, r)
      | none => none
    | none => none
  wf a := inner.wf a ∧ outer.wf (inner.enc a)
  dec_enc := by
    intro a r ⟨h1, h2⟩
    simp [outer.dec_enc _ r h2, inner.dec_enc _ h1]
  enc_dec := by
    intro s a r h
    split at h
    · rename_i body r' ho
      split at h
      · rename_i a' hi
        simp at h; obtain ⟨rfl, rfl⟩ := h
        have ⟨wo, lo⟩ := outer.enc_dec _ _ _ ho
        have ⟨wi, _⟩ := inner.enc_dec _ _ hi
        have e := hs _ _ hi
        subst e
        exact ⟨⟨wi, wo⟩, lo⟩
      · simp at h
    · simp at h

def iso {α β : Type} (c : ExactCodec α) (f : α → β) (g : β → α) (wfβ : β → Prop)
    (hgf : ∀ a, c.wf a → g (f a) = a ∧ wfβ (f a))
    (hfg : ∀ b, wfβ b → f (g b) = b ∧ c.wf (g b)) : ExactCodec β where
  enc b := c.enc (g b)
  dec s :=
    match c.dec s with
    | some a => some (f a)
    | none => none
  wf := wfβ
  dec_enc := by
    intro b h
    have ⟨e, w⟩ := hfg b h
    simp [c.dec_enc _ w, e]
  enc_dec := by
    intro s b h
    split at h
    · rename_i a hd
      simp at h; subst h
      have ⟨w, l⟩ := c.enc_dec _ _ hd
      have ⟨e, w'⟩ := hgf a w
      exact ⟨w', by rw [e]; exact l⟩
    · simp at h

end ExactCodec
end PatVerif
