import PatVerif.Model.Structs
/-!
# Token issuance: the client/issuer glue of types 1, 2, 3 and 5 over an abstract blind-evaluation
scheme

`Scheme` collects what the Go code delegates to circl (`oprf`, `blindrsa`) and the standard library:
blinding, issuer evaluation, unblinding and the validity predicate of an authenticator; `Scheme.Laws`
is the contract of those primitives, a hypothesis of the theorems (`complete`: an honest run unblinds to *the*
authenticator `authOf sk input salt`, which is valid and `nk` bytes long). Everything the
repository itself does — building the token input, truncating the key id, framing the request,
crossing the wire, splicing the authenticator onto the token input and re-parsing it — is
modelled exactly.
-/
namespace PatVerif.Issuance
open PatVerif Codec Structs

structure Scheme where
  ty : Nat
  nk : Nat
  /-- width of a blinded message on the wire (49: P-384 element, 256: RSA-2048, 32: ristretto255) -/
  nb : Nat
  Sk : Type
  /-- public key of a secret key, as the client holds it -/
  pk : Sk → Bytes
  /-- client blinding of the token input under fresh randomness: blinded message and unblinding state -/
  blind : Bytes → Bytes → Bytes → Option (Bytes × Bytes)
  /-- issuer evaluation of a blinded message under its own randomness -/
  evaluate : Sk → Bytes → Bytes → Option Bytes
  /-- client unblinding of a response, checking whatever the primitive checks -/
  finalize : Bytes → Bytes → Bytes → Bytes → Option Bytes
  /-- "the authenticator verifies under this key" -/
  valid : Bytes → Bytes → Bytes → Bool
  /-- the authenticator of an input (the VOPRF output; the PSS signature for the salt in `rnd`) -/
  authOf : Sk → Bytes → Bytes → Bytes

/-- the contract of the primitives -/
structure Scheme.Laws (S : Scheme) : Prop where
  blind_len : ∀ k i r bm st, S.blind k i r = some (bm, st) → bm.length = S.nb
  /-- the issuer can evaluate every honestly blinded message -/
  evaluate_ok : ∀ sk i r r' bm st, S.blind (S.pk sk) i r = some (bm, st) → (S.evaluate sk bm r').isSome = true
  complete : ∀ sk i r r' bm st resp, S.blind (S.pk sk) i r = some (bm, st) → S.evaluate sk bm r' = some resp →
    S.finalize (S.pk sk) i st resp = some (S.authOf sk i r) ∧ S.valid (S.pk sk) i (S.authOf sk i r) = true ∧
    (S.authOf sk i r).length = S.nk

variable (S : Scheme) (H : Bytes → Bytes)

/-- `Token.AuthenticatorInput` of the token under construction: type ‖ nonce ‖ SHA-256(challenge) ‖ key id -/
def tokenInput (challenge nonce keyId : Bytes) : Bytes :=
  encU16 S.ty ++ nonce ++ H challenge ++ keyId

structure ClientState where
  tokenInput : Bytes
  pk : Bytes
  secret : Bytes

/-- `CreateTokenRequest`: the request carries the *last* byte of the key id -/
def createRequest (pkEnc challenge nonce keyId rnd : Bytes) : Option (ClientState × BasicReq) :=
  match S.blind pkEnc (tokenInput S H challenge nonce keyId) rnd with
  | none => none
  | some (bm, st) => some (⟨tokenInput S H challenge nonce keyId, pkEnc, st⟩, ⟨keyId.getLast?.getD 0, bm⟩)

/-- the request codec of this type (types 1 and 2: tag, key id byte, blinded message) -/
def reqCodec (hty : S.ty < 65536) : Codec BasicReq := basicReqCodec S.ty hty S.nb

/-- issuer `Evaluate` on a decoded request -/
def issuerEvaluate (sk : S.Sk) (req : BasicReq) (rnd : Bytes) : Option Bytes := S.evaluate sk req.blinded rnd

/-- `FinalizeToken`: unblind, splice onto the token input, re-parse as a token of this type's width
(types 2 and 3 re-verify the signature afterwards: `recheck`) -/
def clientFinalize (recheck : Bool) (st : ClientState) (resp : Bytes) : Option Token :=
  match S.finalize st.pk st.tokenInput st.secret resp with
  | none => none
  | some a =>
    match (tokenCodec S.nk).dec (st.tokenInput ++ a) with
    | none => none
    | some (t, _) => if recheck && !S.valid st.pk t.authInput t.auth then none else some t

/-- issuer-side `Verify` (types 1 and 5): recompute the authenticator of the token's own fields -/
def issuerVerify (sk : S.Sk) (t : Token) : Bool := S.authOf sk t.authInput [] == t.auth

end PatVerif.Issuance
