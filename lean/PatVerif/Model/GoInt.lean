/-!
# Go `int64` arithmetic as used by the translated limb code (`Generated/ScLimbs.lean`)

Values are unbounded `Int`. Every `+`, `-`, `*` and `<<` of the source comes with a generated side
condition `inI64` on its result, and every `|` with non-negativity of its operands; where those hold,
Go's two's-complement evaluation and the definitions below agree:

* `x >> k` on a signed integer is the arithmetic shift, i.e. floor division by `2^k`;
* `x << k` is multiplication by `2^k` (no wrap, by the side condition);
* `x & (2^j - 1)` keeps the low `j` bits of the two's-complement representation, i.e. `x mod 2^j` (non-negative);
* `x | y` for non-negative `x`, `y` is the bitwise or of the naturals;
* `byte(x)` is `x mod 256`.
-/
namespace PatVerif.Go

def inI64 (x : Int) : Prop := -9223372036854775808 ≤ x ∧ x ≤ 9223372036854775807

def ishr (x : Int) (k : Nat) : Int := x / (2 ^ k : Int)
def ishl (x : Int) (k : Nat) : Int := x * (2 ^ k : Int)
/-- `x & (2^j - 1)` -/
def iand (j : Nat) (x : Int) : Int := x % (2 ^ j : Int)
def ior (x y : Int) : Int := Int.ofNat (x.toNat ||| y.toNat)
def toByte (x : Int) : Int := x % 256

end PatVerif.Go
