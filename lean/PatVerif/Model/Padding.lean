import PatVerif.Model.Structs
/-!
# Origin-name padding (tokens/type3/client.go:36-55) and the size of a type-3 request

`padLen` is Go's `31 - ((len - 1) % 32)` with the truncated remainder of signed `int`
(`Int.tmod`), so the empty name gets 32 bytes of padding.
-/
namespace PatVerif.Padding
open PatVerif

def padLen (n : Nat) : Nat := (31 - ((n : Int) - 1).tmod 32).toNat

/-- `padOriginName` -/
def pad (s : Bytes) : Bytes := s ++ List.replicate (padLen s.length) 0

/-- strip leading zeros (used on the reversed name) -/
def stripZeros : Bytes → Bytes
  | [] => []
  | x :: r => if x = 0 then stripZeros r else x :: r

/-- `unpadOriginName`: drop every trailing zero byte (the Go loop walks down from the last index
until it meets a non-zero byte or runs off the front) -/
def unpad (p : Bytes) : Bytes := (stripZeros p.reverse).reverse

/-- number of 32-byte blocks needed to hold a name of `n` bytes (one block for the empty name) -/
def blocks (n : Nat) : Nat := if n = 0 then 1 else (n + 31) / 32

/-- wire size of a type-3 TokenRequest whose inner request carries `padded` origin bytes:
2 (type) + 49 (request key) + 32 (name key id) + 2 (length prefix) +
[32 (HPKE enc) + (1 + 256 + 2 + padded) (inner request) + 16 (AEAD tag)] + 96 (signature) -/
def requestSize (padded : Nat) : Nat := 2 + 49 + 32 + 2 + (32 + (1 + 256 + 2 + padded) + 16) + 96

end PatVerif.Padding
