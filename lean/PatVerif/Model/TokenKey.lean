import PatVerif.Model.DER
import PatVerif.Model.Structs
/-!
# RSA token keys as SubjectPublicKeyInfo (util/x509util.go) and key identifiers

`spkiPSS` is what `MarshalTokenKeyPSSOID` builds with nested `AddASN1` calls; `spkiLegacy` is
`x509.MarshalPKIXPublicKey` for an RSA key; `unmarshalTokenKey` is the tolerant reader
(`UnmarshalTokenKey`): it skips the AlgorithmIdentifier and ignores trailing bytes at every level.
-/
namespace PatVerif.TokenKey
open PatVerif DER

/-- OBJECT IDENTIFIER contents -/
def oidRsaPss : Bytes := [0x2a, 0x86, 0x48, 0x86, 0xf7, 0x0d, 0x01, 0x01, 0x0a]
def oidSha384 : Bytes := [0x60, 0x86, 0x48, 0x01, 0x65, 0x03, 0x04, 0x02, 0x02]
def oidMgf1 : Bytes := [0x2a, 0x86, 0x48, 0x86, 0xf7, 0x0d, 0x01, 0x01, 0x08]
def oidRsaEncryption : Bytes := [0x2a, 0x86, 0x48, 0x86, 0xf7, 0x0d, 0x01, 0x01, 0x01]

/-- the AlgorithmIdentifier built by `MarshalTokenKeyPSSOID` (x509util.go:68-88):
rsassaPss with SHA-384, MGF1-SHA-384 and salt length 48 -/
def algIdPSS : Bytes :=
  tlv 0x30 (tlv 6 oidRsaPss ++
    tlv 0x30 (tlv 0xa0 (tlv 0x30 (tlv 6 oidSha384)) ++
              tlv 0xa1 (tlv 0x30 (tlv 6 oidMgf1 ++ tlv 0x30 (tlv 6 oidSha384))) ++
              tlv 0xa2 (derNat 48)))

/-- rsaEncryption with NULL parameters -/
def algIdLegacy : Bytes := tlv 0x30 (tlv 6 oidRsaEncryption ++ [5, 0])

/-- `RSAPublicKey ::= SEQUENCE { modulus INTEGER, publicExponent INTEGER }` -/
def rsaPublicKey (n e : Nat) : Bytes := tlv 0x30 (derNat n ++ derNat e)

def spki (algId : Bytes) (n e : Nat) : Bytes := tlv 0x30 (algId ++ tlv 3 (0 :: rsaPublicKey n e))

def spkiPSS (n e : Nat) : Bytes := spki algIdPSS n e
def spkiLegacy (n e : Nat) : Bytes := spki algIdLegacy n e

/-- `BitString.RightAlign` -/
def rightAlign (bits : Bytes) (pad : Nat) : Bytes :=
  if pad = 0 ∨ bits = [] then bits else beBytes bits.length (beNat bits / 2 ^ pad)

/-- `ReadASN1BitString` followed by `RightAlign` -/
def readBitString (s : Bytes) : Option (Bytes × Bytes) :=
  match readTagged 3 s with
  | some (pad :: bits, r) =>
    if pad.toNat > 7 then none
    else if bits = [] ∧ pad.toNat ≠ 0 then none
    else if bits ≠ [] ∧ (bits.getLast?.getD 0).toNat % 2 ^ pad.toNat ≠ 0 then none
    else some (rightAlign bits pad.toNat, r)
  | _ => none

/-- `ReadASN1Integer(&int)`: at most 8 content octets -/
def readInt64 (s : Bytes) : Option (Int × Bytes) :=
  match readTagged 2 s with
  | some (c, r) => if minimalInt c ∧ c.length ≤ 8 then some (twosComplement c, r) else none
  | none => none

/-- `UnmarshalTokenKey` -/
def unmarshalTokenKey (data : Bytes) : Option (Int × Int) :=
  match readTagged 0x30 data with
  | none => none
  | some (seq, _) =>
    match readTagged 0x30 seq with
    | none => none
    | some (_, r1) =>
      match readBitString r1 with
      | none => none
      | some (bits, _) =>
        match readTagged 0x30 bits with
        | none => none
        | some (der, _) =>
          match readInteger der with
          | none => none
          | some (n, r2) =>
            match readInt64 r2 with
            | none => none
            | some (e, _) => some (n, e)

end PatVerif.TokenKey
