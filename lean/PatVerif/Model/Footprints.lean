import PatVerif.Basic
/-!
# Shared-memory footprints of concurrent calls

A call on a shared object is abstracted to the sequence of its accesses to shared locations:
plain reads, plain writes, and `sync.Once`-guarded initialisation (`once l v`: the first executor
stores `v`, everybody observes `v`). Per-call state (servers, signers, buffers created inside the
call) is not shared and does not appear. An execution is any interleaving of the calls' accesses.
-/
namespace PatVerif.Footprints

abbrev Loc := Nat
abbrev Val := Nat

inductive Act where
  | rd (l : Loc)
  | wr (l : Loc) (v : Val)
  | once (l : Loc) (v : Val)
  deriving Repr, DecidableEq

abbrev Store := Loc → Option Val

def Act.loc : Act → Loc
  | .rd l => l
  | .wr l _ => l
  | .once l _ => l

/-- a plain (unsynchronised) write -/
def Act.isPlainWrite : Act → Bool
  | .wr _ _ => true
  | _ => false

def Act.isPlain : Act → Bool
  | .once _ _ => false
  | _ => true

/-- one access: new store and the value observed -/
def step (σ : Store) : Act → Store × Option Val
  | .rd l => (σ, σ l)
  | .wr l v => (fun l' => if l' = l then some v else σ l', some v)
  | .once l v =>
    match σ l with
    | some w => (σ, some w)
    | none => (fun l' => if l' = l then some v else σ l', some v)

/-- run a sequence of accesses (an interleaving, flattened), collecting what each observed -/
def run (σ : Store) : List Act → Store × List (Option Val)
  | [] => (σ, [])
  | a :: as =>
    let r := step σ a
    let rest := run r.1 as
    (rest.1, r.2 :: rest.2)

/-- two accesses of different calls conflict (a data race, there being no ordering between calls)
when they touch the same location, at least one is a plain write, and they are not both
`Once`-guarded -/
def conflict (a b : Act) : Bool :=
  a.loc = b.loc && (a.isPlainWrite || b.isPlainWrite) && (a.isPlain || b.isPlain)

def racy (t1 t2 : List Act) : Bool := t1.any fun a => t2.any fun b => conflict a b

end PatVerif.Footprints
