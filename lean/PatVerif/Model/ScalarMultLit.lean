import PatVerif.Generated.EdPoints
import PatVerif.Model.Recode
/-!
# `scalarmult.go` and `tables.go`, statement by statement, over the translated point formulas (C14, C15)

`Generated/EdPoints.lean` is the translation of `edwards25519.go`; `scalarmult.go` and `tables.go` only call it. This file
transcribes those two files by hand, one `let` per Go statement, with the translated functions at the call sites: the four
`FromP3` of the lookup tables, the four `SelectInto` (the constant-time ones with their `int8` sign trick, `ConstantTimeByteEq`
and the eight `Select`s), `basepointTable`, `ScalarBaseMult`, `ScalarMult`, `VarTimeDoubleScalarBaseMult`. Receivers that the Go code
reuses (`tmp1`, `tmp2`, `multiple`, `tmpP3`) are passed as zero values: every translated function overwrites all fields of its
receiver. The Go text these definitions follow is pinned by `Proofs/SkelScalarMult.lean`. `scdriver` runs them — translated
decoder → literal recoding (`Model/Recode.lean`) → these loops → translated encoder — against the Go code on every `c14.sm`
operation, so the whole multiplication path below the exported API is executed from translated or literally transcribed code.
(`Model/ScalarMultAlg.lean` is the same pattern over an abstract group, about which the theorems are.) Core Lean only.
-/
namespace PatVerif.Model.ScalarMultLit
open PatVerif PatVerif.Generated PatVerif.Generated.FeLimbs PatVerif.Generated.EdPoints PatVerif.Model.Recode

def ze : Element := ⟨0, 0, 0, 0, 0⟩
def zP : Point := ⟨ze, ze, ze, ze⟩
def zQ : projP1xP1 := ⟨ze, ze, ze, ze⟩
def z2 : projP2 := ⟨ze, ze, ze⟩
def zC : projCached := ⟨ze, ze, ze, ze⟩
def zA : affineCached := ⟨ze, ze, ze⟩

/-- `identity`, `generator`: `SetBytes` of the 32 bytes in the source -/
def identity : Point := (Point_SetBytes zP (1 :: List.replicate 31 0)).getD zP
def generator : Point := (Point_SetBytes zP (0x58 :: List.replicate 31 0x66)).getD zP

/-- `v.points[i+1].FromP3(tmpP3.fromP1xP1(tmpP1xP1.Add(q, &v.points[i])))` -/
def buildProj (step : Point) : Nat → projCached → List projCached
  | 0, _ => []
  | n + 1, cur => cur :: buildProj step n (projCached_FromP3 zC (Point_fromP1xP1 zP (projP1xP1_Add zQ step cur)))

/-- `v.points[i+1].FromP3(tmpP3.fromP1xP1(tmpP1xP1.AddAffine(q, &v.points[i])))` -/
def buildAff (step : Point) : Nat → affineCached → List affineCached
  | 0, _ => []
  | n + 1, cur => cur :: buildAff step n (affineCached_FromP3 zA (Point_fromP1xP1 zP (projP1xP1_AddAffine zQ step cur)))

/-- `projLookupTable.FromP3` -/
def projTable (q : Point) : List projCached := buildProj q 8 (projCached_FromP3 zC q)
/-- `affineLookupTable.FromP3` -/
def affTable (q : Point) : List affineCached := buildAff q 8 (affineCached_FromP3 zA q)
/-- `nafLookupTable5.FromP3` -/
def naf5Table (q : Point) : List projCached := buildProj (Point_Add zP q q) 8 (projCached_FromP3 zC q)
/-- `nafLookupTable8.FromP3` -/
def naf8Table (q : Point) : List affineCached := buildAff (Point_Add zP q q) 64 (affineCached_FromP3 zA q)

/-- `xmask := x >> 7; xabs := uint8((x + xmask) ^ xmask)` on an `int8` -/
def xabs (x : Int) : Nat :=
  let xmask : Int := x / 128
  let y := wrap8 (x + xmask)
  ((if xmask = 0 then y else -y - 1) % 256).toNat

/-- `projLookupTable.SelectInto` -/
def selectProj (table : List projCached) (x : Int) : projCached :=
  let a := xabs x
  let dest := projCached_Zero zC
  let dest := (List.range 8).foldl
    (fun dest j => projCached_Select dest (table.getD j zC) dest (if a = j + 1 then 1 else 0)) dest
  projCached_CondNeg dest (if x < 0 then 1 else 0)

/-- `affineLookupTable.SelectInto` -/
def selectAff (table : List affineCached) (x : Int) : affineCached :=
  let a := xabs x
  let dest := affineCached_Zero zA
  let dest := (List.range 8).foldl
    (fun dest j => affineCached_Select dest (table.getD j zA) dest (if a = j + 1 then 1 else 0)) dest
  affineCached_CondNeg dest (if x < 0 then 1 else 0)

/-- `tmp2.FromP1xP1(tmp1); tmp1.Double(tmp2)` -/
def dbl (t : projP1xP1) : projP1xP1 := projP1xP1_Double zQ (projP2_FromP1xP1 z2 t)

/-- `(*Point).ScalarMult` -/
def scalarMult (digits : List Int) (q : Point) : Point :=
  let table := projTable q
  let multiple := selectProj table (digits.getD 63 0)
  let v := Point_Set zP identity
  let tmp1 := projP1xP1_Add zQ v multiple
  let tmp1 := (List.range 63).foldl
    (fun tmp1 k =>
      let tmp1 := dbl (dbl (dbl (dbl tmp1)))
      let v := Point_fromP1xP1 zP tmp1
      let multiple := selectProj table (digits.getD (62 - k) 0)
      projP1xP1_Add zQ v multiple) tmp1
  Point_fromP1xP1 zP tmp1

/-- `basepointTable`: `table[i].FromP3(p)`, then eight times `p.Add(p, p)` -/
def buildBase : Nat → Point → List (List affineCached)
  | 0, _ => []
  | n + 1, p => affTable p :: buildBase n ((List.range 8).foldl (fun p _ => Point_Add zP p p) p)

def basepointTable : List (List affineCached) := buildBase 32 generator

/-- `(*Point).ScalarBaseMult` -/
def scalarBaseMult (tables : List (List affineCached)) (digits : List Int) : Point :=
  let v := Point_Set zP identity
  let v := (List.range 32).foldl
    (fun v j =>
      let multiple := selectAff (tables.getD j []) (digits.getD (2 * j + 1) 0)
      Point_fromP1xP1 zP (projP1xP1_AddAffine zQ v multiple)) v
  let tmp1 := projP1xP1_Double zQ (projP2_FromP3 z2 v)
  let tmp1 := dbl (dbl (dbl tmp1))
  let v := Point_fromP1xP1 zP tmp1
  (List.range 32).foldl
    (fun v j =>
      let multiple := selectAff (tables.getD j []) (digits.getD (2 * j) 0)
      Point_fromP1xP1 zP (projP1xP1_AddAffine zQ v multiple)) v

def basepointNafTable : List affineCached := naf8Table generator

/-- one position of `VarTimeDoubleScalarBaseMult` (`i = 255 − k`): `tmp1.Double(tmp2)`, then `± aTable[|a|/2]`, then `± bTable[|b|/2]`,
then `tmp2.FromP1xP1(tmp1)`; `none` is an index out of range -/
def doubleStep (aTable : List projCached) (bTable : List affineCached) (aNaf bNaf : List Int) (st : Option projP2) (k : Nat) : Option projP2 :=
  match st with
  | none => none
  | some tmp2 =>
    let i := 255 - k
    let a := aNaf.getD i 0
    let b := bNaf.getD i 0
    let tmp1 := projP1xP1_Double zQ tmp2
    let tmp1 : Option projP1xP1 :=
      if a > 0 then (aTable[(a / 2).toNat]?).map fun m => projP1xP1_Add zQ (Point_fromP1xP1 zP tmp1) m
      else if a < 0 then (aTable[((-a) / 2).toNat]?).map fun m => projP1xP1_Sub zQ (Point_fromP1xP1 zP tmp1) m
      else some tmp1
    match tmp1 with
    | none => none
    | some tmp1 =>
      let tmp1 : Option projP1xP1 :=
        if b > 0 then (bTable[(b / 2).toNat]?).map fun m => projP1xP1_AddAffine zQ (Point_fromP1xP1 zP tmp1) m
        else if b < 0 then (bTable[((-b) / 2).toNat]?).map fun m => projP1xP1_SubAffine zQ (Point_fromP1xP1 zP tmp1) m
        else some tmp1
      tmp1.map fun t => projP2_FromP1xP1 z2 t

/-- `(*Point).VarTimeDoubleScalarBaseMult` -/
def doubleScalarMult (bTable : List affineCached) (aNaf bNaf : List Int) (A : Point) : Option Point :=
  ((List.range 256).foldl (doubleStep (naf5Table A) bTable aNaf bNaf) (some (projP2_Zero z2))).map fun tmp2 => Point_fromP2 zP tmp2

end PatVerif.Model.ScalarMultLit
