import PatVerif.Model.Structs
import PatVerif.Model.Padding
/-!
# Literal models of the peer-facing functions that use raw slice / index / make expressions

The decoders that are pure `cryptobyte` sequences cannot panic by construction (their model is a
total `Option`-valued function, `Model/Structs.lean`). The functions below are the remaining
ones: each Go slice expression `b[lo:hi]`, index `b[i]` and `make([]byte, n)` with an
input-dependent `n` appears explicitly — `slice`/`index` return `Res.panic` exactly where Go
would panic, and every `make` adds its length to an allocation counter. Calls into dependencies
(group element / proof decoding, OPRF finalize, AEAD open, blind-RSA finalize) are parameters
returning success or failure.

Result type: `Res (α × Nat)`, the value and the number of bytes requested from `make`.
-/
namespace PatVerif.Partial
open PatVerif Codec Structs Quicwire

abbrev R (α : Type) := Res (α × Nat)

/-! ## type 1: `FinalizeToken` (tokens/type1/client.go:35-66) -/

/-- `dep.elem`, `dep.proof`, `dep.finalize`: the circl calls on the two slices -/
structure T1Dep where
  elem : Bytes → Bool
  proof : Bytes → Bool
  finalize : Bytes → Bytes → Option Bytes

def type1Finalize (d : T1Dep) (tokenInput resp : Bytes) : R Token :=
  if resp.length < 49 then .err
  else
    (slice resp 0 49).bind fun e =>
    if !d.elem e then .err
    else
      (slice resp 49 resp.length).bind fun p =>
      if !d.proof p then .err
      else
        match d.finalize e p with
        | none => .err
        | some out =>
          match (tokenCodec 48).dec (tokenInput ++ out) with
          | some (t, _) => .ok (t, 0)
          | none => .err

/-! ## type 3: `FinalizeToken` (client.go:117-172) and `decryptOriginTokenRequest` (issuer.go:106-145) -/

def type3Finalize (aeadOpen : Bytes → Bytes → Option Bytes) (rsaFinalize : Bytes → Option Bytes)
    (tokenInput resp : Bytes) : R Token :=
  if resp.length < 16 then .err
  else
    (slice resp 0 16).bind fun nonce =>
    (slice resp 16 resp.length).bind fun ct =>
    match aeadOpen nonce ct with
    | none => .err
    | some bs =>
      match rsaFinalize bs with
      | none => .err
      | some sig =>
        match (tokenCodec 256).dec (tokenInput ++ sig) with
        | some (t, _) => .ok (t, 0)
        | none => .err

def decryptSplit (encrypted : Bytes) : R (Bytes × Bytes) :=
  if encrypted.length < 32 then .err
  else
    (slice encrypted 0 32).bind fun enc =>
    (slice encrypted 32 encrypted.length).bind fun ct => .ok ((enc, ct), 0)

/-! ## type 3: signature split in attester and issuer (attester.go:64-70, issuer.go:169-171) -/

def splitSignature (sig : Bytes) : R (Bytes × Bytes) :=
  if sig.length ≠ 96 then .err
  else (slice sig 0 48).bind fun r => (slice sig 48 sig.length).bind fun s => .ok ((r, s), 0)

/-! ## `unpadOriginName` (client.go:42-55): the index expression in the loop -/

/-- walk down from `last`; `fuel` is `last + 1` -/
def unpadLoop (p : Bytes) : Nat → Int → Res Nat
  | 0, _ => .ok 0
  | fuel + 1, last =>
    if last < 0 then .ok 0
    else
      (index p last.toNat).bind fun x =>
      if x ≠ 0 then .ok (last.toNat + 1) else unpadLoop p fuel (last - 1)

def unpadLit (p : Bytes) : Res Bytes :=
  (unpadLoop p (p.length + 1) ((p.length : Int) - 1)).bind fun n => slice p 0 n

/-! ## type 5: `Unmarshal` (token_request.go:64-96) and `FinalizeTokens` (client.go:38-100) -/

/-- copy the 32-byte element `i` out of the buffer: `copy(dst, buf[32*i:])` -/
def chunkLoop (buf : Bytes) : Nat → Nat → Res (List Bytes)
  | 0, _ => .ok []
  | n + 1, i =>
    (slice buf (32 * i) buf.length).bind fun tail =>
    (chunkLoop buf n (i + 1)).bind fun rest => .ok (tail.take 32 :: rest)

def type5Unmarshal (data : Bytes) : R Req5 :=
  match decU16 data with
  | none => .err
  | some (ty, r1) =>
    if ty ≠ 5 then .err
    else
      match r1 with
      | [] => .err
      | keyId :: _ =>
        (slice data 3 data.length).bind fun tail =>
        let l := (consumeVarint tail).1
        let off := (consumeVarint tail).2
        if off < 0 then .err
        else if tail.length < off.toNat then .err
        else
          let s := tail.drop off.toNat
          if l > s.length then .err
          else
            -- make([]byte, l); s.ReadBytes(&blindedRequests, l)
            (slice s 0 l).bind fun buf =>
            if buf.length % 32 ≠ 0 then .err
            else
              -- make([][]byte, count) and count × make([]byte, 32)
              (chunkLoop buf (buf.length / 32) 0).bind fun els => .ok (⟨keyId, els⟩, l + 32 * (buf.length / 32))

structure T5Dep where
  elem : Bytes → Bool
  proof : Bytes → Bool
  finalize : List Bytes → Bytes → Option (List Bytes)

def elemLoop (d : T5Dep) (buf : Bytes) : Nat → Nat → Res (List Bytes)
  | 0, _ => .ok []
  | n + 1, i =>
    (slice buf (i * 32) ((i + 1) * 32)).bind fun e =>
    if !d.elem e then .err
    else (elemLoop d buf n (i + 1)).bind fun rest => .ok (e :: rest)

def type5Finalize (d : T5Dep) (nInputs : Nat) (resp : Bytes) : R (List Bytes) :=
  let l := (consumeVarint resp).1
  let off := (consumeVarint resp).2
  if off < 0 then .err
  else if resp.length < off.toNat then .err
  else
    let s := resp.drop off.toNat
    if l > s.length then .err
    else
      (slice s 0 l).bind fun buf =>
      if buf.length % 32 ≠ 0 then .err
      else if buf.length / 32 ≠ nInputs then .err
      else
        (elemLoop d buf (buf.length / 32) 0).bind fun els =>
        match readN 64 (s.drop l) with
        | none => .err
        | some (pe, _) =>
          if !d.proof pe then .err
          else
            match d.finalize els pe with
            | none => .err
            | some outs => .ok (outs, l + 64)

/-! ## generic batch: request decoder (token_request.go:39-76) and response decoder (tokens.go:13-66) -/

/-- the walk over the element list; `fuel` bounds the number of iterations by the buffer length -/
def batchWalk (data : Bytes) (stop : Nat) : Nat → Nat → Res (List BatchElem)
  | 0, _ => .err
  | fuel + 1, i =>
    if i < stop then
      if (data.length : Int) - i < 2 then .err
      else
        (slice data i (i + 2)).bind fun tb =>
        let ty := beNat tb
        if ty ≠ 1 ∧ ty ≠ 2 then .err
        else
          (slice data i data.length).bind fun el =>
          match (if ty = 1 then req1Codec.dec el else req2Codec.dec el) with
          | none => .err
          | some (r, _) =>
            -- i += len(token_request.Marshal())
            let adv := (if ty = 1 then (req1Codec.enc r).length else (req2Codec.enc r).length)
            (batchWalk data stop fuel (i + adv)).bind fun rest => .ok (⟨ty, r⟩ :: rest)
    else .ok []

def batchUnmarshal (data : Bytes) : R (List BatchElem) :=
  if data.length < 4 then .err
  else
    let l := (consumeVarint data).1
    let off := (consumeVarint data).2
    if off < 0 ∨ l = 0 ∨ l > data.length - off.toNat then .err
    else
      (slice data 0 (off.toNat + l)).bind fun d =>
      (batchWalk d (off.toNat + l) (d.length + 1) off.toNat).bind fun es => .ok (es, 0)

def batchRespUnmarshal (data : Bytes) : R (List Bytes) :=
  let l := (consumeVarint data).1
  let off := (consumeVarint data).2
  if off < 0 then .err
  else if data.length < off.toNat then .err
  else if l > (data.drop off.toNat).length then .err
  else
    (slice data off.toNat (off.toNat + l)).bind fun body =>
    match respEntries.dec body with
    | some es => .ok (respBodies es, 0)
    | none => .err

end PatVerif.Partial
