import PatVerif.Basic

/-!
# Model of `quicwire/wire.go`

Hand-written model, one definition per Go function, arithmetic over `Nat`
(`x >> 8` is `x / 256`, `a<<8 | b` with `b < 256` is `a * 256 + b`; the literal shift/or
form is what the translator emits into `Generated/Quicwire.lean`, and
`Proofs/QuicwireRefine.lean` proves the two equal).

Go `uint64` arguments are `Nat`s; every theorem that needs `v < 2^64` says so. `int`
results are `Int` (`-1` is the failure marker of the consumers).
-/
namespace PatVerif.Quicwire

def maxVarint : Nat := 4611686018427387903

theorem maxVarint_eq : maxVarint = 2 ^ 62 - 1 := by decide

/-- `SizeVarint` -/
def sizeVarint (v : Nat) : Res Nat :=
  if v ≤ 63 then .ok 1
  else if v ≤ 16383 then .ok 2
  else if v ≤ 1073741823 then .ok 4
  else if v ≤ 4611686018427387903 then .ok 8
  else .panic

/-- the bytes `AppendVarint` appends (for `v ≤ maxVarint`; the 8-byte form otherwise) -/
def encode (v : Nat) : Bytes :=
  if v ≤ 63 then [UInt8.ofNat v]
  else if v ≤ 16383 then [UInt8.ofNat (64 + v / 256 % 256), UInt8.ofNat v]
  else if v ≤ 1073741823 then
    [UInt8.ofNat (128 + v / 16777216 % 256), UInt8.ofNat (v / 65536), UInt8.ofNat (v / 256), UInt8.ofNat v]
  else
    [UInt8.ofNat (192 + v / 72057594037927936 % 256), UInt8.ofNat (v / 281474976710656),
     UInt8.ofNat (v / 1099511627776), UInt8.ofNat (v / 4294967296), UInt8.ofNat (v / 16777216),
     UInt8.ofNat (v / 65536), UInt8.ofNat (v / 256), UInt8.ofNat v]

/-- `AppendVarint` -/
def appendVarint (b : Bytes) (v : Nat) : Res Bytes :=
  if v ≤ 4611686018427387903 then .ok (b ++ encode v) else .panic

/-- `ConsumeVarint`: value and consumed length, `-1` on short input -/
def consumeVarint : Bytes → Nat × Int
  | [] => (0, -1)
  | b0 :: r =>
    let x := b0.toNat % 64
    let c := b0.toNat / 64
    if c = 0 then (x, 1)
    else if c = 1 then
      match r with
      | b1 :: _ => (x * 256 + b1.toNat, 2)
      | _ => (0, -1)
    else if c = 2 then
      match r with
      | b1 :: b2 :: b3 :: _ => (((x * 256 + b1.toNat) * 256 + b2.toNat) * 256 + b3.toNat, 4)
      | _ => (0, -1)
    else
      match r with
      | b1 :: b2 :: b3 :: b4 :: b5 :: b6 :: b7 :: _ =>
        (((((((x * 256 + b1.toNat) * 256 + b2.toNat) * 256 + b3.toNat) * 256 + b4.toNat) * 256
            + b5.toNat) * 256 + b6.toNat) * 256 + b7.toNat, 8)
      | _ => (0, -1)

/-- `ConsumeVarintInt64` (the value is below 2^62, so the conversion is the identity) -/
def consumeVarintInt64 (b : Bytes) : Int × Int :=
  ((consumeVarint b).1, (consumeVarint b).2)

/-- `ConsumeUint32` -/
def consumeUint32 : Bytes → Nat × Int
  | b0 :: b1 :: b2 :: b3 :: _ => (((b0.toNat * 256 + b1.toNat) * 256 + b2.toNat) * 256 + b3.toNat, 4)
  | _ => (0, -1)

/-- `ConsumeUint64` -/
def consumeUint64 : Bytes → Nat × Int
  | b0 :: b1 :: b2 :: b3 :: b4 :: b5 :: b6 :: b7 :: _ =>
    (((((((b0.toNat * 256 + b1.toNat) * 256 + b2.toNat) * 256 + b3.toNat) * 256 + b4.toNat) * 256
        + b5.toNat) * 256 + b6.toNat) * 256 + b7.toNat, 8)
  | _ => (0, -1)

/-- `ConsumeUint8Bytes`; `none` is Go's `nil` result. The two slice expressions
`b[1:]` and `[:size]` are partial. -/
def consumeUint8Bytes (b : Bytes) : Res (Option Bytes × Int) :=
  match b with
  | [] => .ok (none, -1)
  | b0 :: _ =>
    (slice b 1 b.length).bind fun tail =>
      if b0.toNat > tail.length then .ok (none, -1)
      else (slice tail 0 b0.toNat).bind fun v => .ok (some v, (b0.toNat : Int) + 1)

/-- `AppendUint8Bytes` -/
def appendUint8Bytes (b v : Bytes) : Res Bytes :=
  if v.length > 255 then .panic else .ok (b ++ UInt8.ofNat v.length :: v)

/-- `ConsumeVarintBytes`. The comparison `size > uint64(len(b[n:]))` is on unsigned 64-bit
values; both sides are below 2^64, so it is the comparison of the naturals. -/
def consumeVarintBytes (b : Bytes) : Res (Option Bytes × Int) :=
  if (consumeVarint b).2 < 0 then .ok (none, -1)
  else
    (slice b (consumeVarint b).2.toNat b.length).bind fun tail =>
      if (consumeVarint b).1 > tail.length then .ok (none, -1)
      else (slice tail 0 (consumeVarint b).1).bind fun v =>
        .ok (some v, ((consumeVarint b).1 : Int) + (consumeVarint b).2)

/-- `AppendVarintBytes` -/
def appendVarintBytes (b v : Bytes) : Res Bytes :=
  (appendVarint b v.length).bind fun b' => .ok (b' ++ v)

/-- number of bytes announced by the top two bits of the first byte -/
def prefixLen (b0 : UInt8) : Nat := 2 ^ (b0.toNat / 64)

/-- length of the shortest encoding -/
def encLen (v : Nat) : Nat :=
  if v ≤ 63 then 1 else if v ≤ 16383 then 2 else if v ≤ 1073741823 then 4 else 8

end PatVerif.Quicwire
