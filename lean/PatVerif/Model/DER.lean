import PatVerif.Basic
/-!
# DER as read and written by `cryptobyte` (x/crypto v0.35.0, `asn1.go`)

`readTLV` is `String.readASN1`: one-octet tag (high-tag-number form refused), definite lengths
only, long form at most four octets and minimal (DER); `readInteger` is `ReadASN1Integer` with
`checkASN1Integer` (minimal two's complement, negatives allowed). `tlv`/`encLen` are what
`Builder.AddASN1` emits. Used by C13 (ECDSA signatures) and C18 (token keys).
-/
namespace PatVerif.DER

/-- minimal big-endian bytes of a natural; `[0]` for zero -/
def natBE (n : Nat) : Bytes :=
  if h : n < 256 then [UInt8.ofNat n] else natBE (n / 256) ++ [UInt8.ofNat (n % 256)]
termination_by n
decreasing_by omega

/-- DER length octets -/
def encLen (n : Nat) : Bytes :=
  if n < 128 then [UInt8.ofNat n] else UInt8.ofNat (128 + (natBE n).length) :: natBE n

/-- `AddASN1(tag, content)` -/
def tlv (tag : UInt8) (content : Bytes) : Bytes := tag :: encLen content.length ++ content

/-- `readASN1`: tag, content, rest -/
def readTLV (s : Bytes) : Option (UInt8 × Bytes × Bytes) :=
  match s with
  | tag :: lenByte :: r =>
    if tag.toNat % 32 = 31 then none
    else if lenByte.toNat < 128 then
      if lenByte.toNat ≤ r.length then some (tag, r.take lenByte.toNat, r.drop lenByte.toNat) else none
    else
      let lenLen := lenByte.toNat - 128
      if lenLen = 0 ∨ lenLen > 4 ∨ r.length < lenLen then none
      else
        let len := beNat (r.take lenLen)
        if len < 128 then none
        else if len / 256 ^ (lenLen - 1) = 0 then none
        else
          let body := r.drop lenLen
          if len ≤ body.length then some (tag, body.take len, body.drop len) else none
  | _ => none

/-- `ReadASN1(&out, tag)` -/
def readTagged (tag : UInt8) (s : Bytes) : Option (Bytes × Bytes) :=
  match readTLV s with
  | some (t, c, r) => if t = tag then some (c, r) else none
  | none => none

/-- `checkASN1Integer` -/
def minimalInt : Bytes → Bool
  | [] => false
  | [_] => true
  | b0 :: b1 :: _ => !((b0 = 0 && b1.toNat < 128) || (b0 = 255 && b1.toNat ≥ 128))

/-- two's complement value of a non-empty byte string -/
def twosComplement (b : Bytes) : Int :=
  match b with
  | [] => 0
  | b0 :: _ => if b0.toNat ≥ 128 then (beNat b : Int) - (256 ^ b.length : Nat) else beNat b

/-- `ReadASN1Integer` into a `*big.Int` -/
def readInteger (s : Bytes) : Option (Int × Bytes) :=
  match readTagged 2 s with
  | some (c, r) => if minimalInt c then some (twosComplement c, r) else none
  | none => none

/-- content octets of a non-negative INTEGER: minimal big-endian, with a leading zero octet when
the top bit would otherwise be set -/
def natContent (n : Nat) : Bytes :=
  match natBE n with
  | [] => [0]
  | b0 :: r => if b0.toNat ≥ 128 then 0 :: b0 :: r else b0 :: r

/-- `AddASN1BigInt` for a non-negative value -/
def derNat (n : Nat) : Bytes := tlv 2 (natContent n)

/-- the signature parser of `VerifyASN1` (ecdsa.go:440-454): SEQUENCE { INTEGER r, INTEGER s },
nothing after the sequence, nothing after `s` -/
def parseSig (b : Bytes) : Option (Int × Int) :=
  match readTagged 0x30 b with
  | some (inner, []) =>
    match readInteger inner with
    | some (r, rest1) =>
      match readInteger rest1 with
      | some (s, []) => some (r, s)
      | _ => none
    | none => none
  | _ => none

end PatVerif.DER
