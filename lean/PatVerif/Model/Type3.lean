import PatVerif.Model.Structs
import PatVerif.Model.Padding
import PatVerif.Model.Attester
/-!
# The rate-limited (type 3) attester and issuer as decision chains over abstract primitives

`Crypto Pt` collects the primitives the Go code calls (P-384 point decoding/encoding, ECDSA
verification, key blinding, HKDF, HPKE open, blind RSA signing, response sealing) as
*parameters*. Theorems are stated for every instantiation; the driver instantiates them with the
executable references of `PatVerif/Exec` (points, ECDSA, hash-to-field, HKDF) and with oracle
columns supplied by the harness (HPKE, RSA).
-/
namespace PatVerif.Type3
open PatVerif Structs Padding Attester Codec

structure Crypto (Pt : Type) where
  /-- `elliptic.UnmarshalCompressed(P-384)`; `none` for anything that is not a valid point -/
  decodeKey : Bytes → Option Pt
  /-- `elliptic.MarshalCompressed` -/
  encodeKey : Pt → Bytes
  /-- ECDSA-P384 over SHA-384(message) with the 96-byte `r ‖ s` signature -/
  sigVerify : Pt → Bytes → Bytes → Bool
  /-- `ecdsa.BlindPublicKeyWithContext(pk, CreateKey(blind bytes), ctx)` -/
  blindKey : Pt → Bytes → Bytes → Pt
  /-- `ecdsa.UnblindPublicKeyWithContext` -/
  unblindKey : Pt → Bytes → Bytes → Pt
  /-- `computeIndex`: HKDF-SHA-384(ikm = index key, salt = client key, info = "IssuerOriginAlias") -/
  hkdfIndex : Bytes → Bytes → Bytes
  /-- HPKE `SetupBaseR` + `Open` under the issuer's name key: plaintext and exported secret -/
  hpkeOpen : Bytes → Bytes → Bytes → Option (Bytes × Bytes)
  /-- blind RSA signature under the issuer's token key -/
  blindSign : Bytes → Option Bytes
  /-- `response_nonce ‖ AEAD.Seal(key, nonce, blindSignature)` derived from `enc` and the secret -/
  sealResponse : Bytes → Bytes → Bytes → Bytes

/-- `uint16(3) ‖ label` — the key-blinding context strings -/
def ctxOf (label : String) : Bytes := encU16 3 ++ label.toUTF8.toList

def ctxClient : Bytes := ctxOf "ClientBlind"
def ctxIssuer : Bytes := ctxOf "IssuerBlind"

/-- an injective naming of byte strings by naturals (the attester's maps are keyed by hex strings) -/
def nameOf (b : Bytes) : Nat := beNat (1 :: b)

variable {Pt : Type}

/-! ## attester: VerifyRequest (attester.go:56-131) -/

/-- the checks of `VerifyRequest`, in source order; `true` = `nil` error -/
def attesterChecks (K : Crypto Pt) (r : Req3) (blind clientKey : Bytes) : Bool :=
  match K.decodeKey r.requestKey with
  | none => false
  | some rk =>
    if r.signature.length ≠ 96 then false
    else if !K.sigVerify rk (req3SignedMessage r) r.signature then false
    else
      match K.decodeKey clientKey with
      | none => false
      | some ck => K.encodeKey (K.blindKey ck blind ctxClient) == r.requestKey

def attesterVerify (K : Crypto Pt) (cache : Cache) (r : Req3) (blind clientKey : Bytes) : Cache × Bool :=
  if attesterChecks K r blind clientKey then ((step cache (.verify (nameOf clientKey))).1, true)
  else (cache, false)

/-! ## attester: FinalizeIndex (attester.go:134-196) -/

/-- the index computation of `FinalizeIndex`; `none` when the issuer-blinded key does not decode -/
def attesterIndex (K : Crypto Pt) (clientKey blind blindedRequestKey : Bytes) : Option Bytes :=
  match K.decodeKey blindedRequestKey with
  | none => none
  | some brk => some (K.hkdfIndex clientKey (K.encodeKey (K.unblindKey brk blind ctxClient)))

def attesterFinalize (K : Crypto Pt) (cache : Cache) (clientKey blind blindedRequestKey anon : Bytes) :
    Cache × Option Bytes :=
  match attesterIndex K clientKey blind blindedRequestKey with
  | none => (cache, none)
  | some idx =>
    match step cache (.finalize (nameOf clientKey) (nameOf idx) (nameOf anon)) with
    | (cache', .index _) => (cache', some idx)
    | (cache', _) => (cache', none)

/-! ## issuer: Evaluate (issuer.go:106-234) -/

structure Issuer where
  /-- `key_id ‖ kem_id ‖ kdf_id ‖ aead_id` of the name key -/
  aadPrefix : Bytes
  /-- SHA-256 of the serialized name key -/
  configId : Bytes
  /-- registered origin names with their index keys (`CreateKey` scalar bytes) -/
  origins : List (Bytes × Bytes)

def Issuer.aad (iss : Issuer) (requestKey : Bytes) : Bytes :=
  iss.aadPrefix ++ encU16 3 ++ requestKey ++ iss.configId

def lookupOrigin : List (Bytes × Bytes) → Bytes → Option Bytes
  | [], _ => none
  | (n, k) :: r, name => if n = name then some k else lookupOrigin r name

/-- `decryptOriginTokenRequest`. When the plaintext does not parse as an inner request the Go
code returns the (nil) error of the preceding step, i.e. carries on with an empty inner request
and no secret; the model does the same. -/
def decryptInner (K : Crypto Pt) (iss : Issuer) (r : Req3) : Option (Inner × Bytes) :=
  if r.encrypted.length < 32 then none
  else
    match K.hpkeOpen (r.encrypted.take 32) (r.encrypted.drop 32) (iss.aad r.requestKey) with
    | none => none
    | some (pt, secret) =>
      match innerCodec.dec pt with
      | some (inner, _) => some (inner, secret)
      | none => some (⟨0, [], []⟩, [])

/-- `RateLimitedIssuer.Evaluate`: the encrypted response and the issuer-blinded request key, or
an error with no output -/
def issuerEvaluate (K : Crypto Pt) (iss : Issuer) (b : Bytes) : Option (Bytes × Bytes) :=
  match req3Codec.dec b with
  | none => none
  | some r =>
    match decryptInner K iss r with
    | none => none
    | some (inner, secret) =>
      match lookupOrigin iss.origins (unpad inner.paddedOrigin) with
      | none => none
      | some indexKey =>
        match K.decodeKey r.requestKey with
        | none => none
        | some rk =>
          if !K.sigVerify rk (req3SignedMessage r) r.signature then none
          else
            match K.blindSign inner.blindedMsg with
            | none => none
            | some bs =>
              some (K.sealResponse (r.encrypted.take 32) secret bs,
                    K.encodeKey (K.blindKey rk indexKey ctxIssuer))

end PatVerif.Type3
