import PatVerif.Model.Codec
/-!
# Descriptors of the cryptobyte calls of a Marshal/Unmarshal function, and their meaning

`/verif/extract/cmd/wirefacts` extracts, for each fixed-layout wire structure, the sequence of
`cryptobyte` calls its Go decoder and encoder make (`Generated/WireFacts.lean`). This file gives those
sequences a meaning over untyped records (field name ↦ number or byte string), built from the same
primitive reads as the codecs of `Model/Codec.lean`; `Proofs/WireFacts.lean` proves each extracted
sequence equal to the typed codec of `Model/Structs.lean`.
-/
namespace PatVerif.WireEv
open PatVerif PatVerif.Codec

inductive Ev where
  | resetRaw | cacheHit | storeRaw
  | u8 (f : String) | u16 (f : String) | fixed (n : Nat) (f : String) | vec8 (f : String) | vec16 (f : String)
  | copy (dst src : String) | checkEq (f : String) (v : Nat) | nonEmpty (f : String) | endStrict | endLax
  | wConst16 (v : Nat) | wU8 (f : String) | wU16 (f : String) | wBytes (f : String) | wVec8 (f : String) | wVec16 (f : String)
  deriving Repr, DecidableEq

inductive Val where
  | n (v : Nat)
  | b (v : Bytes)
  deriving Repr, DecidableEq

abbrev Rec := List (String × Val)

def rget (r : Rec) (f : String) : Option Val :=
  match r with
  | [] => none
  | (k, v) :: t => if k = f then some v else rget t f

def rdel (r : Rec) (f : String) : Rec := r.filter fun p => p.1 ≠ f

def rset (r : Rec) (f : String) (v : Val) : Rec := rdel r f ++ [(f, v)]

/-- one call of a decoder: the record so far and the unread input -/
def readStep (e : Ev) (st : Rec × Bytes) : Option (Rec × Bytes) :=
  match e with
  | .resetRaw | .cacheHit | .storeRaw | .endLax => some st
  | .u8 f =>
    match st.2 with
    | x :: r => some (rset st.1 f (.n x.toNat), r)
    | [] => none
  | .u16 f =>
    match decU16 st.2 with
    | some (v, r) => some (rset st.1 f (.n v), r)
    | none => none
  | .fixed n f =>
    match readN n st.2 with
    | some (v, r) => some (rset st.1 f (.b v), r)
    | none => none
  | .vec8 f =>
    match st.2 with
    | x :: r =>
      match readN x.toNat r with
      | some (v, r') => some (rset st.1 f (.b v), r')
      | none => none
    | [] => none
  | .vec16 f =>
    match decU16 st.2 with
    | some (n, r) =>
      match readN n r with
      | some (v, r') => some (rset st.1 f (.b v), r')
      | none => none
    | none => none
  | .copy dst src =>
    match rget st.1 src with
    | some v => some (rset (rdel st.1 src) dst v, st.2)
    | none => none
  | .checkEq f v =>
    match rget st.1 f with
    | some (.n x) => if x = v then some (rdel st.1 f, st.2) else none
    | _ => none
  | .nonEmpty f =>
    match rget st.1 f with
    | some (.b x) => if x.isEmpty then none else some st
    | _ => none
  | .endStrict => if st.2.isEmpty then some st else none
  | _ => none

def runReads : List Ev → Rec × Bytes → Option (Rec × Bytes)
  | [], st => some st
  | e :: es, st =>
    match readStep e st with
    | some st' => runReads es st'
    | none => none

/-- one call of an encoder: the bytes it appends -/
def writeStep (e : Ev) (r : Rec) : Option Bytes :=
  match e with
  | .resetRaw | .cacheHit | .storeRaw => some []
  | .wConst16 v => some (encU16 v)
  | .wU8 f =>
    match rget r f with
    | some (.n x) => some [UInt8.ofNat x]
    | _ => none
  | .wU16 f =>
    match rget r f with
    | some (.n x) => some (encU16 x)
    | _ => none
  | .wBytes f =>
    match rget r f with
    | some (.b x) => some x
    | _ => none
  | .wVec8 f =>
    match rget r f with
    | some (.b x) => some (UInt8.ofNat x.length :: x)
    | _ => none
  | .wVec16 f =>
    match rget r f with
    | some (.b x) => some (encU16 x.length ++ x)
    | _ => none
  | _ => none

def runWrites : List Ev → Rec → Option Bytes
  | [], _ => some []
  | e :: es, r =>
    match writeStep e r, runWrites es r with
    | some a, some b => some (a ++ b)
    | _, _ => none

/-- a decoder resets the encoding cache before anything else; an encoder consults it first and fills it last -/
def decoderResetsCache (evs : List Ev) : Bool := evs.head? = some .resetRaw
def encoderUsesCache (evs : List Ev) : Bool := evs.head? = some .cacheHit && evs.getLast? = some .storeRaw

end PatVerif.WireEv
