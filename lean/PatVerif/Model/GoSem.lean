import PatVerif.Basic
/-!
# Go semantics used by the translated sources (`Generated/*.lean`)

Unsigned integers are `Nat` (wrapping made explicit at left shifts and byte conversions), `int`
is `Int`, `[]byte` is `Bytes`; index and slice expressions panic exactly where Go panics.
-/
namespace PatVerif.Go

def len (b : Bytes) : Int := b.length

/-- `b[i]` as an unsigned value -/
def idx (b : Bytes) (i : Int) : Res Nat :=
  if i < 0 then .panic
  else match b[i.toNat]? with
    | some x => .ok x.toNat
    | none => .panic

/-- `b[lo:]` -/
def sliceFrom (b : Bytes) (lo : Int) : Res Bytes :=
  if lo < 0 ∨ lo > b.length then .panic else .ok (b.drop lo.toNat)

/-- `b[:hi]` (capacity = length for every slice reaching these functions) -/
def sliceTo (b : Bytes) (hi : Int) : Res Bytes :=
  if hi < 0 ∨ hi > b.length then .panic else .ok (b.take hi.toNat)

/-- `b[lo:hi]` -/
def slice (b : Bytes) (lo hi : Int) : Res Bytes :=
  if lo < 0 ∨ hi < lo ∨ hi > b.length then .panic else .ok ((b.drop lo.toNat).take (hi.toNat - lo.toNat))

/-- `make([]byte, n)`: panics on a negative length -/
def makeBytes (n : Int) : Res Bytes := if n < 0 then .panic else .ok (List.replicate n.toNat 0)

/-- `a % b` on `int`: the remainder of truncated division (sign of the dividend) -/
def irem (a b : Int) : Int := Int.tmod a b

def band (a b : Nat) : Nat := a &&& b
def bor (a b : Nat) : Nat := a ||| b
def shr (a k : Nat) : Nat := a >>> k
/-- `uint64` left shift -/
def shl64 (a k : Nat) : Nat := (a <<< k) % 2 ^ 64
/-- `byte` left shift -/
def shl8 (a k : Nat) : Nat := (a <<< k) % 256
/-- conversion to `byte` -/
def u8 (a : Nat) : Nat := a % 256

/-- `append(b, e1, …, en)` with byte-valued elements -/
def appendBytes (b : Bytes) (xs : List Nat) : Bytes := b ++ xs.map UInt8.ofNat

/-- `binary.BigEndian.Uint32(b)` (panics on fewer than 4 bytes) -/
def beUint32 (b : Bytes) : Res Nat := if b.length < 4 then .panic else .ok (beNat (b.take 4))
def beUint64 (b : Bytes) : Res Nat := if b.length < 8 then .panic else .ok (beNat (b.take 8))

end PatVerif.Go
