import PatVerif.Basic
/-!
# The attester's per-client origin bookkeeping (tokens/type3/attester.go:120-131,172-196)

Clients, anonymous issuer origin IDs ("index") and anonymous origin IDs are opaque names
(`Nat`; the harness maps the hex strings the Go maps are keyed by to first-seen ordinals).
The Go maps are association lists with `get`/`set`.

`Op.verify c` is a `VerifyRequest` call that passed both checks (signature and blinded key),
`Op.finalize c i a` a `FinalizeIndex` call whose key material decodes and yields index `i`,
`Op.finalizeBad c` one whose key material is rejected before the cache is consulted.
-/
namespace PatVerif.Attester

abbrev Map (κ ν : Type) := List (κ × ν)

namespace Map
variable {κ ν : Type} [DecidableEq κ]

def get : Map κ ν → κ → Option ν
  | [], _ => none
  | (k', v) :: r, k => if k' = k then some v else get r k

def set : Map κ ν → κ → ν → Map κ ν
  | [], k, v => [(k, v)]
  | (k', v') :: r, k, v => if k' = k then (k, v) :: r else (k', v') :: set r k v

theorem get_set_eq (m : Map κ ν) (k : κ) (v : ν) : get (set m k v) k = some v := by
  induction m with
  | nil => simp [set, get]
  | cons p r ih =>
    obtain ⟨k', v'⟩ := p
    unfold set
    split
    · simp [get]
    · rename_i h; simp [get, h, ih]

theorem get_set_ne (m : Map κ ν) (k k2 : κ) (v : ν) (h : k ≠ k2) : get (set m k v) k2 = get m k2 := by
  induction m with
  | nil => simp [set, get, h]
  | cons p r ih =>
    obtain ⟨k', v'⟩ := p
    unfold set
    split
    · rename_i hk; subst hk; simp [get, h]
    · rename_i hk
      simp only [get]
      split
      · rfl
      · exact ih

end Map

abbrev ClientId := Nat
abbrev Idx := Nat
abbrev Anon := Nat

structure ClientState where
  originIndices : Map Anon Idx   -- anonymous origin ID ↦ index first seen with it
  clientIndices : Map Idx Anon   -- index ↦ the anonymous origin ID it is bound to
  deriving Repr, DecidableEq

abbrev Cache := Map ClientId ClientState

inductive Op where
  | verify (c : ClientId)
  | finalize (c : ClientId) (i : Idx) (a : Anon)
  | finalizeBad (c : ClientId)
  /-- a `VerifyRequest` call that fails one of its checks (C06): answered with an error, no state -/
  | verifyBad (c : ClientId)
  deriving Repr, DecidableEq

inductive Out where
  | verified
  | index (i : Idx)
  | unknownClient
  | repeated
  | badKey
  deriving Repr, DecidableEq

def emptyState : ClientState := ⟨[], []⟩

/-- `FinalizeIndex` records the anonymous origin ID in `originIndices` *before* it decides
(attester.go:181-186), so that map also changes on the reject path; the decision itself reads
only `clientIndices`. -/
def noteOrigin (st : ClientState) (a : Anon) (i : Idx) : ClientState :=
  match Map.get st.originIndices a with
  | some _ => st
  | none => { st with originIndices := Map.set st.originIndices a i }

/-- the per-client part of `FinalizeIndex` (attester.go:179-196) -/
def finalizeState (st : ClientState) (i : Idx) (a : Anon) : ClientState × Out :=
  match Map.get (noteOrigin st a i).clientIndices i with
  | some a' =>
    if a' ≠ a then (noteOrigin st a i, .repeated)
    else ({ noteOrigin st a i with clientIndices := Map.set (noteOrigin st a i).clientIndices i a }, .index i)
  | none => ({ noteOrigin st a i with clientIndices := Map.set (noteOrigin st a i).clientIndices i a }, .index i)

/-- one call -/
def step (s : Cache) : Op → Cache × Out
  | .verify c =>
    match Map.get s c with
    | some _ => (s, .verified)
    | none => (Map.set s c emptyState, .verified)
  | .finalizeBad _ => (s, .badKey)
  | .verifyBad _ => (s, .badKey)
  | .finalize c i a =>
    match Map.get s c with
    | none => (s, .unknownClient)
    | some st => (Map.set s c (finalizeState st i a).1, (finalizeState st i a).2)

theorem noteOrigin_clientIndices (st : ClientState) (a : Anon) (i : Idx) :
    (noteOrigin st a i).clientIndices = st.clientIndices := by
  unfold noteOrigin; split <;> rfl

/-- what `finalizeState` does, in terms of `clientIndices` only -/
theorem finalizeState_spec (st : ClientState) (i : Idx) (a : Anon) :
    ((finalizeState st i a).2 = .repeated ∧ (finalizeState st i a).1.clientIndices = st.clientIndices ∧
        ∃ a', a' ≠ a ∧ Map.get st.clientIndices i = some a') ∨
    ((finalizeState st i a).2 = .index i ∧
        (finalizeState st i a).1.clientIndices = Map.set st.clientIndices i a ∧
        (Map.get st.clientIndices i = some a ∨ Map.get st.clientIndices i = none)) := by
  unfold finalizeState
  rw [noteOrigin_clientIndices]
  cases hg : Map.get st.clientIndices i with
  | some a' =>
    by_cases hne : a' = a
    · subst hne; right; simp
    · left; simp [hne, noteOrigin_clientIndices]
  | none => right; simp

abbrev History := List (Op × Out)

/-- run a sequence of calls from a state, appending (call, outcome) to the history -/
def run : Cache × History → List Op → Cache × History
  | sh, [] => sh
  | (s, h), op :: ops => run ((step s op).1, h ++ [(op, (step s op).2)]) ops

def exec (ops : List Op) : Cache × History := run ([], []) ops

/-! what a history says -/

def verifiedIn (h : History) (c : ClientId) : Bool := h.contains (Op.verify c, Out.verified)

def acceptedIn (h : History) (c : ClientId) (i : Idx) (a : Anon) : Bool :=
  h.contains (Op.finalize c i a, Out.index i)

/-- some *other* anonymous origin ID was accepted for `(c, i)` -/
def conflictIn (h : History) (c : ClientId) (i : Idx) (a : Anon) : Bool :=
  h.any fun e =>
    match e with
    | (Op.finalize c' i' a', Out.index _) => c' = c && i' = i && a' ≠ a
    | _ => false

/-- the outcome the one-line specification prescribes for a call after history `h` -/
def expected (h : History) : Op → Out
  | .verify _ => .verified
  | .finalizeBad _ => .badKey
  | .verifyBad _ => .badKey
  | .finalize c i a =>
    if !verifiedIn h c then .unknownClient
    else if conflictIn h c i a then .repeated
    else .index i

/-- the abstract specification state: which clients are known, and the partial map
(client, index) ↦ anonymous origin ID -/
structure Spec where
  known : ClientId → Bool
  bound : ClientId → Idx → Option Anon

def Spec.init : Spec := ⟨fun _ => false, fun _ _ => none⟩

/-- the four-line specification: accept iff the client is known and the index is unbound or
bound to the same anonymous origin ID -/
def Spec.step (s : Spec) : Op → Spec × Out
  | .verify c => (⟨fun c' => if c' = c then true else s.known c', s.bound⟩, .verified)
  | .finalizeBad _ => (s, .badKey)
  | .verifyBad _ => (s, .badKey)
  | .finalize c i a =>
    if !s.known c then (s, .unknownClient)
    else
      match s.bound c i with
      | some a' => if a' ≠ a then (s, .repeated) else (s, .index i)
      | none => (⟨s.known, fun c' i' => if c' = c ∧ i' = i then some a else s.bound c' i'⟩, .index i)

def knownOf (s : Cache) (c : ClientId) : Bool := (Map.get s c).isSome

def boundOf (s : Cache) (c : ClientId) (i : Idx) : Option Anon :=
  match Map.get s c with
  | some st => Map.get st.clientIndices i
  | none => none

/-- abstraction of a concrete cache -/
def abs (s : Cache) : Spec := ⟨knownOf s, boundOf s⟩

theorem knownOf_set (s : Cache) (c c' : ClientId) (x : ClientState) :
    knownOf (Map.set s c x) c' = if c' = c then true else knownOf s c' := by
  unfold knownOf
  by_cases h : c' = c
  · subst h; simp [Map.get_set_eq]
  · have h' : c ≠ c' := fun e => h e.symm
    simp [h, Map.get_set_ne _ _ _ _ h']

theorem boundOf_set (s : Cache) (c c' : ClientId) (x : ClientState) (i : Idx) :
    boundOf (Map.set s c x) c' i = if c' = c then Map.get x.clientIndices i else boundOf s c' i := by
  unfold boundOf
  by_cases h : c' = c
  · subst h; simp [Map.get_set_eq]
  · have h' : c ≠ c' := fun e => h e.symm
    simp [h, Map.get_set_ne _ _ _ _ h']

end PatVerif.Attester
