import PatVerif.Generated.ScLimbs
/-!
# `(*Scalar).SetBytesWithClamping` (C14)

The Go function copies its 32 bytes into a zeroed 64-byte buffer, clears the low three bits of byte 0 and the top two of byte 31,
sets bit 6 of byte 31, and hands the buffer to `scReduce` — the translated routine of `Generated/ScLimbs.lean`. This is that, with
the three byte operations as written (`&= 248`, `&= 63`, `|= 64`); `none` is the length panic. Pinned by `Proofs/SkelScalarMult.lean`,
executed by `scdriver` (`c14.sm clamp`), proved in `Proofs/Clamp.lean`. Core Lean only.
-/
namespace PatVerif.Model.Clamp
open PatVerif.Generated.ScLimbs

/-- the 64-byte buffer after `copy` and the three clamping statements -/
def wideBytes (x : List Nat) : Nat → Int := fun i =>
  if i = 0 then (((x.getD 0 0) &&& 248 : Nat) : Int)
  else if i = 31 then ((((x.getD 31 0) &&& 63) ||| 64 : Nat) : Int)
  else if i < 32 then ((x.getD i 0 : Nat) : Int)
  else 0

def setBytesWithClamping (x : List Nat) : Option (List Int) :=
  if x.length ≠ 32 then none else some (scReduce (wideBytes x))

end PatVerif.Model.Clamp
