import PatVerif.Model.Batch
/-!
# C05 — generic batch issuance keeps order and count and isolates failures

For every configuration of issuers and every batch (any length, any composition).
-/
namespace PatVerif.Props.C05
open PatVerif Codec Structs Batch
set_option linter.unusedSimpArgs false

/-- the slot is filled exactly when a configured issuer of the request's type and truncated key id
evaluates the request successfully -/
theorem evalOne_some_iff (cfg : List IssuerCfg) (e : BatchElem) :
    (evalOne cfg e).isSome ↔
      ∃ i ∈ cfg, i.ty = e.ty ∧ i.keyIdLast = e.req.keyId ∧ (i.eval e.req).isSome := by
  induction cfg with
  | nil => simp [evalOne]
  | cons i rest ih =>
    unfold evalOne
    by_cases hm : i.ty = e.ty ∧ i.keyIdLast = e.req.keyId
    · simp only [hm, and_self, ite_true]
      cases hev : i.eval e.req with
      | some resp =>
        simp only [Option.isSome_some, true_iff]
        exact ⟨i, by simp, hm.1, hm.2, by simp [hev]⟩
      | none =>
        simp only [ih]
        constructor
        · rintro ⟨j, hj, h⟩; exact ⟨j, by simp [hj], h⟩
        · rintro ⟨j, hj, h1, h2, h3⟩
          simp at hj
          rcases hj with rfl | hj
          · simp [hev] at h3
          · exact ⟨j, hj, h1, h2, h3⟩
    · simp only [hm, ite_false, ih]
      constructor
      · rintro ⟨j, hj, h⟩; exact ⟨j, by simp [hj], h⟩
      · rintro ⟨j, hj, h1, h2, h3⟩
        simp at hj
        rcases hj with rfl | hj
        · exact absurd ⟨h1, h2⟩ hm
        · exact ⟨j, hj, h1, h2, h3⟩

/-- whatever fills the slot is the response of a matching configured issuer to this request -/
theorem evalOne_source (cfg : List IssuerCfg) (e : BatchElem) (resp : Bytes) (h : evalOne cfg e = some resp) :
    ∃ i ∈ cfg, i.ty = e.ty ∧ i.keyIdLast = e.req.keyId ∧ i.eval e.req = some resp := by
  induction cfg with
  | nil => simp [evalOne] at h
  | cons i rest ih =>
    unfold evalOne at h
    by_cases hm : i.ty = e.ty ∧ i.keyIdLast = e.req.keyId
    · simp only [hm, and_self, ite_true] at h
      cases hev : i.eval e.req with
      | some r =>
        rw [hev] at h; simp at h; subst h
        exact ⟨i, by simp, hm.1, hm.2, hev⟩
      | none =>
        rw [hev] at h
        obtain ⟨j, hj, hh⟩ := ih h
        exact ⟨j, by simp [hj], hh⟩
    · simp only [hm, ite_false] at h
      obtain ⟨j, hj, hh⟩ := ih h
      exact ⟨j, by simp [hj], hh⟩

/-- with distinct (type, last key-id byte) pairs the matching issuer is unique, so the slot holds
*that* issuer's response or nothing -/
theorem evalOne_distinct (cfg : List IssuerCfg) (hd : CfgDistinct cfg) (e : BatchElem) (i : IssuerCfg)
    (hi : i ∈ cfg) (hm : i.ty = e.ty ∧ i.keyIdLast = e.req.keyId) : evalOne cfg e = i.eval e.req := by
  induction cfg with
  | nil => simp at hi
  | cons j rest ih =>
    obtain ⟨hd1, hd2⟩ := hd
    simp at hi
    unfold evalOne
    rcases hi with rfl | hi
    · simp only [hm, and_self, ite_true]
      cases hev : i.eval e.req with
      | some r => rfl
      | none =>
        -- no later issuer matches
        have : evalOne rest e = none := by
          cases hr : evalOne rest e with
          | none => rfl
          | some r =>
            obtain ⟨k, hk, h1, h2, _⟩ := evalOne_source rest e r hr
            exact absurd ⟨h1.trans hm.1.symm, h2.trans hm.2.symm⟩ (hd1 k hk)
        exact this
    · have hnm : ¬ (j.ty = e.ty ∧ j.keyIdLast = e.req.keyId) := by
        intro hj
        exact hd1 i hi ⟨hm.1.trans hj.1.symm, hm.2.trans hj.2.symm⟩
      simp only [hnm, ite_false]
      exact ih hd2 hi

/-- an entry is present exactly when a configured issuer of that type and truncated key id
evaluates the request successfully; otherwise it is absent -/
theorem present_iff (cfg : List IssuerCfg) (hs : CfgSized cfg) (e : BatchElem) :
    (entryOf cfg e).2.isSome ↔
      ∃ i ∈ cfg, i.ty = e.ty ∧ i.keyIdLast = e.req.keyId ∧ (i.eval e.req).isSome := by
  rw [← evalOne_some_iff]
  unfold entryOf
  cases h : evalOne cfg e with
  | none => simp
  | some resp =>
    obtain ⟨i, hi, _, _, hev⟩ := evalOne_source cfg e resp h
    have := ((hs i hi).2 _ _ hev).2
    simp [this]

theorem entry_wf (cfg : List IssuerCfg) (hs : CfgSized cfg) (e : BatchElem) :
    respEntryCodec.wf (entryOf cfg e) ∧ respEntryCodec.enc (entryOf cfg e) = encodeEntry (entryOf cfg e) := by
  unfold entryOf
  cases h : evalOne cfg e with
  | none => simp [respEntryCodec, sigma, u8, respEntryBody, iso, Codec.unit, encodeEntry]
  | some resp =>
    obtain ⟨i, hi, hty, _, hev⟩ := evalOne_source cfg e resp h
    obtain ⟨hlt, hsz⟩ := hs i hi
    obtain ⟨hl, hpos⟩ := hsz _ _ hev
    simp only [hpos, ite_true]
    rw [hty] at hl hlt
    have h10 : ¬ ((1 : UInt8) = 0) := by decide
    constructor
    · simp only [respEntryCodec, sigma, u8, respEntryBody, h10, ite_false, ite_true, iso, true_and]
      refine ⟨(e.ty, resp), rfl, ?_⟩
      simp only [respPresent, sigma, u16, respBody, hl, fixed]
      exact ⟨hlt, trivial⟩
    · simp [respEntryCodec, sigma, u8, respEntryBody, h10, iso, respPresent, u16, respBody, hl, fixed, encodeEntry]

theorem flatten_eq_manyEnc (cfg : List IssuerCfg) (hs : CfgSized cfg) (es : List BatchElem) :
    (es.map fun e => encodeEntry (entryOf cfg e)).flatten = manyEnc respEntryCodec (es.map (entryOf cfg)) := by
  induction es with
  | nil => simp [manyEnc]
  | cons e es ih => simp [manyEnc, ih, (entry_wf cfg hs e).2]

/-- **order and count**: the client's decoder turns the issuer's output into exactly one entry per
request, in request order, each being that request's own slot — whatever follows the list -/
theorem decode_batch (cfg : List IssuerCfg) (hs : CfgSized cfg) (es : List BatchElem) (rest : Bytes)
    (hlen : ((es.map fun e => encodeEntry (entryOf cfg e)).flatten).length ≤ Quicwire.maxVarint) :
    batchRespCodec.dec (evaluateBatch cfg es ++ rest) = some (es.map (entryOf cfg), rest) := by
  have henc : evaluateBatch cfg es = batchRespCodec.enc (es.map (entryOf cfg)) := by
    simp [evaluateBatch, batchRespCodec, ExactCodec.within, respEntries, many, flatten_eq_manyEnc cfg hs]
  rw [henc]
  apply batchRespCodec.dec_enc
  constructor
  · intro x hx
    simp at hx
    obtain ⟨e, _, rfl⟩ := hx
    exact (entry_wf cfg hs e).1
  · show (manyEnc respEntryCodec (es.map (entryOf cfg))).length ≤ Quicwire.maxVarint
    rw [← flatten_eq_manyEnc cfg hs]; exact hlen

/-- the byte strings the Go decoder hands to the client: per request its slot's response, or the
empty string -/
theorem bodies (cfg : List IssuerCfg) (hs : CfgSized cfg) (es : List BatchElem) :
    respBodies (es.map (entryOf cfg)) = es.map fun e => (evalOne cfg e).getD [] := by
  unfold respBodies
  rw [List.map_map]
  apply List.map_congr_left
  intro e _
  simp only [Function.comp, entryOf]
  cases h : evalOne cfg e with
  | none => simp
  | some resp =>
    obtain ⟨i, hi, _, _, hev⟩ := evalOne_source cfg e resp h
    have := ((hs i hi).2 _ _ hev).2
    simp [this]

/-- **isolation**: entry `k` is a function of request `k` alone — a failing (or any other) request
elsewhere in the batch cannot change or invalidate it -/
theorem isolation (cfg : List IssuerCfg) (es es' : List BatchElem) (k : Nat) (h : es[k]? = es'[k]?) :
    (es.map (entryOf cfg))[k]? = (es'.map (entryOf cfg))[k]? := by
  simp [List.getElem?_map, h]

theorem count (cfg : List IssuerCfg) (es : List BatchElem) : (es.map (entryOf cfg)).length = es.length := by simp

/-! non-vacuity: a two-issuer configuration and a batch with a served, an unknown-key and a failing request -/

def demoCfg : List IssuerCfg :=
  [⟨1, 0xaa, fun r => if r.blinded.length = 49 then some (List.replicate 145 1) else none⟩,
   ⟨2, 0xbb, fun _ => some (List.replicate 256 2)⟩]

def demoBatch : List BatchElem :=
  [⟨1, ⟨0xaa, List.replicate 49 5⟩⟩, ⟨1, ⟨0xab, List.replicate 49 5⟩⟩, ⟨1, ⟨0xaa, []⟩⟩, ⟨2, ⟨0xbb, []⟩⟩]

example : (batchRespCodec.dec (evaluateBatch demoCfg demoBatch)).map (fun p => respBodies p.1) =
    some [List.replicate 145 1, [], [], List.replicate 256 2] := by decide +kernel

end PatVerif.Props.C05
