import PatVerif.Model.Attester
/-!
# C09 — attester origin bookkeeping stays one-to-one over every request history

All statements quantify over every finite sequence of calls (`List Op`), any mix of clients,
indices and anonymous origin IDs. Proof shape: the concrete cache refines a four-line
specification (`refines`), the specification's state is characterised by the history so far
(`Inv`), and every clause of the property is read off that characterisation.
-/
namespace PatVerif.Props.C09
open PatVerif PatVerif.Attester
set_option linter.unusedSimpArgs false

/-! ## refinement: one concrete step is one specification step -/

theorem refines (s : Cache) (op : Op) :
    abs (step s op).1 = (Spec.step (abs s) op).1 ∧ (step s op).2 = (Spec.step (abs s) op).2 := by
  cases op with
  | finalizeBad c => simp [step, Spec.step]
  | verifyBad c => simp [step, Spec.step]
  | verify c =>
    simp only [step, Spec.step]
    cases hg : Map.get s c with
    | some st =>
      refine ⟨?_, rfl⟩
      simp only [abs]
      congr 1
      funext c'
      by_cases h : c' = c
      · subst h; simp [knownOf, hg]
      · simp [h]
    | none =>
      refine ⟨?_, rfl⟩
      simp only [abs]
      congr 1
      · funext c'; rw [knownOf_set]
      · funext c' i
        rw [boundOf_set]
        by_cases h : c' = c
        · subst h; simp [boundOf, hg, emptyState, Map.get]
        · simp [h]
  | finalize c i a =>
    simp only [step, Spec.step]
    cases hg : Map.get s c with
    | none => simp [abs, knownOf, hg]
    | some st =>
      have hk : knownOf s c = true := by simp [knownOf, hg]
      have hb : boundOf s c i = Map.get st.clientIndices i := by simp [boundOf, hg]
      simp only [abs, hk, Bool.not_true, Bool.false_eq_true, ite_false, hb]
      have known_same : ∀ (x : ClientState), knownOf (Map.set s c x) = knownOf s := by
        intro x; funext c'
        rw [knownOf_set]
        by_cases h : c' = c
        · subst h; simp [hk]
        · simp [h]
      rcases finalizeState_spec st i a with ⟨ho, hci, a', hne, hga⟩ | ⟨ho, hci, hga⟩
      · rw [ho, hga]
        simp only [ne_eq, hne, not_false_eq_true, ite_true, and_true]
        congr 1
        · exact known_same _
        · funext c' i'
          rw [boundOf_set, hci]
          by_cases h : c' = c
          · subst h; simp [boundOf, hg]
          · simp [h]
      · rw [ho]
        rcases hga with hga | hga
        · -- already bound to `a`: the specification state does not change
          simp only [hga, ne_eq, not_true_eq_false, ite_false, and_true]
          congr 1
          · exact known_same _
          · funext c' i'
            rw [boundOf_set, hci]
            by_cases h : c' = c
            · subst h
              simp only [ite_true]
              by_cases hi : i' = i
              · subst hi; simp [Map.get_set_eq, boundOf, hg, hga]
              · have hi' : i ≠ i' := fun e => hi e.symm
                simp [Map.get_set_ne _ _ _ _ hi', boundOf, hg]
            · simp [h]
        · simp only [hga, and_true]
          congr 1
          · exact known_same _
          · funext c' i'
            rw [boundOf_set, hci]
            by_cases h : c' = c
            · subst h
              simp only [ite_true, true_and]
              by_cases hi : i' = i
              · subst hi; simp [Map.get_set_eq]
              · have hi' : i ≠ i' := fun e => hi e.symm
                simp [Map.get_set_ne _ _ _ _ hi', hi, boundOf, hg]
            · simp [h]

/-! ## the specification state is a function of the history -/

def Verified (h : History) (c : ClientId) : Prop := (Op.verify c, Out.verified) ∈ h
def Accepted (h : History) (c : ClientId) (i : Idx) (a : Anon) : Prop := (Op.finalize c i a, Out.index i) ∈ h

structure Inv (sp : Spec) (h : History) : Prop where
  known : ∀ c, sp.known c = true ↔ Verified h c
  bound : ∀ c i a, sp.bound c i = some a ↔ Accepted h c i a

theorem inv_init : Inv Spec.init [] := by
  constructor <;> simp [Spec.init, Verified, Accepted]

theorem inv_step (sp : Spec) (h : History) (op : Op) (hi : Inv sp h) :
    Inv (sp.step op).1 (h ++ [(op, (sp.step op).2)]) := by
  obtain ⟨hk, hb⟩ := hi
  cases op with
  | finalizeBad c =>
    constructor
    · intro c'; simp [Spec.step, Verified, hk c'] 
    · intro c' i a; simp [Spec.step, Accepted, hb c' i a]
  | verifyBad c =>
    constructor
    · intro c'; simp [Spec.step, Verified, hk c'] 
    · intro c' i a; simp [Spec.step, Accepted, hb c' i a]
  | verify c =>
    constructor
    · intro c'
      simp only [Spec.step, Verified, List.mem_append, List.mem_singleton, Prod.mk.injEq, Op.verify.injEq, and_true]
      by_cases e : c' = c
      · subst e; simp
      · simp [e, hk c', Verified]
    · intro c' i a
      simp only [Spec.step, Accepted, List.mem_append, List.mem_singleton, Prod.mk.injEq]
      simp [hb c' i a, Accepted]
  | finalize c i a =>
    simp only [Spec.step]
    by_cases hkn : sp.known c = true
    · simp only [hkn, Bool.not_true, Bool.false_eq_true, ite_false]
      cases hbd : sp.bound c i with
      | some a' =>
        by_cases hne : a' = a
        · subst hne
          simp only [ne_eq, not_true_eq_false, ite_false]
          constructor
          · intro c'; simp [Verified, hk c']
          · intro c' i' a''
            simp only [Accepted, List.mem_append, List.mem_singleton, Prod.mk.injEq, Op.finalize.injEq, Out.index.injEq]
            constructor
            · intro hh; exact Or.inl ((hb c' i' a'').mp hh)
            · rintro (hh | ⟨⟨rfl, rfl, rfl⟩, _⟩)
              · exact (hb c' i' a'').mpr hh
              · exact hbd
        · simp only [ne_eq, hne, not_false_eq_true, ite_true]
          constructor
          · intro c'; simp [Verified, hk c']
          · intro c' i' a''; simp [Accepted, hb c' i' a'']
      | none =>
        constructor
        · intro c'; simp [Verified, hk c']
        · intro c' i' a''
          simp only [Accepted, List.mem_append, List.mem_singleton, Prod.mk.injEq, Op.finalize.injEq, Out.index.injEq]
          by_cases e : c' = c ∧ i' = i
          · obtain ⟨rfl, rfl⟩ := e
            simp only [and_self, ite_true, Option.some.injEq, true_and]
            constructor
            · intro hh; exact Or.inr ⟨hh.symm, trivial⟩
            · rintro (hh | ⟨hh, _⟩)
              · have := (hb c' i' a'').mpr hh; rw [hbd] at this; simp at this
              · exact hh.symm
          · simp only [e, ite_false]
            constructor
            · intro hh; exact Or.inl ((hb c' i' a'').mp hh)
            · rintro (hh | ⟨⟨rfl, rfl, _⟩, _⟩)
              · exact (hb c' i' a'').mpr hh
              · exact absurd ⟨rfl, rfl⟩ e
    · have hkn' : sp.known c = false := by simpa using hkn
      simp only [hkn', Bool.not_false, ite_true]
      constructor
      · intro c'; simp [Verified, hk c']
      · intro c' i' a''; simp [Accepted, hb c' i' a'']

/-- after any sequence of calls the abstraction of the cache satisfies the history invariant -/
theorem inv_run (ops : List Op) (s : Cache) (h : History) (hi : Inv (abs s) h) :
    Inv (abs (run (s, h) ops).1) (run (s, h) ops).2 := by
  induction ops generalizing s h with
  | nil => exact hi
  | cons op ops ih =>
    simp only [run]
    apply ih
    have ⟨r1, r2⟩ := refines s op
    rw [r1, r2]
    exact inv_step _ _ _ hi

theorem inv_exec (ops : List Op) : Inv (abs (exec ops).1) (exec ops).2 :=
  inv_run ops [] [] (by
    have : abs [] = Spec.init := by
      simp only [abs, Spec.init]; congr 1
    rw [this]; exact inv_init)

/-! ## the outcome of every call is the one the history prescribes -/

/-- **the characterisation**: after any history, a `FinalizeIndex` call for `(c, i, a)` is refused
as unknown exactly when no request of `c` has been verified; refused as a collision exactly when
some *other* anonymous origin ID was accepted for `(c, i)` before; and accepted, with index `i`,
in every other case — in particular for a repeat of an accepted pair and for an unbound `i`. -/
theorem outcome_spec (ops : List Op) (c : ClientId) (i : Idx) (a : Anon) :
    let s := (exec ops).1
    let h := (exec ops).2
    let out := (step s (.finalize c i a)).2
    (out = .unknownClient ↔ ¬ Verified h c) ∧
    (out = .repeated ↔ Verified h c ∧ ∃ a', a' ≠ a ∧ Accepted h c i a') ∧
    (out = .index i ↔ Verified h c ∧ ¬ ∃ a', a' ≠ a ∧ Accepted h c i a') := by
  intro s h out
  have ⟨hk, hb⟩ := inv_exec ops
  have hout : out = (Spec.step (abs s) (.finalize c i a)).2 := (refines s _).2
  simp only [Spec.step] at hout
  by_cases hkn : (abs s).known c = true
  · have hv : Verified h c := (hk c).mp hkn
    simp only [hkn, Bool.not_true, Bool.false_eq_true, ite_false] at hout
    cases hbd : (abs s).bound c i with
    | some a' =>
      rw [hbd] at hout
      have hacc : Accepted h c i a' := (hb c i a').mp hbd
      by_cases hne : a' = a
      · subst hne
        simp only [ne_eq, not_true_eq_false, ite_false] at hout
        have hno : ¬ ∃ a'', a'' ≠ a' ∧ Accepted h c i a'' := by
          rintro ⟨a'', hn, ha''⟩
          have := (hb c i a'').mpr ha''
          rw [hbd] at this; simp at this; exact hn this.symm
        rw [hout]; simp [hv, hno]
      · simp only [ne_eq, hne, not_false_eq_true, ite_true] at hout
        rw [hout]; simp [hv]
        exact ⟨a', hne, hacc⟩
    | none =>
      rw [hbd] at hout
      have hno : ¬ ∃ a'', a'' ≠ a ∧ Accepted h c i a'' := by
        rintro ⟨a'', _, ha''⟩
        have := (hb c i a'').mpr ha''
        rw [hbd] at this; simp at this
      rw [hout]; simp [hv, hno]
  · have hkn' : (abs s).known c = false := by simpa using hkn
    have hv : ¬ Verified h c := fun hv => hkn ((hk c).mpr hv)
    simp only [hkn', Bool.not_false, ite_true] at hout
    rw [hout]; simp [hv]

/-! ## the clauses of C09 -/

/-- never two different anonymous origin IDs accepted for the same index of one client -/
theorem functional (ops : List Op) (c : ClientId) (i : Idx) (a a' : Anon)
    (h1 : Accepted (exec ops).2 c i a) (h2 : Accepted (exec ops).2 c i a') : a = a' := by
  have ⟨_, hb⟩ := inv_exec ops
  have e1 := (hb c i a).mpr h1
  have e2 := (hb c i a').mpr h2
  rw [e1] at e2; simpa using e2

/-- a repeat of an accepted pair is accepted again -/
theorem repeat_accepted (ops : List Op) (c : ClientId) (i : Idx) (a : Anon)
    (hacc : Accepted (exec ops).2 c i a) (hv : Verified (exec ops).2 c) :
    (step (exec ops).1 (.finalize c i a)).2 = .index i := by
  have ⟨_, _, h3⟩ := outcome_spec ops c i a
  apply h3.mpr
  refine ⟨hv, ?_⟩
  rintro ⟨a', hne, ha'⟩
  exact hne (functional ops c i a' a ha' hacc)

/-- a pair whose index is still unbound is accepted -/
theorem unbound_accepted (ops : List Op) (c : ClientId) (i : Idx) (a : Anon)
    (hv : Verified (exec ops).2 c) (hun : ∀ a', ¬ Accepted (exec ops).2 c i a') :
    (step (exec ops).1 (.finalize c i a)).2 = .index i := by
  have ⟨_, _, h3⟩ := outcome_spec ops c i a
  exact h3.mpr ⟨hv, fun ⟨a', _, ha'⟩ => hun a' ha'⟩

/-- a client for which no request has been verified is refused -/
theorem unknown_refused (ops : List Op) (c : ClientId) (i : Idx) (a : Anon)
    (hv : ¬ Verified (exec ops).2 c) : (step (exec ops).1 (.finalize c i a)).2 = .unknownClient :=
  (outcome_spec ops c i a).1.mpr hv

/-- a rejected call leaves every accepted binding in force (and creates no client) -/
theorem reject_preserves (s : Cache) (op : Op)
    (hrej : (step s op).2 = .unknownClient ∨ (step s op).2 = .repeated ∨ (step s op).2 = .badKey) :
    abs (step s op).1 = abs s := by
  have ⟨r1, r2⟩ := refines s op
  rw [r1]; rw [r2] at hrej
  cases op with
  | verify c => simp [Spec.step] at hrej
  | finalizeBad c => simp [Spec.step]
  | verifyBad c => simp [Spec.step]
  | finalize c i a =>
    simp only [Spec.step] at hrej ⊢
    split
    · rfl
    · split
      · split
        · rfl
        · rfl
      · rename_i hkn _ hbd
        simp [hkn, hbd] at hrej

/-- bindings only ever grow: once accepted, always bound to the same value -/
theorem binding_stable (s : Cache) (op : Op) (c : ClientId) (i : Idx) (a : Anon)
    (hb : (abs s).bound c i = some a) : (abs (step s op).1).bound c i = some a := by
  have ⟨r1, _⟩ := refines s op
  rw [r1]
  cases op with
  | verify c' => simpa [Spec.step] using hb
  | finalizeBad c' => simpa [Spec.step] using hb
  | verifyBad c' => simpa [Spec.step] using hb
  | finalize c' i' a' =>
    simp only [Spec.step]
    split
    · exact hb
    · split
      · split <;> exact hb
      · rename_i hbd
        by_cases e : c = c' ∧ i = i'
        · obtain ⟨rfl, rfl⟩ := e; rw [hbd] at hb; simp at hb
        · simp [e, hb]

/-! ## non-vacuity: a six-step history with two clients, a collision and a repeat after a reject -/

def demo : List Op :=
  [.verify 0, .finalize 0 1 10, .finalize 0 1 11, .finalize 1 1 10, .verify 1, .finalize 0 1 10]

example : (exec demo).2.map (·.2) =
    [.verified, .index 1, .repeated, .unknownClient, .verified, .index 1] := by decide
example : Accepted (exec demo).2 0 1 10 ∧ Verified (exec demo).2 0 ∧ ¬ Accepted (exec demo).2 0 1 11 := by
  unfold Accepted Verified; decide

end PatVerif.Props.C09
