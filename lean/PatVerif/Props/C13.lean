import PatVerif.Exec.ECDSA
import PatVerif.Proofs.DER
import PatVerif.Proofs.Sig
/-!
# C13 — the ECDSA fork accepts and produces exactly standard ECDSA

The executable model (`Exec/ECDSA.lean`, `Model/DER.lean`) is the common specification: the
theorems below are about it; that fork, model and `crypto/ecdsa` return the same verdicts on the
same inputs is the correspondence (observed, not proved — it is a statement about two programs).
-/
namespace PatVerif.Props.C13
open PatVerif PatVerif.Exec PatVerif.DER
set_option linter.unusedSimpArgs false

/-- verification accepts only `0 < r, s < N`: zero, negative and ≥ N values are refused before any
curve arithmetic -/
theorem verify_range (c : Curve) (qx qy : Nat) (hash : Bytes) (r s : Int)
    (h : ecdsaVerify c qx qy hash r s = true) : 0 < r ∧ r < c.n ∧ 0 < s ∧ s < c.n := by
  unfold ecdsaVerify at h
  split at h
  · simp at h
  · rename_i hc
    omega

/-- digest truncation: the integer derived from a digest never has more bits than the group order -/
theorem hashToInt_lt (c : Curve) (hash : Bytes) : hashToInt c hash < 2 ^ (c.n.log2 + 1) := by
  unfold hashToInt
  simp only []
  -- the big-endian value of `k` bytes is below 256^k
  have hb : ∀ l : Bytes, beNat l < 256 ^ l.length := by
    intro l
    induction l with
    | nil => simp [beNat]
    | cons x t ih =>
      rw [beNat_cons]
      have := x.toNat_lt
      simp only [List.length_cons, Nat.pow_succ]
      calc x.toNat * 256 ^ t.length + beNat t < x.toNat * 256 ^ t.length + 256 ^ t.length := by omega
        _ = (x.toNat + 1) * 256 ^ t.length := by rw [Nat.add_mul, Nat.one_mul]
        _ ≤ 256 * 256 ^ t.length := Nat.mul_le_mul_right _ (by omega)
        _ = 256 ^ t.length * 256 := Nat.mul_comm _ _
  rw [Nat.shiftRight_eq_div_pow]
  have h1 := hb (List.take ((c.n.log2 + 1 + 7) / 8) hash)
  have h256 : (256 : Nat) ^ (List.take ((c.n.log2 + 1 + 7) / 8) hash).length =
      2 ^ ((List.take ((c.n.log2 + 1 + 7) / 8) hash).length * 8) := by
    rw [show (256 : Nat) = 2 ^ 8 by rfl, ← Nat.pow_mul, Nat.mul_comm]
  rw [h256] at h1
  by_cases hle : (List.take ((c.n.log2 + 1 + 7) / 8) hash).length * 8 ≤ c.n.log2 + 1
  · have : (List.take ((c.n.log2 + 1 + 7) / 8) hash).length * 8 - (c.n.log2 + 1) = 0 := by omega
    rw [this]; simp
    exact Nat.lt_of_lt_of_le h1 (Nat.pow_le_pow_right (by omega) hle)
  · apply Nat.div_lt_of_lt_mul
    rw [← Nat.pow_add]
    have : (List.take ((c.n.log2 + 1 + 7) / 8) hash).length * 8 - (c.n.log2 + 1) + (c.n.log2 + 1)
        = (List.take ((c.n.log2 + 1 + 7) / 8) hash).length * 8 := by omega
    rw [this]; exact h1

/-- a canonical `SEQUENCE { INTEGER r, INTEGER s }` parses to `(r, s)` … -/
theorem parseSig_canonical (r s : Nat)
    (hr : (natContent r).length < 4294967296) (hs : (natContent s).length < 4294967296)
    (hl : (derNat r ++ derNat s).length < 4294967296) :
    parseSig (tlv 0x30 (derNat r ++ derNat s)) = some ((r : Int), (s : Int)) := by
  unfold parseSig
  have h1 := readTagged_tlv 0x30 (derNat r ++ derNat s) [] (by decide) hl
  rw [List.append_nil] at h1
  rw [h1]
  simp only []
  rw [readInteger_derNat r (derNat s) hr]
  have h2 := readInteger_derNat s [] hs
  rw [List.append_nil] at h2
  simp [h2]

/-- … and any byte after the sequence, or after `s` inside it, makes the parser refuse -/
theorem parseSig_trailing_rejected (body : Bytes) (x : UInt8) (t : Bytes) (hl : body.length < 4294967296) :
    parseSig (tlv 0x30 body ++ x :: t) = none := by
  unfold parseSig
  rw [readTagged_tlv 0x30 body (x :: t) (by decide) hl]

theorem parseSig_trailing_inside_rejected (r s : Nat) (x : UInt8) (t : Bytes)
    (hr : (natContent r).length < 4294967296) (hs : (natContent s).length < 4294967296)
    (hl : (derNat r ++ (derNat s ++ x :: t)).length < 4294967296) :
    parseSig (tlv 0x30 (derNat r ++ (derNat s ++ x :: t))) = none := by
  unfold parseSig
  have h1 := readTagged_tlv 0x30 (derNat r ++ (derNat s ++ x :: t)) [] (by decide) hl
  rw [List.append_nil] at h1
  rw [h1]
  simp only []
  rw [readInteger_derNat r _ hr]
  simp only []
  rw [readInteger_derNat s (x :: t) hs]

/-- signing then verifying succeeds: the algebra (`Proofs/Sig.lean`), for every prime-order group,
every key, nonce and digest value — plain and key-blinded -/
theorem sign_verifies {G : Type} [AddCommGroup G] {n : ℕ} [Fact n.Prime] [Module (ZMod n) G]
    (B : G) (xc : G → ZMod n) (d k e : ZMod n) (hk : k ≠ 0) (hs : k⁻¹ * (e + xc (k • B) * d) ≠ 0) :
    let r := xc (k • B)
    let s := k⁻¹ * (e + r * d)
    xc ((e * s⁻¹) • B + (r * s⁻¹) • (d • B)) = r :=
  Proofs.Sig.ecdsa_correct B xc d k e hk hs

/-- entropy: `Sign` needs 32 bytes (after at most one byte taken by `MaybeReadByte`) and
`GenerateKey` needs `BitSize/8 + 8`, both read with `io.ReadFull`; a source that fails earlier
makes them return the error and nothing else -/
def readFull (need served : Nat) (limit : Option Nat) : Option Nat :=
  match limit with
  | none => some (served + need)
  | some l => if served + need ≤ l then some (served + need) else none

def signEntropy (coin : Bool) (limit : Option Nat) : Option Nat :=
  -- MaybeReadByte: one byte or none; its error is ignored
  let served := match limit with
    | none => if coin then 1 else 0
    | some l => if coin ∧ 1 ≤ l then 1 else 0
  readFull 32 served limit

theorem sign_fail_closed (coin : Bool) (l : Nat) (h : l < 32) : signEntropy coin (some l) = none := by
  unfold signEntropy readFull
  by_cases hc : coin = true ∧ 1 ≤ l <;> simp [hc] <;> omega

theorem sign_succeeds (coin : Bool) (l : Nat) (h : 33 ≤ l) : (signEntropy coin (some l)).isSome = true := by
  unfold signEntropy readFull
  by_cases hc : coin = true ∧ 1 ≤ l <;> simp [hc] <;> omega

/-! non-vacuity -/
example : parseSig [0x30, 6, 2, 1, 5, 2, 1, 7] = some (5, 7) := by decide
example : parseSig [0x30, 0x81, 6, 2, 1, 5, 2, 1, 7] = none := by decide
example : parseSig [0x30, 7, 2, 2, 0, 5, 2, 1, 7] = none := by decide
example : parseSig [0x30, 6, 2, 1, 0xfb, 2, 1, 7] = some (-5, 7) := by decide
example : ecdsaVerify P256 P256.gx P256.gy [1] 0 1 = false := by decide

end PatVerif.Props.C13
