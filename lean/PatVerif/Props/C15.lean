import PatVerif.Exec.Ed25519
import PatVerif.Proofs.Group
import PatVerif.Proofs.Sig
/-!
# C15 — Ed25519 key blinding yields ordinary, invertible, context-bound Ed25519 keys
-/
namespace PatVerif.Props.C15
open PatVerif PatVerif.Exec.Ed25519

/-- **the blinded public key**: the public key multiplied by
`SHA-512(blind ‖ 0x00 ‖ context)[0:32]` reduced mod `L` (definitional in the executable model,
which is compared byte for byte with the fork) -/
theorem blind_pk_spec (H : Bytes → Bytes) (pk blind ctx : Bytes) (A : Point) (hA : Point.decode pk = some A) :
    blindPublicKey H pk blind ctx = some (A.mul (leNat ((H (blind ++ [0] ++ ctx)).take 32) % L)).encode := by
  simp [blindPublicKey, hA, blindScalar]

/-- blinded signing is a function of (key, message, blind, context): deterministic -/
theorem blind_sign_deterministic (H : Bytes → Bytes) (sk msg blind ctx : Bytes) :
    blindKeySign H sk msg blind ctx = blindKeySign H sk msg blind ctx := rfl

section algebra
variable {G : Type} [AddCommGroup G]

/-- a signature made with the blinded key (secret scalar `s·b`) satisfies the verification equation
under the blinded public key `b • A` -/
theorem blinded_signature_verifies {n : ℕ} [Fact n.Prime] [Module (ZMod n) G] (B : G) (s b r k : ZMod n) :
    (r + k * (s * b)) • B = r • B + k • (b • (s • B)) := Proofs.Sig.eddsa_blinded_correct B s b r k

/-- unblinding inverts blinding on the prime-order subgroup -/
theorem unblind_blind (n : ℕ) [Fact n.Prime] (A : G) (hA : n • A = 0) (b : ℕ) (hb : ¬ n ∣ b) :
    ((b : ZMod n)⁻¹).val • (b • A) = A := Proofs.Group.unblind_blind n A hA b hb

theorem blind_comm (A : G) (a b : ℕ) : a • (b • A) = b • (a • A) := Proofs.Group.blind_comm A a b

theorem blind_changes_key (n : ℕ) [Fact n.Prime] (A : G) (hA : n • A = 0) (hA0 : A ≠ 0) (a b : ℕ)
    (h : a % n ≠ b % n) : a • A ≠ b • A := fun e => h (Proofs.Group.blind_injective n A hA hA0 a b e)

end algebra

example : (blindPublicKey (fun _ => List.replicate 64 1) (Point.encode basePoint) [] []).isSome = true := by
  decide +kernel

end PatVerif.Props.C15
