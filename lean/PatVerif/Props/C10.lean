import PatVerif.Props.C01
/-!
# C10 — issuer-side token verification accepts exactly the tokens it issued
-/
namespace PatVerif.Props.C10
open PatVerif Codec Structs Issuance

/-- verification accepts a token exactly when its authenticator is the (VOPRF) evaluation, under
the issuer's key, of `type ‖ nonce ‖ context ‖ key id` **as carried in the token** — for fields
of arbitrary length (the comparison is `bytes.Equal`: any length or byte difference rejects) -/
theorem verify_iff (S : Scheme) (sk : S.Sk) (t : Token) :
    issuerVerify S sk t = true ↔ t.auth = S.authOf sk (encU16 t.tokenType ++ t.nonce ++ t.context ++ t.keyId) [] := by
  unfold issuerVerify Token.authInput
  constructor
  · intro h; exact (beq_iff_eq.mp h).symm
  · intro h; exact beq_iff_eq.mpr h.symm

/-- changing any bit of the authenticator of an accepted token makes verification fail (unconditional) -/
theorem changed_auth_rejected (S : Scheme) (sk : S.Sk) (t : Token) (auth' : Bytes)
    (h : issuerVerify S sk t = true) (hne : auth' ≠ t.auth) :
    issuerVerify S sk { t with auth := auth' } = false := by
  have h1 := (verify_iff S sk t).mp h
  cases hv : issuerVerify S sk { t with auth := auth' } with
  | false => rfl
  | true =>
    have h2 := (verify_iff S sk { t with auth := auth' }).mp hv
    simp only at h2
    exact absurd (h2.trans h1.symm) hne

/-- changing a field of the authenticator input, presenting the token to another key, or to an
issuer of the other type (the type is part of the input) makes verification fail — provided the
PRF does not collide on the two (key, input) pairs involved (named hypothesis: collision freeness
of a PRF is a cryptographic assumption) -/
theorem changed_input_rejected (S : Scheme) (sk sk' : S.Sk) (t t' : Token)
    (h : issuerVerify S sk t = true) (hauth : t'.auth = t.auth)
    (hprf : S.authOf sk' t'.authInput [] ≠ S.authOf sk t.authInput []) :
    issuerVerify S sk' t' = false := by
  have h1 := (verify_iff S sk t).mp h
  cases hv : issuerVerify S sk' t' with
  | false => rfl
  | true =>
    have h2 := (verify_iff S sk' t').mp hv
    rw [hauth, h1] at h2
    exact absurd h2.symm hprf

/-- the authenticator input is injective on tokens with the wire's field widths: two well-sized
tokens with the same input have the same type, nonce, context and key id -/
theorem authInput_injective (t t' : Token) (h1 : t.tokenType < 65536) (h1' : t'.tokenType < 65536)
    (h2 : t.nonce.length = 32) (h2' : t'.nonce.length = 32) (h3 : t.context.length = 32) (h3' : t'.context.length = 32)
    (h4 : t.keyId.length = 32) (h4' : t'.keyId.length = 32) (e : t.authInput = t'.authInput) :
    t.tokenType = t'.tokenType ∧ t.nonce = t'.nonce ∧ t.context = t'.context ∧ t.keyId = t'.keyId := by
  have := (u16 ⊗ fixed 32 ⊗ fixed 32 ⊗ fixed 32).enc_injective
    (t.tokenType, t.nonce, t.context, t.keyId) (t'.tokenType, t'.nonce, t'.context, t'.keyId)
    ⟨h1, h2, h3, h4⟩ ⟨h1', h2', h3', h4'⟩
    (by simpa [pair, u16, fixed, Token.authInput, List.append_assoc] using e)
  simpa using this

/-! non-vacuity: the toy scheme of C01 accepts its own token and rejects a changed one -/
example : issuerVerify C01.toy () ⟨1, List.replicate 32 5, List.replicate 32 0, List.replicate 32 6, List.replicate 48 98⟩ = true ∧
    issuerVerify C01.toy () ⟨1, List.replicate 32 5, List.replicate 32 0, List.replicate 32 6, List.replicate 48 99⟩ = false := by
  decide +kernel

end PatVerif.Props.C10
