import PatVerif.Exec.KeyBlind
import PatVerif.Proofs.Group
import PatVerif.Proofs.Sig
/-!
# C12 — ECDSA key blinding is consistent, invertible, commutative and context-bound

The algebraic clauses hold in every group of prime order (all four NIST curves are such groups);
the derivation of the blinding factor is the executable definition `KeyBlind.hashBlind`, which the
correspondence compares byte for byte with the Go fork on all four curves.
-/
namespace PatVerif.Props.C12
open PatVerif PatVerif.Exec

/-- **the blinding factor**: hash_to_field (XMD with the curve's hash, DST "ECDSA Key Blind",
expansion length 32/48/72/98) of `blind-key bytes ‖ 0x00 ‖ context`, modulo the group order -/
theorem hashBlind_spec (c : Curve) (h : HashAlg) (L : Nat) (hp : KeyBlind.blindParams c = some (h, L))
    (blindKey : Nat) (ctx : Bytes) :
    KeyBlind.hashBlind c blindKey ctx =
      hashToField h (KeyBlind.minBE blindKey ++ [0] ++ ctx) "ECDSA Key Blind".toUTF8.toList c.n L := by
  simp [KeyBlind.hashBlind, hp, KeyBlind.dst]

theorem blindParams_table :
    KeyBlind.blindParams P224 = some (.sha256, 32) ∧ KeyBlind.blindParams P256 = some (.sha256, 48) ∧
    KeyBlind.blindParams P384 = some (.sha384, 72) ∧ KeyBlind.blindParams P521 = some (.sha512, 98) := by
  decide

section algebra
variable {G : Type} [AddCommGroup G]

/-- a signature made with the blinded signing key `d·b` verifies under the blinded public key -/
theorem blinded_signature_verifies {n : ℕ} [Fact n.Prime] [Module (ZMod n) G]
    (B : G) (xc : G → ZMod n) (d b k e : ZMod n) (hk : k ≠ 0)
    (hs : k⁻¹ * (e + xc (k • B) * (d * b)) ≠ 0) :
    let r := xc (k • B)
    let s := k⁻¹ * (e + r * (d * b))
    xc ((e * s⁻¹) • B + (r * s⁻¹) • (b • (d • B))) = r :=
  Proofs.Sig.ecdsa_blinded_correct B xc d b k e hk hs

/-- … and satisfies the verification equation under the *unblinded* key only if `b = 1`, `r = 0`
or `d = 0` -/
theorem not_under_unblinded {n : ℕ} [Fact n.Prime] [Module (ZMod n) G]
    (B : G) (hB : ∀ a : ZMod n, a • B = 0 → a = 0) (d b k e r : ZMod n) (hk : k ≠ 0)
    (hs : k⁻¹ * (e + r * (d * b)) ≠ 0)
    (h : let s := k⁻¹ * (e + r * (d * b)); (e * s⁻¹) • B + (r * s⁻¹) • (d • B) = k • B) :
    b = 1 ∨ r = 0 ∨ d = 0 :=
  Proofs.Sig.ecdsa_blinded_not_under_unblinded B hB d b k e r hk hs h

/-- unblinding inverts blinding -/
theorem unblind_blind (n : ℕ) [Fact n.Prime] (P : G) (hP : n • P = 0) (b : ℕ) (hb : ¬ n ∣ b) :
    ((b : ZMod n)⁻¹).val • (b • P) = P := Proofs.Group.unblind_blind n P hP b hb

/-- blinding with two blinds gives the same key in either order -/
theorem blind_comm (P : G) (a b : ℕ) : a • (b • P) = b • (a • P) := Proofs.Group.blind_comm P a b

/-- different blinding factors (mod the order) give different blinded keys -/
theorem blind_changes_key (n : ℕ) [Fact n.Prime] (P : G) (hP : n • P = 0) (hP0 : P ≠ 0) (a b : ℕ)
    (h : a % n ≠ b % n) : a • P ≠ b • P := fun e => h (Proofs.Group.blind_injective n P hP hP0 a b e)

end algebra

/-! non-vacuity: the blinding factor of a concrete key/context on P-256 is a non-zero residue -/
example : 0 < KeyBlind.hashBlind P256 7 [1, 2] ∧ KeyBlind.hashBlind P256 7 [1, 2] < P256.n := by
  constructor <;> decide +kernel

end PatVerif.Props.C12
