import PatVerif.Props.C01
import PatVerif.Model.Partial
/-!
# C02 — a client only ever outputs tokens that verify and belong to its own request
-/
namespace PatVerif.Props.C02
open PatVerif Codec Structs Issuance
set_option linter.unusedSimpArgs false

/-- whatever the response bytes are: if finalization returns a token, that token carries the
request's own type, nonce, challenge digest and key id, and its authenticator is what the
primitive's unblinding returned -/
theorem finalize_bound (S : Scheme) (H : Bytes → Bytes) (hH : ∀ x, (H x).length = 32) (hty : S.ty < 65536)
    (recheck : Bool) (pk challenge nonce keyId sec resp : Bytes) (hn : nonce.length = 32) (hk : keyId.length = 32)
    (tok : Token)
    (h : clientFinalize S recheck ⟨tokenInput S H challenge nonce keyId, pk, sec⟩ resp = some tok) :
    tok.tokenType = S.ty ∧ tok.nonce = nonce ∧ tok.context = H challenge ∧ tok.keyId = keyId ∧
    tok.auth.length = S.nk ∧
    ∃ a, S.finalize pk (tokenInput S H challenge nonce keyId) sec resp = some a ∧ tok.auth = a.take S.nk := by
  unfold clientFinalize at h
  simp only at h
  cases hf : S.finalize pk (tokenInput S H challenge nonce keyId) sec resp with
  | none => simp [hf] at h
  | some a =>
    simp only [hf] at h
    cases hd : (tokenCodec S.nk).dec (tokenInput S H challenge nonce keyId ++ a) with
    | none => simp [hd] at h
    | some p =>
      obtain ⟨t, r⟩ := p
      -- the decoder accepted, so the spliced string is long enough …
      have ⟨hw, hl⟩ := (tokenCodec S.nk).enc_dec _ _ _ hd
      have hlen : S.nk ≤ a.length := by
        rw [tokenCodec_enc] at hl
        obtain ⟨_, w1, w2, w3, w4⟩ := hw
        simp [Token.marshal, Token.authInput, tokenInput, encU16, w1, w2, w3, w4, hn, hk, hH] at hl
        omega
      -- … and then its parse is forced
      have hp := C01.tokenInput_parse S H hH hty challenge nonce keyId a hn hk hlen
      rw [hp] at hd
      simp only [Option.some.injEq, Prod.mk.injEq] at hd
      obtain ⟨rfl, _⟩ := hd
      simp only [hp] at h
      split at h
      · simp at h
      · simp only [Option.some.injEq] at h
        subst h
        exact ⟨rfl, rfl, rfl, rfl, by simp [List.length_take]; omega, a, rfl, rfl⟩

/-- **soundness of finalization.** Types 2 and 3 (`recheck = true`: the client re-verifies the
signature before returning) — unconditional: a returned token verifies under the pinned key. -/
theorem finalize_sound_rechecked (S : Scheme) (st : ClientState) (resp : Bytes) (tok : Token)
    (h : clientFinalize S true st resp = some tok) : S.valid st.pk tok.authInput tok.auth = true := by
  unfold clientFinalize at h
  split at h
  · simp at h
  · split at h
    · simp at h
    · rename_i a _ t r hd
      split at h
      · simp at h
      · rename_i hv
        simp only [Option.some.injEq] at h
        subst h
        simpa using hv

/-- Types 1 and 5 (`recheck = false`): a returned token verifies provided the VOPRF client's
proof check is sound — the named hypothesis `sound` (DLEQ soundness is a cryptographic
assumption, not a theorem). -/
theorem finalize_sound_voprf (S : Scheme) (H : Bytes → Bytes) (hH : ∀ x, (H x).length = 32) (hty : S.ty < 65536)
    (sound : ∀ pk i s resp a, S.finalize pk i s resp = some a → S.valid pk i a = true ∧ a.length = S.nk)
    (pk challenge nonce keyId sec resp : Bytes) (hn : nonce.length = 32) (hk : keyId.length = 32) (tok : Token)
    (h : clientFinalize S false ⟨tokenInput S H challenge nonce keyId, pk, sec⟩ resp = some tok) :
    S.valid pk tok.authInput tok.auth = true := by
  obtain ⟨h1, h2, h3, h4, _, a, hf, ha⟩ := finalize_bound S H hH hty false pk challenge nonce keyId sec resp hn hk tok h
  obtain ⟨hv, hl⟩ := sound _ _ _ _ _ hf
  have : tok.authInput = tokenInput S H challenge nonce keyId := by
    simp [Token.authInput, tokenInput, h1, h2, h3, h4]
  rw [this, ha, List.take_of_length_le (by omega)]
  exact hv

/-- in every other case — the primitive rejects the response — the client returns an error -/
theorem finalize_rejects (S : Scheme) (recheck : Bool) (st : ClientState) (resp : Bytes)
    (h : S.finalize st.pk st.tokenInput st.secret resp = none) : clientFinalize S recheck st resp = none := by
  simp [clientFinalize, h]

/-- type 5: a response whose element count differs from the number of requested tokens is rejected
before any cryptography (`Model/Partial.lean`, `type5Finalize`) -/
theorem batch_count_mismatch (d : Partial.T5Dep) (n : Nat) (resp : Bytes) (v : List Bytes) (a : Nat)
    (h : Partial.type5Finalize d n resp = .ok (v, a)) :
    ((Quicwire.consumeVarint resp).1) / 32 = n := by
  unfold Partial.type5Finalize at h
  simp only at h
  split at h
  · simp at h
  · split at h
    · simp at h
    · split at h
      · simp at h
      · rename_i hl
        rw [slice_to _ _ (by omega)] at h
        simp only [Res.bind_ok] at h
        split at h
        · simp at h
        · split at h
          · simp at h
          · rename_i hcnt
            simp only [List.length_take] at hcnt
            have : min (Quicwire.consumeVarint resp).1 (List.drop (Quicwire.consumeVarint resp).2.toNat resp).length
                = (Quicwire.consumeVarint resp).1 := by omega
            rw [this] at hcnt
            simpa using hcnt

example : clientFinalize C01.toy false ⟨tokenInput C01.toy (fun _ => List.replicate 32 0) [1] (List.replicate 32 5) (List.replicate 32 6), [1], []⟩ [] ≠ none := by
  decide +kernel

end PatVerif.Props.C02
