import PatVerif.Proofs.Recode
import PatVerif.Proofs.EdGroup
import PatVerif.Proofs.DoubleScalarMultRefine
import PatVerif.Proofs.ScalarGlue
import PatVerif.Proofs.BaseOrder
import PatVerif.Proofs.EdEncode
/-!
# C14 / C15: the scalar multiplications of the Ed25519 fork, end to end

Signing computes `[r]B` and `[s]B` with `ScalarBaseMult`, key blinding computes `[b]A` with `ScalarMult`, verification computes
`[S]B − [k]A` with `VarTimeDoubleScalarBaseMult`. Each is a digit recoding of the scalar (`Model/Recode.lean`, the literal model of
`signedRadix16` / `nonAdjacentForm`, executed against the Go code on every run) followed by a table-driven loop
(`Model/ScalarMultAlg.lean`, pinned statement by statement to `scalarmult.go` / `tables.go`). The statements below compose
`Proofs/Recode.lean` (the digits represent the scalar and lie in the digit sets) with `Proofs/ScalarMultAlg.lean` (the loops
compute `Σ dᵢ·radixⁱ` times the point from any digits in those sets): **for every scalar the Go code can hold (32 bytes, top bit
clear) and all points of any commutative group, the recoding succeeds, no table lookup leaves its table, and the result is the
scalar multiple.** `curve_is_group` / `Point_Add_is_group_add` say that the points of edwards25519 with the addition the translated
Go formulas compute are such a group (associativity included, `Proofs/EdAssoc.lean`).

The last three statements (`ScalarMult_translated`, `ScalarBaseMult_translated`, `VarTimeDoubleScalarBaseMult_translated`) close the gap
between these group-level loops and the Go code: `Model/ScalarMultLit.lean` transcribes `scalarmult.go` and `tables.go` statement by
statement over the **translated** point formulas (it is what `scdriver` executes against the Go code on every `c14.sm` operation),
`Proofs/EdRepr.lean` proves every translated formula correct with respect to the group element its coordinates stand for (five coordinate
systems), and `Proofs/ScalarMultRefine`, `ScalarBaseMultRefine`, `DoubleScalarMultRefine` compose them along the loops: for every scalar
and every valid point the results are valid points standing for `x • g`, `x • B` and `a • gA + b • B` in the curve group.

What this does not say: `SetBytesWithClamping` and `ModInverse` (math/big) are not modelled; the transcription of the two Go files is by
hand (pinned statement by statement, executed), not by a translator.
-/
namespace PatVerif.Props.C14Mult
open PatVerif.Model.Recode PatVerif.Model.ScalarMultAlg PatVerif.Proofs.Recode PatVerif.Proofs.ScalarMultAlg PatVerif.Proofs.EdGroup

variable {G : Type} [AddCommGroup G]

theorem radix16_digits_small (s : List Nat) (h : IsScalar s) :
    ∃ ds, signedRadix16 s = some ds ∧ ds.length = 64 ∧ evalDigits 4 ds = (leNat s : Int) ∧ ∀ d ∈ ds, d.natAbs ≤ 8 := by
  obtain ⟨ds, e, hl, hv, hlow, h0, h8⟩ := signedRadix16_spec s h
  refine ⟨ds, e, hl, hv, ?_⟩
  intro d hd
  obtain ⟨i, hi, rfl⟩ := List.getElem_of_mem hd
  have hg : ds.getD i 0 = ds[i] := by rw [List.getD_eq_getElem?_getD, List.getElem?_eq_getElem hi]; rfl
  by_cases h63 : i < 63
  · have := hlow i h63; rw [hg] at this; omega
  · have : i = 63 := by omega
    subst this; rw [hg] at h0 h8; omega

/-- `ScalarMult(x, Q)` (key blinding, unblinding): recoding, then the variable-base loop, is `x • Q` -/
theorem scalarMult_correct (s : List Nat) (h : IsScalar s) (Q : G) :
    ∃ ds, signedRadix16 s = some ds ∧ varMult grp ds Q = (leNat s : Int) • Q := by
  obtain ⟨ds, e, _, hv, hd⟩ := radix16_digits_small s h
  exact ⟨ds, e, by rw [varMult_spec ds Q hd, hv]⟩

/-- `ScalarBaseMult(x)` (key generation, signing): recoding, then the fixed-base loop over the 32 tables, is `x • B` -/
theorem scalarBaseMult_correct (s : List Nat) (h : IsScalar s) (B : G) :
    ∃ ds, signedRadix16 s = some ds ∧ baseMult grp ds B = (leNat s : Int) • B := by
  obtain ⟨ds, e, hl, hv, hd⟩ := radix16_digits_small s h
  exact ⟨ds, e, by rw [baseMult_spec ds B hl hd, hv]⟩

theorem naf_digits (s : List Nat) (h : IsScalar s) (w n : Nat) (hw : w = 5 ∨ w = 8) (hn : (2 : Int) ^ (w - 1) = 2 * n) :
    ∃ naf, nonAdjacentForm s w = some naf ∧ naf.length = 256 ∧ evalDigits 1 naf = (leNat s : Int) ∧ ∀ d ∈ naf, NafDigit n d := by
  obtain ⟨naf, e, hl, hv, hd⟩ := nonAdjacentForm_spec s h w hw
  refine ⟨naf, e, hl, hv, ?_⟩
  intro d hm
  obtain ⟨i, hi, rfl⟩ := List.getElem_of_mem hm
  have hg : naf.getD i 0 = naf[i] := by rw [List.getD_eq_getElem?_getD, List.getElem?_eq_getElem hi]; rfl
  have := hd i (by omega)
  rw [hg, hn] at this
  exact this

/-- `VarTimeDoubleScalarBaseMult(a, A, b)` (verification): both non-adjacent forms exist, every table index stays inside its
table (the result is `some`), and the result is `a • A + b • B` -/
theorem doubleScalarMult_correct (a b : List Nat) (ha : IsScalar a) (hb : IsScalar b) (A B : G) :
    ∃ an bn, nonAdjacentForm a 5 = some an ∧ nonAdjacentForm b 8 = some bn ∧
      doubleMult grp an bn A B = some ((leNat a : Int) • A + (leNat b : Int) • B) := by
  obtain ⟨an, ea, la, va, da⟩ := naf_digits a ha 5 8 (Or.inl rfl) (by norm_num)
  obtain ⟨bn, eb, lb, vb, db⟩ := naf_digits b hb 8 64 (Or.inr rfl) (by norm_num)
  exact ⟨an, bn, ea, eb, by rw [doubleMult_spec A B an bn (by omega) da db, va, vb]⟩

/-- the points of edwards25519 are a commutative group … -/
instance curve_is_group : AddCommGroup EdPoint := inferInstance

/-- … whose addition is what the translated `Point.Add` computes on valid points (and whose negation is `Point.Negate`) -/
theorem Point_Add_is_group_add (v p q : Generated.EdPoints.Point) (hp : Proofs.EdComplete.Valid p) (hq : Proofs.EdComplete.Valid q) :
    toEd (Generated.EdPoints.Point_Add v p q) (Proofs.EdComplete.Valid_Add v p q hp hq).1 = toEd p hp + toEd q hq :=
  Point_Add_group v p q hp hq

/-- so in particular, on the curve: -/
theorem scalarMult_on_curve (s : List Nat) (h : IsScalar s) (Q : EdPoint) :
    ∃ ds, signedRadix16 s = some ds ∧ varMult grp ds Q = (leNat s : Int) • Q := scalarMult_correct s h Q

/-- **`(*Point).ScalarMult` of the Go code** (literal loop over the translated formulas): recoding, table, selection and the 63 rounds
yield a valid point standing for `x • g` -/
theorem ScalarMult_translated (s : List Nat) (h : IsScalar s) (q : Generated.EdPoints.Point) (g : EdPoint) (hq : Proofs.EdRepr.ReprP3 q g) :
    ∃ ds, signedRadix16 s = some ds ∧ Proofs.EdRepr.ReprP3 (Model.ScalarMultLit.scalarMult ds q) ((leNat s : Int) • g) :=
  Proofs.ScalarMultRefine.scalarMult_correct s h q g hq

/-- **`(*Point).ScalarBaseMult` of the Go code**: with the translated `basepointTable`, a valid point standing for `x • B` -/
theorem ScalarBaseMult_translated (s : List Nat) (h : IsScalar s) :
    ∃ ds, signedRadix16 s = some ds ∧
      Proofs.EdRepr.ReprP3 (Model.ScalarMultLit.scalarBaseMult Model.ScalarMultLit.basepointTable ds)
        ((leNat s : Int) • Proofs.ScalarBaseMultRefine.basePoint) :=
  Proofs.ScalarBaseMultRefine.scalarBaseMult_correct s h

/-- **`(*Point).VarTimeDoubleScalarBaseMult` of the Go code**: both non-adjacent forms exist, no lookup leaves its table, and the result is a
valid point standing for `a • gA + b • B` -/
theorem VarTimeDoubleScalarBaseMult_translated (a b : List Nat) (ha : IsScalar a) (hb : IsScalar b)
    (A : Generated.EdPoints.Point) (gA : EdPoint) (hA : Proofs.EdRepr.ReprP3 A gA) :
    ∃ an bn R, nonAdjacentForm a 5 = some an ∧ nonAdjacentForm b 8 = some bn ∧
      Model.ScalarMultLit.doubleScalarMult Model.ScalarMultLit.basepointNafTable an bn A = some R ∧
      Proofs.EdRepr.ReprP3 R ((leNat a : Int) • gA + (leNat b : Int) • Proofs.ScalarBaseMultRefine.basePoint) :=
  Proofs.DoubleScalarMultRefine.doubleScalarMult_correct a b ha hb A gA hA

/-- **public-key derivation of the Go code** (`ScalarBaseMult(SetBytesWithClamping(h))`, `h` the first half of SHA-512(seed)): for any
32 bytes, clamping (three byte operations, translated `scReduce`), recoding and the fixed-base loop return a valid point standing for
`(clamp(h) mod L) • B` -/
theorem public_key_translated (h : List Nat) (hl : h.length = 32) (hb : ∀ i, h.getD i 0 < 256) :
    ∃ out ds, Model.Clamp.setBytesWithClamping h = some out ∧ signedRadix16 (out.map Int.toNat) = some ds ∧
      Proofs.EdRepr.ReprP3 (Model.ScalarMultLit.scalarBaseMult Model.ScalarMultLit.basepointTable ds)
        ((Proofs.ScHelp.leFn (Model.Clamp.wideBytes h) 64 % Proofs.ScHelp.L) • Proofs.ScalarBaseMultRefine.basePoint) :=
  Proofs.ScalarGlue.pubkey_translated h hl hb

/-- **key blinding of the Go code** (C15: `ScalarMult(SetBytes(SHA-512(blind‖0‖ctx)[:32]), A)`): for any 32 bytes `x` and any valid key `A`
standing for `g`, translated `SetBytes`, recoding and the variable-base loop return a valid point standing for `(x mod L) • g` -/
theorem key_blinding_translated (x : Nat → Int) (hx : Proofs.ScScalar.IsBytes x) (q : Generated.EdPoints.Point) (g : EdPoint)
    (hq : Proofs.EdRepr.ReprP3 q g) :
    ∃ ds, signedRadix16 ((Generated.ScLimbs.Scalar_SetBytes x).map Int.toNat) = some ds ∧
      Proofs.EdRepr.ReprP3 (Model.ScalarMultLit.scalarMult ds q) ((Proofs.ScHelp.leFn x 32 % Proofs.ScHelp.L) • g) :=
  Proofs.ScalarGlue.blind_mult_translated x hx q g hq

/-- **the base point has order dividing L** — obtained by running the proved `ScalarMult` on the bytes of `L` in the kernel -/
theorem base_point_order : Proofs.ScHelp.L • Proofs.ScalarBaseMultRefine.basePoint = 0 := Proofs.BaseOrder.order_B

/-- **`Verify`'s group computation on the translated code, for an honest signature**: key standing for `s • B`, `S` encoding `(r + k·s) mod L`:
`VarTimeDoubleScalarBaseMult(k, −A, S)` returns a valid point standing for `r • B`, which is what `R` stands for -/
theorem honest_signature_passes (k S : List Nat) (hk : IsScalar k) (hS : IsScalar S) (A : Generated.EdPoints.Point) (s r : Int)
    (hA : Proofs.EdRepr.ReprP3 A (s • Proofs.ScalarBaseMultRefine.basePoint))
    (hSv : ((leNat S : Nat) : Int) = (r + (leNat k : Int) * s) % Proofs.ScHelp.L) :
    ∃ kn Sn R, nonAdjacentForm k 5 = some kn ∧ nonAdjacentForm S 8 = some Sn ∧
      Model.ScalarMultLit.doubleScalarMult Model.ScalarMultLit.basepointNafTable kn Sn
        (Generated.EdPoints.Point_Negate Model.ScalarMultLit.zP A) = some R ∧
      Proofs.EdRepr.ReprP3 R (r • Proofs.ScalarBaseMultRefine.basePoint) :=
  Proofs.BaseOrder.honest_signature_point k S hk hS A s r hA hSv

/-- **the Go pipeline and the RFC 8032 reference write the same bytes**: for every scalar, every translated Go point `q` and reference point `e`
standing for the same group element, `Point.bytes(ScalarMult(x, q))` over the translated code equals the reference's `(Point.mul x e).encode` -/
theorem ScalarMult_bytes_agree_with_reference (s : List Nat) (hs : IsScalar s) (q : Generated.EdPoints.Point) (e : Exec.Ed25519.Point) (g : EdPoint)
    (hq : Proofs.EdRepr.ReprP3 q g) (he : Proofs.EdRefGroup.ReprRef e g) (buf : List Nat) :
    ∃ ds, signedRadix16 s = some ds ∧
      Generated.EdPoints.Point_bytes (Model.ScalarMultLit.scalarMult ds q) buf
        = ((Exec.Ed25519.Point.mul (leNat s) e).encode).map UInt8.toNat := by
  obtain ⟨ds, e1, e2, _⟩ := Proofs.EdEncode.scalarMult_bytes_agree s hs q e g hq he buf
  exact ⟨ds, e1, e2⟩

/-- **unblinding inverts blinding** (C15) on multiples of the base point: `b·b' ≡ 1 (mod L)` gives `b' • (b • A) = A` -/
theorem unblind_blind (b b' s : Int) (h : (b * b') % Proofs.ScHelp.L = 1) :
    b' • (b • (s • Proofs.ScalarBaseMultRefine.basePoint)) = s • Proofs.ScalarBaseMultRefine.basePoint :=
  Proofs.BaseOrder.unblind_blind_on_curve b b' s h

/-- non-vacuity of the three: the decoded generator is a valid point standing for the base point -/
example : Proofs.EdRepr.ReprP3 Model.ScalarMultLit.generator Proofs.ScalarBaseMultRefine.basePoint :=
  Proofs.ScalarBaseMultRefine.generator_repr

/-- non-vacuity: a scalar with every recoding carry set, in the group ℤ -/
example : ∃ ds, signedRadix16 (List.replicate 31 255 ++ [127]) = some ds ∧
    varMult (grp : Ops ℤ) ds 3 = ((leNat (List.replicate 31 255 ++ [127]) : Int)) • (3 : ℤ) :=
  scalarMult_correct _ (by decide) 3

end PatVerif.Props.C14Mult
