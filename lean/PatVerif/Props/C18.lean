import PatVerif.Model.TokenKey
import PatVerif.Proofs.DER
import PatVerif.Exec.SHA2
/-!
# C18 — token keys encode canonically and key identifiers are derived from them
-/
namespace PatVerif.Props.C18
open PatVerif DER TokenKey
set_option linter.unusedSimpArgs false

/-- the RSASSA-PSS AlgorithmIdentifier is byte for byte the DER prescribed for Privacy Pass token
keys: SHA-384, MGF1 with SHA-384, salt length 48 -/
theorem algIdPSS_bytes : algIdPSS =
    [0x30, 0x3d, 0x06, 0x09, 0x2a, 0x86, 0x48, 0x86, 0xf7, 0x0d, 0x01, 0x01, 0x0a, 0x30, 0x30,
     0xa0, 0x0d, 0x30, 0x0b, 0x06, 0x09, 0x60, 0x86, 0x48, 0x01, 0x65, 0x03, 0x04, 0x02, 0x02,
     0xa1, 0x1a, 0x30, 0x18, 0x06, 0x09, 0x2a, 0x86, 0x48, 0x86, 0xf7, 0x0d, 0x01, 0x01, 0x08,
     0x30, 0x0b, 0x06, 0x09, 0x60, 0x86, 0x48, 0x01, 0x65, 0x03, 0x04, 0x02, 0x02,
     0xa2, 0x03, 0x02, 0x01, 0x30] := by decide +kernel

theorem algIdLegacy_bytes : algIdLegacy =
    [0x30, 0x0d, 0x06, 0x09, 0x2a, 0x86, 0x48, 0x86, 0xf7, 0x0d, 0x01, 0x01, 0x01, 0x05, 0x00] := by decide +kernel

/-- the RSASSA-PSS form of a key is `SEQUENCE { that AlgorithmIdentifier, BIT STRING (0 unused bits)
of SEQUENCE { INTEGER n, INTEGER e } }` — only the lengths and the two integers vary -/
theorem spkiPSS_shape (n e : Nat) :
    spkiPSS n e = tlv 0x30 (algIdPSS ++ tlv 3 (0 :: tlv 0x30 (derNat n ++ derNat e))) := rfl

/-- **decoding inverts encoding**, for every modulus and every exponent below 2^63, in both
SubjectPublicKeyInfo forms (any AlgorithmIdentifier that is one well-formed SEQUENCE, in fact) -/
theorem unmarshal_spki (algBody : Bytes) (n e : Nat)
    (he : (natContent e).length ≤ 8)
    (hsz : (tlv 0x30 algBody ++ tlv 3 (0 :: rsaPublicKey n e)).length < 4294967296)
    (halg : algBody.length < 4294967296) :
    unmarshalTokenKey (spki (tlv 0x30 algBody) n e) = some ((n : Int), (e : Int)) := by
  have hrk : (rsaPublicKey n e).length < 4294967296 := by
    simp [tlv] at hsz ⊢; omega
  have hbits : ((0 : UInt8) :: rsaPublicKey n e).length < 4294967296 := by
    simp [tlv] at hsz ⊢; omega
  have hin : (derNat n ++ derNat e).length < 4294967296 := by
    simp [rsaPublicKey, tlv] at hrk ⊢; omega
  have hn : (natContent n).length < 4294967296 := by
    simp [derNat, tlv] at hin ⊢; omega
  have hee : (natContent e).length < 4294967296 := by omega
  unfold unmarshalTokenKey spki
  have h1 := readTagged_tlv 0x30 (tlv 0x30 algBody ++ tlv 3 (0 :: rsaPublicKey n e)) [] (by decide) hsz
  rw [List.append_nil] at h1
  rw [h1]
  simp only []
  rw [readTagged_tlv 0x30 algBody _ (by decide) halg]
  simp only []
  have h3 : readBitString (tlv 3 (0 :: rsaPublicKey n e)) = some (rsaPublicKey n e, []) := by
    unfold readBitString
    have := readTagged_tlv 3 (0 :: rsaPublicKey n e) [] (by decide) hbits
    rw [List.append_nil] at this
    rw [this]
    have hne : rsaPublicKey n e ≠ [] := by simp [rsaPublicKey, tlv]
    simp [hne, rightAlign, Nat.mod_one]
  rw [h3]
  simp only []
  have h4 := readTagged_tlv 0x30 (derNat n ++ derNat e) [] (by decide) hin
  rw [List.append_nil] at h4
  unfold rsaPublicKey
  rw [h4]
  simp only []
  rw [readInteger_derNat n (derNat e) hn]
  simp only []
  -- the exponent: an INTEGER of at most 8 content octets
  have h5 : readInt64 (derNat e) = some ((e : Int), []) := by
    have hri := readInteger_derNat e [] hee
    rw [List.append_nil] at hri
    unfold readInteger at hri
    unfold readInt64 derNat
    have ht := readTagged_tlv 2 (natContent e) [] (by decide) hee
    rw [List.append_nil] at ht
    unfold derNat at hri
    rw [ht] at hri ⊢
    simp only [] at hri ⊢
    split at hri
    · rename_i hm
      simp only [Option.some.injEq, Prod.mk.injEq, and_true] at hri
      simp [hm, he, hri]
    · simp at hri
  rw [h5]

theorem unmarshal_spkiPSS (n e : Nat) (he : (natContent e).length ≤ 8)
    (hsz : (algIdPSS ++ tlv 3 (0 :: rsaPublicKey n e)).length < 4294967296) :
    unmarshalTokenKey (spkiPSS n e) = some ((n : Int), (e : Int)) :=
  unmarshal_spki _ n e he hsz (by decide +kernel)

theorem unmarshal_spkiLegacy (n e : Nat) (he : (natContent e).length ≤ 8)
    (hsz : (algIdLegacy ++ tlv 3 (0 :: rsaPublicKey n e)).length < 4294967296) :
    unmarshalTokenKey (spkiLegacy n e) = some ((n : Int), (e : Int)) :=
  unmarshal_spki _ n e he hsz (by decide +kernel)

/-! ## key identifiers (executable definitions, compared with the issuers' and clients') -/

/-- token key id of a type-2 / type-3 issuer: SHA-256 of the RSASSA-PSS SubjectPublicKeyInfo -/
def rsaKeyId (n e : Nat) : Bytes := Exec.sha256 (spkiPSS n e)

/-- token key id of a VOPRF issuer (types 1 and 5): SHA-256 of the serialized public key -/
def voprfKeyId (pkEnc : Bytes) : Bytes := Exec.sha256 pkEnc

/-- what a request of type 1, 2 or 5 carries: the last byte of the key id -/
def truncatedKeyId (keyId : Bytes) : UInt8 := keyId.getLast?.getD 0

/-- what a type-3 request carries: SHA-256 of the serialized name key -/
def nameKeyId (encapKeyEnc : Bytes) : Bytes := Exec.sha256 encapKeyEnc

/-! non-vacuity: the bytes Go produces for n = 0xabcdef, e = 65537 -/
example : spkiLegacy 0xabcdef 65537 =
    [0x30, 0x1f, 0x30, 0x0d, 0x06, 0x09, 0x2a, 0x86, 0x48, 0x86, 0xf7, 0x0d, 0x01, 0x01, 0x01, 0x05, 0x00,
     0x03, 0x0e, 0x00, 0x30, 0x0b, 0x02, 0x04, 0x00, 0xab, 0xcd, 0xef, 0x02, 0x03, 0x01, 0x00, 0x01] := by
  decide +kernel
example : unmarshalTokenKey (spkiPSS 0xabcdef 65537) = some (0xabcdef, 65537) := by decide +kernel

end PatVerif.Props.C18
