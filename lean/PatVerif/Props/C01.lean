import PatVerif.Model.Issuance
/-!
# C01 — honest issuance over the wire always yields a valid, correctly bound token

One theorem for all four token types: `S` is instantiated with (type, Nk, blinded-message width) =
(1, 48, 49), (2, 256, 256), (3, 256, 256), (5, 64, 32); for type 5 the statement applies to each
element of the batch, for type 3 to the inner request. The wire hop (`dec ∘ enc` of the request
codec) is part of the statement.
-/
namespace PatVerif.Props.C01
open PatVerif Codec Structs Issuance
set_option linter.unusedSimpArgs false

theorem tokenInput_parse (S : Scheme) (H : Bytes → Bytes) (hH : ∀ x, (H x).length = 32) (hty : S.ty < 65536)
    (challenge nonce keyId a : Bytes) (hn : nonce.length = 32) (hk : keyId.length = 32) (ha : S.nk ≤ a.length) :
    (tokenCodec S.nk).dec (tokenInput S H challenge nonce keyId ++ a) =
      some (⟨S.ty, nonce, H challenge, keyId, a.take S.nk⟩, a.drop S.nk) := by
  have hw : (⟨S.ty, nonce, H challenge, keyId, a.take S.nk⟩ : Token).WF S.nk :=
    ⟨hty, hn, hH _, hk, by simp [List.length_take]; omega⟩
  have := (tokenCodec S.nk).dec_enc _ (a.drop S.nk) hw
  rw [tokenCodec_enc] at this
  simpa [Token.marshal, Token.authInput, tokenInput, List.append_assoc] using this

/-- **honest issuance.** For every key, challenge (any length), 32-byte nonce, 32-byte key id and
all client and issuer randomness: the request survives the wire, the issuer evaluates it, the
client finalizes the response without error, the token verifies under the issuer's key, and it is
exactly `type ‖ nonce ‖ SHA-256(challenge) ‖ key id ‖ authenticator` with an `Nk`-byte authenticator. -/
theorem honest_issuance (S : Scheme) (L : S.Laws) (H : Bytes → Bytes) (hH : ∀ x, (H x).length = 32) (hty : S.ty < 65536)
    (recheck : Bool) (sk : S.Sk) (challenge nonce keyId rnd rnd' : Bytes)
    (hn : nonce.length = 32) (hk : keyId.length = 32)
    (st : ClientState) (req : BasicReq)
    (hc : createRequest S H (S.pk sk) challenge nonce keyId rnd = some (st, req)) :
    (reqCodec S hty).dec ((reqCodec S hty).enc req) = some (req, []) ∧
    ∃ resp tok, issuerEvaluate S sk req rnd' = some resp ∧
      clientFinalize S recheck st resp = some tok ∧
      S.valid (S.pk sk) tok.authInput tok.auth = true ∧
      tok.marshal = encU16 S.ty ++ nonce ++ H challenge ++ keyId ++ tok.auth ∧
      tok.auth.length = S.nk ∧ req.keyId = keyId.getLast?.getD 0 := by
  unfold createRequest at hc
  cases hb : S.blind (S.pk sk) (tokenInput S H challenge nonce keyId) rnd with
  | none => simp [hb] at hc
  | some p =>
    obtain ⟨bm, sec⟩ := p
    simp only [hb, Option.some.injEq, Prod.mk.injEq] at hc
    obtain ⟨rfl, rfl⟩ := hc
    have hlen := L.blind_len _ _ _ _ _ hb
    constructor
    · have := (reqCodec S hty).dec_enc ⟨keyId.getLast?.getD 0, bm⟩ [] hlen
      simpa using this
    · have hev := L.evaluate_ok sk _ rnd rnd' bm sec hb
      cases hr : S.evaluate sk bm rnd' with
      | none => simp [hr] at hev
      | some resp =>
        obtain ⟨hf, hv, hl⟩ := L.complete sk _ rnd rnd' bm sec resp hb hr
        have hp := tokenInput_parse S H hH hty challenge nonce keyId _ hn hk (Nat.le_of_eq hl.symm)
        have htake : List.take S.nk (S.authOf sk (tokenInput S H challenge nonce keyId) rnd) =
            S.authOf sk (tokenInput S H challenge nonce keyId) rnd := List.take_of_length_le (by omega)
        rw [htake] at hp
        refine ⟨resp, ⟨S.ty, nonce, H challenge, keyId, S.authOf sk (tokenInput S H challenge nonce keyId) rnd⟩, ?_, ?_, ?_, ?_, hl, rfl⟩
        · simp [issuerEvaluate, hr]
        · have hai : (⟨S.ty, nonce, H challenge, keyId, S.authOf sk (tokenInput S H challenge nonce keyId) rnd⟩ : Token).authInput
              = tokenInput S H challenge nonce keyId := by simp [Token.authInput, tokenInput]
          simp only [clientFinalize, hf, hp, hai, hv]
          cases recheck <;> simp
        · simpa [Token.authInput, tokenInput] using hv
        · simp [Token.marshal, Token.authInput]

/-! non-vacuity: a toy scheme (blinding = xor with the randomness' first byte; authenticator = 48 copies of the input length) -/
def toy : Scheme where
  ty := 1
  nk := 48
  nb := 49
  Sk := Unit
  pk := fun _ => [1]
  blind := fun _ i r => some (List.replicate 49 (UInt8.ofNat (i.length + r.length)), r)
  evaluate := fun _ bm _ => some bm
  finalize := fun _ i _ _ => some (List.replicate 48 (UInt8.ofNat i.length))
  valid := fun _ i a => a == List.replicate 48 (UInt8.ofNat i.length)
  authOf := fun _ i _ => List.replicate 48 (UInt8.ofNat i.length)

theorem toy_laws : toy.Laws where
  blind_len := by intro k i r bm st h; simp [toy] at h; rw [← h.1]; simp [toy]
  evaluate_ok := by intros; rfl
  complete := by intros; simp [toy]

example : ∃ st req, createRequest toy (fun _ => List.replicate 32 0) [1] [] (List.replicate 32 5) (List.replicate 32 6) [9] = some (st, req) :=
  ⟨_, _, rfl⟩

end PatVerif.Props.C01
