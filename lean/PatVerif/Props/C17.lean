import PatVerif.Model.Footprints
/-!
# C17 — issuers, verifiers and keys can be shared between goroutines

**Partial (named).** The theorems are about the footprint abstraction: calls whose shared accesses
are reads (and `sync.Once` initialisations of a value that does not depend on the caller) are
race-free and observe exactly what a call running alone observes, under every interleaving. That
the Go calls *have* such footprints — issuers hold construction-time state only, per-call servers
and signers are created inside the call, package tables are `Once`-guarded — is established by the
harness with the Go race detector and by comparing concurrent results with sequential ones. Go's
memory model, the scheduler and races inside dependencies are not modelled.
-/
namespace PatVerif.Props.C17
open PatVerif PatVerif.Footprints
set_option linter.unusedSimpArgs false

/-- calls that only read shared state never conflict -/
theorem readonly_racefree (t1 t2 : List Act) (h1 : ∀ a ∈ t1, ∃ l, a = .rd l) (h2 : ∀ b ∈ t2, ∃ l, b = .rd l) :
    racy t1 t2 = false := by
  unfold racy
  rw [List.any_eq_false]
  intro a ha
  simp only [Bool.not_eq_true]
  rw [List.any_eq_false]
  intro b hb
  obtain ⟨l, rfl⟩ := h1 a ha
  obtain ⟨l', rfl⟩ := h2 b hb
  simp [conflict, Act.isPlainWrite]

/-- … and under **every** interleaving (any sequence of such accesses) the store is unchanged and
every read observes the initial value — what the call would observe running alone -/
theorem readonly_sequentially_consistent (σ : Store) (acts : List Act) (h : ∀ a ∈ acts, ∃ l, a = .rd l) :
    (run σ acts).1 = σ ∧ (run σ acts).2 = acts.map fun a => σ a.loc := by
  induction acts with
  | nil => simp [run]
  | cons a as ih =>
    obtain ⟨l, rfl⟩ := h a (by simp)
    have ih' := ih (fun a' ha' => h a' (by simp [ha']))
    simp only [run, step, List.map_cons]
    exact ⟨ih'.1, by rw [ih'.2]; rfl⟩

/-- `sync.Once`-guarded initialisation with a value that does not depend on the caller: whoever
runs first, every access observes that value, and two such accesses do not conflict -/
theorem once_consistent (σ : Store) (l : Loc) (v : Val) (acts : List Act)
    (h : ∀ a ∈ acts, a = .once l v ∨ a = .rd l) (hσ : σ l = none ∨ σ l = some v)
    (hfirst : ∃ rest, acts = .once l v :: rest) :
    ∀ o ∈ (run σ acts).2, o = some v := by
  obtain ⟨rest, rfl⟩ := hfirst
  -- after the first `once` the location holds `v`; from then on every access observes `v`
  have key : ∀ (as : List Act) (τ : Store), τ l = some v → (∀ a ∈ as, a = .once l v ∨ a = .rd l) →
      ∀ o ∈ (run τ as).2, o = some v := by
    intro as
    induction as with
    | nil => intro τ _ _ o ho; simp [run] at ho
    | cons a as ih =>
      intro τ hτ ha o ho
      simp only [run, List.mem_cons] at ho
      rcases ha a (by simp) with rfl | rfl
      · simp only [step, hτ] at ho
        rcases ho with rfl | ho
        · rfl
        · exact ih τ hτ (fun a h' => ha a (by simp [h'])) o ho
      · simp only [step] at ho
        rcases ho with rfl | ho
        · exact hτ
        · exact ih τ hτ (fun a h' => ha a (by simp [h'])) o ho
  intro o ho
  simp only [run, List.mem_cons] at ho
  rcases hσ with h0 | h0
  · simp only [step, h0] at ho
    rcases ho with rfl | ho
    · rfl
    · exact key rest _ (by simp) (fun a h' => h a (by simp [h'])) o ho
  · simp only [step, h0] at ho
    rcases ho with rfl | ho
    · rfl
    · exact key rest σ h0 (fun a h' => h a (by simp [h'])) o ho

theorem once_racefree (l : Loc) (v w : Val) : conflict (.once l v) (.once l w) = false := by
  simp [conflict, Act.isPlainWrite, Act.isPlain]

/-- a lazily filled cache without synchronisation (`if k.pub == nil { k.pub = … }`, what
`oprf.PrivateKey.Public` does) **is** a race between two first callers — the reason the VOPRF
issuers now fill it in their constructors -/
theorem lazy_cache_races (l : Loc) (v : Val) : racy [.rd l, .wr l v] [.rd l, .wr l v] = true := by
  simp [racy, conflict, Act.isPlainWrite, Act.isPlain, Act.loc]

/-! non-vacuity: three calls reading two locations, interleaved -/
example : (run (fun l => some (l + 10)) [.rd 0, .rd 1, .rd 0, .rd 1, .rd 1]).2 = [some 10, some 11, some 10, some 11, some 11] := by
  decide

end PatVerif.Props.C17
