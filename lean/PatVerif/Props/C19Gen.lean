import PatVerif.Props.C19
import PatVerif.Proofs.QuicwireRefine
/-!
# C19 stated about the translated source

`Generated.Quicwire.*` is `quicwire/wire.go` as translated on this run (see `Proofs/QuicwireRefine.lean`).
The clauses of C19 are restated here about those functions; each follows from the theorem of
`Props/C19.lean` about the model and the refinement theorem of the function involved. So on every run the
property is re-proved about what the code says now — for every value, prefix, byte string and declared length.
-/
namespace PatVerif.Props.C19Gen
open PatVerif PatVerif.Quicwire PatVerif.Proofs.QuicwireRefine
namespace G
export PatVerif.Generated.Quicwire (ConsumeVarint ConsumeVarintInt64 AppendVarint SizeVarint ConsumeUint8Bytes
  AppendUint8Bytes ConsumeVarintBytes AppendVarintBytes)
end G

/-- the encoder appends behind the prefix, leaves it untouched, and uses the shortest of the forms 1, 2, 4, 8 -/
theorem append_shortest (p : Bytes) (v : Nat) (hv : v ≤ maxVarint) :
    ∃ e, G.AppendVarint p v = .ok (p ++ e) ∧ e.length = encLen v ∧ G.SizeVarint v = .ok (e.length : Int) ∧
      encLen v ∈ [1, 2, 4, 8] ∧ ∀ n ∈ [1, 2, 4, 8], v < 2 ^ (8 * n - 2) → encLen v ≤ n := by
  refine ⟨encode v, ?_, (C19.size_spec v hv).2, ?_, (C19.encLen_minimal v hv).1, (C19.encLen_minimal v hv).2.2⟩
  · rw [appendVarint_refines]; exact C19.append_spec p v hv
  · rw [sizeVarint_refines, (C19.size_spec v hv).1]; rfl

/-- encoder and size function panic exactly above 2^62 − 1 -/
theorem panics_iff (p : Bytes) (v : Nat) :
    (G.AppendVarint p v = .panic ↔ v > maxVarint) ∧ (G.SizeVarint v = .panic ↔ v > maxVarint) := by
  constructor
  · rw [appendVarint_refines]; exact C19.append_panics_iff p v
  · rw [sizeVarint_refines]
    have := C19.size_panics_iff v
    cases h : sizeVarint v <;> simp [Res.map, h] at this ⊢ <;> exact this

/-- decode ∘ encode: the decoder applied to what the encoder appended (followed by anything) returns the value
and the number of bytes the encoder wrote -/
theorem consume_append (p rest : Bytes) (v : Nat) (hv : v ≤ maxVarint) :
    ∃ e, G.AppendVarint p v = .ok (p ++ e) ∧ G.ConsumeVarint (e ++ rest) = .ok (v, (e.length : Int)) := by
  refine ⟨encode v, ?_, ?_⟩
  · rw [appendVarint_refines]; exact C19.append_spec p v hv
  · rw [consumeVarint_refines, C19.consume_encode v rest hv, (C19.size_spec v hv).2]

/-- the decoder never panics, reads only the bytes its first byte announces, and fails exactly on short input -/
theorem consume_total (b : Bytes) : ∃ r, G.ConsumeVarint b = .ok r ∧
    (r.2 = -1 ↔ (b = [] ∨ ∃ b0 t, b = b0 :: t ∧ b.length < prefixLen b0)) :=
  ⟨consumeVarint b, consumeVarint_refines b, C19.consume_fail_iff b⟩

theorem consume_reads_prefix_only (b0 : UInt8) (r : Bytes) :
    G.ConsumeVarint (b0 :: r) = G.ConsumeVarint ((b0 :: r).take (prefixLen b0)) := by
  rw [consumeVarint_refines, consumeVarint_refines, C19.consume_prefix]

/-- canonical re-encoding of anything the decoder accepts is no longer and decodes to the same value -/
theorem reencode (b : Bytes) (v : Nat) (n : Int) (h : G.ConsumeVarint b = .ok (v, n)) (hn : n ≠ -1) :
    ∃ e, G.AppendVarint [] v = .ok e ∧ (e.length : Int) ≤ n ∧ G.ConsumeVarint e = .ok (v, (e.length : Int)) := by
  rw [consumeVarint_refines] at h
  have hv : consumeVarint b = (v, n) := by injection h
  have h2 : (consumeVarint b).2 ≠ -1 := by rw [hv]; exact hn
  have ⟨hm, hl, hd⟩ := C19.reencode_shorter b h2
  rw [hv] at hm hl hd
  simp only at hm hl hd
  refine ⟨encode v, ?_, ?_, ?_⟩
  · rw [appendVarint_refines, C19.append_spec [] v hm]; rfl
  · rw [(C19.size_spec v hm).2]; exact hl
  · rw [consumeVarint_refines, hd, (C19.size_spec v hm).2]

/-- length-prefixed strings: no panic for any input, `(nil, -1)` whenever the declared length exceeds what follows -/
theorem varintBytes_total (b : Bytes) : G.ConsumeVarintBytes b ≠ .panic := by
  rw [consumeVarintBytes_refines]; exact C19.consumeVarintBytes_total b

theorem varintBytes_short (b : Bytes) (v : Nat) (n : Int) (h : G.ConsumeVarint b = .ok (v, n)) (hn : n ≠ -1)
    (hshort : v > b.length - n.toNat) : G.ConsumeVarintBytes b = .ok (none, -1) := by
  rw [consumeVarint_refines] at h
  have hv : consumeVarint b = (v, n) := by injection h
  rw [consumeVarintBytes_refines]
  apply C19.consumeVarintBytes_short b
  · rw [hv]; exact hn
  · rw [hv]; exact hshort

theorem varintBytes_roundtrip (v rest : Bytes) (hv : v.length ≤ maxVarint) :
    ∃ enc, G.AppendVarintBytes [] v = .ok enc ∧
      G.ConsumeVarintBytes (enc ++ rest) = .ok (some v, (encLen v.length : Int) + v.length) := by
  have ⟨enc, h1, h2⟩ := C19.varintBytes_roundtrip v rest hv
  exact ⟨enc, by rw [appendVarintBytes_refines]; exact h1, by rw [consumeVarintBytes_refines]; exact h2⟩

theorem uint8Bytes_roundtrip (v rest : Bytes) (hv : v.length ≤ 255) :
    ∃ enc, G.AppendUint8Bytes [] v = .ok enc ∧
      G.ConsumeUint8Bytes (enc ++ rest) = .ok (some v, (v.length : Int) + 1) := by
  have ⟨enc, h1, h2⟩ := C19.uint8Bytes_roundtrip v rest hv
  exact ⟨enc, by rw [appendUint8Bytes_refines]; exact h1, by rw [consumeUint8Bytes_refines]; exact h2⟩

theorem uint8Bytes_total (b : Bytes) : G.ConsumeUint8Bytes b ≠ .panic := by
  rw [consumeUint8Bytes_refines]; exact C19.consumeUint8Bytes_total b

/-! non-vacuity: the translated code on concrete inputs -/
example : G.AppendVarint [9] 300 = .ok [9, 0x41, 0x2c] := by decide
example : G.ConsumeVarint [0x41, 0x2c, 0xff] = .ok (300, 2) := by decide
example : G.ConsumeVarintBytes [0x02, 7, 8, 9] = .ok (some [7, 8], 3) := by decide
example : G.ConsumeVarintBytes [0x45, 7] = .ok (none, -1) := by decide

end PatVerif.Props.C19Gen
