import PatVerif.Model.Type3
import PatVerif.Proofs.Group
/-!
# C08 — the anonymous issuer origin ID is stable per client and origin, and nothing else
-/
namespace PatVerif.Props.C08
open PatVerif Structs Type3

variable {Pt : Type}

/-- the algebraic laws of key blinding the statement needs -/
structure BlindLaws (K : Crypto Pt) : Prop where
  comm : ∀ P a ca b cb, K.blindKey (K.blindKey P a ca) b cb = K.blindKey (K.blindKey P b cb) a ca
  inv : ∀ P b c, K.unblindKey (K.blindKey P b c) b c = P
  dec_enc : ∀ P, K.decodeKey (K.encodeKey P) = some P

/-- the ID the attester derives from a request is HKDF-SHA-384 with the client key as salt over the
client key blinded by the origin's index key — for every request blind. Nonce, challenge and
token key do not occur in the computation at all. -/
theorem id_is_function_of_client_and_index_key (K : Crypto Pt) (L : BlindLaws K)
    (P : Pt) (clientKey blind indexKey : Bytes) :
    attesterIndex K clientKey blind
        (K.encodeKey (K.blindKey (K.blindKey P blind ctxClient) indexKey ctxIssuer)) =
      some (K.hkdfIndex clientKey (K.encodeKey (K.blindKey P indexKey ctxIssuer))) := by
  unfold attesterIndex
  rw [L.dec_enc, L.comm P blind ctxClient indexKey ctxIssuer]
  simp only [L.inv]

/-- hence two requests of one client for one origin, under any two blinds, get the same ID -/
theorem id_stable (K : Crypto Pt) (L : BlindLaws K) (P : Pt) (clientKey b b' indexKey : Bytes) :
    attesterIndex K clientKey b (K.encodeKey (K.blindKey (K.blindKey P b ctxClient) indexKey ctxIssuer)) =
    attesterIndex K clientKey b' (K.encodeKey (K.blindKey (K.blindKey P b' ctxClient) indexKey ctxIssuer)) := by
  rw [id_is_function_of_client_and_index_key K L, id_is_function_of_client_and_index_key K L]

/-- distinct clients, or origins whose index keys blind the client key differently, get distinct
IDs — provided HKDF and the point encoding are injective on these inputs (named hypothesis:
collision resistance is not provable) -/
theorem distinct_ids (K : Crypto Pt)
    (hkdf_inj : ∀ c c' i i', K.hkdfIndex c i = K.hkdfIndex c' i' → c = c' ∧ i = i')
    (enc_inj : ∀ P Q, K.encodeKey P = K.encodeKey Q → P = Q)
    (P P' : Pt) (clientKey clientKey' indexKey indexKey' : Bytes)
    (hne : clientKey ≠ clientKey' ∨ K.blindKey P indexKey ctxIssuer ≠ K.blindKey P' indexKey' ctxIssuer) :
    K.hkdfIndex clientKey (K.encodeKey (K.blindKey P indexKey ctxIssuer)) ≠
    K.hkdfIndex clientKey' (K.encodeKey (K.blindKey P' indexKey' ctxIssuer)) := by
  intro h
  have ⟨h1, h2⟩ := hkdf_inj _ _ _ _ h
  rcases hne with hne | hne
  · exact hne h1
  · exact hne (enc_inj _ _ h2)

/-! ## the laws hold in every group of prime order -/

section group
variable {G : Type} [AddCommGroup G]

/-- key blinding in a group: multiply by the scalar derived from (blind key, context) -/
def groupCrypto (n : ℕ) (scalar : Bytes → Bytes → ℕ) (enc : G → Bytes) (dec : Bytes → Option G) : Crypto G where
  decodeKey := dec
  encodeKey := enc
  sigVerify := fun _ _ _ => false
  blindKey := fun P b c => scalar b c • P
  unblindKey := fun P b c => ((scalar b c : ZMod n)⁻¹).val • P
  hkdfIndex := fun c i => c ++ i
  hpkeOpen := fun _ _ _ => none
  blindSign := fun _ => none
  sealResponse := fun _ _ _ => []

/-- in a group where every element is killed by the prime `n`, with blinding scalars not divisible
by `n` and a faithful point encoding, the laws hold -/
theorem group_laws (n : ℕ) [Fact n.Prime] (hG : ∀ P : G, n • P = 0)
    (scalar : Bytes → Bytes → ℕ) (hs : ∀ b c, ¬ n ∣ scalar b c)
    (enc : G → Bytes) (dec : Bytes → Option G) (hde : ∀ P, dec (enc P) = some P) :
    BlindLaws (groupCrypto n scalar enc dec) where
  comm := by intro P a ca b cb; exact Proofs.Group.blind_comm P _ _
  inv := by intro P b c; exact Proofs.Group.unblind_blind n P (hG P) _ (hs b c)
  dec_enc := hde

/-- distinct index-key scalars (mod the order) blind a non-zero client key differently -/
theorem index_keys_distinguish (n : ℕ) [Fact n.Prime] (P : G) (hP : n • P = 0) (hP0 : P ≠ 0) (k k' : ℕ)
    (h : k % n ≠ k' % n) : k • P ≠ k' • P :=
  fun e => h (Proofs.Group.blind_injective n P hP hP0 k k' e)

end group

/-! non-vacuity: `ZMod 7` acting on itself is such a group, with scalars 1..6 -/
example : BlindLaws (groupCrypto (G := ZMod 7) 7 (fun b _ => b.length % 6 + 1)
    (fun x => [UInt8.ofNat x.val]) (fun b => match b with | [x] => some (x.toNat : ZMod 7) | _ => none)) := by
  have : Fact (Nat.Prime 7) := ⟨by decide⟩
  apply group_laws
  · intro P; revert P; decide
  · intro b c h
    have : b.length % 6 + 1 < 7 := by omega
    have := Nat.le_of_dvd (by omega) h
    omega
  · intro P
    have := ZMod.val_lt P
    simp [UInt8.toNat_ofNat']
    have h7 : P.val % 256 = P.val := by omega
    rw [h7]; simp

end PatVerif.Props.C08
