import PatVerif.Props.C01
import PatVerif.Proofs.Group
/-!
# C11 — issuance with fixed blinds is reproducible and the token ignores the blind

* Purity: `createRequest` is a Lean *function* of (key, challenge, nonce, key id, randomness):
  equal arguments give equal requests (`request_reproducible` is `rfl`-true and is stated for the
  record); that the Go entry points `…WithBlind(s)` are pure is what the correspondence checks.
* The token does not depend on the blind: algebraically (VOPRF in any prime-order group; blind RSA
  in any ring `ZMod N`), and for the modelled client/issuer glue.
-/
namespace PatVerif.Props.C11
open PatVerif Codec Structs Issuance

theorem request_reproducible (S : Scheme) (H : Bytes → Bytes) (pk c n k r : Bytes) :
    createRequest S H pk c n k r = createRequest S H pk c n k r := rfl

/-- two honest runs for the same key, challenge, nonce and key id whose randomness determines the
same authenticator (every pair of blinds for a VOPRF; every pair of blinds with the same salt for
blind RSA) yield byte-identical tokens -/
theorem token_independent_of_blind (S : Scheme) (L : S.Laws) (H : Bytes → Bytes) (hH : ∀ x, (H x).length = 32) (hty : S.ty < 65536)
    (recheck : Bool) (sk : S.Sk) (challenge nonce keyId r1 r2 q1 q2 : Bytes) (hn : nonce.length = 32) (hk : keyId.length = 32)
    (hsame : S.authOf sk (tokenInput S H challenge nonce keyId) r1 = S.authOf sk (tokenInput S H challenge nonce keyId) r2)
    (st1 st2 : ClientState) (req1 req2 : BasicReq) (resp1 resp2 : Bytes) (t1 t2 : Token)
    (hc1 : createRequest S H (S.pk sk) challenge nonce keyId r1 = some (st1, req1))
    (hc2 : createRequest S H (S.pk sk) challenge nonce keyId r2 = some (st2, req2))
    (he1 : issuerEvaluate S sk req1 q1 = some resp1) (he2 : issuerEvaluate S sk req2 q2 = some resp2)
    (hf1 : clientFinalize S recheck st1 resp1 = some t1) (hf2 : clientFinalize S recheck st2 resp2 = some t2) :
    t1.marshal = t2.marshal := by
  have key : ∀ r q st req resp t, createRequest S H (S.pk sk) challenge nonce keyId r = some (st, req) →
      issuerEvaluate S sk req q = some resp → clientFinalize S recheck st resp = some t →
      t = ⟨S.ty, nonce, H challenge, keyId, S.authOf sk (tokenInput S H challenge nonce keyId) r⟩ := by
    intro r q st req resp t hc he hf
    unfold createRequest at hc
    cases hb : S.blind (S.pk sk) (tokenInput S H challenge nonce keyId) r with
    | none => simp [hb] at hc
    | some p =>
      obtain ⟨bm, sec⟩ := p
      simp only [hb, Option.some.injEq, Prod.mk.injEq] at hc
      obtain ⟨rfl, rfl⟩ := hc
      obtain ⟨hfin, hv, hl⟩ := L.complete sk _ r q bm sec resp hb (by simpa [issuerEvaluate] using he)
      have hp := C01.tokenInput_parse S H hH hty challenge nonce keyId _ hn hk (Nat.le_of_eq hl.symm)
      rw [List.take_of_length_le (by omega)] at hp
      have hai : (⟨S.ty, nonce, H challenge, keyId, S.authOf sk (tokenInput S H challenge nonce keyId) r⟩ : Token).authInput
          = tokenInput S H challenge nonce keyId := by simp [Token.authInput, tokenInput]
      simp only [clientFinalize, hfin, hp, hai, hv] at hf
      cases recheck <;> simp at hf <;> exact hf.symm
  rw [key r1 q1 st1 req1 resp1 t1 hc1 he1 hf1, key r2 q2 st2 req2 resp2 t2 hc2 he2 hf2, hsame]

/-- the algebra behind `hsame`, VOPRF side: `Proofs.Group.voprf_blind_independent` -/
theorem voprf_side {G : Type} [AddCommGroup G] (n : ℕ) [Fact n.Prime] (P : G) (hP : n • P = 0)
    (k r r' : ℕ) (hr : ¬ n ∣ r) (hr' : ¬ n ∣ r') :
    ((r : ZMod n)⁻¹).val • (k • (r • P)) = ((r' : ZMod n)⁻¹).val • (k • (r' • P)) :=
  Proofs.Group.voprf_blind_independent n P hP k r r' hr hr'

/-- … and blind-RSA side: `Proofs.Group.rsa_blind_independent` -/
theorem rsa_side (N e d : ℕ) (hed : ∀ x : ZMod N, (x ^ e) ^ d = x) (m : ZMod N) (r r' : (ZMod N)ˣ) :
    (m * (r : ZMod N) ^ e) ^ d * ((r⁻¹ : (ZMod N)ˣ) : ZMod N) =
    (m * (r' : ZMod N) ^ e) ^ d * ((r'⁻¹ : (ZMod N)ˣ) : ZMod N) :=
  Proofs.Group.rsa_blind_independent N e d hed m r r'

/-! non-vacuity: a textbook RSA key inverts on its ring — N = 33, e = 3, d = 7 -/
example : ∀ x : ZMod 33, (x ^ 3) ^ 7 = x := by decide

end PatVerif.Props.C11
