import PatVerif.Model.Partial
import PatVerif.Props.C19
/-!
# C03 — no byte string from a peer can crash or exhaust a decoder or protocol step

* Decoders that are compositions of `cryptobyte` reads are total functions into `Option`
  (`Model/Structs.lean`): they have no partial operation, so "malformed input is reported through
  the error result" holds by construction; `decoders_total` records it.
* For every function with raw slice / index / make expressions (`Model/Partial.lean`) the theorems
  below state: for **every** input and **every** behaviour of the dependency calls the result is
  not `panic`; and the memory requested through `make` is at most linear in the input.
* Termination: every definition is structurally recursive or fuel-bounded by the input length;
  Lean's termination checker accepted them.
-/
namespace PatVerif.Props.C03
open PatVerif Codec Structs Quicwire Partial
set_option linter.unusedSimpArgs false

theorem bind_ne_panic {α β : Type} (r : Res α) (f : α → Res β) (h1 : r ≠ .panic) (h2 : ∀ a, f a ≠ .panic) :
    r.bind f ≠ .panic := by
  cases r with
  | ok a => exact h2 a
  | err => simp
  | panic => exact absurd rfl h1

/-- a successful varint read consumed no more than the input holds -/
theorem consume_len_le (b : Bytes) (h : ¬ (consumeVarint b).2 < 0) : (consumeVarint b).2.toNat ≤ b.length := by
  have hn : (consumeVarint b).2 ≠ -1 := by intro e; rw [e] at h; simp at h
  cases b with
  | nil => simp [consumeVarint] at hn
  | cons b0 r =>
    have hfail := (not_congr (C19.consume_fail_iff (b0 :: r))).mp hn
    have ⟨h1, _⟩ := C19.consume_ok_spec b0 r hn
    rw [h1]
    simp only [Int.toNat_natCast]
    apply Nat.le_of_not_lt
    intro hlt
    exact hfail (Or.inr ⟨b0, r, rfl, hlt⟩)

/-! ## the functions with partial operations -/

theorem type1Finalize_total (d : T1Dep) (ti resp : Bytes) : type1Finalize d ti resp ≠ .panic := by
  unfold type1Finalize
  split
  · simp
  · rename_i h
    rw [slice_to _ _ (by omega), slice_from _ _ (by omega)]
    simp only [Res.bind_ok]
    repeat' split
    all_goals simp

theorem type3Finalize_total (ao : Bytes → Bytes → Option Bytes) (rf : Bytes → Option Bytes) (ti resp : Bytes) :
    type3Finalize ao rf ti resp ≠ .panic := by
  unfold type3Finalize
  split
  · simp
  · rename_i h
    rw [slice_to _ _ (by omega), slice_from _ _ (by omega)]
    simp only [Res.bind_ok]
    repeat' split
    all_goals simp

theorem decryptSplit_total (e : Bytes) : decryptSplit e ≠ .panic := by
  unfold decryptSplit
  split
  · simp
  · rw [slice_to _ _ (by omega), slice_from _ _ (by omega)]; simp

theorem splitSignature_total (s : Bytes) : splitSignature s ≠ .panic := by
  unfold splitSignature
  split
  · simp
  · rename_i h
    have : s.length = 96 := by simpa using h
    rw [slice_to _ _ (by omega), slice_from _ _ (by omega)]; simp

theorem unpadLoop_ok (p : Bytes) : ∀ fuel (last : Int), last < p.length →
    ∃ n, unpadLoop p fuel last = .ok n ∧ n ≤ p.length := by
  intro fuel
  induction fuel with
  | zero => intro last _; exact ⟨0, rfl, by omega⟩
  | succ fuel ih =>
    intro last hl
    unfold unpadLoop
    split
    · exact ⟨0, rfl, by omega⟩
    · rename_i hneg
      have hlt : last.toNat < p.length := by omega
      have hidx : index p last.toNat = .ok p[last.toNat] := by
        unfold index; simp [hlt]
      rw [hidx]
      simp only [Res.bind_ok]
      split
      · exact ⟨last.toNat + 1, rfl, by omega⟩
      · exact ih (last - 1) (by omega)

theorem unpadLit_total (p : Bytes) : unpadLit p ≠ .panic := by
  unfold unpadLit
  obtain ⟨n, hn, hle⟩ := unpadLoop_ok p (p.length + 1) ((p.length : Int) - 1) (by omega)
  rw [hn]
  simp only [Res.bind_ok]
  rw [slice_to _ _ hle]; simp

theorem chunkLoop_ok (buf : Bytes) : ∀ n i, 32 * (i + n) ≤ buf.length → ∃ l, chunkLoop buf n i = .ok l := by
  intro n
  induction n with
  | zero => intro i _; exact ⟨[], rfl⟩
  | succ n ih =>
    intro i h
    unfold chunkLoop
    rw [slice_from _ _ (by omega)]
    obtain ⟨l, hl⟩ := ih (i + 1) (by omega)
    simp [hl]

/-- type-5 request decoder: never panics, and requests at most twice the input length from `make` -/
theorem type5Unmarshal_total (data : Bytes) :
    type5Unmarshal data ≠ .panic ∧ ∀ v a, type5Unmarshal data = .ok (v, a) → a ≤ 2 * data.length := by
  unfold type5Unmarshal
  cases hd : decU16 data with
  | none => simp
  | some p =>
    obtain ⟨ty, r1⟩ := p
    have ⟨hdata, _⟩ := decU16_some hd
    simp only []
    split
    · simp
    · cases r1 with
      | nil => simp
      | cons k r2 =>
        have hlen : 3 ≤ data.length := by rw [hdata]; simp [encU16]
        simp only []
        rw [slice_from _ _ hlen]
        simp only [Res.bind_ok]
        split
        · simp
        · split
          · simp
          · split
            · simp
            · rename_i hoff hskip hl
              have hl' : (consumeVarint (List.drop 3 data)).1 ≤ (List.drop (consumeVarint (List.drop 3 data)).2.toNat (List.drop 3 data)).length := by omega
              rw [slice_to _ _ hl']
              simp only [Res.bind_ok]
              split
              · simp
              · rename_i hmod
                have hbl : (List.take (consumeVarint (List.drop 3 data)).1 (List.drop (consumeVarint (List.drop 3 data)).2.toNat (List.drop 3 data))).length
                    = (consumeVarint (List.drop 3 data)).1 := by
                  rw [List.length_take]; omega
                obtain ⟨els, hels⟩ := chunkLoop_ok
                  (List.take (consumeVarint (List.drop 3 data)).1 (List.drop (consumeVarint (List.drop 3 data)).2.toNat (List.drop 3 data)))
                  (((List.take (consumeVarint (List.drop 3 data)).1 (List.drop (consumeVarint (List.drop 3 data)).2.toNat (List.drop 3 data))).length) / 32) 0
                  (by omega)
                rw [hels]
                simp only [Res.bind_ok]
                refine ⟨by simp, ?_⟩
                intro v a h
                simp at h
                obtain ⟨_, rfl⟩ := h
                simp only [List.length_drop] at hl'
                omega

theorem elemLoop_total (d : T5Dep) (buf : Bytes) : ∀ n i, (i + n) * 32 ≤ buf.length → elemLoop d buf n i ≠ .panic := by
  intro n
  induction n with
  | zero => intro i _; simp [elemLoop]
  | succ n ih =>
    intro i h
    unfold elemLoop
    have hs : slice buf (i * 32) ((i + 1) * 32) ≠ .panic := (slice_ne_panic_iff _ _ _).mpr ⟨by omega, by omega⟩
    apply bind_ne_panic _ _ hs
    intro e
    split
    · simp
    · apply bind_ne_panic _ _ (ih (i + 1) (by omega))
      intro rest; simp

theorem type5Finalize_total (d : T5Dep) (n : Nat) (resp : Bytes) :
    type5Finalize d n resp ≠ .panic ∧ ∀ v a, type5Finalize d n resp = .ok (v, a) → a ≤ resp.length + 64 := by
  unfold type5Finalize
  simp only []
  split
  · simp
  · split
    · simp
    · split
      · simp
      · rename_i hoff hskip hl
        have hl' : (consumeVarint resp).1 ≤ (List.drop (consumeVarint resp).2.toNat resp).length := by omega
        rw [slice_to _ _ hl']
        simp only [Res.bind_ok]
        split
        · simp
        · split
          · simp
          · rename_i hmod hcnt
            have hbl : (List.take (consumeVarint resp).1 (List.drop (consumeVarint resp).2.toNat resp)).length
                = (consumeVarint resp).1 := by rw [List.length_take]; omega
            constructor
            · apply bind_ne_panic
              · exact elemLoop_total d _ _ 0 (by omega)
              · intro els
                repeat' split
                all_goals simp
            · intro v a h
              cases he : elemLoop d (List.take (consumeVarint resp).1 (List.drop (consumeVarint resp).2.toNat resp))
                  ((List.take (consumeVarint resp).1 (List.drop (consumeVarint resp).2.toNat resp)).length / 32) 0 with
              | panic => rw [he] at h; simp at h
              | err => rw [he] at h; simp at h
              | ok els =>
                rw [he] at h
                simp only [Res.bind_ok] at h
                split at h
                · simp at h
                · split at h
                  · simp at h
                  · split at h
                    · simp at h
                    · simp at h
                      obtain ⟨_, rfl⟩ := h
                      simp only [List.length_drop] at hl'
                      omega

theorem batchWalk_total (data : Bytes) (stop : Nat) : ∀ fuel i, batchWalk data stop fuel i ≠ .panic := by
  intro fuel
  induction fuel with
  | zero => intro i; simp [batchWalk]
  | succ fuel ih =>
    intro i
    unfold batchWalk
    split
    · split
      · simp
      · rename_i hlt hlen
        have h2 : i + 2 ≤ data.length := by omega
        have hs1 : slice data i (i + 2) ≠ .panic := (slice_ne_panic_iff _ _ _).mpr ⟨by omega, h2⟩
        apply bind_ne_panic _ _ hs1
        intro tb
        simp only []
        split
        · simp
        · have hs2 : slice data i data.length ≠ .panic := (slice_ne_panic_iff _ _ _).mpr ⟨by omega, Nat.le_refl _⟩
          apply bind_ne_panic _ _ hs2
          intro el
          split
          · simp
          · apply bind_ne_panic _ _ (ih _)
            intro rest; simp
    · simp

theorem batchUnmarshal_total (data : Bytes) : batchUnmarshal data ≠ .panic := by
  unfold batchUnmarshal
  split
  · simp
  · simp only []
    split
    · simp
    · rename_i h
      have hoff : ¬ (consumeVarint data).2 < 0 := fun e => h (Or.inl e)
      have hl : ¬ (consumeVarint data).1 > data.length - (consumeVarint data).2.toNat := fun e => h (Or.inr (Or.inr e))
      have hle := consume_len_le data hoff
      have hs : slice data 0 ((consumeVarint data).2.toNat + (consumeVarint data).1) ≠ .panic :=
        (slice_ne_panic_iff _ _ _).mpr ⟨by omega, by omega⟩
      apply bind_ne_panic _ _ hs
      intro d
      apply bind_ne_panic _ _ (batchWalk_total _ _ _ _)
      intro es; simp

theorem batchRespUnmarshal_total (data : Bytes) : batchRespUnmarshal data ≠ .panic := by
  unfold batchRespUnmarshal
  simp only []
  split
  · simp
  · split
    · simp
    · split
      · simp
      · rename_i hoff hskip hl
        simp only [List.length_drop] at hl
        have hs : slice data (consumeVarint data).2.toNat ((consumeVarint data).2.toNat + (consumeVarint data).1) ≠ .panic :=
          (slice_ne_panic_iff _ _ _).mpr ⟨by omega, by omega⟩
        apply bind_ne_panic _ _ hs
        intro body
        split <;> simp

/-! ## the decoders built from `cryptobyte` reads only -/

/-- every codec-built decoder is a total function: it returns a value or `none` for every byte
string (there is nothing to prove beyond its type; the statement is recorded for the inventory) -/
theorem decoders_total (b : Bytes) :
    (∃ r, challengeCodec.dec b = r) ∧ (∃ r, (tokenCodec 48).dec b = r) ∧ (∃ r, (tokenCodec 256).dec b = r) ∧
    (∃ r, (tokenCodec 64).dec b = r) ∧ (∃ r, req1Codec.dec b = r) ∧ (∃ r, req2Codec.dec b = r) ∧
    (∃ r, req3Codec.dec b = r) ∧ (∃ r, innerCodec.dec b = r) ∧ (∃ r, req5Codec.dec b = r) ∧
    (∃ r, batchReqCodec.dec b = r) ∧ (∃ r, batchRespCodec.dec b = r) :=
  ⟨⟨_, rfl⟩, ⟨_, rfl⟩, ⟨_, rfl⟩, ⟨_, rfl⟩, ⟨_, rfl⟩, ⟨_, rfl⟩, ⟨_, rfl⟩, ⟨_, rfl⟩, ⟨_, rfl⟩, ⟨_, rfl⟩, ⟨_, rfl⟩⟩

/-! non-vacuity: the guards are what makes the theorems true — the same slices without them panic -/
example : slice ([1, 2, 3] : Bytes) 0 49 = .panic := by decide
example : type1Finalize ⟨fun _ => true, fun _ => true, fun _ _ => none⟩ [] [1, 2, 3] = .err := by decide
example : (type5Unmarshal [0, 5, 7, 0xff, 0xff, 0xff, 0xff, 0xff, 0xff, 0xff, 0xff]) = .err := by decide
example : batchUnmarshal [0xc0, 0, 0, 0] = .err := by decide
example : batchRespUnmarshal [5, 0] = .err := by decide

end PatVerif.Props.C03
