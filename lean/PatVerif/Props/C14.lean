import PatVerif.Exec.Ed25519
import PatVerif.Proofs.Sig
import PatVerif.Proofs.DER
/-!
# C14 — the Ed25519 fork is bit-compatible with standard Ed25519

The executable RFC 8032 model (`Exec/Ed25519.lean`, arithmetic over `Nat`) is the specification;
the fork, the model and `crypto/ed25519` are compared three ways by the correspondence.

**Partial (named).** That the fork's 21-bit-limb `scMulAdd`/`scReduce` and 51-bit-limb field code
implement arithmetic mod `L` and mod `p` for *every* input is **not** proved; it is covered by the
differential stream only (DESIGN.md §11).
-/
namespace PatVerif.Props.C14
open PatVerif PatVerif.Exec.Ed25519
set_option linter.unusedSimpArgs false

/-- a signature whose `S` is not reduced (`S ≥ L`, in particular `S + L`) is rejected -/
theorem noncanonical_S_rejected (H : Bytes → Bytes) (pk msg sig : Bytes)
    (h : leNat (sig.drop 32) ≥ L) : verify H pk msg sig = false := by
  unfold verify
  split
  · rfl
  · split
    · rfl
    · split
      · rfl
      · simp [h]

/-- wrong sizes and set high bits of the last byte are rejected before any arithmetic -/
theorem bad_shape_rejected (H : Bytes → Bytes) (pk msg sig : Bytes) (h : sig.length ≠ 64) :
    verify H pk msg sig = false := by
  unfold verify
  split
  · rfl
  · simp [h]

/-- `isReduced` (scalar.go:137-149) compares with `L − 1` byte by byte from the most significant
end; on equal-length big-endian strings that is the numeric comparison -/
def lexLe : Bytes → Bytes → Bool
  | [], _ => true
  | _, [] => true
  | a :: as, b :: bs => if a.toNat > b.toNat then false else if a.toNat < b.toNat then true else lexLe as bs

theorem beNat_lt_pow (l : Bytes) : beNat l < 256 ^ l.length := by
  induction l with
  | nil => simp [beNat]
  | cons x t ih =>
    have hx := x.toNat_lt
    rw [DER.beNat_cons]
    simp only [List.length_cons, Nat.pow_succ]
    calc x.toNat * 256 ^ t.length + beNat t < x.toNat * 256 ^ t.length + 256 ^ t.length := by omega
      _ = (x.toNat + 1) * 256 ^ t.length := by rw [Nat.add_mul, Nat.one_mul]
      _ ≤ 256 * 256 ^ t.length := Nat.mul_le_mul_right _ (by omega)
      _ = 256 ^ t.length * 256 := Nat.mul_comm _ _

/-- the byte-wise comparison decides the numeric one, for strings of equal length -/
theorem isReduced_spec (a b : Bytes) (h : a.length = b.length) : lexLe a b = true ↔ beNat a ≤ beNat b := by
  induction a generalizing b with
  | nil =>
    cases b with
    | nil => simp [lexLe]
    | cons y ys => simp at h
  | cons x xs ih =>
    cases b with
    | nil => simp at h
    | cons y ys =>
      have hl : xs.length = ys.length := by simpa using h
      rw [DER.beNat_cons, DER.beNat_cons, hl]
      have h1 := beNat_lt_pow xs
      have h2 := beNat_lt_pow ys
      rw [hl] at h1
      unfold lexLe
      by_cases hgt : x.toNat > y.toNat
      · simp only [hgt, ite_true]
        constructor
        · intro hh; simp at hh
        · intro hh
          exfalso
          have : (y.toNat + 1) * 256 ^ ys.length ≤ x.toNat * 256 ^ ys.length := Nat.mul_le_mul_right _ hgt
          rw [Nat.add_mul, Nat.one_mul] at this
          omega
      · simp only [hgt, ite_false]
        by_cases hlt : x.toNat < y.toNat
        · simp only [hlt, ite_true, true_iff]
          have : (x.toNat + 1) * 256 ^ ys.length ≤ y.toNat * 256 ^ ys.length := Nat.mul_le_mul_right _ hlt
          rw [Nat.add_mul, Nat.one_mul] at this
          omega
        · simp only [hlt, ite_false]
          have he : x.toNat = y.toNat := by omega
          rw [ih ys hl, he]
          omega

/-- **EdDSA correctness** in every prime-order group: `S = r + k·s` satisfies `S•B = R + k•A` -/
theorem sign_verifies {G : Type} [AddCommGroup G] {n : ℕ} [Fact n.Prime] [Module (ZMod n) G]
    (B : G) (s r k : ZMod n) : (r + k * s) • B = r • B + k • (s • B) :=
  Proofs.Sig.eddsa_correct B s r k

/-- the constants -/
theorem L_value : L = 2 ^ 252 + 27742317777372353535851937790883648493 := rfl
theorem scMinusOne_is_L_minus_one :
    leNat [236, 211, 245, 92, 26, 99, 18, 88, 214, 156, 247, 162, 222, 249, 222, 20, 0, 0, 0, 0, 0, 0, 0, 0, 0, 0, 0, 0, 0, 0, 0, 16] + 1 = L := by
  decide +kernel

example : lexLe [1, 2] [1, 3] = true ∧ lexLe [2, 0] [1, 255] = false := by decide

end PatVerif.Props.C14
