import PatVerif.Model.Quicwire

/-!
# C19 — QUIC varints and length-prefixed byte strings are exact and bounds-safe

All binders are unbounded: every `v`, every byte string, every declared length.
-/
namespace PatVerif.Props.C19
open PatVerif PatVerif.Quicwire
set_option linter.unusedSimpArgs false

/-- the encoder leaves the destination prefix untouched and appends `encode v` -/
theorem append_spec (b : Bytes) (v : Nat) (hv : v ≤ maxVarint) :
    appendVarint b v = .ok (b ++ encode v) := by
  unfold appendVarint maxVarint at *; simp [hv]

/-- the encoder (and the size function) panic exactly above 2^62-1 -/
theorem append_panics_iff (b : Bytes) (v : Nat) : appendVarint b v = .panic ↔ v > maxVarint := by
  unfold appendVarint maxVarint; split <;> simp <;> omega

theorem size_panics_iff (v : Nat) : sizeVarint v = .panic ↔ v > maxVarint := by
  unfold sizeVarint maxVarint; repeat' split
  all_goals simp
  all_goals omega

/-- the size function reports the length of what the encoder emits -/
theorem size_spec (v : Nat) (hv : v ≤ maxVarint) :
    sizeVarint v = .ok (encode v).length ∧ (encode v).length = encLen v := by
  unfold sizeVarint encode encLen maxVarint at *
  repeat' split
  all_goals simp
  all_goals omega

/-- the emitted form is the shortest of the four: `v` fits the `n`-byte form
(`v < 2^(8n-2)`) and no shorter form holds it -/
theorem encLen_minimal (v : Nat) (hv : v ≤ maxVarint) :
    encLen v ∈ [1, 2, 4, 8] ∧ v < 2 ^ (8 * encLen v - 2) ∧
    ∀ n ∈ [1, 2, 4, 8], v < 2 ^ (8 * n - 2) → encLen v ≤ n := by
  unfold encLen maxVarint at *
  repeat' split
  all_goals simp
  all_goals omega

/-- decoding an encoding returns the value and the encoder's length, whatever follows -/
theorem consume_encode (v : Nat) (rest : Bytes) (hv : v ≤ maxVarint) :
    consumeVarint (encode v ++ rest) = (v, (encLen v : Int)) := by
  unfold encode encLen maxVarint at *
  split
  · have h1 : v % 256 < 64 := by omega
    simp [consumeVarint, UInt8.toNat_ofNat', h1]; omega
  split
  · have h1 : ¬ (64 + v / 256) % 256 < 64 := by omega
    have h2 : (64 + v / 256) % 256 / 64 = 1 := by omega
    simp [consumeVarint, UInt8.toNat_ofNat', h1, h2]; omega
  split
  · have h1 : ¬ (128 + v / 16777216) % 256 < 64 := by omega
    have h2 : ¬ (128 + v / 16777216) % 256 / 64 = 1 := by omega
    have h3 : (128 + v / 16777216) % 256 / 64 = 2 := by omega
    simp [consumeVarint, UInt8.toNat_ofNat', h1, h2, h3]; omega
  · have h1 : ¬ (192 + v / 72057594037927936) % 256 < 64 := by omega
    have h2 : ¬ (192 + v / 72057594037927936) % 256 / 64 = 1 := by omega
    have h3 : ¬ (192 + v / 72057594037927936) % 256 / 64 = 2 := by omega
    simp [consumeVarint, UInt8.toNat_ofNat', h1, h2, h3]; omega

/-- the decoder looks only at the bytes announced by the first byte's top two bits -/
theorem consume_prefix (b0 : UInt8) (r : Bytes) :
    consumeVarint (b0 :: r) = consumeVarint ((b0 :: r).take (prefixLen b0)) := by
  have h := b0.toNat_lt
  unfold prefixLen
  have hc : b0.toNat / 64 = 0 ∨ b0.toNat / 64 = 1 ∨ b0.toNat / 64 = 2 ∨ b0.toNat / 64 = 3 := by omega
  rcases hc with hc | hc | hc | hc
  · simp [consumeVarint, hc]
  · rcases r with _ | ⟨b1, r⟩ <;> simp [consumeVarint, hc]
  · rcases r with _ | ⟨b1, _ | ⟨b2, _ | ⟨b3, r⟩⟩⟩ <;> simp [consumeVarint, hc]
  · rcases r with _ | ⟨b1, _ | ⟨b2, _ | ⟨b3, _ | ⟨b4, _ | ⟨b5, _ | ⟨b6, _ | ⟨b7, r⟩⟩⟩⟩⟩⟩⟩ <;>
      simp [consumeVarint, hc]

/-- failure is reported exactly when fewer bytes than announced are available; on success the
length is the announced one and the value fits it -/
theorem consume_fail_iff (b : Bytes) :
    (consumeVarint b).2 = -1 ↔ (b = [] ∨ ∃ b0 r, b = b0 :: r ∧ b.length < prefixLen b0) := by
  rcases b with _ | ⟨b0, r⟩
  · simp [consumeVarint]
  · have h := b0.toNat_lt
    unfold prefixLen
    have hc : b0.toNat / 64 = 0 ∨ b0.toNat / 64 = 1 ∨ b0.toNat / 64 = 2 ∨ b0.toNat / 64 = 3 := by omega
    rcases hc with hc | hc | hc | hc
    · simp [consumeVarint, hc]
    · rcases r with _ | ⟨b1, r⟩ <;> simp [consumeVarint, hc] <;> omega
    · rcases r with _ | ⟨b1, _ | ⟨b2, _ | ⟨b3, r⟩⟩⟩ <;> simp [consumeVarint, hc] <;> omega
    · rcases r with _ | ⟨b1, _ | ⟨b2, _ | ⟨b3, _ | ⟨b4, _ | ⟨b5, _ | ⟨b6, _ | ⟨b7, r⟩⟩⟩⟩⟩⟩⟩ <;>
        simp [consumeVarint, hc] <;> omega

theorem consume_ok_spec (b0 : UInt8) (r : Bytes) (h : (consumeVarint (b0 :: r)).2 ≠ -1) :
    (consumeVarint (b0 :: r)).2 = (prefixLen b0 : Int) ∧
    (consumeVarint (b0 :: r)).1 < 2 ^ (8 * prefixLen b0 - 2) := by
  have hb := b0.toNat_lt
  unfold prefixLen at *
  have hc : b0.toNat / 64 = 0 ∨ b0.toNat / 64 = 1 ∨ b0.toNat / 64 = 2 ∨ b0.toNat / 64 = 3 := by omega
  rcases hc with hc | hc | hc | hc
  · simp [consumeVarint, hc]; omega
  · rcases r with _ | ⟨b1, r⟩ <;> simp [consumeVarint, hc] at h ⊢
    have := b1.toNat_lt; omega
  · rcases r with _ | ⟨b1, _ | ⟨b2, _ | ⟨b3, r⟩⟩⟩ <;> simp [consumeVarint, hc] at h ⊢
    have := b1.toNat_lt; have := b2.toNat_lt; have := b3.toNat_lt; omega
  · rcases r with _ | ⟨b1, _ | ⟨b2, _ | ⟨b3, _ | ⟨b4, _ | ⟨b5, _ | ⟨b6, _ | ⟨b7, r⟩⟩⟩⟩⟩⟩⟩ <;>
      simp [consumeVarint, hc] at h ⊢
    have := b1.toNat_lt; have := b2.toNat_lt; have := b3.toNat_lt; have := b4.toNat_lt
    have := b5.toNat_lt; have := b6.toNat_lt; have := b7.toNat_lt; omega

/-- every decoded value is at most 2^62-1, so it can be re-encoded; the re-encoding is no
longer than what was consumed and decodes to the same value -/
theorem reencode_shorter (b : Bytes) (h : (consumeVarint b).2 ≠ -1) :
    (consumeVarint b).1 ≤ maxVarint ∧
    ((encLen (consumeVarint b).1 : Nat) : Int) ≤ (consumeVarint b).2 ∧
    consumeVarint (encode (consumeVarint b).1) = ((consumeVarint b).1, (encLen (consumeVarint b).1 : Int)) := by
  rcases b with _ | ⟨b0, r⟩
  · simp [consumeVarint] at h
  · have ⟨h1, h2⟩ := consume_ok_spec b0 r h
    have hb := b0.toNat_lt
    have hmax : (consumeVarint (b0 :: r)).1 ≤ maxVarint := by
      unfold prefixLen maxVarint at *
      have hc : b0.toNat / 64 = 0 ∨ b0.toNat / 64 = 1 ∨ b0.toNat / 64 = 2 ∨ b0.toNat / 64 = 3 := by omega
      rcases hc with hc | hc | hc | hc <;> simp [hc] at h2 <;> omega
    refine ⟨hmax, ?_, ?_⟩
    · rw [h1]
      unfold prefixLen encLen at *
      have hc : b0.toNat / 64 = 0 ∨ b0.toNat / 64 = 1 ∨ b0.toNat / 64 = 2 ∨ b0.toNat / 64 = 3 := by omega
      rcases hc with hc | hc | hc | hc <;> simp [hc] at h2 ⊢ <;> repeat' split
      all_goals omega
    · have := consume_encode (consumeVarint (b0 :: r)).1 [] hmax
      simpa using this

/-! ## length-prefixed byte strings -/

/-- the varint-prefixed consumer never panics: both slice expressions are in range whenever
they are reached -/
theorem consumeVarintBytes_total (b : Bytes) : consumeVarintBytes b ≠ .panic := by
  unfold consumeVarintBytes
  split
  · simp
  · rename_i hn
    have hn' : (consumeVarint b).2 ≠ -1 := by
      intro h; rw [h] at hn; simp at hn
    rcases b with _ | ⟨b0, r⟩
    · simp [consumeVarint] at hn'
    · have hfail := (not_congr (consume_fail_iff (b0 :: r))).mp hn'
      have ⟨h1, _⟩ := consume_ok_spec b0 r hn'
      have hlen : prefixLen b0 ≤ (b0 :: r).length := by
        apply Nat.le_of_not_lt
        intro hlt
        exact hfail (Or.inr ⟨b0, r, rfl, hlt⟩)
      rw [h1]
      simp only [Int.toNat_natCast]
      rw [slice_from _ _ hlen]
      simp only [Res.bind_ok]
      split
      · simp
      · rename_i hsz
        rw [slice_to _ _ (by omega)]
        simp

/-- a declared length larger than what remains — for every declared value — yields `(nil, -1)` -/
theorem consumeVarintBytes_short (b : Bytes)
    (hn : (consumeVarint b).2 ≠ -1)
    (hshort : (consumeVarint b).1 > b.length - (consumeVarint b).2.toNat) :
    consumeVarintBytes b = .ok (none, -1) := by
  rcases b with _ | ⟨b0, r⟩
  · simp [consumeVarint] at hn
  · have hfail := (not_congr (consume_fail_iff (b0 :: r))).mp hn
    have ⟨h1, _⟩ := consume_ok_spec b0 r hn
    have hlen : prefixLen b0 ≤ (b0 :: r).length := by
      apply Nat.le_of_not_lt
      intro hlt
      exact hfail (Or.inr ⟨b0, r, rfl, hlt⟩)
    unfold consumeVarintBytes
    have hpos : ¬ (consumeVarint (b0 :: r)).2 < 0 := by rw [h1]; omega
    simp only [hpos, ite_false]
    rw [h1] at hshort ⊢
    simp only [Int.toNat_natCast] at hshort ⊢
    rw [slice_from _ _ hlen]
    simp only [Res.bind_ok, List.length_drop]
    have hs : (consumeVarint (b0 :: r)).1 > (b0 :: r).length - prefixLen b0 := hshort
    simp only [hs, ite_true]

/-- short input for the prefix itself is also `(nil, -1)` -/
theorem consumeVarintBytes_noprefix (b : Bytes) (hn : (consumeVarint b).2 = -1) :
    consumeVarintBytes b = .ok (none, -1) := by
  unfold consumeVarintBytes; simp [hn]

/-- round trip of varint-prefixed strings, for every string whose length is encodable -/
theorem varintBytes_roundtrip (v rest : Bytes) (hv : v.length ≤ maxVarint) :
    ∃ enc, appendVarintBytes [] v = .ok enc ∧
      consumeVarintBytes (enc ++ rest) = .ok (some v, (encLen v.length : Int) + v.length) := by
  refine ⟨encode v.length ++ v, ?_, ?_⟩
  · simp [appendVarintBytes, append_spec [] _ hv]
  · have hc := consume_encode v.length (v ++ rest) hv
    have hl := (size_spec v.length hv).2
    unfold consumeVarintBytes
    rw [List.append_assoc, hc]
    have hpos : ¬ ((encLen v.length : Nat) : Int) < 0 := by omega
    simp only [hpos, ite_false, Int.toNat_natCast]
    rw [slice_from _ _ (by simp [hl])]
    have hdrop : List.drop (encLen v.length) (encode v.length ++ (v ++ rest)) = v ++ rest := by
      rw [← hl]; simp
    simp only [hdrop, Res.bind_ok]
    have h2 : ¬ v.length > (v ++ rest).length := by simp
    simp only [h2, ite_false]
    rw [slice_to _ _ (by simp)]
    simp [Int.add_comm]

/-- round trip of uint8-prefixed strings, and totality of the consumer -/
theorem uint8Bytes_roundtrip (v rest : Bytes) (hv : v.length ≤ 255) :
    ∃ enc, appendUint8Bytes [] v = .ok enc ∧
      consumeUint8Bytes (enc ++ rest) = .ok (some v, (v.length : Int) + 1) := by
  refine ⟨UInt8.ofNat v.length :: v, ?_, ?_⟩
  · unfold appendUint8Bytes; simp; omega
  · unfold consumeUint8Bytes slice
    have hmod : v.length % 256 = v.length := by omega
    have h2 : ¬ (v.length + rest.length < v.length) := by omega
    simp [UInt8.toNat_ofNat', hmod, h2]
    rw [List.take_take]; simp

theorem consumeUint8Bytes_total (b : Bytes) : consumeUint8Bytes b ≠ .panic := by
  unfold consumeUint8Bytes
  rcases b with _ | ⟨b0, r⟩
  · simp
  · unfold slice
    simp
    split
    · simp
    · rename_i h; simp at h ⊢; simp [h]

theorem consumeUint8Bytes_short (b0 : UInt8) (r : Bytes) (h : b0.toNat > r.length) :
    consumeUint8Bytes (b0 :: r) = .ok (none, -1) := by
  unfold consumeUint8Bytes slice; simp [h]

/-! ## non-vacuity: the hypotheses are met by concrete non-trivial values -/

example : (300 : Nat) ≤ maxVarint ∧ encode 300 = [0x41, 0x2c] ∧ encLen 300 = 2 := by decide
example : consumeVarint [0x41, 0x2c, 0xff] = (300, 2) := by decide
example : (consumeVarint [0xc0, 1, 2]).2 = -1 := by decide
example : consumeVarintBytes [0x02, 7, 8, 9] = .ok (some [7, 8], 3) := by decide
example : (consumeVarint [0xff, 0xff, 0xff, 0xff, 0xff, 0xff, 0xff, 0xff]).2 ≠ -1 ∧
    (consumeVarint [0xff, 0xff, 0xff, 0xff, 0xff, 0xff, 0xff, 0xff]).1 > 0 := by decide

end PatVerif.Props.C19
