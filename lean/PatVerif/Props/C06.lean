import PatVerif.Model.Type3
import PatVerif.Props.C09
/-!
# C06 — the attester accepts a rate-limited request only if it is authentic

For every instantiation `K` of the primitives, every cache, request value, blind and client key.
-/
namespace PatVerif.Props.C06
open PatVerif Structs Codec Attester Type3
set_option linter.unusedSimpArgs false

variable {Pt : Type}

/-- acceptance is exactly the conjunction: the request key is a point, the signature has the right
size and verifies under the request key over `type ‖ request_key ‖ name_key_id ‖ len ‖ ciphertext`,
the client key is a point, and the request key is the client key blinded with the supplied blind -/
theorem accept_iff (K : Crypto Pt) (cache : Cache) (r : Req3) (blind clientKey : Bytes) :
    (attesterVerify K cache r blind clientKey).2 = true ↔
      ∃ rk ck, K.decodeKey r.requestKey = some rk ∧ r.signature.length = 96 ∧
        K.sigVerify rk (req3SignedMessage r) r.signature = true ∧
        K.decodeKey clientKey = some ck ∧ K.encodeKey (K.blindKey ck blind ctxClient) = r.requestKey := by
  unfold attesterVerify
  have key : attesterChecks K r blind clientKey = true ↔
      ∃ rk ck, K.decodeKey r.requestKey = some rk ∧ r.signature.length = 96 ∧
        K.sigVerify rk (req3SignedMessage r) r.signature = true ∧
        K.decodeKey clientKey = some ck ∧ K.encodeKey (K.blindKey ck blind ctxClient) = r.requestKey := by
    unfold attesterChecks
    cases h1 : K.decodeKey r.requestKey with
    | none => simp
    | some rk =>
      by_cases h2 : r.signature.length = 96
      · by_cases h3 : K.sigVerify rk (req3SignedMessage r) r.signature = true
        · cases h4 : K.decodeKey clientKey with
          | none => simp [h2, h3]
          | some ck => simp [h2, h3]
        · simp [h2, h3]
      · simp [h2]
  split
  · rename_i h; simp only [true_iff]; exact key.mp h
  · rename_i h; simp only [Bool.false_eq_true, false_iff]; exact fun hh => h (key.mpr hh)

/-- a rejected request never creates or alters client state -/
theorem reject_no_state (K : Crypto Pt) (cache : Cache) (r : Req3) (blind clientKey : Bytes)
    (h : (attesterVerify K cache r blind clientKey).2 = false) :
    (attesterVerify K cache r blind clientKey).1 = cache := by
  unfold attesterVerify at *
  split
  · rename_i hc; simp [hc] at h
  · rfl

/-- an accepted request registers the client if it is new and changes nothing else: every accepted
binding of every client is as before -/
theorem accept_state (K : Crypto Pt) (cache : Cache) (r : Req3) (blind clientKey : Bytes)
    (h : (attesterVerify K cache r blind clientKey).2 = true) :
    (abs (attesterVerify K cache r blind clientKey).1).known (nameOf clientKey) = true ∧
    (∀ c, c ≠ nameOf clientKey → (abs (attesterVerify K cache r blind clientKey).1).known c = (abs cache).known c) ∧
    (abs (attesterVerify K cache r blind clientKey).1).bound = (abs cache).bound := by
  unfold attesterVerify at *
  split
  · have ⟨r1, _⟩ := C09.refines cache (.verify (nameOf clientKey))
    simp only [r1, Spec.step]
    refine ⟨by simp, ?_, trivial⟩
    intro c hc; simp [hc]
  · rename_i hc; simp [hc] at h

/-- the signed message determines the request's contents: "over the request's exact contents" -/
def signedMsgCodec : Codec (Unit × Bytes × Bytes × Bytes) :=
  tag16 3 (by decide) ⊗ fixed 49 ⊗ fixed 32 ⊗ vec16 false

theorem signedMessage_injective (r r' : Req3)
    (h1 : r.requestKey.length = 49) (h1' : r'.requestKey.length = 49)
    (h2 : r.nameKeyId.length = 32) (h2' : r'.nameKeyId.length = 32)
    (h3 : r.encrypted.length < 65536) (h3' : r'.encrypted.length < 65536)
    (e : req3SignedMessage r = req3SignedMessage r') :
    r.requestKey = r'.requestKey ∧ r.nameKeyId = r'.nameKeyId ∧ r.encrypted = r'.encrypted := by
  have enc_eq : ∀ q : Req3, req3SignedMessage q = signedMsgCodec.enc ((), q.requestKey, q.nameKeyId, q.encrypted) := by
    intro q; simp [req3SignedMessage, signedMsgCodec, pair, tag16, fixed, vec16]
  rw [enc_eq, enc_eq] at e
  have := signedMsgCodec.enc_injective _ _
    (by exact ⟨trivial, h1, h2, h3, fun h => by simp at h⟩)
    (by exact ⟨trivial, h1', h2', h3', fun h => by simp at h⟩) e
  simp at this
  exact this

/-! non-vacuity: a toy instantiation in which points are byte strings, "blinding" appends the blind
and a signature is valid iff it is 96 copies of the message length byte -/
def toy : Crypto Bytes where
  decodeKey b := if b.length = 49 then some b else none
  encodeKey p := p
  sigVerify _ msg sig := sig == List.replicate 96 (UInt8.ofNat msg.length)
  blindKey p b _ := (p.take 1 ++ b ++ p).take 49
  unblindKey p _ _ := p
  hkdfIndex c i := c ++ i
  hpkeOpen _ _ _ := none
  blindSign _ := none
  sealResponse _ _ _ := []

example : (attesterVerify toy [] ⟨((List.replicate 1 2 ++ [7] ++ List.replicate 49 2 : Bytes)).take 49, List.replicate 32 0, [1],
    List.replicate 96 (UInt8.ofNat (2 + 49 + 32 + 2 + 1))⟩ [7] (List.replicate 49 2)).2 = true := by decide

end PatVerif.Props.C06
