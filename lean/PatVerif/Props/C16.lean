import PatVerif.Model.Slices
/-!
# C16 — operations have no hidden side effects on caller-visible memory

The theorems are about the slice/heap model: what `append` may touch, that building a derived
byte string in a fresh array touches nothing else, and that re-appending the same bytes onto the
same base slice reproduces the same array contents (so values handed out earlier keep their
contents). Which Go operations build derived strings which way is tied to the code by the
harness: every exported operation is run with its arguments inside larger sentinel-filled buffers,
which are compared before and after, twice with different spare contents.
-/
namespace PatVerif.Props.C16
open PatVerif PatVerif.Slices
set_option linter.unusedSimpArgs false

/-- `append` never touches an array other than the slice's own and the fresh one -/
theorem append_other_arrays (h : Heap) (fresh : Nat) (s : Slice) (xs : Bytes) (a : Nat)
    (h1 : a ≠ s.arr) (h2 : a ≠ fresh) : (append h fresh s xs).1 a = h a := by
  unfold append
  split <;> simp [h1, h2]

/-- when the slice has no room (`len + |xs| > cap`) its own array is untouched: the result lives in
the fresh array -/
theorem append_no_room (h : Heap) (fresh : Nat) (s : Slice) (xs : Bytes) (hroom : s.cap < s.len + xs.length)
    (hf : fresh ≠ s.arr) : (append h fresh s xs).1 s.arr = h s.arr ∧ (append h fresh s xs).2.arr = fresh := by
  unfold append
  have : ¬ s.len + xs.length ≤ s.cap := by omega
  simp [this, hf.symm]

/-- when there is room, the slice's own array **is** written: byte `j` of `xs` lands at position
`off + len + j`, i.e. in the spare capacity behind the slice — memory the slice's holder may be
using for something else -/
theorem append_in_place (h : Heap) (fresh : Nat) (s : Slice) (xs : Bytes) (hroom : s.len + xs.length ≤ s.cap)
    (j : Nat) (hj : j < xs.length) :
    (append h fresh s xs).1 s.arr (s.off + s.len + j) = xs.getD j 0 ∧ (append h fresh s xs).2.arr = s.arr := by
  unfold append writeAt
  simp only [hroom, ite_true, and_true]
  have h1 : s.off + s.len ≤ s.off + s.len + j ∧ s.off + s.len + j < s.off + s.len + xs.length := by omega
  simp [h1]

/-- every position outside the `|xs|` bytes directly behind the slice keeps its value: in particular
the slice's own contents and everything before it -/
theorem append_elsewhere (h : Heap) (fresh : Nat) (s : Slice) (xs : Bytes) (hf : fresh ≠ s.arr) (i : Nat)
    (hi : i < s.off + s.len ∨ s.off + s.len + xs.length ≤ i) :
    (append h fresh s xs).1 s.arr i = h s.arr i := by
  unfold append writeAt
  split
  · simp only [ite_true]
    have : ¬ (s.off + s.len ≤ i ∧ i < s.off + s.len + xs.length) := by omega
    simp [this]
  · simp [hf.symm]

/-- a derived string built in a fresh array leaves every existing array — arguments and their
spare capacity, shared state — exactly as it was, and holds the intended value -/
theorem buildFresh_preserves (h : Heap) (fresh : Nat) (content : Bytes) (a : Nat) (ha : a ≠ fresh) :
    (buildFresh h fresh content).1 a = h a := by
  simp [buildFresh, ha]

theorem buildFresh_value (h : Heap) (fresh : Nat) (content : Bytes) (i : Nat) (hi : i < content.length) :
    get (buildFresh h fresh content).1 (buildFresh h fresh content).2 i = content[i] := by
  simp [buildFresh, Slices.get, hi]

/-- **earlier results stay stable**: appending the same bytes onto the same base slice again
rewrites the same positions with the same values, so a result handed out after the first call
(a window onto that array) reads the same after the second -/
theorem append_idempotent (h : Heap) (fresh : Nat) (s : Slice) (xs : Bytes) (hroom : s.len + xs.length ≤ s.cap) :
    (append (append h fresh s xs).1 fresh s xs).1 s.arr = (append h fresh s xs).1 s.arr := by
  unfold append
  simp only [hroom, ite_true]
  funext i
  unfold writeAt
  split <;> rfl

/-- … but appending *different* bytes does change what an earlier result reads -/
theorem append_other_bytes_changes (h : Heap) (fresh : Nat) (s : Slice) (x y : UInt8) (hxy : x ≠ y)
    (hroom : s.len + 1 ≤ s.cap) :
    (append (append h fresh s [x]).1 fresh s [y]).1 s.arr (s.off + s.len) ≠ (append h fresh s [x]).1 s.arr (s.off + s.len) := by
  unfold append writeAt
  simp [hroom, hxy.symm]

/-- the defect class, as a concrete witness: `append(blind, 0x00)` on a 2-byte slice inside a
4-byte buffer overwrites the caller's third byte -/
example : (append (fun _ i => UInt8.ofNat (i + 1)) 1 ⟨0, 0, 2, 4⟩ [0]).1 0 2 = 0 ∧
    (fun (_ : Nat) (i : Nat) => UInt8.ofNat (i + 1)) 0 2 = 3 := by decide

/-- … whereas building `blind ‖ 0x00` fresh leaves the buffer alone -/
example : (buildFresh (fun _ i => UInt8.ofNat (i + 1)) 1 [1, 2, 0]).1 0 2 = 3 := by decide

end PatVerif.Props.C16
