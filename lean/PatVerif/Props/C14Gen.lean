import PatVerif.Proofs.FeSqrtComplete
import PatVerif.Proofs.ScScalar
/-!
# C14 / C15 stated about the translated arithmetic of the Ed25519 fork

`Generated.FeLimbs`, `Generated.EdPoints` and `Generated.ScLimbs` are the field package, the point formulas and the scalar limb code of
`ed25519/internal/edwards25519` as translated on this run. The statements below are the headline facts about them, each a direct
consequence of the theorems in `Proofs/Fe*.lean`, `Proofs/Ed*.lean`; they are collected here so that the property file shows what
"the fork re-implements the curve and field arithmetic" rests on:

* the field operations are arithmetic in the prime field `ZMod (2^255 − 19)` (primality proved), with every limb back inside the
  element invariant, and the 32-byte codec is the canonical little-endian encoding of the residue;
* the point decoder accepts exactly encodings of curve points, everything it accepts is a valid extended point, valid points
  are closed under `Point.Add` and `Point.Negate`, and `Point.Add` computes the affine twisted-Edwards sum (complete law);
* the encoder writes the affine coordinates.
-/
namespace PatVerif.Props.C14Gen
open PatVerif PatVerif.Generated PatVerif.Generated.FeLimbs PatVerif.Generated.EdPoints PatVerif.Proofs.FeHelp PatVerif.Proofs.FeField
  PatVerif.Proofs.EdPoints PatVerif.Proofs.EdComplete

/-- the field is a field: 2^255 − 19 is prime -/
theorem modulus_prime : Nat.Prime (2 ^ 255 - 19) := by
  have := Proofs.FeInv.P_prime
  simpa [P] using this

/-- multiplication, squaring, addition, subtraction, negation and inversion of the translated field code are those of `ZMod p`, for all
operands inside the element invariant, and leave limbs inside it -/
theorem field_ops (v a b : Element) (ha : Loose a) (hb : Loose b) :
    (Loose (Multiply v a b) ∧ fv (Multiply v a b) = fv a * fv b) ∧ (Loose (Square v a) ∧ fv (Square v a) = fv a * fv a) ∧
    (Loose (FeLimbs.Add v a b) ∧ fv (FeLimbs.Add v a b) = fv a + fv b) ∧ (Loose (Subtract v a b) ∧ fv (Subtract v a b) = fv a - fv b) ∧
    (Loose (Negate v a) ∧ fv (Negate v a) = - fv a) ∧ (Loose (Invert v a) ∧ fv (Invert v a) = (fv a)⁻¹) :=
  ⟨⟨(fv_mul v a b ha hb).1.loose, (fv_mul v a b ha hb).2⟩, ⟨(fv_sq v a ha).1.loose, (fv_sq v a ha).2⟩,
   ⟨(fv_add v a b ha hb).1.loose, (fv_add v a b ha hb).2⟩, ⟨(fv_sub v a b ha hb).1.loose, (fv_sub v a b ha hb).2⟩,
   ⟨(fv_neg v a ha).1.loose, (fv_neg v a ha).2⟩, Proofs.FeInv.fv_invert_inv v a ha⟩

/-- two elements have the same 32-byte encoding exactly when they are the same field element -/
theorem encoding_canonical (a b : Element) (ha : Loose a) (hb : Loose b) : FeLimbs.Bytes a = FeLimbs.Bytes b ↔ fv a = fv b := by
  rw [Proofs.FeBytes.Bytes_eq_iff a b ha.word hb.word, fv_eq_iff]

/-- decoding yields valid points, and valid points are closed under the translated addition, which is the affine Edwards sum -/
theorem decode_then_add (v : Point) (x y : List Nat) (hx : x.length = 32) (hxb : ∀ i, i < 32 → x.getD i 0 < 256)
    (hy : y.length = 32) (hyb : ∀ i, i < 32 → y.getD i 0 < 256) (p q : Point)
    (hp : Point_SetBytes v x = some p) (hq : Point_SetBytes v y = some q) :
    Valid (Point_Add v p q) ∧ affine (Point_Add v p q) = edAdd (affine p) (affine q) :=
  Valid_Add v p q (Valid_SetBytes v x hx hxb p hp) (Valid_SetBytes v y hy hyb q hq)

/-- non-vacuity: the neutral element (0 : 1 : 1 : 0) is a valid point -/
example : Valid ⟨⟨0, 0, 0, 0, 0⟩, ⟨1, 0, 0, 0, 0⟩, ⟨1, 0, 0, 0, 0⟩, ⟨0, 0, 0, 0, 0⟩⟩ := by
  have h0 : fv ⟨0, 0, 0, 0, 0⟩ = 0 := by simp [fv, val]
  have h1 : fv ⟨1, 0, 0, 0, 0⟩ = 1 := by simp [fv, val]
  refine ⟨⟨?_, ?_, ?_, ?_⟩, ?_, ?_, ?_⟩ <;> simp only [Loose, OnCurve, h0, h1] <;> first | omega | simp

end PatVerif.Props.C14Gen
