import PatVerif.Props.C20
import PatVerif.Proofs.PaddingRefine
/-!
# C20 stated about the translated source

`Generated.Padding.padOriginName` / `unpadOriginName` are the two functions of
`tokens/type3/client.go` as translated on this run. The clauses of C20 about them follow from the
theorems of `Props/C20.lean` and the refinement theorems of `Proofs/PaddingRefine.lean`.
-/
namespace PatVerif.Props.C20Gen
open PatVerif PatVerif.Padding PatVerif.Proofs.PaddingRefine
open PatVerif.Generated.Padding

/-- padding never panics and fills the name up to its number of 32-byte blocks (one block for the empty name) -/
theorem pad_blocks (s : Bytes) :
    ∃ p, padOriginName s = .ok p ∧ p.length = 32 * blocks s.length ∧ p.take s.length = s := by
  refine ⟨pad s, padOriginName_refines s, C20.pad_length s, ?_⟩
  unfold pad; simp

/-- unpadding never panics, for any byte string, and its result never ends in a zero byte -/
theorem unpad_total (p : Bytes) : ∃ s, unpadOriginName p = .ok s ∧ s.getLast? ≠ some 0 :=
  ⟨unpad p, unpadOriginName_refines p, C20.unpad_no_trailing_zero p⟩

/-- a name that does not end in a zero byte is recovered exactly by the issuer's unpadding -/
theorem unpad_pad (s : Bytes) (h : s.getLast? ≠ some 0) :
    (padOriginName s).bind unpadOriginName = .ok s := by
  rw [padOriginName_refines]
  simp only [Res.bind_ok]
  rw [unpadOriginName_refines, C20.unpad_pad s h]

/-- two names recovered as the same name are the same name: no two registered origins are confused -/
theorem no_confusion (a b : Bytes) (ha : a.getLast? ≠ some 0) (hb : b.getLast? ≠ some 0)
    (h : (padOriginName a).bind unpadOriginName = (padOriginName b).bind unpadOriginName) : a = b := by
  rw [unpad_pad a ha, unpad_pad b hb] at h
  injection h

/-- the wire size of the request depends on the name only through its number of blocks -/
theorem size_by_blocks (s : Bytes) :
    ∃ p, padOriginName s = .ok p ∧ requestSize p.length = 488 + 32 * blocks s.length :=
  ⟨pad s, padOriginName_refines s, C20.size_by_blocks s⟩

/-! non-vacuity: the translated code on concrete inputs (the empty name gets a whole block) -/
example : (padOriginName []).map List.length = .ok 32 := by decide
example : (padOriginName [1, 2, 3]).map List.length = .ok 32 := by decide
example : unpadOriginName [7, 0, 8, 0, 0] = .ok [7, 0, 8] := by decide
example : unpadOriginName [0, 0] = .ok [] := by decide

end PatVerif.Props.C20Gen
