import PatVerif.Model.Structs

/-!
# C04 — wire codecs round-trip, re-encode stably and keep request types apart

Every statement is for all values / all byte strings / all histories of calls on one object.
The structures are the codecs of `Model/Structs.lean`; the two laws are carried by the `Codec`
structure itself (proved per combinator in `Model/Codec.lean`), so the per-structure theorems
below are instances. They are listed one by one so that the audit shows each of them.
-/
namespace PatVerif.Props.C04
open PatVerif Codec Structs
set_option linter.unusedSimpArgs false

/-! ## decode ∘ encode = id on well-formed values (any trailing bytes are left unread) -/

theorem decode_encode {α : Type} (c : Codec α) (v : α) (rest : Bytes) (h : c.wf v) :
    c.dec (c.enc v ++ rest) = some (v, rest) := c.dec_enc v rest h

theorem decode_encode_exact {α : Type} (c : ExactCodec α) (v : α) (h : c.wf v) :
    c.dec (c.enc v) = some v := c.dec_enc v h

theorem token_roundtrip (nk : Nat) (t : Token) (rest : Bytes) (h : t.WF nk) :
    (tokenCodec nk).dec (t.marshal ++ rest) = some (t, rest) := by
  rw [← tokenCodec_enc]; exact (tokenCodec nk).dec_enc t rest h

theorem challenge_roundtrip (c : Challenge) (rest : Bytes) (h : c.WF) :
    challengeCodec.dec (challengeCodec.enc c ++ rest) = some (c, rest) := challengeCodec.dec_enc c rest h

theorem req1_roundtrip (r : BasicReq) (rest : Bytes) (h : r.blinded.length = 49) :
    req1Codec.dec (req1Codec.enc r ++ rest) = some (r, rest) := req1Codec.dec_enc r rest h

theorem req2_roundtrip (r : BasicReq) (rest : Bytes) (h : r.blinded.length = 256) :
    req2Codec.dec (req2Codec.enc r ++ rest) = some (r, rest) := req2Codec.dec_enc r rest h

theorem req3_roundtrip (r : Req3) (h : r.WF) : req3Codec.dec (req3Codec.enc r) = some r :=
  req3Codec.dec_enc r h

theorem inner_roundtrip (r : Inner) (rest : Bytes) (h : r.WF) :
    innerCodec.dec (innerCodec.enc r ++ rest) = some (r, rest) := innerCodec.dec_enc r rest h

theorem req5_roundtrip (r : Req5) (rest : Bytes) (h : req5Codec.wf r) :
    req5Codec.dec (req5Codec.enc r ++ rest) = some (r, rest) := req5Codec.dec_enc r rest h

theorem batchReq_roundtrip (es : List BatchElem) (rest : Bytes) (h : batchReqCodec.wf es) :
    batchReqCodec.dec (batchReqCodec.enc es ++ rest) = some (es, rest) := batchReqCodec.dec_enc es rest h

theorem batchResp_roundtrip (es : List (UInt8 × RespEntry)) (rest : Bytes) (h : batchRespCodec.wf es) :
    batchRespCodec.dec (batchRespCodec.enc es ++ rest) = some (es, rest) := batchRespCodec.dec_enc es rest h

theorem encapKey_roundtrip (pkOk : Nat → Bytes → Bool) (k : EncapKey) (rest : Bytes) (h : (encapKeyCodec pkOk).wf k) :
    (encapKeyCodec pkOk).dec ((encapKeyCodec pkOk).enc k ++ rest) = some (k, rest) :=
  (encapKeyCodec pkOk).dec_enc k rest h

/-! ## whenever a decoder accepts `b`: the canonical encoding of the decoded value is no longer
than `b` and decodes to the same value -/

theorem canonical {α : Type} (c : Codec α) (b : Bytes) (v : α) (r : Bytes) (h : c.dec b = some (v, r)) :
    (c.enc v).length ≤ b.length ∧ c.dec (c.enc v) = some (v, []) := Codec.canonical c b v r h

theorem canonical_exact {α : Type} (c : ExactCodec α) (b : Bytes) (v : α) (h : c.dec b = some v) :
    (c.enc v).length ≤ b.length ∧ c.dec (c.enc v) = some v := by
  have ⟨w, l⟩ := c.enc_dec b v h
  exact ⟨l, c.dec_enc v w⟩

theorem token_canonical (nk : Nat) (b : Bytes) (t : Token) (r : Bytes) (h : (tokenCodec nk).dec b = some (t, r)) :
    t.marshal.length ≤ b.length ∧ (tokenCodec nk).dec t.marshal = some (t, []) := by
  rw [← tokenCodec_enc]; exact canonical _ b t r h

/-- structures read with `cryptobyte` only are even prefix-exact: the accepted string *is* the
canonical encoding followed by the unread rest -/
theorem token_prefix (nk : Nat) (b : Bytes) (t : Token) (r : Bytes) (h : (tokenCodec nk).dec b = some (t, r)) :
    b = t.marshal ++ r := by rw [← tokenCodec_enc]; exact tokenCodec_strict nk b t r h

theorem challenge_canonical (b : Bytes) (c : Challenge) (r : Bytes) (h : challengeCodec.dec b = some (c, r)) :
    (challengeCodec.enc c).length ≤ b.length ∧ challengeCodec.dec (challengeCodec.enc c) = some (c, []) :=
  canonical _ b c r h

theorem req1_canonical (b : Bytes) (v : BasicReq) (r : Bytes) (h : req1Codec.dec b = some (v, r)) :
    (req1Codec.enc v).length ≤ b.length ∧ req1Codec.dec (req1Codec.enc v) = some (v, []) := canonical _ b v r h

theorem req2_canonical (b : Bytes) (v : BasicReq) (r : Bytes) (h : req2Codec.dec b = some (v, r)) :
    (req2Codec.enc v).length ≤ b.length ∧ req2Codec.dec (req2Codec.enc v) = some (v, []) := canonical _ b v r h

/-- the generic batch decoder steps by the length of the re-encoding of each element; that is
sound because an accepted element is exactly its re-encoding followed by the rest -/
theorem req1_prefix (b : Bytes) (v : BasicReq) (r : Bytes) (h : req1Codec.dec b = some (v, r)) :
    b = req1Codec.enc v ++ r ∧ (req1Codec.enc v).length = 52 := by
  have hs := basicReqCodec_strict 1 (by decide) 49 b v r h
  have ⟨w, _⟩ := req1Codec.enc_dec b v r h
  refine ⟨hs, ?_⟩
  have w' : v.blinded.length = 49 := w
  simp [req1Codec, basicReqCodec, iso, pair, tag16, u8, fixed, encU16, w']

theorem req2_prefix (b : Bytes) (v : BasicReq) (r : Bytes) (h : req2Codec.dec b = some (v, r)) :
    b = req2Codec.enc v ++ r ∧ (req2Codec.enc v).length = 259 := by
  have hs := basicReqCodec_strict 2 (by decide) 256 b v r h
  have ⟨w, _⟩ := req2Codec.enc_dec b v r h
  refine ⟨hs, ?_⟩
  have w' : v.blinded.length = 256 := w
  simp [req2Codec, basicReqCodec, iso, pair, tag16, u8, fixed, encU16, w']

theorem req3_canonical (b : Bytes) (v : Req3) (h : req3Codec.dec b = some v) : b = req3Codec.enc v :=
  exact_strict req3Prefix_strict b v h

theorem inner_canonical (b : Bytes) (v : Inner) (r : Bytes) (h : innerCodec.dec b = some (v, r)) :
    b = innerCodec.enc v ++ r := innerCodec_strict b v r h

theorem req5_canonical (b : Bytes) (v : Req5) (r : Bytes) (h : req5Codec.dec b = some (v, r)) :
    (req5Codec.enc v).length ≤ b.length ∧ req5Codec.dec (req5Codec.enc v) = some (v, []) := canonical _ b v r h

theorem batchReq_canonical (b : Bytes) (v : List BatchElem) (r : Bytes) (h : batchReqCodec.dec b = some (v, r)) :
    (batchReqCodec.enc v).length ≤ b.length ∧ batchReqCodec.dec (batchReqCodec.enc v) = some (v, []) :=
  canonical _ b v r h

theorem batchResp_canonical (b : Bytes) (v : List (UInt8 × RespEntry)) (r : Bytes)
    (h : batchRespCodec.dec b = some (v, r)) :
    (batchRespCodec.enc v).length ≤ b.length ∧ batchRespCodec.dec (batchRespCodec.enc v) = some (v, []) :=
  canonical _ b v r h

theorem encapKey_canonical (pkOk : Nat → Bytes → Bool) (b : Bytes) (k : EncapKey) (r : Bytes)
    (h : (encapKeyCodec pkOk).dec b = some (k, r)) :
    ((encapKeyCodec pkOk).enc k).length ≤ b.length ∧
      (encapKeyCodec pkOk).dec ((encapKeyCodec pkOk).enc k) = some (k, []) := canonical _ b k r h

/-! ## object reuse: after a successful `Unmarshal`, `Marshal` returns the canonical encoding of
the decoded value, whatever the object held (and had cached) before -/

theorem marshal_after_unmarshal {α : Type} (c : Codec α) (pv : α → Bytes → α) (o : Obj α) (b : Bytes)
    (o' : Obj α) (h : Obj.unmarshal (fun b => (c.dec b).map (·.1)) pv o b = (true, o')) :
    ∃ v r, c.dec b = some (v, r) ∧ o'.val = v ∧ (o'.marshal c.enc).1 = c.enc v ∧
      c.dec ((o'.marshal c.enc).1) = some (v, []) := by
  unfold Obj.unmarshal at h
  cases hd : c.dec b with
  | none => simp [hd] at h
  | some p =>
    obtain ⟨v, r⟩ := p
    simp [hd] at h
    subst h
    refine ⟨v, r, rfl, rfl, ?_, ?_⟩
    · simp [Obj.marshal]
    · simp [Obj.marshal]
      exact (Codec.canonical c b v r hd).2

inductive ObjOp where
  | marshal
  | unmarshal (b : Bytes)

def objStep {α : Type} (c : Codec α) (pv : α → Bytes → α) (o : Obj α) : ObjOp → Obj α
  | .marshal => (o.marshal c.enc).2
  | .unmarshal b => (Obj.unmarshal (fun b => (c.dec b).map (·.1)) pv o b).2

theorem unmarshal_raw {α : Type} (dec : Bytes → Option α) (pv : α → Bytes → α) (o : Obj α) (b : Bytes) :
    (Obj.unmarshal dec pv o b).2.raw = none := by
  unfold Obj.unmarshal; split <;> rfl

/-- the cache invariant holds after every history of `Marshal`/`Unmarshal` calls on an object
that starts with an empty cache … -/
theorem cache_invariant {α : Type} (c : Codec α) (pv : α → Bytes → α) (ops : List ObjOp) (o : Obj α)
    (h0 : o.Inv c.enc) : (ops.foldl (objStep c pv) o).Inv c.enc := by
  induction ops generalizing o with
  | nil => exact h0
  | cons op ops ih =>
    apply ih
    cases op with
    | marshal =>
      unfold objStep Obj.marshal Obj.Inv at *
      cases hr : o.raw with
      | none => simp [hr]
      | some r => simp [hr] at h0 ⊢; exact h0
    | unmarshal b =>
      simp only [objStep, Obj.Inv]
      left
      exact unmarshal_raw _ _ _ _

/-- … hence `Marshal` always returns the encoding of the current fields -/
theorem marshal_is_encoding {α : Type} (c : Codec α) (pv : α → Bytes → α) (ops : List ObjOp) (o : Obj α)
    (h0 : o.Inv c.enc) :
    ((ops.foldl (objStep c pv) o).marshal c.enc).1 = c.enc (ops.foldl (objStep c pv) o).val := by
  have h := cache_invariant c pv ops o h0
  unfold Obj.Inv at h
  unfold Obj.marshal
  rcases h with h | h <;> simp [h]

/-! ## request types are kept apart -/

/-- a decoder that starts with the tag check for `ty` rejects every message tagged otherwise -/
theorem tagged_rejects_other {α : Type} (ty : Nat) (hty : ty < 65536) (c : Codec α) (t : Nat) (ht : t < 65536)
    (hne : t ≠ ty) (b : Bytes) : (tag16 ty hty ⊗ c).dec (encU16 t ++ b) = none := by
  simp [pair, tag16, decU16_enc t b ht, hne]

theorem req1_rejects_other (t : Nat) (ht : t < 65536) (hne : t ≠ 1) (b : Bytes) :
    req1Codec.dec (encU16 t ++ b) = none := by
  simp [req1Codec, basicReqCodec, iso, tagged_rejects_other 1 (by decide) _ t ht hne b]

theorem req2_rejects_other (t : Nat) (ht : t < 65536) (hne : t ≠ 2) (b : Bytes) :
    req2Codec.dec (encU16 t ++ b) = none := by
  simp [req2Codec, basicReqCodec, iso, tagged_rejects_other 2 (by decide) _ t ht hne b]

theorem req3_rejects_other (t : Nat) (ht : t < 65536) (hne : t ≠ 3) (b : Bytes) :
    req3Codec.dec (encU16 t ++ b) = none := by
  simp [req3Codec, exact, req3Prefix, iso, tagged_rejects_other 3 (by decide) _ t ht hne b]

theorem req5_rejects_other (t : Nat) (ht : t < 65536) (hne : t ≠ 5) (b : Bytes) :
    req5Codec.dec (encU16 t ++ b) = none := by
  simp [req5Codec, iso, tagged_rejects_other 5 (by decide) _ t ht hne b]

/-- the generic batch decoder rejects an element of a type it does not carry … -/
theorem batchElem_rejects_other (t : Nat) (ht : t < 65536) (h1 : t ≠ 1) (h2 : t ≠ 2) (b : Bytes) :
    batchElemCodec.dec (encU16 t ++ b) = none := by
  simp [batchElemCodec, iso, sigma, u16, decU16_enc t b ht, batchElemBody, h1, h2, Codec.fail]

/-- … and every element it accepts is a type-1 or type-2 request accepted by that type's own
decoder -/
theorem batchElem_accepts (b : Bytes) (e : BatchElem) (r : Bytes) (h : batchElemCodec.dec b = some (e, r)) :
    (e.ty = 1 ∧ req1Codec.dec b = some (e.req, r)) ∨ (e.ty = 2 ∧ req2Codec.dec b = some (e.req, r)) := by
  have ⟨w, _⟩ := batchElemCodec.enc_dec b e r h
  have hs := batchElemCodec_strict b e r h
  obtain ⟨hty, hw⟩ := w
  have henc : batchElemCodec.enc e = encU16 e.ty ++ (batchElemBody e.ty).enc e.req := by
    simp [batchElemCodec, iso, sigma, u16]
  unfold batchElemBody at hw henc
  by_cases h1 : e.ty = 1
  · left
    refine ⟨h1, ?_⟩
    simp only [h1, ite_true] at hw henc
    rw [hs, henc]
    have hw' : e.req.blinded.length = 49 := hw
    have := req1Codec.dec_enc e.req r hw'
    simpa [req1Codec, basicReqCodec, iso, pair, tag16, u8, fixed] using this
  · by_cases h2 : e.ty = 2
    · right
      refine ⟨h2, ?_⟩
      simp only [h2, ite_true] at hw henc
      have h21 : ¬ (2 : Nat) = 1 := by decide
      simp only [h21, ite_false] at hw henc
      rw [hs, henc]
      have hw' : e.req.blinded.length = 256 := hw
      have := req2Codec.dec_enc e.req r hw'
      simpa [req2Codec, basicReqCodec, iso, pair, tag16, u8, fixed] using this
    · simp only [h1, h2, ite_false] at hw
      exact absurd hw id

/-! ## non-vacuity -/

example : (⟨1, List.replicate 32 7, List.replicate 32 8, List.replicate 32 9, List.replicate 48 1⟩ : Token).WF 48 := by
  simp [Token.WF]
example : (⟨2, [0x61, 0x62], [1, 2, 3], [[0x78], [], [0x79, 0x7a]]⟩ : Challenge).WF := by
  simp [Challenge.WF, joinComma]
example : req1Codec.dec (req1Codec.enc ⟨7, List.replicate 49 2⟩ ++ [9]) = some (⟨7, List.replicate 49 2⟩, [9]) := by
  decide
example : batchReqCodec.dec (batchReqCodec.enc [⟨1, ⟨7, List.replicate 49 2⟩⟩]) =
    some ([⟨1, ⟨7, List.replicate 49 2⟩⟩], []) := by decide
example : (varBytes.dec [0x40, 0x01, 0xaa]).map (·.1) = some [0xaa] ∧ varBytes.enc [0xaa] = [0x01, 0xaa] := by decide

end PatVerif.Props.C04
