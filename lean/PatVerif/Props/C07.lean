import PatVerif.Model.Type3
import PatVerif.Props.C06
/-!
# C07 — the rate-limited issuer signs only authentic, untampered requests
-/
namespace PatVerif.Props.C07
open PatVerif Structs Codec Padding Type3
set_option linter.unusedSimpArgs false

variable {Pt : Type}

/-- a response is produced only for a request that parses completely, decrypts under the issuer's
name key with `key id ‖ suite ids ‖ type ‖ request key ‖ issuer key id` as associated data, names
a registered origin, carries a request key that is a point and a signature that verifies under it
over the whole request, and whose blinded message the token key signs. (The result is an
`Option`: on every other path there is no response and no blinded key — "no partial output".) -/
theorem respond_only_if (K : Crypto Pt) (iss : Issuer) (b : Bytes) (out : Bytes × Bytes)
    (h : issuerEvaluate K iss b = some out) :
    ∃ r inner secret indexKey rk bs,
      req3Codec.dec b = some r ∧ b = req3Codec.enc r ∧ r.WF ∧
      decryptInner K iss r = some (inner, secret) ∧
      (∃ pt sec, K.hpkeOpen (r.encrypted.take 32) (r.encrypted.drop 32) (iss.aad r.requestKey) = some (pt, sec)) ∧
      lookupOrigin iss.origins (unpad inner.paddedOrigin) = some indexKey ∧
      K.decodeKey r.requestKey = some rk ∧
      K.sigVerify rk (req3SignedMessage r) r.signature = true ∧
      K.blindSign inner.blindedMsg = some bs ∧
      out = (K.sealResponse (r.encrypted.take 32) secret bs, K.encodeKey (K.blindKey rk indexKey ctxIssuer)) := by
  unfold issuerEvaluate at h
  cases h1 : req3Codec.dec b with
  | none => simp [h1] at h
  | some r =>
    simp only [h1] at h
    cases h2 : decryptInner K iss r with
    | none => simp [h2] at h
    | some p =>
      obtain ⟨inner, secret⟩ := p
      simp only [h2] at h
      cases h3 : lookupOrigin iss.origins (unpad inner.paddedOrigin) with
      | none => simp [h3] at h
      | some indexKey =>
        simp only [h3] at h
        cases h4 : K.decodeKey r.requestKey with
        | none => simp [h4] at h
        | some rk =>
          simp only [h4] at h
          by_cases h5 : K.sigVerify rk (req3SignedMessage r) r.signature = true
          · simp only [h5, Bool.not_true, Bool.false_eq_true, ite_false] at h
            cases h6 : K.blindSign inner.blindedMsg with
            | none => simp [h6] at h
            | some bs =>
              simp only [h6, Option.some.injEq] at h
              have hopen : ∃ pt sec, K.hpkeOpen (r.encrypted.take 32) (r.encrypted.drop 32) (iss.aad r.requestKey) = some (pt, sec) := by
                unfold decryptInner at h2
                split at h2
                · simp at h2
                · cases ho : K.hpkeOpen (r.encrypted.take 32) (r.encrypted.drop 32) (iss.aad r.requestKey) with
                  | none => simp [ho] at h2
                  | some q => exact ⟨q.1, q.2, rfl⟩
              exact ⟨r, inner, secret, indexKey, rk, bs, rfl, exact_strict req3Prefix_strict b r h1,
                (req3Codec.enc_dec b r h1).1, h2, hopen, h3, h4, h5, h6, h.symm⟩
          · simp [h5] at h

/-- a request for a name that is not registered is refused -/
theorem unregistered_refused (K : Crypto Pt) (iss : Issuer) (b : Bytes) (r : Req3) (inner : Inner) (secret : Bytes)
    (h1 : req3Codec.dec b = some r) (h2 : decryptInner K iss r = some (inner, secret))
    (h3 : lookupOrigin iss.origins (unpad inner.paddedOrigin) = none) : issuerEvaluate K iss b = none := by
  simp [issuerEvaluate, h1, h2, h3]

/-- **tamper rejection in the symbolic model.** Let `b₀` be an accepted request. Assume the
primitives are ideal relative to it: the only (enc, ciphertext, aad) triple the name key opens is
`b₀`'s, and the only (key, message, signature) triples that verify under `b₀`'s request key carry
`b₀`'s message and signature (or its `(r, N−s)` twin `sig'`). Then every accepted byte string is
`b₀` itself or `b₀` with the twin signature — in particular every single-bit change of `b₀` is
rejected unless it lands on the twin. -/
theorem only_honest_accepted (K : Crypto Pt) (iss : Issuer) (r0 : Req3) (sig' : Bytes) (hw0 : r0.WF)
    (haead : ∀ enc ct aad, K.hpkeOpen enc ct aad ≠ none →
        enc = r0.encrypted.take 32 ∧ ct = r0.encrypted.drop 32 ∧ aad = iss.aad r0.requestKey)
    (hpfx : iss.aadPrefix.length = 7) (hcfg : iss.configId.length = 32)
    (hkey : ∀ b rk, K.decodeKey b = some rk → K.encodeKey rk = b)
    (hsig : ∀ rk msg sig, K.encodeKey rk = r0.requestKey → K.sigVerify rk msg sig = true →
        msg = req3SignedMessage r0 ∧ (sig = r0.signature ∨ sig = sig'))
    (b : Bytes) (out : Bytes × Bytes) (h : issuerEvaluate K iss b = some out) :
    b = req3Codec.enc r0 ∨ b = req3Codec.enc { r0 with signature := sig' } := by
  obtain ⟨r, inner, secret, indexKey, rk, bs, hdec, hb, hw, _, ⟨pt, sec, hopen⟩, _, hrk, hsv, _, _⟩ :=
    respond_only_if K iss b out h
  have ⟨he, hc, ha⟩ := haead (r.encrypted.take 32) (r.encrypted.drop 32) (iss.aad r.requestKey) (by rw [hopen]; simp)
  -- the ciphertext is the honest one
  have henc : r.encrypted = r0.encrypted := by
    have := List.take_append_drop 32 r.encrypted
    rw [he, hc, List.take_append_drop] at this
    exact this.symm
  -- the associated data pins the request key
  have hrkeq : r.requestKey = r0.requestKey := by
    unfold Issuer.aad at ha
    have h49 : r.requestKey.length = 49 := hw.1
    have h49' : r0.requestKey.length = 49 := hw0.1
    have := congrArg (fun l => (l.drop (7 + 2)).take 49) ha
    simp only [List.append_assoc] at this
    simpa [List.drop_append, List.take_append, hpfx, encU16, h49, h49'] using this
  have ⟨hmsg, hsg⟩ := hsig rk _ _ (by rw [hkey _ _ hrk, hrkeq]) hsv
  have ⟨_, hnk, _⟩ := C06.signedMessage_injective r r0 hw.1 hw0.1 hw.2.1 hw0.2.1 hw.2.2.1.1 hw0.2.2.1.1 hmsg
  have hr : r = { r0 with signature := r.signature } := by
    cases r; cases r0
    simp only [Req3.mk.injEq]
    exact ⟨hrkeq, hnk, henc, trivial⟩
  rcases hsg with hs | hs
  · left; rw [hb, hr, hs]
  · right; rw [hb, hr, hs]

/-! non-vacuity: the toy instantiation of C06 extended with an HPKE that opens exactly one triple -/
example : (issuerEvaluate
    { C06.toy with
        hpkeOpen := fun _ _ _ => some (innerCodec.enc ⟨1, List.replicate 256 3, Padding.pad [0x61]⟩, [9]),
        blindSign := fun m => some m }
    ⟨List.replicate 7 0, List.replicate 32 0, [([0x61], [5])]⟩
    (req3Codec.enc ⟨List.replicate 49 2, List.replicate 32 0, List.replicate 40 1,
      List.replicate 96 (UInt8.ofNat (2 + 49 + 32 + 2 + 40))⟩)).isSome = true := by decide +kernel

end PatVerif.Props.C07
