import PatVerif.Model.Padding
/-!
# C20 — origin names are recovered exactly; their length leaks only in 32-byte buckets
-/
namespace PatVerif.Props.C20
open PatVerif PatVerif.Padding PatVerif.Structs
set_option linter.unusedSimpArgs false

theorem padLen_spec (n : Nat) : padLen n = 32 * blocks n - n := by
  unfold padLen blocks
  rcases Nat.eq_zero_or_pos n with h | h
  · subst h; decide
  · have h1 : ((n : Int) - 1) = ((n - 1 : Nat) : Int) := by omega
    rw [h1]
    have h2 : ((n - 1 : Nat) : Int).tmod 32 = (((n - 1) % 32 : Nat) : Int) := by
      rw [Int.tmod_eq_emod_of_nonneg (by omega)]; omega
    rw [h2]
    have : n ≠ 0 := by omega
    simp only [this, ite_false]
    omega

/-- the padded name fills whole 32-byte blocks: exactly as many as the name needs -/
theorem pad_length (s : Bytes) : (pad s).length = 32 * blocks s.length := by
  unfold pad
  simp only [List.length_append, List.length_replicate, padLen_spec]
  unfold blocks
  split <;> omega

theorem stripZeros_replicate_append (k : Nat) (r : Bytes) :
    stripZeros (List.replicate k 0 ++ r) = stripZeros r := by
  induction k with
  | zero => simp
  | succ k ih => simp [List.replicate_succ, stripZeros, ih]

theorem stripZeros_of_head_ne (x : UInt8) (r : Bytes) (h : x ≠ 0) : stripZeros (x :: r) = x :: r := by
  simp [stripZeros, h]

/-- a name that does not end in a zero byte is recovered exactly -/
theorem unpad_pad (s : Bytes) (h : s.getLast? ≠ some 0) : unpad (pad s) = s := by
  unfold unpad pad
  rw [List.reverse_append, List.reverse_replicate, stripZeros_replicate_append]
  cases hs : s.reverse with
  | nil => simp [stripZeros]; simpa using hs
  | cons x r =>
    have hx : x ≠ 0 := by
      intro e
      apply h
      rw [List.getLast?_eq_head?_reverse, hs, e]; rfl
    rw [stripZeros_of_head_ne x r hx, ← hs, List.reverse_reverse]

/-- what unpadding returns never ends in a zero byte (so the names excluded by the hypothesis of
`unpad_pad` are exactly the ones that cannot be represented) -/
theorem unpad_no_trailing_zero (p : Bytes) : (unpad p).getLast? ≠ some 0 := by
  unfold unpad
  rw [List.getLast?_reverse]
  induction p.reverse with
  | nil => simp [stripZeros]
  | cons x r ih =>
    unfold stripZeros
    split
    · exact ih
    · rename_i hx; simp; exact hx

/-- different names stay different: "a similar name is a different name" -/
theorem unpad_pad_injective (a b : Bytes) (ha : a.getLast? ≠ some 0) (hb : b.getLast? ≠ some 0)
    (h : unpad (pad a) = unpad (pad b)) : a = b := by
  rw [unpad_pad a ha, unpad_pad b hb] at h; exact h

/-- the request size depends on the name only through its number of blocks -/
theorem size_by_blocks (s : Bytes) : requestSize (pad s).length = 488 + 32 * blocks s.length := by
  rw [pad_length]; unfold requestSize; omega

theorem same_blocks_same_size (a b : Bytes) (h : blocks a.length = blocks b.length) :
    requestSize (pad a).length = requestSize (pad b).length := by
  rw [size_by_blocks, size_by_blocks, h]

/-- `requestSize` is the length of the type-3 request encoding of `Model/Structs.lean` whose
ciphertext is `enc(32) ‖ inner request ‖ tag(16)` -/
theorem requestSize_is_wire_size (r : Req3) (inner : Inner) (hw : r.WF) (hi : inner.blindedMsg.length = 256)
    (hc : r.encrypted.length = 32 + (innerCodec.enc inner).length + 16) :
    (req3Codec.enc r).length = requestSize inner.paddedOrigin.length := by
  obtain ⟨h1, h2, _, h4⟩ := hw
  have hin : (innerCodec.enc inner).length = 1 + 256 + 2 + inner.paddedOrigin.length := by
    simp [innerCodec, Codec.iso, Codec.pair, Codec.u8, Codec.fixed, Codec.vec16, Codec.encU16, hi]; omega
  rw [req3_enc]
  simp [req3SignedMessage, Codec.encU16, h1, h2, h4, hc, hin, requestSize]
  omega

/-! non-vacuity -/
example : padLen 0 = 32 ∧ padLen 1 = 31 ∧ padLen 32 = 0 ∧ padLen 33 = 31 ∧ padLen 14 = 18 := by decide
example : unpad (pad [0x61, 0, 0x62]) = [0x61, 0, 0x62] := by decide
example : unpad (pad [0x61, 0]) = [0x61] := by decide
example : requestSize (pad (List.replicate 14 0x61)).length = 520 := by decide

end PatVerif.Props.C20
