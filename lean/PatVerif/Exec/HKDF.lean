import PatVerif.Exec.HMAC
/-!
# Executable HKDF (RFC 5869) over SHA-256/384/512
-/
namespace PatVerif.Exec

/-- `PRK = HMAC(salt, IKM)`; an empty salt stands for `outLen` zero bytes -/
def hkdfExtract (h : HashAlg) (salt ikm : Bytes) : Bytes :=
  hmac h (if salt.isEmpty then List.replicate h.outLen 0 else salt) ikm

/-- `T(i) ‖ T(i+1) ‖ … ` for `n` blocks, where `t = T(i-1)` and `T(i) = HMAC(PRK, T(i-1) ‖ info ‖ i)` -/
def hkdfBlocks (h : HashAlg) (prk info : Bytes) : Nat → UInt8 → Bytes → Bytes
  | 0, _, _ => []
  | n+1, i, t =>
    let t' := hmac h prk (t ++ info ++ [i])
    t' ++ hkdfBlocks h prk info n (i + 1) t'

/-- First `len` bytes of `T(1) ‖ T(2) ‖ …`. RFC 5869 requires `len ≤ 255 * outLen`
(`x/crypto/hkdf` returns an error beyond that); outside that range this function returns `[]`. -/
def hkdfExpand (h : HashAlg) (prk info : Bytes) (len : Nat) : Bytes :=
  let n := (len + h.outLen - 1) / h.outLen
  if n > 255 then [] else (hkdfBlocks h prk info n 1 []).take len

def hkdf (h : HashAlg) (ikm salt info : Bytes) (len : Nat) : Bytes :=
  hkdfExpand h (hkdfExtract h salt ikm) info len

end PatVerif.Exec
