import PatVerif.Exec.SHA2
/-!
# Executable `expand_message_xmd` and `hash_to_field` (RFC 9380 §5.3.1, §5.3.3, §5.2)

Mirrors `circl@v1.3.7/expander.(*expanderMD).Expand` and `group.HashToField` with `len(u) = 1`.
-/
namespace PatVerif.Exec

/-- `DST_prime = DST ‖ I2OSP(len(DST), 1)`; a DST longer than 255 bytes is first replaced by
`H("H2C-OVERSIZE-DST-" ‖ DST)` (§5.3.3). -/
def xmdDstPrime (h : HashAlg) (dst : Bytes) : Bytes :=
  let d := if dst.length > 255 then h.hash ("H2C-OVERSIZE-DST-".toUTF8.toList ++ dst) else dst
  d ++ [UInt8.ofNat d.length]

/-- `b_i ‖ b_(i+1) ‖ …` for `n` blocks, where `prev = b_(i-1)` and
`b_i = H((b_0 ⊕ b_(i-1)) ‖ I2OSP(i, 1) ‖ DST_prime)`. -/
def xmdBlocks (h : HashAlg) (b0 dstPrime : Bytes) : Nat → UInt8 → Bytes → Bytes
  | 0, _, _ => []
  | n+1, i, prev =>
    let bi := h.hash (List.zipWith (· ^^^ ·) b0 prev ++ [i] ++ dstPrime)
    bi ++ xmdBlocks h b0 dstPrime n (i + 1) bi

/-- `expand_message_xmd(msg, DST, len_in_bytes)`.
The RFC aborts (and circl panics) when `ell = ⌈len / outLen⌉ > 255`; this total function returns `[]`
there. (`ell ≤ 255` already implies `len ≤ 16320 < 65536`, so `I2OSP(len, 2)` is exact.) -/
def expandMessageXmd (h : HashAlg) (msg dst : Bytes) (lenInBytes : Nat) : Bytes :=
  let ell := (lenInBytes + h.outLen - 1) / h.outLen
  if ell > 255 then [] else
  let dstPrime := xmdDstPrime h dst
  let lIBStr : Bytes := [UInt8.ofNat (lenInBytes / 256), UInt8.ofNat lenInBytes]
  let b0 := h.hash (List.replicate h.blockLen 0 ++ msg ++ lIBStr ++ [0] ++ dstPrime)
  let b1 := h.hash (b0 ++ [1] ++ dstPrime)
  (b1 ++ xmdBlocks h b0 dstPrime (ell - 1) 2 b1).take lenInBytes

/-- `hash_to_field` with `count = 1`, `m = 1`: `OS2IP(expand_message_xmd(msg, DST, L)) mod modulus`.
(`x % 0 = x` in Lean; Go's `big.Int.Mod` panics on a zero modulus.) -/
def hashToField (h : HashAlg) (msg dst : Bytes) (modulus : Nat) (L : Nat) : Nat :=
  beNat (expandMessageXmd h msg dst L) % modulus

end PatVerif.Exec
