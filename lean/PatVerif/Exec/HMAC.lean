import PatVerif.Exec.SHA2
/-!
# Executable HMAC (RFC 2104) over SHA-256/384/512

Written on `Bytes` directly in terms of `HashAlg.hash`, so it reads as the RFC text; the list
handling is linear and negligible next to the compression function.
-/
namespace PatVerif.Exec

/-- the key brought to exactly `blockLen` bytes: hashed if longer than a block, then zero-padded -/
def hmacKeyBlock (h : HashAlg) (key : Bytes) : Bytes :=
  let k := if key.length > h.blockLen then h.hash key else key
  k ++ List.replicate (h.blockLen - k.length) 0

/-- `HMAC(key, msg) = H((K ⊕ opad) ‖ H((K ⊕ ipad) ‖ msg))` -/
def hmac (h : HashAlg) (key msg : Bytes) : Bytes :=
  let k := hmacKeyBlock h key
  h.hash (k.map (· ^^^ 0x5c) ++ h.hash (k.map (· ^^^ 0x36) ++ msg))

end PatVerif.Exec
