import PatVerif.Basic
/-!
# Executable reference: NIST prime curves (short Weierstrass, `y² = x³ + a·x + b` over `𝔽_p`)

Everything is a total computable function over `Nat`; field elements are canonical residues `< p`.
* Affine points are `Option (Nat × Nat)`, `none` = point at infinity. `Curve.add` is the textbook
  chord/tangent law (same case split as Mathlib's `WeierstrassCurve.Affine.Point.add`).
* `Curve.mul` is left-to-right double-and-add in Jacobian coordinates `(X, Y, Z)` ↔ `(X/Z², Y/Z³)`,
  `Z = 0` = infinity, with one modular inversion at the end. The scalar is used as is (never reduced).
* `modInv` is Fermat (`a^(m-2) mod m`): **only correct for prime `m`** — here always `p` or `n`.
* `Curve.decompress` mirrors Go's `elliptic.UnmarshalCompressed`; square roots by `a^((p+1)/4)` when
  `p ≡ 3 (mod 4)` and by Tonelli–Shanks (fuel-bounded) otherwise (P-224).
Validated differentially against Go's `crypto/elliptic` (scalar mult, add, on-curve, (un)marshal) on all four curves.
-/
namespace PatVerif.Exec

/-! ## Modular arithmetic -/

/-- square-and-multiply, least significant bit first; `fuel ≥` bit length of `e`. -/
def modPowAux (m : Nat) : Nat → Nat → Nat → Nat → Nat
  | 0, _, _, acc => acc
  | fuel + 1, b, e, acc =>
    if e = 0 then acc
    else modPowAux m fuel (b * b % m) (e / 2) (if e % 2 = 1 then acc * b % m else acc)

/-- `b ^ e mod m` (`0` when `m = 1`, like `big.Int.Exp`; `b ^ e` itself when `m = 0`). -/
def modPow (b e m : Nat) : Nat := modPowAux m (e.log2 + 1) (b % m) e (1 % m)

/-- Inverse of `a` modulo a **prime** `m` by Fermat; `0` when `a ≡ 0`. -/
def modInv (a m : Nat) : Nat := if a % m = 0 then 0 else modPow a (m - 2) m

/-- `x ^ (2 ^ k) mod p` -/
def sqPow (p : Nat) : Nat → Nat → Nat
  | 0, x => x
  | k + 1, x => sqPow p k (x * x % p)

/-- write `q₀ = q · 2^s` with `q` odd: returns `(q, s₀ + s)`; `fuel ≥` bit length of `q₀`. -/
def twoAdic : Nat → Nat → Nat → Nat × Nat
  | 0, q, s => (q, s)
  | fuel + 1, q, s => if q ≠ 0 ∧ q % 2 = 0 then twoAdic fuel (q / 2) (s + 1) else (q, s)

/-- least `z ≥ z₀` that is a quadratic non-residue mod `p` (Euler's criterion), searching `fuel` candidates. -/
def findNonResidue (p : Nat) : Nat → Nat → Nat
  | 0, z => z
  | fuel + 1, z => if modPow z ((p - 1) / 2) p = p - 1 then z else findNonResidue p fuel (z + 1)

/-- least `j ≥ i` with `t^(2^(j-i)) = 1`, looking at `fuel` successive squarings (else `i + fuel`). -/
def tsOrder (p : Nat) : Nat → Nat → Nat → Nat
  | 0, _, i => i
  | fuel + 1, t, i => if t = 1 then i else tsOrder p fuel (t * t % p) (i + 1)

/-- Tonelli–Shanks main loop. Invariants: `c` has order `2^m`, `t` has order dividing `2^(m-1)`,
`r² = a·t`. `m` strictly decreases, so `fuel = s + 1` suffices. `none` = `a` is a non-residue. -/
def tsLoop (p : Nat) : Nat → Nat → Nat → Nat → Nat → Option Nat
  | 0, _, _, _, _ => none
  | fuel + 1, m, c, t, r =>
    if t = 1 then some r else
    let i := tsOrder p m t 0
    if i ≥ m then none else
    let b := sqPow p (m - i - 1) c
    let bb := b * b % p
    tsLoop p fuel i bb (t * bb % p) (r * b % p)

/-- A square root of `a` modulo an odd prime `p`, or `none` if there is none. The result is checked
(`r² ≡ a`), so `some r` is always a genuine root whatever `p` is. -/
def modSqrt (a p : Nat) : Option Nat :=
  let a := a % p
  let chk (r : Nat) : Option Nat := if r * r % p = a then some r else none
  if a = 0 then some 0
  else if p % 4 = 3 then chk (modPow a ((p + 1) / 4) p)
  else
    let (q, s) := twoAdic (p.log2 + 1) (p - 1) 0
    let z := findNonResidue p 256 2
    match tsLoop p (s + 1) s (modPow z q p) (modPow a q p) (modPow a ((q + 1) / 2) p) with
    | some r => chk r
    | none => none

/-! ## Curves -/

structure Curve where
  name : String
  p : Nat
  /-- always `p - 3` for the NIST curves -/
  a : Nat
  b : Nat
  gx : Nat
  gy : Nat
  /-- (prime) order of the base point; cofactor is 1 -/
  n : Nat
  /-- Go's `elliptic.CurveParams.BitSize` -/
  bitSize : Nat
  deriving Repr, Inhabited

def P224 : Curve where
  name := "P-224"
  p := 0xffffffffffffffffffffffffffffffff000000000000000000000001
  a := 0xfffffffffffffffffffffffffffffffefffffffffffffffffffffffe
  b := 0xb4050a850c04b3abf54132565044b0b7d7bfd8ba270b39432355ffb4
  gx := 0xb70e0cbd6bb4bf7f321390b94a03c1d356c21122343280d6115c1d21
  gy := 0xbd376388b5f723fb4c22dfe6cd4375a05a07476444d5819985007e34
  n := 0xffffffffffffffffffffffffffff16a2e0b8f03e13dd29455c5c2a3d
  bitSize := 224

def P256 : Curve where
  name := "P-256"
  p := 0xffffffff00000001000000000000000000000000ffffffffffffffffffffffff
  a := 0xffffffff00000001000000000000000000000000fffffffffffffffffffffffc
  b := 0x5ac635d8aa3a93e7b3ebbd55769886bc651d06b0cc53b0f63bce3c3e27d2604b
  gx := 0x6b17d1f2e12c4247f8bce6e563a440f277037d812deb33a0f4a13945d898c296
  gy := 0x4fe342e2fe1a7f9b8ee7eb4a7c0f9e162bce33576b315ececbb6406837bf51f5
  n := 0xffffffff00000000ffffffffffffffffbce6faada7179e84f3b9cac2fc632551
  bitSize := 256

def P384 : Curve where
  name := "P-384"
  p := 0xfffffffffffffffffffffffffffffffffffffffffffffffffffffffffffffffeffffffff0000000000000000ffffffff
  a := 0xfffffffffffffffffffffffffffffffffffffffffffffffffffffffffffffffeffffffff0000000000000000fffffffc
  b := 0xb3312fa7e23ee7e4988e056be3f82d19181d9c6efe8141120314088f5013875ac656398d8a2ed19d2a85c8edd3ec2aef
  gx := 0xaa87ca22be8b05378eb1c71ef320ad746e1d3b628ba79b9859f741e082542a385502f25dbf55296c3a545e3872760ab7
  gy := 0x3617de4a96262c6f5d9e98bf9292dc29f8f41dbd289a147ce9da3113b5f0b8c00a60b1ce1d7e819d7a431d7c90ea0e5f
  n := 0xffffffffffffffffffffffffffffffffffffffffffffffffc7634d81f4372ddf581a0db248b0a77aecec196accc52973
  bitSize := 384

def P521 : Curve where
  name := "P-521"
  p := 0x1ffffffffffffffffffffffffffffffffffffffffffffffffffffffffffffffffffffffffffffffffffffffffffffffffffffffffffffffffffffffffffffffffff
  a := 0x1fffffffffffffffffffffffffffffffffffffffffffffffffffffffffffffffffffffffffffffffffffffffffffffffffffffffffffffffffffffffffffffffffc
  b := 0x51953eb9618e1c9a1f929a21a0b68540eea2da725b99b315f3b8b489918ef109e156193951ec7e937b1652c0bd3bb1bf073573df883d2c34f1ef451fd46b503f00
  gx := 0xc6858e06b70404e9cd9e3ecb662395b4429c648139053fb521f828af606b4d3dbaa14b5e77efe75928fe1dc127a2ffa8de3348b3c1856a429bf97e7e31c2e5bd66
  gy := 0x11839296a789a3bc0045c8a5fb42c7d1bd998f54449579b446817afbd17273e662c97ee72995ef42640c550b9013fad0761353c7086a272c24088be94769fd16650
  n := 0x1fffffffffffffffffffffffffffffffffffffffffffffffffffffffffffffffffa51868783bf2f966b7fcc0148f709a5d03bb5c9b8899c47aebb6fb71e91386409
  bitSize := 521

def Curve.byName : String → Option Curve
  | "P-224" => some P224
  | "P-256" => some P256
  | "P-384" => some P384
  | "P-521" => some P521
  | _ => none

/-- affine point; `none` is the point at infinity -/
abbrev Point := Option (Nat × Nat)

namespace Curve

/-- base point -/
def g (c : Curve) : Point := some (c.gx, c.gy)

/-- length of an encoded field element, `⌈bitSize/8⌉` -/
def byteLen (c : Curve) : Nat := (c.bitSize + 7) / 8

/-- right-hand side `x³ + a·x + b mod p` -/
def rhs (c : Curve) (x : Nat) : Nat := (x * x * x + c.a * x + c.b) % c.p

/-- Go's `IsOnCurve` for an affine pair: canonical coordinates (`< p`) satisfying the equation. -/
def onCurve (c : Curve) (x y : Nat) : Bool :=
  decide (x < c.p) && decide (y < c.p) && (y * y % c.p == c.rhs x)

def neg (c : Curve) : Point → Point
  | none => none
  | some (x, y) => some (x % c.p, (c.p - y % c.p) % c.p)

/-- Textbook affine group law (one inversion). Inputs are reduced mod `p`; the result is meaningful
when both inputs are on the curve. -/
def add (c : Curve) (P Q : Point) : Point :=
  match P, Q with
  | none, Q => Q
  | P, none => P
  | some (x1, y1), some (x2, y2) =>
    let p := c.p
    let x1 := x1 % p; let y1 := y1 % p; let x2 := x2 % p; let y2 := y2 % p
    if x1 = x2 ∧ (y1 + y2) % p = 0 then none else
    let l := if x1 = x2 then (3 * x1 * x1 + c.a) % p * modInv (2 * y1) p % p       -- tangent
             else (y1 + (p - y2)) % p * modInv (x1 + (p - x2)) p % p                -- chord
    let x3 := (l * l + (p - x1) + (p - x2)) % p
    let y3 := (l * ((x1 + (p - x3)) % p) + (p - y1)) % p
    some (x3, y3)

/-! ### Jacobian coordinates (all components `< p`) -/

structure Jac where
  x : Nat
  y : Nat
  z : Nat
  deriving Repr, Inhabited

def Jac.inf : Jac := ⟨1, 1, 0⟩

def ofAffine (c : Curve) : Point → Jac
  | none => Jac.inf
  | some (x, y) => ⟨x % c.p, y % c.p, 1 % c.p⟩

def toAffine (c : Curve) (P : Jac) : Point :=
  if P.z = 0 then none else
  let zi := modInv P.z c.p
  let zi2 := zi * zi % c.p
  some (P.x * zi2 % c.p, P.y * zi2 % c.p * zi % c.p)

/-- doubling, general `a`: `M = 3X² + aZ⁴`, `S = 4XY²`, `X' = M² − 2S`, `Y' = M(S − X') − 8Y⁴`, `Z' = 2YZ`.
Infinity (`Z = 0`) and 2-torsion (`Y = 0`) both give `Z' = 0`. -/
def jdbl (c : Curve) (P : Jac) : Jac :=
  let p := c.p
  let yy := P.y * P.y % p
  let s := 4 * P.x * yy % p
  let zz := P.z * P.z % p
  let m := (3 * P.x * P.x + c.a * (zz * zz % p)) % p
  let x3 := (m * m + 2 * (p - s)) % p
  let y3 := (m * ((s + (p - x3)) % p) + 8 * (p - yy * yy % p)) % p
  ⟨x3, y3, 2 * P.y * P.z % p⟩

/-- complete addition: handles infinity, `P = Q` (doubles) and `P = −Q` (infinity). -/
def jadd (c : Curve) (P Q : Jac) : Jac :=
  if P.z = 0 then Q else if Q.z = 0 then P else
  let p := c.p
  let z1z1 := P.z * P.z % p
  let z2z2 := Q.z * Q.z % p
  let u1 := P.x * z2z2 % p
  let u2 := Q.x * z1z1 % p
  let s1 := P.y * Q.z % p * z2z2 % p
  let s2 := Q.y * P.z % p * z1z1 % p
  if u1 = u2 then (if s1 = s2 then c.jdbl P else Jac.inf) else
  let h := (u2 + (p - u1)) % p
  let r := (s2 + (p - s1)) % p
  let hh := h * h % p
  let hhh := h * hh % p
  let v := u1 * hh % p
  let x3 := (r * r + (p - hhh) + 2 * (p - v)) % p
  let y3 := (r * ((v + (p - x3)) % p) + (p - s1 * hhh % p)) % p
  ⟨x3, y3, h * P.z % p * Q.z % p⟩

/-- bits `i-1 … 0` of `k`, most significant first: `acc ↦ 2^i·acc + (k mod 2^i)·P` -/
def jmulAux (c : Curve) (k : Nat) (P : Jac) : Nat → Jac → Jac
  | 0, acc => acc
  | i + 1, acc =>
    let d := c.jdbl acc
    jmulAux c k P i (if k.testBit i then c.jadd d P else d)

def jmul (c : Curve) (k : Nat) (P : Jac) : Jac := c.jmulAux k P (k.log2 + 1) Jac.inf

/-- scalar multiplication `k·P` for any `k : Nat` (no reduction of `k`) -/
def mul (c : Curve) (k : Nat) (P : Point) : Point := c.toAffine (c.jmul k (c.ofAffine P))

def mulBase (c : Curve) (k : Nat) : Point := c.mul k c.g

/-- `u₁·G + u₂·Q` with a single final inversion -/
def mulAdd (c : Curve) (u1 u2 : Nat) (Q : Point) : Point :=
  c.toAffine (c.jadd (c.jmul u1 (c.ofAffine c.g)) (c.jmul u2 (c.ofAffine Q)))

/-! ### SEC1 compressed points -/

/-- Go's `elliptic.MarshalCompressed` (which panics when `x ≥ 256^byteLen`; here `x` is truncated). -/
def compress (c : Curve) (x y : Nat) : Bytes := UInt8.ofNat (2 + y % 2) :: beBytes c.byteLen x

/-- Go's `elliptic.UnmarshalCompressed`: `none` unless length is `1 + byteLen`, the tag is 2 or 3,
`x < p` and `x³ + ax + b` is a square; the root with the parity asked by the tag is returned. -/
def decompress (c : Curve) (b : Bytes) : Option (Nat × Nat) :=
  match b with
  | [] => none
  | t :: xs =>
    if xs.length ≠ c.byteLen ∨ (t ≠ 2 ∧ t ≠ 3) then none else
    let x := beNat xs
    if x ≥ c.p then none else
    match modSqrt (c.rhs x) c.p with
    | none => none
    | some y => some (x, if y % 2 = t.toNat % 2 then y else (c.p - y) % c.p)

end Curve
end PatVerif.Exec
