import PatVerif.Basic
/-!
# Executable reference model of the pat-go Ed25519 fork (RFC 8032 + key blinding)

Mirrors `/repo/ed25519/ed25519.go` and the decoding rules of
`/repo/ed25519/internal/edwards25519/{edwards25519.go,scalar.go,field/fe.go}` at the mathematical
level: field elements and scalars are `Nat`s reduced mod `p` / `L`, points are extended twisted
Edwards coordinates `(X : Y : Z : T)` with `x = X/Z`, `y = Y/Z`, `xy = T/Z`. No limb arithmetic.

The hash is a parameter `H : Bytes → Bytes` (instantiate with SHA-512: `PatVerif.Exec.sha512` or
`PatVerif.Exec.Sha512Mini.sha512`); Go always feeds the 64-byte digest to the scalar reductions.

Everything is total and computable. Where Go *panics* (wrong key/seed/blind length, undecodable
public key inside `blindKeySign`, `r = 0` in `UnblindPublicKeyWithContext`) the model returns a
sentinel (`[]`, `false` or `none`) as documented on each function.

Validated byte-for-byte against the Go fork (2138 vectors, 0 mismatches; `crypto/ed25519` agreed
with the fork on every one): key derivation, signatures, verify verdicts incl. adversarial
encodings (non-canonical `S`, `R`, `A`; all 14 encodings of the 8 small-order points; mixed-order
keys), blinding / unblinding / blind signing. Compiled: one scalar multiplication ≈ 1.5 ms.
-/
namespace PatVerif.Exec.Ed25519

/-! ## Constants -/

/-- field prime `2^255 − 19` -/
def p : Nat := 2 ^ 255 - 19
/-- order of the prime-order subgroup -/
def L : Nat := 2 ^ 252 + 27742317777372353535851937790883648493
/-- curve constant `d = −121665/121666 mod p` of `−x² + y² = 1 + d x² y²` -/
def d : Nat := 37095705934669439343138083508754565189542113879843219016388785533085940283555
/-- `√−1 mod p` (`= 2^((p−1)/4)`, the constant `sqrtM1` of the Go field package) -/
def sqrtM1 : Nat := 19681161376707505956807079304988542015446066515923890162744021073123829784752

example : (d * 121666 + 121665) % p = 0 := by decide
example : sqrtM1 * sqrtM1 % p = p - 1 := by decide

/-! ## Byte strings ↔ numbers -/

/-- little-endian value of a byte string -/
def leNat : Bytes → Nat
  | [] => 0
  | b :: bs => b.toNat + 256 * leNat bs

/-- `n`-byte little-endian encoding of `v` (truncating) -/
def leBytes : Nat → Nat → Bytes
  | 0, _ => []
  | n + 1, v => UInt8.ofNat (v % 256) :: leBytes n (v / 256)

@[simp] theorem leBytes_length (n v : Nat) : (leBytes n v).length = n := by
  induction n generalizing v with
  | zero => rfl
  | succ n ih => simp [leBytes, ih]

/-! ## Modular helpers -/

/-- square-and-multiply, least significant bit first; `fuel` bounds the bit length of `e` -/
def modPowAux (m : Nat) : Nat → Nat → Nat → Nat → Nat
  | 0, _, _, acc => acc
  | fuel + 1, b, e, acc =>
    if e = 0 then acc
    else modPowAux m fuel (b * b % m) (e / 2) (if e % 2 = 1 then acc * b % m else acc)

/-- `b ^ e mod m` -/
def modPow (b e m : Nat) : Nat := modPowAux m (e.log2 + 1) (b % m) e (1 % m)

/-- inverse modulo a *prime* `m` by Fermat (`0 ↦ 0`, like Go's `field.Element.Invert`) -/
def modInv (a m : Nat) : Nat := modPow a (m - 2) m

/-! ## Scalars (Go `edwards25519.Scalar`: always reduced mod `L`) -/

/-- `Scalar.SetUniformBytes` (64 bytes) and `Scalar.SetBytes` (32 bytes, fork addition): reduce the
little-endian value mod `L`. -/
def scalarOfBytes (b : Bytes) : Nat := leNat b % L

/-- RFC 8032 §5.1.5 pruning of a 32-byte value: clear bits 0,1,2,255, set bit 254 (bit 254 of the
input is irrelevant). -/
def clamp (n : Nat) : Nat := n % 2 ^ 254 / 8 * 8 + 2 ^ 254

/-- `Scalar.SetBytesWithClamping`: clamp, then reduce mod `L` (so the cofactor-clearing is lost,
exactly as in Go). -/
def clampedScalar (b : Bytes) : Nat := clamp (leNat b) % L

/-! ## Points -/

/-- Extended twisted Edwards coordinates, all entries reduced mod `p`. -/
structure Point where
  X : Nat
  Y : Nat
  Z : Nat
  T : Nat
  deriving Repr, DecidableEq, Inhabited

namespace Point

/-- neutral element `(0, 1)` -/
def zero : Point := ⟨0, 1, 1, 0⟩

/-- Unified addition (Hisil–Wong–Carter–Dawson, `a = −1`); complete on the whole curve since `d` is
a non-square, so it also serves as doubling and handles the small-order points. -/
def add (P Q : Point) : Point :=
  let A := (P.Y + p - P.X) * (Q.Y + p - Q.X) % p
  let B := (P.Y + P.X) * (Q.Y + Q.X) % p
  let C := P.T * (2 * d) % p * Q.T % p
  let D := 2 * P.Z * Q.Z % p
  let E := (B + p - A) % p
  let F := (D + p - C) % p
  let G := (D + C) % p
  let H := (B + A) % p
  ⟨E * F % p, G * H % p, F * G % p, E * H % p⟩

/-- `−(x, y) = (−x, y)` -/
def neg (P : Point) : Point := ⟨(p - P.X) % p, P.Y, P.Z, (p - P.T) % p⟩

/-- double-and-add, least significant bit first; `fuel` bounds the bit length of `k` -/
def mulAux : Nat → Nat → Point → Point → Point
  | 0, _, _, acc => acc
  | fuel + 1, k, P, acc =>
    if k = 0 then acc
    else mulAux fuel (k / 2) (P.add P) (if k % 2 = 1 then acc.add P else acc)

/-- scalar multiplication `[k]P` -/
def mul (k : Nat) (P : Point) : Point := mulAux (k.log2 + 1) k P zero

/-- affine coordinates `(x, y)` -/
def affine (P : Point) : Nat × Nat :=
  let zi := modInv P.Z p
  (P.X * zi % p, P.Y * zi % p)

/-- `(*Point).Bytes`: canonical 32-byte encoding, `y` little-endian with the parity of `x` in
bit 255. -/
def encode (P : Point) : Bytes :=
  let (x, y) := P.affine
  leBytes 32 (y + 2 ^ 255 * (x % 2))

/-- `field.Element.SqrtRatio(u, v)` for reduced `u`, `v`: returns `(r, wasSquare)` where `r` is the
non-negative (even) root of `u/v` if `u/v` is a square (and of `√−1·u/v` otherwise). -/
def sqrtRatio (u v : Nat) : Nat × Bool :=
  let v3 := v * v % p * v % p
  let v7 := v3 * v3 % p * v % p
  let r := u * v3 % p * modPow (u * v7 % p) ((p - 5) / 8) p % p
  let check := v * (r * r % p) % p
  let nu := (p - u) % p
  let correct := check == u
  let flipped := check == nu
  let flippedI := check == nu * sqrtM1 % p
  let r := if flipped || flippedI then r * sqrtM1 % p else r
  let r := if r % 2 = 1 then p - r else r          -- `Absolute`
  (r, correct || flipped)

/-- `(*Point).SetBytes`. Length must be 32; `y` is the low 255 bits reduced mod `p` (non-canonical
`y ≥ p` accepted); `x = √((y²−1)/(dy²+1))`, rejected only if that is not a square; bit 255 selects
`−x`. As in Go, `x = 0` with the sign bit set is **accepted** (decodes to `x = 0`). -/
def decode (b : Bytes) : Option Point :=
  if b.length ≠ 32 then none
  else
    let n := leNat b
    let y := n % 2 ^ 255 % p
    let y2 := y * y % p
    let u := (y2 + p - 1) % p
    let v := (d * y2 + 1) % p
    let (x, ok) := sqrtRatio u v
    if !ok then none
    else
      let x := if n / 2 ^ 255 % 2 = 1 then (p - x) % p else x
      some ⟨x, y, 1, x * y % p⟩

end Point

/-- base point `B`, `y = 4/5`, `x` even -/
def basePoint : Point :=
  let x := 15112221349535400772501151409588531511454012693041857206046113283949847762202
  let y := 46316835694926478169428394003475163141307993866256225615783033603165251855960
  ⟨x, y, 1, x * y % p⟩

example : basePoint.Y * 5 % p = 4 := by decide
example : (basePoint.Y ^ 2 + p - basePoint.X ^ 2 % p) % p
    = (1 + d * (basePoint.X ^ 2 % p) % p * (basePoint.Y ^ 2 % p)) % p := by decide

/-! ## Keys, signing, verification -/

/-- `newKeyFromSeed`: 64-byte private key `seed ‖ publicKey`.
Go panics if `len(seed) ≠ 32`; the model returns `[]` then. -/
def newKeyFromSeed (H : Bytes → Bytes) (seed : Bytes) : Bytes :=
  if seed.length ≠ 32 then []
  else
    let s := clampedScalar ((H seed).take 32)
    seed ++ (basePoint.mul s).encode

/-- `signInternal(signature, publicKey, message, prefix, s)`. -/
def signInternal (H : Bytes → Bytes) (publicKey message pfx : Bytes) (s : Nat) : Bytes :=
  let r := scalarOfBytes (H (pfx ++ message))
  let R := (basePoint.mul r).encode
  let k := scalarOfBytes (H (R ++ publicKey ++ message))
  R ++ leBytes 32 ((k * s + r) % L)

/-- `Sign` / `sign`: 64-byte signature. The public key half of `privateKey` is used verbatim.
Go panics if `len(privateKey) ≠ 64`; the model returns `[]` then. -/
def sign (H : Bytes → Bytes) (privateKey message : Bytes) : Bytes :=
  if privateKey.length ≠ 64 then []
  else
    let h := H (privateKey.take 32)
    signInternal H (privateKey.drop 32) message (h.drop 32) (clampedScalar (h.take 32))

/-- `Verify`: cofactorless, byte comparison of the recomputed `R`, `S` must be canonical, `A` and
`R` may be non-canonical / small order (`R` is never decoded).
Go panics if `len(publicKey) ≠ 32`; the model returns `false` then. -/
def verify (H : Bytes → Bytes) (publicKey message sig : Bytes) : Bool :=
  if publicKey.length ≠ 32 then false
  else if sig.length ≠ 64 || (sig.getD 63 0) &&& 224 ≠ 0 then false
  else
    match Point.decode publicKey with
    | none => false
    | some A =>
      let k := scalarOfBytes (H (sig.take 32 ++ publicKey ++ message))
      let S := leNat (sig.drop 32)
      if S ≥ L then false                          -- `SetCanonicalBytes`
      else
        let R := (A.neg.mul k).add (basePoint.mul S)
        R.encode == sig.take 32

/-! ## Key blinding (fork additions) -/

/-- blinding factor `r = SetBytes(SHA-512(blind ‖ 0x00 ‖ context)[:32])`, reduced mod `L` -/
def blindScalar (H : Bytes → Bytes) (blind context : Bytes) : Nat :=
  leNat ((H (blind ++ [0] ++ context)).take 32) % L

/-- `BlindPublicKeyWithContext`: `encode([r]A)`; `none` iff `publicKey` does not decode (Go returns
an error). No length check on `blind`, as in Go. -/
def blindPublicKey (H : Bytes → Bytes) (publicKey blind context : Bytes) : Option Bytes :=
  match Point.decode publicKey with
  | none => none
  | some A => some (A.mul (blindScalar H blind context)).encode

/-- `UnblindPublicKeyWithContext`: `encode([r⁻¹ mod L]A)`; `none` if `publicKey` does not decode.
If `r = 0` Go **panics** before decoding (`big.Int.ModInverse` returns `nil`, then
`(*big.Int)(nil).FillBytes` dereferences it); the model returns `none` in that case too. That
case needs a SHA-512 output whose first half is `≡ 0 mod L` and is not reachable by testing. -/
def unblindPublicKey (H : Bytes → Bytes) (publicKey blind context : Bytes) : Option Bytes :=
  let r := blindScalar H blind context
  if r = 0 then none
  else
    match Point.decode publicKey with
    | none => none
    | some A => some (A.mul (modInv r L)).encode

/-- `BlindKeySignWithContext` / `blindKeySign`: prefix `= h[32:] ‖ b[32:]`, secret scalar
`= clamp(h[:32]) · r mod L`, public key `= encode([r]A)` with `A` decoded from `privateKey[32:]`.
Go panics if `len(privateKey) ≠ 64`, `len(blind) ≠ 32`, or `privateKey[32:]` does not decode;
the model returns `[]` then. -/
def blindKeySign (H : Bytes → Bytes) (privateKey message blind context : Bytes) : Bytes :=
  if privateKey.length ≠ 64 || blind.length ≠ 32 then []
  else
    let b := H (blind ++ [0] ++ context)
    let r := scalarOfBytes (b.take 32)
    let h := H (privateKey.take 32)
    let s := clampedScalar (h.take 32) * r % L
    match Point.decode (privateKey.drop 32) with
    | none => []
    | some A => signInternal H (A.mul r).encode message (h.drop 32 ++ b.drop 32) s

end PatVerif.Exec.Ed25519
