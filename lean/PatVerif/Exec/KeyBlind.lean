import PatVerif.Exec.ECDSA
import PatVerif.Exec.XMD
import PatVerif.Exec.HKDF
import PatVerif.Model.Type3
/-!
# Executable reference for ECDSA key blinding (ecdsa/ecdsa.go:177-260) and the type-3 primitives

Independent of the Go code: built from the RFC 9380 `hash_to_field`, the textbook curve
arithmetic and RFC 5869 HKDF of `PatVerif/Exec`.
-/
namespace PatVerif.Exec.KeyBlind
open PatVerif PatVerif.Exec

/-- big-endian encoding without leading zeros (`D.FillBytes` of `(BitLen+7)/8` bytes; empty for 0) -/
def minBE (d : Nat) : Bytes := beBytes ((d.log2 + 8) / 8 * (if d = 0 then 0 else 1)) d

/-- the per-curve hash and expansion length of `hashBlind` -/
def blindParams (c : Curve) : Option (HashAlg × Nat) :=
  if c.name = "P-224" then some (.sha256, 32)
  else if c.name = "P-256" then some (.sha256, 48)
  else if c.name = "P-384" then some (.sha384, 72)
  else if c.name = "P-521" then some (.sha512, 98)
  else none

def dst : Bytes := "ECDSA Key Blind".toUTF8.toList

/-- `hashBlind`: hash_to_field(XMD with the curve's hash, DST "ECDSA Key Blind") of
`blind-key bytes ‖ 0x00 ‖ context`, modulo the group order -/
def hashBlind (c : Curve) (blindKey : Nat) (ctx : Bytes) : Nat :=
  match blindParams c with
  | some (h, L) => hashToField h (minBE blindKey ++ [0] ++ ctx) dst c.n L
  | none => 0

/-- Go's (0,0) convention for the point at infinity -/
def coords : Point → Nat × Nat
  | some p => p
  | none => (0, 0)

/-- `BlindPublicKeyWithContext` -/
def blindPub (c : Curve) (P : Nat × Nat) (blindKey : Nat) (ctx : Bytes) : Nat × Nat :=
  coords (c.mul (hashBlind c blindKey ctx) (some P))

/-- `UnblindPublicKeyWithContext` -/
def unblindPub (c : Curve) (P : Nat × Nat) (blindKey : Nat) (ctx : Bytes) : Nat × Nat :=
  coords (c.mul (modInv (hashBlind c blindKey ctx) c.n) (some P))

/-- ECDSA verification with a fixed-width `r ‖ s` signature over the hash of a message -/
def verifyRaw (c : Curve) (h : HashAlg) (P : Nat × Nat) (msg sig : Bytes) : Bool :=
  ecdsaVerify c P.1 P.2 (h.hash msg) (beNat (sig.take c.byteLen)) (beNat (sig.drop c.byteLen))

/-- the primitives of the type-3 model instantiated with the references; HPKE and RSA stay
parameters (oracle columns of the harness) -/
def crypto (hpkeOpen : Bytes → Bytes → Bytes → Option (Bytes × Bytes)) (blindSign : Bytes → Option Bytes)
    (sealFn : Bytes → Bytes → Bytes → Bytes) : Type3.Crypto (Nat × Nat) where
  decodeKey := P384.decompress
  encodeKey := fun P => P384.compress P.1 P.2
  sigVerify := verifyRaw P384 .sha384
  blindKey := fun P b ctx => blindPub P384 P (beNat b) ctx
  unblindKey := fun P b ctx => unblindPub P384 P (beNat b) ctx
  hkdfIndex := fun clientKey indexKey => hkdf .sha384 indexKey clientKey "IssuerOriginAlias".toUTF8.toList 48
  hpkeOpen := hpkeOpen
  blindSign := blindSign
  sealResponse := sealFn

end PatVerif.Exec.KeyBlind
