import PatVerif.Exec.Weierstrass
/-!
# Executable reference: ECDSA over the NIST curves, and multiplicative public-key blinding

Mirrors `ecdsa/ecdsa.go` of pat-go (a fork of Go's `crypto/ecdsa`): `hashToInt`, `Verify`/`verifyGeneric`,
textbook signing with an explicit nonce, and `BlindPublicKey`/`UnblindPublicKey` once the blinding scalar
is known. Validated against `crypto/ecdsa` and `crypto/elliptic`.
-/
namespace PatVerif.Exec

/-- Go `hashToInt`: keep the leftmost `⌈bitlen(n)/8⌉` bytes, read big-endian, then drop the excess low bits
(only P-521 with ≥ 66 bytes ever shifts). Truncated `Nat` subtraction plays `if excess > 0`. -/
def hashToInt (c : Curve) (hash : Bytes) : Nat :=
  let orderBits := c.n.log2 + 1
  let orderBytes := (orderBits + 7) / 8
  let h := hash.take orderBytes
  beNat h >>> (h.length * 8 - orderBits)

/-- Go `Verify(pub, hash, r, s)` with `pub = (qx, qy)`. The public key is *not* checked to be on the curve
(neither does the fork; see `ecdsaVerifyChecked`). -/
def ecdsaVerify (c : Curve) (qx qy : Nat) (hash : Bytes) (r s : Int) : Bool :=
  if r ≤ 0 ∨ s ≤ 0 ∨ r ≥ (c.n : Int) ∨ s ≥ (c.n : Int) then false else
  let r := r.toNat
  let e := hashToInt c hash
  let w := modInv s.toNat c.n
  let u1 := e * w % c.n
  let u2 := r * w % c.n
  match c.mulAdd u1 u2 (some (qx, qy)) with
  | none => false
  | some (x, _) => x % c.n == r

/-- as `crypto/ecdsa.Verify`, which in addition rejects public keys that are not on the curve -/
def ecdsaVerifyChecked (c : Curve) (qx qy : Nat) (hash : Bytes) (r s : Int) : Bool :=
  c.onCurve qx qy && ecdsaVerify c qx qy hash r s

/-- textbook ECDSA with private key `d` and nonce `k`: `r = (k·G).x mod n`, `s = k⁻¹(e + d·r) mod n`;
`none` when `k·G = ∞`, `r = 0` or `s = 0`. -/
def ecdsaSignWithNonce (c : Curve) (d k : Nat) (hash : Bytes) : Option (Nat × Nat) :=
  match c.mulBase k with
  | none => none
  | some (x, _) =>
    let r := x % c.n
    let s := modInv k c.n * ((hashToInt c hash + d * r) % c.n) % c.n
    if r = 0 ∨ s = 0 then none else some (r, s)

/-- `BlindPublicKey` given the blinding scalar `hashBlind(…)` -/
def blindPublicKey (c : Curve) (qx qy : Nat) (blindScalar : Nat) : Option (Nat × Nat) :=
  c.mul blindScalar (some (qx, qy))

/-- `UnblindPublicKey` given the blinding scalar: multiply by its inverse mod `n` -/
def unblindPublicKey (c : Curve) (qx qy : Nat) (blindScalar : Nat) : Option (Nat × Nat) :=
  c.mul (modInv blindScalar c.n) (some (qx, qy))

end PatVerif.Exec
