import PatVerif.Hex
import PatVerif.Model.Partial
import PatVerif.Drive.C04
namespace PatVerif.Drive.C03
open PatVerif PatVerif.Hex PatVerif.Structs PatVerif.Partial

def cls {α : Type} (r : R α) (f : α → String) : String :=
  match r with
  | .ok (v, _) => f v
  | .err => "err"
  | .panic => "panic"

def handle (op : String) (a : List String) : Option String :=
  match op, a with
  | "c03.probe", _ => some "-"
  | "c03.req5", [b] => (parseV b).map fun b => cls (type5Unmarshal b) fun r => s!"ok {r.keyId.toNat} {Drive.C04.hxList r.blinded}"
  | "c03.batch", [b] => (parseV b).map fun b => cls (batchUnmarshal b) fun es => "ok " ++ ",".intercalate (es.map Drive.C04.fmtElem)
  | "c03.batchresp", [b] => (parseV b).map fun b => cls (batchRespUnmarshal b) fun rs => "ok " ++ Drive.C04.hxList rs
  | "c03.unpad", [b] => (parseV b).map fun b =>
      match unpadLit b with
      | .ok v => "ok " ++ hxv v
      | .err => "err"
      | .panic => "panic"
  | "c03.t1fin", [resp, e, p, f] => (parseV resp).map fun resp =>
      let d : T1Dep := ⟨fun _ => e = "1", fun _ => p = "1", fun _ _ => if f = "1" then some (List.replicate 48 0) else none⟩
      cls (type1Finalize d (List.replicate 98 0) resp) fun _ => "ok"
  | "c03.t5fin", [resp, e, p, f] => (parseV resp).map fun resp =>
      let d : T5Dep := ⟨fun _ => e = "1", fun _ => p = "1", fun els _ => if f = "1" then some els else none⟩
      cls (type5Finalize d 3 resp) fun _ => "ok"
  | _, _ => none

end PatVerif.Drive.C03
