import PatVerif.Hex
import PatVerif.Exec.KeyBlind
import PatVerif.Drive.C04
/-! Driver handlers for the type-3 decision chains (`c06.*`, `c07.*`, `c08.*`), instantiated with the
executable references. -/
namespace PatVerif.Drive.T3
open PatVerif PatVerif.Hex PatVerif.Structs PatVerif.Type3 PatVerif.Attester PatVerif.Exec

def noOpen : Bytes → Bytes → Bytes → Option (Bytes × Bytes) := fun _ _ _ => none
def K0 : Crypto (Nat × Nat) := KeyBlind.crypto noOpen (fun _ => none) (fun _ _ _ => [])

/-- `name:hexkey,...` -/
def parseOrigins (s : String) : Option (List (Bytes × Bytes)) :=
  if s = "[]" then some []
  else (s.splitOn ",").mapM fun e =>
    match e.splitOn ":" with
    | [n, k] => match parseV n, parseV k with
      | some n, some k => some (n, k)
      | _, _ => none
    | _ => none

def handle (op : String) (a : List String) : Option String :=
  match op, a with
  | "c06.verify", rk :: nk :: ct :: sig :: blind :: ck :: known :: _ =>
    match parseV rk, parseV nk, parseV ct, parseV sig, parseV blind, parseV ck with
    | some rk, some nk, some ct, some sig, some blind, some ck =>
      let cache0 : Cache := if known = "1" then [(nameOf ck, emptyState)] else []
      let (cache1, ok) := attesterVerify K0 cache0 ⟨rk, nk, ct, sig⟩ blind ck
      let puts := cache1.length - cache0.length
      let replaced := if known = "1" && Map.get cache1 (nameOf ck) != some emptyState then 1 else 0
      some s!"{if ok then "accept" else "reject"} puts={puts} clients={cache1.length} replaced={replaced}"
    | _, _, _, _, _, _ => none
  | "c07.env", _ => some "ok"
  -- c07.eval <request> <aadPrefix> <configId> <origins> <aad|none> <pt> <secret> <bmsg|none> <bsig|err>
  | "c07.eval", [req, pfx, cfg, origins, oaad, opt, osec, bmsg, bsig] =>
    match parseV req, parseV pfx, parseV cfg, parseOrigins origins with
    | some req, some pfx, some cfg, some origins =>
      let openFn : Bytes → Bytes → Bytes → Option (Bytes × Bytes) := fun _ _ aad =>
        if oaad = "none" then none
        else match parseV oaad, parseV opt, parseV osec with
          | some a, some pt, some sec => if a = aad then some (pt, sec) else none
          | _, _, _ => none
      let signFn : Bytes → Option Bytes := fun m =>
        if bmsg = "none" || bsig = "err" then none
        else match parseV bmsg, parseV bsig with
          | some bm, some bs => if bm = m then some bs else none
          | _, _ => none
      let K := KeyBlind.crypto openFn signFn (fun _ _ bs => List.replicate (16 + bs.length + 16) 0)
      match issuerEvaluate K ⟨pfx, cfg, origins⟩ req with
      | some (resp, brk) => some s!"ok {resp.length} {hxv brk}"
      | none => some "err"
    | _, _, _, _ => none
  -- c08.id <clientPub> <indexKey>: the ID as a function of client key and index key only
  | "c08.id", cp :: ik :: _ =>
    match parseV cp, parseV ik with
    | some cp, some ik =>
      match K0.decodeKey cp with
      | some P => some ("ok " ++ hxv (K0.hkdfIndex cp (K0.encodeKey (K0.blindKey P ik ctxIssuer))))
      | none => some "err"
    | _, _ => none
  -- c08.index <clientKey> <blind> <blindedRequestKey>
  | "c08.index", [ck, blind, brk] =>
    match parseV ck, parseV blind, parseV brk with
    | some ck, some blind, some brk =>
      match attesterIndex K0 ck blind brk with
      | some idx => some ("ok " ++ hxv idx)
      | none => some "err"
    | _, _, _ => none
  | _, _ => none

end PatVerif.Drive.T3
