import PatVerif.Hex
import PatVerif.Model.Structs
import PatVerif.Model.Quicwire
/-! Driver handlers of the `c04.*` operations: the codecs of `Model/Structs.lean`, printed in the
harness's canonical form. -/
namespace PatVerif.Drive.C04
open PatVerif PatVerif.Hex PatVerif.Codec PatVerif.Structs

def hxList (xs : List Bytes) : String :=
  if xs.isEmpty then "[]" else ",".intercalate (xs.map hxv)

def parseList (s : String) : Option (List Bytes) :=
  if s = "[]" then some [] else (s.splitOn ",").mapM parseV

def fmtToken (t : Token) : String :=
  s!"ok {t.tokenType} {hxv t.nonce} {hxv t.context} {hxv t.keyId} {hxv t.auth} m={hxv t.marshal}"

def decTok (nk : Nat) (b : Bytes) : String :=
  match (tokenCodec nk).dec b with
  | some (t, _) => fmtToken t
  | none => "err"

/-- `BytesOrPanic` of a builder with length-prefixed children: panics when a child overflows its prefix -/
def challengeMarshal (c : Challenge) : Res Bytes :=
  if c.issuerName.length > 65535 ∨ c.redemptionNonce.length > 255 ∨ (joinComma c.originInfo).length > 65535 then .panic
  else .ok (challengeCodec.enc c)

def vec16Marshal (b : Bytes) (enc : Bytes) : Res Bytes := if b.length > 65535 then .panic else .ok enc

def showRes : Res Bytes → String
  | .ok b => "ok " ++ hxv b
  | .err => "err"
  | .panic => "panic"

def fmtElem (e : BatchElem) : String := s!"{e.ty}:{e.req.keyId.toNat}:{hxv e.req.blinded}"

def parseElem (s : String) : Option BatchElem :=
  match s.splitOn ":" with
  | [t, k, b] =>
    match t.toNat?, k.toNat?, parseV b with
    | some t, some k, some b => some ⟨t, ⟨UInt8.ofNat k, b⟩⟩
    | _, _, _ => none
  | _ => none

/-! partial field assignment of a failed `Unmarshal` (what the Go code has already stored) -/

def pvBasic (ty : Nat) (o : BasicReq) (b : Bytes) : BasicReq :=
  match decU16 b with
  | some (t, r) =>
    if t = ty then
      match r with
      | k :: _ => { o with keyId := k }
      | [] => o
    else o
  | none => o

def pvReq3 (o : Req3) (b : Bytes) : Req3 :=
  match decU16 b with
  | some (t, r) =>
    if t = 3 then
      match readN 49 r with
      | some (rk, r1) =>
        let o := { o with requestKey := rk }
        match readN 32 r1 with
        | some (nk, r2) =>
          let o := { o with nameKeyId := nk }
          match (vec16 true).dec r2 with
          | some (e, r3) =>
            let o := { o with encrypted := e }
            match readN 96 r3 with
            | some (s, _) => { o with signature := s }
            | none => o
          | none => o
        | none => o
      | none => o
    else o
  | none => o

def pvInner (o : Inner) (b : Bytes) : Inner :=
  match b with
  | k :: r =>
    let o := { o with keyId := k }
    match readN 256 r with
    | some (m, _) => { o with blindedMsg := m }
    | none => o
  | [] => o

def pvReq5 (o : Req5) (b : Bytes) : Req5 :=
  match decU16 b with
  | some (t, r) =>
    if t = 5 then
      match r with
      | k :: _ => { o with keyId := k }
      | [] => o
    else o
  | none => o

def runObj {α : Type} (enc : α → Bytes) (dec : Bytes → Option α) (pv : α → Bytes → α) (dump : α → String)
    (init : α) (ops : List String) : Option String :=
  let rec go (o : Obj α) (ops : List String) (acc : List String) : Option (List String × Obj α) :=
    match ops with
    | [] => some (acc.reverse, o)
    | op :: rest =>
      if op = "m" then
        let (b, o') := o.marshal enc
        go o' rest (("m=" ++ hxv b) :: acc)
      else if op.startsWith "u:" then
        match parseV (op.drop 2).toString with
        | some b =>
          let (ok, o') := Obj.unmarshal dec pv o b
          go o' rest ((if ok then "u=1" else "u=0") :: acc)
        | none => none
      else none
  match go ⟨none, init⟩ ops [] with
  | some (outs, o) => some ("ok " ++ " ".intercalate outs ++ " | " ++ dump o.val)
  | none => none

/-- what a *failed* `BatchedTokenRequest.Unmarshal` leaves in the object: nothing changes when the input is
shorter than four bytes or the declared length is refused; otherwise the requests decoded before the failure -/
def batchPartial (old : List BatchElem) (data : Bytes) : List BatchElem :=
  if data.length < 4 then old else
  let lo := Quicwire.consumeVarint data
  if lo.2 < 0 ∨ lo.1 = 0 ∨ lo.1 > data.length - lo.2.toNat then old else
  let win := (data.take (lo.2.toNat + lo.1)).drop lo.2.toNat
  let rec go (fuel : Nat) (w : Bytes) (acc : List BatchElem) : List BatchElem :=
    match fuel with
    | 0 => acc.reverse
    | fuel + 1 =>
      if w.isEmpty then acc.reverse else
      match batchElemCodec.dec w with
      | some (e, rest) => go fuel rest (e :: acc)
      | none => acc.reverse
  go win.length win []

/-- the generic batch request object: `Marshal` has a value receiver, so nothing is cached in the object -/
def runObjB (ops : List String) : Option String :=
  let rec go (v : List BatchElem) (ops : List String) (acc : List String) : Option (List String × List BatchElem) :=
    match ops with
    | [] => some (acc.reverse, v)
    | op :: rest =>
      if op = "m" then go v rest (("m=" ++ hxv (batchReqCodec.enc v)) :: acc)
      else if op.startsWith "u:" then
        match parseV (op.drop 2).toString with
        | some b =>
          match batchReqCodec.dec b with
          | some (es, _) => go es rest ("u=1" :: acc)
          | none => go (batchPartial v b) rest ("u=0" :: acc)
        | none => none
      else none
  match go [] ops [] with
  | some (outs, v) => some ("ok " ++ " ".intercalate outs ++ " | " ++ ",".intercalate (v.map fmtElem))
  | none => none

def dumpBasic (r : BasicReq) : String := s!"{r.keyId.toNat} {hxv r.blinded}"

def handle (op : String) (a : List String) : Option String :=
  match op, a with
  | "c04.tok1", [b] => (parseV b).map (decTok 48)
  | "c04.tok2", [b] => (parseV b).map (decTok 256)
  | "c04.tok3", [b] => (parseV b).map (decTok 256)
  | "c04.tok5", [b] => (parseV b).map (decTok 64)
  | "c04.tokm", [ty, n, c, k, au] =>
    match ty.toNat?, parseV n, parseV c, parseV k, parseV au with
    | some ty, some n, some c, some k, some au =>
      let t : Token := ⟨ty, n, c, k, au⟩
      some s!"ok {hxv t.marshal} {hxv t.authInput}"
    | _, _, _, _, _ => none
  | "c04.chal", [b] => (parseV b).map fun b =>
      match challengeCodec.dec b with
      | some (c, _) => s!"ok {c.tokenType} {hxv c.issuerName} {hxv c.redemptionNonce} {hxList c.originInfo} m={hxv (challengeCodec.enc c)}"
      | none => "err"
  | "c04.chalm", [ty, i, n, os] =>
    match ty.toNat?, parseV i, parseV n, parseList os with
    | some ty, some i, some n, some os => some (showRes (challengeMarshal ⟨ty, i, n, os⟩))
    | _, _, _, _ => none
  | "c04.req1", [b] => (parseV b).map fun b =>
      match req1Codec.dec b with
      | some (r, _) => s!"ok {r.keyId.toNat} {hxv r.blinded} m={hxv (req1Codec.enc r)}"
      | none => "err"
  | "c04.req2", [b] => (parseV b).map fun b =>
      match req2Codec.dec b with
      | some (r, _) => s!"ok {r.keyId.toNat} {hxv r.blinded} m={hxv (req2Codec.enc r)}"
      | none => "err"
  | "c04.req3", [b] => (parseV b).map fun b =>
      match req3Codec.dec b with
      | some r => s!"ok {hxv r.requestKey} {hxv r.nameKeyId} {hxv r.encrypted} {hxv r.signature} m={hxv (req3Codec.enc r)}"
      | none => "err"
  | "c04.inner", [b] => (parseV b).map fun b =>
      match innerCodec.dec b with
      | some (r, _) => s!"ok {r.keyId.toNat} {hxv r.blindedMsg} {hxv r.paddedOrigin} m={hxv (innerCodec.enc r)}"
      | none => "err"
  | "c04.req5", [b] => (parseV b).map fun b =>
      match req5Codec.dec b with
      | some (r, _) => s!"ok {r.keyId.toNat} {hxList r.blinded} m={hxv (req5Codec.enc r)}"
      | none => "err"
  | "c04.req1m", [k, b] =>
    match k.toNat?, parseV b with
    | some k, some b => some ("ok " ++ hxv (req1Codec.enc ⟨UInt8.ofNat k, b⟩))
    | _, _ => none
  | "c04.req2m", [k, b] =>
    match k.toNat?, parseV b with
    | some k, some b => some ("ok " ++ hxv (req2Codec.enc ⟨UInt8.ofNat k, b⟩))
    | _, _ => none
  | "c04.req3m", [rk, nk, e, s] =>
    match parseV rk, parseV nk, parseV e, parseV s with
    | some rk, some nk, some e, some s => some (showRes (vec16Marshal e (req3Codec.enc ⟨rk, nk, e, s⟩)))
    | _, _, _, _ => none
  | "c04.innerm", [k, m, o] =>
    match k.toNat?, parseV m, parseV o with
    | some k, some m, some o => some (showRes (vec16Marshal o (innerCodec.enc ⟨UInt8.ofNat k, m, o⟩)))
    | _, _, _ => none
  | "c04.req5m", [k, els] =>
    match k.toNat?, parseList els with
    | some k, some els => some ("ok " ++ hxv (req5Codec.enc ⟨UInt8.ofNat k, els⟩))
    | _, _ => none
  | "c04.batch", [b] => (parseV b).map fun b =>
      match batchReqCodec.dec b with
      | some (es, _) => "ok " ++ ",".intercalate (es.map fmtElem) ++ " m=" ++ hxv (batchReqCodec.enc es)
      | none => "err"
  | "c04.batchm", [s] =>
    match (s.splitOn ",").mapM parseElem with
    | some es => some ("ok " ++ hxv (batchReqCodec.enc es))
    | none => none
  | "c04.batchresp", [b] => (parseV b).map fun b =>
      match batchRespCodec.dec b with
      | some (es, _) => "ok " ++ hxList (respBodies es)
      | none => "err"
  | "c04.encap", [b, ok] => (parseV b).map fun b =>
      match (encapKeyCodec (fun _ _ => ok = "1")).dec b with
      | some (k, _) => "ok m=" ++ hxv ((encapKeyCodec (fun _ _ => true)).enc k)
      | none => "err"
  | "c04.obj1", ops =>
    runObj req1Codec.enc (fun b => (req1Codec.dec b).map (·.1)) (pvBasic 1) dumpBasic ⟨0, []⟩ ops
  | "c04.obj2", ops =>
    runObj req2Codec.enc (fun b => (req2Codec.dec b).map (·.1)) (pvBasic 2) dumpBasic ⟨0, []⟩ ops
  | "c04.obj3", ops =>
    runObj req3Codec.enc req3Codec.dec pvReq3
      (fun r => s!"{hxv r.requestKey} {hxv r.nameKeyId} {hxv r.encrypted} {hxv r.signature}") ⟨[], [], [], []⟩ ops
  | "c04.obj5", ops =>
    runObj req5Codec.enc (fun b => (req5Codec.dec b).map (·.1)) pvReq5
      (fun r => s!"{r.keyId.toNat} {hxList r.blinded}") ⟨0, []⟩ ops
  | "c04.objB", ops => runObjB ops
  | "c04.objI", ops =>
    runObj innerCodec.enc (fun b => (innerCodec.dec b).map (·.1)) pvInner
      (fun r => s!"{r.keyId.toNat} {hxv r.blindedMsg} {hxv r.paddedOrigin}") ⟨0, [], []⟩ ops
  | _, _ => none

end PatVerif.Drive.C04
