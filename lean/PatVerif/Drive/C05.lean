import PatVerif.Hex
import PatVerif.Model.Batch
import PatVerif.Drive.C04
namespace PatVerif.Drive.C05
open PatVerif PatVerif.Hex PatVerif.Structs PatVerif.Batch PatVerif.Codec

/-- oracle matrix entry: request index ↦ list of (issuer index, outcome) -/
def parseEvals (s : String) : Option (List (List (Nat × Option Bytes))) :=
  (s.splitOn ";").mapM fun item =>
    if item = "-" then some []
    else (item.splitOn ",").mapM fun kv =>
      match kv.splitOn "=" with
      | [j, v] =>
        match j.toNat? with
        | some j => if v = "err" then some (j, none) else (parseV v).map fun b => (j, some b)
        | none => none
      | _ => none

def lookupEval (table : List (BasicReq × List (Nat × Option Bytes))) (j : Nat) (r : BasicReq) : Option Bytes :=
  match table.find? (fun p => p.1 == r) with
  | some (_, row) =>
    match row.find? (fun p => p.1 == j) with
    | some (_, v) => v
    | none => none
  | none => none

def parseCfg (s : String) : Option (List (Nat × UInt8)) :=
  if s = "none" then some []
  else (s.splitOn ",").mapM fun e =>
    match e.splitOn ":" with
    | ty :: kid :: _ =>
      match ty.toNat?, kid.toNat? with
      | some ty, some kid => some (ty, UInt8.ofNat kid)
      | _, _ => none
    | _ => none

def indexed {α : Type} : List α → Nat → List (Nat × α)
  | [], _ => []
  | a :: r, k => (k, a) :: indexed r (k + 1)

def handle (op : String) (a : List String) : Option String :=
  match op, a with
  | "c05.batch", [cfg, reqs, evals] =>
    match parseCfg cfg, (reqs.splitOn ",").mapM Drive.C04.parseElem, parseEvals evals with
    | some cfg, some es, some ev =>
      let table := (es.map (·.req)).zip ev
      let icfg : List IssuerCfg := (indexed cfg 0).map fun (j, (ty, kid)) => ⟨ty, kid, lookupEval table j⟩
      let out := evaluateBatch icfg es
      let dec := match batchRespCodec.dec out with
        | some (ents, _) => Drive.C04.hxList (respBodies ents)
        | none => "decode-err"
      some ("ok " ++ hxv out ++ " | " ++ dec)
    | _, _, _ => none
  | _, _ => none

end PatVerif.Drive.C05
