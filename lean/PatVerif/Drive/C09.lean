import PatVerif.Model.Attester
namespace PatVerif.Drive.C09
open PatVerif PatVerif.Attester

def parseStep (s : String) : Option Op :=
  match s.splitOn ":" with
  | ["v", c] => c.toNat?.map Op.verify
  | ["b", c] => c.toNat?.map Op.finalizeBad
  | ["x", c] => c.toNat?.map Op.verifyBad
  | ["f", c, i, a] =>
    match c.toNat?, i.toNat?, a.toNat? with
    | some c, some i, some a => some (Op.finalize c i a)
    | _, _, _ => none
  | _ => none

def showOut : Out → String
  | .verified => "verified"
  | .index i => s!"idx#{i}"
  | .unknownClient => "reject"
  | .repeated => "reject"
  | .badKey => "reject"

def insertSorted (p : Nat × Nat) : List (Nat × Nat) → List (Nat × Nat)
  | [] => [p]
  | q :: r => if p.1 ≤ q.1 then p :: q :: r else q :: insertSorted p r

def sortPairs (l : List (Nat × Nat)) : List (Nat × Nat) := l.foldr insertSorted []

def showPairs (l : List (Nat × Nat)) : String :=
  ",".intercalate ((sortPairs l).map fun p => s!"{p.1}>{p.2}")

def insertClient (p : ClientId × ClientState) : List (ClientId × ClientState) → List (ClientId × ClientState)
  | [] => [p]
  | q :: r => if p.1 ≤ q.1 then p :: q :: r else q :: insertClient p r

def dump (s : Cache) : String :=
  if s.isEmpty then "empty"
  else " ".intercalate ((s.foldr insertClient []).map fun p =>
    "c" ++ toString p.1 ++ "{oi:" ++ showPairs p.2.originIndices ++ ";ci:" ++ showPairs p.2.clientIndices ++ "}")

def handle (op : String) (a : List String) : Option String :=
  match op with
  | "c09.hist" =>
    match a.mapM parseStep with
    | some ops =>
      let r := exec ops
      some ("ok " ++ " ".intercalate (r.2.map fun e => showOut e.2) ++ " | " ++ dump r.1)
    | none => none
  | _ => none

end PatVerif.Drive.C09
