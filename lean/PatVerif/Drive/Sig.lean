import PatVerif.Hex
import PatVerif.Exec.KeyBlind
import PatVerif.Exec.Ed25519
import PatVerif.Model.DER
import PatVerif.Model.Recode
/-! Driver handlers for the signature forks (`c12.*` … `c15.*`): the executable references. -/
namespace PatVerif.Drive.Sig
open PatVerif PatVerif.Hex PatVerif.Exec

/-- minimal big-endian hex of a natural, `00` for zero (Go `big.Int.Bytes`) -/
def natHex (n : Nat) : String := if n = 0 then "00" else hxv (KeyBlind.minBE n)

def parseInt (s : String) : Option Int :=
  if s.startsWith "-" then
    let body := ((s.drop 1).toString.dropEndWhile (· == '.')).toString
    (parseV body).map fun b => -(beNat b : Int)
  else (parseV s).map fun b => (beNat b : Int)

def parseNat (s : String) : Option Nat := (parseV s).map beNat

def b01 (b : Bool) : String := if b then "1" else "0"

/-- bytes served by the harness's entropy reader: position `i` ↦ `37·i + 11` -/
def entropyByte (i : Nat) : UInt8 := UInt8.ofNat (37 * i + 11)

/-- `ecdsa.Sign` reads (possibly one byte, then) 32 bytes with `io.ReadFull`; `GenerateKey` reads
`BitSize/8 + 8`. A reader that fails once `pos` bytes are served makes them return an error and
nothing else. At `pos = 32` the outcome of `Sign` depends on `MaybeReadByte`'s coin. -/
def entropyModel (c : Curve) (pos : Int) : String :=
  let need := c.bitSize / 8 + 8
  let sign :=
    if pos < 0 ∨ pos ≥ 33 then "sig(ge32)"
    else if pos = 32 then "coin"
    else "err(lt32)"
  let gen := if pos < 0 ∨ pos ≥ need then s!"key({need})" else s!"err({pos})"
  s!"sign={sign} gen={gen}"

def sha512 := PatVerif.Exec.sha512

def handle (op : String) (a : List String) : Option String :=
  match op, a with
  | "c12.blind", [cn, x, y, bk, ctx] =>
    match Curve.byName cn, parseNat x, parseNat y, parseV bk, parseV ctx with
    | some c, some x, some y, some bk, some ctx =>
      let P := KeyBlind.blindPub c (x, y) (beNat bk) ctx
      some s!"ok {natHex P.1} {natHex P.2}"
    | _, _, _, _, _ => none
  | "c12.unblind", [cn, x, y, bk, ctx] =>
    match Curve.byName cn, parseNat x, parseNat y, parseV bk, parseV ctx with
    | some c, some x, some y, some bk, some ctx =>
      let P := KeyBlind.unblindPub c (x, y) (beNat bk) ctx
      some s!"ok {natHex P.1} {natHex P.2}"
    | _, _, _, _, _ => none
  | "c13.verify", [cn, x, y, d, r, s] =>
    match Curve.byName cn, parseNat x, parseNat y, parseV d, parseInt r, parseInt s with
    | some c, some x, some y, some d, some r, some s => some (b01 (ecdsaVerify c x y d r s))
    | _, _, _, _, _, _ => none
  | "c13.der", [cn, x, y, d, sig] =>
    match Curve.byName cn, parseNat x, parseNat y, parseV d, parseV sig with
    | some c, some x, some y, some d, some sig =>
      match DER.parseSig sig with
      | some (r, s) => some (b01 (ecdsaVerify c x y d r s))
      | none => some "0"
    | _, _, _, _, _ => none
  | "c13.entropy", cn :: pos :: _chunk :: _ =>
    match Curve.byName cn, pos.toInt? with
    | some c, some pos => some (entropyModel c pos)
    | _, _ => none
  -- scalar arithmetic of the internal package (through the verif hooks): the specification is arithmetic modulo L
  | "c14.screduce", [w] => (parseV w).map fun w => "ok " ++ hxv (Ed25519.leBytes 32 (Ed25519.leNat w % Ed25519.L))
  | "c14.scmuladd", [a, b, c] =>
    match parseV a, parseV b, parseV c with
    | some a, some b, some c =>
      some ("ok " ++ hxv (Ed25519.leBytes 32 ((Ed25519.leNat a * Ed25519.leNat b + Ed25519.leNat c) % Ed25519.L)))
    | _, _, _ => none
  | "c14.sccanon", [x] => (parseV x).map fun x => if x.length = 32 ∧ Ed25519.leNat x < Ed25519.L then "1" else "0"
  -- field arithmetic of the internal package (through the verif hooks): the specification is arithmetic modulo 2^255-19 on the
  -- value of the limbs; raw limbs (`c14.fel`), `sqrtratio` and `swap` are answered by the translated code only
  | "c14.fel", _ => some "-"
  | "c14.fe", [op, a, b, k, x] =>
    match parseV a, parseV b, k.toNat?, parseV x with
    | some a, some b, some k, some x =>
      let limbs := fun (l : Bytes) => (List.range 5).foldr (fun i acc => Ed25519.leNat ((l.drop (8 * i)).take 8) + 2 ^ 51 * acc) 0
      let p := Ed25519.p
      let A := limbs a
      let B := limbs b
      let enc := fun (v : Nat) (n : Nat) => some ("ok " ++ hxv (Ed25519.leBytes 32 (v % p)) ++ " " ++ toString n)
      match op with
      | "mul" => enc (A * B) 0
      | "sq" => enc (A * A) 0
      | "add" => enc (A + B) 0
      | "sub" => enc (A % p + p - B % p) 0
      | "neg" => enc (p - A % p) 0
      | "inv" => enc (Ed25519.modPow A (p - 2) p) 0
      | "pow22523" => enc (Ed25519.modPow A (2 ^ 252 - 3) p) 0
      | "mult32" => enc (A * k) 0
      | "abs" => enc (if A % p % 2 = 1 then p - A % p else A) 0
      | "carry" => enc A 0
      | "reduce" => enc A 0
      | "bytes" => enc A 0
      | "equal" => enc A (if A % p = B % p then 1 else 0)
      | "isneg" => enc A (A % p % 2)
      | "select" => enc (if k = 1 then A else B) 0
      | "setbytes" => enc (Ed25519.leNat x % 2 ^ 255) 0
      | _ => some "-"
    | _, _, _, _ => none
  -- point operations of the internal package on encodings: the RFC 8032 reference
  | "c14.pt", [op, a, b] =>
    match parseV a, parseV b with
    | some a, some b =>
      let needB := op = "add" ∨ op = "sub" ∨ op = "equal"
      match Ed25519.Point.decode a, (if needB then Ed25519.Point.decode b else some Ed25519.Point.zero) with
      | some P, some Q =>
        match op with
        | "add" => some ("ok " ++ hxv (P.add Q).encode)
        | "sub" => some ("ok " ++ hxv (P.add Q.neg).encode)
        | "neg" => some ("ok " ++ hxv P.neg.encode)
        | "double" => some ("ok " ++ hxv (P.add P).encode)
        | "recode" => some ("ok " ++ hxv P.encode)
        | "equal" => some ("ok " ++ (if P.encode = Q.encode then "01" else "00"))
        | _ => none
      | _, _ => some "undecodable"
    | _, _ => none
  -- scalar multiplications of the internal package: the RFC 8032 reference (scalars reduced modulo L first, except for `clamp`)
  | "c14.sm", [op, a, A, b] =>
    match parseV a, parseV A, parseV b with
    | some a, some A, some b =>
      let ka := Ed25519.leNat a % Ed25519.L
      let kb := Ed25519.leNat b % Ed25519.L
      match op with
      | "base" => some ("ok " ++ hxv (Ed25519.Point.mul ka Ed25519.basePoint).encode)
      | "clamp" => some ("ok " ++ hxv (Ed25519.Point.mul (Ed25519.clampedScalar a) Ed25519.basePoint).encode)
      | "var" =>
        match Ed25519.Point.decode A with
        | some P => some ("ok " ++ hxv (Ed25519.Point.mul ka P).encode)
        | none => some "undecodable"
      | "double" =>
        match Ed25519.Point.decode A with
        | some P => some ("ok " ++ hxv ((Ed25519.Point.mul ka P).add (Ed25519.Point.mul kb Ed25519.basePoint)).encode)
        | none => some "undecodable"
      | _ => none
    | _, _, _ => none
  -- digit recodings of the internal package: the digit expansions of the reduced scalar, computed from the number
  | "c14.dg", [kind, x] =>
    match parseV x with
    | some x =>
      let k : Int := ((Ed25519.leNat x % Ed25519.L : Nat) : Int)
      let out := fun (ds : List Int) => "ok " ++ hxv (ds.map fun d => UInt8.ofNat (d % 256).toNat)
      match kind with
      | "radix16" => some (out (PatVerif.Model.Recode.radix16Spec 63 k))
      | "naf5" => some (out (PatVerif.Model.Recode.nafSpec 5 256 k))
      | "naf8" => some (out (PatVerif.Model.Recode.nafSpec 8 256 k))
      | _ => none
    | none => none
  | "c14.key", [seed] => (parseV seed).map fun seed => "ok " ++ hxv (Ed25519.newKeyFromSeed sha512 seed)
  | "c14.sign", [seed, msg] =>
    match parseV seed, parseV msg with
    | some seed, some msg => some ("ok " ++ hxv (Ed25519.sign sha512 (Ed25519.newKeyFromSeed sha512 seed) msg))
    | _, _ => none
  | "c14.verify", [pk, msg, sig] =>
    match parseV pk, parseV msg, parseV sig with
    | some pk, some msg, some sig => some (b01 (Ed25519.verify sha512 pk msg sig))
    | _, _, _ => none
  | "c14.genkey", pos :: _chunk :: _ =>
    match pos.toInt? with
    | some pos =>
      if pos < 0 ∨ pos ≥ 32 then
        some ("ok(32) " ++ hxv (Ed25519.newKeyFromSeed sha512 ((List.range 32).map entropyByte)))
      else some s!"err({pos})"
    | none => none
  | "c15.blind", [pk, blind, ctx] =>
    match parseV pk, parseV blind, parseV ctx with
    | some pk, some blind, some ctx =>
      match Ed25519.blindPublicKey sha512 pk blind ctx with
      | some p => some ("ok " ++ hxv p)
      | none => some "err"
    | _, _, _ => none
  | "c15.unblind", [pk, blind, ctx] =>
    match parseV pk, parseV blind, parseV ctx with
    | some pk, some blind, some ctx =>
      match Ed25519.unblindPublicKey sha512 pk blind ctx with
      | some p => some ("ok " ++ hxv p)
      | none => some "err"
    | _, _, _ => none
  | "c15.sign", [seed, msg, blind, ctx] =>
    match parseV seed, parseV msg, parseV blind, parseV ctx with
    | some seed, some msg, some blind, some ctx =>
      some ("ok " ++ hxv (Ed25519.blindKeySign sha512 (Ed25519.newKeyFromSeed sha512 seed) msg blind ctx))
    | _, _, _, _ => none
  | _, _ => none

end PatVerif.Drive.Sig
