import PatVerif.Hex
import PatVerif.Model.Quicwire
namespace PatVerif.Drive.C19
open PatVerif PatVerif.Hex PatVerif.Quicwire

def showRes (r : Res Bytes) : String :=
  match r with
  | .ok b => "ok " ++ hxv b
  | .err => "err"
  | .panic => "panic"

def showPair (p : Nat × Int) : String := toString p.1 ++ " " ++ toString p.2

def showBytesN (r : Res (Option Bytes × Int)) : String :=
  match r with
  | .ok (v, n) => "ok " ++ hx v ++ " " ++ toString n
  | .err => "err"
  | .panic => "panic"

def handle (op : String) (a : List String) : Option String :=
  match op, a with
  | "c19.append", [p, v] =>
    match parseV p, v.toNat? with
    | some p, some v => some (showRes (appendVarint p v))
    | _, _ => none
  | "c19.size", [v] =>
    match v.toNat? with
    | some v => some (match sizeVarint v with | .ok n => "ok " ++ toString n | .err => "err" | .panic => "panic")
    | none => none
  | "c19.consume", [b] => (parseV b).map fun b => showPair (consumeVarint b)
  | "c19.consumeI64", [b] => (parseV b).map fun b =>
      toString (consumeVarintInt64 b).1 ++ " " ++ toString (consumeVarintInt64 b).2
  | "c19.u32", [b] => (parseV b).map fun b => showPair (consumeUint32 b)
  | "c19.u64", [b] => (parseV b).map fun b => showPair (consumeUint64 b)
  | "c19.u8bytes", [b] => (parseV b).map fun b => showBytesN (consumeUint8Bytes b)
  | "c19.vbytes", [b] => (parseV b).map fun b => showBytesN (consumeVarintBytes b)
  | "c19.appendU8Bytes", [p, v] =>
    match parseV p, parseV v with
    | some p, some v => some (showRes (appendUint8Bytes p v))
    | _, _ => none
  | "c19.appendVBytes", [p, v] =>
    match parseV p, parseV v with
    | some p, some v => some (showRes (appendVarintBytes p v))
    | _, _ => none
  | _, _ => none

end PatVerif.Drive.C19
