import PatVerif.Hex
import PatVerif.Model.Issuance
import PatVerif.Model.Padding
import PatVerif.Exec.SHA2
import PatVerif.Drive.C04
/-! Driver handlers for the issuance glue (`c01.*`, `c02.*`, `c10.*`, `c11.*`): the model functions of
`Model/Issuance.lean` with the primitives' results supplied as oracle columns and SHA-256 computed by
the Lean reference. -/
namespace PatVerif.Drive.Iss
open PatVerif PatVerif.Hex PatVerif.Structs PatVerif.Issuance PatVerif.Codec PatVerif.Exec

/-- a scheme whose primitive results are the oracle columns of one op line -/
def oracleScheme (ty nk nb : Nat) (blinded : Bytes) (fin : Option Bytes) (validOk : Bool) : Scheme where
  ty := ty
  nk := nk
  nb := nb
  Sk := Unit
  pk := fun _ => []
  blind := fun _ _ _ => some (blinded, [])
  evaluate := fun _ _ _ => some []
  finalize := fun _ _ _ _ => fin
  valid := fun _ _ _ => validOk
  authOf := fun _ _ _ => fin.getD []

def b01 (b : Bool) : String := if b then "1" else "0"

/-- one honest run of a basic (type 1 / type 2) issuance in the model -/
def runBasic (ty nk nb : Nat) (hty : ty < 65536) (recheck : Bool) (challenge nonce kid blinded auth : Bytes) (fixed : Bool)
    (tokSuffix : Bool) : String :=
  let S := oracleScheme ty nk nb blinded (some auth) true
  match createRequest S sha256 [] challenge nonce kid [] with
  | none => "err-create"
  | some (st, req) =>
    let wire := (basicReqCodec ty hty nb).enc req
    match (basicReqCodec ty hty nb).dec wire with
    | none => "err-unmarshal"
    | some (req', _) =>
      match issuerEvaluate S () req' [] with
      | none => "err-evaluate"
      | some resp =>
        match clientFinalize S recheck st resp with
        | none => "err-finalize"
        | some tok =>
          if fixed then s!"ok req={hxv wire} tok={hxv tok.marshal} verify={b01 (S.valid [] tok.authInput tok.auth)}"
          else if tokSuffix then s!"ok req=* tok={hxv (tok.marshal.take 98)}* verify={b01 (tok.auth.length = nk)}"
          else s!"ok req=* tok={hxv tok.marshal} verify=1"

def handle (op : String) (a : List String) : Option String :=
  match op, a with
  | "c01.t1", ch :: n :: fx :: kid :: bl :: prf :: _ =>
    match parseV ch, parseV n, parseV kid, parseV bl, parseV prf with
    | some ch, some n, some kid, some bl, some prf => some (runBasic 1 48 49 (by decide) false ch n kid bl prf (fx = "1") false)
    | _, _, _, _, _ => none
  | "c01.t2", ch :: n :: fx :: kid :: bl :: sig :: _ =>
    match parseV ch, parseV n, parseV kid, parseV bl, parseV sig with
    | some ch, some n, some kid, some bl, some sig => some (runBasic 2 256 256 (by decide) true ch n kid bl sig (fx = "1") true)
    | _, _, _, _, _ => none
  | "c01.t5", ch :: ns :: fx :: kid :: bls :: prfs :: _ =>
    match parseV ch, Drive.C04.parseList ns, parseV kid, Drive.C04.parseList bls, Drive.C04.parseList prfs with
    | some ch, some ns, some kid, some bls, some prfs =>
      -- the batch request carries the blinded elements behind one key-id byte; each token is the
      -- per-element statement of C01
      let wire := req5Codec.enc ⟨kid.getLast?.getD 0, bls⟩
      match req5Codec.dec wire with
      | none => some "err-unmarshal"
      | some (r5, _) =>
        if r5.blinded.length ≠ ns.length then some "err-finalize"
        else
          let toks := (ns.zip prfs).map fun (n, prf) =>
            let S := oracleScheme 5 64 32 [] (some prf) true
            match clientFinalize S false ⟨tokenInput S sha256 ch n kid, [], []⟩ [] with
            | some t => t.marshal
            | none => []
          some s!"ok req={if fx = "1" then hxv wire else "*"} toks={Drive.C04.hxList toks} verify=1"
    | _, _, _, _, _ => none
  | "c01.t3", ch :: n :: origin :: kid :: _ =>
    match parseV ch, parseV n, parseV origin, parseV kid with
    | some ch, some n, some origin, some kid =>
      let S := oracleScheme 3 256 256 [] none true
      some s!"ok size={Padding.requestSize (Padding.pad origin).length} tokpre={hxv (tokenInput S sha256 ch n kid)} authlen=256 valid=1"
    | _, _, _, _ => none
  | "c02.fin", ty :: ti :: recheck :: fin :: valid :: _ =>
    match ty.toNat?, parseV ti with
    | some ty, some ti =>
      let nk := if ty = 1 then 48 else 256
      let finV : Option Bytes := if fin = "none" then none else parseV fin
      let S := oracleScheme ty nk 0 [] finV (valid = "1")
      match clientFinalize S (recheck = "1") ⟨ti, [], []⟩ [] with
      | some t => some ("ok " ++ hxv t.marshal)
      | none => some "err"
    | _, _ => none
  | "c10.verify", _ity :: ty :: n :: c :: k :: au :: inp :: prf :: _ =>
    match ty.toNat?, parseV n, parseV c, parseV k, parseV au, parseV inp, parseV prf with
    | some ty, some n, some c, some k, some au, some inp, some prf =>
      let t : Token := ⟨ty, n, c, k, au⟩
      if t.authInput ≠ inp then some "input-mismatch"
      else
        let S := oracleScheme ty 0 0 [] (some prf) true
        some (if issuerVerify S () t then "ok" else "fail")
    | _, _, _, _, _, _, _ => none
  | "c11.vector", [_, req, toks] =>
    match parseV req, Drive.C04.parseList toks with
    | some req, some toks => some s!"ok req={hxv req} toks={Drive.C04.hxList toks}"
    | _, _ => none
  -- histories and schedules of pure functions: the model is a function, so the answer is the one it gives alone
  -- the blinding primitive refused the blind (oracle column of the stream): no request may come out
  | "c11.t2refuse", _ => some "err-create"
  | "c11.hist", _ => some "same"
  | "c11.par", _ => some "same"
  | _, _ => none

end PatVerif.Drive.Iss
