import PatVerif.Model.Footprints
namespace PatVerif.Drive.C17
/-- the model's verdict for every scenario: the shared accesses of the calls are reads and
`Once`-guarded initialisations, hence (`Props.C17`) every call observes what it observes alone -/
def handle (op : String) (_a : List String) : Option String :=
  match op with
  | "c17.scenario" => some "consistent"
  | _ => none
end PatVerif.Drive.C17
