import PatVerif.Hex
import PatVerif.Model.Padding
import PatVerif.Drive.C04
namespace PatVerif.Drive.C20
open PatVerif PatVerif.Hex PatVerif.Padding

def handle (op : String) (a : List String) : Option String :=
  match op, a with
  | "c20.pad", [n] => (parseV n).map fun n => "ok " ++ hxv (pad n)
  | "c20.unpad", [p] => (parseV p).map fun p => "ok " ++ hxv (unpad p)
  | "c20.e2e", [n, regs] =>
    match parseV n, Drive.C04.parseList regs with
    | some n, some regs =>
      let served := if regs.contains (unpad (pad n)) then 1 else 0
      some s!"ok size={requestSize (pad n).length} served={served}"
    | _, _ => none
  | _, _ => none

end PatVerif.Drive.C20
