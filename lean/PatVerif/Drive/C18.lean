import PatVerif.Hex
import PatVerif.Props.C18
import PatVerif.Model.Structs
import PatVerif.Drive.Sig
namespace PatVerif.Drive.C18
open PatVerif PatVerif.Hex PatVerif.TokenKey PatVerif.Props.C18 PatVerif.Structs

def showInt (x : Int) : String :=
  if x < 0 then "-" ++ Drive.Sig.natHex x.natAbs ++ "." else Drive.Sig.natHex x.toNat

def handle (op : String) (a : List String) : Option String :=
  match op, a with
  | "c18.pss", [n, e] =>
    match Drive.Sig.parseNat n, Drive.Sig.parseNat e with
    | some n, some e => some ("ok " ++ hxv (spkiPSS n e))
    | _, _ => none
  | "c18.legacy", [n, e] =>
    match Drive.Sig.parseNat n, Drive.Sig.parseNat e with
    | some n, some e => some ("ok " ++ hxv (spkiLegacy n e))
    | _, _ => none
  | "c18.unmarshal", [b] => (parseV b).map fun b =>
      match unmarshalTokenKey b with
      | some (n, e) => s!"ok {showInt n} {showInt e}"
      | none => "err"
  -- c18.rsaid <n> <e>: issuer key id and the byte a request carries
  | "c18.rsaid", n :: e :: _ =>
    match Drive.Sig.parseNat n, Drive.Sig.parseNat e with
    | some n, some e => some s!"ok {hxv (rsaKeyId n e)} {(truncatedKeyId (rsaKeyId n e)).toNat}"
    | _, _ => none
  -- c18.voprfid <serialized public key>
  | "c18.voprfid", pk :: _ => (parseV pk).map fun pk => s!"ok {hxv (voprfKeyId pk)} {(truncatedKeyId (voprfKeyId pk)).toNat}"
  -- c18.nameid <key id byte> <kem> <public key> <kdf> <aead>
  | "c18.nameid", id :: kem :: pk :: kdf :: aead :: _ =>
    match id.toNat?, kem.toNat?, parseV pk, kdf.toNat?, aead.toNat? with
    | some id, some kem, some pk, some kdf, some aead =>
      let enc := (encapKeyCodec (fun _ _ => true)).enc ⟨UInt8.ofNat id, kem, pk, kdf, aead⟩
      some s!"ok {hxv enc} {hxv (nameKeyId enc)}"
    | _, _, _, _, _ => none
  -- c18.namekey <serialized name key>
  | "c18.namekey", [b] => (parseV b).map fun b =>
      match (encapKeyCodec (fun _ _ => true)).dec b with
      | some (k, _) =>
        let enc := (encapKeyCodec (fun _ _ => true)).enc k
        s!"ok {hxv enc} {hxv (nameKeyId enc)}"
      | none => "err"
  | _, _ => none

end PatVerif.Drive.C18
