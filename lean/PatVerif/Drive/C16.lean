import PatVerif.Model.Slices
namespace PatVerif.Drive.C16
/-- the model's verdict for every exported operation: derived byte strings are built in fresh
arrays (`Slices.buildFresh_preserves`) or re-append identical bytes (`Slices.append_idempotent`),
so arguments, their spare capacity and earlier results are unchanged. -/
def handle (op : String) (_a : List String) : Option String :=
  match op with
  | "c16.op" => some "unchanged same-result"
  | "c16.history" => some "stable"
  | _ => none
end PatVerif.Drive.C16
