import PatVerif.Basic
/-! Line-protocol helpers of the driver: hex, `-` (empty), `nil`. Not part of any theorem. -/
namespace PatVerif.Hex

def hexDigit (n : Nat) : Char :=
  if n < 10 then Char.ofNat (48 + n) else Char.ofNat (87 + n)

def toHex (b : Bytes) : String :=
  String.ofList (b.foldr (fun x acc => hexDigit (x.toNat / 16) :: hexDigit (x.toNat % 16) :: acc) [])

/-- value rendering: empty and nil both `-` -/
def hxv (b : Bytes) : String := if b.isEmpty then "-" else toHex b

/-- slice rendering: `nil`, `-` (empty, non-nil) or hex -/
def hx : Option Bytes → String
  | none => "nil"
  | some b => hxv b

def nib (c : Char) : Option Nat :=
  if '0' ≤ c ∧ c ≤ '9' then some (c.toNat - 48)
  else if 'a' ≤ c ∧ c ≤ 'f' then some (c.toNat - 87)
  else if 'A' ≤ c ∧ c ≤ 'F' then some (c.toNat - 55)
  else none

def parseHexChars : List Char → Option Bytes
  | [] => some []
  | a :: b :: r =>
    match nib a, nib b, parseHexChars r with
    | some x, some y, some t => some (UInt8.ofNat (x * 16 + y) :: t)
    | _, _, _ => none
  | _ => none

/-- `nil` ↦ `none`; `-` ↦ `some []` -/
def parse (s : String) : Option (Option Bytes) :=
  if s = "nil" then some none
  else if s = "-" then some (some [])
  else (parseHexChars s.toList).map some

/-- like `parse`, but nil is read as the empty value -/
def parseV (s : String) : Option Bytes :=
  match parse s with
  | some (some b) => some b
  | some none => some []
  | none => none

end PatVerif.Hex
