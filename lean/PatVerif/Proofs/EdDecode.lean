import PatVerif.Proofs.EdPoints
import PatVerif.Proofs.FeSqrt
/-! `Point.SetBytes` and `Point.bytes` of the translated point code. -/
namespace PatVerif.Proofs.EdDecode
open PatVerif PatVerif.Generated PatVerif.Generated.FeLimbs PatVerif.Generated.EdPoints PatVerif.Proofs.FeHelp PatVerif.Proofs.FeCarry
  PatVerif.Proofs.FeField PatVerif.Proofs.FeMisc PatVerif.Proofs.FeBytes PatVerif.Proofs.FeSqrt PatVerif.Proofs.EdPoints

theorem feOne_limbs : EdPoints.feOne = ⟨1, 0, 0, 0, 0⟩ := by decide
theorem feOne_loose : Loose EdPoints.feOne := by rw [feOne_limbs]; simp only [Loose]; omega
theorem fv_feOne : fv EdPoints.feOne = 1 := by rw [feOne_limbs]; simp [fv, val]

/-- `Point.SetBytes`: whatever it accepts is a point of the curve −x² + y² = 1 + d x²y² in extended coordinates with Z = 1 and
T = xy, all limbs inside the element invariant, and y is the low 255 bits of the input -/
theorem Point_SetBytes_spec (v : Point) (x : List Nat) (hl : x.length = 32) (hx : ∀ i, i < 32 → x.getD i 0 < 256) (P : Point)
    (h : Point_SetBytes v x = some P) :
    LooseP P ∧ fv P.z = 1 ∧ fv P.t = fv P.x * fv P.y ∧
    fv P.y * fv P.y - fv P.x * fv P.x = 1 + dF * fv P.x * fv P.x * fv P.y * fv P.y ∧
    val P.y = leN (fun i => x.getD i 0) 32 % 57896044618658097711785492504343953926634992332820282019728792003956564819968 := by
  obtain ⟨y, hy, cy, vy⟩ := SetBytes_spec ⟨0, 0, 0, 0, 0⟩ x hl hx
  unfold Point_SetBytes at h
  rw [if_neg (by omega)] at h
  extract_lets -merge z1 y' z2 a2 y2 z3 a3 u z4 a4 vv vv' z5 r6 xx was z7 a7 xn xs v1 v2 v3 v4 at h
  have ey : y' = y := by show resGet (SetBytes _ x) = y; rw [hy]; rfl
  have ly : Loose y := cy.tight.loose
  obtain ⟨t2, e2⟩ := fv_sq z2 y ly
  obtain ⟨t3, e3⟩ := fv_sub z3 (Square z2 y) EdPoints.feOne t2.loose feOne_loose
  obtain ⟨t4, e4⟩ := fv_mul z4 (Square z2 y) EdPoints.d t2.loose d_loose
  obtain ⟨t5, e5⟩ := fv_add (Multiply z4 (Square z2 y) EdPoints.d) _ EdPoints.feOne t4.loose feOne_loose
  obtain ⟨lr, nn, w01, snd⟩ := SqrtRatio_sound z5 _ _ t3.loose t5.loose
  subst ey
  by_cases hw : was = 0
  · rw [if_pos hw] at h; cases h
  · rw [if_neg hw] at h
    have hw1 : was = 1 := by rcases w01 with h0 | h1 <;> [exact absurd h0 hw; exact h1]
    have hroot := snd hw1
    obtain ⟨tn, en⟩ := fv_neg z7 xx lr
    have hbit : U64.shr (x.getD 31 0) 7 = 0 ∨ U64.shr (x.getD 31 0) 7 = 1 := by
      have := hx 31 (by omega); simp only [U64.shr]; omega
    have hxs : Loose xs ∧ fv xs * fv xs = fv xx * fv xx := by
      rcases hbit with hb | hb
      · have : xs = xx := by show Select xx xn xx _ = xx; rw [hb, Select_zero _ _ _ lr.word]
        rw [this]; exact ⟨lr, rfl⟩
      · have : xs = xn := by show Select xx xn xx _ = xn; rw [hb, Select_one _ _ _ tn.loose.word]
        rw [this]; exact ⟨tn.loose, by rw [en]; ring⟩
    obtain ⟨tt, et⟩ := fv_mul v.t xs y' hxs.1 ly
    simp only [Option.some.injEq] at h
    subst h
    simp only [v4, v3, v2, v1, FeLimbs.Set, FeLimbs.One]
    refine ⟨⟨hxs.1, ly, ?_, tt.loose⟩, ?_, et, ?_, vy⟩
    · show Loose FeLimbs.feOne; simp only [Loose, FeLimbs.feOne]; omega
    · show fv FeLimbs.feOne = 1; simp [fv, val, FeLimbs.feOne]
    · show fv y' * fv y' - fv xs * fv xs = 1 + dF * fv xs * fv xs * fv y' * fv y'
      have hu : fv u = fv y' * fv y' - 1 := by show fv (Subtract _ _ _) = _; rw [e3, e2, fv_feOne]
      have hv : fv vv' = fv y' * fv y' * dF + 1 := by show fv (FeLimbs.Add _ _ _) = _; rw [e5, e4, e2, fv_d, fv_feOne]
      have hr : fv vv' * (fv xx * fv xx) = fv u := hroot
      rw [hu, hv] at hr
      linear_combination (-1) * hr - (1 + dF * fv y' * fv y') * hxs.2
theorem or_top (b s : Nat) (hb : b < 128) (hs : s = 0 ∨ s = 1) : b ||| (U64.toByte (U64.shl s 7)) = b + 128 * s := by
  rcases hs with rfl | rfl
  · simp [U64.toByte, U64.shl]
  · have : U64.toByte (U64.shl 1 7) = 1 * 2 ^ 7 := by decide
    rw [this, or_add b _ 7 1 (by omega) rfl]

theorem getD_set_lt (l : List Nat) (j w i : Nat) (hw : w < 256) (hl : l.getD i 0 < 256) : (l.set j w).getD i 0 < 256 := by
  simp only [List.getD_eq_getElem?_getD, List.getElem?_set] at hl ⊢
  split
  · split <;> simp_all
  · exact hl

theorem leN_congr (f g : Nat → Nat) (n : Nat) (h : ∀ i, i < n → f i = g i) : leN f n = leN g n := by
  induction n with
  | zero => rfl
  | succ n ih => simp only [leN]; rw [ih (fun i hi => h i (by omega)), h n (by omega)]

theorem getD_set_eq (l : List Nat) (j w : Nat) (hj : j < l.length) : (l.set j w).getD j 0 = w := by
  simp [List.getD_eq_getElem?_getD, List.getElem?_set, hj]

theorem getD_set_ne (l : List Nat) (j w i : Nat) (h : i ≠ j) : (l.set j w).getD i 0 = l.getD i 0 := by
  simp only [List.getD_eq_getElem?_getD, List.getElem?_set]
  rw [if_neg (by omega)]

theorem e32 (f : Nat → Nat) : leN f 32 = leN f 31 + f 31 * 2 ^ 248 := by
  rw [show (32 : Nat) = 31 + 1 from rfl, leN]

/-- setting bit 255 of a 32-byte little-endian string whose value is below 2^255 -/
theorem top_bit (B : List Nat) (s yv : Nat) (bl : B.length = 32) (bb : ∀ i, i < 32 → B.getD i 0 < 256)
    (be : leN (fun i => B.getD i 0) 32 = yv) (hlt : yv < 57896044618658097711785492504343953926634992332820282019728792003956564819968)
    (hs : s = 0 ∨ s = 1) :
    (U64.orAt B 31 (U64.toByte (U64.shl s 7))).length = 32 ∧
    (∀ i, i < 32 → (U64.orAt B 31 (U64.toByte (U64.shl s 7))).getD i 0 < 256) ∧
    leN (fun i => (U64.orAt B 31 (U64.toByte (U64.shl s 7))).getD i 0) 32 =
      yv + s * 57896044618658097711785492504343953926634992332820282019728792003956564819968 := by
  have hb31 : B.getD 31 0 < 128 := by
    rw [e32] at be
    generalize leN (fun i => B.getD i 0) 31 = lo at be
    generalize B.getD 31 0 = b at be ⊢
    simp only [Nat.reducePow] at be
    omega
  simp only [U64.orAt]
  rw [or_top _ s hb31 hs]
  refine ⟨by simp [bl], ?_, ?_⟩
  · intro i hi
    by_cases h : i = 31
    · subst h; rw [getD_set_eq _ _ _ (by omega)]; rcases hs with rfl | rfl <;> omega
    · rw [getD_set_ne _ _ _ _ h]; exact bb i hi
  · rw [e32]
    show leN _ 31 + (B.set 31 (B.getD 31 0 + 128 * s)).getD 31 0 * 2 ^ 248 = _
    rw [getD_set_eq _ _ _ (by omega), leN_congr _ (fun i => B.getD i 0) 31 (fun i hi => getD_set_ne _ _ _ _ (by omega)), ← be, e32]
    generalize leN (fun i => B.getD i 0) 31 = lo
    generalize B.getD 31 0 = b
    simp only [Nat.reducePow]
    omega

/-- `Point.bytes`: the 32 bytes are the little-endian encoding of y = Y·Z^(p−2) reduced mod p, with the parity of
x = X·Z^(p−2) (reduced) in bit 255 -/
theorem Point_bytes_spec (v : Point) (buf : List Nat) (hv : LooseP v) :
    ∃ x y : Element, Loose x ∧ Loose y ∧
      fv x = fv v.x * fv v.z ^ 57896044618658097711785492504343953926634992332820282019728792003956564819947 ∧
      fv y = fv v.y * fv v.z ^ 57896044618658097711785492504343953926634992332820282019728792003956564819947 ∧
      (Point_bytes v buf).length = 32 ∧ (∀ i, i < 32 → (Point_bytes v buf).getD i 0 < 256) ∧
      leN (fun i => (Point_bytes v buf).getD i 0) 32 =
        val y % P + (val x % P % 2) * 57896044618658097711785492504343953926634992332820282019728792003956564819968 := by
  obtain ⟨hx, hy, hz, ht⟩ := hv
  obtain ⟨li, ei⟩ := fv_invert ⟨0, 0, 0, 0, 0⟩ v.z hz
  obtain ⟨tx, ex⟩ := fv_mul ⟨0, 0, 0, 0, 0⟩ v.x _ hx li
  obtain ⟨ty, ey⟩ := fv_mul ⟨0, 0, 0, 0, 0⟩ v.y _ hy li
  refine ⟨_, _, tx.loose, ty.loose, by rw [ex, ei], by rw [ey, ei], ?_⟩
  obtain ⟨bl, bb, be⟩ := Bytes_spec _ ty.loose.word
  have hlt : ∀ y : Nat, y % P < 57896044618658097711785492504343953926634992332820282019728792003956564819968 :=
    fun y => Nat.lt_trans (Nat.mod_lt _ (by decide)) (by decide)
  have := top_bit _ (val (Multiply ⟨0, 0, 0, 0, 0⟩ v.x (Invert ⟨0, 0, 0, 0, 0⟩ v.z)) % P % 2) _ bl bb be (hlt _) (by omega)
  simp only [Point_bytes]
  rw [IsNegative_spec _ tx.loose.word]
  exact this
end PatVerif.Proofs.EdDecode
