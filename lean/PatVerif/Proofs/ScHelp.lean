import PatVerif.Generated.ScLimbs
/-! Helpers for the limb-arithmetic proofs: the value of a limb vector, the group order, `|` as `+`,
the byte loads as sums, little-endian values of byte lists. -/
namespace PatVerif.Proofs.ScHelp
open PatVerif PatVerif.Generated.ScLimbs

def L : Int := 7237005577332262213973186563042994240857116359379907606001950938285454250989

/-- the integer a vector of 24 limbs (radix 2^21) stands for -/
def val (l : Limbs) : Int :=
  l.s0 + l.s1 * 2^21 + l.s2 * 2^42 + l.s3 * 2^63 + l.s4 * 2^84 + l.s5 * 2^105 + l.s6 * 2^126 + l.s7 * 2^147
  + l.s8 * 2^168 + l.s9 * 2^189 + l.s10 * 2^210 + l.s11 * 2^231 + l.s12 * 2^252 + l.s13 * 2^273 + l.s14 * 2^294
  + l.s15 * 2^315 + l.s16 * 2^336 + l.s17 * 2^357 + l.s18 * 2^378 + l.s19 * 2^399 + l.s20 * 2^420 + l.s21 * 2^441
  + l.s22 * 2^462 + l.s23 * 2^483

/-- little-endian value of a list of bytes -/
def leVal : List Int → Int
  | [] => 0
  | x :: xs => x + 256 * leVal xs

def bytesOK : List Int → Prop
  | [] => True
  | x :: xs => (0 ≤ x ∧ x ≤ 255) ∧ bytesOK xs

/-- little-endian value of the first `n` bytes of a byte array given as a function -/
def leFn (b : Nat → Int) : Nat → Int
  | 0 => 0
  | n + 1 => leFn b n + b n * 2 ^ (8 * n)

/-- the safety conditions of a chain of blocks, each stated about the state it starts from -/
def safeChain : List (Limbs → Limbs) → List (Limbs → Prop) → Limbs → Prop
  | f :: fs, p :: ps, l => p l ∧ safeChain fs ps (f l)
  | _, _, _ => True

/-- where both routines end: eleven 21-bit limbs, a twelfth of at most 2^21, nothing above -/
def RF (l : Limbs) : Prop :=
  0 ≤ l.s0 ∧ l.s0 ≤ 2097151 ∧ 0 ≤ l.s1 ∧ l.s1 ≤ 2097151 ∧ 0 ≤ l.s2 ∧ l.s2 ≤ 2097151 ∧ 0 ≤ l.s3 ∧ l.s3 ≤ 2097151 ∧ 0 ≤ l.s4 ∧ l.s4 ≤ 2097151 ∧ 0 ≤ l.s5 ∧ l.s5 ≤ 2097151 ∧ 0 ≤ l.s6 ∧ l.s6 ≤ 2097151 ∧ 0 ≤ l.s7 ∧ l.s7 ≤ 2097151 ∧ 0 ≤ l.s8 ∧ l.s8 ≤ 2097151 ∧ 0 ≤ l.s9 ∧ l.s9 ≤ 2097151 ∧ 0 ≤ l.s10 ∧ l.s10 ≤ 2097151 ∧ 0 ≤ l.s11 ∧ l.s11 ≤ 2097152 ∧
  l.s12 = 0 ∧ l.s13 = 0 ∧ l.s14 = 0 ∧ l.s15 = 0 ∧ l.s16 = 0 ∧ l.s17 = 0 ∧ l.s18 = 0 ∧ l.s19 = 0 ∧ l.s20 = 0 ∧ l.s21 = 0 ∧ l.s22 = 0 ∧ l.s23 = 0

theorem ior_ishl (x y : Int) (k : Nat) (hx0 : 0 ≤ x) (hxk : x < 2 ^ k) (hy : 0 ≤ y) :
    Go.ior x (Go.ishl y k) = x + y * 2 ^ k := by
  obtain ⟨a, rfl⟩ := Int.eq_ofNat_of_zero_le hx0
  obtain ⟨b, rfl⟩ := Int.eq_ofNat_of_zero_le hy
  have ha : a < 2 ^ k := by exact_mod_cast hxk
  unfold Go.ior Go.ishl
  have h1 : ((b : Int) * 2 ^ k).toNat = b * 2 ^ k := by
    have : ((b : Int) * 2 ^ k) = ((b * 2 ^ k : Nat) : Int) := by push_cast; rfl
    rw [this]; rfl
  rw [h1]
  simp only [Int.toNat_natCast]
  have h2 : a ||| b * 2 ^ k = b * 2 ^ k + a := by
    rw [Nat.or_comm, ← Nat.shiftLeft_eq, Nat.shiftLeft_add_eq_or_of_lt ha]
  rw [h2]
  show ((b * 2 ^ k + a : Nat) : Int) = ↑a + ↑b * 2 ^ k
  rw [Int.natCast_add, Int.natCast_mul, Int.natCast_pow]
  simp only [Int.cast_ofNat_Int]
  omega

theorem load3_eq (b : Nat → Int) (o : Nat) (h0 : 0 ≤ b (o + 0) ∧ b (o + 0) ≤ 255) (h1 : 0 ≤ b (o + 1) ∧ b (o + 1) ≤ 255)
    (h2 : 0 ≤ b (o + 2) ∧ b (o + 2) ≤ 255) :
    load3 b o = b (o + 0) + b (o + 1) * 2 ^ 8 + b (o + 2) * 2 ^ 16 ∧ load3_safe b o := by
  have e1 := ior_ishl (b (o + 0)) (b (o + 1)) 8 h0.1 (by omega) h1.1
  have e2 := ior_ishl (b (o + 0) + b (o + 1) * 2 ^ 8) (b (o + 2)) 16 (by omega) (by omega) h2.1
  simp only [load3, load3_safe]
  simp only [e1, e2]
  simp only [Go.inI64, Go.ishl]
  and_intros <;> first | trivial | omega

theorem load4_eq (b : Nat → Int) (o : Nat) (h0 : 0 ≤ b (o + 0) ∧ b (o + 0) ≤ 255) (h1 : 0 ≤ b (o + 1) ∧ b (o + 1) ≤ 255)
    (h2 : 0 ≤ b (o + 2) ∧ b (o + 2) ≤ 255) (h3 : 0 ≤ b (o + 3) ∧ b (o + 3) ≤ 255) :
    load4 b o = b (o + 0) + b (o + 1) * 2 ^ 8 + b (o + 2) * 2 ^ 16 + b (o + 3) * 2 ^ 24 ∧ load4_safe b o := by
  have e1 := ior_ishl (b (o + 0)) (b (o + 1)) 8 h0.1 (by omega) h1.1
  have e2 := ior_ishl (b (o + 0) + b (o + 1) * 2 ^ 8) (b (o + 2)) 16 (by omega) (by omega) h2.1
  have e3 := ior_ishl (b (o + 0) + b (o + 1) * 2 ^ 8 + b (o + 2) * 2 ^ 16) (b (o + 3)) 24 (by omega) (by omega) h3.1
  simp only [load4, load4_safe]
  simp only [e1, e2, e3]
  simp only [Go.inI64, Go.ishl]
  and_intros <;> first | trivial | omega

end PatVerif.Proofs.ScHelp
