import PatVerif.Proofs.ScReduce
import PatVerif.Proofs.ScMulAdd
/-!
# The `Scalar` operations of the Ed25519 fork, as translated from scalar.go, are arithmetic modulo the group order

`Generated/ScLimbs.lean` holds the translation of `scReduce`, `scMulAdd`, `isReduced`, the three constants and the
methods that are a single call of one of them. `Proofs/ScReduce.lean` and `Proofs/ScMulAdd.lean` prove the two limb
routines; here the methods are read off: for all byte inputs, the 32 output bytes are the little-endian encoding of
the stated residue, which is canonical (`< L`), and no `int64` operation on the way overflows.
-/
namespace PatVerif.Proofs.ScScalar
open PatVerif PatVerif.Generated.ScLimbs PatVerif.Proofs.ScHelp PatVerif.Proofs.ScReduce PatVerif.Proofs.ScMulAdd

def IsBytes (b : Nat → Int) : Prop := ∀ i, 0 ≤ b i ∧ b i ≤ 255

theorem getD_isBytes (l : List Int) (h : ∀ x ∈ l, 0 ≤ x ∧ x ≤ 255) : IsBytes (fun i => l.getD i 0) := by
  intro i
  simp only [List.getD_eq_getElem?_getD]
  cases hi : l[i]? with
  | none => simp
  | some v => simp only [Option.getD_some]; exact h v (List.mem_of_getElem? hi)

theorem scZero_isBytes : IsBytes scZero := getD_isBytes _ (by decide)
theorem scOne_isBytes : IsBytes scOne := getD_isBytes _ (by decide)
theorem scMinusOne_isBytes : IsBytes scMinusOne := getD_isBytes _ (by decide)

theorem scZero_val : leFn scZero 32 = 0 := by rfl
theorem scOne_val : leFn scOne 32 = 1 := by rfl
theorem scMinusOne_val : leFn scMinusOne 32 = L - 1 := by rfl

/-- what the output of one of the routines is: 32 bytes, the little-endian encoding of `r`, and `r` is canonical -/
def Encodes (out : List Int) (r : Int) : Prop :=
  bytesOK out ∧ out.length = 32 ∧ leVal out = r ∧ 0 ≤ r ∧ r < L

theorem emod_L_range (x : Int) : 0 ≤ x % L ∧ x % L < L := by
  constructor
  · exact Int.emod_nonneg _ (by decide)
  · exact Int.emod_lt_of_pos _ (by decide)

theorem MultiplyAdd_spec (x y z : Nat → Int) (hx : IsBytes x) (hy : IsBytes y) (hz : IsBytes z) :
    Encodes (Scalar_MultiplyAdd x y z) ((leFn x 32 * leFn y 32 + leFn z 32) % L) := by
  obtain ⟨_, _, _, hb, hn, hv⟩ := scMulAdd_correct x hx y hy z hz
  exact ⟨hb, hn, hv, (emod_L_range _).1, (emod_L_range _).2⟩

theorem Add_spec (x y : Nat → Int) (hx : IsBytes x) (hy : IsBytes y) :
    Encodes (Scalar_Add x y) ((leFn x 32 + leFn y 32) % L) := by
  obtain ⟨_, _, _, hb, hn, hv⟩ := scMulAdd_correct scOne scOne_isBytes x hx y hy
  rw [scOne_val, Int.one_mul] at hv
  exact ⟨hb, hn, hv, (emod_L_range _).1, (emod_L_range _).2⟩

theorem Multiply_spec (x y : Nat → Int) (hx : IsBytes x) (hy : IsBytes y) :
    Encodes (Scalar_Multiply x y) ((leFn x 32 * leFn y 32) % L) := by
  obtain ⟨_, _, _, hb, hn, hv⟩ := scMulAdd_correct x hx y hy scZero scZero_isBytes
  rw [scZero_val, Int.add_zero] at hv
  exact ⟨hb, hn, hv, (emod_L_range _).1, (emod_L_range _).2⟩

theorem Subtract_spec (x y : Nat → Int) (hx : IsBytes x) (hy : IsBytes y) :
    Encodes (Scalar_Subtract x y) ((leFn x 32 - leFn y 32) % L) := by
  obtain ⟨_, _, _, hb, hn, hv⟩ := scMulAdd_correct scMinusOne scMinusOne_isBytes y hy x hx
  rw [scMinusOne_val] at hv
  have e : ((L - 1) * leFn y 32 + leFn x 32) % L = (leFn x 32 - leFn y 32) % L := by
    have : (L - 1) * leFn y 32 + leFn x 32 = (leFn x 32 - leFn y 32) + leFn y 32 * L := by
      rw [Int.sub_mul, Int.one_mul, Int.mul_comm L]; omega
    rw [this, Int.add_mul_emod_self_right]
  rw [e] at hv
  exact ⟨hb, hn, hv, (emod_L_range _).1, (emod_L_range _).2⟩

theorem Negate_spec (x : Nat → Int) (hx : IsBytes x) :
    Encodes (Scalar_Negate x) ((- leFn x 32) % L) := by
  obtain ⟨_, _, _, hb, hn, hv⟩ := scMulAdd_correct scMinusOne scMinusOne_isBytes x hx scZero scZero_isBytes
  rw [scMinusOne_val, scZero_val, Int.add_zero] at hv
  have e : ((L - 1) * leFn x 32) % L = (- leFn x 32) % L := by
    have : (L - 1) * leFn x 32 = (- leFn x 32) + leFn x 32 * L := by
      rw [Int.sub_mul, Int.one_mul, Int.mul_comm L]; omega
    rw [this, Int.add_mul_emod_self_right]
  rw [e] at hv
  exact ⟨hb, hn, hv, (emod_L_range _).1, (emod_L_range _).2⟩

theorem SetUniformBytes_spec (x : Nat → Int) (hx : IsBytes x) :
    Encodes (Scalar_SetUniformBytes x) (leFn x 64 % L) := by
  have hb' : IsBytes (fun i => if i < 64 then x i else 0) := by
    intro i; by_cases h : i < 64 <;> simp only [h, ite_true, ite_false] <;> first | exact hx i | omega
  obtain ⟨_, _, _, hb, hn, hv⟩ := scReduce_correct _ hb'
  have e : leFn (fun i => if i < 64 then x i else 0) 64 = leFn x 64 := by
    simp only [leFn, Nat.reduceLT, ite_true]
  rw [e] at hv
  exact ⟨hb, hn, hv, (emod_L_range _).1, (emod_L_range _).2⟩

/-- the fork's `SetBytes` (used by key blinding): any 32 bytes, reduced -/
theorem SetBytes_spec (x : Nat → Int) (hx : IsBytes x) :
    Encodes (Scalar_SetBytes x) (leFn x 32 % L) := by
  have hb' : IsBytes (fun i => if i < 32 then x i else 0) := by
    intro i; by_cases h : i < 32 <;> simp only [h, ite_true, ite_false] <;> first | exact hx i | omega
  obtain ⟨_, _, _, hb, hn, hv⟩ := scReduce_correct _ hb'
  have e : leFn (fun i => if i < 32 then x i else 0) 64 = leFn x 32 := by
    simp only [leFn, Nat.reduceLT, ite_true, ite_false, Int.zero_mul, Int.add_zero]
  rw [e] at hv
  exact ⟨hb, hn, hv, (emod_L_range _).1, (emod_L_range _).2⟩

/-! ## `isReduced` is `< L` -/

theorem leFn_range (b : Nat → Int) (hb : IsBytes b) : ∀ n, 0 ≤ leFn b n ∧ leFn b n < 2 ^ (8 * n)
  | 0 => by simp [leFn]
  | n + 1 => by
    obtain ⟨h0, h1⟩ := leFn_range b hb n
    obtain ⟨b0, b1⟩ := hb n
    have hp : (0 : Int) < 2 ^ (8 * n) := Int.pow_pos (by decide)
    have e : (2 : Int) ^ (8 * (n + 1)) = 256 * 2 ^ (8 * n) := by
      rw [Nat.mul_add, Int.pow_add]; simp only [Nat.mul_one]; rw [Int.mul_comm]; rfl
    have m0 : 0 ≤ b n * 2 ^ (8 * n) := Int.mul_nonneg b0 (Int.le_of_lt hp)
    have m1 : b n * 2 ^ (8 * n) ≤ 255 * 2 ^ (8 * n) := Int.mul_le_mul_of_nonneg_right b1 (Int.le_of_lt hp)
    simp only [leFn, e]
    constructor <;> omega

theorem isReduced_loop_spec (s : Nat → Int) (hs : IsBytes s) :
    ∀ n, isReduced_loop s n = true ↔ leFn s n ≤ leFn scMinusOne n
  | 0 => by simp [isReduced_loop, leFn]
  | n + 1 => by
    have ih := isReduced_loop_spec s hs n
    obtain ⟨a0, a1⟩ := leFn_range s hs n
    obtain ⟨m0, m1⟩ := leFn_range scMinusOne scMinusOne_isBytes n
    have hp : (0 : Int) < 2 ^ (8 * n) := Int.pow_pos (by decide)
    simp only [isReduced_loop, leFn]
    by_cases h1 : s n > scMinusOne n
    · have : (scMinusOne n + 1) * 2 ^ (8 * n) ≤ s n * 2 ^ (8 * n) := Int.mul_le_mul_of_nonneg_right (by omega) (Int.le_of_lt hp)
      rw [Int.add_mul, Int.one_mul] at this
      simp only [h1, ite_true]
      constructor
      · intro h; cases h
      · intro h; omega
    · simp only [h1, ite_false]
      by_cases h2 : s n < scMinusOne n
      · have : (s n + 1) * 2 ^ (8 * n) ≤ scMinusOne n * 2 ^ (8 * n) := Int.mul_le_mul_of_nonneg_right (by omega) (Int.le_of_lt hp)
        rw [Int.add_mul, Int.one_mul] at this
        simp only [h2, ite_true, true_iff]
        omega
      · have e : s n = scMinusOne n := by omega
        simp only [h2, ite_false, ih]
        rw [e]
        constructor <;> intro h <;> omega

/-- `isReduced` accepts exactly the canonical encodings: the scalars below the group order -/
theorem isReduced_spec (s : Nat → Int) (hs : IsBytes s) : isReduced s = true ↔ leFn s 32 < L := by
  rw [isReduced, isReduced_loop_spec s hs 32, scMinusOne_val]
  constructor <;> intro h <;> omega

end PatVerif.Proofs.ScScalar
