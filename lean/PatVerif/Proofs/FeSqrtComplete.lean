import PatVerif.Proofs.EdComplete
/-! Completeness of `SqrtRatio` (p ≡ 5 mod 8): whenever u/v is a square the function says so — hence `Point.SetBytes` accepts every
encoding of a curve point. -/
namespace PatVerif.Proofs.FeSqrtComplete
open PatVerif PatVerif.Generated PatVerif.Generated.FeLimbs PatVerif.Proofs.FeHelp PatVerif.Proofs.FeCarry PatVerif.Proofs.FeMul
  PatVerif.Proofs.FeMisc PatVerif.Proofs.FeBytes PatVerif.Proofs.FePow PatVerif.Proofs.FeAbs PatVerif.Proofs.FeField PatVerif.Proofs.FeSqrt
  PatVerif.Proofs.FeInv

theorem sq_eq_one {c : F} (h : c * c = 1) : c = 1 ∨ c = -1 := by
  have : (c - 1) * (c + 1) = 0 := by linear_combination h
  rcases mul_eq_zero.1 this with h | h
  · left; linear_combination h
  · right; linear_combination h

/-- a non-zero square raised to (p−1)/2 is 1 -/
theorem square_pow_half (t : F) (ht : t ≠ 0) :
    (t * t) ^ 28948022309329048855892746252171976963317496166410141009864396001978282409974 = 1 := by
  have hf : t ^ (P - 1) = 1 := ZMod.pow_card_sub_one_eq_one ht
  rw [← pow_two, ← pow_mul]
  exact hf

theorem SqrtRatio_complete (r u v : Element) (hu : Loose u) (hv : Loose v) (x : F) (hx : fv v * (x * x) = fv u) :
    (SqrtRatio r u v).2 = 1 := by
  unfold SqrtRatio
  extract_lets -merge w0 a0 b0 a1 b1 b2 a2 a3 r1 r2 a4 a5 b3 cs fs b4 fi b5 r3 r4
  obtain ⟨ta1, ea1⟩ := fv_sq a0 v hv
  obtain ⟨tb1, eb1⟩ := fv_mul b0 a1 v ta1.loose hv
  obtain ⟨tb2, eb2⟩ := fv_mul b1 u b1 hu tb1.loose
  obtain ⟨ta2, ea2⟩ := fv_sq a1 a1 ta1.loose
  obtain ⟨ta3, ea3⟩ := fv_mul a2 b2 a2 tb2.loose ta2.loose
  obtain ⟨lr1, er1⟩ := fv_pow22523 r a3 ta3.loose
  obtain ⟨tr2, er2⟩ := fv_mul r1 b2 r1 tb2.loose lr1
  obtain ⟨ta4, ea4⟩ := fv_sq a3 r2 tr2.loose
  obtain ⟨ta5, ea5⟩ := fv_mul a4 v a4 hv ta4.loose
  obtain ⟨tb3, eb3⟩ := fv_neg b2 u hu
  have hcs := equal_01 a5 u ta5.loose.word hu.word
  have hfs := equal_01 a5 b3 ta5.loose.word tb3.loose.word
  have ics := equal_iff a5 u ta5.loose.word hu.word
  have ifs := equal_iff a5 b3 ta5.loose.word tb3.loose.word
  -- the check value: v·r² = u·w^((p−1)/4) with w = u·v⁷
  set U := fv u; set V := fv v
  have hw : fv a3 = U * V ^ 7 := by show fv (Multiply _ _ _) = _; rw [ea3, eb2, ea2, eb1, ea1]; ring
  have hchk : fv a5 = U * (U * V ^ 7) ^ 14474011154664524427946373126085988481658748083205070504932198000989141204987 := by
    show fv (Multiply _ _ _) = _
    rw [ea5, ea4, er2, er1, eb2, eb1, ea1, hw]
    have e2 : ∀ w : F, w ^ 14474011154664524427946373126085988481658748083205070504932198000989141204987
        = (w ^ 7237005577332262213973186563042994240829374041602535252466099000494570602493) ^ 2 * w := by
      intro w; rw [← pow_mul, ← pow_succ]
    rw [e2]
    ring
  -- the alternatives
  have hor : fv a5 = U ∨ fv a5 = -U := by
    by_cases hU : U = 0
    · left; rw [hchk, hU]; ring
    · have hV : V ≠ 0 := by rintro h0; apply hU; rw [← hx, h0]; ring
      have hx0 : x ≠ 0 := by rintro h0; apply hU; rw [← hx, h0]; ring
      have hwsq : U * V ^ 7 = (x * V ^ 4) * (x * V ^ 4) := by rw [← hx]; ring
      have hc2 : ((U * V ^ 7) ^ 14474011154664524427946373126085988481658748083205070504932198000989141204987) *
          ((U * V ^ 7) ^ 14474011154664524427946373126085988481658748083205070504932198000989141204987) = 1 := by
        rw [← pow_add, hwsq]
        exact square_pow_half _ (mul_ne_zero hx0 (pow_ne_zero _ hV))
      rcases sq_eq_one hc2 with h1 | h1
      · left; rw [hchk, h1]; ring
      · right; rw [hchk, h1]; ring
  show U64.or cs fs = 1
  rcases hor with h | h
  · have : cs = 1 := ics.2 h
    rw [this]; rcases hfs with f | f <;> rw [show fs = _ from f] <;> decide
  · have : fs = 1 := ifs.2 (by rw [eb3]; exact h)
    rw [this]; rcases hcs with c | c <;> rw [show cs = _ from c] <;> decide

open PatVerif.Generated.EdPoints PatVerif.Proofs.EdPoints PatVerif.Proofs.EdComplete PatVerif.Proofs.EdDecode in
/-- `Point.SetBytes` accepts every encoding whose y-coordinate (the low 255 bits, reduced) belongs to a point of the curve -/
theorem Point_SetBytes_complete (v : Point) (x : List Nat) (hl : x.length = 32) (hx : ∀ i, i < 32 → x.getD i 0 < 256)
    (X : F) (hc : ∀ y, SetBytes ⟨0, 0, 0, 0, 0⟩ x = .ok y → OnCurve X (fv y)) :
    (Point_SetBytes v x).isSome := by
  obtain ⟨y, hy, cy, vy⟩ := SetBytes_spec ⟨0, 0, 0, 0, 0⟩ x hl hx
  have hon := hc y hy
  unfold Point_SetBytes
  rw [if_neg (by omega)]
  extract_lets -merge z1 y' z2 a2 y2 z3 a3 u z4 a4 vv vv' z5 r6 xx was z7 a7 xn xs v1 v2 v3 v4
  have ey : y' = y := by show resGet (SetBytes _ x) = y; rw [hy]; rfl
  have ly : Loose y := cy.tight.loose
  obtain ⟨t2, e2⟩ := fv_sq z2 y ly
  obtain ⟨t3, e3⟩ := fv_sub z3 (Square z2 y) EdPoints.feOne t2.loose feOne_loose
  obtain ⟨t4, e4⟩ := fv_mul z4 (Square z2 y) EdPoints.d t2.loose d_loose
  obtain ⟨t5, e5⟩ := fv_add (Multiply z4 (Square z2 y) EdPoints.d) _ EdPoints.feOne t4.loose feOne_loose
  subst ey
  have hu : fv u = fv y' * fv y' - 1 := by show fv (Subtract _ _ _) = _; rw [e3, e2, fv_feOne]
  have hv : fv vv' = fv y' * fv y' * dF + 1 := by show fv (FeLimbs.Add _ _ _) = _; rw [e5, e4, e2, fv_d, fv_feOne]
  have hroot : fv vv' * (X * X) = fv u := by
    rw [hu, hv]; simp only [OnCurve] at hon; linear_combination (-1 : F) * hon
  have hw : was = 1 := SqrtRatio_complete z5 u vv' t3.loose t5.loose X hroot
  rw [if_neg (by rw [hw]; decide)]
  rfl
end PatVerif.Proofs.FeSqrtComplete
