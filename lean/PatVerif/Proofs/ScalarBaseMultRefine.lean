import PatVerif.Proofs.ScalarMultRefine
/-!
# `(*Point).ScalarBaseMult` computes the scalar multiple of the base point in the curve group (C14, C15)

The fixed-base multiplication — key generation and both multiplications of signing — transcribed in `Model/ScalarMultLit.lean` over
the translated formulas: `basepointTable` (32 tables of `1..8` times `256ⁱ·B` in affine-cached coordinates, eight `Point.Add`
doublings between tables, each entry normalised with `Invert`), the constant-time affine selection, the odd digits, four doublings,
the even digits. Proved: for the generator the Go code decodes (a valid point, evaluated by the kernel) standing for `B`, and any 64
digits with `|d| ≤ 8`, the result is a valid point standing for `(Σ dᵢ16ⁱ) • B`; with `Proofs/Recode.lean`, `x • B` for every scalar.
-/
namespace PatVerif.Proofs.ScalarBaseMultRefine
open PatVerif PatVerif.Generated PatVerif.Generated.FeLimbs PatVerif.Generated.EdPoints PatVerif.Proofs.FeHelp PatVerif.Proofs.FeField
  PatVerif.Proofs.EdPoints PatVerif.Proofs.EdComplete PatVerif.Proofs.EdGroup PatVerif.Proofs.EdRepr
  PatVerif.Model.Recode PatVerif.Model.ScalarMultLit PatVerif.Proofs.ScalarMultLit PatVerif.Proofs.ScalarMultRefine

theorem reprA_congr {r : affineCached} {a b : EdPoint} (h : ReprA r a) (e : a = b) : ReprA r b := e ▸ h

/-- `Point.Add` on representations -/
theorem Point_Add_repr (v p q : Point) (g h : EdPoint) (hp : ReprP3 p g) (hq : ReprP3 q h) : ReprP3 (Point_Add v p q) (g + h) := by
  obtain ⟨vp, ap⟩ := hp
  obtain ⟨vq, aq⟩ := hq
  obtain ⟨va, aa⟩ := Valid_Add v p q vp vq
  exact ⟨va, by rw [aa, ap, aq]; rfl⟩

theorem buildAff_length (step : Point) : ∀ (n : Nat) (cur : affineCached), (buildAff step n cur).length = n := by
  intro n
  induction n with
  | zero => intro _; rfl
  | succ n ih => intro cur; simp [buildAff, ih]

theorem buildAff_repr (step : Point) (g : EdPoint) (hs : ReprP3 step g) :
    ∀ (n : Nat) (cur : affineCached) (h : EdPoint), ReprA cur h → ∀ i, i < n → ReprA ((buildAff step n cur).getD i zA) (h + (i : ℤ) • g) := by
  intro n
  induction n with
  | zero => intro _ _ _ i hi; omega
  | succ n ih =>
    intro cur h hc i hi
    cases i with
    | zero => simpa [buildAff] using hc
    | succ i =>
      simp only [buildAff, List.getD_cons_succ]
      have nx : ReprA (affineCached_FromP3 zA (Point_fromP1xP1 zP (projP1xP1_AddAffine zQ step cur))) (g + h) :=
        affineCached_FromP3_repr _ _ _ (Point_fromP1xP1_repr _ _ _ (projP1xP1_AddAffine_repr _ _ _ _ _ hs hc))
      refine reprA_congr (ih _ _ nx i (by omega)) ?_
      push_cast
      module

/-- `affineLookupTable.FromP3`: entry `j` stands for `(j + 1) • g` -/
theorem affTable_repr (q : Point) (g : EdPoint) (hq : ReprP3 q g) (j : Nat) (hj : j < 8) :
    ReprA ((affTable q).getD j zA) (((j : ℤ) + 1) • g) := by
  refine reprA_congr (buildAff_repr q g hq 8 _ g (affineCached_FromP3_repr _ _ _ hq) j hj) ?_
  module

theorem looseA_wordA {q : affineCached} (h : LooseA q) : WordA q := ⟨h.1.word, h.2.1.word, h.2.2.word⟩

theorem affTable_word (q : Point) (g : EdPoint) (hq : ReprP3 q g) (j : Nat) : WordA ((affTable q).getD j zA) := by
  by_cases hj : j < 8
  · exact looseA_wordA (affTable_repr q g hq j hj).1
  · rw [List.getD_eq_default _ _ (by simp [affTable, buildAff_length]; omega)]
    exact wordA_zA

/-- **`affineLookupTable.SelectInto`** on the table of a point standing for `g`: the result stands for `x • g` -/
theorem selectAff_repr (q : Point) (g : EdPoint) (hq : ReprP3 q g) (x : Int) (hx : x.natAbs ≤ 8) :
    ReprA (selectAff (affTable q) x) (x • g) := by
  rw [selectAff_eq _ x (by omega) (by omega) (affTable_word q g hq)]
  have inner : ReprA (if 1 ≤ x.natAbs ∧ x.natAbs ≤ 8 then (affTable q).getD (x.natAbs - 1) zA else affineCached_Zero zA)
      ((x.natAbs : ℤ) • g) := by
    by_cases h1 : 1 ≤ x.natAbs
    · rw [if_pos ⟨h1, hx⟩]
      refine reprA_congr (affTable_repr q g hq (x.natAbs - 1) (by omega)) ?_
      congr 1; omega
    · rw [if_neg (by omega)]
      have : x.natAbs = 0 := by omega
      rw [this]
      simpa using affineCached_Zero_repr zA
  by_cases hn : x < 0
  · simp only [hn, ite_true]
    refine reprA_congr (affineCached_CondNeg_repr _ 1 _ inner (Or.inl rfl)) ?_
    simp only [ite_true]
    rw [← neg_smul]; congr 1; omega
  · simp only [hn, ite_false]
    refine reprA_congr (affineCached_CondNeg_repr _ 0 _ inner (Or.inr rfl)) ?_
    simp only [show ¬ (0 : Nat) = 1 by decide, ite_false]
    congr 1; omega

/-- eight times `p.Add(p, p)` -/
theorem dbl8_repr (p : Point) (g : EdPoint) (hp : ReprP3 p g) :
    ReprP3 ((List.range 8).foldl (fun p _ => Point_Add zP p p) p) ((256 : ℤ) • g) := by
  have e : List.range 8 = [0, 1, 2, 3, 4, 5, 6, 7] := by decide
  rw [e]
  simp only [List.foldl_cons, List.foldl_nil]
  have d := fun (p : Point) (g : EdPoint) (h : ReprP3 p g) => Point_Add_repr zP p p g g h h
  refine reprP3_congr (d _ _ (d _ _ (d _ _ (d _ _ (d _ _ (d _ _ (d _ _ (d _ _ hp)))))))) ?_
  module

/-- `basepointTable`: table `j` is the lookup table of a point standing for `256ʲ • g` -/
theorem buildBase_get : ∀ (n : Nat) (p : Point) (g : EdPoint), ReprP3 p g → ∀ j, j < n →
    ∃ pj, ReprP3 pj (((256 : ℤ) ^ j) • g) ∧ (buildBase n p).getD j [] = affTable pj := by
  intro n
  induction n with
  | zero => intro _ _ _ j hj; omega
  | succ n ih =>
    intro p g hp j hj
    cases j with
    | zero => exact ⟨p, by simpa using hp, by simp [buildBase]⟩
    | succ j =>
      simp only [buildBase, List.getD_cons_succ]
      obtain ⟨pj, hr, he⟩ := ih _ _ (dbl8_repr p g hp) j (by omega)
      exact ⟨pj, reprP3_congr hr (by rw [smul_smul, pow_succ]), he⟩

/-- one round of the two digit loops -/
theorem baseStep_repr (gen : Point) (B : EdPoint) (hB : ReprP3 gen B) (digits : List Int) (hd : ∀ d ∈ digits, d.natAbs ≤ 8)
    (v : Point) (a : EdPoint) (hv : ReprP3 v a) (j : Nat) (hj : j < 32) (i : Nat) :
    ReprP3 (Point_fromP1xP1 zP (projP1xP1_AddAffine zQ v (selectAff ((buildBase 32 gen).getD j []) (digits.getD i 0))))
      (a + (digits.getD i 0 * 256 ^ j) • B) := by
  obtain ⟨pj, hr, he⟩ := buildBase_get 32 gen B hB j hj
  rw [he]
  refine reprP3_congr (Point_fromP1xP1_repr _ _ _ (projP1xP1_AddAffine_repr _ _ _ _ _ hv
    (selectAff_repr pj _ hr (digits.getD i 0) (getD_natAbs digits hd i)))) ?_
  rw [smul_smul]

theorem foldl_range_repr (f : Point → Nat → Point) (t : Nat → EdPoint) (n : Nat)
    (step : ∀ v a j, j < n → ReprP3 v a → ReprP3 (f v j) (a + t j)) (v : Point) (a : EdPoint) (hv : ReprP3 v a) :
    ReprP3 ((List.range n).foldl f v) (a + ∑ j ∈ Finset.range n, t j) := by
  induction n with
  | zero => simpa using hv
  | succ n ih =>
    rw [List.range_succ, List.foldl_append, Finset.sum_range_succ]
    simp only [List.foldl_cons, List.foldl_nil]
    refine reprP3_congr (step _ _ n (by omega) (ih (fun v a j hj => step v a j (by omega)))) ?_
    abel

/-- **`(*Point).ScalarBaseMult` over the translated formulas computes `(Σ dᵢ16ⁱ) • B`** -/
theorem scalarBaseMult_repr (gen : Point) (B : EdPoint) (hB : ReprP3 gen B) (digits : List Int) (hl : digits.length = 64)
    (hd : ∀ d ∈ digits, d.natAbs ≤ 8) :
    ReprP3 (scalarBaseMult (buildBase 32 gen) digits) (evalDigits 4 digits • B) := by
  unfold scalarBaseMult
  simp only
  have h0 : ReprP3 (Point_Set zP Model.ScalarMultLit.identity) 0 := by
    rw [identity_eq]; exact Point_Set_repr _ _ _ identityPoint_repr
  have odd := foldl_range_repr
    (fun v j => Point_fromP1xP1 zP (projP1xP1_AddAffine zQ v (selectAff ((buildBase 32 gen).getD j []) (digits.getD (2 * j + 1) 0))))
    (fun j => (digits.getD (2 * j + 1) 0 * 256 ^ j) • B) 32
    (fun v a j hj hv => baseStep_repr gen B hB digits hd v a hv j hj (2 * j + 1)) _ 0 h0
  have m1 := projP1xP1_Double_repr zQ _ _ (projP2_FromP3_repr z2 _ _ odd)
  have m16 := Point_fromP1xP1_repr zP _ _ (dbl_repr _ _ (dbl_repr _ _ (dbl_repr _ _ m1)))
  have even := foldl_range_repr
    (fun v j => Point_fromP1xP1 zP (projP1xP1_AddAffine zQ v (selectAff ((buildBase 32 gen).getD j []) (digits.getD (2 * j) 0))))
    (fun j => (digits.getD (2 * j) 0 * 256 ^ j) • B) 32
    (fun v a j hj hv => baseStep_repr gen B hB digits hd v a hv j hj (2 * j)) _ _ m16
  refine reprP3_congr even ?_
  rw [Proofs.ScalarMultAlg.evalDigits_pairs 32 digits (by omega), Finset.sum_smul, zero_add]
  have : ∀ S : EdPoint, S + S + (S + S) + (S + S + (S + S)) + (S + S + (S + S) + (S + S + (S + S))) = (16 : ℤ) • S := fun S => by module
  rw [this, Finset.smul_sum, ← Finset.sum_add_distrib]
  apply Finset.sum_congr rfl
  intro j _
  module

/-- the 32 bytes of `generator` decode (evaluated by the kernel) -/
def generatorPoint : Point :=
  ⟨⟨1738742601995546, 1146398526822698, 2070867633025821, 562264141797630, 587772402128613⟩,
   ⟨1801439850948184, 1351079888211148, 450359962737049, 900719925474099, 1801439850948198⟩,
   ⟨1, 0, 0, 0, 0⟩,
   ⟨1841354044333475, 16398895984059, 755974180946558, 900171276175154, 1821297809914039⟩⟩

theorem generator_SetBytes :
    Point_SetBytes ⟨⟨0, 0, 0, 0, 0⟩, ⟨0, 0, 0, 0, 0⟩, ⟨0, 0, 0, 0, 0⟩, ⟨0, 0, 0, 0, 0⟩⟩
      [88, 102, 102, 102, 102, 102, 102, 102, 102, 102, 102, 102, 102, 102, 102, 102, 102, 102, 102, 102, 102, 102, 102, 102, 102, 102, 102,
       102, 102, 102, 102, 102] = some generatorPoint := by
  decide +kernel

theorem generator_eq : Model.ScalarMultLit.generator = generatorPoint := by
  unfold Model.ScalarMultLit.generator zP ze
  have : (0x58 :: List.replicate 31 0x66 : List Nat) =
      [88, 102, 102, 102, 102, 102, 102, 102, 102, 102, 102, 102, 102, 102, 102, 102, 102, 102, 102, 102, 102, 102, 102, 102, 102, 102, 102,
       102, 102, 102, 102, 102] := by decide
  rw [this, generator_SetBytes]; rfl

theorem generator_valid : Valid Model.ScalarMultLit.generator := by
  rw [generator_eq]
  exact Valid_SetBytes _ _ (by decide) (by decide) _ generator_SetBytes

/-- the base point of the curve group: what the decoded generator stands for -/
noncomputable def basePoint : EdPoint := toEd Model.ScalarMultLit.generator generator_valid

theorem generator_repr : ReprP3 Model.ScalarMultLit.generator basePoint := ⟨generator_valid, rfl⟩

/-- **end to end**: for every scalar the Go code can hold, `signedRadix16` followed by the `ScalarBaseMult` loop over the translated
formulas and the translated `basepointTable` yields a valid point standing for `x • B` -/
theorem scalarBaseMult_correct (s : List Nat) (hs : PatVerif.Proofs.Recode.IsScalar s) :
    ∃ ds, signedRadix16 s = some ds ∧ ReprP3 (scalarBaseMult basepointTable ds) ((leNat s : Int) • basePoint) := by
  obtain ⟨ds, e, hl, hv, hlow, h0, h8⟩ := PatVerif.Proofs.Recode.signedRadix16_spec s hs
  refine ⟨ds, e, ?_⟩
  have hd : ∀ d ∈ ds, d.natAbs ≤ 8 := by
    intro d hd
    obtain ⟨i, hi, rfl⟩ := List.getElem_of_mem hd
    have hg : ds.getD i 0 = ds[i] := by rw [List.getD_eq_getElem?_getD, List.getElem?_eq_getElem hi]; rfl
    by_cases h63 : i < 63
    · have := hlow i h63; rw [hg] at this; omega
    · have : i = 63 := by omega
      subst this; rw [hg] at h0 h8; omega
  rw [← hv]
  exact scalarBaseMult_repr _ basePoint generator_repr ds hl hd

end PatVerif.Proofs.ScalarBaseMultRefine
