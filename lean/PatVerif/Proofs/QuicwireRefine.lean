import PatVerif.Generated.Quicwire
import PatVerif.Model.Quicwire
/-!
# The translated `quicwire/wire.go` refines the hand-written model

`Generated/Quicwire.lean` is produced from the Go source on every check by
`/verif/extract/cmd/quicwire` (shifts, ors, index and slice expressions as written). Each theorem
here says that a generated function computes exactly what `Model/Quicwire.lean` says, so every
theorem of `Props/C19.lean` is a theorem about the code as it is today. These proofs are the only
shape-sensitive ones: a rewrite of `wire.go` that keeps its behaviour may break them (that is then
reported as a broken obligation, and the stream decides whether a failing input exists).

Everything is kept in shift form: a product with a large literal such as `a * 2^56` must never
appear in a goal, because definitional unfolding of `Nat.mul` recurses on the literal.
-/
namespace PatVerif.Proofs.QuicwireRefine
open PatVerif PatVerif.Quicwire
set_option linter.unusedSimpArgs false
set_option linter.unusedVariables false

/-! ## arithmetic of the Go operators -/

/-- one step of a big-endian assembly: the accumulator sits at `k+8`, the new byte at `k` -/
theorem step (A t k k8 : Nat) (hk : k8 = k + 8) (ht : t < 256) :
    (A <<< k8) ||| (t <<< k) = (A * 256 + t) <<< k := by
  subst hk
  have h1 : A <<< (k + 8) = (A <<< 8) <<< k := by rw [Nat.add_comm, Nat.shiftLeft_add]
  rw [h1, ← Nat.shiftLeft_or_distrib]
  congr 1
  rw [← Nat.shiftLeft_add_eq_or_of_lt (by omega : t < 2 ^ 8), Nat.shiftLeft_eq]

theorem shl64_byte (a k : Nat) (ha : a < 256) (hk : k ≤ 56) : Go.shl64 a k = a <<< k := by
  unfold Go.shl64
  apply Nat.mod_eq_of_lt
  rw [Nat.shiftLeft_eq]
  calc a * 2 ^ k < 256 * 2 ^ k := Nat.mul_lt_mul_of_pos_right ha (Nat.two_pow_pos k)
    _ = 2 ^ (8 + k) := by rw [Nat.pow_add]
    _ ≤ 2 ^ 64 := Nat.pow_le_pow_right (by omega) (by omega)

theorem band63 (a : Nat) : Go.band a 0x3f = a % 64 := by
  unfold Go.band
  exact Nat.and_two_pow_sub_one_eq_mod a 6

theorem shr6 (a : Nat) : Go.shr a 6 = a / 64 := by
  unfold Go.shr; exact Nat.shiftRight_eq_div_pow a 6

theorem asm2 (a b : Nat) (ha : a < 64) (hb : b < 256) : Go.bor (Go.shl64 a 8) b = a * 256 + b := by
  rw [shl64_byte a 8 (by omega) (by decide)]
  unfold Go.bor
  have := step a b 0 8 rfl hb
  rw [Nat.shiftLeft_zero, Nat.shiftLeft_zero] at this
  exact this

theorem asm4 (a b c d : Nat) (ha : a < 64) (hb : b < 256) (hc : c < 256) (hd : d < 256) :
    Go.bor (Go.bor (Go.bor (Go.shl64 a 24) (Go.shl64 b 16)) (Go.shl64 c 8)) d
      = ((a * 256 + b) * 256 + c) * 256 + d := by
  rw [shl64_byte a 24 (by omega) (by decide), shl64_byte b 16 hb (by decide), shl64_byte c 8 hc (by decide)]
  unfold Go.bor
  rw [step a b 16 24 rfl hb, step _ c 8 16 rfl hc]
  have := step ((a * 256 + b) * 256 + c) d 0 8 rfl hd
  rw [Nat.shiftLeft_zero, Nat.shiftLeft_zero] at this
  exact this

theorem asm8 (a b c d e f g h : Nat) (ha : a < 64) (hb : b < 256) (hc : c < 256) (hd : d < 256)
    (he : e < 256) (hf : f < 256) (hg : g < 256) (hh : h < 256) :
    Go.bor (Go.bor (Go.bor (Go.bor (Go.bor (Go.bor (Go.bor (Go.shl64 a 56) (Go.shl64 b 48)) (Go.shl64 c 40)) (Go.shl64 d 32))
      (Go.shl64 e 24)) (Go.shl64 f 16)) (Go.shl64 g 8)) h =
    ((((((a * 256 + b) * 256 + c) * 256 + d) * 256 + e) * 256 + f) * 256 + g) * 256 + h := by
  have ha' : a < 256 := by omega
  rw [shl64_byte a 56 ha' (Nat.le_refl _), shl64_byte b 48 hb (by decide), shl64_byte c 40 hc (by decide),
    shl64_byte d 32 hd (by decide), shl64_byte e 24 he (by decide), shl64_byte f 16 hf (by decide), shl64_byte g 8 hg (by decide)]
  unfold Go.bor
  rw [step a b 48 56 rfl hb, step _ c 40 48 rfl hc, step _ d 32 40 rfl hd, step _ e 24 32 rfl he, step _ f 16 24 rfl hf,
    step _ g 8 16 rfl hg]
  have := step ((((((a * 256 + b) * 256 + c) * 256 + d) * 256 + e) * 256 + f) * 256 + g) h 0 8 rfl hh
  rw [Nat.shiftLeft_zero, Nat.shiftLeft_zero] at this
  exact this

theorem idx_nat (b : Bytes) (i : Nat) (x : UInt8) (h : b[i]? = some x) : Go.idx b (i : Int) = .ok x.toNat := by
  unfold Go.idx
  have : ¬ ((i : Int) < 0) := by omega
  simp [this, h]

theorem len_lt (b : Bytes) (n : Nat) : (Go.len b < (n : Int)) ↔ b.length < n := by
  unfold Go.len; omega

/-! ## `ConsumeVarint` -/

theorem consumeVarint_refines (b : Bytes) :
    Generated.Quicwire.ConsumeVarint b = .ok (consumeVarint b) := by
  unfold Generated.Quicwire.ConsumeVarint
  cases b with
  | nil => simp [Go.len, consumeVarint]
  | cons b0 r =>
    have hb := b0.toNat_lt
    have hlen : ¬ (Go.len (b0 :: r) < 1) := by simp [Go.len]; omega
    have i0 : Go.idx (b0 :: r) 0 = .ok b0.toNat := idx_nat _ 0 b0 rfl
    simp only [hlen, ite_false, i0, Res.bind_ok, band63, shr6]
    have hx : b0.toNat % 64 < 64 := by omega
    have hc : b0.toNat / 64 = 0 ∨ b0.toNat / 64 = 1 ∨ b0.toNat / 64 = 2 ∨ b0.toNat / 64 = 3 := by omega
    rcases hc with hc | hc | hc | hc
    · simp [hc, consumeVarint]
    · cases r with
      | nil => simp [hc, consumeVarint, Go.len]
      | cons b1 r =>
        have h2 : ¬ (Go.len (b0 :: b1 :: r) < 2) := by simp [Go.len]; omega
        have i1 : Go.idx (b0 :: b1 :: r) 1 = .ok b1.toNat := idx_nat _ 1 b1 rfl
        simp [hc, consumeVarint, h2, i1, asm2 _ _ hx b1.toNat_lt]
    · match r with
      | [] => simp [hc, consumeVarint, Go.len]
      | [_] => simp [hc, consumeVarint, Go.len]
      | [_, _] => simp [hc, consumeVarint, Go.len]
      | b1 :: b2 :: b3 :: r =>
        have h4 : ¬ (Go.len (b0 :: b1 :: b2 :: b3 :: r) < 4) := by simp [Go.len]; omega
        have i1 : Go.idx (b0 :: b1 :: b2 :: b3 :: r) 1 = .ok b1.toNat := idx_nat _ 1 b1 rfl
        have i2 : Go.idx (b0 :: b1 :: b2 :: b3 :: r) 2 = .ok b2.toNat := idx_nat _ 2 b2 rfl
        have i3 : Go.idx (b0 :: b1 :: b2 :: b3 :: r) 3 = .ok b3.toNat := idx_nat _ 3 b3 rfl
        simp [hc, consumeVarint, h4, i1, i2, i3, asm4 _ _ _ _ hx b1.toNat_lt b2.toNat_lt b3.toNat_lt]
    · match r with
      | [] => simp [hc, consumeVarint, Go.len]
      | [_] => simp [hc, consumeVarint, Go.len]
      | [_, _] => simp [hc, consumeVarint, Go.len]
      | [_, _, _] => simp [hc, consumeVarint, Go.len]
      | [_, _, _, _] => simp [hc, consumeVarint, Go.len]
      | [_, _, _, _, _] => simp [hc, consumeVarint, Go.len]
      | [_, _, _, _, _, _] => simp [hc, consumeVarint, Go.len]
      | b1 :: b2 :: b3 :: b4 :: b5 :: b6 :: b7 :: r =>
        have h8 : ¬ (Go.len (b0 :: b1 :: b2 :: b3 :: b4 :: b5 :: b6 :: b7 :: r) < 8) := by simp [Go.len]; omega
        have i1 : Go.idx (b0 :: b1 :: b2 :: b3 :: b4 :: b5 :: b6 :: b7 :: r) 1 = .ok b1.toNat := idx_nat _ 1 b1 rfl
        have i2 : Go.idx (b0 :: b1 :: b2 :: b3 :: b4 :: b5 :: b6 :: b7 :: r) 2 = .ok b2.toNat := idx_nat _ 2 b2 rfl
        have i3 : Go.idx (b0 :: b1 :: b2 :: b3 :: b4 :: b5 :: b6 :: b7 :: r) 3 = .ok b3.toNat := idx_nat _ 3 b3 rfl
        have i4 : Go.idx (b0 :: b1 :: b2 :: b3 :: b4 :: b5 :: b6 :: b7 :: r) 4 = .ok b4.toNat := idx_nat _ 4 b4 rfl
        have i5 : Go.idx (b0 :: b1 :: b2 :: b3 :: b4 :: b5 :: b6 :: b7 :: r) 5 = .ok b5.toNat := idx_nat _ 5 b5 rfl
        have i6 : Go.idx (b0 :: b1 :: b2 :: b3 :: b4 :: b5 :: b6 :: b7 :: r) 6 = .ok b6.toNat := idx_nat _ 6 b6 rfl
        have i7 : Go.idx (b0 :: b1 :: b2 :: b3 :: b4 :: b5 :: b6 :: b7 :: r) 7 = .ok b7.toNat := idx_nat _ 7 b7 rfl
        simp [hc, consumeVarint, h8, i1, i2, i3, i4, i5, i6, i7,
          asm8 _ _ _ _ _ _ _ _ hx b1.toNat_lt b2.toNat_lt b3.toNat_lt b4.toNat_lt b5.toNat_lt b6.toNat_lt b7.toNat_lt]

theorem consumeVarintInt64_refines (b : Bytes) :
    Generated.Quicwire.ConsumeVarintInt64 b = .ok (consumeVarintInt64 b) := by
  unfold Generated.Quicwire.ConsumeVarintInt64 consumeVarintInt64
  rw [consumeVarint_refines]
  rfl

/-! ## `SizeVarint`, `AppendVarint` -/

theorem sizeVarint_refines (v : Nat) :
    Generated.Quicwire.SizeVarint v = Res.map (fun n : Nat => (n : Int)) (sizeVarint v) := by
  unfold Generated.Quicwire.SizeVarint sizeVarint
  by_cases h1 : v ≤ 63
  · simp [h1, Res.map]
  · by_cases h2 : v ≤ 16383
    · simp [h1, h2, Res.map]
    · by_cases h3 : v ≤ 1073741823
      · simp [h1, h2, h3, Res.map]
      · by_cases h4 : v ≤ 4611686018427387903
        · simp [h1, h2, h3, h4, Res.map]
        · simp [h1, h2, h3, h4, Res.map]

theorem ofNat_congr {a b : Nat} (h : a % 256 = b % 256) : UInt8.ofNat a = UInt8.ofNat b := by
  apply UInt8.toNat_inj.mp
  simp [UInt8.toNat_ofNat', h]

theorem ofNat_u8 (a : Nat) : UInt8.ofNat (Go.u8 a) = UInt8.ofNat a := ofNat_congr (by unfold Go.u8; omega)

/-- `byte(v >> k)` as a byte value: the division form the model uses -/
theorem u8_shr (v k : Nat) : UInt8.ofNat (Go.u8 (Go.shr v k)) = UInt8.ofNat (v / 2 ^ k) := by
  rw [ofNat_u8]; unfold Go.shr; rw [Nat.shiftRight_eq_div_pow]

theorem ofNat_shr (v k : Nat) : UInt8.ofNat (Go.shr v k) = UInt8.ofNat (v / 2 ^ k) := by
  unfold Go.shr; rw [Nat.shiftRight_eq_div_pow]

/-- `(tag<<6) | byte(x)`: an addition, because `byte(x)` is below 64 here -/
theorem tag_or (t x : Nat) (ht : t < 4) (hx : x < 64) : Go.bor (Go.shl8 t 6) x = t * 64 + x := by
  unfold Go.bor Go.shl8
  have h1 : (t <<< 6) % 256 = t <<< 6 := by
    apply Nat.mod_eq_of_lt; rw [Nat.shiftLeft_eq]; omega
  rw [h1, ← Nat.shiftLeft_add_eq_or_of_lt (by omega : x < 2 ^ 6), Nat.shiftLeft_eq]

theorem lead_byte (t v k : Nat) (ht : t < 4) (hv : v / 2 ^ k < 64) :
    UInt8.ofNat (Go.bor (Go.shl8 t 6) (Go.u8 (Go.shr v k))) = UInt8.ofNat (t * 64 + v / 2 ^ k % 256) := by
  have hs : Go.u8 (Go.shr v k) = v / 2 ^ k := by
    unfold Go.u8 Go.shr; rw [Nat.shiftRight_eq_div_pow]
    generalize v / 2 ^ k = q at hv ⊢; omega
  rw [hs, tag_or t _ ht hv]
  apply ofNat_congr
  generalize v / 2 ^ k = q at hv ⊢; omega

theorem appendVarint_refines (b : Bytes) (v : Nat) :
    Generated.Quicwire.AppendVarint b v = appendVarint b v := by
  unfold Generated.Quicwire.AppendVarint appendVarint encode
  by_cases h1 : v ≤ 63
  · have h4 : v ≤ 4611686018427387903 := by omega
    simp [h1, h4, Go.appendBytes, ofNat_u8]
  · by_cases h2 : v ≤ 16383
    · have h4 : v ≤ 4611686018427387903 := by omega
      have e := lead_byte 1 v 8 (by omega) (by omega)
      simp only [h1, h2, h4, ite_true, ite_false, Go.appendBytes, List.map_cons, List.map_nil, e, ofNat_u8, ofNat_shr]
    · by_cases h3 : v ≤ 1073741823
      · have h4 : v ≤ 4611686018427387903 := by omega
        have e := lead_byte 2 v 24 (by omega) (by omega)
        simp only [h1, h2, h3, h4, ite_true, ite_false, Go.appendBytes, List.map_cons, List.map_nil, e, ofNat_u8, ofNat_shr]
      · by_cases h4 : v ≤ 4611686018427387903
        · have e := lead_byte 3 v 56 (by omega) (by omega)
          simp only [h1, h2, h3, h4, ite_true, ite_false, Go.appendBytes, List.map_cons, List.map_nil, e, ofNat_u8, ofNat_shr]
        · simp [h1, h2, h3, h4]

/-! ## fixed-width readers -/

theorem consumeUint32_refines (b : Bytes) :
    Generated.Quicwire.ConsumeUint32 b = .ok (consumeUint32 b) := by
  unfold Generated.Quicwire.ConsumeUint32 Go.beUint32
  match b with
  | [] => simp [Go.len, consumeUint32]
  | [_] => simp [Go.len, consumeUint32]
  | [_, _] => simp [Go.len, consumeUint32]
  | [_, _, _] => simp [Go.len, consumeUint32]
  | b0 :: b1 :: b2 :: b3 :: r =>
    have h4 : ¬ (Go.len (b0 :: b1 :: b2 :: b3 :: r) < 4) := by simp [Go.len]; omega
    simp [h4, consumeUint32, beNat]
    rw [if_neg (by omega)]; rfl

theorem consumeUint64_refines (b : Bytes) :
    Generated.Quicwire.ConsumeUint64 b = .ok (consumeUint64 b) := by
  unfold Generated.Quicwire.ConsumeUint64 Go.beUint64
  match b with
  | [] => simp [Go.len, consumeUint64]
  | [_] => simp [Go.len, consumeUint64]
  | [_, _] => simp [Go.len, consumeUint64]
  | [_, _, _] => simp [Go.len, consumeUint64]
  | [_, _, _, _] => simp [Go.len, consumeUint64]
  | [_, _, _, _, _] => simp [Go.len, consumeUint64]
  | [_, _, _, _, _, _] => simp [Go.len, consumeUint64]
  | [_, _, _, _, _, _, _] => simp [Go.len, consumeUint64]
  | b0 :: b1 :: b2 :: b3 :: b4 :: b5 :: b6 :: b7 :: r =>
    have h8 : ¬ (Go.len (b0 :: b1 :: b2 :: b3 :: b4 :: b5 :: b6 :: b7 :: r) < 8) := by simp [Go.len]; omega
    simp [h8, consumeUint64, beNat]
    rw [if_neg (by omega)]; rfl

/-! ## length-prefixed byte strings -/

theorem sliceFrom_eq (b : Bytes) (n : Nat) (h : n ≤ b.length) : Go.sliceFrom b (n : Int) = .ok (b.drop n) := by
  unfold Go.sliceFrom
  have : ¬ ((n : Int) < 0 ∨ (n : Int) > (b.length : Int)) := by omega
  simp [this, h]

theorem sliceTo_eq (b : Bytes) (n : Nat) (h : n ≤ b.length) : Go.sliceTo b (n : Int) = .ok (b.take n) := by
  unfold Go.sliceTo
  have : ¬ ((n : Int) < 0 ∨ (n : Int) > (b.length : Int)) := by omega
  simp [this, h]

theorem consumeUint8Bytes_refines (b : Bytes) :
    Generated.Quicwire.ConsumeUint8Bytes b = consumeUint8Bytes b := by
  unfold Generated.Quicwire.ConsumeUint8Bytes consumeUint8Bytes
  cases b with
  | nil => simp [Go.len]
  | cons b0 r =>
    have hlen : ¬ (Go.len (b0 :: r) < 1) := by simp [Go.len]; omega
    have i0 : Go.idx (b0 :: r) 0 = .ok b0.toNat := idx_nat _ 0 b0 rfl
    have s1 : Go.sliceFrom (b0 :: r) (1 : Int) = .ok r := by
      have := sliceFrom_eq (b0 :: r) 1 (by simp)
      simpa using this
    have m1 : slice (b0 :: r) 1 (b0 :: r).length = .ok r := by
      have := slice_from (b0 :: r) 1 (by simp)
      simpa using this
    simp only [hlen, ite_false, i0, Res.bind_ok, s1, m1]
    by_cases hs : b0.toNat > r.length
    · have : (b0.toNat : Int) > Go.len r := by unfold Go.len; omega
      simp [hs, this]
    · have h' : ¬ ((b0.toNat : Int) > Go.len r) := by unfold Go.len; omega
      have s2 : Go.sliceTo r (b0.toNat : Int) = .ok (r.take b0.toNat) := sliceTo_eq r _ (by omega)
      have m2 : slice r 0 b0.toNat = .ok (r.take b0.toNat) := slice_to r _ (by omega)
      simp [hs, h', s2, m2]

theorem appendUint8Bytes_refines (b v : Bytes) :
    Generated.Quicwire.AppendUint8Bytes b v = appendUint8Bytes b v := by
  unfold Generated.Quicwire.AppendUint8Bytes appendUint8Bytes
  by_cases h : v.length > 255
  · have : Go.len v > (0xff : Int) := by unfold Go.len; omega
    simp [h, this]
  · have h' : ¬ (Go.len v > (0xff : Int)) := by unfold Go.len; omega
    simp [h, h', Go.appendBytes, Go.len, ofNat_u8]
    omega

theorem consumeVarintBytes_refines (b : Bytes) :
    Generated.Quicwire.ConsumeVarintBytes b = consumeVarintBytes b := by
  unfold Generated.Quicwire.ConsumeVarintBytes consumeVarintBytes
  rw [consumeVarint_refines]
  simp only [Res.bind_ok]
  by_cases hn : (consumeVarint b).2 < 0
  · simp [hn]
  · simp only [hn, ite_false]
    by_cases hl : (consumeVarint b).2.toNat ≤ b.length
    · have e : ((consumeVarint b).2.toNat : Int) = (consumeVarint b).2 := by omega
      have s1 : Go.sliceFrom b (consumeVarint b).2 = .ok (b.drop (consumeVarint b).2.toNat) := by
        rw [← e]; exact sliceFrom_eq b _ hl
      have m1 := slice_from b _ hl
      simp only [s1, m1, Res.bind_ok]
      by_cases hs : (consumeVarint b).1 > (b.drop (consumeVarint b).2.toNat).length
      · have : (consumeVarint b).1 > Int.toNat (Go.len (b.drop (consumeVarint b).2.toNat)) := by unfold Go.len; omega
        rw [if_pos this, if_pos hs]
      · have h' : ¬ ((consumeVarint b).1 > Int.toNat (Go.len (b.drop (consumeVarint b).2.toNat))) := by unfold Go.len; omega
        have s2 := sliceTo_eq (b.drop (consumeVarint b).2.toNat) (consumeVarint b).1 (by omega)
        have m2 := slice_to (b.drop (consumeVarint b).2.toNat) (consumeVarint b).1 (by omega)
        rw [if_neg h', if_neg hs, s2, m2]
    · have s1 : Go.sliceFrom b (consumeVarint b).2 = .panic := by
        unfold Go.sliceFrom
        have : (consumeVarint b).2 < 0 ∨ (consumeVarint b).2 > (b.length : Int) := by omega
        simp [this]
      have m1 : slice b (consumeVarint b).2.toNat b.length = .panic := by
        unfold slice; simp [hl]
      simp [s1, m1]

theorem appendVarintBytes_refines (b v : Bytes) :
    Generated.Quicwire.AppendVarintBytes b v = appendVarintBytes b v := by
  unfold Generated.Quicwire.AppendVarintBytes appendVarintBytes
  rw [appendVarint_refines]
  simp [Go.len]

end PatVerif.Proofs.QuicwireRefine
