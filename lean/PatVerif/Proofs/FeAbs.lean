import PatVerif.Proofs.FeMisc
import PatVerif.Proofs.FeBytes
/-! `Absolute` of the translated field code. -/
namespace PatVerif.Proofs.FeAbs
open PatVerif PatVerif.Generated PatVerif.Generated.FeLimbs PatVerif.Proofs.FeHelp PatVerif.Proofs.FeCarry PatVerif.Proofs.FeMisc PatVerif.Proofs.FeBytes

/-- `Absolute`: the element itself when its residue is even, its negation when it is odd; loose either way -/
theorem Absolute_spec (v u : Element) (hu : Loose u) :
    Loose (Absolute v u) ∧
    (if val u % P % 2 = 1 then (val (Absolute v u) + val u) % P = 0 else Absolute v u = u) := by
  have hneg := IsNegative_spec u hu.word
  obtain ⟨nt, nv⟩ := Negate_spec ⟨0, 0, 0, 0, 0⟩ u hu
  simp only [Absolute]
  rw [hneg]
  by_cases h : val u % P % 2 = 1
  · rw [h, Select_one _ _ _ nt.loose.word]
    simp only [if_true]
    exact ⟨nt.loose, nv⟩
  · have h0 : val u % P % 2 = 0 := by omega
    rw [h0, Select_zero _ _ _ hu.word]
    simp only [if_neg (by omega : ¬ (0 = 1))]
    exact ⟨hu, trivial⟩

/-- the result of `Absolute` is never negative -/
theorem Absolute_nonneg (v u : Element) (hu : Loose u) : IsNegative (Absolute v u) = 0 := by
  obtain ⟨hl, hs⟩ := Absolute_spec v u hu
  rw [IsNegative_spec _ hl.word]
  by_cases h : val u % P % 2 = 1
  · rw [if_pos h] at hs
    -- r ≡ -u, u odd and below p, p odd: r is even
    have hp : P % 2 = 1 := by decide
    have hu' : val u % P < P := Nat.mod_lt _ (by decide)
    have hr' : val (Absolute v u) % P < P := Nat.mod_lt _ (by decide)
    have : (val (Absolute v u) % P + val u % P) % P = 0 := by rw [← Nat.add_mod]; exact hs
    have hsum : val (Absolute v u) % P + val u % P = P := by
      have h2 : val (Absolute v u) % P + val u % P < 2 * P := by omega
      have hpos : 0 < val u % P := by omega
      rcases Nat.lt_or_ge (val (Absolute v u) % P + val u % P) P with hlt | hge
      · rw [Nat.mod_eq_of_lt hlt] at this; omega
      · have := Nat.mod_eq_sub_mod hge ▸ this
        rw [Nat.mod_eq_of_lt (by omega)] at this
        omega
    omega
  · rw [if_neg h] at hs
    rw [hs]; omega
end PatVerif.Proofs.FeAbs
