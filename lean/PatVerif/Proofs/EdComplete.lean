import Mathlib.NumberTheory.LegendreSymbol.Basic
import Mathlib.Tactic.ReduceModChar
import Mathlib.Tactic.LinearCombination
import Mathlib.Tactic.FieldSimp
import PatVerif.Proofs.FeInv
/-! The twisted-Edwards addition law of edwards25519 is complete: d is not a square modulo p (Euler's criterion, evaluated), −1 is
(sqrtM1² = −1), hence for any two points of the curve neither denominator of the law vanishes (Bernstein–Birkner–Joye–Lange–Peters,
"Twisted Edwards curves", §6). Together with `Point_Add_affine` the translated `Point.Add` computes the affine sum of any two
curve points. -/
namespace PatVerif.Proofs.EdComplete
open PatVerif PatVerif.Generated PatVerif.Generated.FeLimbs PatVerif.Generated.EdPoints PatVerif.Proofs.FeHelp PatVerif.Proofs.FeField
  PatVerif.Proofs.EdPoints PatVerif.Proofs.FeInv

theorem dF_ne_zero : dF ≠ 0 := by
  intro h
  have := dF_def
  rw [h, zero_mul] at this
  have h2 : ((121665 : ℕ) : F) = 0 := by push_cast; linear_combination this
  rw [ZMod.natCast_eq_zero_iff] at h2
  exact absurd (Nat.le_of_dvd (by decide) h2) (by decide)

theorem d_pow : (37095705934669439343138083508754565189542113879843219016388785533085940283555 : ZMod 57896044618658097711785492504343953926634992332820282019728792003956564819949) ^ 28948022309329048855892746252171976963317496166410141009864396001978282409974 = 57896044618658097711785492504343953926634992332820282019728792003956564819948 := by
  reduce_mod_char

theorem pm1 : (57896044618658097711785492504343953926634992332820282019728792003956564819948 : ZMod 57896044618658097711785492504343953926634992332820282019728792003956564819949) = -1 := by
  reduce_mod_char

/-- d is not a square modulo p -/
theorem dF_not_square : ¬ IsSquare dF := by
  rw [ZMod.euler_criterion P dF_ne_zero]
  have e : dF ^ (P / 2) = -1 := by
    have : P / 2 = 28948022309329048855892746252171976963317496166410141009864396001978282409974 := by decide
    rw [this]
    have h := d_pow
    rw [pm1] at h
    simp only [dF, Nat.cast_ofNat]
    exact h
  rw [e]
  intro h
  have h2 : ((2 : ℕ) : F) = 0 := by push_cast; linear_combination (-1 : F) * h
  rw [ZMod.natCast_eq_zero_iff] at h2
  exact absurd (Nat.le_of_dvd (by decide) h2) (by decide)

theorem two_ne_zero' : (2 : F) ≠ 0 := by
  intro h
  have h2 : ((2 : ℕ) : F) = 0 := by push_cast; exact h
  rw [ZMod.natCast_eq_zero_iff] at h2
  exact absurd (Nat.le_of_dvd (by decide) h2) (by decide)

/-- the heart of completeness: on the curve, d·x₁x₂y₁y₂ is never ±1 (else d would be a square) -/
theorem eps_sq_ne_one (x1 y1 x2 y2 : F) (h1 : y1 * y1 - x1 * x1 = 1 + dF * x1 * x1 * y1 * y1)
    (h2 : y2 * y2 - x2 * x2 = 1 + dF * x2 * x2 * y2 * y2) :
    (dF * x1 * x2 * y1 * y2) * (dF * x1 * x2 * y1 * y2) ≠ 1 := by
  intro he
  set ε := dF * x1 * x2 * y1 * y2 with hε
  set i := fv sqrtM1 with hi
  have ii : i * i = -1 := sqrtM1_sq
  have hx1 : x1 ≠ 0 := by rintro rfl; simp [hε] at he
  have hy1 : y1 ≠ 0 := by rintro rfl; simp [hε] at he
  have hx2 : x2 ≠ 0 := by rintro rfl; simp [hε] at he
  have hy2 : y2 ≠ 0 := by rintro rfl; simp [hε] at he
  have kp : (i * x1 + ε * y1) * (i * x1 + ε * y1) = dF * (x1 * y1 * (i * x2 + y2)) * (x1 * y1 * (i * x2 + y2)) := by
    linear_combination (x1 * x1 - dF * x1 * x1 * y1 * y1 * x2 * x2) * ii + (2 * i * x1 * y1 + ε + dF * x1 * x2 * y1 * y2) * hε + (y1 * y1 - 1) * he + h1 - (dF * x1 * x1 * y1 * y1) * h2
  have km : (i * x1 - ε * y1) * (i * x1 - ε * y1) = dF * (x1 * y1 * (i * x2 - y2)) * (x1 * y1 * (i * x2 - y2)) := by
    linear_combination (x1 * x1 - dF * x1 * x1 * y1 * y1 * x2 * x2) * ii + (-(2 * i * x1 * y1) + ε + dF * x1 * x2 * y1 * y2) * hε + (y1 * y1 - 1) * he + h1 - (dF * x1 * x1 * y1 * y1) * h2
  by_cases hp : i * x2 + y2 = 0
  · by_cases hm : i * x2 - y2 = 0
    · have : 2 * y2 = 0 := by linear_combination hp - hm
      rcases mul_eq_zero.1 this with h | h
      · exact two_ne_zero' h
      · exact hy2 h
    · apply dF_not_square
      have hden : x1 * y1 * (i * x2 - y2) ≠ 0 := mul_ne_zero (mul_ne_zero hx1 hy1) hm
      refine ⟨(i * x1 - ε * y1) / (x1 * y1 * (i * x2 - y2)), ?_⟩
      field_simp
      linear_combination (-1 : F) * km
  · apply dF_not_square
    have hden : x1 * y1 * (i * x2 + y2) ≠ 0 := mul_ne_zero (mul_ne_zero hx1 hy1) hp
    refine ⟨(i * x1 + ε * y1) / (x1 * y1 * (i * x2 + y2)), ?_⟩
    field_simp
    linear_combination (-1 : F) * kp

/-- completeness: for any two points of the curve neither denominator of the addition law vanishes -/
theorem denominators_ne_zero (x1 y1 x2 y2 : F) (h1 : y1 * y1 - x1 * x1 = 1 + dF * x1 * x1 * y1 * y1)
    (h2 : y2 * y2 - x2 * x2 = 1 + dF * x2 * x2 * y2 * y2) :
    1 + dF * x1 * x2 * y1 * y2 ≠ 0 ∧ 1 - dF * x1 * x2 * y1 * y2 ≠ 0 := by
  have h := eps_sq_ne_one x1 y1 x2 y2 h1 h2
  constructor
  · intro e; apply h; linear_combination (dF * x1 * x2 * y1 * y2 - 1) * e
  · intro e; apply h; linear_combination (-(dF * x1 * x2 * y1 * y2) - 1) * e

theorem frac_curve (p q A B d : F) (hA : A ≠ 0) (hB : B ≠ 0)
    (h : p * p * (A * A) - q * q * (B * B) = A * A * (B * B) + d * q * q * p * p) :
    (p / B) * (p / B) - (q / A) * (q / A) = 1 + d * (q / A) * (q / A) * (p / B) * (p / B) := by
  field_simp
  linear_combination h

/-- closure: the affine sum of two curve points lies on the curve (certificate computed with sympy, checked here) -/
theorem sum_on_curve (x1 y1 x2 y2 : F) (h1 : y1 * y1 - x1 * x1 = 1 + dF * x1 * x1 * y1 * y1)
    (h2 : y2 * y2 - x2 * x2 = 1 + dF * x2 * x2 * y2 * y2) :
    let x3 := (x1 * y2 + y1 * x2) / (1 + dF * x1 * x2 * y1 * y2)
    let y3 := (y1 * y2 + x1 * x2) / (1 - dF * x1 * x2 * y1 * y2)
    y3 * y3 - x3 * x3 = 1 + dF * x3 * x3 * y3 * y3 := by
  obtain ⟨hp, hm⟩ := denominators_ne_zero x1 y1 x2 y2 h1 h2
  intro x3 y3
  simp only [x3, y3]
  apply frac_curve _ _ _ _ _ hp hm
  linear_combination (dF^3*x1^2*x2^4*y1^2*y2^4 - dF^2*x1^2*x2^4*y2^4 + dF^2*x2^4*y1^2*y2^4 - dF^2*x2^4*y2^4 - dF*x1^2*x2^4*y2^2 + dF*x1^2*x2^2*y2^4 + dF*x2^4*y1^2*y2^2 - 2*dF*x2^4*y2^4 - dF*x2^2*y1^2*y2^4 - 2*dF*x2^2*y2^2 - 2*x2^4*y2^2 + x2^4 + 2*x2^2*y2^4 - 4*x2^2*y2^2 + y2^4) * h1 + (dF*x1^4*x2^2*y2^2 + 2*dF*x1^2*x2^2*y2^2 + dF*x2^2*y1^4*y2^2 - 2*dF*x2^2*y1^2*y2^2 + dF*x2^2*y2^2 + 2*x1^2*x2^2*y2^2 - x1^2*x2^2 + x1^2*y2^2 - 2*x2^2*y1^2*y2^2 + x2^2*y1^2 + 2*x2^2*y2^2 - x2^2 - y1^2*y2^2 + y2^2 + 1) * h2

/-- the curve −x² + y² = 1 + d x²y² -/
def OnCurve (x y : F) : Prop := y * y - x * x = 1 + dF * x * x * y * y

/-- a usable point in extended coordinates: limbs inside the element invariant, Z ≠ 0, T = XY/Z, and the affine point on the curve -/
def Valid (p : Point) : Prop :=
  LooseP p ∧ fv p.z ≠ 0 ∧ fv p.t * fv p.z = fv p.x * fv p.y ∧ OnCurve (fv p.x / fv p.z) (fv p.y / fv p.z)

/-- the affine twisted-Edwards sum -/
def edAdd (P Q : F × F) : F × F :=
  ((P.1 * Q.2 + P.2 * Q.1) / (1 + dF * P.1 * Q.1 * P.2 * Q.2), (P.2 * Q.2 + P.1 * Q.1) / (1 - dF * P.1 * Q.1 * P.2 * Q.2))

def affine (p : Point) : F × F := (fv p.x / fv p.z, fv p.y / fv p.z)

/-- whatever `Point.SetBytes` accepts is a valid point -/
theorem Valid_SetBytes (v : Point) (x : List Nat) (hl : x.length = 32) (hx : ∀ i, i < 32 → x.getD i 0 < 256) (P : Point)
    (h : Point_SetBytes v x = some P) : Valid P := by
  obtain ⟨lp, hz, ht, hc, _⟩ := EdDecode.Point_SetBytes_spec v x hl hx P h
  refine ⟨lp, by rw [hz]; exact one_ne_zero, by rw [hz, ht]; ring, ?_⟩
  simp only [OnCurve, hz, div_one]
  linear_combination hc

/-- **`Point.Add` is the group law's formula on valid points**: the sum of two valid points is valid, and its affine coordinates are
the twisted-Edwards sum of the operands' affine coordinates — no side condition left (the law is complete because d is a
non-square, `denominators_ne_zero`) -/
theorem Valid_Add (v p q : Point) (hp : Valid p) (hq : Valid q) :
    Valid (Point_Add v p q) ∧ affine (Point_Add v p q) = edAdd (affine p) (affine q) := by
  obtain ⟨lp, zp, tp, cp⟩ := hp
  obtain ⟨lq, zq, tq, cq⟩ := hq
  obtain ⟨hd1, hd2⟩ := denominators_ne_zero _ _ _ _ cp cq
  obtain ⟨hz, ex, ey⟩ := Point_Add_affine v p q lp lq zp zq tp tq hd1 hd2
  obtain ⟨lr, _, _, _, _⟩ := Point_Add_spec v p q lp lq
  have hx1 : fv p.x = fv p.x / fv p.z * fv p.z := by field_simp
  have hy1 : fv p.y = fv p.y / fv p.z * fv p.z := by field_simp
  have hx2 : fv q.x = fv q.x / fv q.z * fv q.z := by field_simp
  have hy2 : fv q.y = fv q.y / fv q.z * fv q.z := by field_simp
  have ht1 : fv p.t = fv p.x / fv p.z * (fv p.y / fv p.z) * fv p.z := by
    have : fv p.t = fv p.x * fv p.y / fv p.z := by field_simp; exact tp
    rw [this]; field_simp
  have ht2 : fv q.t = fv q.x / fv q.z * (fv q.y / fv q.z) * fv q.z := by
    have : fv q.t = fv q.x * fv q.y / fv q.z := by field_simp; exact tq
    rw [this]; field_simp
  obtain ⟨_, _, htz⟩ := Point_Add_law v p q lp lq _ _ _ _ hx1 hy1 ht1 hx2 hy2 ht2
  refine ⟨⟨lr, hz, htz, ?_⟩, ?_⟩
  · rw [ex, ey]; exact sum_on_curve _ _ _ _ cp cq
  · simp only [affine, edAdd]; rw [ex, ey]

/-- negation keeps validity and negates the affine x-coordinate -/
theorem Valid_Negate (v p : Point) (hp : Valid p) :
    Valid (Point_Negate v p) ∧ affine (Point_Negate v p) = (-(affine p).1, (affine p).2) := by
  obtain ⟨lp, zp, tp, cp⟩ := hp
  obtain ⟨lr, ex, ey, ez, et⟩ := Point_Negate_spec v p lp
  refine ⟨⟨lr, by rw [ez]; exact zp, by rw [et, ez, ex, ey]; linear_combination (-1 : F) * tp, ?_⟩, ?_⟩
  · rw [ex, ey, ez, neg_div]; simp only [OnCurve] at cp ⊢; linear_combination cp
  · simp only [affine]; rw [ex, ey, ez, neg_div]
end PatVerif.Proofs.EdComplete
