import PatVerif.Proofs.ScalarGlue
/-!
# The base point has order dividing L, by running the proved `ScalarMult` in the kernel (C14)

`Proofs/ScalarMultRefine.scalarMult_correct` says that recoding followed by the literal `ScalarMult` loop over the translated formulas
returns a valid point standing for `x • g`. Run on the 32 bytes of the group order `L` and the decoded generator, the kernel
evaluates that loop (`decide +kernel`: 64 digits, 252 doublings, 64 additions over the translated limb code) to a point with
`X = 0` (the non-canonical zero `p`), `Y = Z`, `T = 0` — the neutral element. Hence **`L • B = 0` in the curve group**, with no appeal to
anything outside the model: the computation is the Go code's own, as translated. Consequences: scalars may be reduced modulo `L`
(`smul_mod_L`), and the verification equation holds for every honestly computed signature (`sign_verify_on_curve`):
`S = (r + k·s) mod L` gives `S • B + k • (−(s • B)) = r • B`, the point `VarTimeDoubleScalarBaseMult(k, −A, S)` is compared with `R`.
-/
namespace PatVerif.Proofs.BaseOrder
open PatVerif PatVerif.Generated PatVerif.Generated.FeLimbs PatVerif.Generated.EdPoints PatVerif.Proofs.FeHelp PatVerif.Proofs.FeField
  PatVerif.Proofs.EdComplete PatVerif.Proofs.EdGroup PatVerif.Proofs.EdRepr PatVerif.Model.Recode PatVerif.Model.ScalarMultLit
  PatVerif.Proofs.ScalarBaseMultRefine

/-- the group order, little-endian -/
def Lbytes : List Nat :=
  [0xed, 0xd3, 0xf5, 0x5c, 0x1a, 0x63, 0x12, 0x58, 0xd6, 0x9c, 0xf7, 0xa2, 0xde, 0xf9, 0xde, 0x14, 0, 0, 0, 0, 0, 0, 0, 0, 0, 0, 0, 0, 0, 0, 0, 0x10]

theorem Lbytes_value : ((leNat Lbytes : Nat) : Int) = Proofs.ScHelp.L := by decide

def dsL : List Int :=
  [-3, -1, 4, -3, 6, -1, -3, 6, -6, 2, 3, 6, 2, 1, -8, 6, 6, -3, -3, -6, -8, 0, 3, -6, -1, -2, -6, 0, -1, -2, 5, 1, 0, 0,
   0, 0, 0, 0, 0, 0, 0, 0, 0, 0, 0, 0, 0, 0, 0, 0, 0, 0, 0, 0, 0, 0, 0, 0, 0, 0, 0, 0, 0, 1]

theorem recode_L : signedRadix16 Lbytes = some dsL := by decide +kernel

def yL : Element := ⟨796798904519523, 1277898083658141, 716394274122884, 1560173807957365, 2216092759772203⟩

/-- `ScalarMult(L, generator)`, evaluated by the kernel on the translated limb code -/
theorem mult_L : scalarMult dsL generatorPoint = ⟨fePZero, yL, yL, fePZero⟩ := by decide +kernel

/-- **the base point has order dividing L** -/
theorem order_B : Proofs.ScHelp.L • basePoint = 0 := by
  obtain ⟨ds, e, r⟩ := Proofs.ScalarMultRefine.scalarMult_correct Lbytes (by decide) _ _ generator_repr
  rw [recode_L] at e
  cases e
  rw [generator_eq, mult_L, Lbytes_value] at r
  obtain ⟨⟨_, hz, _, _⟩, ha⟩ := r
  apply EdPoint.ext
  rw [← ha, EdPoint.zero_val]
  simp only [affine]
  rw [fv_fePZero, zero_div, div_self hz]

/-- scalars act modulo L on multiples of the base point -/
theorem smul_mod_L (x : Int) : (x % Proofs.ScHelp.L) • basePoint = x • basePoint := by
  conv_rhs => rw [← Int.emod_add_mul_ediv x Proofs.ScHelp.L]
  rw [add_smul, mul_smul, smul_comm, order_B, smul_zero, add_zero]

/-- **the verification equation of an honest signature** holds in the curve group: with `A = s • B`, `R = r • B` and
`S = (r + k·s) mod L`, the point `S • B + k • (−A)` that `Verify` computes is `R` -/
theorem sign_verify_on_curve (r k s : Int) :
    ((r + k * s) % Proofs.ScHelp.L) • basePoint + k • (-(s • basePoint)) = r • basePoint := by
  rw [smul_mod_L, add_smul, mul_smul, smul_neg]
  abel

/-- **unblinding inverts blinding** on multiples of the base point (C15): if `b · b' ≡ 1 (mod L)` then `b' • (b • A) = A` for `A = s • B` —
the group-level content of `UnblindPublicKey(BlindPublicKey(pk))= pk`, where `b'` is what `ModInverse` returns -/
theorem unblind_blind_on_curve (b b' s : Int) (h : (b * b') % Proofs.ScHelp.L = 1) :
    b' • (b • (s • basePoint)) = s • basePoint := by
  have e : b * b' = 1 + Proofs.ScHelp.L * (b * b' / Proofs.ScHelp.L) := by
    have := Int.emod_add_mul_ediv (b * b') Proofs.ScHelp.L
    rw [h] at this; exact this.symm
  rw [smul_smul, smul_smul, Int.mul_comm b' b, e, add_mul, one_mul, add_smul, Int.mul_assoc, mul_smul, smul_comm, order_B, smul_zero, add_zero]

/-- blinding twice commutes (C15) — in any commutative group, stated here for the curve -/
theorem blind_comm_on_curve (b c : Int) (g : EdPoint) : b • (c • g) = c • (b • g) := smul_comm b c g

/-- `Point.Negate` on representations -/
theorem Point_Negate_repr (v p : Point) (g : EdPoint) (hp : ReprP3 p g) : ReprP3 (Point_Negate v p) (-g) := by
  obtain ⟨vp, ap⟩ := hp
  obtain ⟨vn, an⟩ := Valid_Negate v p vp
  exact ⟨vn, by rw [an, ap]; rfl⟩

/-- **the group computation of `Verify` on the translated code**: for the scalars `k` (the hash) and `S` (the second half of the signature)
and a valid public key `A` standing for `gA`, `VarTimeDoubleScalarBaseMult(k, −A, S)` — negation by the translated `Point.Negate`, both
non-adjacent forms, the loop over the translated formulas — returns a valid point standing for `S • B − k • gA` -/
theorem verify_point_translated (k S : List Nat) (hk : PatVerif.Proofs.Recode.IsScalar k) (hS : PatVerif.Proofs.Recode.IsScalar S)
    (A : Point) (gA : EdPoint) (hA : ReprP3 A gA) :
    ∃ kn Sn R, nonAdjacentForm k 5 = some kn ∧ nonAdjacentForm S 8 = some Sn ∧
      doubleScalarMult basepointNafTable kn Sn (Point_Negate zP A) = some R ∧
      ReprP3 R ((leNat S : Int) • basePoint - (leNat k : Int) • gA) := by
  obtain ⟨kn, Sn, R, e1, e2, e3, r⟩ :=
    Proofs.DoubleScalarMultRefine.doubleScalarMult_correct k S hk hS _ _ (Point_Negate_repr zP A gA hA)
  refine ⟨kn, Sn, R, e1, e2, e3, ?_⟩
  have e : (leNat k : Int) • (-gA) + (leNat S : Int) • basePoint = (leNat S : Int) • basePoint - (leNat k : Int) • gA := by
    rw [smul_neg]; abel
  exact e ▸ r

/-- **an honest signature passes the group equation of `Verify`**: if the key stands for `s • B` and `S` encodes `(r + k·s) mod L`, the point
computed above stands for `r • B`, the group element `R = [r]B` of the signature stands for -/
theorem honest_signature_point (k S : List Nat) (hk : PatVerif.Proofs.Recode.IsScalar k) (hS : PatVerif.Proofs.Recode.IsScalar S)
    (A : Point) (s r : Int) (hA : ReprP3 A (s • basePoint))
    (hSv : ((leNat S : Nat) : Int) = (r + (leNat k : Int) * s) % Proofs.ScHelp.L) :
    ∃ kn Sn R, nonAdjacentForm k 5 = some kn ∧ nonAdjacentForm S 8 = some Sn ∧
      doubleScalarMult basepointNafTable kn Sn (Point_Negate zP A) = some R ∧ ReprP3 R (r • basePoint) := by
  obtain ⟨kn, Sn, R, e1, e2, e3, rr⟩ := verify_point_translated k S hk hS A _ hA
  refine ⟨kn, Sn, R, e1, e2, e3, ?_⟩
  have e : (leNat S : Int) • basePoint - (leNat k : Int) • s • basePoint = r • basePoint := by
    rw [hSv, ← sign_verify_on_curve r (leNat k : Int) s, smul_neg]; abel
  exact e ▸ rr

end PatVerif.Proofs.BaseOrder
