import Mathlib.NumberTheory.LucasPrimality
import Mathlib.Tactic.ReduceModChar
import Mathlib.Tactic.NormNum.Prime
/-! A Pratt certificate for p = 2^255 - 19 (written by lean/tools/pratt.py; every step is re-checked here): p and the primes of its
certificate tree pass the Lucas test. -/
namespace PatVerif.Proofs.PrimeP

theorem ne_one_of (n c : ℕ) (hc : c % n ≠ 1 % n) : ((c : ℕ) : ZMod n) ≠ 1 := by
  intro h; apply hc
  exact (ZMod.natCast_eq_natCast_iff' c 1 n).1 (by simpa using h)

theorem mem_of_dvd_prod (q : ℕ) (hq : q.Prime) (l : List ℕ) (hl : ∀ x ∈ l, x.Prime) (h : q ∣ l.prod) : q ∈ l := by
  obtain ⟨a, ha, hqa⟩ := (Prime.dvd_prod_iff hq.prime).1 h
  rwa [(Nat.prime_dvd_prime_iff_eq hq (hl a ha)).1 hqa]

theorem prime_2 : Nat.Prime 2 := Nat.prime_two

theorem prime_3 : Nat.Prime 3 := by norm_num

theorem prime_65147 : Nat.Prime 65147 := by norm_num

theorem prime_353 : Nat.Prime 353 := by norm_num

theorem prime_57467 : Nat.Prime 57467 := by norm_num

theorem prime_132049 : Nat.Prime 132049 := by norm_num

theorem prime_43 : Nat.Prime 43 := by norm_num

theorem prime_3727 : Nat.Prime 3727 := by norm_num

theorem prime_1923133 : Nat.Prime 1923133 := by
  apply lucas_primality 1923133 (2 : ZMod 1923133)
  · norm_num; reduce_mod_char
  · intro q hq hd
    have hl : ∀ x ∈ ([2, 2, 3, 43, 3727] : List ℕ), x.Prime := by
      intro x hx; simp only [List.mem_cons, List.mem_nil_iff, or_false] at hx
      rcases hx with rfl | rfl | rfl | rfl | rfl
      exacts [prime_2, prime_2, prime_3, prime_43, prime_3727]
    have hmem := mem_of_dvd_prod q hq [2, 2, 3, 43, 3727] hl (by norm_num at hd ⊢; exact hd)
    simp only [List.mem_cons, List.mem_nil_iff, or_false] at hmem
    rcases hmem with rfl | rfl | rfl | rfl | rfl
    · norm_num; reduce_mod_char
      have := ne_one_of 1923133 1923132 (by norm_num)
      simpa using this
    · norm_num; reduce_mod_char
      have := ne_one_of 1923133 1923132 (by norm_num)
      simpa using this
    · norm_num; reduce_mod_char
      have := ne_one_of 1923133 1862225 (by norm_num)
      simpa using this
    · norm_num; reduce_mod_char
      have := ne_one_of 1923133 1760861 (by norm_num)
      simpa using this
    · norm_num; reduce_mod_char
      have := ne_one_of 1923133 740012 (by norm_num)
      simpa using this

theorem prime_31 : Nat.Prime 31 := by norm_num

theorem prime_107 : Nat.Prime 107 := by norm_num

theorem prime_223 : Nat.Prime 223 := by norm_num

theorem prime_4153 : Nat.Prime 4153 := by norm_num

theorem prime_430751 : Nat.Prime 430751 := by norm_num

theorem prime_31757755568855353 : Nat.Prime 31757755568855353 := by
  apply lucas_primality 31757755568855353 (10 : ZMod 31757755568855353)
  · norm_num; reduce_mod_char
  · intro q hq hd
    have hl : ∀ x ∈ ([2, 2, 2, 3, 31, 107, 223, 4153, 430751] : List ℕ), x.Prime := by
      intro x hx; simp only [List.mem_cons, List.mem_nil_iff, or_false] at hx
      rcases hx with rfl | rfl | rfl | rfl | rfl | rfl | rfl | rfl | rfl
      exacts [prime_2, prime_2, prime_2, prime_3, prime_31, prime_107, prime_223, prime_4153, prime_430751]
    have hmem := mem_of_dvd_prod q hq [2, 2, 2, 3, 31, 107, 223, 4153, 430751] hl (by norm_num at hd ⊢; exact hd)
    simp only [List.mem_cons, List.mem_nil_iff, or_false] at hmem
    rcases hmem with rfl | rfl | rfl | rfl | rfl | rfl | rfl | rfl | rfl
    · norm_num; reduce_mod_char
      have := ne_one_of 31757755568855353 31757755568855352 (by norm_num)
      simpa using this
    · norm_num; reduce_mod_char
      have := ne_one_of 31757755568855353 31757755568855352 (by norm_num)
      simpa using this
    · norm_num; reduce_mod_char
      have := ne_one_of 31757755568855353 31757755568855352 (by norm_num)
      simpa using this
    · norm_num; reduce_mod_char
      have := ne_one_of 31757755568855353 22133410514677784 (by norm_num)
      simpa using this
    · norm_num; reduce_mod_char
      have := ne_one_of 31757755568855353 24776906756080210 (by norm_num)
      simpa using this
    · norm_num; reduce_mod_char
      have := ne_one_of 31757755568855353 30702321360579269 (by norm_num)
      simpa using this
    · norm_num; reduce_mod_char
      have := ne_one_of 31757755568855353 5141820974828509 (by norm_num)
      simpa using this
    · norm_num; reduce_mod_char
      have := ne_one_of 31757755568855353 29494927157741833 (by norm_num)
      simpa using this
    · norm_num; reduce_mod_char
      have := ne_one_of 31757755568855353 25185179080663893 (by norm_num)
      simpa using this

theorem prime_5 : Nat.Prime 5 := by norm_num

theorem prime_75707 : Nat.Prime 75707 := by norm_num

theorem prime_7 : Nat.Prime 7 := by norm_num

theorem prime_19 : Nat.Prime 19 := by norm_num

theorem prime_47 : Nat.Prime 47 := by norm_num

theorem prime_127 : Nat.Prime 127 := by norm_num

theorem prime_103 : Nat.Prime 103 := by norm_num

theorem prime_991 : Nat.Prime 991 := by norm_num

theorem prime_8574133 : Nat.Prime 8574133 := by
  apply lucas_primality 8574133 (2 : ZMod 8574133)
  · norm_num; reduce_mod_char
  · intro q hq hd
    have hl : ∀ x ∈ ([2, 2, 3, 7, 103, 991] : List ℕ), x.Prime := by
      intro x hx; simp only [List.mem_cons, List.mem_nil_iff, or_false] at hx
      rcases hx with rfl | rfl | rfl | rfl | rfl | rfl
      exacts [prime_2, prime_2, prime_3, prime_7, prime_103, prime_991]
    have hmem := mem_of_dvd_prod q hq [2, 2, 3, 7, 103, 991] hl (by norm_num at hd ⊢; exact hd)
    simp only [List.mem_cons, List.mem_nil_iff, or_false] at hmem
    rcases hmem with rfl | rfl | rfl | rfl | rfl | rfl
    · norm_num; reduce_mod_char
      have := ne_one_of 8574133 8574132 (by norm_num)
      simpa using this
    · norm_num; reduce_mod_char
      have := ne_one_of 8574133 8574132 (by norm_num)
      simpa using this
    · norm_num; reduce_mod_char
      have := ne_one_of 8574133 7079057 (by norm_num)
      simpa using this
    · norm_num; reduce_mod_char
      have := ne_one_of 8574133 7470406 (by norm_num)
      simpa using this
    · norm_num; reduce_mod_char
      have := ne_one_of 8574133 4321357 (by norm_num)
      simpa using this
    · norm_num; reduce_mod_char
      have := ne_one_of 8574133 3435729 (by norm_num)
      simpa using this

theorem prime_1919519569386763 : Nat.Prime 1919519569386763 := by
  apply lucas_primality 1919519569386763 (2 : ZMod 1919519569386763)
  · norm_num; reduce_mod_char
  · intro q hq hd
    have hl : ∀ x ∈ ([2, 3, 7, 19, 47, 47, 127, 8574133] : List ℕ), x.Prime := by
      intro x hx; simp only [List.mem_cons, List.mem_nil_iff, or_false] at hx
      rcases hx with rfl | rfl | rfl | rfl | rfl | rfl | rfl | rfl
      exacts [prime_2, prime_3, prime_7, prime_19, prime_47, prime_47, prime_127, prime_8574133]
    have hmem := mem_of_dvd_prod q hq [2, 3, 7, 19, 47, 47, 127, 8574133] hl (by norm_num at hd ⊢; exact hd)
    simp only [List.mem_cons, List.mem_nil_iff, or_false] at hmem
    rcases hmem with rfl | rfl | rfl | rfl | rfl | rfl | rfl | rfl
    · norm_num; reduce_mod_char
      have := ne_one_of 1919519569386763 1919519569386762 (by norm_num)
      simpa using this
    · norm_num; reduce_mod_char
      have := ne_one_of 1919519569386763 1786118255295340 (by norm_num)
      simpa using this
    · norm_num; reduce_mod_char
      have := ne_one_of 1919519569386763 1124719358789780 (by norm_num)
      simpa using this
    · norm_num; reduce_mod_char
      have := ne_one_of 1919519569386763 602275051902557 (by norm_num)
      simpa using this
    · norm_num; reduce_mod_char
      have := ne_one_of 1919519569386763 621931926534591 (by norm_num)
      simpa using this
    · norm_num; reduce_mod_char
      have := ne_one_of 1919519569386763 621931926534591 (by norm_num)
      simpa using this
    · norm_num; reduce_mod_char
      have := ne_one_of 1919519569386763 576774792492622 (by norm_num)
      simpa using this
    · norm_num; reduce_mod_char
      have := ne_one_of 1919519569386763 1059928654987441 (by norm_num)
      simpa using this

theorem prime_13 : Nat.Prime 13 := by norm_num

theorem prime_2437 : Nat.Prime 2437 := by norm_num

theorem prime_569003 : Nat.Prime 569003 := by norm_num

theorem prime_2773320623 : Nat.Prime 2773320623 := by
  apply lucas_primality 2773320623 (5 : ZMod 2773320623)
  · norm_num; reduce_mod_char
  · intro q hq hd
    have hl : ∀ x ∈ ([2, 2437, 569003] : List ℕ), x.Prime := by
      intro x hx; simp only [List.mem_cons, List.mem_nil_iff, or_false] at hx
      rcases hx with rfl | rfl | rfl
      exacts [prime_2, prime_2437, prime_569003]
    have hmem := mem_of_dvd_prod q hq [2, 2437, 569003] hl (by norm_num at hd ⊢; exact hd)
    simp only [List.mem_cons, List.mem_nil_iff, or_false] at hmem
    rcases hmem with rfl | rfl | rfl
    · norm_num; reduce_mod_char
      have := ne_one_of 2773320623 2773320622 (by norm_num)
      simpa using this
    · norm_num; reduce_mod_char
      have := ne_one_of 2773320623 844634197 (by norm_num)
      simpa using this
    · norm_num; reduce_mod_char
      have := ne_one_of 2773320623 2420059583 (by norm_num)
      simpa using this

theorem prime_72106336199 : Nat.Prime 72106336199 := by
  apply lucas_primality 72106336199 (7 : ZMod 72106336199)
  · norm_num; reduce_mod_char
  · intro q hq hd
    have hl : ∀ x ∈ ([2, 13, 2773320623] : List ℕ), x.Prime := by
      intro x hx; simp only [List.mem_cons, List.mem_nil_iff, or_false] at hx
      rcases hx with rfl | rfl | rfl
      exacts [prime_2, prime_13, prime_2773320623]
    have hmem := mem_of_dvd_prod q hq [2, 13, 2773320623] hl (by norm_num at hd ⊢; exact hd)
    simp only [List.mem_cons, List.mem_nil_iff, or_false] at hmem
    rcases hmem with rfl | rfl | rfl
    · norm_num; reduce_mod_char
      have := ne_one_of 72106336199 72106336198 (by norm_num)
      simpa using this
    · norm_num; reduce_mod_char
      have := ne_one_of 72106336199 58700762603 (by norm_num)
      simpa using this
    · norm_num; reduce_mod_char
      have := ne_one_of 72106336199 28357292573 (by norm_num)
      simpa using this

theorem prime_75445702479781427272750846543864801 : Nat.Prime 75445702479781427272750846543864801 := by
  apply lucas_primality 75445702479781427272750846543864801 (7 : ZMod 75445702479781427272750846543864801)
  · norm_num; reduce_mod_char
  · intro q hq hd
    have hl : ∀ x ∈ ([2, 2, 2, 2, 2, 3, 3, 5, 5, 75707, 72106336199, 1919519569386763] : List ℕ), x.Prime := by
      intro x hx; simp only [List.mem_cons, List.mem_nil_iff, or_false] at hx
      rcases hx with rfl | rfl | rfl | rfl | rfl | rfl | rfl | rfl | rfl | rfl | rfl | rfl
      exacts [prime_2, prime_2, prime_2, prime_2, prime_2, prime_3, prime_3, prime_5, prime_5, prime_75707, prime_72106336199, prime_1919519569386763]
    have hmem := mem_of_dvd_prod q hq [2, 2, 2, 2, 2, 3, 3, 5, 5, 75707, 72106336199, 1919519569386763] hl (by norm_num at hd ⊢; exact hd)
    simp only [List.mem_cons, List.mem_nil_iff, or_false] at hmem
    rcases hmem with rfl | rfl | rfl | rfl | rfl | rfl | rfl | rfl | rfl | rfl | rfl | rfl
    · norm_num; reduce_mod_char
      have := ne_one_of 75445702479781427272750846543864801 75445702479781427272750846543864800 (by norm_num)
      simpa using this
    · norm_num; reduce_mod_char
      have := ne_one_of 75445702479781427272750846543864801 75445702479781427272750846543864800 (by norm_num)
      simpa using this
    · norm_num; reduce_mod_char
      have := ne_one_of 75445702479781427272750846543864801 75445702479781427272750846543864800 (by norm_num)
      simpa using this
    · norm_num; reduce_mod_char
      have := ne_one_of 75445702479781427272750846543864801 75445702479781427272750846543864800 (by norm_num)
      simpa using this
    · norm_num; reduce_mod_char
      have := ne_one_of 75445702479781427272750846543864801 75445702479781427272750846543864800 (by norm_num)
      simpa using this
    · norm_num; reduce_mod_char
      have := ne_one_of 75445702479781427272750846543864801 17027744575660264744512945715121884 (by norm_num)
      simpa using this
    · norm_num; reduce_mod_char
      have := ne_one_of 75445702479781427272750846543864801 17027744575660264744512945715121884 (by norm_num)
      simpa using this
    · norm_num; reduce_mod_char
      have := ne_one_of 75445702479781427272750846543864801 52755092631156469601217826477970212 (by norm_num)
      simpa using this
    · norm_num; reduce_mod_char
      have := ne_one_of 75445702479781427272750846543864801 52755092631156469601217826477970212 (by norm_num)
      simpa using this
    · norm_num; reduce_mod_char
      have := ne_one_of 75445702479781427272750846543864801 57103426308028043857659793617446015 (by norm_num)
      simpa using this
    · norm_num; reduce_mod_char
      have := ne_one_of 75445702479781427272750846543864801 72344277920069036431504068385047591 (by norm_num)
      simpa using this
    · norm_num; reduce_mod_char
      have := ne_one_of 75445702479781427272750846543864801 33763476511538335360127990623883028 (by norm_num)
      simpa using this

theorem prime_74058212732561358302231226437062788676166966415465897661863160754340907 : Nat.Prime 74058212732561358302231226437062788676166966415465897661863160754340907 := by
  apply lucas_primality 74058212732561358302231226437062788676166966415465897661863160754340907 (2 : ZMod 74058212732561358302231226437062788676166966415465897661863160754340907)
  · norm_num; reduce_mod_char
  · intro q hq hd
    have hl : ∀ x ∈ ([2, 3, 353, 57467, 132049, 1923133, 31757755568855353, 75445702479781427272750846543864801] : List ℕ), x.Prime := by
      intro x hx; simp only [List.mem_cons, List.mem_nil_iff, or_false] at hx
      rcases hx with rfl | rfl | rfl | rfl | rfl | rfl | rfl | rfl
      exacts [prime_2, prime_3, prime_353, prime_57467, prime_132049, prime_1923133, prime_31757755568855353, prime_75445702479781427272750846543864801]
    have hmem := mem_of_dvd_prod q hq [2, 3, 353, 57467, 132049, 1923133, 31757755568855353, 75445702479781427272750846543864801] hl (by norm_num at hd ⊢; exact hd)
    simp only [List.mem_cons, List.mem_nil_iff, or_false] at hmem
    rcases hmem with rfl | rfl | rfl | rfl | rfl | rfl | rfl | rfl
    · norm_num; reduce_mod_char
      have := ne_one_of 74058212732561358302231226437062788676166966415465897661863160754340907 74058212732561358302231226437062788676166966415465897661863160754340906 (by norm_num)
      simpa using this
    · norm_num; reduce_mod_char
      have := ne_one_of 74058212732561358302231226437062788676166966415465897661863160754340907 30397109428614726089754189191956088611235801571633239974164411255784155 (by norm_num)
      simpa using this
    · norm_num; reduce_mod_char
      have := ne_one_of 74058212732561358302231226437062788676166966415465897661863160754340907 8562916886866218785688304546164188478888058893729309188831496247839076 (by norm_num)
      simpa using this
    · norm_num; reduce_mod_char
      have := ne_one_of 74058212732561358302231226437062788676166966415465897661863160754340907 34423717228876157273670922671787235583289084632054732964365754153055025 (by norm_num)
      simpa using this
    · norm_num; reduce_mod_char
      have := ne_one_of 74058212732561358302231226437062788676166966415465897661863160754340907 54871647690314810166557542068595163151590274869528630571075996285882505 (by norm_num)
      simpa using this
    · norm_num; reduce_mod_char
      have := ne_one_of 74058212732561358302231226437062788676166966415465897661863160754340907 52266576830164329332527201090776533817489900267135412990654516667243924 (by norm_num)
      simpa using this
    · norm_num; reduce_mod_char
      have := ne_one_of 74058212732561358302231226437062788676166966415465897661863160754340907 50366660687963342066214195241331738400016478712605795091965648721912165 (by norm_num)
      simpa using this
    · norm_num; reduce_mod_char
      have := ne_one_of 74058212732561358302231226437062788676166966415465897661863160754340907 69490809710348678725736597923071784769591275419387514694139338586948360 (by norm_num)
      simpa using this

theorem prime_57896044618658097711785492504343953926634992332820282019728792003956564819949 : Nat.Prime 57896044618658097711785492504343953926634992332820282019728792003956564819949 := by
  apply lucas_primality 57896044618658097711785492504343953926634992332820282019728792003956564819949 (2 : ZMod 57896044618658097711785492504343953926634992332820282019728792003956564819949)
  · norm_num; reduce_mod_char
  · intro q hq hd
    have hl : ∀ x ∈ ([2, 2, 3, 65147, 74058212732561358302231226437062788676166966415465897661863160754340907] : List ℕ), x.Prime := by
      intro x hx; simp only [List.mem_cons, List.mem_nil_iff, or_false] at hx
      rcases hx with rfl | rfl | rfl | rfl | rfl
      exacts [prime_2, prime_2, prime_3, prime_65147, prime_74058212732561358302231226437062788676166966415465897661863160754340907]
    have hmem := mem_of_dvd_prod q hq [2, 2, 3, 65147, 74058212732561358302231226437062788676166966415465897661863160754340907] hl (by norm_num at hd ⊢; exact hd)
    simp only [List.mem_cons, List.mem_nil_iff, or_false] at hmem
    rcases hmem with rfl | rfl | rfl | rfl | rfl
    · norm_num; reduce_mod_char
      have := ne_one_of 57896044618658097711785492504343953926634992332820282019728792003956564819949 57896044618658097711785492504343953926634992332820282019728792003956564819948 (by norm_num)
      simpa using this
    · norm_num; reduce_mod_char
      have := ne_one_of 57896044618658097711785492504343953926634992332820282019728792003956564819949 57896044618658097711785492504343953926634992332820282019728792003956564819948 (by norm_num)
      simpa using this
    · norm_num; reduce_mod_char
      have := ne_one_of 57896044618658097711785492504343953926634992332820282019728792003956564819949 25380276437079137597092236364571181010632177832931468165172742469126098314552 (by norm_num)
      simpa using this
    · norm_num; reduce_mod_char
      have := ne_one_of 57896044618658097711785492504343953926634992332820282019728792003956564819949 22602559476203468486837656474023958799180643873278202064348025470901666305470 (by norm_num)
      simpa using this
    · norm_num; reduce_mod_char
      have := ne_one_of 57896044618658097711785492504343953926634992332820282019728792003956564819949 427094198651976259540344842774561673889945192655078505504941250475370961481 (by norm_num)
      simpa using this

end PatVerif.Proofs.PrimeP
