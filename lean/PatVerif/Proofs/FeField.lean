import Mathlib.Data.ZMod.Basic
import Mathlib.Tactic.Ring
import PatVerif.Proofs.FeAbs
import PatVerif.Proofs.FePow
/-! The translated field operations seen in `ZMod p`: every arithmetic function of the package computes the corresponding ring
operation on `fv e = (val e : ZMod p)`. This is the interface the algebra above the field (square roots, point formulas) uses. -/
namespace PatVerif.Proofs.FeField
open PatVerif PatVerif.Generated PatVerif.Generated.FeLimbs PatVerif.Proofs.FeHelp PatVerif.Proofs.FeCarry PatVerif.Proofs.FeMul
  PatVerif.Proofs.FeMisc PatVerif.Proofs.FeBytes PatVerif.Proofs.FePow PatVerif.Proofs.FeAbs

abbrev F := ZMod P

/-- the field element five limbs stand for -/
def fv (e : Element) : F := (val e : F)

theorem fv_eq_iff (a b : Element) : fv a = fv b ↔ val a % P = val b % P := by
  unfold fv; exact ZMod.natCast_eq_natCast_iff' _ _ _

theorem cast_of_mod {x y : Nat} (h : x % P = y % P) : (x : F) = (y : F) := (ZMod.natCast_eq_natCast_iff' _ _ _).2 h

theorem fv_mul (v a b : Element) (ha : Loose a) (hb : Loose b) : Tight (Multiply v a b) ∧ fv (Multiply v a b) = fv a * fv b := by
  obtain ⟨t, h⟩ := Multiply_spec v a b ha hb
  exact ⟨t, by have := cast_of_mod h; simpa [fv, Nat.cast_mul] using this⟩

theorem fv_sq (v a : Element) (ha : Loose a) : Tight (Square v a) ∧ fv (Square v a) = fv a * fv a := by
  obtain ⟨t, h⟩ := Square_spec v a ha
  exact ⟨t, by have := cast_of_mod h; simpa [fv, Nat.cast_mul] using this⟩

theorem fv_add (v a b : Element) (ha : Loose a) (hb : Loose b) : Tight (FeLimbs.Add v a b) ∧ fv (FeLimbs.Add v a b) = fv a + fv b := by
  obtain ⟨t, h⟩ := Add_spec v a b ha hb
  exact ⟨t, by have := cast_of_mod h; simpa [fv, Nat.cast_add] using this⟩

theorem fv_sub (v a b : Element) (ha : Loose a) (hb : Loose b) : Tight (Subtract v a b) ∧ fv (Subtract v a b) = fv a - fv b := by
  obtain ⟨t, h⟩ := Subtract_spec v a b ha hb
  refine ⟨t, ?_⟩
  have := cast_of_mod h
  simp only [Nat.cast_add] at this
  exact eq_sub_of_add_eq this

theorem fv_neg (v a : Element) (ha : Loose a) : Tight (Negate v a) ∧ fv (Negate v a) = - fv a := by
  obtain ⟨t, h⟩ := Negate_spec v a ha
  refine ⟨t, ?_⟩
  have := cast_of_mod (x := val (Negate v a) + val a) (y := 0) (by rw [h]; rfl)
  simp only [Nat.cast_add, Nat.cast_zero] at this
  exact eq_neg_of_add_eq_zero_left this

theorem fv_mult32 (v x : Element) (y : Nat) (hx : Loose x) (hy : y < 4294967296) :
    Loose (Mult32 v x y) ∧ fv (Mult32 v x y) = fv x * (y : F) := by
  obtain ⟨t, h⟩ := Mult32_spec v x y hx hy
  exact ⟨t, by have := cast_of_mod h; simpa [fv, Nat.cast_mul] using this⟩

theorem fv_pow22523 (v x : Element) (hx : Loose x) :
    Loose (Pow22523 v x) ∧ fv (Pow22523 v x) = fv x ^ 7237005577332262213973186563042994240829374041602535252466099000494570602493 := by
  obtain ⟨t, h⟩ := Pow22523_spec v x hx
  exact ⟨t, by have := cast_of_mod h; simpa [fv, Nat.cast_pow] using this⟩

theorem fv_invert (v z : Element) (hz : Loose z) :
    Loose (Invert v z) ∧ fv (Invert v z) = fv z ^ 57896044618658097711785492504343953926634992332820282019728792003956564819947 := by
  obtain ⟨t, h⟩ := Invert_spec v z hz
  exact ⟨t, by have := cast_of_mod h; simpa [fv, Nat.cast_pow] using this⟩

theorem equal_iff (a b : Element) (ha : Word a) (hb : Word b) : Equal a b = 1 ↔ fv a = fv b := by
  rw [Equal_spec a b ha hb, fv_eq_iff]
  by_cases h : val a % P = val b % P <;> simp [h]

theorem equal_01 (a b : Element) (ha : Word a) (hb : Word b) : Equal a b = 0 ∨ Equal a b = 1 := by
  rw [Equal_spec a b ha hb]; by_cases h : val a % P = val b % P <;> simp [h]

theorem fv_abs (v u : Element) (hu : Loose u) : Loose (Absolute v u) ∧ (fv (Absolute v u) = fv u ∨ fv (Absolute v u) = - fv u) := by
  obtain ⟨l, h⟩ := Absolute_spec v u hu
  refine ⟨l, ?_⟩
  by_cases hp : val u % P % 2 = 1
  · rw [if_pos hp] at h
    right
    have := cast_of_mod (x := val (Absolute v u) + val u) (y := 0) (by rw [h]; rfl)
    simp only [Nat.cast_add, Nat.cast_zero] at this
    exact eq_neg_of_add_eq_zero_left this
  · rw [if_neg hp] at h
    left; rw [h]

theorem sqrtM1_loose : Loose sqrtM1 := by simp only [Loose, sqrtM1]; omega
theorem sqrtM1_sq : fv sqrtM1 * fv sqrtM1 = -1 := by
  have h : (val sqrtM1 * val sqrtM1 + 1) % P = 0 % P := by decide
  have := cast_of_mod h
  simp only [Nat.cast_add, Nat.cast_mul, Nat.cast_one, Nat.cast_zero] at this
  exact eq_neg_of_add_eq_zero_left this

end PatVerif.Proofs.FeField
