import PatVerif.Proofs.ScMulAddBnd
/-! Written by lean/tools/scproof.py (interval analysis of scalar.go); every bound is checked here by `omega`. -/
namespace PatVerif.Proofs.ScMulAdd
open PatVerif PatVerif.Generated.ScLimbs PatVerif.Proofs.ScHelp
set_option maxRecDepth 16384
set_option maxHeartbeats 4000000

theorem limbs12_spec (x : Nat → Int) (hx : ∀ i, 0 ≤ x i ∧ x i ≤ 255) :
    ((0 ≤ (Go.iand 21 (load3 x 0)) ∧ (Go.iand 21 (load3 x 0)) ≤ 2097151) ∧ (0 ≤ (Go.iand 21 (Go.ishr (load4 x 2) 5)) ∧ (Go.iand 21 (Go.ishr (load4 x 2) 5)) ≤ 2097151) ∧ (0 ≤ (Go.iand 21 (Go.ishr (load3 x 5) 2)) ∧ (Go.iand 21 (Go.ishr (load3 x 5) 2)) ≤ 2097151) ∧ (0 ≤ (Go.iand 21 (Go.ishr (load4 x 7) 7)) ∧ (Go.iand 21 (Go.ishr (load4 x 7) 7)) ≤ 2097151) ∧ (0 ≤ (Go.iand 21 (Go.ishr (load4 x 10) 4)) ∧ (Go.iand 21 (Go.ishr (load4 x 10) 4)) ≤ 2097151) ∧ (0 ≤ (Go.iand 21 (Go.ishr (load3 x 13) 1)) ∧ (Go.iand 21 (Go.ishr (load3 x 13) 1)) ≤ 2097151) ∧ (0 ≤ (Go.iand 21 (Go.ishr (load4 x 15) 6)) ∧ (Go.iand 21 (Go.ishr (load4 x 15) 6)) ≤ 2097151) ∧ (0 ≤ (Go.iand 21 (Go.ishr (load3 x 18) 3)) ∧ (Go.iand 21 (Go.ishr (load3 x 18) 3)) ≤ 2097151) ∧ (0 ≤ (Go.iand 21 (load3 x 21)) ∧ (Go.iand 21 (load3 x 21)) ≤ 2097151) ∧ (0 ≤ (Go.iand 21 (Go.ishr (load4 x 23) 5)) ∧ (Go.iand 21 (Go.ishr (load4 x 23) 5)) ≤ 2097151) ∧ (0 ≤ (Go.iand 21 (Go.ishr (load3 x 26) 2)) ∧ (Go.iand 21 (Go.ishr (load3 x 26) 2)) ≤ 2097151) ∧ (0 ≤ (Go.ishr (load4 x 28) 7) ∧ (Go.ishr (load4 x 28) 7) ≤ 33554431)) ∧
    ((Go.iand 21 (load3 x 0)) * 2^0 + (Go.iand 21 (Go.ishr (load4 x 2) 5)) * 2^21 + (Go.iand 21 (Go.ishr (load3 x 5) 2)) * 2^42 + (Go.iand 21 (Go.ishr (load4 x 7) 7)) * 2^63 + (Go.iand 21 (Go.ishr (load4 x 10) 4)) * 2^84 + (Go.iand 21 (Go.ishr (load3 x 13) 1)) * 2^105 + (Go.iand 21 (Go.ishr (load4 x 15) 6)) * 2^126 + (Go.iand 21 (Go.ishr (load3 x 18) 3)) * 2^147 + (Go.iand 21 (load3 x 21)) * 2^168 + (Go.iand 21 (Go.ishr (load4 x 23) 5)) * 2^189 + (Go.iand 21 (Go.ishr (load3 x 26) 2)) * 2^210 + (Go.ishr (load4 x 28) 7) * 2^231 = leFn x 32) ∧
    (load3_safe x 0 ∧ load4_safe x 2 ∧ load3_safe x 5 ∧ load4_safe x 7 ∧ load4_safe x 10 ∧ load3_safe x 13 ∧ load4_safe x 15 ∧ load3_safe x 18 ∧ load3_safe x 21 ∧ load4_safe x 23 ∧ load3_safe x 26 ∧ load4_safe x 28) := by
  have e3_0 := load3_eq x 0 (hx (0 + 0)) (hx (0 + 1)) (hx (0 + 2))
  have e4_2 := load4_eq x 2 (hx (2 + 0)) (hx (2 + 1)) (hx (2 + 2)) (hx (2 + 3))
  have e3_5 := load3_eq x 5 (hx (5 + 0)) (hx (5 + 1)) (hx (5 + 2))
  have e4_7 := load4_eq x 7 (hx (7 + 0)) (hx (7 + 1)) (hx (7 + 2)) (hx (7 + 3))
  have e4_10 := load4_eq x 10 (hx (10 + 0)) (hx (10 + 1)) (hx (10 + 2)) (hx (10 + 3))
  have e3_13 := load3_eq x 13 (hx (13 + 0)) (hx (13 + 1)) (hx (13 + 2))
  have e4_15 := load4_eq x 15 (hx (15 + 0)) (hx (15 + 1)) (hx (15 + 2)) (hx (15 + 3))
  have e3_18 := load3_eq x 18 (hx (18 + 0)) (hx (18 + 1)) (hx (18 + 2))
  have e3_21 := load3_eq x 21 (hx (21 + 0)) (hx (21 + 1)) (hx (21 + 2))
  have e4_23 := load4_eq x 23 (hx (23 + 0)) (hx (23 + 1)) (hx (23 + 2)) (hx (23 + 3))
  have e3_26 := load3_eq x 26 (hx (26 + 0)) (hx (26 + 1)) (hx (26 + 2))
  have e4_28 := load4_eq x 28 (hx (28 + 0)) (hx (28 + 1)) (hx (28 + 2)) (hx (28 + 3))
  have e3_0s := e3_0.2
  have e4_2s := e4_2.2
  have e3_5s := e3_5.2
  have e4_7s := e4_7.2
  have e4_10s := e4_10.2
  have e3_13s := e3_13.2
  have e4_15s := e4_15.2
  have e3_18s := e3_18.2
  have e3_21s := e3_21.2
  have e4_23s := e4_23.2
  have e3_26s := e3_26.2
  have e4_28s := e4_28.2
  simp only [leFn]
  simp only [e3_0.1, e4_2.1, e3_5.1, e4_7.1, e4_10.1, e3_13.1, e4_15.1, e3_18.1, e3_21.1, e4_23.1, e3_26.1, e4_28.1]
  clear e3_0 e4_2 e3_5 e4_7 e4_10 e3_13 e4_15 e3_18 e3_21 e4_23 e3_26 e4_28
  simp only [e3_0s, e4_2s, e3_5s, e4_7s, e4_10s, e3_13s, e4_15s, e3_18s, e3_21s, e4_23s, e3_26s, e4_28s, and_self, and_true]
  simp only [Go.iand, Go.ishr, Nat.reduceAdd, Nat.reduceMul]
  have b0 := hx 0
  have b1 := hx 1
  have b2 := hx 2
  have b3 := hx 3
  have b4 := hx 4
  have b5 := hx 5
  have b6 := hx 6
  have b7 := hx 7
  have b8 := hx 8
  have b9 := hx 9
  have b10 := hx 10
  have b11 := hx 11
  have b12 := hx 12
  have b13 := hx 13
  have b14 := hx 14
  have b15 := hx 15
  have b16 := hx 16
  have b17 := hx 17
  have b18 := hx 18
  have b19 := hx 19
  have b20 := hx 20
  have b21 := hx 21
  have b22 := hx 22
  have b23 := hx 23
  have b24 := hx 24
  have b25 := hx 25
  have b26 := hx 26
  have b27 := hx 27
  have b28 := hx 28
  have b29 := hx 29
  have b30 := hx 30
  have b31 := hx 31
  and_intros <;> first | trivial | omega

theorem mul_bnd (x y hx hy : Int) (x0 : 0 ≤ x) (x1 : x ≤ hx) (y0 : 0 ≤ y) (y1 : y ≤ hy) : 0 ≤ x * y ∧ x * y ≤ hx * hy :=
  ⟨Int.mul_nonneg x0 y0, Int.mul_le_mul x1 y1 y0 (Int.le_trans x0 x1)⟩

theorem scMulAdd_load_spec (a b c : Nat → Int) (ha : ∀ i, 0 ≤ a i ∧ a i ≤ 255) (hb : ∀ i, 0 ≤ b i ∧ b i ≤ 255) (hc : ∀ i, 0 ≤ c i ∧ c i ≤ 255) :
    M0 (scMulAdd_load a b c) ∧ scMulAdd_load_safe a b c ∧ val (scMulAdd_load a b c) = leFn a 32 * leFn b 32 + leFn c 32 := by
  obtain ⟨ba, sa, fa⟩ := limbs12_spec a ha
  obtain ⟨bb, sb, fb⟩ := limbs12_spec b hb
  obtain ⟨bc, sc, fc⟩ := limbs12_spec c hc
  simp only [M0, scMulAdd_load, scMulAdd_load_safe, val]
  rw [← sa, ← sb, ← sc]
  clear sa sb sc
  simp only [fa, fb, fc, true_and]
  clear fa fb fc
  generalize (Go.iand 21 (load3 a 0)) = a0 at *
  generalize (Go.iand 21 (Go.ishr (load4 a 2) 5)) = a1 at *
  generalize (Go.iand 21 (Go.ishr (load3 a 5) 2)) = a2 at *
  generalize (Go.iand 21 (Go.ishr (load4 a 7) 7)) = a3 at *
  generalize (Go.iand 21 (Go.ishr (load4 a 10) 4)) = a4 at *
  generalize (Go.iand 21 (Go.ishr (load3 a 13) 1)) = a5 at *
  generalize (Go.iand 21 (Go.ishr (load4 a 15) 6)) = a6 at *
  generalize (Go.iand 21 (Go.ishr (load3 a 18) 3)) = a7 at *
  generalize (Go.iand 21 (load3 a 21)) = a8 at *
  generalize (Go.iand 21 (Go.ishr (load4 a 23) 5)) = a9 at *
  generalize (Go.iand 21 (Go.ishr (load3 a 26) 2)) = a10 at *
  generalize (Go.ishr (load4 a 28) 7) = a11 at *
  generalize (Go.iand 21 (load3 b 0)) = b0 at *
  generalize (Go.iand 21 (Go.ishr (load4 b 2) 5)) = b1 at *
  generalize (Go.iand 21 (Go.ishr (load3 b 5) 2)) = b2 at *
  generalize (Go.iand 21 (Go.ishr (load4 b 7) 7)) = b3 at *
  generalize (Go.iand 21 (Go.ishr (load4 b 10) 4)) = b4 at *
  generalize (Go.iand 21 (Go.ishr (load3 b 13) 1)) = b5 at *
  generalize (Go.iand 21 (Go.ishr (load4 b 15) 6)) = b6 at *
  generalize (Go.iand 21 (Go.ishr (load3 b 18) 3)) = b7 at *
  generalize (Go.iand 21 (load3 b 21)) = b8 at *
  generalize (Go.iand 21 (Go.ishr (load4 b 23) 5)) = b9 at *
  generalize (Go.iand 21 (Go.ishr (load3 b 26) 2)) = b10 at *
  generalize (Go.ishr (load4 b 28) 7) = b11 at *
  generalize (Go.iand 21 (load3 c 0)) = c0 at *
  generalize (Go.iand 21 (Go.ishr (load4 c 2) 5)) = c1 at *
  generalize (Go.iand 21 (Go.ishr (load3 c 5) 2)) = c2 at *
  generalize (Go.iand 21 (Go.ishr (load4 c 7) 7)) = c3 at *
  generalize (Go.iand 21 (Go.ishr (load4 c 10) 4)) = c4 at *
  generalize (Go.iand 21 (Go.ishr (load3 c 13) 1)) = c5 at *
  generalize (Go.iand 21 (Go.ishr (load4 c 15) 6)) = c6 at *
  generalize (Go.iand 21 (Go.ishr (load3 c 18) 3)) = c7 at *
  generalize (Go.iand 21 (load3 c 21)) = c8 at *
  generalize (Go.iand 21 (Go.ishr (load4 c 23) 5)) = c9 at *
  generalize (Go.iand 21 (Go.ishr (load3 c 26) 2)) = c10 at *
  generalize (Go.ishr (load4 c 28) 7) = c11 at *
  simp only [Go.inI64]
  have p0_0 := mul_bnd a0 b0 2097151 2097151 (by omega) (by omega) (by omega) (by omega)
  have p0_1 := mul_bnd a0 b1 2097151 2097151 (by omega) (by omega) (by omega) (by omega)
  have p0_2 := mul_bnd a0 b2 2097151 2097151 (by omega) (by omega) (by omega) (by omega)
  have p0_3 := mul_bnd a0 b3 2097151 2097151 (by omega) (by omega) (by omega) (by omega)
  have p0_4 := mul_bnd a0 b4 2097151 2097151 (by omega) (by omega) (by omega) (by omega)
  have p0_5 := mul_bnd a0 b5 2097151 2097151 (by omega) (by omega) (by omega) (by omega)
  have p0_6 := mul_bnd a0 b6 2097151 2097151 (by omega) (by omega) (by omega) (by omega)
  have p0_7 := mul_bnd a0 b7 2097151 2097151 (by omega) (by omega) (by omega) (by omega)
  have p0_8 := mul_bnd a0 b8 2097151 2097151 (by omega) (by omega) (by omega) (by omega)
  have p0_9 := mul_bnd a0 b9 2097151 2097151 (by omega) (by omega) (by omega) (by omega)
  have p0_10 := mul_bnd a0 b10 2097151 2097151 (by omega) (by omega) (by omega) (by omega)
  have p0_11 := mul_bnd a0 b11 2097151 33554431 (by omega) (by omega) (by omega) (by omega)
  have p1_0 := mul_bnd a1 b0 2097151 2097151 (by omega) (by omega) (by omega) (by omega)
  have p1_1 := mul_bnd a1 b1 2097151 2097151 (by omega) (by omega) (by omega) (by omega)
  have p1_2 := mul_bnd a1 b2 2097151 2097151 (by omega) (by omega) (by omega) (by omega)
  have p1_3 := mul_bnd a1 b3 2097151 2097151 (by omega) (by omega) (by omega) (by omega)
  have p1_4 := mul_bnd a1 b4 2097151 2097151 (by omega) (by omega) (by omega) (by omega)
  have p1_5 := mul_bnd a1 b5 2097151 2097151 (by omega) (by omega) (by omega) (by omega)
  have p1_6 := mul_bnd a1 b6 2097151 2097151 (by omega) (by omega) (by omega) (by omega)
  have p1_7 := mul_bnd a1 b7 2097151 2097151 (by omega) (by omega) (by omega) (by omega)
  have p1_8 := mul_bnd a1 b8 2097151 2097151 (by omega) (by omega) (by omega) (by omega)
  have p1_9 := mul_bnd a1 b9 2097151 2097151 (by omega) (by omega) (by omega) (by omega)
  have p1_10 := mul_bnd a1 b10 2097151 2097151 (by omega) (by omega) (by omega) (by omega)
  have p1_11 := mul_bnd a1 b11 2097151 33554431 (by omega) (by omega) (by omega) (by omega)
  have p2_0 := mul_bnd a2 b0 2097151 2097151 (by omega) (by omega) (by omega) (by omega)
  have p2_1 := mul_bnd a2 b1 2097151 2097151 (by omega) (by omega) (by omega) (by omega)
  have p2_2 := mul_bnd a2 b2 2097151 2097151 (by omega) (by omega) (by omega) (by omega)
  have p2_3 := mul_bnd a2 b3 2097151 2097151 (by omega) (by omega) (by omega) (by omega)
  have p2_4 := mul_bnd a2 b4 2097151 2097151 (by omega) (by omega) (by omega) (by omega)
  have p2_5 := mul_bnd a2 b5 2097151 2097151 (by omega) (by omega) (by omega) (by omega)
  have p2_6 := mul_bnd a2 b6 2097151 2097151 (by omega) (by omega) (by omega) (by omega)
  have p2_7 := mul_bnd a2 b7 2097151 2097151 (by omega) (by omega) (by omega) (by omega)
  have p2_8 := mul_bnd a2 b8 2097151 2097151 (by omega) (by omega) (by omega) (by omega)
  have p2_9 := mul_bnd a2 b9 2097151 2097151 (by omega) (by omega) (by omega) (by omega)
  have p2_10 := mul_bnd a2 b10 2097151 2097151 (by omega) (by omega) (by omega) (by omega)
  have p2_11 := mul_bnd a2 b11 2097151 33554431 (by omega) (by omega) (by omega) (by omega)
  have p3_0 := mul_bnd a3 b0 2097151 2097151 (by omega) (by omega) (by omega) (by omega)
  have p3_1 := mul_bnd a3 b1 2097151 2097151 (by omega) (by omega) (by omega) (by omega)
  have p3_2 := mul_bnd a3 b2 2097151 2097151 (by omega) (by omega) (by omega) (by omega)
  have p3_3 := mul_bnd a3 b3 2097151 2097151 (by omega) (by omega) (by omega) (by omega)
  have p3_4 := mul_bnd a3 b4 2097151 2097151 (by omega) (by omega) (by omega) (by omega)
  have p3_5 := mul_bnd a3 b5 2097151 2097151 (by omega) (by omega) (by omega) (by omega)
  have p3_6 := mul_bnd a3 b6 2097151 2097151 (by omega) (by omega) (by omega) (by omega)
  have p3_7 := mul_bnd a3 b7 2097151 2097151 (by omega) (by omega) (by omega) (by omega)
  have p3_8 := mul_bnd a3 b8 2097151 2097151 (by omega) (by omega) (by omega) (by omega)
  have p3_9 := mul_bnd a3 b9 2097151 2097151 (by omega) (by omega) (by omega) (by omega)
  have p3_10 := mul_bnd a3 b10 2097151 2097151 (by omega) (by omega) (by omega) (by omega)
  have p3_11 := mul_bnd a3 b11 2097151 33554431 (by omega) (by omega) (by omega) (by omega)
  have p4_0 := mul_bnd a4 b0 2097151 2097151 (by omega) (by omega) (by omega) (by omega)
  have p4_1 := mul_bnd a4 b1 2097151 2097151 (by omega) (by omega) (by omega) (by omega)
  have p4_2 := mul_bnd a4 b2 2097151 2097151 (by omega) (by omega) (by omega) (by omega)
  have p4_3 := mul_bnd a4 b3 2097151 2097151 (by omega) (by omega) (by omega) (by omega)
  have p4_4 := mul_bnd a4 b4 2097151 2097151 (by omega) (by omega) (by omega) (by omega)
  have p4_5 := mul_bnd a4 b5 2097151 2097151 (by omega) (by omega) (by omega) (by omega)
  have p4_6 := mul_bnd a4 b6 2097151 2097151 (by omega) (by omega) (by omega) (by omega)
  have p4_7 := mul_bnd a4 b7 2097151 2097151 (by omega) (by omega) (by omega) (by omega)
  have p4_8 := mul_bnd a4 b8 2097151 2097151 (by omega) (by omega) (by omega) (by omega)
  have p4_9 := mul_bnd a4 b9 2097151 2097151 (by omega) (by omega) (by omega) (by omega)
  have p4_10 := mul_bnd a4 b10 2097151 2097151 (by omega) (by omega) (by omega) (by omega)
  have p4_11 := mul_bnd a4 b11 2097151 33554431 (by omega) (by omega) (by omega) (by omega)
  have p5_0 := mul_bnd a5 b0 2097151 2097151 (by omega) (by omega) (by omega) (by omega)
  have p5_1 := mul_bnd a5 b1 2097151 2097151 (by omega) (by omega) (by omega) (by omega)
  have p5_2 := mul_bnd a5 b2 2097151 2097151 (by omega) (by omega) (by omega) (by omega)
  have p5_3 := mul_bnd a5 b3 2097151 2097151 (by omega) (by omega) (by omega) (by omega)
  have p5_4 := mul_bnd a5 b4 2097151 2097151 (by omega) (by omega) (by omega) (by omega)
  have p5_5 := mul_bnd a5 b5 2097151 2097151 (by omega) (by omega) (by omega) (by omega)
  have p5_6 := mul_bnd a5 b6 2097151 2097151 (by omega) (by omega) (by omega) (by omega)
  have p5_7 := mul_bnd a5 b7 2097151 2097151 (by omega) (by omega) (by omega) (by omega)
  have p5_8 := mul_bnd a5 b8 2097151 2097151 (by omega) (by omega) (by omega) (by omega)
  have p5_9 := mul_bnd a5 b9 2097151 2097151 (by omega) (by omega) (by omega) (by omega)
  have p5_10 := mul_bnd a5 b10 2097151 2097151 (by omega) (by omega) (by omega) (by omega)
  have p5_11 := mul_bnd a5 b11 2097151 33554431 (by omega) (by omega) (by omega) (by omega)
  have p6_0 := mul_bnd a6 b0 2097151 2097151 (by omega) (by omega) (by omega) (by omega)
  have p6_1 := mul_bnd a6 b1 2097151 2097151 (by omega) (by omega) (by omega) (by omega)
  have p6_2 := mul_bnd a6 b2 2097151 2097151 (by omega) (by omega) (by omega) (by omega)
  have p6_3 := mul_bnd a6 b3 2097151 2097151 (by omega) (by omega) (by omega) (by omega)
  have p6_4 := mul_bnd a6 b4 2097151 2097151 (by omega) (by omega) (by omega) (by omega)
  have p6_5 := mul_bnd a6 b5 2097151 2097151 (by omega) (by omega) (by omega) (by omega)
  have p6_6 := mul_bnd a6 b6 2097151 2097151 (by omega) (by omega) (by omega) (by omega)
  have p6_7 := mul_bnd a6 b7 2097151 2097151 (by omega) (by omega) (by omega) (by omega)
  have p6_8 := mul_bnd a6 b8 2097151 2097151 (by omega) (by omega) (by omega) (by omega)
  have p6_9 := mul_bnd a6 b9 2097151 2097151 (by omega) (by omega) (by omega) (by omega)
  have p6_10 := mul_bnd a6 b10 2097151 2097151 (by omega) (by omega) (by omega) (by omega)
  have p6_11 := mul_bnd a6 b11 2097151 33554431 (by omega) (by omega) (by omega) (by omega)
  have p7_0 := mul_bnd a7 b0 2097151 2097151 (by omega) (by omega) (by omega) (by omega)
  have p7_1 := mul_bnd a7 b1 2097151 2097151 (by omega) (by omega) (by omega) (by omega)
  have p7_2 := mul_bnd a7 b2 2097151 2097151 (by omega) (by omega) (by omega) (by omega)
  have p7_3 := mul_bnd a7 b3 2097151 2097151 (by omega) (by omega) (by omega) (by omega)
  have p7_4 := mul_bnd a7 b4 2097151 2097151 (by omega) (by omega) (by omega) (by omega)
  have p7_5 := mul_bnd a7 b5 2097151 2097151 (by omega) (by omega) (by omega) (by omega)
  have p7_6 := mul_bnd a7 b6 2097151 2097151 (by omega) (by omega) (by omega) (by omega)
  have p7_7 := mul_bnd a7 b7 2097151 2097151 (by omega) (by omega) (by omega) (by omega)
  have p7_8 := mul_bnd a7 b8 2097151 2097151 (by omega) (by omega) (by omega) (by omega)
  have p7_9 := mul_bnd a7 b9 2097151 2097151 (by omega) (by omega) (by omega) (by omega)
  have p7_10 := mul_bnd a7 b10 2097151 2097151 (by omega) (by omega) (by omega) (by omega)
  have p7_11 := mul_bnd a7 b11 2097151 33554431 (by omega) (by omega) (by omega) (by omega)
  have p8_0 := mul_bnd a8 b0 2097151 2097151 (by omega) (by omega) (by omega) (by omega)
  have p8_1 := mul_bnd a8 b1 2097151 2097151 (by omega) (by omega) (by omega) (by omega)
  have p8_2 := mul_bnd a8 b2 2097151 2097151 (by omega) (by omega) (by omega) (by omega)
  have p8_3 := mul_bnd a8 b3 2097151 2097151 (by omega) (by omega) (by omega) (by omega)
  have p8_4 := mul_bnd a8 b4 2097151 2097151 (by omega) (by omega) (by omega) (by omega)
  have p8_5 := mul_bnd a8 b5 2097151 2097151 (by omega) (by omega) (by omega) (by omega)
  have p8_6 := mul_bnd a8 b6 2097151 2097151 (by omega) (by omega) (by omega) (by omega)
  have p8_7 := mul_bnd a8 b7 2097151 2097151 (by omega) (by omega) (by omega) (by omega)
  have p8_8 := mul_bnd a8 b8 2097151 2097151 (by omega) (by omega) (by omega) (by omega)
  have p8_9 := mul_bnd a8 b9 2097151 2097151 (by omega) (by omega) (by omega) (by omega)
  have p8_10 := mul_bnd a8 b10 2097151 2097151 (by omega) (by omega) (by omega) (by omega)
  have p8_11 := mul_bnd a8 b11 2097151 33554431 (by omega) (by omega) (by omega) (by omega)
  have p9_0 := mul_bnd a9 b0 2097151 2097151 (by omega) (by omega) (by omega) (by omega)
  have p9_1 := mul_bnd a9 b1 2097151 2097151 (by omega) (by omega) (by omega) (by omega)
  have p9_2 := mul_bnd a9 b2 2097151 2097151 (by omega) (by omega) (by omega) (by omega)
  have p9_3 := mul_bnd a9 b3 2097151 2097151 (by omega) (by omega) (by omega) (by omega)
  have p9_4 := mul_bnd a9 b4 2097151 2097151 (by omega) (by omega) (by omega) (by omega)
  have p9_5 := mul_bnd a9 b5 2097151 2097151 (by omega) (by omega) (by omega) (by omega)
  have p9_6 := mul_bnd a9 b6 2097151 2097151 (by omega) (by omega) (by omega) (by omega)
  have p9_7 := mul_bnd a9 b7 2097151 2097151 (by omega) (by omega) (by omega) (by omega)
  have p9_8 := mul_bnd a9 b8 2097151 2097151 (by omega) (by omega) (by omega) (by omega)
  have p9_9 := mul_bnd a9 b9 2097151 2097151 (by omega) (by omega) (by omega) (by omega)
  have p9_10 := mul_bnd a9 b10 2097151 2097151 (by omega) (by omega) (by omega) (by omega)
  have p9_11 := mul_bnd a9 b11 2097151 33554431 (by omega) (by omega) (by omega) (by omega)
  have p10_0 := mul_bnd a10 b0 2097151 2097151 (by omega) (by omega) (by omega) (by omega)
  have p10_1 := mul_bnd a10 b1 2097151 2097151 (by omega) (by omega) (by omega) (by omega)
  have p10_2 := mul_bnd a10 b2 2097151 2097151 (by omega) (by omega) (by omega) (by omega)
  have p10_3 := mul_bnd a10 b3 2097151 2097151 (by omega) (by omega) (by omega) (by omega)
  have p10_4 := mul_bnd a10 b4 2097151 2097151 (by omega) (by omega) (by omega) (by omega)
  have p10_5 := mul_bnd a10 b5 2097151 2097151 (by omega) (by omega) (by omega) (by omega)
  have p10_6 := mul_bnd a10 b6 2097151 2097151 (by omega) (by omega) (by omega) (by omega)
  have p10_7 := mul_bnd a10 b7 2097151 2097151 (by omega) (by omega) (by omega) (by omega)
  have p10_8 := mul_bnd a10 b8 2097151 2097151 (by omega) (by omega) (by omega) (by omega)
  have p10_9 := mul_bnd a10 b9 2097151 2097151 (by omega) (by omega) (by omega) (by omega)
  have p10_10 := mul_bnd a10 b10 2097151 2097151 (by omega) (by omega) (by omega) (by omega)
  have p10_11 := mul_bnd a10 b11 2097151 33554431 (by omega) (by omega) (by omega) (by omega)
  have p11_0 := mul_bnd a11 b0 33554431 2097151 (by omega) (by omega) (by omega) (by omega)
  have p11_1 := mul_bnd a11 b1 33554431 2097151 (by omega) (by omega) (by omega) (by omega)
  have p11_2 := mul_bnd a11 b2 33554431 2097151 (by omega) (by omega) (by omega) (by omega)
  have p11_3 := mul_bnd a11 b3 33554431 2097151 (by omega) (by omega) (by omega) (by omega)
  have p11_4 := mul_bnd a11 b4 33554431 2097151 (by omega) (by omega) (by omega) (by omega)
  have p11_5 := mul_bnd a11 b5 33554431 2097151 (by omega) (by omega) (by omega) (by omega)
  have p11_6 := mul_bnd a11 b6 33554431 2097151 (by omega) (by omega) (by omega) (by omega)
  have p11_7 := mul_bnd a11 b7 33554431 2097151 (by omega) (by omega) (by omega) (by omega)
  have p11_8 := mul_bnd a11 b8 33554431 2097151 (by omega) (by omega) (by omega) (by omega)
  have p11_9 := mul_bnd a11 b9 33554431 2097151 (by omega) (by omega) (by omega) (by omega)
  have p11_10 := mul_bnd a11 b10 33554431 2097151 (by omega) (by omega) (by omega) (by omega)
  have p11_11 := mul_bnd a11 b11 33554431 33554431 (by omega) (by omega) (by omega) (by omega)
  simp only [Int.reduceMul] at p0_0 p0_1 p0_2 p0_3 p0_4 p0_5 p0_6 p0_7 p0_8 p0_9 p0_10 p0_11 p1_0 p1_1 p1_2 p1_3 p1_4 p1_5 p1_6 p1_7 p1_8 p1_9 p1_10 p1_11 p2_0 p2_1 p2_2 p2_3 p2_4 p2_5 p2_6 p2_7 p2_8 p2_9 p2_10 p2_11 p3_0 p3_1 p3_2 p3_3 p3_4 p3_5 p3_6 p3_7 p3_8 p3_9 p3_10 p3_11 p4_0 p4_1 p4_2 p4_3 p4_4 p4_5 p4_6 p4_7 p4_8 p4_9 p4_10 p4_11 p5_0 p5_1 p5_2 p5_3 p5_4 p5_5 p5_6 p5_7 p5_8 p5_9 p5_10 p5_11 p6_0 p6_1 p6_2 p6_3 p6_4 p6_5 p6_6 p6_7 p6_8 p6_9 p6_10 p6_11 p7_0 p7_1 p7_2 p7_3 p7_4 p7_5 p7_6 p7_7 p7_8 p7_9 p7_10 p7_11 p8_0 p8_1 p8_2 p8_3 p8_4 p8_5 p8_6 p8_7 p8_8 p8_9 p8_10 p8_11 p9_0 p9_1 p9_2 p9_3 p9_4 p9_5 p9_6 p9_7 p9_8 p9_9 p9_10 p9_11 p10_0 p10_1 p10_2 p10_3 p10_4 p10_5 p10_6 p10_7 p10_8 p10_9 p10_10 p10_11 p11_0 p11_1 p11_2 p11_3 p11_4 p11_5 p11_6 p11_7 p11_8 p11_9 p11_10 p11_11
  and_intros <;> first | trivial | omega | grind

end PatVerif.Proofs.ScMulAdd
