import PatVerif.Proofs.FeMul
/-! `Mult32`, `Select`, `Swap` of the translated field code. -/
namespace PatVerif.Proofs.FeMisc
open PatVerif PatVerif.Generated PatVerif.Generated.FeLimbs PatVerif.Proofs.FeHelp PatVerif.Proofs.FeCarry

/-- `mul51`: lo + hi·2^51 = a·b, lo below 2^51 -/
theorem mul51_spec (a b : Nat) (hb : b < 4294967296) (hab : a * b < 41538374868278621028243970633760768) :
    (mul51 a b).1 = a * b % 2251799813685248 ∧ (mul51 a b).2 = a * b / 2251799813685248 := by
  have h := shiftRightBy51_spec ⟨(U64.bitsMul64 a b).2, (U64.bitsMul64 a b).1⟩
  simp only [mul51, U64.ofInt, and_mask]
  rw [Nat.mod_eq_of_lt (show b < 18446744073709551616 by omega)]
  simp only [shiftRightBy51, wide, U64.bitsMul64] at h ⊢
  generalize a * b = p at *
  refine ⟨by omega, ?_⟩
  rw [h (by omega) (by omega)]
  omega

/-- `Mult32`: limbs stay loose, the value is multiplied -/
theorem Mult32_spec (v x : Element) (y : Nat) (hx : Loose x) (hy : y < 4294967296) :
    Loose (Mult32 v x y) ∧ val (Mult32 v x y) % P = (val x * y) % P := by
  obtain ⟨x0, x1, x2, x3, x4⟩ := hx
  have p0 : x.l0 * y < 2252074691592192 * 4294967296 := mul_bnd x0 hy
  have p1 : x.l1 * y < 2252074691592192 * 4294967296 := mul_bnd x1 hy
  have p2 : x.l2 * y < 2252074691592192 * 4294967296 := mul_bnd x2 hy
  have p3 : x.l3 * y < 2252074691592192 * 4294967296 := mul_bnd x3 hy
  have p4 : x.l4 * y < 2252074691592192 * 4294967296 := mul_bnd x4 hy
  obtain ⟨a0, b0⟩ := mul51_spec x.l0 y hy (by omega)
  obtain ⟨a1, b1⟩ := mul51_spec x.l1 y hy (by omega)
  obtain ⟨a2, b2⟩ := mul51_spec x.l2 y hy (by omega)
  obtain ⟨a3, b3⟩ := mul51_spec x.l3 y hy (by omega)
  obtain ⟨a4, b4⟩ := mul51_spec x.l4 y hy (by omega)
  simp only [Mult32, a0, a1, a2, a3, a4, b0, b1, b2, b3, b4]
  have e : val x * y = x.l0 * y + x.l1 * y * 2251799813685248 + x.l2 * y * 5070602400912917605986812821504
      + x.l3 * y * 11417981541647679048466287755595961091061972992
      + x.l4 * y * 25711008708143844408671393477458601640355247900524685364822016 := by
    simp only [val]; grind
  rw [e]
  generalize x.l0 * y = q0 at *
  generalize x.l1 * y = q1 at *
  generalize x.l2 * y = q2 at *
  generalize x.l3 * y = q3 at *
  generalize x.l4 * y = q4 at *
  simp (disch := omega) only [add_nowrap, mul_nowrap]
  refine ⟨by simp only [Loose]; omega, ?_⟩
  have : q0 + q1 * 2251799813685248 + q2 * 5070602400912917605986812821504 + q3 * 11417981541647679048466287755595961091061972992
      + q4 * 25711008708143844408671393477458601640355247900524685364822016
      = val ⟨q0 % 2251799813685248 + 19 * (q4 / 2251799813685248), q1 % 2251799813685248 + q0 / 2251799813685248,
          q2 % 2251799813685248 + q1 / 2251799813685248, q3 % 2251799813685248 + q2 / 2251799813685248,
          q4 % 2251799813685248 + q3 / 2251799813685248⟩ + (q4 / 2251799813685248) * P := by
    simp only [val, P]; omega
  rw [this, Nat.add_mul_mod_self_right]

theorem mask_one : mask64Bits 1 = 18446744073709551615 := by decide
theorem mask_zero : mask64Bits 0 = 0 := by decide

theorem ones_and {x : Nat} (h : x < 18446744073709551616) : U64.and 18446744073709551615 x = x := by
  unfold U64.and
  rw [Nat.and_comm]
  exact (Nat.and_two_pow_sub_one_eq_mod x 64).trans (Nat.mod_eq_of_lt h)

theorem sel_one {x y : Nat} (h : x < 18446744073709551616) :
    U64.or (U64.and 18446744073709551615 x) (U64.and (U64.not 18446744073709551615) y) = x := by
  rw [ones_and h]
  simp [U64.or, U64.and, U64.not]

theorem sel_zero {x y : Nat} (h : y < 18446744073709551616) :
    U64.or (U64.and 0 x) (U64.and (U64.not 0) y) = y := by
  have : U64.not 0 = 18446744073709551615 := by decide
  rw [this, ones_and h]
  simp [U64.or, U64.and]

/-- `Select`: the first operand when `cond = 1`, the second when `cond = 0` -/
theorem Select_one (v a b : Element) (ha : Word a) : Select v a b 1 = a := by
  obtain ⟨a0, a1, a2, a3, a4⟩ := ha
  simp only [Select, mask_one, sel_one a0, sel_one a1, sel_one a2, sel_one a3, sel_one a4]

theorem Select_zero (v a b : Element) (hb : Word b) : Select v a b 0 = b := by
  obtain ⟨b0, b1, b2, b3, b4⟩ := hb
  simp only [Select, mask_zero, sel_zero b0, sel_zero b1, sel_zero b2, sel_zero b3, sel_zero b4]

theorem swap_one {x y : Nat} (hx : x < 18446744073709551616) (hy : y < 18446744073709551616) :
    U64.xor x (U64.and 18446744073709551615 (U64.xor x y)) = y ∧ U64.xor y (U64.and 18446744073709551615 (U64.xor x y)) = x := by
  have hxy : U64.xor x y < 18446744073709551616 := Nat.xor_lt_two_pow (n := 64) hx hy
  rw [ones_and hxy]
  simp only [U64.xor]
  constructor
  · rw [← Nat.xor_assoc, Nat.xor_self, Nat.zero_xor]
  · rw [Nat.xor_comm x y, ← Nat.xor_assoc, Nat.xor_self, Nat.zero_xor]

theorem swap_zero {x y : Nat} : U64.xor x (U64.and 0 (U64.xor x y)) = x ∧ U64.xor y (U64.and 0 (U64.xor x y)) = y := by
  simp [U64.xor, U64.and]

/-- `Swap` -/
theorem Swap_one (v u : Element) (hv : Word v) (hu : Word u) : Swap v u 1 = (u, v) := by
  obtain ⟨v0, v1, v2, v3, v4⟩ := hv
  obtain ⟨u0, u1, u2, u3, u4⟩ := hu
  simp only [Swap, mask_one, swap_one v0 u0, swap_one v1 u1, swap_one v2 u2, swap_one v3 u3, swap_one v4 u4]

theorem Swap_zero (v u : Element) : Swap v u 0 = (v, u) := by
  simp only [Swap, mask_zero, swap_zero]

end PatVerif.Proofs.FeMisc
