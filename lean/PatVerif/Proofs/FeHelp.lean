import PatVerif.Generated.FeLimbs
/-! Helpers for the field-arithmetic proofs: the value of five 51-bit limbs, the prime, the two limb bounds, and what the
translated 128-bit helpers (`mul64`, `addMul64`, `shiftRightBy51`) compute. -/
namespace PatVerif.Proofs.FeHelp
open PatVerif PatVerif.Generated.FeLimbs

/-- 2^255 - 19 -/
def P : Nat := 57896044618658097711785492504343953926634992332820282019728792003956564819949

/-- the integer five limbs (radix 2^51) stand for -/
def val (e : Element) : Nat :=
  e.l0 + e.l1 * 2251799813685248 + e.l2 * 5070602400912917605986812821504 + e.l3 * 11417981541647679048466287755595961091061972992
  + e.l4 * 25711008708143844408671393477458601640355247900524685364822016

/-- every limb fits a machine word -/
def Word (e : Element) : Prop :=
  e.l0 < 18446744073709551616 ∧ e.l1 < 18446744073709551616 ∧ e.l2 < 18446744073709551616 ∧ e.l3 < 18446744073709551616 ∧ e.l4 < 18446744073709551616

/-- what every operation accepts: limbs below 2^51 + 2^38 (the output of `Mult32`, the largest any operation produces) -/
def Loose (e : Element) : Prop :=
  e.l0 < 2252074691592192 ∧ e.l1 < 2252074691592192 ∧ e.l2 < 2252074691592192 ∧ e.l3 < 2252074691592192 ∧ e.l4 < 2252074691592192

/-- what a carry propagation leaves: limbs below 2^51 + 2^18 -/
def Tight (e : Element) : Prop :=
  e.l0 < 2251799813947392 ∧ e.l1 < 2251799813947392 ∧ e.l2 < 2251799813947392 ∧ e.l3 < 2251799813947392 ∧ e.l4 < 2251799813947392

/-- fully reduced limbs: below 2^51 -/
def Canon (e : Element) : Prop :=
  e.l0 < 2251799813685248 ∧ e.l1 < 2251799813685248 ∧ e.l2 < 2251799813685248 ∧ e.l3 < 2251799813685248 ∧ e.l4 < 2251799813685248

theorem Tight.loose {e : Element} (h : Tight e) : Loose e := by
  unfold Tight at h; unfold Loose; omega
theorem Canon.tight {e : Element} (h : Canon e) : Tight e := by
  unfold Canon at h; unfold Tight; omega
theorem Loose.word {e : Element} (h : Loose e) : Word e := by
  unfold Loose at h; unfold Word; omega

/-- the value of a `uint128` -/
def wide (x : uint128) : Nat := x.lo + x.hi * 18446744073709551616

theorem and_mask (x : Nat) : U64.and x maskLow51Bits = x % 2251799813685248 := by
  unfold U64.and maskLow51Bits
  exact Nat.and_two_pow_sub_one_eq_mod x 51

theorem mul_bnd {a b A B : Nat} (ha : a < A) (hb : b < B) : a * b < A * B :=
  Nat.mul_lt_mul'' ha hb

theorem mul64_spec (a b : Nat) :
    (mul64 a b).lo < 18446744073709551616 ∧ wide (mul64 a b) = a * b := by
  simp only [mul64, U64.bitsMul64, wide]
  generalize a * b = p at *
  omega

theorem addMul64_spec (v : uint128) (a b : Nat) (hlo : v.lo < 18446744073709551616)
    (hb : wide v + a * b < 340282366920938463463374607431768211456) :
    (addMul64 v a b).lo < 18446744073709551616 ∧ wide (addMul64 v a b) = wide v + a * b := by
  simp only [addMul64, U64.bitsMul64, U64.bitsAdd64, wide] at *
  generalize a * b = p at *
  omega

/-- `(hi << 13) | (lo >> 51)` is the shift of the 128-bit value when it has at most 115 bits -/
theorem shiftRightBy51_spec (v : uint128) (hlo : v.lo < 18446744073709551616) (hb : wide v < 41538374868278621028243970633760768) :
    shiftRightBy51 v = wide v / 2251799813685248 := by
  simp only [shiftRightBy51, U64.or, U64.shl, U64.shr, wide] at *
  have hhi : v.hi < 2251799813685248 := by omega
  have h1 : v.hi * 2 ^ 13 % 18446744073709551616 = v.hi * 2 ^ 13 := Nat.mod_eq_of_lt (by omega)
  rw [h1]
  have h2 : v.lo / 2 ^ 51 < 2 ^ 13 := by omega
  rw [← Nat.shiftLeft_eq, ← Nat.shiftLeft_add_eq_or_of_lt h2, Nat.shiftLeft_eq]
  omega

theorem lo_and_mask (v : uint128) : U64.and v.lo maskLow51Bits = wide v % 2251799813685248 := by
  rw [and_mask]; unfold wide; omega

end PatVerif.Proofs.FeHelp
