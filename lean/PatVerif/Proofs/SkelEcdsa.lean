import PatVerif.Generated.Skeletons
/-!
# The ECDSA fork, statement by statement (C12, C13)

`Exec/ECDSA.lean` and `Exec/KeyBlind.lean` are hand-written references of what `ecdsa/ecdsa.go` computes: digest truncation
(`hashToInt`: the leftmost `orderBits` bits), the verification equation (`w = s⁻¹`, `u₁ = e·w`, `u₂ = r·w`, `x(u₁G + u₂Q) mod N = r`,
the point at infinity rejected), the signing equation (`s = k⁻¹(e + r·d) mod N`, retried on `r = 0` or `s = 0`), nonce candidates
(`randFieldElement`: `(bytes mod (N−1)) + 1`), the blinding factor (`hash_to_field` of `scalar bytes ‖ 0x00 ‖ context`, with the
per-curve hash and `L` of the `switch`), blinding / unblinding by scalar multiplication with that factor / its inverse, and blinded
signing with `d·b mod N`. For these fifteen functions the extractor (`/verif/extract/cmd/skeleton`, full mode) emits every
statement, condition and return as text, with the calls each makes, in source order; the lists below are what the references were
written against, and the theorems say the source reads exactly like this today. Any edit of one of these functions — an operand,
a dropped `Mod`, another shift amount — breaks its theorem before any input is generated; the C12/C13 streams then search for
the input on which it matters (and a behaviour-preserving edit is reported with `no-failing-input-found`).
-/
namespace PatVerif.Proofs.SkelEcdsa

/-- ecdsa: .hashToInt -/
def expected_ecdsa_hashToInt : List String :=
  ["stmt orderBits := c.Params().N.BitLen()",
   "call (…).BitLen",
   "call c.Params",
   "stmt orderBytes := (orderBits + 7) / 8",
   "if len(hash) > orderBytes {",
   "stmt hash = hash[:orderBytes]",
   "}",
   "stmt ret := new(big.Int).SetBytes(hash)",
   "call (…).SetBytes",
   "stmt excess := len(hash)*8 - orderBits",
   "if excess > 0 {",
   "stmt ret.Rsh(ret, uint(excess))",
   "call ret.Rsh",
   "call uint",
   "}",
   "return value: return ret"]

theorem ecdsa_hashToInt_as_modelled : Generated.Skeletons.ecdsa_hashToInt = expected_ecdsa_hashToInt := rfl

/-- ecdsa: .fermatInverse -/
def expected_ecdsa_fermatInverse : List String :=
  ["stmt two := big.NewInt(2)",
   "call big.NewInt",
   "stmt nMinus2 := new(big.Int).Sub(N, two)",
   "call (…).Sub",
   "call (…).Exp",
   "return value: return new(big.Int).Exp(k, nMinus2, N)"]

theorem ecdsa_fermatInverse_as_modelled : Generated.Skeletons.ecdsa_fermatInverse = expected_ecdsa_fermatInverse := rfl

/-- ecdsa: .randFieldElement -/
def expected_ecdsa_randFieldElement : List String :=
  ["stmt params := c.Params()",
   "call c.Params",
   "stmt b := make([]byte, params.BitSize/8+8)",
   "stmt _, err = io.ReadFull(rand, b)",
   "call io.ReadFull",
   "if err != nil {",
   "return value: return",
   "}",
   "stmt k = new(big.Int).SetBytes(b)",
   "call (…).SetBytes",
   "stmt n := new(big.Int).Sub(params.N, one)",
   "call (…).Sub",
   "stmt k.Mod(k, n)",
   "call k.Mod",
   "stmt k.Add(k, one)",
   "call k.Add",
   "return value: return"]

theorem ecdsa_randFieldElement_as_modelled : Generated.Skeletons.ecdsa_randFieldElement = expected_ecdsa_randFieldElement := rfl

/-- ecdsa: .CreateKey -/
def expected_ecdsa_CreateKey : List String :=
  ["stmt k := new(big.Int).SetBytes(privateKeyBytes)",
   "call (…).SetBytes",
   "stmt priv := new(PrivateKey)",
   "stmt priv.PublicKey.Curve = c",
   "stmt priv.D = k",
   "stmt priv.PublicKey.X, priv.PublicKey.Y = c.ScalarBaseMult(privateKeyBytes)",
   "call c.ScalarBaseMult",
   "return no-error: return priv, nil"]

theorem ecdsa_CreateKey_as_modelled : Generated.Skeletons.ecdsa_CreateKey = expected_ecdsa_CreateKey := rfl

/-- ecdsa: .GenerateKey -/
def expected_ecdsa_GenerateKey : List String :=
  ["stmt k, err := randFieldElement(c, rand)",
   "call randFieldElement",
   "if err != nil {",
   "return error: return nil, err",
   "}",
   "stmt priv := new(PrivateKey)",
   "stmt priv.PublicKey.Curve = c",
   "stmt priv.D = k",
   "stmt priv.PublicKey.X, priv.PublicKey.Y = c.ScalarBaseMult(k.Bytes())",
   "call c.ScalarBaseMult",
   "call k.Bytes",
   "return no-error: return priv, nil"]

theorem ecdsa_GenerateKey_as_modelled : Generated.Skeletons.ecdsa_GenerateKey = expected_ecdsa_GenerateKey := rfl

/-- ecdsa: .hashBlind -/
def expected_ecdsa_hashBlind : List String :=
  ["stmt var h crypto.Hash",
   "stmt var L uint",
   "switch {",
   "case:",
   "stmt h = crypto.SHA256",
   "stmt L = 32",
   "case:",
   "stmt h = crypto.SHA256",
   "stmt L = 48",
   "case:",
   "stmt h = crypto.SHA384",
   "stmt L = 72",
   "case:",
   "stmt h = crypto.SHA512",
   "stmt L = 98",
   "case:",
   "return error: return nil, fmt.Errorf(\"Unsupported curve\")",
   "}",
   "stmt xmd := expander.NewExpanderMD(h, []byte(\"ECDSA Key Blind\"))",
   "call expander.NewExpanderMD",
   "stmt var u [1]big.Int",
   "stmt scalarBytes := make([]byte, (sk.D.BitLen()+7)>>3)",
   "call (…).BitLen",
   "stmt sk.D.FillBytes(scalarBytes)",
   "call (…).FillBytes",
   "stmt blindContext := append(scalarBytes, 0x00)",
   "stmt blindContext = append(blindContext, context...)",
   "stmt group.HashToField(u[:], blindContext, xmd, c.Params().N, L)",
   "call group.HashToField",
   "call c.Params",
   "call (…).Set",
   "return no-error: return new(big.Int).Set(&u[0]), nil"]

theorem ecdsa_hashBlind_as_modelled : Generated.Skeletons.ecdsa_hashBlind = expected_ecdsa_hashBlind := rfl

/-- ecdsa: .BlindPublicKeyWithContext -/
def expected_ecdsa_BlindPublicKeyWithContext : List String :=
  ["stmt skBlind, err := hashBlind(c, bk, context)",
   "call hashBlind",
   "if err != nil {",
   "return error: return nil, err",
   "}",
   "stmt X, Y := c.ScalarMult(pk.X, pk.Y, skBlind.Bytes())",
   "call c.ScalarMult",
   "call skBlind.Bytes",
   "return no-error: return &PublicKey{ c, X, Y, }, nil"]

theorem ecdsa_BlindPublicKeyWithContext_as_modelled : Generated.Skeletons.ecdsa_BlindPublicKeyWithContext = expected_ecdsa_BlindPublicKeyWithContext := rfl

/-- ecdsa: .UnblindPublicKeyWithContext -/
def expected_ecdsa_UnblindPublicKeyWithContext : List String :=
  ["stmt skBlind, err := hashBlind(c, bk, context)",
   "call hashBlind",
   "if err != nil {",
   "return error: return nil, err",
   "}",
   "stmt kInv := new(big.Int).ModInverse(skBlind, c.Params().N)",
   "call (…).ModInverse",
   "call c.Params",
   "stmt X, Y := c.ScalarMult(pk.X, pk.Y, kInv.Bytes())",
   "call c.ScalarMult",
   "call kInv.Bytes",
   "return no-error: return &PublicKey{ c, X, Y, }, nil"]

theorem ecdsa_UnblindPublicKeyWithContext_as_modelled : Generated.Skeletons.ecdsa_UnblindPublicKeyWithContext = expected_ecdsa_UnblindPublicKeyWithContext := rfl

/-- ecdsa: .BlindKeySignWithContext -/
def expected_ecdsa_BlindKeySignWithContext : List String :=
  ["stmt pkB, err := BlindPublicKeyWithContext(skS.Curve, &skS.PublicKey, skB, context)",
   "call BlindPublicKeyWithContext",
   "if err != nil {",
   "return error: return nil, nil, err",
   "}",
   "stmt skBlind, err := hashBlind(skS.Curve, skB, context)",
   "call hashBlind",
   "if err != nil {",
   "return error: return nil, nil, err",
   "}",
   "stmt Db := new(big.Int).Mul(skS.D, skBlind)",
   "call (…).Mul",
   "stmt Db.Mod(Db, skS.Curve.Params().N)",
   "call Db.Mod",
   "call (…).Params",
   "stmt skR := &PrivateKey{ *pkB, Db, }",
   "call Sign",
   "return value: return Sign(rand, skR, hash)"]

theorem ecdsa_BlindKeySignWithContext_as_modelled : Generated.Skeletons.ecdsa_BlindKeySignWithContext = expected_ecdsa_BlindKeySignWithContext := rfl

/-- ecdsa: .Sign -/
def expected_ecdsa_Sign : List String :=
  ["stmt MaybeReadByte(rand)",
   "call MaybeReadByte",
   "stmt entropy := make([]byte, 32)",
   "stmt _, err = io.ReadFull(rand, entropy)",
   "call io.ReadFull",
   "if err != nil {",
   "return value: return",
   "}",
   "stmt md := sha512.New()",
   "call sha512.New",
   "stmt md.Write(priv.D.Bytes())",
   "call md.Write",
   "call (…).Bytes",
   "stmt md.Write(entropy)",
   "call md.Write",
   "stmt md.Write(hash)",
   "call md.Write",
   "stmt key := md.Sum(nil)[:32]",
   "call md.Sum",
   "stmt block, err := aes.NewCipher(key)",
   "call aes.NewCipher",
   "if err != nil {",
   "return error: return nil, nil, err",
   "}",
   "stmt csprng := cipher.StreamReader{ R: zeroReader, S: cipher.NewCTR(block, []byte(aesIV)), }",
   "call cipher.NewCTR",
   "stmt c := priv.PublicKey.Curve",
   "call sign",
   "return value: return sign(priv, &csprng, c, hash)"]

theorem ecdsa_Sign_as_modelled : Generated.Skeletons.ecdsa_Sign = expected_ecdsa_Sign := rfl

/-- ecdsa: .signGeneric -/
def expected_ecdsa_signGeneric : List String :=
  ["stmt N := c.Params().N",
   "call c.Params",
   "call N.Sign",
   "if N.Sign() == 0 {",
   "return value: return nil, nil, errZeroParam",
   "}",
   "stmt var k, kInv *big.Int",
   "for {",
   "for {",
   "stmt k, err = randFieldElement(c, *csprng)",
   "call randFieldElement",
   "if err != nil {",
   "stmt r = nil",
   "return value: return",
   "}",
   "stmt in, ok := priv.Curve.(invertible)",
   "if ok {",
   "stmt kInv = in.Inverse(k)",
   "call in.Inverse",
   "} else {",
   "stmt kInv = fermatInverse(k, N)",
   "call fermatInverse",
   "}",
   "stmt r, _ = priv.Curve.ScalarBaseMult(k.Bytes())",
   "call (…).ScalarBaseMult",
   "call k.Bytes",
   "stmt r.Mod(r, N)",
   "call r.Mod",
   "call r.Sign",
   "if r.Sign() != 0 {",
   "break",
   "}",
   "}",
   "stmt e := hashToInt(hash, c)",
   "call hashToInt",
   "stmt s = new(big.Int).Mul(priv.D, r)",
   "call (…).Mul",
   "stmt s.Add(s, e)",
   "call s.Add",
   "stmt s.Mul(s, kInv)",
   "call s.Mul",
   "stmt s.Mod(s, N)",
   "call s.Mod",
   "call s.Sign",
   "if s.Sign() != 0 {",
   "break",
   "}",
   "}",
   "return value: return"]

theorem ecdsa_signGeneric_as_modelled : Generated.Skeletons.ecdsa_signGeneric = expected_ecdsa_signGeneric := rfl

/-- ecdsa: .SignASN1 -/
def expected_ecdsa_SignASN1 : List String :=
  ["call priv.Sign",
   "return value: return priv.Sign(rand, hash, nil)"]

theorem ecdsa_SignASN1_as_modelled : Generated.Skeletons.ecdsa_SignASN1 = expected_ecdsa_SignASN1 := rfl

/-- ecdsa: .Verify -/
def expected_ecdsa_Verify : List String :=
  ["stmt c := pub.Curve",
   "stmt N := c.Params().N",
   "call c.Params",
   "call r.Sign",
   "call s.Sign",
   "if r.Sign() <= 0 || s.Sign() <= 0 {",
   "return false: return false",
   "}",
   "call r.Cmp",
   "call s.Cmp",
   "if r.Cmp(N) >= 0 || s.Cmp(N) >= 0 {",
   "return false: return false",
   "}",
   "call verify",
   "return value: return verify(pub, c, hash, r, s)"]

theorem ecdsa_Verify_as_modelled : Generated.Skeletons.ecdsa_Verify = expected_ecdsa_Verify := rfl

/-- ecdsa: .verifyGeneric -/
def expected_ecdsa_verifyGeneric : List String :=
  ["stmt e := hashToInt(hash, c)",
   "call hashToInt",
   "stmt var w *big.Int",
   "stmt N := c.Params().N",
   "call c.Params",
   "stmt in, ok := c.(invertible)",
   "if ok {",
   "stmt w = in.Inverse(s)",
   "call in.Inverse",
   "} else {",
   "stmt w = new(big.Int).ModInverse(s, N)",
   "call (…).ModInverse",
   "}",
   "stmt u1 := e.Mul(e, w)",
   "call e.Mul",
   "stmt u1.Mod(u1, N)",
   "call u1.Mod",
   "stmt u2 := w.Mul(r, w)",
   "call w.Mul",
   "stmt u2.Mod(u2, N)",
   "call u2.Mod",
   "stmt var x, y *big.Int",
   "stmt opt, ok := c.(combinedMult)",
   "if ok {",
   "stmt x, y = opt.CombinedMult(pub.X, pub.Y, u1.Bytes(), u2.Bytes())",
   "call opt.CombinedMult",
   "call u1.Bytes",
   "call u2.Bytes",
   "} else {",
   "stmt x1, y1 := c.ScalarBaseMult(u1.Bytes())",
   "call c.ScalarBaseMult",
   "call u1.Bytes",
   "stmt x2, y2 := c.ScalarMult(pub.X, pub.Y, u2.Bytes())",
   "call c.ScalarMult",
   "call u2.Bytes",
   "stmt x, y = c.Add(x1, y1, x2, y2)",
   "call c.Add",
   "}",
   "call x.Sign",
   "call y.Sign",
   "if x.Sign() == 0 && y.Sign() == 0 {",
   "return false: return false",
   "}",
   "stmt x.Mod(x, N)",
   "call x.Mod",
   "call x.Cmp",
   "return value: return x.Cmp(r) == 0"]

theorem ecdsa_verifyGeneric_as_modelled : Generated.Skeletons.ecdsa_verifyGeneric = expected_ecdsa_verifyGeneric := rfl

/-- ecdsa: .VerifyASN1 -/
def expected_ecdsa_VerifyASN1 : List String :=
  ["stmt var ( r, s = &big.Int{}, &big.Int{} inner cryptobyte.String )",
   "stmt input := cryptobyte.String(sig)",
   "call cryptobyte.String",
   "call input.ReadASN1",
   "call input.Empty",
   "call inner.ReadASN1Integer",
   "call inner.ReadASN1Integer",
   "call inner.Empty",
   "if !input.ReadASN1(&inner, asn1.SEQUENCE) || !input.Empty() || !inner.ReadASN1Integer(r) || !inner.ReadASN1Integer(s) || !inner.Empty() {",
   "return false: return false",
   "}",
   "call Verify",
   "return value: return Verify(pub, hash, r, s)"]

theorem ecdsa_VerifyASN1_as_modelled : Generated.Skeletons.ecdsa_VerifyASN1 = expected_ecdsa_VerifyASN1 := rfl

end PatVerif.Proofs.SkelEcdsa
