import PatVerif.Proofs.DoubleScalarMultRefine
import PatVerif.Proofs.Clamp
/-!
# From bytes to group elements: the scalar entry points composed with the multiplications (C14, C15)

`Proofs/ScScalar.lean` and `Proofs/Clamp.lean` describe what the translated `SetBytes` / `SetBytesWithClamping` return (`Encodes out r`:
32 bytes whose little-endian value is `r < L`); `Proofs/*MultRefine.lean` describe the multiplications on scalars given as 32 bytes with
the top bit clear. This file joins them: an encoded scalar is such a byte list, hence

* **key blinding / unblinding** (`ScalarMult(SetBytes(h), A)`): for any 32 bytes `h` and any valid point `A` standing for `g`, the translated
  `SetBytes`, the literal recoding and the literal loop over the translated formulas return a valid point standing for `(h mod L) • g`;
* **public-key derivation** (`ScalarBaseMult(SetBytesWithClamping(h))`): for any 32 bytes, a valid point standing for `(clamp(h) mod L) • B`.
-/
namespace PatVerif.Proofs.ScalarGlue
open PatVerif PatVerif.Generated PatVerif.Generated.EdPoints PatVerif.Generated.ScLimbs PatVerif.Proofs.ScHelp PatVerif.Proofs.ScScalar
  PatVerif.Proofs.EdGroup PatVerif.Proofs.EdRepr PatVerif.Model.Recode PatVerif.Model.ScalarMultLit PatVerif.Proofs.Recode

theorem leNat_map (out : List Int) (h : bytesOK out) : ((leNat (out.map Int.toNat) : Nat) : Int) = leVal out := by
  induction out with
  | nil => rfl
  | cons x xs ih =>
    obtain ⟨hx, hxs⟩ := h
    simp only [List.map_cons, leNat, leVal, Nat.cast_add, Nat.cast_mul, Nat.cast_ofNat, ih hxs]
    rw [Int.toNat_of_nonneg hx.1]

theorem leVal_nonneg (out : List Int) (h : bytesOK out) : 0 ≤ leVal out := by
  induction out with
  | nil => simp [leVal]
  | cons x xs ih =>
    obtain ⟨hx, hxs⟩ := h
    have := ih hxs
    simp only [leVal]; omega

theorem leVal_ge (out : List Int) (h : bytesOK out) : ∀ i, (256 : Int) ^ i * out.getD i 0 ≤ leVal out := by
  induction out with
  | nil => intro i; simp [leVal]
  | cons x xs ih =>
    obtain ⟨hx, hxs⟩ := h
    intro i
    have nn := leVal_nonneg xs hxs
    cases i with
    | zero => simp only [pow_zero, List.getD_cons_zero, leVal]; omega
    | succ i =>
      have := ih hxs i
      simp only [List.getD_cons_succ, leVal, pow_succ]
      have e : (256 : Int) ^ i * 256 * xs.getD i 0 = 256 * ((256 : Int) ^ i * xs.getD i 0) := by
        rw [Int.mul_comm ((256 : Int) ^ i) 256, Int.mul_assoc]
      rw [e]; omega

theorem mem_bytes (out : List Int) (h : bytesOK out) : ∀ b ∈ out.map Int.toNat, b < 256 := by
  induction out with
  | nil => intro b hb; simp at hb
  | cons x xs ih =>
    obtain ⟨hx, hxs⟩ := h
    intro b hb
    simp only [List.map_cons, List.mem_cons] at hb
    rcases hb with rfl | hb
    · omega
    · exact ih hxs b hb

/-- an encoded scalar is a scalar as the multiplications take it, with the same value -/
theorem encodes_isScalar (out : List Int) (r : Int) (h : Encodes out r) :
    IsScalar (out.map Int.toNat) ∧ ((leNat (out.map Int.toNat) : Nat) : Int) = r := by
  obtain ⟨hb, hl, hv, h0, hL⟩ := h
  refine ⟨⟨by simp [hl], mem_bytes out hb, ?_⟩, by rw [leNat_map out hb, hv]⟩
  have hge := leVal_ge out hb 31
  have e : (out.map Int.toNat).getD 31 0 = (out.getD 31 0).toNat := by
    rw [List.getD_eq_getElem?_getD, List.getD_eq_getElem?_getD, List.getElem?_map]
    cases out[31]? <;> rfl
  rw [e]
  have hLv : L < (256 : Int) ^ 31 * 128 := by decide
  have : out.getD 31 0 < 128 := by
    by_contra hc
    have h128 : (128 : Int) ≤ out.getD 31 0 := by omega
    have : (256 : Int) ^ 31 * 128 ≤ (256 : Int) ^ 31 * out.getD 31 0 := Int.mul_le_mul_of_nonneg_left h128 (by decide)
    omega
  omega

/-- **key blinding on the translated code**: `ScalarMult(SetBytes(h), A)` stands for `(h mod L) • g` -/
theorem blind_mult_translated (x : Nat → Int) (hx : IsBytes x) (q : Point) (g : EdPoint) (hq : ReprP3 q g) :
    ∃ ds, signedRadix16 ((Scalar_SetBytes x).map Int.toNat) = some ds ∧ ReprP3 (scalarMult ds q) ((leFn x 32 % L) • g) := by
  obtain ⟨hs, hv⟩ := encodes_isScalar _ _ (SetBytes_spec x hx)
  obtain ⟨ds, e, r⟩ := Proofs.ScalarMultRefine.scalarMult_correct _ hs q g hq
  exact ⟨ds, e, by rw [← hv]; exact r⟩

/-- **public-key derivation on the translated code**: `ScalarBaseMult(SetBytesWithClamping(h))` stands for `(clamp(h) mod L) • B` -/
theorem pubkey_translated (h : List Nat) (hl : h.length = 32) (hb : ∀ i, h.getD i 0 < 256) :
    ∃ out ds, Model.Clamp.setBytesWithClamping h = some out ∧ signedRadix16 (out.map Int.toNat) = some ds ∧
      ReprP3 (scalarBaseMult basepointTable ds) ((leFn (Model.Clamp.wideBytes h) 64 % L) • Proofs.ScalarBaseMultRefine.basePoint) := by
  obtain ⟨out, eo, enc, _⟩ := Proofs.Clamp.setBytesWithClamping_spec h hl hb
  obtain ⟨hs, hv⟩ := encodes_isScalar _ _ enc
  obtain ⟨ds, e, r⟩ := Proofs.ScalarBaseMultRefine.scalarBaseMult_correct _ hs
  exact ⟨out, ds, eo, e, by rw [← hv]; exact r⟩

end PatVerif.Proofs.ScalarGlue
