import Mathlib.FieldTheory.Finite.Basic
import Mathlib.Tactic.FieldSimp
import PatVerif.Proofs.PrimeP
import PatVerif.Proofs.EdDecode
/-! With p = 2^255 − 19 proved prime (`Proofs/PrimeP`, a Pratt certificate), `ZMod p` is a field: `Invert` is the field inverse,
the point encoder writes the affine coordinates, and the addition law holds with true divisions. -/
namespace PatVerif.Proofs.FeInv
open PatVerif PatVerif.Generated PatVerif.Generated.FeLimbs PatVerif.Generated.EdPoints PatVerif.Proofs.FeHelp PatVerif.Proofs.FeField
  PatVerif.Proofs.EdPoints

theorem P_prime : Nat.Prime P := PrimeP.prime_57896044618658097711785492504343953926634992332820282019728792003956564819949

instance : Fact (Nat.Prime P) := ⟨P_prime⟩

/-- Fermat: a^(p−2) is the inverse (0 ↦ 0) -/
theorem pow_pm2 (a : F) : a ^ 57896044618658097711785492504343953926634992332820282019728792003956564819947 = a⁻¹ := by
  by_cases h0 : a = 0
  · rw [h0, inv_zero]; exact zero_pow (by decide)
  · have hf : a ^ (P - 1) = 1 := ZMod.pow_card_sub_one_eq_one h0
    have : a ^ 57896044618658097711785492504343953926634992332820282019728792003956564819947 * a = 1 := by
      rw [← pow_succ]; exact hf
    exact eq_inv_of_mul_eq_one_left this

/-- `Invert` is the inverse of the field (0 ↦ 0) -/
theorem fv_invert_inv (v z : Element) (hz : Loose z) : Loose (Invert v z) ∧ fv (Invert v z) = (fv z)⁻¹ := by
  obtain ⟨l, e⟩ := fv_invert v z hz
  exact ⟨l, by rw [e, pow_pm2]⟩

/-- `Point.bytes` writes the affine coordinates: the canonical little-endian encoding of y = Y/Z with the parity of x = X/Z in bit 255 -/
theorem Point_bytes_affine (v : Point) (buf : List Nat) (hv : LooseP v) :
    ∃ x y : Element, fv x = fv v.x / fv v.z ∧ fv y = fv v.y / fv v.z ∧
      (Point_bytes v buf).length = 32 ∧ (∀ i, i < 32 → (Point_bytes v buf).getD i 0 < 256) ∧
      FeBytes.leN (fun i => (Point_bytes v buf).getD i 0) 32 =
        val y % P + (val x % P % 2) * 57896044618658097711785492504343953926634992332820282019728792003956564819968 := by
  obtain ⟨x, y, _, _, ex, ey, hl, hb, he⟩ := EdDecode.Point_bytes_spec v buf hv
  exact ⟨x, y, by rw [ex, pow_pm2, div_eq_mul_inv], by rw [ey, pow_pm2, div_eq_mul_inv], hl, hb, he⟩

/-- the affine addition law with true divisions: for operands with Z ≠ 0 whose T is XY/Z and for which the two denominators of
the law do not vanish, the sum has Z ≠ 0 and its affine coordinates are (x₁y₂ + y₁x₂)/(1 + d x₁x₂y₁y₂) and
(y₁y₂ + x₁x₂)/(1 − d x₁x₂y₁y₂) -/
theorem Point_Add_affine (v p q : Point) (hp : LooseP p) (hq : LooseP q)
    (hz1 : fv p.z ≠ 0) (hz2 : fv q.z ≠ 0) (ht1 : fv p.t * fv p.z = fv p.x * fv p.y) (ht2 : fv q.t * fv q.z = fv q.x * fv q.y) :
    let x1 := fv p.x / fv p.z; let y1 := fv p.y / fv p.z; let x2 := fv q.x / fv q.z; let y2 := fv q.y / fv q.z
    1 + dF * x1 * x2 * y1 * y2 ≠ 0 → 1 - dF * x1 * x2 * y1 * y2 ≠ 0 →
    fv (Point_Add v p q).z ≠ 0 ∧
    fv (Point_Add v p q).x / fv (Point_Add v p q).z = (x1 * y2 + y1 * x2) / (1 + dF * x1 * x2 * y1 * y2) ∧
    fv (Point_Add v p q).y / fv (Point_Add v p q).z = (y1 * y2 + x1 * x2) / (1 - dF * x1 * x2 * y1 * y2) := by
  intro x1 y1 x2 y2 hd1 hd2
  have hx1 : fv p.x = x1 * fv p.z := by simp only [x1]; field_simp
  have hy1 : fv p.y = y1 * fv p.z := by simp only [y1]; field_simp
  have hx2 : fv q.x = x2 * fv q.z := by simp only [x2]; field_simp
  have hy2 : fv q.y = y2 * fv q.z := by simp only [y2]; field_simp
  have ht1' : fv p.t = x1 * y1 * fv p.z := by
    have : fv p.t = fv p.x * fv p.y / fv p.z := by field_simp; exact ht1
    rw [this, hx1, hy1]; field_simp
  have ht2' : fv q.t = x2 * y2 * fv q.z := by
    have : fv q.t = fv q.x * fv q.y / fv q.z := by field_simp; exact ht2
    rw [this, hx2, hy2]; field_simp
  obtain ⟨_, ex, ey, ez, et⟩ := Point_Add_spec v p q hp hq
  obtain ⟨l1, l2, _⟩ := Point_Add_law v p q hp hq x1 y1 x2 y2 hx1 hy1 ht1' hx2 hy2 ht2'
  have hz : fv (Point_Add v p q).z ≠ 0 := by
    rw [ez, hx1, hy1, ht1', hx2, hy2, ht2'] at *
    have e : 2 * (fv p.z * fv q.z + dF * (x1 * y1 * fv p.z * (x2 * y2 * fv q.z))) * (2 * (fv p.z * fv q.z - dF * (x1 * y1 * fv p.z * (x2 * y2 * fv q.z))))
        = 4 * (fv p.z * fv q.z) ^ 2 * ((1 + dF * x1 * x2 * y1 * y2) * (1 - dF * x1 * x2 * y1 * y2)) := by ring
    rw [e]
    have h4 : (4 : F) ≠ 0 := by
      intro h
      have : ((4 : ℕ) : F) = 0 := by exact_mod_cast h
      rw [ZMod.natCast_eq_zero_iff] at this
      exact absurd (Nat.le_of_dvd (by decide) this) (by decide)
    exact mul_ne_zero (mul_ne_zero h4 (pow_ne_zero _ (mul_ne_zero hz1 hz2))) (mul_ne_zero hd1 hd2)
  refine ⟨hz, ?_, ?_⟩
  · rw [div_eq_div_iff hz hd1]; linear_combination l1
  · rw [div_eq_div_iff hz hd2]; linear_combination l2

end PatVerif.Proofs.FeInv
