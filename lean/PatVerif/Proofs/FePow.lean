import PatVerif.Proofs.FeMul
/-! The two addition chains of the translated field code: `Pow22523` (x^(2^252-3)) and `Invert` (z^(p-2)). -/
namespace PatVerif.Proofs.FePow
open PatVerif PatVerif.Generated PatVerif.Generated.FeLimbs PatVerif.Proofs.FeHelp PatVerif.Proofs.FeCarry PatVerif.Proofs.FeMul

/-- `e` is loose and stands for `z^k` -/
def Pw (e : Element) (z k : Nat) : Prop := Loose e ∧ val e % P = z ^ k % P

theorem Pw_sq {e : Element} {z k : Nat} (v : Element) (h : Pw e z k) : Pw (Square v e) z (2 * k) := by
  obtain ⟨ht, hv⟩ := Square_spec v e h.1
  refine ⟨ht.loose, ?_⟩
  rw [hv, Nat.mul_mod, h.2, ← Nat.mul_mod, ← Nat.pow_add]; congr 2; omega

theorem Pw_mul {a b : Element} {z j k : Nat} (v : Element) (ha : Pw a z j) (hb : Pw b z k) : Pw (Multiply v a b) z (j + k) := by
  obtain ⟨ht, hv⟩ := Multiply_spec v a b ha.1 hb.1
  refine ⟨ht.loose, ?_⟩
  rw [hv, Nat.mul_mod, ha.2, hb.2, ← Nat.mul_mod, ← Nat.pow_add]

theorem Pw_iter {z : Nat} (n : Nat) : ∀ {t : Element} {k : Nat}, Pw t z k → Pw (U64.iter n (fun t => Square t t) t) z (k * 2 ^ n) := by
  induction n with
  | zero => intro t k h; simpa [U64.iter] using h
  | succ n ih =>
    intro t k h
    have := ih (Pw_sq t h)
    simp only [U64.iter]
    rw [show k * 2 ^ (n + 1) = 2 * k * 2 ^ n by rw [Nat.pow_succ]; ac_rfl]
    exact this

theorem Pw_of_loose {x : Element} (h : Loose x) : Pw x (val x) 1 := ⟨h, by rw [Nat.pow_one]⟩

/-- `Pow22523`: x^(2^252 - 3), through the translated addition chain (steps written by lean/tools/fepow.py) -/
theorem Pow22523_spec (v x : Element) (hl : Loose x) :
    Loose (Pow22523 v x) ∧ val (Pow22523 v x) % P = val x ^ 7237005577332262213973186563042994240829374041602535252466099000494570602493 % P := by
  have hx := Pw_of_loose hl
  generalize val x = z at hx ⊢
  show Pw (Pow22523 v x) z _
  unfold Pow22523
  extract_lets -merge n1 n2 n3 n4 n5 n6 n7 n8 n9 n10 n11 n12 n13 n14 n15 n16 n17 n18 n19 n20 n21 n22 n23 n24 n25 n26 n27 n28 n29 n30 n31 n32 n33 n34
  have h4 : Pw n4 z 2 := Pw_sq _ hx
  have h5 : Pw n5 z 4 := Pw_sq _ h4
  have h6 : Pw n6 z 8 := Pw_sq _ h5
  have h7 : Pw n7 z 9 := Pw_mul _ hx h6
  have h8 : Pw n8 z 11 := Pw_mul _ h4 h7
  have h9 : Pw n9 z 22 := Pw_sq _ h8
  have h10 : Pw n10 z 31 := Pw_mul _ h7 h9
  have h11 : Pw n11 z 62 := Pw_sq _ h10
  have h12 : Pw n12 z 992 := Pw_iter 4 h11
  have h13 : Pw n13 z 1023 := Pw_mul _ h12 h10
  have h14 : Pw n14 z 2046 := Pw_sq _ h13
  have h15 : Pw n15 z 1047552 := Pw_iter 9 h14
  have h16 : Pw n16 z 1048575 := Pw_mul _ h15 h13
  have h17 : Pw n17 z 2097150 := Pw_sq _ h16
  have h18 : Pw n18 z 1099510579200 := Pw_iter 19 h17
  have h19 : Pw n19 z 1099511627775 := Pw_mul _ h18 h16
  have h20 : Pw n20 z 2199023255550 := Pw_sq _ h19
  have h21 : Pw n21 z 1125899906841600 := Pw_iter 9 h20
  have h22 : Pw n22 z 1125899906842623 := Pw_mul _ h21 h13
  have h23 : Pw n23 z 2251799813685246 := Pw_sq _ h22
  have h24 : Pw n24 z 1267650600228228275596796362752 := Pw_iter 49 h23
  have h25 : Pw n25 z 1267650600228229401496703205375 := Pw_mul _ h24 h22
  have h26 : Pw n26 z 2535301200456458802993406410750 := Pw_sq _ h25
  have h27 : Pw n27 z 1606938044258990275541962092339894951921974764381296132096000 := Pw_iter 99 h26
  have h28 : Pw n28 z 1606938044258990275541962092341162602522202993782792835301375 := Pw_mul _ h27 h25
  have h29 : Pw n29 z 3213876088517980551083924184682325205044405987565585670602750 := Pw_sq _ h28
  have h30 : Pw n30 z 1809251394333065553493296640760748560207343510400633813116523624223735808000 := Pw_iter 49 h29
  have h31 : Pw n31 z 1809251394333065553493296640760748560207343510400633813116524750123642650623 := Pw_mul _ h30 h22
  have h32 : Pw n32 z 3618502788666131106986593281521497120414687020801267626233049500247285301246 := Pw_sq _ h31
  have h33 : Pw n33 z 7237005577332262213973186563042994240829374041602535252466099000494570602492 := Pw_sq _ h32
  have h34 : Pw n34 z 7237005577332262213973186563042994240829374041602535252466099000494570602493 := Pw_mul _ h33 hx
  exact h34

/-- `Invert`: z^(p - 2) -/
theorem Invert_spec (v z' : Element) (hl : Loose z') :
    Loose (Invert v z') ∧ val (Invert v z') % P = val z' ^ 57896044618658097711785492504343953926634992332820282019728792003956564819947 % P := by
  have hz := Pw_of_loose hl
  generalize val z' = z at hz ⊢
  show Pw (Invert v z') z _
  unfold Invert
  extract_lets -merge n1 n2 n3 n4 n5 n6 n7 n8 n9 n10 n11 n12 n13 n14 n15 n16 n17 n18 n19 n20 n21 n22 n23 n24 n25 n26 n27 n28 n29 n30 n31 n32 n33 n34 n35 n36 n37 n38 n39 n40 n41 n42 n43
  have h10 : Pw n10 z 2 := Pw_sq _ hz
  have h11 : Pw n11 z 4 := Pw_sq _ h10
  have h12 : Pw n12 z 8 := Pw_sq _ h11
  have h13 : Pw n13 z 9 := Pw_mul _ h12 hz
  have h14 : Pw n14 z 11 := Pw_mul _ h13 h10
  have h15 : Pw n15 z 22 := Pw_sq _ h14
  have h16 : Pw n16 z 31 := Pw_mul _ h15 h13
  have h17 : Pw n17 z 62 := Pw_sq _ h16
  have h18 : Pw n18 z 992 := Pw_iter 4 h17
  have h19 : Pw n19 z 1023 := Pw_mul _ h18 h16
  have h20 : Pw n20 z 2046 := Pw_sq _ h19
  have h21 : Pw n21 z 1047552 := Pw_iter 9 h20
  have h22 : Pw n22 z 1048575 := Pw_mul _ h21 h19
  have h23 : Pw n23 z 2097150 := Pw_sq _ h22
  have h24 : Pw n24 z 1099510579200 := Pw_iter 19 h23
  have h25 : Pw n25 z 1099511627775 := Pw_mul _ h24 h22
  have h26 : Pw n26 z 2199023255550 := Pw_sq _ h25
  have h27 : Pw n27 z 1125899906841600 := Pw_iter 9 h26
  have h28 : Pw n28 z 1125899906842623 := Pw_mul _ h27 h19
  have h29 : Pw n29 z 2251799813685246 := Pw_sq _ h28
  have h30 : Pw n30 z 1267650600228228275596796362752 := Pw_iter 49 h29
  have h31 : Pw n31 z 1267650600228229401496703205375 := Pw_mul _ h30 h28
  have h32 : Pw n32 z 2535301200456458802993406410750 := Pw_sq _ h31
  have h33 : Pw n33 z 1606938044258990275541962092339894951921974764381296132096000 := Pw_iter 99 h32
  have h34 : Pw n34 z 1606938044258990275541962092341162602522202993782792835301375 := Pw_mul _ h33 h31
  have h35 : Pw n35 z 3213876088517980551083924184682325205044405987565585670602750 := Pw_sq _ h34
  have h36 : Pw n36 z 1809251394333065553493296640760748560207343510400633813116523624223735808000 := Pw_iter 49 h35
  have h37 : Pw n37 z 1809251394333065553493296640760748560207343510400633813116524750123642650623 := Pw_mul _ h36 h28
  have h38 : Pw n38 z 3618502788666131106986593281521497120414687020801267626233049500247285301246 := Pw_sq _ h37
  have h39 : Pw n39 z 7237005577332262213973186563042994240829374041602535252466099000494570602492 := Pw_sq _ h38
  have h40 : Pw n40 z 14474011154664524427946373126085988481658748083205070504932198000989141204984 := Pw_sq _ h39
  have h41 : Pw n41 z 28948022309329048855892746252171976963317496166410141009864396001978282409968 := Pw_sq _ h40
  have h42 : Pw n42 z 57896044618658097711785492504343953926634992332820282019728792003956564819936 := Pw_sq _ h41
  have h43 : Pw n43 z 57896044618658097711785492504343953926634992332820282019728792003956564819947 := Pw_mul _ h42 h14
  exact h43

end PatVerif.Proofs.FePow
