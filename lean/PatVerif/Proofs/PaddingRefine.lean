import PatVerif.Generated.Padding
import PatVerif.Proofs.UnpadRefine
/-!
# The translated `padOriginName` / `unpadOriginName` (tokens/type3/client.go) refine the model

`Generated/Padding.lean` is produced from the Go source on every C20 check. The loop of
`unpadOriginName` is translated into a fuel-indexed recursion; the theorem shows that the fuel the
translator supplies is enough and that the result is `Padding.unpad`.
-/
namespace PatVerif.Proofs.PaddingRefine
open PatVerif PatVerif.Partial PatVerif.Padding PatVerif.Proofs.UnpadRefine
open PatVerif.Generated.Padding
set_option linter.unusedSimpArgs false
set_option linter.unusedVariables false

theorem padOriginName_refines (s : Bytes) : padOriginName s = .ok (pad s) := by
  unfold padOriginName pad padLen Go.makeBytes Go.irem Go.len
  have h : ¬ ((31 : Int) - ((s.length : Int) - 1).tmod 32 < 0) := by
    have := Int.tmod_lt_of_pos ((s.length : Int) - 1) (by decide : (0 : Int) < 32)
    omega
  simp only [h, ite_false, Res.bind_ok]

theorem idx_int (p : Bytes) (i : Int) (h0 : 0 ≤ i) (h : i.toNat < p.length) :
    Go.idx p i = .ok (p[i.toNat]'h).toNat := by
  unfold Go.idx
  have : ¬ (i < 0) := by omega
  simp [this, h]

theorem index_nat (p : Bytes) (i : Nat) (h : i < p.length) : index p i = .ok p[i] := by
  unfold index; simp [h]

/-- the translated loop and the literal model's loop walk together -/
theorem loops_agree (p : Bytes) : ∀ (fuel : Nat) (last : Int), -1 ≤ last → last < p.length → last + 1 < (fuel : Int) →
    (unpadOriginName_loop1 p fuel last = .ok (Sum.inl []) ∧ unpadLoop p fuel last = .ok 0) ∨
    (∃ j : Int, 0 ≤ j ∧ unpadOriginName_loop1 p fuel last = .ok (Sum.inr j) ∧ unpadLoop p fuel last = .ok (j.toNat + 1)) := by
  intro fuel
  induction fuel with
  | zero => intro last h1 _ hf; omega
  | succ f ih =>
    intro last hm1 hl hf
    unfold unpadOriginName_loop1 unpadLoop
    by_cases hneg : last < 0
    · left; simp [hneg]
    · have hlt : last.toNat < p.length := by omega
      rw [if_neg hneg, if_neg hneg, idx_int p last (by omega) hlt, index_nat p last.toNat hlt]
      simp only [Res.bind_ok]
      by_cases hz : p[last.toNat] = 0
      · have h1 : ¬ ((p[last.toNat]).toNat ≠ (0x00 : Nat)) := by simp [hz]
        have h2 : ¬ (p[last.toNat] ≠ 0) := by simp [hz]
        rw [if_neg h1, if_neg h2]
        exact ih (last - 1) (by omega) (by omega) (by omega)
      · have h1 : (p[last.toNat]).toNat ≠ (0x00 : Nat) := by
          intro h; apply hz; exact UInt8.toNat_inj.mp (by simpa using h)
        rw [if_pos h1, if_pos hz]
        right
        exact ⟨last, by omega, rfl, rfl⟩

theorem unpadOriginName_refines (p : Bytes) : unpadOriginName p = .ok (unpad p) := by
  unfold unpadOriginName
  obtain ⟨n, hn, hle, ht⟩ := loop_spec p (p.length + 2) (by omega)
  have hag := loops_agree p (p.length + 2) ((p.length : Int) - 1) (by omega) (by omega) (by omega)
  unfold Go.len
  dsimp only
  rcases hag with ⟨hg, hl⟩ | ⟨j, hj, hg, hl⟩
  · rw [hg]
    simp only [Res.bind_ok]
    rw [hl] at hn
    have : n = 0 := by injection hn with h; exact h.symm
    subst this
    rw [← ht]; rfl
  · rw [hg]
    simp only [Res.bind_ok]
    rw [hl] at hn
    have hnj : n = j.toNat + 1 := by injection hn with h; exact h.symm
    unfold Go.slice
    have hc : ¬ ((0 : Int) < 0 ∨ j + 1 < 0 ∨ j + 1 > (p.length : Int)) := by omega
    rw [if_neg hc]
    simp only [Res.bind_ok]
    have : (j + 1).toNat - (0 : Int).toNat = n := by omega
    rw [← ht]
    simp [this]
    omega

end PatVerif.Proofs.PaddingRefine
