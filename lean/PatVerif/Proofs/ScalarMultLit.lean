import PatVerif.Model.ScalarMultLit
import PatVerif.Proofs.FeMisc
/-!
# The constant-time table selection of `tables.go`, as transcribed in `Model/ScalarMultLit.lean` (C14, C15)

`SelectInto` computes `|x|` with the `int8` sign trick, walks over all eight entries with `Select` under `ConstantTimeByteEq` and
negates under the sign bit. Proved here about the literal transcription over the translated `Select`/`Swap`: the sign trick is the
absolute value for every `int8`, and the walk returns entry `|x| − 1` for `1 ≤ |x| ≤ 8` and the zero element otherwise, then
`CondNeg` under `x < 0` — which is `Model/ScalarMultAlg.selectCT` read on representations.
-/
namespace PatVerif.Proofs.ScalarMultLit
open PatVerif PatVerif.Generated PatVerif.Generated.FeLimbs PatVerif.Generated.EdPoints PatVerif.Model.Recode PatVerif.Model.ScalarMultLit
  PatVerif.Proofs.FeHelp PatVerif.Proofs.FeMisc

/-- `uint8((x + (x>>7)) ^ (x>>7))` is `|x|` for every `int8` -/
theorem xabs_eq (x : Int) (h1 : -128 ≤ x) (h2 : x ≤ 127) : xabs x = x.natAbs := by
  unfold xabs wrap8
  by_cases hx : x < 0
  · have e : x / 128 = -1 := by omega
    simp only [e]
    split <;> omega
  · have e : x / 128 = 0 := by omega
    simp only [e, ite_true]
    omega

def WordC (q : projCached) : Prop := Word q.YplusX ∧ Word q.YminusX ∧ Word q.Z ∧ Word q.T2d
def WordA (q : affineCached) : Prop := Word q.YplusX ∧ Word q.YminusX ∧ Word q.T2d

theorem projCached_Select_one (v a b : projCached) (ha : WordC a) : projCached_Select v a b 1 = a := by
  obtain ⟨h1, h2, h3, h4⟩ := ha
  cases a
  simp only [projCached_Select, Select_one _ _ _ h1, Select_one _ _ _ h2, Select_one _ _ _ h3, Select_one _ _ _ h4]

theorem projCached_Select_zero (v a b : projCached) (hb : WordC b) : projCached_Select v a b 0 = b := by
  obtain ⟨h1, h2, h3, h4⟩ := hb
  cases b
  simp only [projCached_Select, Select_zero _ _ _ h1, Select_zero _ _ _ h2, Select_zero _ _ _ h3, Select_zero _ _ _ h4]

theorem affineCached_Select_one (v a b : affineCached) (ha : WordA a) : affineCached_Select v a b 1 = a := by
  obtain ⟨h1, h2, h3⟩ := ha
  cases a
  simp only [affineCached_Select, Select_one _ _ _ h1, Select_one _ _ _ h2, Select_one _ _ _ h3]

theorem affineCached_Select_zero (v a b : affineCached) (hb : WordA b) : affineCached_Select v a b 0 = b := by
  obtain ⟨h1, h2, h3⟩ := hb
  cases b
  simp only [affineCached_Select, Select_zero _ _ _ h1, Select_zero _ _ _ h2, Select_zero _ _ _ h3]

/-- the walk over the first `n` entries -/
theorem walkProj (table : List projCached) (a : Nat) (dest0 : projCached) (hw : ∀ j, WordC (table.getD j zC)) (h0 : WordC dest0) (n : Nat) :
    (List.range n).foldl (fun dest j => projCached_Select dest (table.getD j zC) dest (if a = j + 1 then 1 else 0)) dest0
      = if 1 ≤ a ∧ a ≤ n then table.getD (a - 1) zC else dest0 := by
  induction n with
  | zero => simp; omega
  | succ n ih =>
    rw [List.range_succ, List.foldl_append, ih]
    simp only [List.foldl_cons, List.foldl_nil]
    by_cases e : a = n + 1
    · subst e
      simp only [ite_true, Nat.add_sub_cancel]
      rw [projCached_Select_one _ _ _ (hw n)]
      simp
    · simp only [e, ite_false]
      have hr : WordC (if 1 ≤ a ∧ a ≤ n then table.getD (a - 1) zC else dest0) := by
        split
        · exact hw _
        · exact h0
      rw [projCached_Select_zero _ _ _ hr]
      by_cases c : 1 ≤ a ∧ a ≤ n
      · rw [if_pos c, if_pos ⟨c.1, by omega⟩]
      · rw [if_neg c, if_neg (by omega)]

theorem walkAff (table : List affineCached) (a : Nat) (dest0 : affineCached) (hw : ∀ j, WordA (table.getD j zA)) (h0 : WordA dest0) (n : Nat) :
    (List.range n).foldl (fun dest j => affineCached_Select dest (table.getD j zA) dest (if a = j + 1 then 1 else 0)) dest0
      = if 1 ≤ a ∧ a ≤ n then table.getD (a - 1) zA else dest0 := by
  induction n with
  | zero => simp; omega
  | succ n ih =>
    rw [List.range_succ, List.foldl_append, ih]
    simp only [List.foldl_cons, List.foldl_nil]
    by_cases e : a = n + 1
    · subst e
      simp only [ite_true, Nat.add_sub_cancel]
      rw [affineCached_Select_one _ _ _ (hw n)]
      simp
    · simp only [e, ite_false]
      have hr : WordA (if 1 ≤ a ∧ a ≤ n then table.getD (a - 1) zA else dest0) := by
        split
        · exact hw _
        · exact h0
      rw [affineCached_Select_zero _ _ _ hr]
      by_cases c : 1 ≤ a ∧ a ≤ n
      · rw [if_pos c, if_pos ⟨c.1, by omega⟩]
      · rw [if_neg c, if_neg (by omega)]

theorem word_zero : Word ze := by simp [Word, ze]
theorem wordC_zC : WordC zC := ⟨word_zero, word_zero, word_zero, word_zero⟩
theorem wordA_zA : WordA zA := ⟨word_zero, word_zero, word_zero⟩

theorem wordC_Zero : WordC (projCached_Zero zC) := by
  simp only [projCached_Zero, zC, ze, WordC, Word, FeLimbs.One, FeLimbs.Zero, FeLimbs.feOne, FeLimbs.feZero]; omega
theorem wordA_Zero : WordA (affineCached_Zero zA) := by
  simp only [affineCached_Zero, zA, ze, WordA, Word, FeLimbs.One, FeLimbs.Zero, FeLimbs.feOne, FeLimbs.feZero]; omega

/-- **`projLookupTable.SelectInto`**: entry `|x| − 1` for `1 ≤ |x| ≤ 8`, the zero element otherwise, negated under the sign -/
theorem selectProj_eq (table : List projCached) (x : Int) (h1 : -128 ≤ x) (h2 : x ≤ 127) (hw : ∀ j, WordC (table.getD j zC)) :
    selectProj table x = projCached_CondNeg
      (if 1 ≤ x.natAbs ∧ x.natAbs ≤ 8 then table.getD (x.natAbs - 1) zC else projCached_Zero zC) (if x < 0 then 1 else 0) := by
  unfold selectProj
  simp only [xabs_eq x h1 h2, walkProj table x.natAbs _ hw wordC_Zero 8]

/-- **`affineLookupTable.SelectInto`** -/
theorem selectAff_eq (table : List affineCached) (x : Int) (h1 : -128 ≤ x) (h2 : x ≤ 127) (hw : ∀ j, WordA (table.getD j zA)) :
    selectAff table x = affineCached_CondNeg
      (if 1 ≤ x.natAbs ∧ x.natAbs ≤ 8 then table.getD (x.natAbs - 1) zA else affineCached_Zero zA) (if x < 0 then 1 else 0) := by
  unfold selectAff
  simp only [xabs_eq x h1 h2, walkAff table x.natAbs _ hw wordA_Zero 8]

end PatVerif.Proofs.ScalarMultLit
