import PatVerif.Generated.Skeletons
/-!
# The digit recodings and the table-driven scalar multiplications, statement by statement (C14, C15)

`Model/Recode.lean` (the literal model of `signedRadix16` and `nonAdjacentForm`) and `Model/ScalarMultAlg.lean` (the three
multiplication loops of `scalarmult.go` and the four lookup tables of `tables.go` over an abstract group) are hand-written. This file
pins the Go text they were written against: every statement, loop header, condition and return of the fifteen functions, in source
order, as extracted from /repo on every run (`extract/cmd/skeleton`, targets with `loops`). What each model relies on:

* `signedRadix16`: 64 nibbles low-to-high, then 63 recentering rounds `carry := (d+8)>>4; d -= carry<<4; next += carry` in `int8`;
  the last digit only absorbs the carry (`Recode.recenter`).
* `nonAdjacentForm`: five little-endian words, `pos`/`carry` loop, window of `w` bits taken from one or two words, even window ⇒ `pos += 1`
  with the carry kept, odd window ⇒ digit `window` or `window − 2^w` (in `int8`), `pos += w` (`Recode.nafLoop`).
* `ScalarBaseMult`: table `i` holds `1..8` times `256^i·B` (`basepointTable`: eight doublings between tables); odd digits first, four
  doublings, then even digits (`ScalarMultAlg.baseMult`).
* `ScalarMult`: table of `1..8` times `Q`; digits high to low, four doublings between digits (`ScalarMultAlg.varMult`).
* `VarTimeDoubleScalarBaseMult`: tables of the odd multiples `1,3,…,15` of `A` and `1,3,…,127` of `B`; one doubling per position, `±table[|d|/2]`
  for each non-zero NAF digit (`ScalarMultAlg.doubleMult`). The skipping of leading zero positions (`for j := i; …; break`) never moves `i`
  — it is dead code in the source, and the model starts at position 255 as the code does.
* `SelectInto` (constant time): `|x|` by `(x + (x>>7)) ^ (x>>7)`, entry `|x| − 1` for `1 ≤ |x| ≤ 8`, the zero element otherwise, negated
  when `x < 0`; (variable time): entry `x/2`.
-/
namespace PatVerif.Proofs.SkelScalarMult

/-- ed25519/internal/edwards25519: Scalar.signedRadix16 -/
def expected_sc_signedRadix16 : List String :=
  ["if s.s[31] > 127 {",
   "stmt panic(\"scalar has high bit set illegally\")",
   "call panic",
   "}",
   "stmt var digits [64]int8",
   "for i := 0; i < 32; i++ {",
   "stmt digits[2*i] = int8(s.s[i] & 15)",
   "call int8",
   "store digits[2*i]",
   "stmt digits[2*i+1] = int8((s.s[i] >> 4) & 15)",
   "call int8",
   "store digits[2*i+1]",
   "}",
   "for i := 0; i < 63; i++ {",
   "stmt carry := (digits[i] + 8) >> 4",
   "stmt digits[i] -= carry << 4",
   "store digits[i]",
   "stmt digits[i+1] += carry",
   "store digits[i+1]",
   "}",
   "return value: return digits"]

theorem sc_signedRadix16_as_modelled : Generated.Skeletons.sc_signedRadix16 = expected_sc_signedRadix16 := rfl

/-- ed25519/internal/edwards25519: Scalar.nonAdjacentForm -/
def expected_sc_nonAdjacentForm : List String :=
  ["if s.s[31] > 127 {",
   "stmt panic(\"scalar has high bit set illegally\")",
   "call panic",
   "}",
   "if w < 2 {",
   "stmt panic(\"w must be at least 2 by the definition of NAF\")",
   "call panic",
   "} else {",
   "if w > 8 {",
   "stmt panic(\"NAF digits must fit in int8\")",
   "call panic",
   "}",
   "}",
   "stmt var naf [256]int8",
   "stmt var digits [5]uint64",
   "for i := 0; i < 4; i++ {",
   "stmt digits[i] = binary.LittleEndian.Uint64(s.s[i*8:])",
   "call (…).Uint64",
   "store digits[i]",
   "}",
   "stmt width := uint64(1 << w)",
   "stmt windowMask := uint64(width - 1)",
   "stmt pos := uint(0)",
   "call uint",
   "stmt carry := uint64(0)",
   "for ; pos < 256;  {",
   "stmt indexU64 := pos / 64",
   "stmt indexBit := pos % 64",
   "stmt var bitBuf uint64",
   "if indexBit < 64-w {",
   "stmt bitBuf = digits[indexU64] >> indexBit",
   "} else {",
   "stmt bitBuf = (digits[indexU64] >> indexBit) | (digits[1+indexU64] << (64 - indexBit))",
   "}",
   "stmt window := carry + (bitBuf & windowMask)",
   "if window&1 == 0 {",
   "stmt pos += 1",
   "continue",
   "}",
   "if window < width/2 {",
   "stmt carry = 0",
   "stmt naf[pos] = int8(window)",
   "call int8",
   "store naf[pos]",
   "} else {",
   "stmt carry = 1",
   "stmt naf[pos] = int8(window) - int8(width)",
   "call int8",
   "call int8",
   "store naf[pos]",
   "}",
   "stmt pos += w",
   "}",
   "return value: return naf"]

theorem sc_nonAdjacentForm_as_modelled : Generated.Skeletons.sc_nonAdjacentForm = expected_sc_nonAdjacentForm := rfl

/-- ed25519/internal/edwards25519: .basepointTable -/
def expected_sm_basepointTable : List String :=
  ["stmt basepointTablePrecomp.initOnce.Do(func() { p := NewGeneratorPoint() for i := 0; i < 32; i++ { basepointTablePrecomp.table[i].FromP3(p) for j := 0; j < 8; j++ { p.Add(p, p) } } })",
   "call (…).Do",
   "return value: return &basepointTablePrecomp.table"]

theorem sm_basepointTable_as_modelled : Generated.Skeletons.sm_basepointTable = expected_sm_basepointTable := rfl

/-- ed25519/internal/edwards25519: .basepointNafTable -/
def expected_sm_basepointNafTable : List String :=
  ["stmt basepointNafTablePrecomp.initOnce.Do(func() { basepointNafTablePrecomp.table.FromP3(NewGeneratorPoint()) })",
   "call (…).Do",
   "return value: return &basepointNafTablePrecomp.table"]

theorem sm_basepointNafTable_as_modelled : Generated.Skeletons.sm_basepointNafTable = expected_sm_basepointNafTable := rfl

/-- ed25519/internal/edwards25519: Point.ScalarBaseMult -/
def expected_sm_ScalarBaseMult : List String :=
  ["stmt basepointTable := basepointTable()",
   "call basepointTable",
   "stmt digits := x.signedRadix16()",
   "call x.signedRadix16",
   "stmt multiple := &affineCached{}",
   "stmt tmp1 := &projP1xP1{}",
   "stmt tmp2 := &projP2{}",
   "stmt v.Set(NewIdentityPoint())",
   "call v.Set",
   "call NewIdentityPoint",
   "for i := 1; i < 64; i += 2 {",
   "stmt basepointTable[i/2].SelectInto(multiple, digits[i])",
   "call (…).SelectInto",
   "stmt tmp1.AddAffine(v, multiple)",
   "call tmp1.AddAffine",
   "stmt v.fromP1xP1(tmp1)",
   "call v.fromP1xP1",
   "}",
   "stmt tmp2.FromP3(v)",
   "call tmp2.FromP3",
   "stmt tmp1.Double(tmp2)",
   "call tmp1.Double",
   "stmt tmp2.FromP1xP1(tmp1)",
   "call tmp2.FromP1xP1",
   "stmt tmp1.Double(tmp2)",
   "call tmp1.Double",
   "stmt tmp2.FromP1xP1(tmp1)",
   "call tmp2.FromP1xP1",
   "stmt tmp1.Double(tmp2)",
   "call tmp1.Double",
   "stmt tmp2.FromP1xP1(tmp1)",
   "call tmp2.FromP1xP1",
   "stmt tmp1.Double(tmp2)",
   "call tmp1.Double",
   "stmt v.fromP1xP1(tmp1)",
   "call v.fromP1xP1",
   "for i := 0; i < 64; i += 2 {",
   "stmt basepointTable[i/2].SelectInto(multiple, digits[i])",
   "call (…).SelectInto",
   "stmt tmp1.AddAffine(v, multiple)",
   "call tmp1.AddAffine",
   "stmt v.fromP1xP1(tmp1)",
   "call v.fromP1xP1",
   "}",
   "return value: return v"]

theorem sm_ScalarBaseMult_as_modelled : Generated.Skeletons.sm_ScalarBaseMult = expected_sm_ScalarBaseMult := rfl

/-- ed25519/internal/edwards25519: Point.ScalarMult -/
def expected_sm_ScalarMult : List String :=
  ["stmt checkInitialized(q)",
   "call checkInitialized",
   "stmt var table projLookupTable",
   "stmt table.FromP3(q)",
   "call table.FromP3",
   "stmt digits := x.signedRadix16()",
   "call x.signedRadix16",
   "stmt multiple := &projCached{}",
   "stmt tmp1 := &projP1xP1{}",
   "stmt tmp2 := &projP2{}",
   "stmt table.SelectInto(multiple, digits[63])",
   "call table.SelectInto",
   "stmt v.Set(NewIdentityPoint())",
   "call v.Set",
   "call NewIdentityPoint",
   "stmt tmp1.Add(v, multiple)",
   "call tmp1.Add",
   "for i := 62; i >= 0; i-- {",
   "stmt tmp2.FromP1xP1(tmp1)",
   "call tmp2.FromP1xP1",
   "stmt tmp1.Double(tmp2)",
   "call tmp1.Double",
   "stmt tmp2.FromP1xP1(tmp1)",
   "call tmp2.FromP1xP1",
   "stmt tmp1.Double(tmp2)",
   "call tmp1.Double",
   "stmt tmp2.FromP1xP1(tmp1)",
   "call tmp2.FromP1xP1",
   "stmt tmp1.Double(tmp2)",
   "call tmp1.Double",
   "stmt tmp2.FromP1xP1(tmp1)",
   "call tmp2.FromP1xP1",
   "stmt tmp1.Double(tmp2)",
   "call tmp1.Double",
   "stmt v.fromP1xP1(tmp1)",
   "call v.fromP1xP1",
   "stmt table.SelectInto(multiple, digits[i])",
   "call table.SelectInto",
   "stmt tmp1.Add(v, multiple)",
   "call tmp1.Add",
   "}",
   "stmt v.fromP1xP1(tmp1)",
   "call v.fromP1xP1",
   "return value: return v"]

theorem sm_ScalarMult_as_modelled : Generated.Skeletons.sm_ScalarMult = expected_sm_ScalarMult := rfl

/-- ed25519/internal/edwards25519: Point.VarTimeDoubleScalarBaseMult -/
def expected_sm_VarTimeDoubleScalarBaseMult : List String :=
  ["stmt checkInitialized(A)",
   "call checkInitialized",
   "stmt basepointNafTable := basepointNafTable()",
   "call basepointNafTable",
   "stmt var aTable nafLookupTable5",
   "stmt aTable.FromP3(A)",
   "call aTable.FromP3",
   "stmt aNaf := a.nonAdjacentForm(5)",
   "call a.nonAdjacentForm",
   "stmt bNaf := b.nonAdjacentForm(8)",
   "call b.nonAdjacentForm",
   "stmt i := 255",
   "for j := i; j >= 0; j-- {",
   "if aNaf[j] != 0 || bNaf[j] != 0 {",
   "break",
   "}",
   "}",
   "stmt multA := &projCached{}",
   "stmt multB := &affineCached{}",
   "stmt tmp1 := &projP1xP1{}",
   "stmt tmp2 := &projP2{}",
   "stmt tmp2.Zero()",
   "call tmp2.Zero",
   "for ; i >= 0; i-- {",
   "stmt tmp1.Double(tmp2)",
   "call tmp1.Double",
   "if aNaf[i] > 0 {",
   "stmt v.fromP1xP1(tmp1)",
   "call v.fromP1xP1",
   "stmt aTable.SelectInto(multA, aNaf[i])",
   "call aTable.SelectInto",
   "stmt tmp1.Add(v, multA)",
   "call tmp1.Add",
   "} else {",
   "if aNaf[i] < 0 {",
   "stmt v.fromP1xP1(tmp1)",
   "call v.fromP1xP1",
   "stmt aTable.SelectInto(multA, -aNaf[i])",
   "call aTable.SelectInto",
   "stmt tmp1.Sub(v, multA)",
   "call tmp1.Sub",
   "}",
   "}",
   "if bNaf[i] > 0 {",
   "stmt v.fromP1xP1(tmp1)",
   "call v.fromP1xP1",
   "stmt basepointNafTable.SelectInto(multB, bNaf[i])",
   "call basepointNafTable.SelectInto",
   "stmt tmp1.AddAffine(v, multB)",
   "call tmp1.AddAffine",
   "} else {",
   "if bNaf[i] < 0 {",
   "stmt v.fromP1xP1(tmp1)",
   "call v.fromP1xP1",
   "stmt basepointNafTable.SelectInto(multB, -bNaf[i])",
   "call basepointNafTable.SelectInto",
   "stmt tmp1.SubAffine(v, multB)",
   "call tmp1.SubAffine",
   "}",
   "}",
   "stmt tmp2.FromP1xP1(tmp1)",
   "call tmp2.FromP1xP1",
   "}",
   "stmt v.fromP2(tmp2)",
   "call v.fromP2",
   "return value: return v"]

theorem sm_VarTimeDoubleScalarBaseMult_as_modelled : Generated.Skeletons.sm_VarTimeDoubleScalarBaseMult = expected_sm_VarTimeDoubleScalarBaseMult := rfl

/-- ed25519/internal/edwards25519: projLookupTable.FromP3 -/
def expected_tb_proj_FromP3 : List String :=
  ["stmt v.points[0].FromP3(q)",
   "call (…).FromP3",
   "stmt tmpP3 := Point{}",
   "stmt tmpP1xP1 := projP1xP1{}",
   "for i := 0; i < 7; i++ {",
   "stmt v.points[i+1].FromP3(tmpP3.fromP1xP1(tmpP1xP1.Add(q, &v.points[i])))",
   "call (…).FromP3",
   "call tmpP3.fromP1xP1",
   "call tmpP1xP1.Add",
   "}"]

theorem tb_proj_FromP3_as_modelled : Generated.Skeletons.tb_proj_FromP3 = expected_tb_proj_FromP3 := rfl

/-- ed25519/internal/edwards25519: affineLookupTable.FromP3 -/
def expected_tb_affine_FromP3 : List String :=
  ["stmt v.points[0].FromP3(q)",
   "call (…).FromP3",
   "stmt tmpP3 := Point{}",
   "stmt tmpP1xP1 := projP1xP1{}",
   "for i := 0; i < 7; i++ {",
   "stmt v.points[i+1].FromP3(tmpP3.fromP1xP1(tmpP1xP1.AddAffine(q, &v.points[i])))",
   "call (…).FromP3",
   "call tmpP3.fromP1xP1",
   "call tmpP1xP1.AddAffine",
   "}"]

theorem tb_affine_FromP3_as_modelled : Generated.Skeletons.tb_affine_FromP3 = expected_tb_affine_FromP3 := rfl

/-- ed25519/internal/edwards25519: nafLookupTable5.FromP3 -/
def expected_tb_naf5_FromP3 : List String :=
  ["stmt v.points[0].FromP3(q)",
   "call (…).FromP3",
   "stmt q2 := Point{}",
   "stmt q2.Add(q, q)",
   "call q2.Add",
   "stmt tmpP3 := Point{}",
   "stmt tmpP1xP1 := projP1xP1{}",
   "for i := 0; i < 7; i++ {",
   "stmt v.points[i+1].FromP3(tmpP3.fromP1xP1(tmpP1xP1.Add(&q2, &v.points[i])))",
   "call (…).FromP3",
   "call tmpP3.fromP1xP1",
   "call tmpP1xP1.Add",
   "}"]

theorem tb_naf5_FromP3_as_modelled : Generated.Skeletons.tb_naf5_FromP3 = expected_tb_naf5_FromP3 := rfl

/-- ed25519/internal/edwards25519: nafLookupTable8.FromP3 -/
def expected_tb_naf8_FromP3 : List String :=
  ["stmt v.points[0].FromP3(q)",
   "call (…).FromP3",
   "stmt q2 := Point{}",
   "stmt q2.Add(q, q)",
   "call q2.Add",
   "stmt tmpP3 := Point{}",
   "stmt tmpP1xP1 := projP1xP1{}",
   "for i := 0; i < 63; i++ {",
   "stmt v.points[i+1].FromP3(tmpP3.fromP1xP1(tmpP1xP1.AddAffine(&q2, &v.points[i])))",
   "call (…).FromP3",
   "call tmpP3.fromP1xP1",
   "call tmpP1xP1.AddAffine",
   "}"]

theorem tb_naf8_FromP3_as_modelled : Generated.Skeletons.tb_naf8_FromP3 = expected_tb_naf8_FromP3 := rfl

/-- ed25519/internal/edwards25519: projLookupTable.SelectInto -/
def expected_tb_proj_SelectInto : List String :=
  ["stmt xmask := x >> 7",
   "stmt xabs := uint8((x + xmask) ^ xmask)",
   "stmt dest.Zero()",
   "call dest.Zero",
   "for j := 1; j <= 8; j++ {",
   "stmt cond := subtle.ConstantTimeByteEq(xabs, uint8(j))",
   "call subtle.ConstantTimeByteEq",
   "stmt dest.Select(&v.points[j-1], dest, cond)",
   "call dest.Select",
   "}",
   "stmt dest.CondNeg(int(xmask & 1))",
   "call dest.CondNeg"]

theorem tb_proj_SelectInto_as_modelled : Generated.Skeletons.tb_proj_SelectInto = expected_tb_proj_SelectInto := rfl

/-- ed25519/internal/edwards25519: affineLookupTable.SelectInto -/
def expected_tb_affine_SelectInto : List String :=
  ["stmt xmask := x >> 7",
   "stmt xabs := uint8((x + xmask) ^ xmask)",
   "stmt dest.Zero()",
   "call dest.Zero",
   "for j := 1; j <= 8; j++ {",
   "stmt cond := subtle.ConstantTimeByteEq(xabs, uint8(j))",
   "call subtle.ConstantTimeByteEq",
   "stmt dest.Select(&v.points[j-1], dest, cond)",
   "call dest.Select",
   "}",
   "stmt dest.CondNeg(int(xmask & 1))",
   "call dest.CondNeg"]

theorem tb_affine_SelectInto_as_modelled : Generated.Skeletons.tb_affine_SelectInto = expected_tb_affine_SelectInto := rfl

/-- ed25519/internal/edwards25519: nafLookupTable5.SelectInto -/
def expected_tb_naf5_SelectInto : List String :=
  ["stmt *dest = v.points[x/2]"]

theorem tb_naf5_SelectInto_as_modelled : Generated.Skeletons.tb_naf5_SelectInto = expected_tb_naf5_SelectInto := rfl

/-- ed25519/internal/edwards25519: nafLookupTable8.SelectInto -/
def expected_tb_naf8_SelectInto : List String :=
  ["stmt *dest = v.points[x/2]"]

theorem tb_naf8_SelectInto_as_modelled : Generated.Skeletons.tb_naf8_SelectInto = expected_tb_naf8_SelectInto := rfl

/-! `SetBytesWithClamping` (`Model/Clamp.lean`): copy into a zeroed 64-byte buffer, `&= 248`, `&= 63`, `|= 64`, `scReduce` -/
/-- ed25519/internal/edwards25519: Scalar.SetBytesWithClamping -/
def expected_sc_SetBytesWithClamping : List String :=
  ["if len(x) != 32 {",
   "stmt panic(\"edwards25519: invalid SetBytesWithClamping input length\")",
   "call panic",
   "}",
   "stmt var wideBytes [64]byte",
   "stmt copy(wideBytes[:], x[:])",
   "stmt wideBytes[0] &= 248",
   "store wideBytes[0]",
   "stmt wideBytes[31] &= 63",
   "store wideBytes[31]",
   "stmt wideBytes[31] |= 64",
   "store wideBytes[31]",
   "stmt scReduce(&s.s, &wideBytes)",
   "call scReduce",
   "return value: return s"]

theorem sc_SetBytesWithClamping_as_modelled : Generated.Skeletons.sc_SetBytesWithClamping = expected_sc_SetBytesWithClamping := rfl

end PatVerif.Proofs.SkelScalarMult
