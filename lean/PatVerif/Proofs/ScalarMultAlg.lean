import Mathlib.Algebra.Module.Basic
import Mathlib.Algebra.BigOperators.Group.Finset.Basic
import Mathlib.Algebra.Module.BigOperators
import Mathlib.Tactic.Abel
import Mathlib.Tactic.Module
import Mathlib.Tactic.Ring
import Mathlib.Tactic.Linarith
import PatVerif.Model.ScalarMultAlg
import PatVerif.Model.Recode
/-!
# In every commutative group the table-driven loops compute the scalar multiples (C14, C15)

For the algorithm skeletons of `Model/ScalarMultAlg.lean` instantiated with the operations of an arbitrary commutative group:
`varMult digits Q = (Σ dᵢ 16ⁱ) • Q`, `baseMult digits B = (Σ dᵢ 16ⁱ) • B` for any 64 digits with `|dᵢ| ≤ 8`, and
`doubleMult aNaf bNaf A B = some ((Σ aᵢ 2ⁱ) • A + (Σ bᵢ 2ⁱ) • B)` for any digit lists of equal length whose entries are zero or odd
with `|aᵢ| < 16`, `|bᵢ| < 128` — in particular no table lookup of the variable-time loop leaves its table (`some`).
Together with `Proofs/Recode.lean` (the digits represent the scalar and lie in these sets) this is the correctness of the three
multiplications relative to the group laws; that the point formulas of the Go code form a group on the curve is
`Proofs/EdGroup.lean`.
-/
namespace PatVerif.Proofs.ScalarMultAlg
open PatVerif.Model.ScalarMultAlg PatVerif.Model.Recode

variable {G : Type} [AddCommGroup G]

/-- the operations of a commutative group -/
def grp : Ops G := ⟨0, (· + ·), Neg.neg⟩

@[simp] theorem dbl_eq (x : G) : dbl grp x = (2 : ℤ) • x := by simp [dbl, grp, two_zsmul]
@[simp] theorem dbl4_eq (x : G) : dbl4 grp x = (16 : ℤ) • x := by
  simp only [dbl4, dbl_eq, smul_smul]; norm_num
@[simp] theorem dbl8_eq (x : G) : dbl8 grp x = (256 : ℤ) • x := by
  simp only [dbl8, dbl4_eq, smul_smul]; norm_num

theorem tableFrom_length (step : G) (n : Nat) (cur : G) : (tableFrom grp step n cur).length = n := by
  induction n generalizing cur with
  | zero => rfl
  | succ n ih => simp [tableFrom, ih]

theorem tableFrom_get (step : G) (n : Nat) (cur : G) (i : Nat) (h : i < n) :
    (tableFrom grp step n cur)[i]? = some (cur + (i : ℤ) • step) := by
  induction n generalizing cur i with
  | zero => omega
  | succ n ih =>
    cases i with
    | zero => simp [tableFrom]
    | succ i =>
      simp only [tableFrom, List.getElem?_cons_succ]
      rw [ih _ _ (by omega)]
      simp only [grp, Nat.cast_succ, add_smul, one_smul]
      congr 1; abel

/-- entry `j` of `q, 2q, …, 8q` -/
theorem lookupTable_get (q : G) (j : Nat) (h : j < 8) : (lookupTable grp q).getD j 0 = ((j : ℤ) + 1) • q := by
  simp only [lookupTable, List.getD_eq_getElem?_getD, tableFrom_get q 8 q j h, Option.getD_some, add_smul, one_smul]
  abel

/-- the constant-time selection returns `x • q` for every digit with `|x| ≤ 8` -/
theorem selectCT_spec (q : G) (x : Int) (h : x.natAbs ≤ 8) : selectCT grp (lookupTable grp q) x = x • q := by
  unfold selectCT
  by_cases h0 : x = 0
  · subst h0; simp [grp]
  · have h1 : 1 ≤ x.natAbs := by omega
    simp only [h1, h, and_self, ite_true]
    have hz : (grp : Ops G).zero = 0 := rfl
    rw [hz, lookupTable_get q (x.natAbs - 1) (by omega)]
    have e : ((x.natAbs - 1 : ℕ) : ℤ) + 1 = |x| := by
      rw [Int.abs_eq_natAbs]; omega
    rw [e]
    by_cases hn : x < 0
    · simp only [hn, ite_true, grp]
      rw [abs_of_neg hn, neg_smul, neg_neg]
    · simp only [hn, ite_false]
      rw [abs_of_nonneg (by omega)]

/-- `ScalarMult`: Horner's rule over the digits from the top -/
theorem varMult_spec (digits : List Int) (q : G) (h : ∀ d ∈ digits, d.natAbs ≤ 8) :
    varMult grp digits q = evalDigits 4 digits • q := by
  have key : ∀ l : List Int, (∀ d ∈ l, d.natAbs ≤ 8) →
      l.reverse.foldl (fun t d => (grp : Ops G).add (dbl4 grp t) (selectCT grp (lookupTable grp q) d)) 0 = evalDigits 4 l • q := by
    intro l hl
    induction l with
    | nil => simp [evalDigits]
    | cons d ds ih =>
      rw [List.reverse_cons, List.foldl_append, List.foldl_cons, List.foldl_nil, ih (fun x hx => hl x (List.mem_cons_of_mem _ hx))]
      rw [selectCT_spec q d (hl d List.mem_cons_self), dbl4_eq]
      simp only [grp, evalDigits, smul_smul, add_smul]
      norm_num; abel
  unfold varMult
  have := key digits h
  cases hr : digits.reverse with
  | nil => rw [hr] at this; simpa [grp] using this
  | cons top rest =>
    rw [hr, List.foldl_cons] at this
    simp only
    rw [← this]
    congr 1
    simp [grp, dbl4, dbl]

theorem foldl_range (f : ℕ → G) (z : G) (n : ℕ) :
    (List.range n).foldl (fun v j => (grp : Ops G).add v (f j)) z = z + ∑ j ∈ Finset.range n, f j := by
  induction n with
  | zero => simp
  | succ n ih =>
    rw [List.range_succ, List.foldl_append, ih, Finset.sum_range_succ]
    simp only [List.foldl_cons, List.foldl_nil, grp]; abel

theorem baseTables_get (n : Nat) (p : G) (j : Nat) (h : j < n) :
    (baseTables grp n p).getD j [] = lookupTable grp (((256 : ℤ) ^ j) • p) := by
  induction n generalizing p j with
  | zero => omega
  | succ n ih =>
    cases j with
    | zero => simp [baseTables]
    | succ j =>
      simp only [baseTables, List.getD_cons_succ]
      rw [ih _ _ (by omega), dbl8_eq, smul_smul, pow_succ]

/-- 2n radix-16 digits, two per byte position -/
theorem evalDigits_pairs (n : Nat) (l : List Int) (h : l.length = 2 * n) :
    evalDigits 4 l = ∑ j ∈ Finset.range n, (l.getD (2 * j) 0 + 16 * l.getD (2 * j + 1) 0) * 256 ^ j := by
  induction n generalizing l with
  | zero =>
    have : l = [] := List.length_eq_zero_iff.mp (by omega)
    subst this; simp [evalDigits]
  | succ n ih =>
    match l, h with
    | d0 :: d1 :: rest, h =>
      have e0 : ∀ k, (d0 :: d1 :: rest).getD (2 * (k + 1)) 0 = rest.getD (2 * k) 0 := fun k => by
        rw [show 2 * (k + 1) = 2 * k + 1 + 1 by ring]; rfl
      have e1 : ∀ k, (d0 :: d1 :: rest).getD (2 * (k + 1) + 1) 0 = rest.getD (2 * k + 1) 0 := fun k => by
        rw [show 2 * (k + 1) + 1 = 2 * k + 1 + 1 + 1 by ring]; rfl
      rw [Finset.sum_range_succ']
      simp only [e0, e1, evalDigits, Nat.mul_zero, List.getD_cons_zero, Nat.zero_add, List.getD_cons_succ, pow_zero, mul_one]
      rw [ih rest (by simp at h; omega)]
      have : ∀ j : ℕ, (rest.getD (2 * j) 0 + 16 * rest.getD (2 * j + 1) 0) * 256 ^ (j + 1)
          = 256 * ((rest.getD (2 * j) 0 + 16 * rest.getD (2 * j + 1) 0) * 256 ^ j) := fun j => by ring
      simp only [this, ← Finset.mul_sum]
      ring

/-- `ScalarBaseMult`: odd digits, four doublings, even digits -/
theorem baseMult_spec (digits : List Int) (b : G) (hl : digits.length = 64) (h : ∀ d ∈ digits, d.natAbs ≤ 8) :
    baseMult grp digits b = evalDigits 4 digits • b := by
  have hd : ∀ i, (digits.getD i 0).natAbs ≤ 8 := by
    intro i
    rw [List.getD_eq_getElem?_getD]
    cases hx : digits[i]? with
    | none => simp
    | some x => exact h x (List.mem_of_getElem? hx)
  unfold baseMult
  simp only
  have hz : (grp : Ops G).zero = 0 := rfl
  rw [hz, foldl_range, foldl_range, dbl4_eq, zero_add, evalDigits_pairs 32 digits (by omega)]
  have sel : ∀ i, ∀ j ∈ Finset.range 32, selectCT grp ((baseTables grp 32 b).getD j []) (digits.getD i 0)
      = (digits.getD i 0 * 256 ^ j) • b := fun i j hj => by
    rw [baseTables_get 32 b j (Finset.mem_range.mp hj), selectCT_spec _ _ (hd _), smul_smul]
  rw [Finset.sum_congr rfl (fun j hj => sel (2 * j + 1) j hj), Finset.sum_congr rfl (fun j hj => sel (2 * j) j hj)]
  rw [Finset.sum_smul, Finset.smul_sum, ← Finset.sum_add_distrib]
  apply Finset.sum_congr rfl
  intro j _
  module

/-! ## the variable-time double-scalar loop -/

/-- entry `i` of `q, 3q, 5q, …` -/
theorem nafTable_get (n : Nat) (q : G) (i : Nat) (h : i < n) : (nafTable grp n q)[i]? = some ((2 * (i : ℤ) + 1) • q) := by
  rw [nafTable, tableFrom_get _ n q i h]
  congr 1
  simp only [grp]
  module

/-- an admissible NAF digit for a table of `n` odd multiples: zero, or odd with `|d| < 2n` -/
def NafDigit (n : Nat) (d : Int) : Prop := d = 0 ∨ (d % 2 = 1 ∧ -(2 * (n : Int)) < d ∧ d < 2 * n)

theorem selectVT_spec (n : Nat) (q : G) (x : Int) (hpos : 0 < x) (hodd : x % 2 = 1) (hlt : x < 2 * n) :
    selectVT (nafTable grp n q) x = some (x • q) := by
  unfold selectVT
  simp only [show (0 : Int) ≤ x by omega, ite_true]
  rw [nafTable_get n q _ (by omega)]
  have : 2 * (((x / 2).toNat : ℕ) : ℤ) + 1 = x := by
    rw [Int.toNat_of_nonneg (by omega)]; omega
  rw [this]

theorem doubleStep_spec (na nb : Nat) (A B acc : G) (a b : Int) (ha : NafDigit na a) (hb : NafDigit nb b) :
    doubleStep grp (nafTable grp na A) (nafTable grp nb B) acc a b = some ((2 : ℤ) • acc + a • A + b • B) := by
  unfold doubleStep
  simp only [dbl_eq]
  have stepA : (if a > 0 then (selectVT (nafTable grp na A) a).map (fun m => (grp : Ops G).add ((2 : ℤ) • acc) m)
      else if a < 0 then (selectVT (nafTable grp na A) (-a)).map (fun m => sub grp ((2 : ℤ) • acc) m)
      else some ((2 : ℤ) • acc)) = some ((2 : ℤ) • acc + a • A) := by
    rcases ha with rfl | ⟨o, l, u⟩
    · simp
    · by_cases hp : a > 0
      · simp only [hp, ite_true]; rw [selectVT_spec na A a hp o u]; simp only [Option.map_some, grp]
      · have hn : a < 0 := by omega
        simp only [hp, hn, ite_false, ite_true]
        rw [selectVT_spec na A (-a) (by omega) (by omega) (by omega)]
        simp only [Option.map_some, grp, sub, neg_smul, neg_neg]
  rw [stepA]
  simp only
  rcases hb with rfl | ⟨o, l, u⟩
  · simp
  · by_cases hp : b > 0
    · simp only [hp, ite_true]; rw [selectVT_spec nb B b hp o u]; simp only [Option.map_some, grp]
    · have hn : b < 0 := by omega
      simp only [hp, hn, ite_false, ite_true]
      rw [selectVT_spec nb B (-b) (by omega) (by omega) (by omega)]
      simp only [Option.map_some, grp, sub, neg_smul, neg_neg]

theorem doubleLoop_append (ta tb : List G) (l1 l2 : List (Int × Int)) (acc : G) :
    doubleLoop grp ta tb (l1 ++ l2) acc = (doubleLoop grp ta tb l1 acc).bind (doubleLoop grp ta tb l2) := by
  induction l1 generalizing acc with
  | nil => rfl
  | cons p ps ih =>
    obtain ⟨a, b⟩ := p
    simp only [List.cons_append, doubleLoop]
    cases doubleStep grp ta tb acc a b with
    | none => rfl
    | some acc' => exact ih acc'

/-- value of a list of digit pairs, little-endian in radix 2 -/
def evalPairs (A B : G) : List (Int × Int) → G
  | [] => 0
  | (a, b) :: rest => a • A + b • B + (2 : ℤ) • evalPairs A B rest

theorem doubleLoop_spec (na nb : Nat) (A B : G) (l : List (Int × Int))
    (h : ∀ p ∈ l, NafDigit na p.1 ∧ NafDigit nb p.2) :
    doubleLoop grp (nafTable grp na A) (nafTable grp nb B) l.reverse 0 = some (evalPairs A B l) := by
  induction l with
  | nil => rfl
  | cons p ps ih =>
    obtain ⟨a, b⟩ := p
    rw [List.reverse_cons, doubleLoop_append, ih (fun x hx => h x (List.mem_cons_of_mem _ hx))]
    simp only [Option.bind_some, doubleLoop]
    rw [doubleStep_spec na nb A B _ a b (h (a, b) List.mem_cons_self).1 (h (a, b) List.mem_cons_self).2]
    simp only [evalPairs]
    congr 1; abel

theorem evalPairs_zip (A B : G) (as bs : List Int) (h : as.length = bs.length) :
    evalPairs A B (as.zip bs) = evalDigits 1 as • A + evalDigits 1 bs • B := by
  induction as generalizing bs with
  | nil =>
    cases bs with
    | nil => simp [evalPairs, evalDigits]
    | cons _ _ => simp at h
  | cons a as ih =>
    cases bs with
    | nil => simp at h
    | cons b bs =>
      simp only [List.zip_cons_cons, evalPairs, evalDigits, ih bs (by simpa using h), add_smul, smul_add, smul_smul, pow_one]
      abel

/-- `VarTimeDoubleScalarBaseMult`: no lookup leaves its table, and the result is `a • A + b • B` -/
theorem doubleMult_spec (A B : G) (aNaf bNaf : List Int) (hl : aNaf.length = bNaf.length)
    (ha : ∀ d ∈ aNaf, NafDigit 8 d) (hb : ∀ d ∈ bNaf, NafDigit 64 d) :
    doubleMult grp aNaf bNaf A B = some (evalDigits 1 aNaf • A + evalDigits 1 bNaf • B) := by
  unfold doubleMult
  have hz : (grp : Ops G).zero = 0 := rfl
  rw [hz, doubleLoop_spec 8 64 A B (aNaf.zip bNaf), evalPairs_zip A B aNaf bNaf hl]
  intro p hp
  exact ⟨ha _ (List.of_mem_zip hp).1, hb _ (List.of_mem_zip hp).2⟩

/-! non-vacuity: a concrete group (ℤ), concrete digits -/
example : varMult (grp : Ops ℤ) [7, -8, 3] 5 = (7 + 16 * (-8 + 16 * 3)) * 5 := by decide
example : doubleMult (grp : Ops ℤ) [1, 0, 0, 0, 0, -15] [127, 0, 0, 0, 0, 0] 3 10 = some ((1 - 15 * 32) * 3 + 127 * 10) := by decide
example : NafDigit 8 (-15) ∧ NafDigit 64 127 ∧ ¬ NafDigit 8 17 := by unfold NafDigit; omega

end PatVerif.Proofs.ScalarMultAlg
