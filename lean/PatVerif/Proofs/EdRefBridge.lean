import PatVerif.Exec.Ed25519
import PatVerif.Proofs.EdComplete
/-! The executable RFC 8032 reference (`Exec/Exec.Ed25519.lean`, the model the drivers run and `Props/C14.lean` is about) and the translated
Go point code compute the same thing: if a Go point and a reference point have the same coordinates in `ZMod p`, so do their
sums and their negations. This ties the hand-written reference to the translated source by a theorem, not only by execution. -/
namespace PatVerif.Proofs.EdRefBridge
open PatVerif PatVerif.Generated PatVerif.Generated.FeLimbs PatVerif.Generated.EdPoints PatVerif.Proofs.FeHelp PatVerif.Proofs.FeField
  PatVerif.Proofs.EdPoints

/-- a translated Go point and a reference point with the same coordinates in the field -/
def Corr (g : EdPoints.Point) (e : Exec.Ed25519.Point) : Prop :=
  fv g.x = (e.X : F) ∧ fv g.y = (e.Y : F) ∧ fv g.z = (e.Z : F) ∧ fv g.t = (e.T : F)

/-- reference coordinates are kept reduced -/
def Reduced (e : Exec.Ed25519.Point) : Prop := e.X < P ∧ e.Y < P ∧ e.Z < P ∧ e.T < P

theorem p_eq : Exec.Ed25519.p = P := by decide
theorem cast_p : ((Exec.Ed25519.p : ℕ) : F) = 0 := by rw [p_eq]; exact ZMod.natCast_self P
theorem cast_mod (n : ℕ) : ((n % Exec.Ed25519.p : ℕ) : F) = (n : F) := by rw [p_eq]; exact ZMod.natCast_mod n P
theorem cast_d : ((Exec.Ed25519.d : ℕ) : F) = dF := rfl

theorem cast_sub (a b : ℕ) (hb : b < P) : ((a + Exec.Ed25519.p - b : ℕ) : F) = (a : F) - (b : F) := by
  rw [Nat.cast_sub (by rw [p_eq]; omega), Nat.cast_add, cast_p, add_zero]

theorem add_corr (v g h : EdPoints.Point) (e f : Exec.Ed25519.Point) (lg : LooseP g) (lh : LooseP h) (re : Reduced e) (rf : Reduced f)
    (cg : Corr g e) (ch : Corr h f) : Corr (Point_Add v g h) (e.add f) := by
  obtain ⟨_, ex, ey, ez, et⟩ := Point_Add_spec v g h lg lh
  obtain ⟨gx, gy, gz, gt⟩ := cg
  obtain ⟨hx, hy, hz, ht⟩ := ch
  obtain ⟨e1, e2, e3, e4⟩ := re
  obtain ⟨f1, f2, f3, f4⟩ := rf
  have hA : (((e.Y + Exec.Ed25519.p - e.X) * (f.Y + Exec.Ed25519.p - f.X) % Exec.Ed25519.p : ℕ) : F) = ((e.Y : F) - e.X) * ((f.Y : F) - f.X) := by
    rw [cast_mod, Nat.cast_mul, cast_sub _ _ e1, cast_sub _ _ f1]
  have hB : (((e.Y + e.X) * (f.Y + f.X) % Exec.Ed25519.p : ℕ) : F) = ((e.Y : F) + e.X) * ((f.Y : F) + f.X) := by
    rw [cast_mod]; push_cast; ring
  have hC : ((e.T * (2 * Exec.Ed25519.d) % Exec.Ed25519.p * f.T % Exec.Ed25519.p : ℕ) : F) = (e.T : F) * (2 * dF) * f.T := by
    rw [cast_mod, Nat.cast_mul, cast_mod]; push_cast; rw [cast_d]
  have hD : ((2 * e.Z * f.Z % Exec.Ed25519.p : ℕ) : F) = 2 * (e.Z : F) * f.Z := by
    rw [cast_mod]; push_cast; ring
  have lt : ∀ n : ℕ, n % Exec.Ed25519.p < P := fun n => by rw [p_eq]; exact Nat.mod_lt _ (by decide)
  simp only [Corr, Exec.Ed25519.Point.add]
  refine ⟨?_, ?_, ?_, ?_⟩
  · rw [ex, cast_mod, Nat.cast_mul, cast_mod, cast_mod, cast_sub _ _ (lt _), cast_sub _ _ (lt _), hA, hB, hC, hD, gx, gy, gz, gt, hx, hy, hz, ht]; ring
  · rw [ey, cast_mod, Nat.cast_mul, cast_mod, cast_mod, Nat.cast_add, Nat.cast_add, hA, hB, hC, hD, gx, gy, gz, gt, hx, hy, hz, ht]; ring
  · rw [ez, cast_mod, Nat.cast_mul, cast_mod, cast_mod, cast_sub _ _ (lt _), Nat.cast_add, hC, hD, gz, gt, hz, ht]; ring
  · rw [et, cast_mod, Nat.cast_mul, cast_mod, cast_mod, cast_sub _ _ (lt _), Nat.cast_add, hA, hB, gx, gy, hx, hy]; ring

/-- the reference keeps its coordinates reduced -/
theorem add_reduced (e f : Exec.Ed25519.Point) : Reduced (e.add f) := by
  have lt : ∀ n : ℕ, n % Exec.Ed25519.p < P := fun n => by rw [p_eq]; exact Nat.mod_lt _ (by decide)
  exact ⟨lt _, lt _, lt _, lt _⟩

theorem neg_corr (v g : EdPoints.Point) (e : Exec.Ed25519.Point) (lg : LooseP g) (re : Reduced e) (cg : Corr g e) :
    Corr (Point_Negate v g) e.neg := by
  obtain ⟨_, ex, ey, ez, et⟩ := Point_Negate_spec v g lg
  obtain ⟨gx, gy, gz, gt⟩ := cg
  obtain ⟨e1, e2, e3, e4⟩ := re
  have hs : ∀ a : ℕ, a < P → (((Exec.Ed25519.p - a) % Exec.Ed25519.p : ℕ) : F) = -(a : F) := by
    intro a ha
    rw [cast_mod, Nat.cast_sub (by rw [p_eq]; omega), cast_p, zero_sub]
  simp only [Corr, Exec.Ed25519.Point.neg]
  exact ⟨by rw [ex, gx, hs _ e1], by rw [ey, gy], by rw [ez, gz], by rw [et, gt, hs _ e4]⟩

end PatVerif.Proofs.EdRefBridge
