import Mathlib.Algebra.Field.ZMod
import Mathlib.Data.ZMod.Basic
import Mathlib.Algebra.Module.Basic
import Mathlib.Tactic.FieldSimp
import Mathlib.Tactic.Ring
import Mathlib.Tactic.LinearCombination
/-!
# Signature algebra in a group of prime order

`G` is a module over the field `ZMod n` (every abelian group killed by the prime `n` is one:
`AddCommGroup.zmodModule`), `B` the base point, `xc` the "x-coordinate mod n" map. ECDSA and
EdDSA correctness, plain and key-blinded, as identities of that module.
-/
namespace PatVerif.Proofs.Sig

variable {G : Type} [AddCommGroup G] {n : ℕ} [Fact n.Prime] [Module (ZMod n) G]

/-- **ECDSA**: a signature `(r, s)` made with key `d` and nonce `k` verifies under `Q = d • B` -/
theorem ecdsa_correct (B : G) (xc : G → ZMod n) (d k e : ZMod n) (hk : k ≠ 0)
    (hs : k⁻¹ * (e + xc (k • B) * d) ≠ 0) :
    let r := xc (k • B)
    let s := k⁻¹ * (e + r * d)
    xc ((e * s⁻¹) • B + (r * s⁻¹) • (d • B)) = r := by
  intro r s
  have hsum : e + r * d ≠ 0 := by
    intro h; apply hs; show k⁻¹ * (e + r * d) = 0; rw [h, mul_zero]
  have key : (e * s⁻¹) • B + (r * s⁻¹) • (d • B) = k • B := by
    rw [smul_smul, ← add_smul]
    congr 1
    show e * (k⁻¹ * (e + r * d))⁻¹ + r * (k⁻¹ * (e + r * d))⁻¹ * d = k
    field_simp
  rw [key]

/-- **key-blinded ECDSA**: signing with `d·b` verifies under the blinded public key `b • (d • B)` -/
theorem ecdsa_blinded_correct (B : G) (xc : G → ZMod n) (d b k e : ZMod n) (hk : k ≠ 0)
    (hs : k⁻¹ * (e + xc (k • B) * (d * b)) ≠ 0) :
    let r := xc (k • B)
    let s := k⁻¹ * (e + r * (d * b))
    xc ((e * s⁻¹) • B + (r * s⁻¹) • (b • (d • B))) = r := by
  intro r s
  have : b • (d • B) = (d * b) • B := by rw [smul_smul, mul_comm]
  rw [this]
  exact ecdsa_correct B xc (d * b) k e hk hs

/-- a signature made with the blinded key `d·b` passes the verification equation under the
*unblinded* key only in the exceptional cases `b = 1`, `r = 0` or `d = 0` (as scalars) — up to a
collision of `xc`, which is why the statement is about the point, not its x-coordinate -/
theorem ecdsa_blinded_not_under_unblinded (B : G) (hB : ∀ a : ZMod n, a • B = 0 → a = 0)
    (d b k e r : ZMod n) (hk : k ≠ 0) (hs : k⁻¹ * (e + r * (d * b)) ≠ 0)
    (h : let s := k⁻¹ * (e + r * (d * b)); (e * s⁻¹) • B + (r * s⁻¹) • (d • B) = k • B) :
    b = 1 ∨ r = 0 ∨ d = 0 := by
  simp only at h
  have hsum : e + r * (d * b) ≠ 0 := by
    intro h0; apply hs; rw [h0, mul_zero]
  rw [smul_smul, ← add_smul] at h
  have h2 : (e * (k⁻¹ * (e + r * (d * b)))⁻¹ + r * (k⁻¹ * (e + r * (d * b)))⁻¹ * d - k) • B = 0 := by
    rw [sub_smul, h, sub_self]
  have h3 := hB _ h2
  have hinv : (k⁻¹ * (e + r * (d * b)))⁻¹ = k * (e + r * (d * b))⁻¹ := by rw [mul_inv, inv_inv]
  rw [hinv] at h3
  have h4' : (e + r * d) * (e + r * (d * b))⁻¹ = 1 := by
    have : k * ((e + r * d) * (e + r * (d * b))⁻¹ - 1) = 0 := by linear_combination h3
    rcases mul_eq_zero.mp this with h | h
    · exact absurd h hk
    · exact sub_eq_zero.mp h
  have h4 : e + r * d = e + r * (d * b) := by
    have := congrArg (· * (e + r * (d * b))) h4'
    simpa [mul_assoc, inv_mul_cancel₀ hsum] using this
  have h5 : r * d * (1 - b) = 0 := by linear_combination h4
  rcases mul_eq_zero.mp h5 with h6 | h6
  · rcases mul_eq_zero.mp h6 with h7 | h7
    · exact Or.inr (Or.inl h7)
    · exact Or.inr (Or.inr h7)
  · left; exact (sub_eq_zero.mp h6).symm

/-- **EdDSA**: `S = r + k·s` satisfies `S • B = R + k • A` for `R = r • B`, `A = s • B` -/
theorem eddsa_correct (B : G) (s r k : ZMod n) : (r + k * s) • B = r • B + k • (s • B) := by
  rw [add_smul, smul_smul]

/-- **key-blinded EdDSA**: with secret scalar `s·b` and public key `b • (s • B)` -/
theorem eddsa_blinded_correct (B : G) (s b r k : ZMod n) :
    (r + k * (s * b)) • B = r • B + k • (b • (s • B)) := by
  rw [add_smul, smul_smul, smul_smul]
  congr 2
  ring

end PatVerif.Proofs.Sig
