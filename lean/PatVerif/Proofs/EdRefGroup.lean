import Mathlib.Tactic.LinearCombination
import Mathlib.Tactic.FieldSimp
import Mathlib.Tactic.Ring
import Mathlib.Tactic.Module
import PatVerif.Proofs.EdRefBridge
import PatVerif.Proofs.EdGroup
import PatVerif.Proofs.EdRepr
import PatVerif.Proofs.ScalarMultRefine
/-!
# The executable RFC 8032 reference computes in the curve group `EdPoint`

`Exec/Ed25519.lean` is the hand-written reference over `Nat`. This file shows that its point operations (`Point.zero`, `Point.add`,
`Point.neg`, `Point.mul`) are the operations of the commutative group `EdPoint` of `Proofs/EdGroup.lean` — the same group in which
the translated Go code is proved to compute (`Proofs/ScalarMultRefine.scalarMult_correct` etc.). In particular the double-and-add
loop `Point.mul k P` stands for `k • g` when `P` stands for `g`.
-/
namespace PatVerif.Proofs.EdRefGroup
open PatVerif PatVerif.Generated PatVerif.Generated.FeLimbs PatVerif.Generated.EdPoints PatVerif.Proofs.FeHelp PatVerif.Proofs.FeField
  PatVerif.Proofs.EdPoints PatVerif.Proofs.EdComplete PatVerif.Proofs.EdGroup PatVerif.Proofs.EdRefBridge

/-- a reference point stands for a group element: reduced coordinates, Z ≠ 0, T·Z = X·Y, affine coordinates (X/Z, Y/Z) = g -/
def ReprRef (e : Exec.Ed25519.Point) (g : EdPoint) : Prop :=
  Reduced e ∧ ((e.Z : ℕ) : F) ≠ 0 ∧ ((e.T : ℕ) : F) * (e.Z : F) = (e.X : F) * (e.Y : F) ∧ ((e.X : F) / (e.Z : F), (e.Y : F) / (e.Z : F)) = g.1

theorem reprRef_congr {e : Exec.Ed25519.Point} {a b : EdPoint} (h : ReprRef e a) (eq : a = b) : ReprRef e b := eq ▸ h

/-- the neutral element -/
theorem zero_ref : ReprRef Exec.Ed25519.Point.zero 0 := by
  refine ⟨⟨by decide, by decide, by decide, by decide⟩, ?_, ?_, ?_⟩
  · simp [Exec.Ed25519.Point.zero]
  · simp [Exec.Ed25519.Point.zero]
  · rw [EdPoint.zero_val]; simp [Exec.Ed25519.Point.zero]

/-- `ReprRef` is satisfiable -/
example : ∃ e g, ReprRef e g := ⟨_, _, zero_ref⟩

/-- the coordinates of the reference sum, in the field -/
theorem add_cast (e f : Exec.Ed25519.Point) (re : Reduced e) (rf : Reduced f) :
    let A : F := ((e.Y : F) - e.X) * ((f.Y : F) - f.X)
    let B : F := ((e.Y : F) + e.X) * ((f.Y : F) + f.X)
    let C : F := (e.T : F) * (2 * dF) * f.T
    let D : F := 2 * (e.Z : F) * f.Z
    (((e.add f).X : ℕ) : F) = (B - A) * (D - C) ∧ (((e.add f).Y : ℕ) : F) = (D + C) * (B + A) ∧
    (((e.add f).Z : ℕ) : F) = (D - C) * (D + C) ∧ (((e.add f).T : ℕ) : F) = (B - A) * (B + A) := by
  obtain ⟨e1, e2, e3, e4⟩ := re
  obtain ⟨f1, f2, f3, f4⟩ := rf
  have hA : (((e.Y + Exec.Ed25519.p - e.X) * (f.Y + Exec.Ed25519.p - f.X) % Exec.Ed25519.p : ℕ) : F) = ((e.Y : F) - e.X) * ((f.Y : F) - f.X) := by
    rw [cast_mod, Nat.cast_mul, cast_sub _ _ e1, cast_sub _ _ f1]
  have hB : (((e.Y + e.X) * (f.Y + f.X) % Exec.Ed25519.p : ℕ) : F) = ((e.Y : F) + e.X) * ((f.Y : F) + f.X) := by
    rw [cast_mod]; push_cast; ring
  have hC : ((e.T * (2 * Exec.Ed25519.d) % Exec.Ed25519.p * f.T % Exec.Ed25519.p : ℕ) : F) = (e.T : F) * (2 * dF) * f.T := by
    rw [cast_mod, Nat.cast_mul, cast_mod]; push_cast; rw [cast_d]
  have hD : ((2 * e.Z * f.Z % Exec.Ed25519.p : ℕ) : F) = 2 * (e.Z : F) * f.Z := by
    rw [cast_mod]; push_cast; ring
  have lt : ∀ n : ℕ, n % Exec.Ed25519.p < P := fun n => by rw [p_eq]; exact Nat.mod_lt _ (by decide)
  simp only [Exec.Ed25519.Point.add]
  refine ⟨?_, ?_, ?_, ?_⟩
  · rw [cast_mod, Nat.cast_mul, cast_mod, cast_mod, cast_sub _ _ (lt _), cast_sub _ _ (lt _), hA, hB, hC, hD]
  · rw [cast_mod, Nat.cast_mul, cast_mod, cast_mod, Nat.cast_add, Nat.cast_add, hA, hB, hC, hD]
  · rw [cast_mod, Nat.cast_mul, cast_mod, cast_mod, cast_sub _ _ (lt _), Nat.cast_add, hC, hD]
  · rw [cast_mod, Nat.cast_mul, cast_mod, cast_mod, cast_sub _ _ (lt _), Nat.cast_add, hA, hB]

/-- the unified extended-coordinates addition in any field: with `X = xZ`, `Y = yZ`, `T = xyZ` the result has `Z₃ ≠ 0` and affine
coordinates given by the twisted-Edwards law, provided the two denominators do not vanish -/
theorem add_alg {K : Type*} [Field K] (d X1 Y1 Z1 T1 X2 Y2 Z2 T2 x1 y1 x2 y2 : K) (h2 : (2 : K) ≠ 0) (hZ1 : Z1 ≠ 0) (hZ2 : Z2 ≠ 0)
    (hX1 : X1 = x1 * Z1) (hY1 : Y1 = y1 * Z1) (hT1 : T1 = x1 * y1 * Z1)
    (hX2 : X2 = x2 * Z2) (hY2 : Y2 = y2 * Z2) (hT2 : T2 = x2 * y2 * Z2)
    (hp : 1 + d * x1 * x2 * y1 * y2 ≠ 0) (hm : 1 - d * x1 * x2 * y1 * y2 ≠ 0) :
    (2 * Z1 * Z2 - T1 * (2 * d) * T2) * (2 * Z1 * Z2 + T1 * (2 * d) * T2) ≠ 0 ∧
    (((Y1 + X1) * (Y2 + X2) - (Y1 - X1) * (Y2 - X2)) * (2 * Z1 * Z2 - T1 * (2 * d) * T2)) /
      ((2 * Z1 * Z2 - T1 * (2 * d) * T2) * (2 * Z1 * Z2 + T1 * (2 * d) * T2)) = (x1 * y2 + y1 * x2) / (1 + d * x1 * x2 * y1 * y2) ∧
    ((2 * Z1 * Z2 + T1 * (2 * d) * T2) * ((Y1 + X1) * (Y2 + X2) + (Y1 - X1) * (Y2 - X2))) /
      ((2 * Z1 * Z2 - T1 * (2 * d) * T2) * (2 * Z1 * Z2 + T1 * (2 * d) * T2)) = (y1 * y2 + x1 * x2) / (1 - d * x1 * x2 * y1 * y2) := by
  subst hX1 hY1 hT1 hX2 hY2 hT2
  have hk : 2 * Z1 * Z2 ≠ 0 := mul_ne_zero (mul_ne_zero h2 hZ1) hZ2
  have hF : 2 * Z1 * Z2 - x1 * y1 * Z1 * (2 * d) * (x2 * y2 * Z2) = 2 * Z1 * Z2 * (1 - d * x1 * x2 * y1 * y2) := by ring
  have hG : 2 * Z1 * Z2 + x1 * y1 * Z1 * (2 * d) * (x2 * y2 * Z2) = 2 * Z1 * Z2 * (1 + d * x1 * x2 * y1 * y2) := by ring
  have hE : (y1 * Z1 + x1 * Z1) * (y2 * Z2 + x2 * Z2) - (y1 * Z1 - x1 * Z1) * (y2 * Z2 - x2 * Z2) = 2 * Z1 * Z2 * (x1 * y2 + y1 * x2) := by ring
  have hH : (y1 * Z1 + x1 * Z1) * (y2 * Z2 + x2 * Z2) + (y1 * Z1 - x1 * Z1) * (y2 * Z2 - x2 * Z2) = 2 * Z1 * Z2 * (y1 * y2 + x1 * x2) := by ring
  rw [hF, hG, hE, hH]
  have hFn : 2 * Z1 * Z2 * (1 - d * x1 * x2 * y1 * y2) ≠ 0 := mul_ne_zero hk hm
  have hGn : 2 * Z1 * Z2 * (1 + d * x1 * x2 * y1 * y2) ≠ 0 := mul_ne_zero hk hp
  refine ⟨mul_ne_zero hFn hGn, ?_, ?_⟩
  · rw [div_eq_div_iff (mul_ne_zero hFn hGn) hp]; ring
  · rw [div_eq_div_iff (mul_ne_zero hFn hGn) hm]; ring

/-- **the reference addition is the group addition** -/
theorem add_ref {e f : Exec.Ed25519.Point} {g h : EdPoint} (he : ReprRef e g) (hf : ReprRef f h) : ReprRef (e.add f) (g + h) := by
  obtain ⟨re, ze, te, ae⟩ := he
  obtain ⟨rf, zf, tf, af⟩ := hf
  obtain ⟨cX, cY, cZ, cT⟩ := add_cast e f re rf
  have cg := g.2
  have ch := h.2
  rw [← ae] at cg
  rw [← af] at ch
  simp only [EdAssoc.OnCurve] at cg ch
  obtain ⟨hp, hm⟩ := denominators_ne_zero _ _ _ _ cg ch
  have hT1 : (e.T : F) = (e.X : F) / e.Z * ((e.Y : F) / e.Z) * e.Z := by
    field_simp; exact te
  have hT2 : (f.T : F) = (f.X : F) / f.Z * ((f.Y : F) / f.Z) * f.Z := by
    field_simp; exact tf
  obtain ⟨hz, hx, hy⟩ := add_alg dF (e.X : F) e.Y e.Z e.T f.X f.Y f.Z f.T _ _ _ _ two_ne_zero' ze zf
    (div_mul_cancel₀ _ ze).symm (div_mul_cancel₀ _ ze).symm hT1 (div_mul_cancel₀ _ zf).symm (div_mul_cancel₀ _ zf).symm hT2 hp hm
  refine ⟨add_reduced e f, by rw [cZ]; exact hz, by rw [cX, cY, cZ, cT]; ring, ?_⟩
  rw [EdPoint.add_val, ← ae, ← af, cX, cY, cZ]
  simp only [EdAssoc.edAdd]
  rw [hx, hy]

/-- **the reference negation is the group negation** -/
theorem neg_ref {e : Exec.Ed25519.Point} {g : EdPoint} (he : ReprRef e g) : ReprRef e.neg (-g) := by
  obtain ⟨⟨e1, e2, e3, e4⟩, ze, te, ae⟩ := he
  have lt : ∀ n : ℕ, n % Exec.Ed25519.p < P := fun n => by rw [p_eq]; exact Nat.mod_lt _ (by decide)
  have hs : ∀ a : ℕ, a < P → (((Exec.Ed25519.p - a) % Exec.Ed25519.p : ℕ) : F) = -(a : F) := by
    intro a ha
    rw [cast_mod, Nat.cast_sub (by rw [p_eq]; omega), cast_p, zero_sub]
  refine ⟨⟨lt _, e2, e3, lt _⟩, ze, ?_, ?_⟩
  · simp only [Exec.Ed25519.Point.neg]; rw [hs _ e1, hs _ e4]; linear_combination (-1 : F) * te
  · rw [EdPoint.neg_val, ← ae]; simp only [Exec.Ed25519.Point.neg]; rw [hs _ e1, neg_div]

/-- invariant of the double-and-add loop -/
theorem mulAux_ref : ∀ (fuel k : ℕ) (Q acc : Exec.Ed25519.Point) (g a : EdPoint), ReprRef Q g → ReprRef acc a → k < 2 ^ fuel →
    ReprRef (Exec.Ed25519.Point.mulAux fuel k Q acc) (a + k • g) := by
  intro fuel
  induction fuel with
  | zero =>
    intro k Q acc g a _ ha hk
    have : k = 0 := by simpa using hk
    subst this
    simpa [Exec.Ed25519.Point.mulAux] using ha
  | succ n ih =>
    intro k Q acc g a hQ ha hk
    unfold Exec.Ed25519.Point.mulAux
    split
    · next h0 => subst h0; simpa using ha
    · next h0 =>
      have hk2 : k / 2 < 2 ^ n := by rw [pow_succ] at hk; omega
      split
      · next h1 =>
        refine reprRef_congr (ih (k / 2) _ _ _ _ (add_ref hQ hQ) (add_ref ha hQ) hk2) ?_
        have hk' : k = 2 * (k / 2) + 1 := by omega
        generalize k / 2 = m at hk'
        subst hk'
        module
      · next h1 =>
        refine reprRef_congr (ih (k / 2) _ _ _ _ (add_ref hQ hQ) ha hk2) ?_
        have hk' : k = 2 * (k / 2) := by omega
        generalize k / 2 = m at hk'
        subst hk'
        module

/-- **the reference scalar multiplication computes the scalar multiple in the curve group** (nsmul form) -/
theorem mul_ref_nsmul {Q : Exec.Ed25519.Point} {g : EdPoint} (hQ : ReprRef Q g) (k : ℕ) : ReprRef (Exec.Ed25519.Point.mul k Q) (k • g) := by
  have := mulAux_ref (k.log2 + 1) k Q _ g 0 hQ zero_ref Nat.lt_log2_self
  rw [zero_add] at this
  exact this

/-- **the reference scalar multiplication computes the scalar multiple in the curve group** -/
theorem mul_ref {Q : Exec.Ed25519.Point} {g : EdPoint} (hQ : ReprRef Q g) (k : ℕ) : ReprRef (Exec.Ed25519.Point.mul k Q) ((k : ℤ) • g) := by
  rw [natCast_zsmul]; exact mul_ref_nsmul hQ k

/-- a reference point and a Go point standing for the same group element have the same affine coordinates -/
theorem same_group_element {e : Exec.Ed25519.Point} {q : EdPoints.Point} {g : EdPoint} (he : ReprRef e g) (hq : EdRepr.ReprP3 q g) :
    ((e.X : F) / (e.Z : F), (e.Y : F) / (e.Z : F)) = EdComplete.affine q := he.2.2.2.trans hq.2.symm

open PatVerif.Model.Recode PatVerif.Model.ScalarMultLit in
/-- **the Go `ScalarMult` and the reference `Point.mul` agree**: for every scalar `s` the Go code can hold, a Go point `q` and a reference
point `e` standing for the same group element `g`, recoding followed by the `ScalarMult` loop over the translated formulas and the
reference double-and-add both stand for `(leNat s) • g`; in particular they have the same affine coordinates -/
theorem scalarMult_agrees (s : List Nat) (hs : PatVerif.Proofs.Recode.IsScalar s) (q : EdPoints.Point) (e : Exec.Ed25519.Point) (g : EdPoint)
    (hq : EdRepr.ReprP3 q g) (he : ReprRef e g) :
    ∃ ds, signedRadix16 s = some ds ∧ EdRepr.ReprP3 (scalarMult ds q) ((leNat s : ℤ) • g) ∧
      ReprRef (Exec.Ed25519.Point.mul (leNat s) e) ((leNat s : ℤ) • g) ∧
      (let r := Exec.Ed25519.Point.mul (leNat s) e
       ((r.X : F) / (r.Z : F), (r.Y : F) / (r.Z : F)) = EdComplete.affine (scalarMult ds q)) := by
  obtain ⟨ds, hd, hr⟩ := PatVerif.Proofs.ScalarMultRefine.scalarMult_correct s hs q g hq
  exact ⟨ds, hd, hr, mul_ref he _, same_group_element (mul_ref he _) hr⟩

end PatVerif.Proofs.EdRefGroup
