import PatVerif.Generated.Skeletons
/-!
# Control skeleton of client finalization of the four token types (C02)

`Generated/Skeletons.lean` is extracted from the Go source on every check of the properties that rest on
these functions (`/verif/extract/cmd/skeleton`): calls by callee, returns by kind, stores through maps and
receivers, conditions, in source order. The lists below are the skeletons the hand-written models were
written against; the theorems say the code has exactly these skeletons today.

Each finalization re-verifies what it is about to return before `return no-error`.
-/
namespace PatVerif.Proofs.SkelClients

def expected_client1_FinalizeToken : List String :=
  ["call (…).Params",
   "if len(tokenResponseEnc) < int(group.P384.Params().CompressedElementLengt… {",
   "return error",
   "}",
   "call (…).NewElement",
   "call evaluatedElement.UnmarshalBinary",
   "call (…).Params",
   "if err != nil {",
   "return error",
   "}",
   "call proof.UnmarshalBinary",
   "call (…).Params",
   "if err != nil {",
   "return error",
   "}",
   "call (…).Finalize",
   "if err != nil {",
   "return error",
   "}",
   "call UnmarshalPrivateToken",
   "if err != nil {",
   "return error",
   "}",
   "return no-error"]

theorem client1_FinalizeToken_as_modelled : Generated.Skeletons.client1_FinalizeToken = expected_client1_FinalizeToken := rfl

def expected_client2_FinalizeToken : List String :=
  ["call (…).Finalize",
   "if err != nil {",
   "return error",
   "}",
   "call UnmarshalToken",
   "if err != nil {",
   "return error",
   "}",
   "call sha512.New384",
   "call hash.Write",
   "call token.AuthenticatorInput",
   "if err != nil {",
   "return error",
   "}",
   "call hash.Sum",
   "call rsa.VerifyPSS",
   "call (…).Size",
   "if err != nil {",
   "return error",
   "}",
   "return no-error"]

theorem client2_FinalizeToken_as_modelled : Generated.Skeletons.client2_FinalizeToken = expected_client2_FinalizeToken := rfl

def expected_client3_FinalizeToken : List String :=
  ["call max",
   "call (…).KeySize",
   "call (…).NonceSize",
   "if len(encryptedtokenResponse) < responseNonceLen {",
   "return error",
   "}",
   "call (…).Extract",
   "call (…).Expand",
   "call (…).KeySize",
   "call (…).Expand",
   "call (…).NonceSize",
   "call (…).New",
   "if err != nil {",
   "return error",
   "}",
   "call cipher.Open",
   "if err != nil {",
   "return error",
   "}",
   "call (…).Finalize",
   "if err != nil {",
   "return error",
   "}",
   "call UnmarshalToken",
   "if err != nil {",
   "return error",
   "}",
   "call sha512.New384",
   "call hash.Write",
   "call token.AuthenticatorInput",
   "if err != nil {",
   "return error",
   "}",
   "call hash.Sum",
   "call rsa.VerifyPSS",
   "call (…).Size",
   "if err != nil {",
   "return error",
   "}",
   "return no-error"]

theorem client3_FinalizeToken_as_modelled : Generated.Skeletons.client3_FinalizeToken = expected_client3_FinalizeToken := rfl

def expected_client5_FinalizeTokens : List String :=
  ["call cryptobyte.String",
   "call quicwire.ConsumeVarint",
   "call reader.Skip",
   "if offset < 0 || !reader.Skip(offset) || l > uint64(len(reader)) {",
   "return error",
   "}",
   "call reader.ReadBytes",
   "if !reader.ReadBytes(&encodedElements, len(encodedElements)) {",
   "return error",
   "}",
   "call (…).Params",
   "if len(encodedElements)%elementLength != 0 {",
   "return error",
   "}",
   "if numElements != len(s.tokenInputs) {",
   "return error",
   "}",
   "for {",
   "call (…).NewElement",
   "store elements[i]",
   "call (…).UnmarshalBinary",
   "if err != nil {",
   "return error",
   "}",
   "}",
   "call (…).Params",
   "call reader.ReadBytes",
   "if !reader.ReadBytes(&proofEnc, proofLength) {",
   "return error",
   "}",
   "call proof.UnmarshalBinary",
   "if err != nil {",
   "return error",
   "}",
   "call proof.MarshalBinary",
   "call bytes.Equal",
   "if err != nil || !bytes.Equal(canonicalProofEnc, proofEnc) {",
   "return error",
   "}",
   "call (…).Finalize",
   "if err != nil {",
   "return error",
   "}",
   "for {",
   "call UnmarshalBatchedPrivateToken",
   "store tokens[i]",
   "if err != nil {",
   "return error",
   "}",
   "}",
   "return no-error"]

theorem client5_FinalizeTokens_as_modelled : Generated.Skeletons.client5_FinalizeTokens = expected_client5_FinalizeTokens := rfl

end PatVerif.Proofs.SkelClients
