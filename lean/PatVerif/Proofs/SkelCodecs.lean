import PatVerif.Generated.Skeletons
/-!
# The codecs with hand-rolled framing, statement by statement (C03, C04)

`extract/cmd/wirefacts` (T2) covers the structures that are a straight sequence of `cryptobyte` calls. The remaining ones frame
their contents by hand — `TokenChallenge` (origin names joined with "," / split again), the type-5 request (QUIC-varint length, a loop
over 32-byte elements), the generic batch request (varint length, a walk that advances by the length of each element's re-encoding)
and response list (varint length, one status/length-prefixed entry per request), `EncapKey` (fixed ids, a KEM-dependent key length) —
and are modelled by hand in `Model/Structs.lean` (codecs, C04) and `Model/Partial.lean` (literal models with partial slicing, C03).
This file pins the Go text those models were written against: every statement, loop header, switch tag, case value, condition and
return of the nine functions, in source order, extracted from /repo on every run. What the models rely on: the order and width of
the fields, the guards before each slice expression (`len(data) < 4`, `offset < 0 || l == 0 || l > uint64(len(data)-offset)`,
`len(data)-i < 2`, the per-element length checks), the two accepted element types of a batch, and the trailing-data checks.
-/
namespace PatVerif.Proofs.SkelCodecs

/-- tokens: TokenChallenge.Marshal -/
def expected_cd_TokenChallenge_Marshal : List String :=
  ["stmt b := cryptobyte.NewBuilder(nil)",
   "stmt b.AddUint16(c.TokenType)",
   "stmt b.AddUint16LengthPrefixed(func(b *cryptobyte.Builder) { b.AddBytes([]byte(c.IssuerName)) })",
   "stmt b.AddUint8LengthPrefixed(func(b *cryptobyte.Builder) { b.AddBytes(c.RedemptionNonce) })",
   "call b.AddUint8LengthPrefixed",
   "stmt b.AddUint16LengthPrefixed(func(b *cryptobyte.Builder) { b.AddBytes([]byte(strings.Join(c.OriginInfo, \",\"))) })",
   "return value: return b.BytesOrPanic()"]

theorem cd_TokenChallenge_Marshal_as_modelled : Generated.Skeletons.cd_TokenChallenge_Marshal = expected_cd_TokenChallenge_Marshal := rfl

/-- tokens: .UnmarshalTokenChallenge -/
def expected_cd_UnmarshalTokenChallenge : List String :=
  ["stmt s := cryptobyte.String(data)",
   "call cryptobyte.String",
   "stmt challenge := TokenChallenge{}",
   "call s.ReadUint16",
   "if !s.ReadUint16(&challenge.TokenType) {",
   "return error: return TokenChallenge{}, fmt.Errorf(\"invalid TokenChallenge encoding\")",
   "}",
   "stmt var issuerName cryptobyte.String",
   "call s.ReadUint16LengthPrefixed",
   "call issuerName.Empty",
   "if !s.ReadUint16LengthPrefixed(&issuerName) || issuerName.Empty() {",
   "return error: return TokenChallenge{}, fmt.Errorf(\"invalid TokenChallenge encoding\")",
   "}",
   "stmt challenge.IssuerName = string(issuerName)",
   "stmt var redemptionNonce cryptobyte.String",
   "call s.ReadUint8LengthPrefixed",
   "if !s.ReadUint8LengthPrefixed(&redemptionNonce) {",
   "return error: return TokenChallenge{}, fmt.Errorf(\"invalid TokenChallenge encoding\")",
   "}",
   "stmt challenge.RedemptionNonce = make([]byte, len(redemptionNonce))",
   "stmt copy(challenge.RedemptionNonce, redemptionNonce)",
   "stmt var originInfo cryptobyte.String",
   "call s.ReadUint16LengthPrefixed",
   "if !s.ReadUint16LengthPrefixed(&originInfo) {",
   "return error: return TokenChallenge{}, fmt.Errorf(\"invalid TokenRequest encoding\")",
   "}",
   "stmt challenge.OriginInfo = strings.Split(string(originInfo), \",\")",
   "call strings.Split",
   "return no-error: return challenge, nil"]

theorem cd_UnmarshalTokenChallenge_as_modelled : Generated.Skeletons.cd_UnmarshalTokenChallenge = expected_cd_UnmarshalTokenChallenge := rfl

/-- tokens/type5: BatchedPrivateTokenRequest.Marshal -/
def expected_cd_type5_Marshal : List String :=
  ["if r.raw != nil {",
   "return value: return r.raw",
   "}",
   "stmt b := cryptobyte.NewBuilder(nil)",
   "stmt b.AddUint16(BatchedPrivateTokenType)",
   "stmt b.AddUint8(r.TokenKeyID)",
   "stmt bElmts := cryptobyte.NewBuilder(nil)",
   "for i := 0; i < len(r.BlindedReq); i++ {",
   "stmt bElmts.AddBytes(r.BlindedReq[i])",
   "call bElmts.AddBytes",
   "}",
   "stmt rawBElements := bElmts.BytesOrPanic()",
   "call bElmts.BytesOrPanic",
   "stmt l := quicwire.AppendVarint([]byte{}, uint64(len(rawBElements)))",
   "call quicwire.AppendVarint",
   "stmt b.AddBytes(l)",
   "stmt b.AddBytes(rawBElements)",
   "stmt r.raw = b.BytesOrPanic()",
   "store r.raw",
   "return value: return r.raw"]

theorem cd_type5_Marshal_as_modelled : Generated.Skeletons.cd_type5_Marshal = expected_cd_type5_Marshal := rfl

/-- tokens/type5: BatchedPrivateTokenRequest.Unmarshal -/
def expected_cd_type5_Unmarshal : List String :=
  ["stmt r.raw = nil",
   "store r.raw",
   "stmt s := cryptobyte.String(data)",
   "call cryptobyte.String",
   "stmt var tokenType uint16",
   "call s.ReadUint16",
   "call s.ReadUint8",
   "if !s.ReadUint16(&tokenType) || tokenType != BatchedPrivateTokenType || !s.ReadUint8(&r.TokenKeyID) {",
   "return false: return false",
   "}",
   "stmt l, offset := quicwire.ConsumeVarint(data[3:])",
   "call quicwire.ConsumeVarint",
   "call s.Skip",
   "if offset < 0 || !s.Skip(offset) || l > uint64(len(s)) {",
   "return false: return false",
   "}",
   "stmt blindedRequests := make([]byte, l)",
   "call s.ReadBytes",
   "if !s.ReadBytes(&blindedRequests, len(blindedRequests)) {",
   "return false: return false",
   "}",
   "if len(blindedRequests)%32 != 0 {",
   "return false: return false",
   "}",
   "stmt elementCount := len(blindedRequests) / 32",
   "stmt r.BlindedReq = make([][]byte, elementCount)",
   "store r.BlindedReq",
   "for i := 0; i < elementCount; i++ {",
   "stmt r.BlindedReq[i] = make([]byte, 32)",
   "store r.BlindedReq[i]",
   "stmt copy(r.BlindedReq[i], blindedRequests[(32*i):])",
   "}",
   "return true: return true"]

theorem cd_type5_Unmarshal_as_modelled : Generated.Skeletons.cd_type5_Unmarshal = expected_cd_type5_Unmarshal := rfl

/-- tokens/batched: BatchedTokenRequest.Marshal -/
def expected_cd_batch_Marshal : List String :=
  ["if r.raw != nil {",
   "return value: return r.raw",
   "}",
   "stmt bReqs := cryptobyte.NewBuilder(nil)",
   "range r.token_requests {",
   "stmt bReqs.AddBytes(token_request.Marshal())",
   "call bReqs.AddBytes",
   "call token_request.Marshal",
   "}",
   "stmt rawBReqs := bReqs.BytesOrPanic()",
   "call bReqs.BytesOrPanic",
   "stmt l := quicwire.AppendVarint([]byte{}, uint64(len(rawBReqs)))",
   "call quicwire.AppendVarint",
   "stmt b := cryptobyte.NewBuilder(nil)",
   "stmt b.AddBytes(l)",
   "stmt b.AddBytes(rawBReqs)",
   "stmt r.raw = b.BytesOrPanic()",
   "store r.raw",
   "return value: return r.raw"]

theorem cd_batch_Marshal_as_modelled : Generated.Skeletons.cd_batch_Marshal = expected_cd_batch_Marshal := rfl

/-- tokens/batched: BatchedTokenRequest.Unmarshal -/
def expected_cd_batch_Unmarshal : List String :=
  ["if len(data) < 4 {",
   "return false: return false",
   "}",
   "stmt l, offset := quicwire.ConsumeVarint(data)",
   "call quicwire.ConsumeVarint",
   "if offset < 0 || l == 0 || l > uint64(len(data)-offset) {",
   "return false: return false",
   "}",
   "stmt data = data[:offset+int(l)]",
   "stmt r.token_requests = make([]tokens.TokenRequestWithDetails, 0)",
   "store r.token_requests",
   "stmt i := offset",
   "for ; i < offset+int(l);  {",
   "stmt var token_request tokens.TokenRequestWithDetails",
   "if len(data)-i < 2 {",
   "return false: return false",
   "}",
   "stmt token_type := binary.BigEndian.Uint16(data[i : i+2])",
   "call (…).Uint16",
   "switch token_type {",
   "case type1.BasicPrivateTokenType:",
   "stmt token_request = new(type1.BasicPrivateTokenRequest)",
   "case type2.BasicPublicTokenType:",
   "stmt token_request = new(type2.BasicPublicTokenRequest)",
   "case :",
   "return false: return false",
   "}",
   "call token_request.Unmarshal",
   "if !token_request.Unmarshal(data[i:]) {",
   "return false: return false",
   "}",
   "stmt r.token_requests = append(r.token_requests, token_request)",
   "store r.token_requests",
   "stmt i += len(token_request.Marshal())",
   "call token_request.Marshal",
   "}",
   "return true: return true"]

theorem cd_batch_Unmarshal_as_modelled : Generated.Skeletons.cd_batch_Unmarshal = expected_cd_batch_Unmarshal := rfl

/-- tokens/batched: .UnmarshalBatchedTokenResponses -/
def expected_cd_UnmarshalBatchedTokenResponses : List String :=
  ["stmt s := cryptobyte.String(data)",
   "call cryptobyte.String",
   "stmt l, offset := quicwire.ConsumeVarint(data)",
   "call quicwire.ConsumeVarint",
   "call s.Skip",
   "if offset < 0 || !s.Skip(offset) || l > uint64(len(s)) {",
   "return error: return nil, fmt.Errorf(\"invalid Token encoding\")",
   "}",
   "stmt token_responses_data := data[offset:(offset + int(l))]",
   "stmt token_responses_string := cryptobyte.String(token_responses_data)",
   "call cryptobyte.String",
   "stmt var token_responses [][]byte",
   "for ; !token_responses_string.Empty();  {",
   "stmt var present uint8",
   "call token_responses_string.ReadUint8",
   "if !token_responses_string.ReadUint8(&present) {",
   "return error: return nil, fmt.Errorf(\"invalid Token encoding\")",
   "}",
   "if present == uint8(TokenStatusAbsent) {",
   "stmt token_responses = append(token_responses, []byte{})",
   "} else {",
   "if present == uint8(TokenStatusPresent) {",
   "stmt var token_type uint16",
   "call token_responses_string.ReadUint16",
   "if !token_responses_string.ReadUint16(&token_type) {",
   "return error: return nil, fmt.Errorf(\"invalid Token encoding\")",
   "}",
   "stmt var token_response_length uint16",
   "switch token_type {",
   "case type1.BasicPrivateTokenType:",
   "stmt token_response_length = uint16(type1.Ne + 2*type1.Nk)",
   "case type2.BasicPublicTokenType:",
   "stmt token_response_length = uint16(type2.Nk)",
   "case :",
   "return error: return nil, fmt.Errorf(\"invalid Token encoding\")",
   "}",
   "stmt var token_response []byte",
   "call token_responses_string.ReadBytes",
   "if !token_responses_string.ReadBytes(&token_response, int(token_response_length)) {",
   "return error: return nil, fmt.Errorf(\"invalid Token encoding\")",
   "}",
   "stmt token_responses = append(token_responses, token_response)",
   "} else {",
   "return error: return nil, fmt.Errorf(\"invalid Token encoding\")",
   "}",
   "}",
   "}",
   "return no-error: return token_responses, nil"]

theorem cd_UnmarshalBatchedTokenResponses_as_modelled : Generated.Skeletons.cd_UnmarshalBatchedTokenResponses = expected_cd_UnmarshalBatchedTokenResponses := rfl

/-- tokens/type3: EncapKey.Marshal -/
def expected_cd_EncapKey_Marshal : List String :=
  ["stmt b := cryptobyte.NewBuilder(nil)",
   "stmt b.AddUint8(k.id)",
   "stmt b.AddUint16(uint16(k.suite.KEM.ID()))",
   "call (…).ID",
   "stmt b.AddBytes(k.suite.KEM.SerializePublicKey(k.publicKey))",
   "call (…).SerializePublicKey",
   "stmt b.AddUint16(uint16(k.suite.KDF.ID()))",
   "call (…).ID",
   "stmt b.AddUint16(uint16(k.suite.AEAD.ID()))",
   "call (…).ID",
   "return value: return b.BytesOrPanic()"]

theorem cd_EncapKey_Marshal_as_modelled : Generated.Skeletons.cd_EncapKey_Marshal = expected_cd_EncapKey_Marshal := rfl

/-- tokens/type3: .UnmarshalEncapKey -/
def expected_cd_UnmarshalEncapKey : List String :=
  ["stmt s := cryptobyte.String(data)",
   "call cryptobyte.String",
   "stmt var id uint8",
   "stmt var kemID uint16",
   "call s.ReadUint8",
   "call s.ReadUint16",
   "if !s.ReadUint8(&id) || !s.ReadUint16(&kemID) {",
   "return error: return EncapKey{}, fmt.Errorf(\"Invalid EncapKey\")",
   "}",
   "stmt kem := hpke.KEMID(kemID)",
   "call hpke.KEMID",
   "stmt suite, err := hpke.AssembleCipherSuite(kem, fixedKDF, fixedAEAD)",
   "call hpke.AssembleCipherSuite",
   "if err != nil {",
   "return error: return EncapKey{}, fmt.Errorf(\"Invalid EncapKey\")",
   "}",
   "stmt publicKeyBytes := make([]byte, suite.KEM.PublicKeySize())",
   "call (…).PublicKeySize",
   "call s.ReadBytes",
   "if !s.ReadBytes(&publicKeyBytes, len(publicKeyBytes)) {",
   "return error: return EncapKey{}, fmt.Errorf(\"Invalid EncapKey\")",
   "}",
   "stmt var kdfID uint16",
   "stmt var aeadID uint16",
   "call s.ReadUint16",
   "call s.ReadUint16",
   "if !s.ReadUint16(&kdfID) || !s.ReadUint16(&aeadID) {",
   "return error: return EncapKey{}, fmt.Errorf(\"Invalid EncapKey\")",
   "}",
   "stmt suite, err = hpke.AssembleCipherSuite(kem, hpke.KDFID(kdfID), hpke.AEADID(aeadID))",
   "call hpke.AssembleCipherSuite",
   "call hpke.KDFID",
   "call hpke.AEADID",
   "if err != nil {",
   "return error: return EncapKey{}, fmt.Errorf(\"Invalid EncapKey\")",
   "}",
   "stmt publicKey, err := suite.KEM.DeserializePublicKey(publicKeyBytes)",
   "call (…).DeserializePublicKey",
   "if err != nil {",
   "return error: return EncapKey{}, fmt.Errorf(\"Invalid EncapKey\")",
   "}",
   "return no-error: return EncapKey{ id: id, suite: suite, publicKey: publicKey, }, nil"]

theorem cd_UnmarshalEncapKey_as_modelled : Generated.Skeletons.cd_UnmarshalEncapKey = expected_cd_UnmarshalEncapKey := rfl

end PatVerif.Proofs.SkelCodecs
