import PatVerif.Generated.Skeletons
/-!
# Control skeleton of issuer-side token verification (C10)

`Generated/Skeletons.lean` is extracted from the Go source on every check of the properties that rest on
these functions (`/verif/extract/cmd/skeleton`): calls by callee, returns by kind, stores through maps and
receivers, conditions, in source order. The lists below are the skeletons the hand-written models were
written against; the theorems say the code has exactly these skeletons today.

`Verify` recomputes the VOPRF output of `AuthenticatorInput()` with a server built from the issuer's key and compares it with
`bytes.Equal` — nothing else decides.
-/
namespace PatVerif.Proofs.SkelVerify

def expected_issuer1_Verify : List String :=
  ["call oprf.NewVerifiableServer",
   "call i.key",
   "call token.AuthenticatorInput",
   "call server.FullEvaluate",
   "if err != nil {",
   "return error",
   "}",
   "call bytes.Equal",
   "if !bytes.Equal(output, token.Authenticator) {",
   "return error",
   "}",
   "return no-error"]

theorem issuer1_Verify_as_modelled : Generated.Skeletons.issuer1_Verify = expected_issuer1_Verify := rfl

def expected_issuer5_Verify : List String :=
  ["call oprf.NewVerifiableServer",
   "call token.AuthenticatorInput",
   "call server.FullEvaluate",
   "if err != nil {",
   "return error",
   "}",
   "call bytes.Equal",
   "if !bytes.Equal(output, token.Authenticator) {",
   "return error",
   "}",
   "return no-error"]

theorem issuer5_Verify_as_modelled : Generated.Skeletons.issuer5_Verify = expected_issuer5_Verify := rfl

end PatVerif.Proofs.SkelVerify
