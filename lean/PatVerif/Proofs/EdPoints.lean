import Mathlib.Tactic.LinearCombination
import PatVerif.Generated.EdPoints
import PatVerif.Proofs.FeField
/-! The translated point formulas of `edwards25519.go`, over `ZMod p`: what each conversion, addition and doubling computes from the
coordinates it is given, that all limbs stay inside the element invariant, and that the results satisfy the (division-free)
twisted-Edwards addition law. -/
namespace PatVerif.Proofs.EdPoints
open PatVerif PatVerif.Generated PatVerif.Generated.FeLimbs PatVerif.Generated.EdPoints PatVerif.Proofs.FeHelp PatVerif.Proofs.FeCarry
  PatVerif.Proofs.FeField

def LooseP (p : Point) : Prop := Loose p.x ∧ Loose p.y ∧ Loose p.z ∧ Loose p.t
def LooseC (q : projCached) : Prop := Loose q.YplusX ∧ Loose q.YminusX ∧ Loose q.Z ∧ Loose q.T2d
def LooseA (q : affineCached) : Prop := Loose q.YplusX ∧ Loose q.YminusX ∧ Loose q.T2d
def LooseQ (r : projP1xP1) : Prop := Loose r.X ∧ Loose r.Y ∧ Loose r.Z ∧ Loose r.T
def Loose2 (r : projP2) : Prop := Loose r.X ∧ Loose r.Y ∧ Loose r.Z

/-- the curve constant d = -121665/121666 -/
def dF : F := (37095705934669439343138083508754565189542113879843219016388785533085940283555 : Nat)

theorem d_limbs : EdPoints.d = ⟨929955233495203, 466365720129213, 1662059464998953, 2033849074728123, 1442794654840575⟩ := by decide
theorem d_loose : Loose EdPoints.d := by rw [d_limbs]; simp only [Loose]; omega
theorem fv_d : fv EdPoints.d = dF := by rw [d_limbs]; simp [fv, val, dF]
theorem d2_spec : Loose EdPoints.d2 ∧ fv EdPoints.d2 = 2 * dF := by
  obtain ⟨t, e⟩ := fv_add ⟨0, 0, 0, 0, 0⟩ EdPoints.d EdPoints.d d_loose d_loose
  exact ⟨t.loose, by show fv (FeLimbs.Add _ _ _) = _; rw [e, fv_d]; ring⟩
/-- d·121666 = −121665 -/
theorem dF_def : dF * 121666 = -121665 := by
  have h : (37095705934669439343138083508754565189542113879843219016388785533085940283555 * 121666 + 121665) % P = 0 % P := by decide
  have := cast_of_mod h
  simp only [Nat.cast_add, Nat.cast_mul, Nat.cast_zero] at this
  exact eq_neg_of_add_eq_zero_left (by simpa [dF] using this)

theorem projCached_FromP3_spec (v : projCached) (p : Point) (hp : LooseP p) :
    LooseC (projCached_FromP3 v p) ∧ fv (projCached_FromP3 v p).YplusX = fv p.y + fv p.x ∧
    fv (projCached_FromP3 v p).YminusX = fv p.y - fv p.x ∧ fv (projCached_FromP3 v p).Z = fv p.z ∧
    fv (projCached_FromP3 v p).T2d = fv p.t * (2 * dF) := by
  obtain ⟨hx, hy, hz, ht⟩ := hp
  obtain ⟨t1, e1⟩ := fv_add v.YplusX p.y p.x hy hx
  obtain ⟨t2, e2⟩ := fv_sub v.YminusX p.y p.x hy hx
  obtain ⟨t3, e3⟩ := fv_mul v.T2d p.t EdPoints.d2 ht d2_spec.1
  simp only [projCached_FromP3, FeLimbs.Set]
  exact ⟨⟨t1.loose, t2.loose, hz, t3.loose⟩, e1, e2, trivial, by rw [e3, d2_spec.2]⟩

theorem projP1xP1_Add_spec (v : projP1xP1) (p : Point) (q : projCached) (hp : LooseP p) (hq : LooseC q) :
    LooseQ (projP1xP1_Add v p q) ∧
    fv (projP1xP1_Add v p q).X = (fv p.y + fv p.x) * fv q.YplusX - (fv p.y - fv p.x) * fv q.YminusX ∧
    fv (projP1xP1_Add v p q).Y = (fv p.y + fv p.x) * fv q.YplusX + (fv p.y - fv p.x) * fv q.YminusX ∧
    fv (projP1xP1_Add v p q).Z = 2 * (fv p.z * fv q.Z) + fv p.t * fv q.T2d ∧
    fv (projP1xP1_Add v p q).T = 2 * (fv p.z * fv q.Z) - fv p.t * fv q.T2d := by
  obtain ⟨hx, hy, hz, ht⟩ := hp
  obtain ⟨qa, qb, qz, qt⟩ := hq
  obtain ⟨t1, e1⟩ := fv_add ⟨0, 0, 0, 0, 0⟩ p.y p.x hy hx
  obtain ⟨t2, e2⟩ := fv_sub ⟨0, 0, 0, 0, 0⟩ p.y p.x hy hx
  obtain ⟨t3, e3⟩ := fv_mul ⟨0, 0, 0, 0, 0⟩ _ q.YplusX t1.loose qa
  obtain ⟨t4, e4⟩ := fv_mul ⟨0, 0, 0, 0, 0⟩ _ q.YminusX t2.loose qb
  obtain ⟨t5, e5⟩ := fv_mul ⟨0, 0, 0, 0, 0⟩ p.t q.T2d ht qt
  obtain ⟨t6, e6⟩ := fv_mul ⟨0, 0, 0, 0, 0⟩ p.z q.Z hz qz
  obtain ⟨t7, e7⟩ := fv_add (Multiply ⟨0, 0, 0, 0, 0⟩ p.z q.Z) _ _ t6.loose t6.loose
  obtain ⟨tX, eX⟩ := fv_sub v.X _ _ t3.loose t4.loose
  obtain ⟨tY, eY⟩ := fv_add v.Y _ _ t3.loose t4.loose
  obtain ⟨tZ, eZ⟩ := fv_add v.Z _ _ t7.loose t5.loose
  obtain ⟨tT, eT⟩ := fv_sub v.T _ _ t7.loose t5.loose
  simp only [projP1xP1_Add]
  refine ⟨⟨tX.loose, tY.loose, tZ.loose, tT.loose⟩, ?_, ?_, ?_, ?_⟩
  · rw [eX, e3, e4, e1, e2]
  · rw [eY, e3, e4, e1, e2]
  · rw [eZ, e7, e6, e5]; ring
  · rw [eT, e7, e6, e5]; ring

theorem projP1xP1_Sub_spec (v : projP1xP1) (p : Point) (q : projCached) (hp : LooseP p) (hq : LooseC q) :
    LooseQ (projP1xP1_Sub v p q) ∧
    fv (projP1xP1_Sub v p q).X = (fv p.y + fv p.x) * fv q.YminusX - (fv p.y - fv p.x) * fv q.YplusX ∧
    fv (projP1xP1_Sub v p q).Y = (fv p.y + fv p.x) * fv q.YminusX + (fv p.y - fv p.x) * fv q.YplusX ∧
    fv (projP1xP1_Sub v p q).Z = 2 * (fv p.z * fv q.Z) - fv p.t * fv q.T2d ∧
    fv (projP1xP1_Sub v p q).T = 2 * (fv p.z * fv q.Z) + fv p.t * fv q.T2d := by
  obtain ⟨hx, hy, hz, ht⟩ := hp
  obtain ⟨qa, qb, qz, qt⟩ := hq
  obtain ⟨t1, e1⟩ := fv_add ⟨0, 0, 0, 0, 0⟩ p.y p.x hy hx
  obtain ⟨t2, e2⟩ := fv_sub ⟨0, 0, 0, 0, 0⟩ p.y p.x hy hx
  obtain ⟨t3, e3⟩ := fv_mul ⟨0, 0, 0, 0, 0⟩ _ q.YminusX t1.loose qb
  obtain ⟨t4, e4⟩ := fv_mul ⟨0, 0, 0, 0, 0⟩ _ q.YplusX t2.loose qa
  obtain ⟨t5, e5⟩ := fv_mul ⟨0, 0, 0, 0, 0⟩ p.t q.T2d ht qt
  obtain ⟨t6, e6⟩ := fv_mul ⟨0, 0, 0, 0, 0⟩ p.z q.Z hz qz
  obtain ⟨t7, e7⟩ := fv_add (Multiply ⟨0, 0, 0, 0, 0⟩ p.z q.Z) _ _ t6.loose t6.loose
  obtain ⟨tX, eX⟩ := fv_sub v.X _ _ t3.loose t4.loose
  obtain ⟨tY, eY⟩ := fv_add v.Y _ _ t3.loose t4.loose
  obtain ⟨tZ, eZ⟩ := fv_sub v.Z _ _ t7.loose t5.loose
  obtain ⟨tT, eT⟩ := fv_add v.T _ _ t7.loose t5.loose
  simp only [projP1xP1_Sub]
  refine ⟨⟨tX.loose, tY.loose, tZ.loose, tT.loose⟩, ?_, ?_, ?_, ?_⟩
  · rw [eX, e3, e4, e1, e2]
  · rw [eY, e3, e4, e1, e2]
  · rw [eZ, e7, e6, e5]; ring
  · rw [eT, e7, e6, e5]; ring

theorem projP1xP1_Double_spec (v : projP1xP1) (p : projP2) (hp : Loose2 p) :
    LooseQ (projP1xP1_Double v p) ∧
    fv (projP1xP1_Double v p).X = 2 * (fv p.X * fv p.Y) ∧
    fv (projP1xP1_Double v p).Y = fv p.Y * fv p.Y + fv p.X * fv p.X ∧
    fv (projP1xP1_Double v p).Z = fv p.Y * fv p.Y - fv p.X * fv p.X ∧
    fv (projP1xP1_Double v p).T = 2 * (fv p.Z * fv p.Z) - (fv p.Y * fv p.Y - fv p.X * fv p.X) := by
  obtain ⟨hx, hy, hz⟩ := hp
  obtain ⟨t1, e1⟩ := fv_sq ⟨0, 0, 0, 0, 0⟩ p.X hx
  obtain ⟨t2, e2⟩ := fv_sq ⟨0, 0, 0, 0, 0⟩ p.Y hy
  obtain ⟨t3, e3⟩ := fv_sq ⟨0, 0, 0, 0, 0⟩ p.Z hz
  obtain ⟨t4, e4⟩ := fv_add (Square ⟨0, 0, 0, 0, 0⟩ p.Z) _ _ t3.loose t3.loose
  obtain ⟨t5, e5⟩ := fv_add ⟨0, 0, 0, 0, 0⟩ p.X p.Y hx hy
  obtain ⟨t6, e6⟩ := fv_sq (FeLimbs.Add ⟨0, 0, 0, 0, 0⟩ p.X p.Y) _ t5.loose
  obtain ⟨tY, eY⟩ := fv_add v.Y _ _ t2.loose t1.loose
  obtain ⟨tZ, eZ⟩ := fv_sub v.Z _ _ t2.loose t1.loose
  obtain ⟨tX, eX⟩ := fv_sub v.X _ _ t6.loose tY.loose
  obtain ⟨tT, eT⟩ := fv_sub v.T _ _ t4.loose tZ.loose
  simp only [projP1xP1_Double]
  refine ⟨⟨tX.loose, tY.loose, tZ.loose, tT.loose⟩, ?_, ?_, ?_, ?_⟩
  · rw [eX, e6, e5, eY, e2, e1]; ring
  · rw [eY, e2, e1]
  · rw [eZ, e2, e1]
  · rw [eT, e4, e3, eZ, e2, e1]; ring

theorem Point_fromP1xP1_spec (v : Point) (p : projP1xP1) (hp : LooseQ p) :
    LooseP (Point_fromP1xP1 v p) ∧ fv (Point_fromP1xP1 v p).x = fv p.X * fv p.T ∧ fv (Point_fromP1xP1 v p).y = fv p.Y * fv p.Z ∧
    fv (Point_fromP1xP1 v p).z = fv p.Z * fv p.T ∧ fv (Point_fromP1xP1 v p).t = fv p.X * fv p.Y := by
  obtain ⟨hX, hY, hZ, hT⟩ := hp
  obtain ⟨t1, e1⟩ := fv_mul v.x p.X p.T hX hT
  obtain ⟨t2, e2⟩ := fv_mul v.y p.Y p.Z hY hZ
  obtain ⟨t3, e3⟩ := fv_mul v.z p.Z p.T hZ hT
  obtain ⟨t4, e4⟩ := fv_mul v.t p.X p.Y hX hY
  simp only [Point_fromP1xP1]
  exact ⟨⟨t1.loose, t2.loose, t3.loose, t4.loose⟩, e1, e2, e3, e4⟩

theorem projP2_FromP1xP1_spec (v : projP2) (p : projP1xP1) (hp : LooseQ p) :
    Loose2 (projP2_FromP1xP1 v p) ∧ fv (projP2_FromP1xP1 v p).X = fv p.X * fv p.T ∧ fv (projP2_FromP1xP1 v p).Y = fv p.Y * fv p.Z ∧
    fv (projP2_FromP1xP1 v p).Z = fv p.Z * fv p.T := by
  obtain ⟨hX, hY, hZ, hT⟩ := hp
  obtain ⟨t1, e1⟩ := fv_mul v.X p.X p.T hX hT
  obtain ⟨t2, e2⟩ := fv_mul v.Y p.Y p.Z hY hZ
  obtain ⟨t3, e3⟩ := fv_mul v.Z p.Z p.T hZ hT
  simp only [projP2_FromP1xP1]
  exact ⟨⟨t1.loose, t2.loose, t3.loose⟩, e1, e2, e3⟩

theorem Point_Negate_spec (v p : Point) (hp : LooseP p) :
    LooseP (Point_Negate v p) ∧ fv (Point_Negate v p).x = - fv p.x ∧ fv (Point_Negate v p).y = fv p.y ∧
    fv (Point_Negate v p).z = fv p.z ∧ fv (Point_Negate v p).t = - fv p.t := by
  obtain ⟨hx, hy, hz, ht⟩ := hp
  obtain ⟨t1, e1⟩ := fv_neg v.x p.x hx
  obtain ⟨t4, e4⟩ := fv_neg v.t p.t ht
  simp only [Point_Negate, FeLimbs.Set]
  exact ⟨⟨t1.loose, hy, hz, t4.loose⟩, e1, trivial, trivial, e4⟩

/-- `Point.Add`, end to end: the four coordinates are the extended twisted-Edwards sums (Hisil–Wong–Carter–Dawson, a = −1) -/
theorem Point_Add_spec (v p q : Point) (hp : LooseP p) (hq : LooseP q) :
    let E := 2 * (fv p.x * fv q.y + fv p.y * fv q.x)
    let H := 2 * (fv p.y * fv q.y + fv p.x * fv q.x)
    let G := 2 * (fv p.z * fv q.z + dF * (fv p.t * fv q.t))
    let Fm := 2 * (fv p.z * fv q.z - dF * (fv p.t * fv q.t))
    LooseP (Point_Add v p q) ∧ fv (Point_Add v p q).x = E * Fm ∧ fv (Point_Add v p q).y = H * G ∧
    fv (Point_Add v p q).z = G * Fm ∧ fv (Point_Add v p q).t = E * H := by
  intro E H G Fm
  obtain ⟨lc, c1, c2, c3, c4⟩ := projCached_FromP3_spec ⟨⟨0, 0, 0, 0, 0⟩, ⟨0, 0, 0, 0, 0⟩, ⟨0, 0, 0, 0, 0⟩, ⟨0, 0, 0, 0, 0⟩⟩ q hq
  obtain ⟨lq, a1, a2, a3, a4⟩ := projP1xP1_Add_spec ⟨⟨0, 0, 0, 0, 0⟩, ⟨0, 0, 0, 0, 0⟩, ⟨0, 0, 0, 0, 0⟩, ⟨0, 0, 0, 0, 0⟩⟩ p _ hp lc
  obtain ⟨lr, r1, r2, r3, r4⟩ := Point_fromP1xP1_spec v _ lq
  simp only [Point_Add]
  refine ⟨lr, ?_, ?_, ?_, ?_⟩
  · rw [r1, a1, a4, c1, c2, c3, c4]; simp only [E, Fm]; ring
  · rw [r2, a2, a3, c1, c2, c3, c4]; simp only [H, G]; ring
  · rw [r3, a3, a4, c3, c4]; simp only [G, Fm]; ring
  · rw [r4, a1, a2, c1, c2]; simp only [E, H]; ring

/-- the division-free addition law: if the operands are (x₁Z₁ : y₁Z₁ : Z₁ : x₁y₁Z₁) and (x₂Z₂ : y₂Z₂ : Z₂ : x₂y₂Z₂), the result
(X : Y : Z : T) satisfies X·(1 + d x₁x₂y₁y₂) = Z·(x₁y₂ + y₁x₂), Y·(1 − d x₁x₂y₁y₂) = Z·(y₁y₂ + x₁x₂) and T·Z = X·Y -/
theorem Point_Add_law (v p q : Point) (hp : LooseP p) (hq : LooseP q) (x1 y1 x2 y2 : F)
    (hx1 : fv p.x = x1 * fv p.z) (hy1 : fv p.y = y1 * fv p.z) (ht1 : fv p.t = x1 * y1 * fv p.z)
    (hx2 : fv q.x = x2 * fv q.z) (hy2 : fv q.y = y2 * fv q.z) (ht2 : fv q.t = x2 * y2 * fv q.z) :
    fv (Point_Add v p q).x * (1 + dF * x1 * x2 * y1 * y2) = fv (Point_Add v p q).z * (x1 * y2 + y1 * x2) ∧
    fv (Point_Add v p q).y * (1 - dF * x1 * x2 * y1 * y2) = fv (Point_Add v p q).z * (y1 * y2 + x1 * x2) ∧
    fv (Point_Add v p q).t * fv (Point_Add v p q).z = fv (Point_Add v p q).x * fv (Point_Add v p q).y := by
  obtain ⟨_, ex, ey, ez, et⟩ := Point_Add_spec v p q hp hq
  rw [ex, ey, ez, et, hx1, hy1, ht1, hx2, hy2, ht2]
  refine ⟨by ring, by ring, by ring⟩

/-- doubling (`projP1xP1.Double` of a point in P2 coordinates): for a point on the curve −x² + y² = 1 + d x²y² given as
(xZ : yZ : Z), the result (X : Y : Z' : T) — read as x₃ = X/Z', y₃ = Y/T — satisfies the addition law with both operands equal -/
theorem projP1xP1_Double_law (v : projP1xP1) (p : projP2) (hp : Loose2 p) (x y : F)
    (hx : fv p.X = x * fv p.Z) (hy : fv p.Y = y * fv p.Z) (hc : y * y - x * x = 1 + dF * x * x * y * y) :
    fv (projP1xP1_Double v p).X * (1 + dF * x * x * y * y) = fv (projP1xP1_Double v p).Z * (2 * (x * y)) ∧
    fv (projP1xP1_Double v p).Y * (1 - dF * x * x * y * y) = fv (projP1xP1_Double v p).T * (y * y + x * x) := by
  obtain ⟨_, eX, eY, eZ, eT⟩ := projP1xP1_Double_spec v p hp
  rw [eX, eY, eZ, eT, hx, hy]
  constructor
  · linear_combination (-(2 * x * y * fv p.Z * fv p.Z)) * hc
  · linear_combination ((y * y + x * x) * fv p.Z * fv p.Z) * hc

/-- `Point.Equal`: 1 exactly when X₁Z₂ = X₂Z₁ and Y₁Z₂ = Y₂Z₁ -/
theorem Point_Equal_spec (v u : Point) (hv : LooseP v) (hu : LooseP u) :
    (Point_Equal v u = 1 ↔ (fv v.x * fv u.z = fv u.x * fv v.z ∧ fv v.y * fv u.z = fv u.y * fv v.z)) ∧
    (Point_Equal v u = 0 ∨ Point_Equal v u = 1) := by
  obtain ⟨vx, vy, vz, vt⟩ := hv
  obtain ⟨ux, uy, uz, ut⟩ := hu
  obtain ⟨t1, e1⟩ := fv_mul ⟨0, 0, 0, 0, 0⟩ v.x u.z vx uz
  obtain ⟨t2, e2⟩ := fv_mul ⟨0, 0, 0, 0, 0⟩ u.x v.z ux vz
  obtain ⟨t3, e3⟩ := fv_mul ⟨0, 0, 0, 0, 0⟩ v.y u.z vy uz
  obtain ⟨t4, e4⟩ := fv_mul ⟨0, 0, 0, 0, 0⟩ u.y v.z uy vz
  have i1 := equal_iff _ _ t1.loose.word t2.loose.word
  have i2 := equal_iff _ _ t3.loose.word t4.loose.word
  have h1 := equal_01 _ _ t1.loose.word t2.loose.word
  have h2 := equal_01 _ _ t3.loose.word t4.loose.word
  rw [e1, e2] at i1
  rw [e3, e4] at i2
  simp only [Point_Equal]
  rw [← i1, ← i2]
  rcases h1 with a | a <;> rcases h2 with b | b <;> rw [a, b] <;> simp [U64.and]

end PatVerif.Proofs.EdPoints
