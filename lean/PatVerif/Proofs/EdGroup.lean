import Mathlib.Algebra.Group.Defs
import PatVerif.Proofs.EdComplete
import PatVerif.Proofs.EdAssoc
import PatVerif.Proofs.ScalarMultAlg
/-!
# The points of edwards25519 form a commutative group under the addition the Go code computes (C14, C15)

`Proofs/EdAssoc.lean` proves closure, commutativity, the neutral element, inverses and **associativity** of the affine
twisted-Edwards law over any field in which the law is complete; `Proofs/EdComplete.lean` proves completeness for
`F = ZMod (2^255 − 19)` and `d = −121665/121666` (d is a non-square, −1 is a square). Hence the curve points are a commutative group
`EdPoint`. The translated `Point.Add` and `Point.Negate` of the Go code (`Generated/EdPoints.lean`) are this group's addition and
negation on valid points (`Point_Add_group`, `Point_Negate_group`), `Point.SetBytes` only produces valid points, and the generic
theorems of `Proofs/ScalarMultAlg.lean` therefore hold in `EdPoint`: the table-driven loops of `scalarmult.go`, run with this
group's operations on the digits of `Proofs/Recode.lean`, compute the scalar multiples.
-/
namespace PatVerif.Proofs.EdGroup
open PatVerif PatVerif.Generated PatVerif.Generated.FeLimbs PatVerif.Generated.EdPoints PatVerif.Proofs.FeHelp PatVerif.Proofs.FeField
  PatVerif.Proofs.EdPoints PatVerif.Proofs.FeInv PatVerif.Proofs.EdComplete

/-- completeness of the law on edwards25519, in the form `EdAssoc` asks for -/
theorem complete_dF : EdAssoc.Complete dF := fun x1 y1 x2 y2 h1 h2 => denominators_ne_zero x1 y1 x2 y2 h1 h2

theorem edAdd_eq (P Q : F × F) : EdComplete.edAdd P Q = EdAssoc.edAdd dF P Q := rfl
theorem onCurve_iff (x y : F) : EdComplete.OnCurve x y ↔ EdAssoc.OnCurve dF x y := Iff.rfl

/-- the points of edwards25519 over `ZMod (2^255 − 19)` -/
def EdPoint : Type := {P : F × F // EdAssoc.OnCurve dF P.1 P.2}

namespace EdPoint

@[ext] theorem ext {P Q : EdPoint} (h : P.1 = Q.1) : P = Q := Subtype.ext h

def add (P Q : EdPoint) : EdPoint := ⟨EdAssoc.edAdd dF P.1 Q.1, EdAssoc.edAdd_on_curve dF complete_dF P.1 Q.1 P.2 Q.2⟩
def zero : EdPoint := ⟨(0, 1), by simp [EdAssoc.OnCurve]⟩
def neg (P : EdPoint) : EdPoint := ⟨(-P.1.1, P.1.2), by
  have h := P.2
  simp only [EdAssoc.OnCurve] at h ⊢
  linear_combination h⟩

instance : Add EdPoint := ⟨add⟩
instance : Zero EdPoint := ⟨zero⟩
instance : Neg EdPoint := ⟨neg⟩

instance : AddCommGroup EdPoint where
  add_assoc P Q R := ext (EdAssoc.edAdd_assoc dF complete_dF P.1 Q.1 R.1 P.2 Q.2 R.2)
  zero_add P := ext (by
    show EdAssoc.edAdd dF (0, 1) P.1 = P.1
    rw [EdAssoc.edAdd_comm]; exact EdAssoc.edAdd_zero dF P.1)
  add_zero P := ext (EdAssoc.edAdd_zero dF P.1)
  add_comm P Q := ext (EdAssoc.edAdd_comm dF P.1 Q.1)
  neg_add_cancel P := ext (by
    show EdAssoc.edAdd dF (-P.1.1, P.1.2) P.1 = (0, 1)
    rw [EdAssoc.edAdd_comm]; exact EdAssoc.edAdd_neg dF complete_dF P.1 P.2)
  nsmul := nsmulRec
  zsmul := zsmulRec

theorem add_val (P Q : EdPoint) : (P + Q).1 = EdAssoc.edAdd dF P.1 Q.1 := rfl
theorem neg_val (P : EdPoint) : (-P).1 = (-P.1.1, P.1.2) := rfl
theorem zero_val : (0 : EdPoint).1 = (0, 1) := rfl

end EdPoint

/-- the group element a valid Go point stands for -/
def toEd (p : Point) (h : Valid p) : EdPoint := ⟨affine p, h.2.2.2⟩

/-- **the translated `Point.Add` is the group addition** on valid points -/
theorem Point_Add_group (v p q : Point) (hp : Valid p) (hq : Valid q) :
    toEd (Point_Add v p q) (Valid_Add v p q hp hq).1 = toEd p hp + toEd q hq :=
  EdPoint.ext (Valid_Add v p q hp hq).2

/-- **the translated `Point.Negate` is the group negation** on valid points -/
theorem Point_Negate_group (v p : Point) (hp : Valid p) :
    toEd (Point_Negate v p) (Valid_Negate v p hp).1 = -toEd p hp :=
  EdPoint.ext (Valid_Negate v p hp).2

/-- whatever `Point.SetBytes` accepts stands for a group element -/
theorem SetBytes_group (v : Point) (x : List Nat) (hl : x.length = 32) (hx : ∀ i, i < 32 → x.getD i 0 < 256) (P : Point)
    (h : Point_SetBytes v x = some P) : ∃ g : EdPoint, g = toEd P (Valid_SetBytes v x hl hx P h) := ⟨_, rfl⟩

open PatVerif.Model.ScalarMultAlg PatVerif.Model.Recode PatVerif.Proofs.ScalarMultAlg in
/-- the loop of `ScalarMult`, run with the group operations of the curve, computes the scalar multiple -/
theorem varMult_on_curve (digits : List Int) (Q : EdPoint) (h : ∀ d ∈ digits, d.natAbs ≤ 8) :
    varMult (grp : Ops EdPoint) digits Q = evalDigits 4 digits • Q := varMult_spec digits Q h

open PatVerif.Model.ScalarMultAlg PatVerif.Model.Recode PatVerif.Proofs.ScalarMultAlg in
/-- the loop of `ScalarBaseMult` -/
theorem baseMult_on_curve (digits : List Int) (B : EdPoint) (hl : digits.length = 64) (h : ∀ d ∈ digits, d.natAbs ≤ 8) :
    baseMult (grp : Ops EdPoint) digits B = evalDigits 4 digits • B := baseMult_spec digits B hl h

open PatVerif.Model.ScalarMultAlg PatVerif.Model.Recode PatVerif.Proofs.ScalarMultAlg in
/-- the loop of `VarTimeDoubleScalarBaseMult` -/
theorem doubleMult_on_curve (A B : EdPoint) (aNaf bNaf : List Int) (hl : aNaf.length = bNaf.length)
    (ha : ∀ d ∈ aNaf, NafDigit 8 d) (hb : ∀ d ∈ bNaf, NafDigit 64 d) :
    doubleMult (grp : Ops EdPoint) aNaf bNaf A B = some (evalDigits 1 aNaf • A + evalDigits 1 bNaf • B) :=
  doubleMult_spec A B aNaf bNaf hl ha hb

/-- non-vacuity: the neutral element and the point of order two are group elements, and they differ -/
example : (0 : EdPoint) ≠ ⟨(0, -1), by simp [EdAssoc.OnCurve]⟩ := by
  intro h
  have := congrArg (fun P : EdPoint => P.1.2) h
  simp only [EdPoint.zero_val] at this
  have h2 : ((2 : ℕ) : F) = 0 := by push_cast; linear_combination this
  rw [ZMod.natCast_eq_zero_iff] at h2
  exact absurd (Nat.le_of_dvd (by decide) h2) (by decide)

end PatVerif.Proofs.EdGroup
