import PatVerif.Proofs.ScMulAddA
import PatVerif.Proofs.ScMulAddB
import PatVerif.Proofs.ScMulAddC
/-! Written by lean/tools/scproof.py (interval analysis of scalar.go); every bound is checked here by `omega`. -/
namespace PatVerif.Proofs.ScMulAdd
open PatVerif PatVerif.Generated.ScLimbs PatVerif.Proofs.ScHelp
set_option maxRecDepth 16384
set_option maxHeartbeats 4000000

theorem scMulAdd_store_spec (l : Limbs) (h : RF l) :
    scMulAdd_store_safe l ∧ bytesOK (scMulAdd_store l) ∧ (scMulAdd_store l).length = 32 ∧ leVal (scMulAdd_store l) = val l := by
  simp only [RF] at h
  have o0 := ior_ishl (Go.ishr l.s0 16) l.s1 5 (by simp only [Go.ishr]; omega) (by simp only [Go.ishr]; omega) (by omega)
  have o1 := ior_ishl (Go.ishr l.s1 19) l.s2 2 (by simp only [Go.ishr]; omega) (by simp only [Go.ishr]; omega) (by omega)
  have o2 := ior_ishl (Go.ishr l.s2 14) l.s3 7 (by simp only [Go.ishr]; omega) (by simp only [Go.ishr]; omega) (by omega)
  have o3 := ior_ishl (Go.ishr l.s3 17) l.s4 4 (by simp only [Go.ishr]; omega) (by simp only [Go.ishr]; omega) (by omega)
  have o4 := ior_ishl (Go.ishr l.s4 20) l.s5 1 (by simp only [Go.ishr]; omega) (by simp only [Go.ishr]; omega) (by omega)
  have o5 := ior_ishl (Go.ishr l.s5 15) l.s6 6 (by simp only [Go.ishr]; omega) (by simp only [Go.ishr]; omega) (by omega)
  have o6 := ior_ishl (Go.ishr l.s6 18) l.s7 3 (by simp only [Go.ishr]; omega) (by simp only [Go.ishr]; omega) (by omega)
  have o7 := ior_ishl (Go.ishr l.s8 16) l.s9 5 (by simp only [Go.ishr]; omega) (by simp only [Go.ishr]; omega) (by omega)
  have o8 := ior_ishl (Go.ishr l.s9 19) l.s10 2 (by simp only [Go.ishr]; omega) (by simp only [Go.ishr]; omega) (by omega)
  have o9 := ior_ishl (Go.ishr l.s10 14) l.s11 7 (by simp only [Go.ishr]; omega) (by simp only [Go.ishr]; omega) (by omega)
  simp only [scMulAdd_store, scMulAdd_store_safe, bytesOK, leVal, List.length, val]
  simp only [o0, o1, o2, o3, o4, o5, o6, o7, o8, o9]
  clear o0 o1 o2 o3 o4 o5 o6 o7 o8 o9
  simp only [Go.toByte, Go.ishr, Go.ishl, Go.inI64]
  and_intros <;> first | trivial | omega

/-- `scMulAdd` as translated from scalar.go: no int64 operation overflows, the output is 32 bytes, and it is the
little-endian encoding of the canonical representative modulo the group order -/
theorem scMulAdd_correct (a : Nat → Int) (ha : ∀ i, 0 ≤ a i ∧ a i ≤ 255) (b : Nat → Int) (hb : ∀ i, 0 ≤ b i ∧ b i ≤ 255) (c : Nat → Int) (hc : ∀ i, 0 ≤ c i ∧ c i ≤ 255) :
    scMulAdd_load_safe a b c ∧ safeChain scMulAdd_blocks scMulAdd_safes (scMulAdd_load a b c) ∧
    scMulAdd_store_safe (scMulAdd_blocks.foldl (fun l f => f l) (scMulAdd_load a b c)) ∧
    bytesOK (scMulAdd a b c) ∧ (scMulAdd a b c).length = 32 ∧ leVal (scMulAdd a b c) = (leFn a 32 * leFn b 32 + leFn c 32) % L := by
  simp only [scMulAdd, scMulAdd_blocks, scMulAdd_safes, safeChain, List.foldl]
  generalize hl0 : scMulAdd_load a b c = l0
  generalize hl1 : scMulAdd_b1 l0 = l1
  generalize hl2 : scMulAdd_b2 l1 = l2
  generalize hl3 : scMulAdd_b3 l2 = l3
  generalize hl4 : scMulAdd_b4 l3 = l4
  generalize hl5 : scMulAdd_b5 l4 = l5
  generalize hl6 : scMulAdd_b6 l5 = l6
  generalize hl7 : scMulAdd_b7 l6 = l7
  generalize hl8 : scMulAdd_b8 l7 = l8
  generalize hl9 : scMulAdd_b9 l8 = l9
  generalize hl10 : scMulAdd_b10 l9 = l10
  generalize hl11 : scMulAdd_b11 l10 = l11
  generalize hl12 : scMulAdd_b12 l11 = l12
  generalize hl13 : scMulAdd_b13 l12 = l13
  generalize hl14 : scMulAdd_b14 l13 = l14
  generalize hl15 : scMulAdd_b15 l14 = l15
  generalize hl16 : scMulAdd_b16 l15 = l16
  generalize hl17 : scMulAdd_b17 l16 = l17
  generalize hl18 : scMulAdd_b18 l17 = l18
  generalize hl19 : scMulAdd_b19 l18 = l19
  generalize hl20 : scMulAdd_b20 l19 = l20
  generalize hl21 : scMulAdd_b21 l20 = l21
  generalize hl22 : scMulAdd_b22 l21 = l22
  have h0 := scMulAdd_load_spec a b c ha hb hc
  rw [hl0] at h0
  obtain ⟨g0, sl, v0⟩ := h0
  have h1 := scMulAdd_b1_spec l0 g0
  rw [hl1] at h1
  obtain ⟨g1, s1, v1⟩ := h1
  have h2 := scMulAdd_b2_spec l1 g1
  rw [hl2] at h2
  obtain ⟨g2, s2, v2⟩ := h2
  have h3 := scMulAdd_b3_spec l2 g2
  rw [hl3] at h3
  obtain ⟨g3, s3, v3⟩ := h3
  have h4 := scMulAdd_b4_spec l3 g3
  rw [hl4] at h4
  obtain ⟨g4, s4, v4⟩ := h4
  have h5 := scMulAdd_b5_spec l4 g4
  rw [hl5] at h5
  obtain ⟨g5, s5, v5⟩ := h5
  have h6 := scMulAdd_b6_spec l5 g5
  rw [hl6] at h6
  obtain ⟨g6, s6, v6⟩ := h6
  have h7 := scMulAdd_b7_spec l6 g6
  rw [hl7] at h7
  obtain ⟨g7, s7, v7⟩ := h7
  have h8 := scMulAdd_b8_spec l7 g7
  rw [hl8] at h8
  obtain ⟨g8, s8, v8⟩ := h8
  have h9 := scMulAdd_b9_spec l8 g8
  rw [hl9] at h9
  obtain ⟨g9, s9, v9⟩ := h9
  have h10 := scMulAdd_b10_spec l9 g9
  rw [hl10] at h10
  obtain ⟨g10, s10, v10⟩ := h10
  have h11 := scMulAdd_b11_spec l10 g10
  rw [hl11] at h11
  obtain ⟨g11, s11, v11⟩ := h11
  have h12 := scMulAdd_b12_spec l11 g11
  rw [hl12] at h12
  obtain ⟨g12, s12, v12⟩ := h12
  have h13 := scMulAdd_b13_spec l12 g12
  rw [hl13] at h13
  obtain ⟨g13, s13, v13⟩ := h13
  have h14 := scMulAdd_b14_spec l13 g13
  rw [hl14] at h14
  obtain ⟨g14, s14, v14⟩ := h14
  have h15 := scMulAdd_b15_spec l14 g14
  rw [hl15] at h15
  obtain ⟨g15, s15, v15⟩ := h15
  have h16 := scMulAdd_b16_spec l15 g15
  rw [hl16] at h16
  obtain ⟨g16, s16, v16⟩ := h16
  have h17 := scMulAdd_b17_spec l16 g16
  rw [hl17] at h17
  obtain ⟨g17, s17, v17⟩ := h17
  have h18 := scMulAdd_b18_spec l17 g17
  rw [hl18] at h18
  obtain ⟨g18, s18, v18⟩ := h18
  have h19 := scMulAdd_b19_spec l18 g18
  rw [hl19] at h19
  obtain ⟨g19, s19, v19⟩ := h19
  have h20 := scMulAdd_b20_spec l19 g19
  rw [hl20] at h20
  obtain ⟨g20, s20, v20⟩ := h20
  have hF := scMulAdd_final l20 g20
  rw [hl21, hl22] at hF
  obtain ⟨gF, s21, s22, vF, vlo, vhi⟩ := hF
  obtain ⟨ss, sb, sn, sv⟩ := scMulAdd_store_spec l22 gF
  refine ⟨sl, ⟨s1, s2, s3, s4, s5, s6, s7, s8, s9, s10, s11, s12, s13, s14, s15, s16, s17, s18, s19, s20, s21, s22, trivial⟩, ss, sb, sn, ?_⟩
  rw [sv]
  clear sl ss sb sn sv gF g0 g1 g2 g3 g4 g5 g6 g7 g8 g9 g10 g11 g12 g13 g14 g15 g16 g17 g18 g19 g20 s1 s2 s3 s4 s5 s6 s7 s8 s9 s10 s11 s12 s13 s14 s15 s16 s17 s18 s19 s20 s21 s22 hl0 hl1 hl2 hl3 hl4 hl5 hl6 hl7 hl8 hl9 hl10 hl11 hl12 hl13 hl14 hl15 hl16 hl17 hl18 hl19 hl20 hl21 hl22
  simp only [L] at *
  omega

end PatVerif.Proofs.ScMulAdd
