import Mathlib.Tactic.LinearCombination
import PatVerif.Proofs.FeField
/-! Soundness of `SqrtRatio` of the translated field code. -/
namespace PatVerif.Proofs.FeSqrt
open PatVerif PatVerif.Generated PatVerif.Generated.FeLimbs PatVerif.Proofs.FeHelp PatVerif.Proofs.FeCarry PatVerif.Proofs.FeMul
  PatVerif.Proofs.FeMisc PatVerif.Proofs.FeBytes PatVerif.Proofs.FePow PatVerif.Proofs.FeAbs PatVerif.Proofs.FeField

theorem or01 {x y : Nat} (hx : x = 0 ∨ x = 1) (hy : y = 0 ∨ y = 1) :
    (U64.or x y = 0 ∧ x = 0 ∧ y = 0) ∨ (U64.or x y = 1 ∧ (x = 1 ∨ y = 1)) := by
  rcases hx with rfl | rfl <;> rcases hy with rfl | rfl <;> simp [U64.or]

/-- `SqrtRatio` is sound: the result is loose and non-negative, and whenever the function reports a square, v·r² = u.
(Completeness — that it reports a square whenever u/v is one — needs Euler's criterion and is not proved.) -/
theorem SqrtRatio_sound (r u v : Element) (hu : Loose u) (hv : Loose v) :
    Loose (SqrtRatio r u v).1 ∧ IsNegative (SqrtRatio r u v).1 = 0 ∧
    ((SqrtRatio r u v).2 = 0 ∨ (SqrtRatio r u v).2 = 1) ∧
    ((SqrtRatio r u v).2 = 1 → fv v * (fv (SqrtRatio r u v).1 * fv (SqrtRatio r u v).1) = fv u) := by
  unfold SqrtRatio
  extract_lets -merge w0 a0 b0 a1 b1 b2 a2 a3 r1 r2 a4 a5 b3 cs fs b4 fi b5 r3 r4
  obtain ⟨ta1, ea1⟩ := fv_sq a0 v hv
  obtain ⟨tb1, eb1⟩ := fv_mul b0 a1 v ta1.loose hv
  obtain ⟨tb2, eb2⟩ := fv_mul b1 u b1 hu tb1.loose
  obtain ⟨ta2, ea2⟩ := fv_sq a1 a1 ta1.loose
  obtain ⟨ta3, ea3⟩ := fv_mul a2 b2 a2 tb2.loose ta2.loose
  obtain ⟨lr1, er1⟩ := fv_pow22523 r a3 ta3.loose
  obtain ⟨tr2, er2⟩ := fv_mul r1 b2 r1 tb2.loose lr1
  obtain ⟨ta4, ea4⟩ := fv_sq a3 r2 tr2.loose
  obtain ⟨ta5, ea5⟩ := fv_mul a4 v a4 hv ta4.loose
  obtain ⟨tb3, eb3⟩ := fv_neg b2 u hu
  obtain ⟨tb4, eb4⟩ := fv_mul b3 b3 sqrtM1 tb3.loose sqrtM1_loose
  obtain ⟨tb5, eb5⟩ := fv_mul b4 r2 sqrtM1 tr2.loose sqrtM1_loose
  have hcs := equal_01 a5 u ta5.loose.word hu.word
  have hfs := equal_01 a5 b3 ta5.loose.word tb3.loose.word
  have hfi := equal_01 a5 b4 ta5.loose.word tb4.loose.word
  have ics := equal_iff a5 u ta5.loose.word hu.word
  have ifs := equal_iff a5 b3 ta5.loose.word tb3.loose.word
  have ifi := equal_iff a5 b4 ta5.loose.word tb4.loose.word
  -- the selection
  have hsel : (r3 = r2 ∧ fs = 0 ∧ fi = 0) ∨ (r3 = b5 ∧ (fs = 1 ∨ fi = 1)) := by
    rcases or01 hfs hfi with ⟨h0, hf, hi⟩ | ⟨h1, hh⟩
    · left; exact ⟨by show Select r2 b5 r2 (U64.or fs fi) = r2; rw [h0, Select_zero _ _ _ tr2.loose.word], hf, hi⟩
    · right; exact ⟨by show Select r2 b5 r2 (U64.or fs fi) = b5; rw [h1, Select_one _ _ _ tb5.loose.word], hh⟩
  have lr3 : Loose r3 := by rcases hsel with ⟨h, _⟩ | ⟨h, _⟩ <;> rw [h] <;> [exact tr2.loose; exact tb5.loose]
  obtain ⟨lr4, er4⟩ := fv_abs r3 r3 lr3
  have sq4 : fv r4 * fv r4 = fv r3 * fv r3 := by rcases er4 with h | h <;> rw [h] <;> ring
  refine ⟨lr4, Absolute_nonneg r3 r3 lr3, ?_, ?_⟩
  · rcases or01 hcs hfs with ⟨h, _⟩ | ⟨h, _⟩
    · exact Or.inl h
    · exact Or.inr h
  · intro hwas
    show fv v * (fv r4 * fv r4) = fv u
    rw [sq4]
    have hchk : fv a5 = fv v * (fv r2 * fv r2) := by rw [ea5, ea4]
    have hwas' : cs = 1 ∨ fs = 1 := by
      rcases or01 hcs hfs with ⟨h, _⟩ | ⟨_, h⟩
      · rw [h] at hwas; omega
      · exact h
    rcases hsel with ⟨h3, f0, i0⟩ | ⟨h3, hf⟩
    · -- no flip: the check succeeded as it stands
      rw [h3]
      rcases hwas' with h | h
      · rw [← hchk]; exact ics.1 h
      · omega
    · rw [h3, eb5]
      have key : fv v * (fv r2 * fv sqrtM1 * (fv r2 * fv sqrtM1)) = - fv a5 := by
        rw [hchk]; have := sqrtM1_sq; linear_combination (fv v * fv r2 * fv r2) * this
      rw [key]
      rcases hwas' with h | h
      · -- reported through the unflipped test although a flip was selected: then u = -u·i or u = -u, either way -u = u
        have hau : fv a5 = fv u := ics.1 h
        rcases hf with h' | h'
        · have := ifs.1 h'; rw [eb3] at this; rw [hau] at this ⊢; rw [← this]
        · have := ifi.1 h'; rw [eb4, eb3, hau] at this
          -- u = -u·i  ⇒  u·i = -u·i² = u  ⇒  u = -u
          have h2 : fv u * fv sqrtM1 = fv u := by
            have s := sqrtM1_sq
            linear_combination (fv sqrtM1) * this - (fv u) * s
          rw [hau]; linear_combination (-1) * this + h2
      · have := ifs.1 h; rw [eb3] at this; rw [this]; ring
end PatVerif.Proofs.FeSqrt
