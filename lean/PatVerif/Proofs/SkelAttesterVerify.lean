import PatVerif.Generated.Skeletons
/-!
# Control skeleton of the attester's request verification (C06)

`Generated/Skeletons.lean` is extracted from the Go source on every check of the properties that rest on
these functions (`/verif/extract/cmd/skeleton`): calls by callee, returns by kind, stores through maps and
receivers, conditions, in source order. The lists below are the skeletons the hand-written models were
written against; the theorems say the code has exactly these skeletons today.

In `attester_VerifyRequest` every `return error` precedes the first cache access (`Get`, then `Put` only when the client is
unknown): a rejected request cannot have touched the cache; the signature check (`innerVerifyRequest`) comes first, the
comparison of the recomputed blinded key with the request key last.
-/
namespace PatVerif.Proofs.SkelAttesterVerify

def expected_attester_innerVerifyRequest : List String :=
  ["call elliptic.P384",
   "call unmarshalPublicKey",
   "if err != nil {",
   "return error",
   "}",
   "call (…).Params",
   "call curve.Params",
   "if len(tokenRequest.Signature) != 2*scalarLen {",
   "return error",
   "}",
   "call (…).SetBytes",
   "call (…).SetBytes",
   "call sha512.New384",
   "call hash.Write",
   "call hash.Sum",
   "call ecdsa.Verify",
   "if !valid {",
   "return error",
   "}",
   "return no-error"]

theorem attester_innerVerifyRequest_as_modelled : Generated.Skeletons.attester_innerVerifyRequest = expected_attester_innerVerifyRequest := rfl

def expected_attester_VerifyRequest : List String :=
  ["call a.innerVerifyRequest",
   "if err != nil {",
   "return error",
   "}",
   "call elliptic.P384",
   "call unmarshalPublicKey",
   "if err != nil {",
   "return error",
   "}",
   "call ecdsa.CreateKey",
   "if err != nil {",
   "return error",
   "}",
   "call ecdsa.BlindPublicKeyWithContext",
   "if err != nil {",
   "return error",
   "}",
   "call elliptic.MarshalCompressed",
   "call bytes.Equal",
   "if !bytes.Equal(blindedPublicKeyEnc, tokenRequest.RequestKey) {",
   "return error",
   "}",
   "call (…).Get",
   "if !ok {",
   "call (…).Put",
   "}",
   "return no-error"]

theorem attester_VerifyRequest_as_modelled : Generated.Skeletons.attester_VerifyRequest = expected_attester_VerifyRequest := rfl

end PatVerif.Proofs.SkelAttesterVerify
