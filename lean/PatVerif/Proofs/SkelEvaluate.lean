import PatVerif.Generated.Skeletons
/-!
# Control skeleton of issuer-side evaluation of types 1, 2 and 5 (C01)

`Generated/Skeletons.lean` is extracted from the Go source on every check of the properties that rest on
these functions (`/verif/extract/cmd/skeleton`): calls by callee, returns by kind, stores through maps and
receivers, conditions, in source order. The lists below are the skeletons the hand-written models were
written against; the theorems say the code has exactly these skeletons today.


-/
namespace PatVerif.Proofs.SkelEvaluate

def expected_issuer1_Evaluate : List String :=
  ["call oprf.NewVerifiableServer",
   "call i.key",
   "call (…).NewElement",
   "call e.UnmarshalBinary",
   "if err != nil {",
   "return error",
   "}",
   "call server.Evaluate",
   "if err != nil {",
   "return error",
   "}",
   "call (…).MarshalBinaryCompress",
   "if err != nil {",
   "return error",
   "}",
   "call (…).MarshalBinary",
   "if err != nil {",
   "return error",
   "}",
   "return no-error"]

theorem issuer1_Evaluate_as_modelled : Generated.Skeletons.issuer1_Evaluate = expected_issuer1_Evaluate := rfl

def expected_issuer2_Evaluate : List String :=
  ["call blindrsa.NewSigner",
   "call signer.BlindSign",
   "if err != nil {",
   "return error",
   "}",
   "return no-error"]

theorem issuer2_Evaluate_as_modelled : Generated.Skeletons.issuer2_Evaluate = expected_issuer2_Evaluate := rfl

def expected_issuer5_Evaluate : List String :=
  ["call oprf.NewVerifiableServer",
   "call (…).Params",
   "call (…).Group",
   "for {",
   "call (…).NewElement",
   "store elements[i]",
   "call (…).UnmarshalBinary",
   "if err != nil {",
   "return error",
   "}",
   "}",
   "call server.Evaluate",
   "if err != nil {",
   "return error",
   "}",
   "for {",
   "call (…).MarshalBinaryCompress",
   "if err != nil {",
   "return error",
   "}",
   "store encodedElements[i]",
   "}",
   "call (…).MarshalBinary",
   "if err != nil {",
   "return error",
   "}",
   "for {",
   "call bElmts.AddBytes",
   "}",
   "call bElmts.BytesOrPanic",
   "call quicwire.AppendVarint",
   "return no-error"]

theorem issuer5_Evaluate_as_modelled : Generated.Skeletons.issuer5_Evaluate = expected_issuer5_Evaluate := rfl

end PatVerif.Proofs.SkelEvaluate
