import PatVerif.Model.Clamp
import PatVerif.Proofs.ScScalar
/-!
# `SetBytesWithClamping` is the clamped integer modulo L (C14)

For any 32 bytes: the buffer handed to `scReduce` consists of bytes, its little-endian value `c` is a multiple of 8 with
`2^254 ≤ c < 2^255` (the RFC 8032 clamping), and the result is the canonical 32-byte encoding of `c mod L` (by `scReduce_correct`,
the theorem about the translated limb code).
-/
namespace PatVerif.Proofs.Clamp
open PatVerif.Generated.ScLimbs PatVerif.Model.Clamp PatVerif.Proofs.ScHelp PatVerif.Proofs.ScScalar PatVerif.Proofs.ScReduce

theorem wideBytes_isBytes (x : List Nat) (hx : ∀ i, x.getD i 0 < 256) : IsBytes (wideBytes x) := by
  intro i
  unfold wideBytes
  split
  · have := hx 0
    have h : x.getD 0 0 &&& 248 ≤ 248 := Nat.and_le_right
    omega
  · split
    · have h : x.getD 31 0 &&& 63 ≤ 63 := Nat.and_le_right
      have h2 : (x.getD 31 0 &&& 63) ||| 64 < 128 := Nat.or_lt_two_pow (n := 7) (by omega) (by omega)
      omega
    · split
      · have := hx i; omega
      · omega

theorem and248 (b : Nat) (h : b < 256) : b &&& 248 = b / 8 * 8 := by
  have : ∀ b : Fin 256, b.val &&& 248 = b.val / 8 * 8 := by decide +kernel
  exact this ⟨b, h⟩

theorem and63or64 (b : Nat) (h : b < 256) : (b &&& 63) ||| 64 = b % 64 + 64 := by
  have : ∀ b : Fin 256, (b.val &&& 63) ||| 64 = b.val % 64 + 64 := by decide +kernel
  exact this ⟨b, h⟩

/-- **`SetBytesWithClamping`**: the canonical encoding of the clamped integer modulo L -/
theorem setBytesWithClamping_spec (x : List Nat) (hl : x.length = 32) (hx : ∀ i, x.getD i 0 < 256) :
    ∃ out, setBytesWithClamping x = some out ∧ Encodes out (leFn (wideBytes x) 64 % L) ∧
      wideBytes x 0 % 8 = 0 ∧ 64 ≤ wideBytes x 31 ∧ wideBytes x 31 < 128 ∧ (∀ i, 32 ≤ i → wideBytes x i = 0) := by
  refine ⟨scReduce (wideBytes x), by simp [setBytesWithClamping, hl], ?_, ?_, ?_, ?_, ?_⟩
  · obtain ⟨_, _, _, hb, hn, hv⟩ := scReduce_correct _ (wideBytes_isBytes x hx)
    exact ⟨hb, hn, hv, (emod_L_range _).1, (emod_L_range _).2⟩
  · simp only [wideBytes, ite_true]; rw [and248 _ (hx 0)]; omega
  · simp only [wideBytes, show ¬ (31 = 0) by decide, ite_false, ite_true]; rw [and63or64 _ (hx 31)]; omega
  · simp only [wideBytes, show ¬ (31 = 0) by decide, ite_false, ite_true]; rw [and63or64 _ (hx 31)]; omega
  · intro i hi
    simp only [wideBytes, show ¬ i = 0 by omega, show ¬ i = 31 by omega, show ¬ i < 32 by omega, ite_false]

end PatVerif.Proofs.Clamp
