import Mathlib.Tactic.Module
import PatVerif.Proofs.EdRepr
import PatVerif.Proofs.ScalarMultLit
import PatVerif.Proofs.ScalarMultAlg
import PatVerif.Proofs.Recode
/-!
# `(*Point).ScalarMult` computes the scalar multiple in the curve group (C14, C15)

`Model/ScalarMultLit.scalarMult` is the Go function transcribed statement by statement over the *translated* point formulas
(`Generated/EdPoints.lean`) — table of `1..8` times `Q` in cached coordinates, constant-time selection, the loop through
P1xP1 → P2 → P1xP1 … → P3 with four doublings per digit. `Proofs/EdRepr.lean` relates each of the five coordinate systems to the
group element it stands for and proves every translated formula correct with respect to the group operations. This file composes
them along the loop: **for every valid point `Q` standing for `g` and every 64 digits with `|d| ≤ 8`, the result is a valid point
standing for `(Σ dᵢ16ⁱ) • g`** — hence, with `Proofs/Recode.lean`, for every scalar `x` the Go code can hold, recoding followed by
the loop yields `x • g` (`scalarMult_correct`). This is the operation key blinding and unblinding perform on the public key.
-/
namespace PatVerif.Proofs.ScalarMultRefine
open PatVerif PatVerif.Generated PatVerif.Generated.FeLimbs PatVerif.Generated.EdPoints PatVerif.Proofs.FeHelp PatVerif.Proofs.FeField
  PatVerif.Proofs.EdPoints PatVerif.Proofs.EdComplete PatVerif.Proofs.EdGroup PatVerif.Proofs.EdRepr
  PatVerif.Model.Recode PatVerif.Model.ScalarMultLit PatVerif.Proofs.ScalarMultLit

theorem reprQ_congr {r : projP1xP1} {a b : EdPoint} (h : ReprQ r a) (e : a = b) : ReprQ r b := e ▸ h
theorem reprC_congr {r : projCached} {a b : EdPoint} (h : ReprC r a) (e : a = b) : ReprC r b := e ▸ h
theorem reprP3_congr {r : Point} {a b : EdPoint} (h : ReprP3 r a) (e : a = b) : ReprP3 r b := e ▸ h

/-- the package variable `identity`, as the transcription computes it, is the point the kernel evaluates `SetBytes` to -/
theorem identity_eq : Model.ScalarMultLit.identity = identityPoint := by
  unfold Model.ScalarMultLit.identity zP ze
  have : (1 :: List.replicate 31 0 : List Nat) =
      [1, 0, 0, 0, 0, 0, 0, 0, 0, 0, 0, 0, 0, 0, 0, 0, 0, 0, 0, 0, 0, 0, 0, 0, 0, 0, 0, 0, 0, 0, 0, 0] := by decide
  rw [this, identity_SetBytes]; rfl

theorem buildProj_length (step : Point) : ∀ (n : Nat) (cur : projCached), (buildProj step n cur).length = n := by
  intro n
  induction n with
  | zero => intro _; rfl
  | succ n ih => intro cur; simp [buildProj, ih]

/-- entry `i` of a table built with step `g` from an entry standing for `h` stands for `h + i • g` -/
theorem buildProj_repr (step : Point) (g : EdPoint) (hs : ReprP3 step g) :
    ∀ (n : Nat) (cur : projCached) (h : EdPoint), ReprC cur h → ∀ i, i < n → ReprC ((buildProj step n cur).getD i zC) (h + (i : ℤ) • g) := by
  intro n
  induction n with
  | zero => intro _ _ _ i hi; omega
  | succ n ih =>
    intro cur h hc i hi
    cases i with
    | zero => simpa [buildProj] using hc
    | succ i =>
      simp only [buildProj, List.getD_cons_succ]
      have nx : ReprC (projCached_FromP3 zC (Point_fromP1xP1 zP (projP1xP1_Add zQ step cur))) (g + h) :=
        projCached_FromP3_repr _ _ _ (Point_fromP1xP1_repr _ _ _ (projP1xP1_Add_repr _ _ _ _ _ hs hc))
      refine reprC_congr (ih _ _ nx i (by omega)) ?_
      push_cast
      module

/-- `projLookupTable.FromP3`: entry `j` stands for `(j + 1) • g` -/
theorem projTable_repr (q : Point) (g : EdPoint) (hq : ReprP3 q g) (j : Nat) (hj : j < 8) :
    ReprC ((projTable q).getD j zC) (((j : ℤ) + 1) • g) := by
  refine reprC_congr (buildProj_repr q g hq 8 _ g (projCached_FromP3_repr _ _ _ hq) j hj) ?_
  module

theorem looseC_wordC {q : projCached} (h : LooseC q) : WordC q := ⟨h.1.word, h.2.1.word, h.2.2.1.word, h.2.2.2.word⟩

theorem projTable_word (q : Point) (g : EdPoint) (hq : ReprP3 q g) (j : Nat) : WordC ((projTable q).getD j zC) := by
  by_cases hj : j < 8
  · exact looseC_wordC (projTable_repr q g hq j hj).1
  · rw [List.getD_eq_default _ _ (by simp [projTable, buildProj_length]; omega)]
    exact wordC_zC

/-- **`projLookupTable.SelectInto`** on the table of `Q`: the result stands for `x • g`, for every digit `|x| ≤ 8` -/
theorem selectProj_repr (q : Point) (g : EdPoint) (hq : ReprP3 q g) (x : Int) (hx : x.natAbs ≤ 8) :
    ReprC (selectProj (projTable q) x) (x • g) := by
  rw [selectProj_eq _ x (by omega) (by omega) (projTable_word q g hq)]
  have inner : ReprC (if 1 ≤ x.natAbs ∧ x.natAbs ≤ 8 then (projTable q).getD (x.natAbs - 1) zC else projCached_Zero zC)
      ((x.natAbs : ℤ) • g) := by
    by_cases h1 : 1 ≤ x.natAbs
    · rw [if_pos ⟨h1, hx⟩]
      refine reprC_congr (projTable_repr q g hq (x.natAbs - 1) (by omega)) ?_
      congr 1; omega
    · rw [if_neg (by omega)]
      have : x.natAbs = 0 := by omega
      rw [this]
      simpa using projCached_Zero_repr zC
  by_cases hn : x < 0
  · simp only [hn, ite_true]
    refine reprC_congr (projCached_CondNeg_repr _ 1 _ inner (Or.inl rfl)) ?_
    simp only [ite_true]
    rw [← neg_smul]; congr 1; omega
  · simp only [hn, ite_false]
    refine reprC_congr (projCached_CondNeg_repr _ 0 _ inner (Or.inr rfl)) ?_
    simp only [show ¬ (0 : Nat) = 1 by decide, ite_false]
    congr 1; omega

/-- `tmp2.FromP1xP1(tmp1); tmp1.Double(tmp2)` doubles -/
theorem dbl_repr (t : projP1xP1) (h : EdPoint) (ht : ReprQ t h) : ReprQ (dbl t) (h + h) :=
  projP1xP1_Double_repr _ _ _ (projP2_FromP1xP1_repr _ _ _ ht)

theorem drop_cons (l : List Int) (i : Nat) (h : i < l.length) : l.drop i = l.getD i 0 :: l.drop (i + 1) := by
  rw [List.getD_eq_getElem?_getD, List.getElem?_eq_getElem h]
  exact List.drop_eq_getElem_cons h

theorem getD_natAbs (digits : List Int) (hd : ∀ d ∈ digits, d.natAbs ≤ 8) (i : Nat) : (digits.getD i 0).natAbs ≤ 8 := by
  rw [List.getD_eq_getElem?_getD]
  cases hx : digits[i]? with
  | none => simp
  | some x => exact hd x (List.mem_of_getElem? hx)

/-- **`(*Point).ScalarMult` over the translated formulas computes `(Σ dᵢ16ⁱ) • g`** -/
theorem scalarMult_repr (digits : List Int) (q : Point) (g : EdPoint) (hq : ReprP3 q g) (hl : digits.length = 64)
    (hd : ∀ d ∈ digits, d.natAbs ≤ 8) :
    ReprP3 (scalarMult digits q) (evalDigits 4 digits • g) := by
  have sel := fun i => selectProj_repr q g hq (digits.getD i 0) (getD_natAbs digits hd i)
  -- the loop invariant: after k rounds tmp1 stands for the value of the digits 63−k … 63
  have inv : ∀ k, k ≤ 63 →
      ReprQ ((List.range k).foldl
        (fun tmp1 k =>
          let tmp1 := dbl (dbl (dbl (dbl tmp1)))
          let v := Point_fromP1xP1 zP tmp1
          let multiple := selectProj (projTable q) (digits.getD (62 - k) 0)
          projP1xP1_Add zQ v multiple)
        (projP1xP1_Add zQ (Point_Set zP Model.ScalarMultLit.identity) (selectProj (projTable q) (digits.getD 63 0))))
        (evalDigits 4 (digits.drop (63 - k)) • g) := by
    intro k
    induction k with
    | zero =>
      intro _
      simp only [List.range_zero, List.foldl_nil, Nat.sub_zero]
      have h0 : ReprP3 (Point_Set zP Model.ScalarMultLit.identity) 0 := by
        rw [identity_eq]; exact Point_Set_repr _ _ _ identityPoint_repr
      refine reprQ_congr (projP1xP1_Add_repr _ _ _ _ _ h0 (sel 63)) ?_
      rw [drop_cons digits 63 (by omega), List.drop_of_length_le (by omega)]
      simp only [evalDigits]
      module
    | succ k ih =>
      intro hk
      rw [List.range_succ, List.foldl_append]
      simp only [List.foldl_cons, List.foldl_nil]
      have h := ih (by omega)
      have h16 := dbl_repr _ _ (dbl_repr _ _ (dbl_repr _ _ (dbl_repr _ _ h)))
      refine reprQ_congr (projP1xP1_Add_repr _ _ _ _ _ (Point_fromP1xP1_repr _ _ _ h16) (sel (62 - k))) ?_
      rw [show 63 - (k + 1) = 62 - k by omega, drop_cons digits (62 - k) (by omega), show 62 - k + 1 = 63 - k by omega]
      simp only [evalDigits]
      module
  unfold scalarMult
  simp only
  have := inv 63 (le_refl _)
  rw [show 63 - 63 = 0 by rfl, List.drop_zero] at this
  exact Point_fromP1xP1_repr _ _ _ this

/-- **end to end**: for every scalar the Go code can hold and every valid point, `signedRadix16` followed by the `ScalarMult` loop over the
translated formulas yields a valid point standing for `x • g` in the curve group -/
theorem scalarMult_correct (s : List Nat) (hs : PatVerif.Proofs.Recode.IsScalar s) (q : Point) (g : EdPoint) (hq : ReprP3 q g) :
    ∃ ds, signedRadix16 s = some ds ∧ ReprP3 (scalarMult ds q) ((leNat s : Int) • g) := by
  obtain ⟨ds, e, hl, hv, hlow, h0, h8⟩ := PatVerif.Proofs.Recode.signedRadix16_spec s hs
  refine ⟨ds, e, ?_⟩
  have hd : ∀ d ∈ ds, d.natAbs ≤ 8 := by
    intro d hd
    obtain ⟨i, hi, rfl⟩ := List.getElem_of_mem hd
    have hg : ds.getD i 0 = ds[i] := by rw [List.getD_eq_getElem?_getD, List.getElem?_eq_getElem hi]; rfl
    by_cases h63 : i < 63
    · have := hlow i h63; rw [hg] at this; omega
    · have : i = 63 := by omega
      subst this; rw [hg] at h0 h8; omega
  rw [← hv]
  exact scalarMult_repr ds q g hq hl hd

end PatVerif.Proofs.ScalarMultRefine
