import PatVerif.Generated.SharedState
import PatVerif.Model.Footprints
/-!
# The state of pat-go that outlives a call is the state the models assume

`Generated/SharedState.lean` is extracted from the Go source on every C16 / C17 check
(`/verif/extract/cmd/sharedstate`): every package-level variable of the anchored packages with a flag
saying whether any function touches it other than by reading it, the fields of every struct type outside
the internal arithmetic, and every write through a method receiver. The lists below are the inventory
the footprint model of C17 (`Model/Footprints.lean`) and the memory model of C16 were written against;
the theorems say the code has exactly this inventory today.

Reading of the inventory (why it supports the hypotheses of `Props/C17.lean`):
* package variables marked `read-only` are constants in all but name: initialised at declaration and only
  read — footprint `rd`;
* `ecdsa:closedChanOnce` / `closedChan` and the two `basepoint…TablePrecomp` structures are the
  `sync.Once`-guarded tables — footprint `once`;
* `scZero`, `scOne`, `scMinusOne` are marked `touched` because methods are called on them
  (`Bytes`, `Equal`: value receivers or reads) — they are never assigned;
* no issuer, client or attester type has a field beyond its construction-time state (keys, the cache
  interface, the origin → index-key map filled by the configuration calls `AddOrigin*`), and the only
  methods that write through their receiver are the request objects' `Marshal`/`Unmarshal` (the encoding
  cache and the decoded fields: per-object, not shared) and the two configuration calls.
A new package variable (a pool, a memo, a scratch buffer), a new field (a cache in an issuer) or a new
receiver write changes the extracted lists and breaks a theorem below; the check then looks for a failing
input with the C16 / C17 streams.
-/
namespace PatVerif.Proofs.SharedState

def expectedPackageVars : List String :=
  ["util:oidPublicKeyRSAPSS:= asn1.ObjectIdentifier{1, 2, 840, 113549, 1, 1, 10}:read-only",
   "util:oidSHA384:= asn1.ObjectIdentifier{2, 16, 840, 1, 101, 3, 4, 2, 2}:read-only",
   "util:oidPKCS1MGF:= asn1.ObjectIdentifier{1, 2, 840, 113549, 1, 1, 8}:read-only",
   "tokens/type3:labelResponseKey:= \"key\":read-only",
   "tokens/type3:labelResponseNonce:= \"nonce\":read-only",
   "tokens/type3:fixedKEM:= hpke.DHKEM_X25519:read-only",
   "tokens/type3:fixedKDF:= hpke.KDF_HKDF_SHA256:read-only",
   "tokens/type3:fixedAEAD:= hpke.AEAD_AESGCM128:read-only",
   "ecdsa:one:= new(big.Int).SetInt64(1):read-only",
   "ecdsa:errZeroParam:= errors.New(\"zero parameter\"):read-only",
   "ecdsa:zeroReader:= &zr{}:read-only",
   "ecdsa:testingDisableKDSA:bool:read-only",
   "ecdsa:closedChanOnce:sync.Once:touched",
   "ecdsa:closedChan:chan struct{}:touched",
   "ed25519/internal/edwards25519:identity:= new(Point).SetBytes([]byte{ 1, 0, 0, 0, 0, 0, 0, 0, 0, 0, …:read-only",
   "ed25519/internal/edwards25519:generator:= new(Point).SetBytes([]byte{ 0x58, 0x66, 0x66, 0x66, 0x66, …:read-only",
   "ed25519/internal/edwards25519:feOne:= new(field.Element).One():read-only",
   "ed25519/internal/edwards25519:d:= new(field.Element).SetBytes([]byte{ 0xa3, 0x78, 0x59, 0x13…:read-only",
   "ed25519/internal/edwards25519:d2:= new(field.Element).Add(d, d):read-only",
   "ed25519/internal/edwards25519:scZero:= Scalar{[32]byte{0, 0, 0, 0, 0, 0, 0, 0, 0, 0, 0, 0, 0, 0, …:touched",
   "ed25519/internal/edwards25519:scOne:= Scalar{[32]byte{1, 0, 0, 0, 0, 0, 0, 0, 0, 0, 0, 0, 0, 0, …:touched",
   "ed25519/internal/edwards25519:scMinusOne:= Scalar{[32]byte{236, 211, 245, 92, 26, 99, 18, 88, 214, 15…:touched",
   "ed25519/internal/edwards25519:basepointTablePrecomp:struct { table [32]affineLookupTable initOnce sync.Once }:touched",
   "ed25519/internal/edwards25519:basepointNafTablePrecomp:struct { table nafLookupTable8 initOnce sync.Once }:touched",
   "ed25519/internal/edwards25519/field:feZero:= &Element{0, 0, 0, 0, 0}:read-only",
   "ed25519/internal/edwards25519/field:feOne:= &Element{1, 0, 0, 0, 0}:read-only",
   "ed25519/internal/edwards25519/field:sqrtM1:= &Element{1718705420411056, 234908883556509, 22335144725740…:read-only"]

def expectedStructFields : List String :=
  ["util:pkcs1PSSPublicKey:N *big.Int; E int",
   "tokens:Token:TokenType uint16; Nonce []byte; Context []byte; KeyID []byte; Authenticator []byte",
   "tokens:TokenChallenge:TokenType uint16; IssuerName string; RedemptionNonce []byte; OriginInfo []string",
   "tokens/type1:BasicPrivateClient:",
   "tokens/type1:BasicPrivateTokenRequestState:tokenInput []byte; request *BasicPrivateTokenRequest; client oprf.VerifiableClient; verificationKey *oprf.PublicKey; verifier *oprf.FinalizeData",
   "tokens/type1:BasicPrivateIssuer:tokenKey *oprf.PrivateKey; tokenKeyEnc []byte",
   "tokens/type1:BasicPrivateTokenRequest:raw []byte; TokenKeyID uint8; BlindedReq []byte",
   "tokens/type2:BasicPublicClient:",
   "tokens/type2:BasicPublicTokenRequestState:tokenInput []byte; request *BasicPublicTokenRequest; verificationKey *rsa.PublicKey; verifier blindrsa.VerifierState",
   "tokens/type2:BasicPublicIssuer:tokenKey *rsa.PrivateKey",
   "tokens/type2:BasicPublicTokenRequest:raw []byte; TokenKeyID uint8; BlindedReq []byte",
   "tokens/type3:ClientState:originIndices map[string]string; clientIndices map[string]string; originCounts map[string]int",
   "tokens/type3:RateLimitedAttester:cache ClientStateCache",
   "tokens/type3:RateLimitedClient:curve elliptic.Curve; secretKey *ecdsa.PrivateKey",
   "tokens/type3:RateLimitedTokenRequestState:tokenInput []byte; clientKey []byte; blindedRequestKey []byte; request *RateLimitedTokenRequest; encapSecret []byte; encapEnc []byte; nameKey EncapKey; verificationKey *rsa.PublicKey; verifier blindrsa.VerifierState",
   "tokens/type3:PrivateEncapKey:id uint8; suite hpke.CipherSuite; privateKey hpke.KEMPrivateKey; publicKey hpke.KEMPublicKey",
   "tokens/type3:EncapKey:id uint8; suite hpke.CipherSuite; publicKey hpke.KEMPublicKey",
   "tokens/type3:InnerTokenRequest:raw []byte; tokenKeyId uint8; blindedMsg []byte; paddedOrigin []byte",
   "tokens/type3:RateLimitedIssuer:curve elliptic.Curve; nameKey PrivateEncapKey; tokenKey *rsa.PrivateKey; originIndexKeys map[string]*ecdsa.PrivateKey",
   "tokens/type3:RateLimitedTokenRequest:raw []byte; RequestKey []byte; NameKeyID []byte; EncryptedTokenRequest []byte; Signature []byte",
   "tokens/type5:BatchedPrivateClient:",
   "tokens/type5:BatchedPrivateTokenRequestState:tokenInputs [][]byte; request *BatchedPrivateTokenRequest; client oprf.VerifiableClient; verificationKey *oprf.PublicKey; verifier *oprf.FinalizeData",
   "tokens/type5:BatchedPrivateIssuer:tokenKey *oprf.PrivateKey",
   "tokens/type5:BatchedPrivateTokenRequest:raw []byte; TokenKeyID uint8; BlindedReq [][]byte",
   "tokens/batched:BatchedClient:",
   "tokens/batched:BasicBatchedIssuer:issuers map[uint16][]Issuer",
   "tokens/batched:BatchedTokenRequest:raw []byte; token_requests []tokens.TokenRequestWithDetails",
   "ecdsa:PublicKey:elliptic.Curve; X *big.Int; Y *big.Int",
   "ecdsa:PrivateKey:PublicKey; D *big.Int",
   "ecdsa:zr:io.Reader"]

def expectedReceiverWrites : List String :=
  ["ecdsa:PrivateKey.Public:&priv.PublicKey",
   "tokens/batched:BatchedTokenRequest.Marshal:r.raw",
   "tokens/batched:BatchedTokenRequest.Unmarshal:r.token_requests",
   "tokens/batched:BatchedTokenRequest.Unmarshal:r.token_requests",
   "tokens/type1:BasicPrivateTokenRequest.Marshal:r.raw",
   "tokens/type1:BasicPrivateTokenRequest.Unmarshal:&r.BlindedReq",
   "tokens/type1:BasicPrivateTokenRequest.Unmarshal:&r.TokenKeyID",
   "tokens/type1:BasicPrivateTokenRequest.Unmarshal:r.raw",
   "tokens/type2:BasicPublicIssuer.TokenKey:&i.tokenKey.PublicKey",
   "tokens/type2:BasicPublicIssuer.TokenKeyID:&i.tokenKey.PublicKey",
   "tokens/type2:BasicPublicTokenRequest.Marshal:r.raw",
   "tokens/type2:BasicPublicTokenRequest.Unmarshal:&r.BlindedReq",
   "tokens/type2:BasicPublicTokenRequest.Unmarshal:&r.TokenKeyID",
   "tokens/type2:BasicPublicTokenRequest.Unmarshal:r.raw",
   "tokens/type3:InnerTokenRequest.Marshal:r.raw",
   "tokens/type3:InnerTokenRequest.Unmarshal:&r.blindedMsg",
   "tokens/type3:InnerTokenRequest.Unmarshal:&r.tokenKeyId",
   "tokens/type3:InnerTokenRequest.Unmarshal:r.paddedOrigin",
   "tokens/type3:InnerTokenRequest.Unmarshal:r.raw",
   "tokens/type3:RateLimitedClient.CreateTokenRequest:&c.secretKey.PublicKey",
   "tokens/type3:RateLimitedIssuer.AddOrigin:i.originIndexKeys[origin]",
   "tokens/type3:RateLimitedIssuer.AddOriginWithIndexKey:i.originIndexKeys[origin]",
   "tokens/type3:RateLimitedIssuer.TokenKey:&i.tokenKey.PublicKey",
   "tokens/type3:RateLimitedTokenRequest.Marshal:r.raw",
   "tokens/type3:RateLimitedTokenRequest.Unmarshal:&r.NameKeyID",
   "tokens/type3:RateLimitedTokenRequest.Unmarshal:&r.RequestKey",
   "tokens/type3:RateLimitedTokenRequest.Unmarshal:&r.Signature",
   "tokens/type3:RateLimitedTokenRequest.Unmarshal:r.EncryptedTokenRequest",
   "tokens/type3:RateLimitedTokenRequest.Unmarshal:r.raw",
   "tokens/type5:BatchedPrivateTokenRequest.Marshal:r.raw",
   "tokens/type5:BatchedPrivateTokenRequest.Unmarshal:&r.TokenKeyID",
   "tokens/type5:BatchedPrivateTokenRequest.Unmarshal:r.BlindedReq",
   "tokens/type5:BatchedPrivateTokenRequest.Unmarshal:r.BlindedReq[i]",
   "tokens/type5:BatchedPrivateTokenRequest.Unmarshal:r.raw"]

theorem packageVars_as_modelled : Generated.SharedState.packageVars = expectedPackageVars := rfl
theorem structFields_as_modelled : Generated.SharedState.structFields = expectedStructFields := rfl
theorem receiverWrites_as_modelled : Generated.SharedState.receiverWrites = expectedReceiverWrites := rfl

end PatVerif.Proofs.SharedState
