import Mathlib.Algebra.Field.ZMod
import Mathlib.Data.ZMod.Basic
import Mathlib.Tactic.Ring
/-!
# Algebra of key blinding in a group of prime order

`G` is any additive commutative group, `P` a point killed by the prime `n` (every point of a
prime-order group, and every point of the prime-order subgroup of edwards25519). Scalars are
naturals acting by `•` — exactly what the Go code does with `ScalarMult(k.Bytes())`.
Used by C01, C08, C11, C12 and C15.
-/
namespace PatVerif.Proofs.Group

variable {G : Type} [AddCommGroup G]

/-- multiplying by `k` only depends on `k mod n` -/
theorem smul_mod (n : ℕ) (P : G) (hP : n • P = 0) (k : ℕ) : (k % n) • P = k • P := by
  conv_rhs => rw [← Nat.div_add_mod k n]
  rw [add_nsmul, mul_nsmul, hP, nsmul_zero, zero_add]

theorem smul_congr (n : ℕ) (P : G) (hP : n • P = 0) (a b : ℕ) (h : a % n = b % n) : a • P = b • P := by
  rw [← smul_mod n P hP a, ← smul_mod n P hP b, h]

/-- two blindings commute -/
theorem blind_comm (P : G) (a b : ℕ) : a • (b • P) = b • (a • P) := by
  rw [← mul_nsmul', ← mul_nsmul', Nat.mul_comm]

/-- **unblinding inverts blinding**: the inverse of `k` modulo the prime order undoes `k` -/
theorem unblind_blind (n : ℕ) [hn : Fact n.Prime] (P : G) (hP : n • P = 0) (k : ℕ) (hk : ¬ n ∣ k) :
    ((k : ZMod n)⁻¹).val • (k • P) = P := by
  have hk0 : (k : ZMod n) ≠ 0 := by
    intro h; exact hk ((ZMod.natCast_eq_zero_iff k n).mp h)
  rw [← mul_nsmul']
  have h1 : ((((k : ZMod n)⁻¹).val * k : ℕ) : ZMod n) = ((1 : ℕ) : ZMod n) := by
    push_cast
    rw [ZMod.natCast_zmod_val, inv_mul_cancel₀ hk0]
  have h2 := (ZMod.natCast_eq_natCast_iff' _ _ _).mp h1
  rw [smul_congr n P hP _ _ h2, one_nsmul]

/-- the composite of C08: client blind `b`, issuer blind `k`, attester unblinds `b`: what is left
is `k • P`, whatever `b` was -/
theorem blind_cancels (n : ℕ) [Fact n.Prime] (P : G) (hP : n • P = 0) (b k : ℕ) (hb : ¬ n ∣ b) :
    ((b : ZMod n)⁻¹).val • (k • (b • P)) = k • P := by
  rw [blind_comm (b • P) _ k, unblind_blind n P hP b hb]

/-- changing the blinding scalar changes the blinded key (for `P ≠ 0`) -/
theorem blind_injective (n : ℕ) [Fact n.Prime] (P : G) (hP : n • P = 0) (hP0 : P ≠ 0) (a b : ℕ)
    (h : a • P = b • P) : a % n = b % n := by
  by_contra hne
  -- wlog a ≥ b in residues: (a - b) • P = 0 with n ∤ (a - b) forces P = 0
  have key : ∀ x y : ℕ, y ≤ x → x • P = y • P → x % n ≠ y % n → False := by
    intro x y hyx hxy hmod
    have hd : (x - y) • P = 0 := by
      have : (x - y) • P + y • P = x • P := by rw [← add_nsmul, Nat.sub_add_cancel hyx]
      rw [hxy] at this
      exact add_eq_right.mp this
    have hnd : ¬ n ∣ (x - y) := by
      intro hdv
      apply hmod
      exact (Nat.modEq_iff_dvd' hyx).mpr hdv |>.symm
    have := unblind_blind n P hP (x - y) hnd
    rw [hd, nsmul_zero] at this
    exact hP0 this.symm
  rcases Nat.le_total b a with hba | hab
  · exact key a b hba h hne
  · exact key b a hab h.symm (fun e => hne e.symm)

end PatVerif.Proofs.Group

namespace PatVerif.Proofs.Group

/-- **blind RSA**: unblinding removes exactly the blind that was applied — for every modulus `N`,
every exponent pair that inverts on the ring (`(x^e)^d = x`), every message representative `m`
and every invertible blind `r`: `(m·r^e)^d · r⁻¹ = m^d`. -/
theorem rsa_unblind (N e d : ℕ) (hed : ∀ x : ZMod N, (x ^ e) ^ d = x) (m : ZMod N) (r : (ZMod N)ˣ) :
    (m * (r : ZMod N) ^ e) ^ d * ((r⁻¹ : (ZMod N)ˣ) : ZMod N) = m ^ d := by
  rw [mul_pow, hed, mul_assoc, Units.mul_inv, mul_one]

/-- hence the unblinded signature does not depend on the blind -/
theorem rsa_blind_independent (N e d : ℕ) (hed : ∀ x : ZMod N, (x ^ e) ^ d = x) (m : ZMod N) (r r' : (ZMod N)ˣ) :
    (m * (r : ZMod N) ^ e) ^ d * ((r⁻¹ : (ZMod N)ˣ) : ZMod N) =
    (m * (r' : ZMod N) ^ e) ^ d * ((r'⁻¹ : (ZMod N)ˣ) : ZMod N) := by
  rw [rsa_unblind N e d hed, rsa_unblind N e d hed]

/-- **VOPRF**: the unblinded evaluation `r⁻¹ • (k • (r • P))` is `k • P` for every non-zero blind,
so it does not depend on the blind -/
theorem voprf_blind_independent {G : Type} [AddCommGroup G] (n : ℕ) [Fact n.Prime] (P : G) (hP : n • P = 0)
    (k r r' : ℕ) (hr : ¬ n ∣ r) (hr' : ¬ n ∣ r') :
    ((r : ZMod n)⁻¹).val • (k • (r • P)) = ((r' : ZMod n)⁻¹).val • (k • (r' • P)) := by
  rw [blind_cancels n P hP r k hr, blind_cancels n P hP r' k hr']

end PatVerif.Proofs.Group
