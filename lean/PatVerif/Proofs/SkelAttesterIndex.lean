import PatVerif.Generated.Skeletons
/-!
# Control skeleton of the attester's index computation and bookkeeping (C08, C09)

`Generated/Skeletons.lean` is extracted from the Go source on every check of the properties that rest on
these functions (`/verif/extract/cmd/skeleton`): calls by callee, returns by kind, stores through maps and
receivers, conditions, in source order. The lists below are the skeletons the hand-written models were
written against; the theorems say the code has exactly these skeletons today.

Order in `attester_FinalizeIndex`: decode and unblind, compute the index, look the client up (error if unknown), record the
first index seen for the anonymous origin ID (`store state.originIndices[…]`, before the collision check — the model does the
same), then the collision check, and only in its `else` branch the binding `store state.clientIndices[…]`.
-/
namespace PatVerif.Proofs.SkelAttesterIndex

def expected_attester_FinalizeIndex : List String :=
  ["call elliptic.P384",
   "call unmarshalPublicKey",
   "if err != nil {",
   "return error",
   "}",
   "call ecdsa.CreateKey",
   "if err != nil {",
   "return error",
   "}",
   "call ecdsa.UnblindPublicKeyWithContext",
   "if err != nil {",
   "return error",
   "}",
   "call elliptic.MarshalCompressed",
   "call computeIndex",
   "if err != nil {",
   "return error",
   "}",
   "call (…).Get",
   "if !ok {",
   "return error",
   "}",
   "if !ok {",
   "store state.originIndices[anonOriginIdEnc]",
   "}",
   "if ok && expectedOriginID != anonOriginIdEnc {",
   "return error",
   "} else {",
   "store state.clientIndices[indexEnc]",
   "}",
   "return no-error"]

theorem attester_FinalizeIndex_as_modelled : Generated.Skeletons.attester_FinalizeIndex = expected_attester_FinalizeIndex := rfl

def expected_computeIndex : List String :=
  ["call hkdf.New",
   "call (…).Size",
   "call io.ReadFull",
   "if err != nil {",
   "return error",
   "}",
   "return no-error"]

theorem computeIndex_as_modelled : Generated.Skeletons.computeIndex = expected_computeIndex := rfl

end PatVerif.Proofs.SkelAttesterIndex
