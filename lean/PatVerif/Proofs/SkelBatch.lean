import PatVerif.Generated.Skeletons
/-!
# Control skeleton of the generic batch issuer (C05)

`Generated/Skeletons.lean` is extracted from the Go source on every check of the properties that rest on
these functions (`/verif/extract/cmd/skeleton`): calls by callee, returns by kind, stores through maps and
receivers, conditions, in source order. The lists below are the skeletons the hand-written models were
written against; the theorems say the code has exactly these skeletons today.

Per request: the slot is preset to the absent marker, the issuers of the request's type are tried in configuration order, the
first whose truncated key id matches *and* whose evaluation succeeds fills the slot and ends the search (`break`).
-/
namespace PatVerif.Proofs.SkelBatch

def expected_batch_NewBasicBatchedIssuer : List String :=
  ["range issuersArgs {",
   "call issuer.Type",
   "if !ok {",
   "store issuers[token_type]",
   "}",
   "store issuers[token_type]",
   "}",
   "return value"]

theorem batch_NewBasicBatchedIssuer_as_modelled : Generated.Skeletons.batch_NewBasicBatchedIssuer = expected_batch_NewBasicBatchedIssuer := rfl

def expected_batch_EvaluateBatch : List String :=
  ["range req.token_requests {",
   "call req.Type",
   "if !ok {",
   "store responses[iReq]",
   "} else {",
   "store responses[iReq]",
   "range issuers {",
   "call issuer.TokenKeyID",
   "call req.TruncatedTokenKeyID",
   "if req.TruncatedTokenKeyID() != issuerKey[len(issuerKey)-1] {",
   "continue",
   "}",
   "call issuer.Evaluate",
   "if err == nil {",
   "store responses[iReq]",
   "break",
   "}",
   "}",
   "}",
   "}",
   "range responses {",
   "if len(response) > 0 {",
   "call bResps.AddUint8",
   "call bResps.AddUint16",
   "call (…).Type",
   "call bResps.AddBytes",
   "} else {",
   "call bResps.AddUint8",
   "}",
   "}",
   "call bResps.BytesOrPanic",
   "call quicwire.AppendVarint",
   "call b.Bytes",
   "return value"]

theorem batch_EvaluateBatch_as_modelled : Generated.Skeletons.batch_EvaluateBatch = expected_batch_EvaluateBatch := rfl

end PatVerif.Proofs.SkelBatch
