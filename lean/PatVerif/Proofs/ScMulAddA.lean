import PatVerif.Proofs.ScMulAddBnd
/-! Written by lean/tools/scproof.py (interval analysis of scalar.go); every bound is checked here by `omega`. -/
namespace PatVerif.Proofs.ScMulAdd
open PatVerif PatVerif.Generated.ScLimbs PatVerif.Proofs.ScHelp
set_option maxRecDepth 16384
set_option maxHeartbeats 4000000

theorem scMulAdd_b1_spec (l : Limbs) (h : M0 l) :
    M1 (scMulAdd_b1 l) ∧ scMulAdd_b1_safe l ∧ (val (scMulAdd_b1 l) - val l) % L = 0 := by
  simp only [M0] at h
  simp only [M1, scMulAdd_b1, scMulAdd_b1_safe, val, L, Go.inI64, Go.ishr, Go.ishl]
  and_intros <;> first | trivial | omega

theorem scMulAdd_b2_spec (l : Limbs) (h : M1 l) :
    M2 (scMulAdd_b2 l) ∧ scMulAdd_b2_safe l ∧ (val (scMulAdd_b2 l) - val l) % L = 0 := by
  simp only [M1] at h
  simp only [M2, scMulAdd_b2, scMulAdd_b2_safe, val, L, Go.inI64, Go.ishr, Go.ishl]
  and_intros <;> first | trivial | omega

end PatVerif.Proofs.ScMulAdd
