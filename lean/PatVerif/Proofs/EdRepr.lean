import Mathlib.Tactic.LinearCombination
import Mathlib.Tactic.FieldSimp
import Mathlib.Tactic.Ring
import Mathlib.Data.Int.Bitwise
import Mathlib.Tactic.IntervalCases
import PatVerif.Proofs.EdGroup
/-! Representation-level refinement: each of the five coordinate types of `edwards25519.go` (`Point` = P3, `projP1xP1`, `projP2`,
`projCached`, `affineCached`) represents an element of the group `EdPoint`, and every translated point function maps representatives
to representatives of the corresponding group expression. -/
namespace PatVerif.Proofs.EdRepr
open PatVerif PatVerif.Generated PatVerif.Generated.FeLimbs PatVerif.Generated.EdPoints PatVerif.Proofs.FeHelp PatVerif.Proofs.FeField
  PatVerif.Proofs.EdPoints PatVerif.Proofs.FeInv PatVerif.Proofs.EdComplete PatVerif.Proofs.EdGroup

def ReprP3 (p : Point) (g : EdPoint) : Prop := Valid p ∧ affine p = g.1
/-- completed point: x = X/Z, y = Y/T -/
def ReprQ (r : projP1xP1) (g : EdPoint) : Prop :=
  LooseQ r ∧ fv r.Z ≠ 0 ∧ fv r.T ≠ 0 ∧ (fv r.X / fv r.Z, fv r.Y / fv r.T) = g.1
def Repr2 (r : projP2) (g : EdPoint) : Prop := Loose2 r ∧ fv r.Z ≠ 0 ∧ (fv r.X / fv r.Z, fv r.Y / fv r.Z) = g.1
def ReprC (q : projCached) (g : EdPoint) : Prop :=
  LooseC q ∧ fv q.Z ≠ 0 ∧ fv q.YplusX = (g.1.2 + g.1.1) * fv q.Z ∧ fv q.YminusX = (g.1.2 - g.1.1) * fv q.Z ∧
    fv q.T2d = 2 * dF * g.1.1 * g.1.2 * fv q.Z
def ReprA (q : affineCached) (g : EdPoint) : Prop :=
  LooseA q ∧ fv q.YplusX = g.1.2 + g.1.1 ∧ fv q.YminusX = g.1.2 - g.1.1 ∧ fv q.T2d = 2 * dF * g.1.1 * g.1.2

/-- the curve equation of a group element -/
theorem ed_curve (g : EdPoint) : g.1.2 * g.1.2 - g.1.1 * g.1.1 = 1 + dF * g.1.1 * g.1.1 * g.1.2 * g.1.2 := g.2

/-- a P3 representative, coordinate by coordinate -/
theorem ReprP3.coords {p : Point} {g : EdPoint} (h : ReprP3 p g) :
    LooseP p ∧ fv p.z ≠ 0 ∧ fv p.x = g.1.1 * fv p.z ∧ fv p.y = g.1.2 * fv p.z ∧ fv p.t = g.1.1 * g.1.2 * fv p.z := by
  obtain ⟨⟨lp, zp, tp, _⟩, ha⟩ := h
  have h1 : fv p.x / fv p.z = g.1.1 := congrArg Prod.fst ha
  have h2 : fv p.y / fv p.z = g.1.2 := congrArg Prod.snd ha
  have hx : fv p.x = g.1.1 * fv p.z := by rw [← h1]; field_simp
  have hy : fv p.y = g.1.2 * fv p.z := by rw [← h2]; field_simp
  refine ⟨lp, zp, hx, hy, ?_⟩
  have : fv p.t = fv p.x * fv p.y / fv p.z := by field_simp; exact tp
  rw [this, hx, hy]; field_simp

/-- building a P3 representative from coordinates -/
theorem ReprP3.mk' {p : Point} {g : EdPoint} (lp : LooseP p) (hz : fv p.z ≠ 0) (hx : fv p.x = g.1.1 * fv p.z)
    (hy : fv p.y = g.1.2 * fv p.z) (ht : fv p.t = g.1.1 * g.1.2 * fv p.z) : ReprP3 p g := by
  have h1 : fv p.x / fv p.z = g.1.1 := by rw [hx]; field_simp
  have h2 : fv p.y / fv p.z = g.1.2 := by rw [hy]; field_simp
  refine ⟨⟨lp, hz, by rw [ht, hx, hy]; ring, ?_⟩, ?_⟩
  · rw [h1, h2]; exact g.2
  · simp only [affine]; rw [h1, h2]

/-! ### 1. `projCached.FromP3` -/

theorem projCached_FromP3_repr (v : projCached) (p : Point) (g : EdPoint) (hp : ReprP3 p g) :
    ReprC (projCached_FromP3 v p) g := by
  obtain ⟨lp, zp, hx, hy, ht⟩ := hp.coords
  obtain ⟨lc, c1, c2, c3, c4⟩ := projCached_FromP3_spec v p lp
  refine ⟨lc, by rw [c3]; exact zp, ?_, ?_, ?_⟩
  · rw [c1, c3, hx, hy]; ring
  · rw [c2, c3, hx, hy]; ring
  · rw [c4, c3, ht]; ring

/-! ### 2. `projP1xP1.Add` -/

theorem projP1xP1_Add_repr (v : projP1xP1) (p : Point) (q : projCached) (g h : EdPoint) (hp : ReprP3 p g) (hq : ReprC q h) :
    ReprQ (projP1xP1_Add v p q) (g + h) := by
  obtain ⟨lp, zp, hx, hy, ht⟩ := hp.coords
  obtain ⟨lq, zq, q1, q2, q3⟩ := hq
  obtain ⟨lr, eX, eY, eZ, eT⟩ := projP1xP1_Add_spec v p q lp lq
  obtain ⟨hd1, hd2⟩ := denominators_ne_zero _ _ _ _ (ed_curve g) (ed_curve h)
  have eZ' : fv (projP1xP1_Add v p q).Z = 2 * (fv p.z * fv q.Z) * (1 + dF * g.1.1 * h.1.1 * g.1.2 * h.1.2) := by
    rw [eZ, ht, q3]; ring
  have eT' : fv (projP1xP1_Add v p q).T = 2 * (fv p.z * fv q.Z) * (1 - dF * g.1.1 * h.1.1 * g.1.2 * h.1.2) := by
    rw [eT, ht, q3]; ring
  have h2z : 2 * (fv p.z * fv q.Z) ≠ 0 := mul_ne_zero two_ne_zero' (mul_ne_zero zp zq)
  have hZ : fv (projP1xP1_Add v p q).Z ≠ 0 := by rw [eZ']; exact mul_ne_zero h2z hd1
  have hT : fv (projP1xP1_Add v p q).T ≠ 0 := by rw [eT']; exact mul_ne_zero h2z hd2
  refine ⟨lr, hZ, hT, ?_⟩
  rw [EdPoint.add_val]
  simp only [EdAssoc.edAdd]
  refine Prod.ext ?_ ?_
  · show fv (projP1xP1_Add v p q).X / fv (projP1xP1_Add v p q).Z = _
    rw [div_eq_div_iff hZ hd1, eZ', eX, hx, hy, q1, q2]; ring
  · show fv (projP1xP1_Add v p q).Y / fv (projP1xP1_Add v p q).T = _
    rw [div_eq_div_iff hT hd2, eT', eY, hx, hy, q1, q2]; ring

/-! ### 3. `Point.fromP1xP1`, `projP2.FromP1xP1` -/

theorem ReprQ.coords {r : projP1xP1} {g : EdPoint} (h : ReprQ r g) :
    LooseQ r ∧ fv r.Z ≠ 0 ∧ fv r.T ≠ 0 ∧ fv r.X = g.1.1 * fv r.Z ∧ fv r.Y = g.1.2 * fv r.T := by
  obtain ⟨lr, hZ, hT, ha⟩ := h
  have h1 : fv r.X / fv r.Z = g.1.1 := congrArg Prod.fst ha
  have h2 : fv r.Y / fv r.T = g.1.2 := congrArg Prod.snd ha
  exact ⟨lr, hZ, hT, by rw [← h1]; field_simp, by rw [← h2]; field_simp⟩

theorem Point_fromP1xP1_repr (v : Point) (r : projP1xP1) (g : EdPoint) (hr : ReprQ r g) :
    ReprP3 (Point_fromP1xP1 v r) g := by
  obtain ⟨lr, hZ, hT, hX, hY⟩ := hr.coords
  obtain ⟨lp, ex, ey, ez, et⟩ := Point_fromP1xP1_spec v r lr
  refine ReprP3.mk' lp (by rw [ez]; exact mul_ne_zero hZ hT) ?_ ?_ ?_
  · rw [ex, ez, hX]; ring
  · rw [ey, ez, hY]; ring
  · rw [et, ez, hX, hY]; ring

theorem Repr2.coords {r : projP2} {g : EdPoint} (h : Repr2 r g) :
    Loose2 r ∧ fv r.Z ≠ 0 ∧ fv r.X = g.1.1 * fv r.Z ∧ fv r.Y = g.1.2 * fv r.Z := by
  obtain ⟨lr, hZ, ha⟩ := h
  have h1 : fv r.X / fv r.Z = g.1.1 := congrArg Prod.fst ha
  have h2 : fv r.Y / fv r.Z = g.1.2 := congrArg Prod.snd ha
  exact ⟨lr, hZ, by rw [← h1]; field_simp, by rw [← h2]; field_simp⟩

theorem Repr2.mk' {r : projP2} {g : EdPoint} (lr : Loose2 r) (hZ : fv r.Z ≠ 0) (hX : fv r.X = g.1.1 * fv r.Z)
    (hY : fv r.Y = g.1.2 * fv r.Z) : Repr2 r g := by
  refine ⟨lr, hZ, Prod.ext ?_ ?_⟩
  · show fv r.X / fv r.Z = _; rw [hX]; field_simp
  · show fv r.Y / fv r.Z = _; rw [hY]; field_simp

theorem projP2_FromP1xP1_repr (v : projP2) (r : projP1xP1) (g : EdPoint) (hr : ReprQ r g) :
    Repr2 (projP2_FromP1xP1 v r) g := by
  obtain ⟨lr, hZ, hT, hX, hY⟩ := hr.coords
  obtain ⟨lp, ex, ey, ez⟩ := projP2_FromP1xP1_spec v r lr
  refine Repr2.mk' lp (by rw [ez]; exact mul_ne_zero hZ hT) ?_ ?_
  · rw [ex, ez, hX]; ring
  · rw [ey, ez, hY]; ring

/-! ### 4. `projP1xP1.Double` -/

theorem projP1xP1_Double_repr (v : projP1xP1) (p : projP2) (g : EdPoint) (hp : Repr2 p g) :
    ReprQ (projP1xP1_Double v p) (g + g) := by
  obtain ⟨lp, zp, hX, hY⟩ := hp.coords
  obtain ⟨lr, eX, eY, eZ, eT⟩ := projP1xP1_Double_spec v p lp
  have hc := ed_curve g
  obtain ⟨hd1, hd2⟩ := denominators_ne_zero _ _ _ _ hc hc
  have eZ' : fv (projP1xP1_Double v p).Z = fv p.Z * fv p.Z * (1 + dF * g.1.1 * g.1.1 * g.1.2 * g.1.2) := by
    rw [eZ, hX, hY]; linear_combination (fv p.Z * fv p.Z) * hc
  have eT' : fv (projP1xP1_Double v p).T = fv p.Z * fv p.Z * (1 - dF * g.1.1 * g.1.1 * g.1.2 * g.1.2) := by
    rw [eT, hX, hY]; linear_combination (-(fv p.Z * fv p.Z)) * hc
  have hzz : fv p.Z * fv p.Z ≠ 0 := mul_ne_zero zp zp
  have hZ : fv (projP1xP1_Double v p).Z ≠ 0 := by rw [eZ']; exact mul_ne_zero hzz hd1
  have hT : fv (projP1xP1_Double v p).T ≠ 0 := by rw [eT']; exact mul_ne_zero hzz hd2
  refine ⟨lr, hZ, hT, ?_⟩
  rw [EdPoint.add_val]
  simp only [EdAssoc.edAdd]
  refine Prod.ext ?_ ?_
  · show fv (projP1xP1_Double v p).X / fv (projP1xP1_Double v p).Z = _
    rw [div_eq_div_iff hZ hd1, eZ', eX, hX, hY]; ring
  · show fv (projP1xP1_Double v p).Y / fv (projP1xP1_Double v p).T = _
    rw [div_eq_div_iff hT hd2, eT', eY, hX, hY]; ring

/-! ### 5. `projP1xP1.Sub` -/

theorem projP1xP1_Sub_repr (v : projP1xP1) (p : Point) (q : projCached) (g h : EdPoint) (hp : ReprP3 p g) (hq : ReprC q h) :
    ReprQ (projP1xP1_Sub v p q) (g - h) := by
  obtain ⟨lp, zp, hx, hy, ht⟩ := hp.coords
  obtain ⟨lq, zq, q1, q2, q3⟩ := hq
  obtain ⟨lr, eX, eY, eZ, eT⟩ := projP1xP1_Sub_spec v p q lp lq
  obtain ⟨hd1, hd2⟩ := denominators_ne_zero _ _ _ _ (ed_curve g) (ed_curve (-h))
  rw [EdPoint.neg_val] at hd1 hd2
  have eZ' : fv (projP1xP1_Sub v p q).Z = 2 * (fv p.z * fv q.Z) * (1 + dF * g.1.1 * -h.1.1 * g.1.2 * h.1.2) := by
    rw [eZ, ht, q3]; ring
  have eT' : fv (projP1xP1_Sub v p q).T = 2 * (fv p.z * fv q.Z) * (1 - dF * g.1.1 * -h.1.1 * g.1.2 * h.1.2) := by
    rw [eT, ht, q3]; ring
  have h2z : 2 * (fv p.z * fv q.Z) ≠ 0 := mul_ne_zero two_ne_zero' (mul_ne_zero zp zq)
  have hZ : fv (projP1xP1_Sub v p q).Z ≠ 0 := by rw [eZ']; exact mul_ne_zero h2z hd1
  have hT : fv (projP1xP1_Sub v p q).T ≠ 0 := by rw [eT']; exact mul_ne_zero h2z hd2
  refine ⟨lr, hZ, hT, ?_⟩
  rw [sub_eq_add_neg, EdPoint.add_val, EdPoint.neg_val]
  simp only [EdAssoc.edAdd]
  refine Prod.ext ?_ ?_
  · show fv (projP1xP1_Sub v p q).X / fv (projP1xP1_Sub v p q).Z = _
    rw [div_eq_div_iff hZ hd1, eZ', eX, hx, hy, q1, q2]; ring
  · show fv (projP1xP1_Sub v p q).Y / fv (projP1xP1_Sub v p q).T = _
    rw [div_eq_div_iff hT hd2, eT', eY, hx, hy, q1, q2]; ring

/-! ### 6. `projP2.FromP3`, `Point.fromP2`, the `Zero` functions, the identity point, `Point.Set` -/

theorem projP2_FromP3_spec (v : projP2) (p : Point) (hp : LooseP p) :
    Loose2 (projP2_FromP3 v p) ∧ fv (projP2_FromP3 v p).X = fv p.x ∧ fv (projP2_FromP3 v p).Y = fv p.y ∧
    fv (projP2_FromP3 v p).Z = fv p.z := by
  obtain ⟨hx, hy, hz, _⟩ := hp
  simp only [projP2_FromP3, FeLimbs.Set]
  exact ⟨⟨hx, hy, hz⟩, trivial, trivial, trivial⟩

theorem projP2_FromP3_repr (v : projP2) (p : Point) (g : EdPoint) (hp : ReprP3 p g) : Repr2 (projP2_FromP3 v p) g := by
  obtain ⟨lp, zp, hx, hy, _⟩ := hp.coords
  obtain ⟨lr, eX, eY, eZ⟩ := projP2_FromP3_spec v p lp
  exact Repr2.mk' lr (by rw [eZ]; exact zp) (by rw [eX, eZ, hx]) (by rw [eY, eZ, hy])

theorem Point_fromP2_spec (v : Point) (p : projP2) (hp : Loose2 p) :
    LooseP (Point_fromP2 v p) ∧ fv (Point_fromP2 v p).x = fv p.X * fv p.Z ∧ fv (Point_fromP2 v p).y = fv p.Y * fv p.Z ∧
    fv (Point_fromP2 v p).z = fv p.Z * fv p.Z ∧ fv (Point_fromP2 v p).t = fv p.X * fv p.Y := by
  obtain ⟨hX, hY, hZ⟩ := hp
  obtain ⟨t1, e1⟩ := fv_mul v.x p.X p.Z hX hZ
  obtain ⟨t2, e2⟩ := fv_mul v.y p.Y p.Z hY hZ
  obtain ⟨t3, e3⟩ := fv_sq v.z p.Z hZ
  obtain ⟨t4, e4⟩ := fv_mul v.t p.X p.Y hX hY
  simp only [Point_fromP2]
  exact ⟨⟨t1.loose, t2.loose, t3.loose, t4.loose⟩, e1, e2, e3, e4⟩

theorem Point_fromP2_repr (v : Point) (r : projP2) (g : EdPoint) (hr : Repr2 r g) : ReprP3 (Point_fromP2 v r) g := by
  obtain ⟨lr, hZ, hX, hY⟩ := hr.coords
  obtain ⟨lp, ex, ey, ez, et⟩ := Point_fromP2_spec v r lr
  refine ReprP3.mk' lp (by rw [ez]; exact mul_ne_zero hZ hZ) ?_ ?_ ?_
  · rw [ex, ez, hX]; ring
  · rw [ey, ez, hY]; ring
  · rw [et, ez, hX, hY]; ring

theorem feOne_loose' : Loose FeLimbs.feOne := by simp only [Loose, FeLimbs.feOne]; omega
theorem fv_feOne' : fv FeLimbs.feOne = 1 := by simp [fv, val, FeLimbs.feOne]
theorem fv_feZero : fv FeLimbs.feZero = 0 := by simp [fv, val, FeLimbs.feZero]

theorem projP2_Zero_repr (v : projP2) : Repr2 (projP2_Zero v) 0 := by
  refine Repr2.mk' ⟨FeCarry.feZero_loose, feOne_loose', feOne_loose'⟩ ?_ ?_ ?_ <;>
    simp [projP2_Zero, FeLimbs.Zero, FeLimbs.One, fv_feOne', fv_feZero, EdPoint.zero_val]

theorem projCached_Zero_repr (v : projCached) : ReprC (projCached_Zero v) 0 := by
  refine ⟨⟨feOne_loose', feOne_loose', feOne_loose', FeCarry.feZero_loose⟩, ?_, ?_, ?_, ?_⟩ <;>
    simp [projCached_Zero, FeLimbs.Zero, FeLimbs.One, fv_feOne', fv_feZero, EdPoint.zero_val]

theorem affineCached_Zero_repr (v : affineCached) : ReprA (affineCached_Zero v) 0 := by
  refine ⟨⟨feOne_loose', feOne_loose', FeCarry.feZero_loose⟩, ?_, ?_, ?_⟩ <;>
    simp [affineCached_Zero, FeLimbs.Zero, FeLimbs.One, fv_feOne', fv_feZero, EdPoint.zero_val]

/-- the limbs of 2^255 − 19 (a non-canonical zero): the x and t that `SetBytes` leaves for the encoding of the neutral element -/
def fePZero : Element := ⟨2251799813685229, 2251799813685247, 2251799813685247, 2251799813685247, 2251799813685247⟩

/-- the value of the package variable `identity` (`new(Point).SetBytes([]byte{1, 0, …, 0})`), see `identity_SetBytes` -/
def identityPoint : Point := ⟨fePZero, FeLimbs.feOne, FeLimbs.feOne, fePZero⟩

/-- the translated `SetBytes`, run on the 32 bytes of the source, yields `identityPoint` (evaluated by the kernel) -/
theorem identity_SetBytes :
    Point_SetBytes ⟨⟨0, 0, 0, 0, 0⟩, ⟨0, 0, 0, 0, 0⟩, ⟨0, 0, 0, 0, 0⟩, ⟨0, 0, 0, 0, 0⟩⟩
      [1, 0, 0, 0, 0, 0, 0, 0, 0, 0, 0, 0, 0, 0, 0, 0, 0, 0, 0, 0, 0, 0, 0, 0, 0, 0, 0, 0, 0, 0, 0, 0] = some identityPoint := by
  decide +kernel

theorem fePZero_loose : Loose fePZero := by simp only [Loose, fePZero]; omega
theorem fv_fePZero : fv fePZero = 0 := by
  have h : val fePZero % P = 0 % P := by decide
  have := cast_of_mod h
  simpa [fv] using this

theorem identityPoint_repr : ReprP3 identityPoint 0 := by
  refine ReprP3.mk' ⟨fePZero_loose, feOne_loose', feOne_loose', fePZero_loose⟩ ?_ ?_ ?_ ?_ <;>
    simp [identityPoint, fv_feOne', fv_fePZero, EdPoint.zero_val]

theorem Point_Set_repr (v u : Point) (g : EdPoint) (hu : ReprP3 u g) : ReprP3 (Point_Set v u) g := hu

/-! ### 7. `projCached.Select`, `projCached.CondNeg` -/

theorem projCached_Select_one (v a b : projCached) (ha : LooseC a) : projCached_Select v a b 1 = a := by
  obtain ⟨a1, a2, a3, a4⟩ := ha
  simp only [projCached_Select, FeMisc.Select_one _ _ _ a1.word, FeMisc.Select_one _ _ _ a2.word, FeMisc.Select_one _ _ _ a3.word,
    FeMisc.Select_one _ _ _ a4.word]

theorem projCached_Select_zero (v a b : projCached) (hb : LooseC b) : projCached_Select v a b 0 = b := by
  obtain ⟨b1, b2, b3, b4⟩ := hb
  simp only [projCached_Select, FeMisc.Select_zero _ _ _ b1.word, FeMisc.Select_zero _ _ _ b2.word, FeMisc.Select_zero _ _ _ b3.word,
    FeMisc.Select_zero _ _ _ b4.word]

/-- `Select`: `cond = 1` gives (a representative of what) `a` (represents), `cond = 0` gives `b` -/
theorem projCached_Select_repr (v a b : projCached) (cond : Nat) (g h : EdPoint) (ha : ReprC a g) (hb : ReprC b h)
    (hc : cond = 1 ∨ cond = 0) : ReprC (projCached_Select v a b cond) (if cond = 1 then g else h) := by
  rcases hc with rfl | rfl
  · rw [projCached_Select_one v a b ha.1]; simpa using ha
  · rw [projCached_Select_zero v a b hb.1]; simpa using hb

theorem projCached_CondNeg_spec (v : projCached) (hv : LooseC v) :
    (LooseC (projCached_CondNeg v 1) ∧ fv (projCached_CondNeg v 1).YplusX = fv v.YminusX ∧
      fv (projCached_CondNeg v 1).YminusX = fv v.YplusX ∧ fv (projCached_CondNeg v 1).Z = fv v.Z ∧
      fv (projCached_CondNeg v 1).T2d = - fv v.T2d) ∧ projCached_CondNeg v 0 = v := by
  obtain ⟨v1, v2, v3, v4⟩ := hv
  obtain ⟨tn, en⟩ := fv_neg ⟨0, 0, 0, 0, 0⟩ v.T2d v4
  constructor
  · simp only [projCached_CondNeg, FeMisc.Swap_one _ _ v1.word v2.word, FeMisc.Select_one _ _ _ tn.loose.word]
    exact ⟨⟨v2, v1, v3, tn.loose⟩, trivial, trivial, trivial, en⟩
  · simp only [projCached_CondNeg, FeMisc.Swap_zero, FeMisc.Select_zero _ _ _ v4.word]

/-- `CondNeg`: `cond = 1` negates, `cond = 0` leaves the point -/
theorem projCached_CondNeg_repr (v : projCached) (cond : Nat) (g : EdPoint) (hv : ReprC v g) (hc : cond = 1 ∨ cond = 0) :
    ReprC (projCached_CondNeg v cond) (if cond = 1 then -g else g) := by
  obtain ⟨lv, zv, q1, q2, q3⟩ := hv
  obtain ⟨⟨lr, e1, e2, e3, e4⟩, e0⟩ := projCached_CondNeg_spec v lv
  rcases hc with rfl | rfl
  · rw [if_pos rfl]
    refine ⟨lr, by rw [e3]; exact zv, ?_, ?_, ?_⟩
    · rw [e1, e3, q2, EdPoint.neg_val]; ring
    · rw [e2, e3, q1, EdPoint.neg_val]; ring
    · rw [e4, e3, q3, EdPoint.neg_val]; ring
  · rw [e0, if_neg (by decide)]; exact ⟨lv, zv, q1, q2, q3⟩

/-! ### 8. the affine-cached analogues -/

theorem affineCached_FromP3_spec (v : affineCached) (p : Point) (hp : LooseP p) :
    LooseA (affineCached_FromP3 v p) ∧ fv (affineCached_FromP3 v p).YplusX = (fv p.y + fv p.x) * (fv p.z)⁻¹ ∧
    fv (affineCached_FromP3 v p).YminusX = (fv p.y - fv p.x) * (fv p.z)⁻¹ ∧
    fv (affineCached_FromP3 v p).T2d = fv p.t * (2 * dF) * (fv p.z)⁻¹ := by
  obtain ⟨hx, hy, hz, ht⟩ := hp
  obtain ⟨t1, e1⟩ := fv_add v.YplusX p.y p.x hy hx
  obtain ⟨t2, e2⟩ := fv_sub v.YminusX p.y p.x hy hx
  obtain ⟨t3, e3⟩ := fv_mul v.T2d p.t EdPoints.d2 ht d2_spec.1
  obtain ⟨li, ei⟩ := fv_invert_inv ⟨0, 0, 0, 0, 0⟩ p.z hz
  obtain ⟨t4, e4⟩ := fv_mul (FeLimbs.Add v.YplusX p.y p.x) _ _ t1.loose li
  obtain ⟨t5, e5⟩ := fv_mul (Subtract v.YminusX p.y p.x) _ _ t2.loose li
  obtain ⟨t6, e6⟩ := fv_mul (Multiply v.T2d p.t EdPoints.d2) _ _ t3.loose li
  simp only [affineCached_FromP3]
  refine ⟨⟨t4.loose, t5.loose, t6.loose⟩, ?_, ?_, ?_⟩
  · rw [e4, e1, ei]
  · rw [e5, e2, ei]
  · rw [e6, e3, ei, d2_spec.2]

theorem affineCached_FromP3_repr (v : affineCached) (p : Point) (g : EdPoint) (hp : ReprP3 p g) :
    ReprA (affineCached_FromP3 v p) g := by
  obtain ⟨lp, zp, hx, hy, ht⟩ := hp.coords
  obtain ⟨lc, c1, c2, c3⟩ := affineCached_FromP3_spec v p lp
  refine ⟨lc, ?_, ?_, ?_⟩
  · rw [c1, hx, hy]; field_simp
  · rw [c2, hx, hy]; field_simp
  · rw [c3, ht]; field_simp

theorem projP1xP1_AddAffine_spec (v : projP1xP1) (p : Point) (q : affineCached) (hp : LooseP p) (hq : LooseA q) :
    LooseQ (projP1xP1_AddAffine v p q) ∧
    fv (projP1xP1_AddAffine v p q).X = (fv p.y + fv p.x) * fv q.YplusX - (fv p.y - fv p.x) * fv q.YminusX ∧
    fv (projP1xP1_AddAffine v p q).Y = (fv p.y + fv p.x) * fv q.YplusX + (fv p.y - fv p.x) * fv q.YminusX ∧
    fv (projP1xP1_AddAffine v p q).Z = 2 * fv p.z + fv p.t * fv q.T2d ∧
    fv (projP1xP1_AddAffine v p q).T = 2 * fv p.z - fv p.t * fv q.T2d := by
  obtain ⟨hx, hy, hz, ht⟩ := hp
  obtain ⟨qa, qb, qt⟩ := hq
  obtain ⟨t1, e1⟩ := fv_add ⟨0, 0, 0, 0, 0⟩ p.y p.x hy hx
  obtain ⟨t2, e2⟩ := fv_sub ⟨0, 0, 0, 0, 0⟩ p.y p.x hy hx
  obtain ⟨t3, e3⟩ := fv_mul ⟨0, 0, 0, 0, 0⟩ _ q.YplusX t1.loose qa
  obtain ⟨t4, e4⟩ := fv_mul ⟨0, 0, 0, 0, 0⟩ _ q.YminusX t2.loose qb
  obtain ⟨t5, e5⟩ := fv_mul ⟨0, 0, 0, 0, 0⟩ p.t q.T2d ht qt
  obtain ⟨t7, e7⟩ := fv_add ⟨0, 0, 0, 0, 0⟩ p.z p.z hz hz
  obtain ⟨tX, eX⟩ := fv_sub v.X _ _ t3.loose t4.loose
  obtain ⟨tY, eY⟩ := fv_add v.Y _ _ t3.loose t4.loose
  obtain ⟨tZ, eZ⟩ := fv_add v.Z _ _ t7.loose t5.loose
  obtain ⟨tT, eT⟩ := fv_sub v.T _ _ t7.loose t5.loose
  simp only [projP1xP1_AddAffine]
  refine ⟨⟨tX.loose, tY.loose, tZ.loose, tT.loose⟩, ?_, ?_, ?_, ?_⟩
  · rw [eX, e3, e4, e1, e2]
  · rw [eY, e3, e4, e1, e2]
  · rw [eZ, e7, e5]; ring
  · rw [eT, e7, e5]; ring

theorem projP1xP1_SubAffine_spec (v : projP1xP1) (p : Point) (q : affineCached) (hp : LooseP p) (hq : LooseA q) :
    LooseQ (projP1xP1_SubAffine v p q) ∧
    fv (projP1xP1_SubAffine v p q).X = (fv p.y + fv p.x) * fv q.YminusX - (fv p.y - fv p.x) * fv q.YplusX ∧
    fv (projP1xP1_SubAffine v p q).Y = (fv p.y + fv p.x) * fv q.YminusX + (fv p.y - fv p.x) * fv q.YplusX ∧
    fv (projP1xP1_SubAffine v p q).Z = 2 * fv p.z - fv p.t * fv q.T2d ∧
    fv (projP1xP1_SubAffine v p q).T = 2 * fv p.z + fv p.t * fv q.T2d := by
  obtain ⟨hx, hy, hz, ht⟩ := hp
  obtain ⟨qa, qb, qt⟩ := hq
  obtain ⟨t1, e1⟩ := fv_add ⟨0, 0, 0, 0, 0⟩ p.y p.x hy hx
  obtain ⟨t2, e2⟩ := fv_sub ⟨0, 0, 0, 0, 0⟩ p.y p.x hy hx
  obtain ⟨t3, e3⟩ := fv_mul ⟨0, 0, 0, 0, 0⟩ _ q.YminusX t1.loose qb
  obtain ⟨t4, e4⟩ := fv_mul ⟨0, 0, 0, 0, 0⟩ _ q.YplusX t2.loose qa
  obtain ⟨t5, e5⟩ := fv_mul ⟨0, 0, 0, 0, 0⟩ p.t q.T2d ht qt
  obtain ⟨t7, e7⟩ := fv_add ⟨0, 0, 0, 0, 0⟩ p.z p.z hz hz
  obtain ⟨tX, eX⟩ := fv_sub v.X _ _ t3.loose t4.loose
  obtain ⟨tY, eY⟩ := fv_add v.Y _ _ t3.loose t4.loose
  obtain ⟨tZ, eZ⟩ := fv_sub v.Z _ _ t7.loose t5.loose
  obtain ⟨tT, eT⟩ := fv_add v.T _ _ t7.loose t5.loose
  simp only [projP1xP1_SubAffine]
  refine ⟨⟨tX.loose, tY.loose, tZ.loose, tT.loose⟩, ?_, ?_, ?_, ?_⟩
  · rw [eX, e3, e4, e1, e2]
  · rw [eY, e3, e4, e1, e2]
  · rw [eZ, e7, e5]; ring
  · rw [eT, e7, e5]; ring

theorem projP1xP1_AddAffine_repr (v : projP1xP1) (p : Point) (q : affineCached) (g h : EdPoint) (hp : ReprP3 p g)
    (hq : ReprA q h) : ReprQ (projP1xP1_AddAffine v p q) (g + h) := by
  obtain ⟨lp, zp, hx, hy, ht⟩ := hp.coords
  obtain ⟨lq, q1, q2, q3⟩ := hq
  obtain ⟨lr, eX, eY, eZ, eT⟩ := projP1xP1_AddAffine_spec v p q lp lq
  obtain ⟨hd1, hd2⟩ := denominators_ne_zero _ _ _ _ (ed_curve g) (ed_curve h)
  have eZ' : fv (projP1xP1_AddAffine v p q).Z = 2 * fv p.z * (1 + dF * g.1.1 * h.1.1 * g.1.2 * h.1.2) := by
    rw [eZ, ht, q3]; ring
  have eT' : fv (projP1xP1_AddAffine v p q).T = 2 * fv p.z * (1 - dF * g.1.1 * h.1.1 * g.1.2 * h.1.2) := by
    rw [eT, ht, q3]; ring
  have h2z : 2 * fv p.z ≠ 0 := mul_ne_zero two_ne_zero' zp
  have hZ : fv (projP1xP1_AddAffine v p q).Z ≠ 0 := by rw [eZ']; exact mul_ne_zero h2z hd1
  have hT : fv (projP1xP1_AddAffine v p q).T ≠ 0 := by rw [eT']; exact mul_ne_zero h2z hd2
  refine ⟨lr, hZ, hT, ?_⟩
  rw [EdPoint.add_val]
  simp only [EdAssoc.edAdd]
  refine Prod.ext ?_ ?_
  · show fv (projP1xP1_AddAffine v p q).X / fv (projP1xP1_AddAffine v p q).Z = _
    rw [div_eq_div_iff hZ hd1, eZ', eX, hx, hy, q1, q2]; ring
  · show fv (projP1xP1_AddAffine v p q).Y / fv (projP1xP1_AddAffine v p q).T = _
    rw [div_eq_div_iff hT hd2, eT', eY, hx, hy, q1, q2]; ring

theorem projP1xP1_SubAffine_repr (v : projP1xP1) (p : Point) (q : affineCached) (g h : EdPoint) (hp : ReprP3 p g)
    (hq : ReprA q h) : ReprQ (projP1xP1_SubAffine v p q) (g - h) := by
  obtain ⟨lp, zp, hx, hy, ht⟩ := hp.coords
  obtain ⟨lq, q1, q2, q3⟩ := hq
  obtain ⟨lr, eX, eY, eZ, eT⟩ := projP1xP1_SubAffine_spec v p q lp lq
  obtain ⟨hd1, hd2⟩ := denominators_ne_zero _ _ _ _ (ed_curve g) (ed_curve (-h))
  rw [EdPoint.neg_val] at hd1 hd2
  have eZ' : fv (projP1xP1_SubAffine v p q).Z = 2 * fv p.z * (1 + dF * g.1.1 * -h.1.1 * g.1.2 * h.1.2) := by
    rw [eZ, ht, q3]; ring
  have eT' : fv (projP1xP1_SubAffine v p q).T = 2 * fv p.z * (1 - dF * g.1.1 * -h.1.1 * g.1.2 * h.1.2) := by
    rw [eT, ht, q3]; ring
  have h2z : 2 * fv p.z ≠ 0 := mul_ne_zero two_ne_zero' zp
  have hZ : fv (projP1xP1_SubAffine v p q).Z ≠ 0 := by rw [eZ']; exact mul_ne_zero h2z hd1
  have hT : fv (projP1xP1_SubAffine v p q).T ≠ 0 := by rw [eT']; exact mul_ne_zero h2z hd2
  refine ⟨lr, hZ, hT, ?_⟩
  rw [sub_eq_add_neg, EdPoint.add_val, EdPoint.neg_val]
  simp only [EdAssoc.edAdd]
  refine Prod.ext ?_ ?_
  · show fv (projP1xP1_SubAffine v p q).X / fv (projP1xP1_SubAffine v p q).Z = _
    rw [div_eq_div_iff hZ hd1, eZ', eX, hx, hy, q1, q2]; ring
  · show fv (projP1xP1_SubAffine v p q).Y / fv (projP1xP1_SubAffine v p q).T = _
    rw [div_eq_div_iff hT hd2, eT', eY, hx, hy, q1, q2]; ring

theorem affineCached_Select_one (v a b : affineCached) (ha : LooseA a) : affineCached_Select v a b 1 = a := by
  obtain ⟨a1, a2, a3⟩ := ha
  simp only [affineCached_Select, FeMisc.Select_one _ _ _ a1.word, FeMisc.Select_one _ _ _ a2.word, FeMisc.Select_one _ _ _ a3.word]

theorem affineCached_Select_zero (v a b : affineCached) (hb : LooseA b) : affineCached_Select v a b 0 = b := by
  obtain ⟨b1, b2, b3⟩ := hb
  simp only [affineCached_Select, FeMisc.Select_zero _ _ _ b1.word, FeMisc.Select_zero _ _ _ b2.word, FeMisc.Select_zero _ _ _ b3.word]

theorem affineCached_Select_repr (v a b : affineCached) (cond : Nat) (g h : EdPoint) (ha : ReprA a g) (hb : ReprA b h)
    (hc : cond = 1 ∨ cond = 0) : ReprA (affineCached_Select v a b cond) (if cond = 1 then g else h) := by
  rcases hc with rfl | rfl
  · rw [affineCached_Select_one v a b ha.1]; simpa using ha
  · rw [affineCached_Select_zero v a b hb.1]; simpa using hb

theorem affineCached_CondNeg_spec (v : affineCached) (hv : LooseA v) :
    (LooseA (affineCached_CondNeg v 1) ∧ fv (affineCached_CondNeg v 1).YplusX = fv v.YminusX ∧
      fv (affineCached_CondNeg v 1).YminusX = fv v.YplusX ∧ fv (affineCached_CondNeg v 1).T2d = - fv v.T2d) ∧
    affineCached_CondNeg v 0 = v := by
  obtain ⟨v1, v2, v4⟩ := hv
  obtain ⟨tn, en⟩ := fv_neg ⟨0, 0, 0, 0, 0⟩ v.T2d v4
  constructor
  · simp only [affineCached_CondNeg, FeMisc.Swap_one _ _ v1.word v2.word, FeMisc.Select_one _ _ _ tn.loose.word]
    exact ⟨⟨v2, v1, tn.loose⟩, trivial, trivial, en⟩
  · simp only [affineCached_CondNeg, FeMisc.Swap_zero, FeMisc.Select_zero _ _ _ v4.word]

theorem affineCached_CondNeg_repr (v : affineCached) (cond : Nat) (g : EdPoint) (hv : ReprA v g) (hc : cond = 1 ∨ cond = 0) :
    ReprA (affineCached_CondNeg v cond) (if cond = 1 then -g else g) := by
  obtain ⟨lv, q1, q2, q3⟩ := hv
  obtain ⟨⟨lr, e1, e2, e4⟩, e0⟩ := affineCached_CondNeg_spec v lv
  rcases hc with rfl | rfl
  · rw [if_pos rfl]
    refine ⟨lr, ?_, ?_, ?_⟩
    · rw [e1, q2, EdPoint.neg_val]; ring
    · rw [e2, q1, EdPoint.neg_val]; ring
    · rw [e4, q3, EdPoint.neg_val]; ring
  · rw [e0, if_neg (by decide)]; exact ⟨lv, q1, q2, q3⟩

end PatVerif.Proofs.EdRepr
