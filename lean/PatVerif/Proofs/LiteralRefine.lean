import PatVerif.Props.C03
import PatVerif.Model.Structs
/-!
# The literal decoder models of C03 compute the codecs of C04

`Model/Partial.lean` follows the Go text statement by statement (index, slice and `make`
expressions as partial operations) so that C03 can show that nothing panics; `Model/Structs.lean`
describes the same decoders as compositions of lawful codecs so that C04 can show round trips and
canonical re-encoding. Both are tied to the code by execution. The theorems here tie them to each
other, for every input: the literal model accepts exactly what the codec accepts, with the same value.
-/
namespace PatVerif.Proofs.LiteralRefine
open PatVerif PatVerif.Codec PatVerif.Structs PatVerif.Partial PatVerif.Quicwire
set_option linter.unusedSimpArgs false
set_option linter.unusedVariables false

/-! ## type 5 request: `chunkLoop` is `many (fixed 32)` -/

theorem chunks_agree (buf : Bytes) : ∀ n i fuel, buf.length = 32 * (i + n) → 32 * n ≤ fuel →
    ∃ l, chunkLoop buf n i = .ok l ∧ manyDec (fixed 32) fuel (buf.drop (32 * i)) = some l := by
  intro n
  induction n with
  | zero =>
    intro i fuel hl _
    refine ⟨[], rfl, ?_⟩
    have : buf.drop (32 * i) = [] := by apply List.drop_eq_nil_of_le; omega
    rw [this]; cases fuel <;> simp [manyDec]
  | succ n ih =>
    intro i fuel hl hf
    unfold chunkLoop
    rw [slice_from _ _ (by omega)]
    simp only [Res.bind_ok]
    obtain ⟨l, hc, hm⟩ := ih (i + 1) (fuel - 1) (by omega) (by omega)
    rw [hc]
    simp only [Res.bind_ok]
    refine ⟨_, rfl, ?_⟩
    have hlen : (buf.drop (32 * i)).length = 32 * (n + 1) := by simp; omega
    cases hs : buf.drop (32 * i) with
    | nil => rw [hs] at hlen; simp at hlen
    | cons x t =>
      cases fuel with
      | zero => omega
      | succ f =>
        have hr : readN 32 (x :: t) = some ((x :: t).take 32, (x :: t).drop 32) := by
          unfold readN; rw [← hs]; simp [hlen]; omega
        have hd : (x :: t).drop 32 = buf.drop (32 * (i + 1)) := by
          rw [← hs, List.drop_drop]; congr 1
        have hdec : (fixed 32).dec (x :: t) = some ((x :: t).take 32, (x :: t).drop 32) := hr
        have hlt : ((x :: t).drop 32).length < (x :: t).length := by
          rw [← hs, List.length_drop, hlen]; omega
        simp only [Nat.add_sub_cancel] at hm
        have hlt' : (buf.drop (32 * (i + 1))).length < (x :: t).length := by rw [← hd]; exact hlt
        simp only [manyDec, hdec, hd, hlt', ite_true, hm]

theorem chunks_none (s : Bytes) : ∀ fuel, s.length ≤ fuel → s.length % 32 ≠ 0 → manyDec (fixed 32) fuel s = none := by
  intro fuel
  induction fuel generalizing s with
  | zero =>
    intro h hm
    cases s with
    | nil => simp at hm
    | cons x t => simp at h
  | succ f ih =>
    intro h hm
    cases s with
    | nil => simp at hm
    | cons x t =>
      by_cases h32 : 32 ≤ (x :: t).length
      · have hdec : (fixed 32).dec (x :: t) = some ((x :: t).take 32, (x :: t).drop 32) := by
          show readN 32 (x :: t) = _
          unfold readN; rw [if_pos h32]
        have hlt : ((x :: t).drop 32).length < (x :: t).length := by rw [List.length_drop]; omega
        have hrec := ih ((x :: t).drop 32) (by rw [List.length_drop]; omega) (by rw [List.length_drop]; omega)
        simp only [manyDec, hdec, hlt, ite_true, hrec]
      · have hdec : (fixed 32).dec (x :: t) = none := by
          show readN 32 (x :: t) = _
          unfold readN; rw [if_neg h32]
        simp only [manyDec, hdec]

/-- what the type-5 request decoder of C03 returns, forgetting the allocation count -/
def value {α : Type} : R α → Option α
  | .ok (v, _) => some v
  | _ => none

theorem type5Unmarshal_is_codec (data : Bytes) :
    value (type5Unmarshal data) = (req5Codec.dec data).map (·.1) := by
  unfold type5Unmarshal
  simp only [req5Codec, iso, pair, tag16, u8, ExactCodec.within, varBytes, chunks32, many]
  cases h1 : decU16 data with
  | none => simp [value]
  | some p =>
    obtain ⟨ty, r1⟩ := p
    have ⟨hd, _⟩ := decU16_some h1
    by_cases hty : ty = 5
    · subst hty
      cases r1 with
      | nil => simp [value]
      | cons keyId tail =>
        have hlen : 3 ≤ data.length := by rw [hd]; simp [encU16]
        have htail : data.drop 3 = tail := by rw [hd]; simp [encU16]
        rw [slice_from _ _ hlen, htail]
        simp only [Res.bind_ok, ne_eq, not_true_eq_false, ite_false, ite_true]
        by_cases hoff : (consumeVarint tail).2 < 0
        · simp [hoff, value]
        · have hle := Props.C03.consume_len_le tail hoff
          have hnl : ¬ tail.length < (consumeVarint tail).2.toNat := by omega
          simp only [hoff, hnl, ite_false, List.length_drop, gt_iff_lt]
          by_cases hl : tail.length - (consumeVarint tail).2.toNat < (consumeVarint tail).1
          · simp [hl, value]
          · simp only [hl, ite_false]
            rw [slice_to _ _ (by rw [List.length_drop]; omega)]
            simp only [Res.bind_ok]
            generalize hb : (tail.drop (consumeVarint tail).2.toNat).take (consumeVarint tail).1 = buf
            by_cases hm : buf.length % 32 = 0
            · have hbl : buf.length = 32 * (0 + buf.length / 32) := by omega
              obtain ⟨l, hc, hmd⟩ := chunks_agree buf (buf.length / 32) 0 buf.length hbl (by omega)
              simp only [Nat.mul_zero, List.drop_zero] at hmd
              have hm' : ¬ (buf.length % 32 ≠ 0) := by omega
              simp [hm', hc, hmd, value]
            · have hm' : buf.length % 32 ≠ 0 := hm
              simp [hm', chunks_none buf buf.length (Nat.le_refl _) hm, value]
    · simp [hty, value]

/-! ## generic batch response list -/

theorem batchRespUnmarshal_is_codec (data : Bytes) :
    value (batchRespUnmarshal data) = (batchRespCodec.dec data).map fun p => respBodies p.1 := by
  unfold batchRespUnmarshal
  simp only [batchRespCodec, ExactCodec.within, varBytes]
  by_cases hoff : (consumeVarint data).2 < 0
  · simp [hoff, value]
  · have hle := Props.C03.consume_len_le data hoff
    have hnl : ¬ data.length < (consumeVarint data).2.toNat := by omega
    simp only [hoff, hnl, ite_false, List.length_drop, gt_iff_lt]
    by_cases hl : data.length - (consumeVarint data).2.toNat < (consumeVarint data).1
    · simp [hl, value]
    · simp only [hl, ite_false]
      have hs : slice data (consumeVarint data).2.toNat ((consumeVarint data).2.toNat + (consumeVarint data).1)
          = .ok ((data.drop (consumeVarint data).2.toNat).take (consumeVarint data).1) := by
        unfold slice
        have : (consumeVarint data).2.toNat ≤ (consumeVarint data).2.toNat + (consumeVarint data).1 ∧
            (consumeVarint data).2.toNat + (consumeVarint data).1 ≤ data.length := by omega
        simp [this]
      rw [hs]
      simp only [Res.bind_ok]
      cases respEntries.dec ((data.drop (consumeVarint data).2.toNat).take (consumeVarint data).1) with
      | none => simp [value]
      | some es => simp [value]

/-! ## generic batch request: the index walk is `many batchElemCodec` inside the declared window -/

theorem decU16_of_len (s : Bytes) (h : 2 ≤ s.length) : decU16 s = some (beNat (s.take 2), s.drop 2) := by
  match s, h with
  | a :: b :: r, _ => simp [decU16, beNat]

theorem decU16_short (s : Bytes) (h : s.length < 2) : decU16 s = none := by
  match s, h with
  | [], _ => rfl
  | [a], _ => rfl

theorem elem_agree1 (el r0 : Bytes) (hd : decU16 el = some (1, r0)) :
    batchElemCodec.dec el = (req1Codec.dec el).map fun p => (⟨1, p.1⟩, p.2) := by
  simp only [batchElemCodec, iso, sigma, u16, batchElemBody, req1Codec, basicReqCodec, pair, tag16, hd]
  cases h : (u8 ⊗ fixed 49).dec r0 with
  | none => simp [h, pair] at *; simp [h]
  | some q => obtain ⟨⟨k, bl⟩, rest⟩ := q; simp [h, pair] at *; simp [h]

theorem elem_agree2 (el r0 : Bytes) (hd : decU16 el = some (2, r0)) :
    batchElemCodec.dec el = (req2Codec.dec el).map fun p => (⟨2, p.1⟩, p.2) := by
  simp only [batchElemCodec, iso, sigma, u16, batchElemBody, req2Codec, basicReqCodec, pair, tag16, hd]
  cases h : (u8 ⊗ fixed 256).dec r0 with
  | none => simp [h, pair] at *; simp [h]
  | some q => obtain ⟨⟨k, bl⟩, rest⟩ := q; simp [h, pair] at *; simp [h]

theorem elem_other (el r0 : Bytes) (ty : Nat) (hd : decU16 el = some (ty, r0)) (h1 : ty ≠ 1) (h2 : ty ≠ 2) :
    batchElemCodec.dec el = none := by
  simp [batchElemCodec, iso, sigma, u16, batchElemBody, hd, h1, h2, Codec.fail]

def lvalue : Res (List BatchElem) → Option (List BatchElem)
  | .ok es => some es
  | _ => none

theorem lvalue_bind (w : Res (List BatchElem)) (e : BatchElem) :
    lvalue (w.bind fun rest => .ok (e :: rest)) = (lvalue w).map (e :: ·) := by
  cases w <;> rfl

/-- one accepted element: the rest is the suffix after its (non-empty) encoding -/
theorem elem_step (c : Codec BasicReq) (hs : c.Strict) (hpos : ∀ r, 0 < (c.enc r).length)
    (el : Bytes) (r : BasicReq) (rest : Bytes) (h : c.dec el = some (r, rest)) :
    rest = el.drop (c.enc r).length ∧ (c.enc r).length ≤ el.length ∧ rest.length < el.length := by
  have e := hs _ _ _ h
  have hp := hpos r
  subst e
  refine ⟨by simp, by simp, by simp; omega⟩

theorem req1_pos (r : BasicReq) : 0 < (req1Codec.enc r).length := by
  simp [req1Codec, basicReqCodec, iso, pair, tag16, encU16]
theorem req2_pos (r : BasicReq) : 0 < (req2Codec.enc r).length := by
  simp [req2Codec, basicReqCodec, iso, pair, tag16, encU16]

/-- the index walk of the literal model is `many batchElemCodec` on the suffix it stands on -/
theorem walk_agree (d : Bytes) : ∀ fuel fuel' i, i ≤ d.length → d.length - i < fuel → d.length - i ≤ fuel' →
    lvalue (batchWalk d d.length fuel i) = manyDec batchElemCodec fuel' (d.drop i) := by
  intro fuel
  induction fuel with
  | zero => intro fuel' i _ h; omega
  | succ f ih =>
    intro fuel' i hi hf hf'
    unfold batchWalk
    by_cases hlt : i < d.length
    · rw [if_pos hlt]
      have hne : (d.drop i).length = d.length - i := by simp
      cases hs : d.drop i with
      | nil => rw [hs] at hne; simp at hne; omega
      | cons x t =>
        cases fuel' with
        | zero => omega
        | succ f' =>
          by_cases h2 : (d.length : Int) - i < 2
          · rw [if_pos h2]
            have : decU16 (x :: t) = none := decU16_short _ (by rw [← hs, hne]; omega)
            simp [lvalue, manyDec, batchElemCodec, iso, sigma, u16, this]
          · rw [if_neg h2]
            have hs1 : slice d i (i + 2) = .ok ((x :: t).take 2) := by
              unfold slice
              have : i ≤ i + 2 ∧ i + 2 ≤ d.length := by omega
              rw [if_pos this, hs]; simp
            have hdu : decU16 (x :: t) = some (beNat ((x :: t).take 2), (x :: t).drop 2) :=
              decU16_of_len _ (by rw [← hs, hne]; omega)
            rw [hs1]
            simp only [Res.bind_ok]
            generalize hty : beNat ((x :: t).take 2) = ty at hdu
            by_cases hbad : ty ≠ 1 ∧ ty ≠ 2
            · rw [if_pos hbad]
              simp [lvalue, manyDec, elem_other _ _ _ hdu hbad.1 hbad.2]
            · rw [if_neg hbad]
              rw [slice_from _ _ (by omega), hs]
              simp only [Res.bind_ok]
              have hty12 : ty = 1 ∨ ty = 2 := by omega
              rcases hty12 with h1 | h2'
              · subst h1
                simp only [ite_true, manyDec, elem_agree1 _ _ hdu]
                cases hq : req1Codec.dec (x :: t) with
                | none => simp [lvalue]
                | some q =>
                  obtain ⟨r, rest⟩ := q
                  obtain ⟨hrest, hle, hlt'⟩ := elem_step req1Codec (basicReqCodec_strict _ _ _) req1_pos _ _ _ hq
                  have hpos := req1_pos r
                  have hrest' : rest = d.drop (i + (req1Codec.enc r).length) := by
                    rw [hrest, ← hs, List.drop_drop]
                  have hlen' : (x :: t).length = d.length - i := by rw [← hs]; exact hne
                  have hrec := ih f' (i + (req1Codec.enc r).length) (by omega) (by omega) (by omega)
                  simp only [Option.map_some, lvalue_bind, hrec, ← hrest', hlt', ite_true]
                  cases manyDec batchElemCodec f' rest <;> rfl
              · subst h2'
                have hne1 : ¬ ((2 : Nat) = 1) := by decide
                simp only [hne1, ite_false, manyDec, elem_agree2 _ _ hdu]
                cases hq : req2Codec.dec (x :: t) with
                | none => simp [lvalue]
                | some q =>
                  obtain ⟨r, rest⟩ := q
                  obtain ⟨hrest, hle, hlt'⟩ := elem_step req2Codec (basicReqCodec_strict _ _ _) req2_pos _ _ _ hq
                  have hpos := req2_pos r
                  have hrest' : rest = d.drop (i + (req2Codec.enc r).length) := by
                    rw [hrest, ← hs, List.drop_drop]
                  have hlen' : (x :: t).length = d.length - i := by rw [← hs]; exact hne
                  have hrec := ih f' (i + (req2Codec.enc r).length) (by omega) (by omega) (by omega)
                  simp only [Option.map_some, lvalue_bind, hrec, ← hrest', hlt', ite_true]
                  cases manyDec batchElemCodec f' rest <;> rfl
    · rw [if_neg hlt]
      have : d.drop i = [] := by apply List.drop_eq_nil_of_le; omega
      rw [this]
      cases fuel' <;> simp [lvalue, manyDec]

theorem manyDec_cons_ne_nil {α : Type} (c : Codec α) (fuel : Nat) (x : UInt8) (t : Bytes) (es : List α)
    (h : manyDec c fuel (x :: t) = some es) : es ≠ [] := by
  cases fuel with
  | zero => simp [manyDec] at h
  | succ f =>
    simp only [manyDec] at h
    split at h
    · split at h
      · split at h
        · simp at h; subst h; simp
        · simp at h
      · simp at h
    · simp at h

theorem elem_short (w : Bytes) (h : w.length ≤ 2) : batchElemCodec.dec w = none := by
  match w, h with
  | [], _ => simp [batchElemCodec, iso, sigma, u16, decU16]
  | [a], _ => simp [batchElemCodec, iso, sigma, u16, decU16]
  | [a, b], _ =>
    have hd : decU16 [a, b] = some (a.toNat * 256 + b.toNat, []) := rfl
    by_cases h1 : a.toNat * 256 + b.toNat = 1
    · rw [h1] at hd
      rw [elem_agree1 _ _ hd]
      simp [req1Codec, basicReqCodec, iso, pair, tag16, hd, u8]
    · by_cases h2 : a.toNat * 256 + b.toNat = 2
      · rw [h2] at hd
        rw [elem_agree2 _ _ hd]
        simp [req2Codec, basicReqCodec, iso, pair, tag16, hd, u8]
      · exact elem_other _ _ _ hd h1 h2

theorem short_window (x : UInt8) (t : Bytes) (fuel : Nat) (h : (x :: t).length ≤ 2) :
    manyDec batchElemCodec fuel (x :: t) = none := by
  cases fuel with
  | zero => simp [manyDec]
  | succ f => simp only [manyDec, elem_short _ h]

theorem off_pos (data : Bytes) (h : ¬ (consumeVarint data).2 < 0) : 1 ≤ (consumeVarint data).2.toNat := by
  cases data with
  | nil => simp [consumeVarint] at h
  | cons b0 r =>
    have hn : (consumeVarint (b0 :: r)).2 ≠ -1 := by intro e; rw [e] at h; simp at h
    have ⟨h1, _⟩ := Props.C19.consume_ok_spec b0 r hn
    rw [h1]
    have : 0 < prefixLen b0 := by unfold prefixLen; exact Nat.two_pow_pos _
    omega

theorem batchUnmarshal_is_codec (data : Bytes) :
    value (batchUnmarshal data) = (batchReqCodec.dec data).map (·.1) := by
  unfold batchUnmarshal
  simp only [batchReqCodec, filter, ExactCodec.within, varBytes, batchElems, many]
  by_cases hoff : (consumeVarint data).2 < 0
  · simp [hoff, value]
  · have hle := Props.C03.consume_len_le data hoff
    have hop := off_pos data hoff
    simp only [hoff, ite_false, List.length_drop, gt_iff_lt, false_or]
    by_cases hbig : data.length - (consumeVarint data).2.toNat < (consumeVarint data).1
    · simp [hbig, value]
    · simp only [hbig, ite_false, or_false]
      generalize hw : (data.drop (consumeVarint data).2.toNat).take (consumeVarint data).1 = w
      have hwl : w.length = (consumeVarint data).1 := by rw [← hw]; simp; omega
      by_cases h4 : data.length < 4
      · rw [if_pos h4]
        cases hwc : w with
        | nil => simp [value, manyDec]
        | cons x t =>
          have := short_window x t (x :: t).length (by rw [← hwc, hwl]; omega)
          simp only [List.length_cons] at this
          simp [value, this]
      · rw [if_neg h4]
        by_cases hl0 : (consumeVarint data).1 = 0
        · have : w = [] := by cases w with | nil => rfl | cons _ _ => simp at hwl; omega
          simp [hl0, value, this, manyDec]
        · simp only [hl0, ite_false]
          have hsl : slice data 0 ((consumeVarint data).2.toNat + (consumeVarint data).1)
              = .ok (data.take ((consumeVarint data).2.toNat + (consumeVarint data).1)) := slice_to _ _ (by omega)
          rw [hsl]
          simp only [Res.bind_ok]
          generalize hd : data.take ((consumeVarint data).2.toNat + (consumeVarint data).1) = d
          have hdl : d.length = (consumeVarint data).2.toNat + (consumeVarint data).1 := by rw [← hd]; simp; omega
          have hdw : d.drop (consumeVarint data).2.toNat = w := by
            rw [← hd, ← hw, List.drop_take]; congr 1; omega
          have hwa := walk_agree d (d.length + 1) w.length (consumeVarint data).2.toNat (by omega) (by omega) (by rw [hwl]; omega)
          rw [← hdl, hdw] at *
          cases hwk : batchWalk d d.length (d.length + 1) (consumeVarint data).2.toNat with
          | ok es =>
            rw [hwk] at hwa
            simp only [lvalue] at hwa
            cases hwc : w with
            | nil => rw [hwc] at hwl; simp at hwl; omega
            | cons x t =>
              rw [hwc] at hwa
              have hne := manyDec_cons_ne_nil _ _ _ _ _ hwa.symm
              simp only [List.length_cons] at hwa
              simp [value, ← hwa, hne]
          | err => rw [hwk] at hwa; simp only [lvalue] at hwa; simp [value, ← hwa]
          | panic => rw [hwk] at hwa; simp only [lvalue] at hwa; simp [value, ← hwa]


end PatVerif.Proofs.LiteralRefine
