import PatVerif.Proofs.FeCarry
namespace PatVerif.Proofs.FeMul
open PatVerif PatVerif.Generated PatVerif.Generated.FeLimbs PatVerif.Proofs.FeHelp PatVerif.Proofs.FeCarry

/-- a column of five products added up in 128 bits: carry and low part -/
theorem col5 (x0 y0 x1 y1 x2 y2 x3 y3 x4 y4 : Nat)
    (hb : x0 * y0 + x1 * y1 + x2 * y2 + x3 * y3 + x4 * y4 < 41538374868278621028243970633760768) :
    shiftRightBy51 (addMul64 (addMul64 (addMul64 (addMul64 (mul64 x0 y0) x1 y1) x2 y2) x3 y3) x4 y4)
      = (x0 * y0 + x1 * y1 + x2 * y2 + x3 * y3 + x4 * y4) / 2251799813685248 ∧
    U64.and (addMul64 (addMul64 (addMul64 (addMul64 (mul64 x0 y0) x1 y1) x2 y2) x3 y3) x4 y4).lo maskLow51Bits
      = (x0 * y0 + x1 * y1 + x2 * y2 + x3 * y3 + x4 * y4) % 2251799813685248 := by
  obtain ⟨l0, w0⟩ := mul64_spec x0 y0
  obtain ⟨l1, w1⟩ := addMul64_spec (mul64 x0 y0) x1 y1 l0 (by rw [w0]; omega)
  obtain ⟨l2, w2⟩ := addMul64_spec _ x2 y2 l1 (by rw [w1, w0]; omega)
  obtain ⟨l3, w3⟩ := addMul64_spec _ x3 y3 l2 (by rw [w2, w1, w0]; omega)
  obtain ⟨l4, w4⟩ := addMul64_spec _ x4 y4 l3 (by rw [w3, w2, w1, w0]; omega)
  rw [w3, w2, w1, w0] at w4
  rw [shiftRightBy51_spec _ l4 (by rw [w4]; exact hb), lo_and_mask, w4]
  exact ⟨rfl, rfl⟩

/-- a column of three products (squaring) -/
theorem col3 (x0 y0 x1 y1 x2 y2 : Nat)
    (hb : x0 * y0 + x1 * y1 + x2 * y2 < 41538374868278621028243970633760768) :
    shiftRightBy51 (addMul64 (addMul64 (mul64 x0 y0) x1 y1) x2 y2)
      = (x0 * y0 + x1 * y1 + x2 * y2) / 2251799813685248 ∧
    U64.and (addMul64 (addMul64 (mul64 x0 y0) x1 y1) x2 y2).lo maskLow51Bits
      = (x0 * y0 + x1 * y1 + x2 * y2) % 2251799813685248 := by
  obtain ⟨l0, w0⟩ := mul64_spec x0 y0
  obtain ⟨l1, w1⟩ := addMul64_spec (mul64 x0 y0) x1 y1 l0 (by rw [w0]; omega)
  obtain ⟨l2, w2⟩ := addMul64_spec _ x2 y2 l1 (by rw [w1, w0]; omega)
  rw [w1, w0] at w2
  rw [shiftRightBy51_spec _ l2 (by rw [w2]; exact hb), lo_and_mask, w2]
  exact ⟨rfl, rfl⟩

/-- the carries after the columns, then one round of `carryPropagate`: tight limbs, and the value of the five column
sums is kept up to a multiple of p -/
theorem finish (S0 S1 S2 S3 S4 : Nat) (h0 : S0 < 1298074214633706907132624082305024) (h1 : S1 < 1298074214633706907132624082305024)
    (h2 : S2 < 1298074214633706907132624082305024) (h3 : S3 < 1298074214633706907132624082305024) (h4 : S4 < 1298074214633706907132624082305024) :
    let E : Element := ⟨U64.add (S0 % 2251799813685248) (U64.mul (S4 / 2251799813685248) 19), U64.add (S1 % 2251799813685248) (S0 / 2251799813685248),
      U64.add (S2 % 2251799813685248) (S1 / 2251799813685248), U64.add (S3 % 2251799813685248) (S2 / 2251799813685248),
      U64.add (S4 % 2251799813685248) (S3 / 2251799813685248)⟩
    Tight (carryPropagate E) ∧
    ∃ k, S0 + S1 * 2251799813685248 + S2 * 5070602400912917605986812821504 + S3 * 11417981541647679048466287755595961091061972992
      + S4 * 25711008708143844408671393477458601640355247900524685364822016 = val (carryPropagate E) + k * P := by
  intro E
  have hE : E = ⟨S0 % 2251799813685248 + S4 / 2251799813685248 * 19, S1 % 2251799813685248 + S0 / 2251799813685248,
      S2 % 2251799813685248 + S1 / 2251799813685248, S3 % 2251799813685248 + S2 / 2251799813685248,
      S4 % 2251799813685248 + S3 / 2251799813685248⟩ := by
    simp only [E]
    simp (disch := omega) only [add_nowrap, mul_nowrap]
  have hw : Word E := by rw [hE]; simp only [Word]; omega
  obtain ⟨ht, hv⟩ := carryPropagate_spec E hw
  refine ⟨ht, E.l4 / 2251799813685248 + S4 / 2251799813685248, ?_⟩
  rw [Nat.add_mul, ← Nat.add_assoc, ← hv, hE]
  simp only [val, P]
  omega


theorem feMulGeneric_spec (v a b : Element) (ha : Loose a) (hb : Loose b) :
    Tight (feMulGeneric v a b) ∧ val (feMulGeneric v a b) % P = (val a * val b) % P := by
  obtain ⟨a0, a1, a2, a3, a4⟩ := ha
  obtain ⟨b0, b1, b2, b3, b4⟩ := hb
  simp only [feMulGeneric]
  simp (disch := omega) only [mul_nowrap]
  have p00 : a.l0 * b.l0 < 2252074691592192 * 2252074691592192 := mul_bnd a0 b0
  have p01 : a.l0 * b.l1 < 2252074691592192 * 2252074691592192 := mul_bnd a0 b1
  have p02 : a.l0 * b.l2 < 2252074691592192 * 2252074691592192 := mul_bnd a0 b2
  have p03 : a.l0 * b.l3 < 2252074691592192 * 2252074691592192 := mul_bnd a0 b3
  have p04 : a.l0 * b.l4 < 2252074691592192 * 2252074691592192 := mul_bnd a0 b4
  have p10 : a.l1 * b.l0 < 2252074691592192 * 2252074691592192 := mul_bnd a1 b0
  have p11 : a.l1 * b.l1 < 2252074691592192 * 2252074691592192 := mul_bnd a1 b1
  have p12 : a.l1 * b.l2 < 2252074691592192 * 2252074691592192 := mul_bnd a1 b2
  have p13 : a.l1 * b.l3 < 2252074691592192 * 2252074691592192 := mul_bnd a1 b3
  have p14 : a.l1 * 19 * b.l4 < 42789419140251648 * 2252074691592192 := mul_bnd (by omega) b4
  have p20 : a.l2 * b.l0 < 2252074691592192 * 2252074691592192 := mul_bnd a2 b0
  have p21 : a.l2 * b.l1 < 2252074691592192 * 2252074691592192 := mul_bnd a2 b1
  have p22 : a.l2 * b.l2 < 2252074691592192 * 2252074691592192 := mul_bnd a2 b2
  have p23 : a.l2 * 19 * b.l3 < 42789419140251648 * 2252074691592192 := mul_bnd (by omega) b3
  have p24 : a.l2 * 19 * b.l4 < 42789419140251648 * 2252074691592192 := mul_bnd (by omega) b4
  have p30 : a.l3 * b.l0 < 2252074691592192 * 2252074691592192 := mul_bnd a3 b0
  have p31 : a.l3 * b.l1 < 2252074691592192 * 2252074691592192 := mul_bnd a3 b1
  have p32 : a.l3 * 19 * b.l2 < 42789419140251648 * 2252074691592192 := mul_bnd (by omega) b2
  have p33 : a.l3 * 19 * b.l3 < 42789419140251648 * 2252074691592192 := mul_bnd (by omega) b3
  have p34 : a.l3 * 19 * b.l4 < 42789419140251648 * 2252074691592192 := mul_bnd (by omega) b4
  have p40 : a.l4 * b.l0 < 2252074691592192 * 2252074691592192 := mul_bnd a4 b0
  have p41 : a.l4 * 19 * b.l1 < 42789419140251648 * 2252074691592192 := mul_bnd (by omega) b1
  have p42 : a.l4 * 19 * b.l2 < 42789419140251648 * 2252074691592192 := mul_bnd (by omega) b2
  have p43 : a.l4 * 19 * b.l3 < 42789419140251648 * 2252074691592192 := mul_bnd (by omega) b3
  have p44 : a.l4 * 19 * b.l4 < 42789419140251648 * 2252074691592192 := mul_bnd (by omega) b4
  obtain ⟨c0, m0⟩ := col5 a.l0 b.l0 (a.l1 * 19) b.l4 (a.l2 * 19) b.l3 (a.l3 * 19) b.l2 (a.l4 * 19) b.l1 (by omega)
  obtain ⟨c1, m1⟩ := col5 a.l0 b.l1 a.l1 b.l0 (a.l2 * 19) b.l4 (a.l3 * 19) b.l3 (a.l4 * 19) b.l2 (by omega)
  obtain ⟨c2, m2⟩ := col5 a.l0 b.l2 a.l1 b.l1 a.l2 b.l0 (a.l3 * 19) b.l4 (a.l4 * 19) b.l3 (by omega)
  obtain ⟨c3, m3⟩ := col5 a.l0 b.l3 a.l1 b.l2 a.l2 b.l1 a.l3 b.l0 (a.l4 * 19) b.l4 (by omega)
  obtain ⟨c4, m4⟩ := col5 a.l0 b.l4 a.l1 b.l3 a.l2 b.l2 a.l3 b.l1 a.l4 b.l0 (by omega)
  simp only [c0, c1, c2, c3, c4, m0, m1, m2, m3, m4]
  generalize hS0 : a.l0 * b.l0 + a.l1 * 19 * b.l4 + a.l2 * 19 * b.l3 + a.l3 * 19 * b.l2 + a.l4 * 19 * b.l1 = S0
  generalize hS1 : a.l0 * b.l1 + a.l1 * b.l0 + a.l2 * 19 * b.l4 + a.l3 * 19 * b.l3 + a.l4 * 19 * b.l2 = S1
  generalize hS2 : a.l0 * b.l2 + a.l1 * b.l1 + a.l2 * b.l0 + a.l3 * 19 * b.l4 + a.l4 * 19 * b.l3 = S2
  generalize hS3 : a.l0 * b.l3 + a.l1 * b.l2 + a.l2 * b.l1 + a.l3 * b.l0 + a.l4 * 19 * b.l4 = S3
  generalize hS4 : a.l0 * b.l4 + a.l1 * b.l3 + a.l2 * b.l2 + a.l3 * b.l1 + a.l4 * b.l0 = S4
  obtain ⟨ht, k, hk⟩ := finish S0 S1 S2 S3 S4 (by omega) (by omega) (by omega) (by omega) (by omega)
  refine ⟨ht, ?_⟩
  have poly : val a * val b = S0 + S1 * 2251799813685248 + S2 * 5070602400912917605986812821504 + S3 * 11417981541647679048466287755595961091061972992 + S4 * 25711008708143844408671393477458601640355247900524685364822016 + (a.l1 * b.l4 * 1 + a.l2 * b.l3 * 1 + a.l2 * b.l4 * 2251799813685248 + a.l3 * b.l2 * 1 + a.l3 * b.l3 * 2251799813685248 + a.l3 * b.l4 * 5070602400912917605986812821504 + a.l4 * b.l1 * 1 + a.l4 * b.l2 * 2251799813685248 + a.l4 * b.l3 * 5070602400912917605986812821504 + a.l4 * b.l4 * 11417981541647679048466287755595961091061972992) * P := by
    subst hS0 hS1 hS2 hS3 hS4
    simp only [val, P]
    grind
  rw [poly, hk, Nat.add_assoc, ← Nat.add_mul, Nat.add_mul_mod_self_right]

theorem feSquareGeneric_spec (v a : Element) (ha : Loose a) :
    Tight (feSquareGeneric v a) ∧ val (feSquareGeneric v a) % P = (val a * val a) % P := by
  obtain ⟨a0, a1, a2, a3, a4⟩ := ha
  simp only [feSquareGeneric]
  simp (disch := omega) only [mul_nowrap]
  have q0 : a.l0 * a.l0 < 2252074691592192 * 2252074691592192 := mul_bnd a0 a0
  have q1 : a.l1 * 38 * a.l4 < 85578838280503296 * 2252074691592192 := mul_bnd (by omega) a4
  have q2 : a.l2 * 38 * a.l3 < 85578838280503296 * 2252074691592192 := mul_bnd (by omega) a3
  have q3 : a.l0 * 2 * a.l1 < 4504149383184384 * 2252074691592192 := mul_bnd (by omega) a1
  have q4 : a.l2 * 38 * a.l4 < 85578838280503296 * 2252074691592192 := mul_bnd (by omega) a4
  have q5 : a.l3 * 19 * a.l3 < 42789419140251648 * 2252074691592192 := mul_bnd (by omega) a3
  have q6 : a.l0 * 2 * a.l2 < 4504149383184384 * 2252074691592192 := mul_bnd (by omega) a2
  have q7 : a.l1 * a.l1 < 2252074691592192 * 2252074691592192 := mul_bnd a1 a1
  have q8 : a.l3 * 38 * a.l4 < 85578838280503296 * 2252074691592192 := mul_bnd (by omega) a4
  have q9 : a.l0 * 2 * a.l3 < 4504149383184384 * 2252074691592192 := mul_bnd (by omega) a3
  have q10 : a.l1 * 2 * a.l2 < 4504149383184384 * 2252074691592192 := mul_bnd (by omega) a2
  have q11 : a.l4 * 19 * a.l4 < 42789419140251648 * 2252074691592192 := mul_bnd (by omega) a4
  have q12 : a.l0 * 2 * a.l4 < 4504149383184384 * 2252074691592192 := mul_bnd (by omega) a4
  have q13 : a.l1 * 2 * a.l3 < 4504149383184384 * 2252074691592192 := mul_bnd (by omega) a3
  have q14 : a.l2 * a.l2 < 2252074691592192 * 2252074691592192 := mul_bnd a2 a2
  obtain ⟨c0, m0⟩ := col3 a.l0 a.l0 (a.l1 * 38) a.l4 (a.l2 * 38) a.l3 (by omega)
  obtain ⟨c1, m1⟩ := col3 (a.l0 * 2) a.l1 (a.l2 * 38) a.l4 (a.l3 * 19) a.l3 (by omega)
  obtain ⟨c2, m2⟩ := col3 (a.l0 * 2) a.l2 a.l1 a.l1 (a.l3 * 38) a.l4 (by omega)
  obtain ⟨c3, m3⟩ := col3 (a.l0 * 2) a.l3 (a.l1 * 2) a.l2 (a.l4 * 19) a.l4 (by omega)
  obtain ⟨c4, m4⟩ := col3 (a.l0 * 2) a.l4 (a.l1 * 2) a.l3 a.l2 a.l2 (by omega)
  simp only [c0, c1, c2, c3, c4, m0, m1, m2, m3, m4]
  generalize hS0 : a.l0 * a.l0 + a.l1 * 38 * a.l4 + a.l2 * 38 * a.l3 = S0
  generalize hS1 : a.l0 * 2 * a.l1 + a.l2 * 38 * a.l4 + a.l3 * 19 * a.l3 = S1
  generalize hS2 : a.l0 * 2 * a.l2 + a.l1 * a.l1 + a.l3 * 38 * a.l4 = S2
  generalize hS3 : a.l0 * 2 * a.l3 + a.l1 * 2 * a.l2 + a.l4 * 19 * a.l4 = S3
  generalize hS4 : a.l0 * 2 * a.l4 + a.l1 * 2 * a.l3 + a.l2 * a.l2 = S4
  obtain ⟨ht, k, hk⟩ := finish S0 S1 S2 S3 S4 (by omega) (by omega) (by omega) (by omega) (by omega)
  refine ⟨ht, ?_⟩
  have poly : val a * val a = S0 + S1 * 2251799813685248 + S2 * 5070602400912917605986812821504 + S3 * 11417981541647679048466287755595961091061972992 + S4 * 25711008708143844408671393477458601640355247900524685364822016 + (a.l1 * a.l4 * 1 + a.l2 * a.l3 * 1 + a.l2 * a.l4 * 2251799813685248 + a.l3 * a.l2 * 1 + a.l3 * a.l3 * 2251799813685248 + a.l3 * a.l4 * 5070602400912917605986812821504 + a.l4 * a.l1 * 1 + a.l4 * a.l2 * 2251799813685248 + a.l4 * a.l3 * 5070602400912917605986812821504 + a.l4 * a.l4 * 11417981541647679048466287755595961091061972992) * P := by
    subst hS0 hS1 hS2 hS3 hS4
    simp only [val, P]
    grind
  rw [poly, hk, Nat.add_assoc, ← Nat.add_mul, Nat.add_mul_mod_self_right]

/-- `Multiply` -/
theorem Multiply_spec (v x y : Element) (hx : Loose x) (hy : Loose y) :
    Tight (Multiply v x y) ∧ val (Multiply v x y) % P = (val x * val y) % P := by
  simpa only [Multiply, feMul] using feMulGeneric_spec v x y hx hy

/-- `Square` -/
theorem Square_spec (v x : Element) (hx : Loose x) :
    Tight (Square v x) ∧ val (Square v x) % P = (val x * val x) % P := by
  simpa only [Square, feSquare] using feSquareGeneric_spec v x hx

end PatVerif.Proofs.FeMul
