import PatVerif.Generated.ScLimbs
import PatVerif.Proofs.ScHelp
/-! Written by lean/tools/scproof.py (interval analysis of scalar.go); every bound is checked here by `omega`. -/
namespace PatVerif.Proofs.ScReduce
open PatVerif PatVerif.Generated.ScLimbs PatVerif.Proofs.ScHelp
set_option maxRecDepth 16384
set_option maxHeartbeats 4000000

def R0 (l : Limbs) : Prop :=
  (0) ≤ l.s0 ∧ l.s0 ≤ 2097151 ∧
  (0) ≤ l.s1 ∧ l.s1 ≤ 2097151 ∧
  (0) ≤ l.s2 ∧ l.s2 ≤ 2097151 ∧
  (0) ≤ l.s3 ∧ l.s3 ≤ 2097151 ∧
  (0) ≤ l.s4 ∧ l.s4 ≤ 2097151 ∧
  (0) ≤ l.s5 ∧ l.s5 ≤ 2097151 ∧
  (0) ≤ l.s6 ∧ l.s6 ≤ 2097151 ∧
  (0) ≤ l.s7 ∧ l.s7 ≤ 2097151 ∧
  (0) ≤ l.s8 ∧ l.s8 ≤ 2097151 ∧
  (0) ≤ l.s9 ∧ l.s9 ≤ 2097151 ∧
  (0) ≤ l.s10 ∧ l.s10 ≤ 2097151 ∧
  (0) ≤ l.s11 ∧ l.s11 ≤ 2097151 ∧
  (0) ≤ l.s12 ∧ l.s12 ≤ 2097151 ∧
  (0) ≤ l.s13 ∧ l.s13 ≤ 2097151 ∧
  (0) ≤ l.s14 ∧ l.s14 ≤ 2097151 ∧
  (0) ≤ l.s15 ∧ l.s15 ≤ 2097151 ∧
  (0) ≤ l.s16 ∧ l.s16 ≤ 2097151 ∧
  (0) ≤ l.s17 ∧ l.s17 ≤ 2097151 ∧
  (0) ≤ l.s18 ∧ l.s18 ≤ 2097151 ∧
  (0) ≤ l.s19 ∧ l.s19 ≤ 2097151 ∧
  (0) ≤ l.s20 ∧ l.s20 ≤ 2097151 ∧
  (0) ≤ l.s21 ∧ l.s21 ≤ 2097151 ∧
  (0) ≤ l.s22 ∧ l.s22 ≤ 2097151 ∧
  (0) ≤ l.s23 ∧ l.s23 ≤ 536870911

def R1 (l : Limbs) : Prop :=
  (0) ≤ l.s0 ∧ l.s0 ≤ 2097151 ∧
  (0) ≤ l.s1 ∧ l.s1 ≤ 2097151 ∧
  (0) ≤ l.s2 ∧ l.s2 ≤ 2097151 ∧
  (0) ≤ l.s3 ∧ l.s3 ≤ 2097151 ∧
  (0) ≤ l.s4 ∧ l.s4 ≤ 2097151 ∧
  (0) ≤ l.s5 ∧ l.s5 ≤ 2097151 ∧
  (0) ≤ l.s6 ∧ l.s6 ≤ 2097151 ∧
  (0) ≤ l.s7 ∧ l.s7 ≤ 2097151 ∧
  (0) ≤ l.s8 ∧ l.s8 ≤ 2097151 ∧
  (0) ≤ l.s9 ∧ l.s9 ≤ 2097151 ∧
  (0) ≤ l.s10 ∧ l.s10 ≤ 2097151 ∧
  (0) ≤ l.s11 ∧ l.s11 ≤ 357901236818924 ∧
  (0) ≤ l.s12 ∧ l.s12 ≤ 252488244056807 ∧
  (0) ≤ l.s13 ∧ l.s13 ≤ 351211825267864 ∧
  (-535692479350355) ≤ l.s14 ∧ l.s14 ≤ 2097151 ∧
  (0) ≤ l.s15 ∧ l.s15 ≤ 73367170181678 ∧
  (-367166552903811) ≤ l.s16 ∧ l.s16 ≤ 2097151 ∧
  (0) ≤ l.s17 ∧ l.s17 ≤ 2097151 ∧
  (0) ≤ l.s18 ∧ l.s18 ≤ 2097151 ∧
  (0) ≤ l.s19 ∧ l.s19 ≤ 2097151 ∧
  (0) ≤ l.s20 ∧ l.s20 ≤ 2097151 ∧
  (0) ≤ l.s21 ∧ l.s21 ≤ 2097151 ∧
  (0) ≤ l.s22 ∧ l.s22 ≤ 2097151 ∧
  l.s23 = 0

theorem scReduce_b1_spec (l : Limbs) (h : R0 l) :
    R1 (scReduce_b1 l) ∧ scReduce_b1_safe l ∧ (val (scReduce_b1 l) - val l) % L = 0 := by
  simp only [R0] at h
  simp only [R1, scReduce_b1, scReduce_b1_safe, val, L, Go.inI64, Go.ishr, Go.ishl]
  and_intros <;> first | trivial | omega

def R2 (l : Limbs) : Prop :=
  (0) ≤ l.s0 ∧ l.s0 ≤ 2097151 ∧
  (0) ≤ l.s1 ∧ l.s1 ≤ 2097151 ∧
  (0) ≤ l.s2 ∧ l.s2 ≤ 2097151 ∧
  (0) ≤ l.s3 ∧ l.s3 ≤ 2097151 ∧
  (0) ≤ l.s4 ∧ l.s4 ≤ 2097151 ∧
  (0) ≤ l.s5 ∧ l.s5 ≤ 2097151 ∧
  (0) ≤ l.s6 ∧ l.s6 ≤ 2097151 ∧
  (0) ≤ l.s7 ∧ l.s7 ≤ 2097151 ∧
  (0) ≤ l.s8 ∧ l.s8 ≤ 2097151 ∧
  (0) ≤ l.s9 ∧ l.s9 ≤ 2097151 ∧
  (0) ≤ l.s10 ∧ l.s10 ≤ 1398053131244 ∧
  (0) ≤ l.s11 ∧ l.s11 ≤ 358887518545620 ∧
  (0) ≤ l.s12 ∧ l.s12 ≤ 253860164589440 ∧
  (-2092547753555) ≤ l.s13 ∧ l.s13 ≤ 351211825267864 ∧
  (-535692479350355) ≤ l.s14 ∧ l.s14 ≤ 286592461358 ∧
  (-1434243666051) ≤ l.s15 ∧ l.s15 ≤ 73367170181678 ∧
  (-367166552903811) ≤ l.s16 ∧ l.s16 ≤ 2097151 ∧
  (0) ≤ l.s17 ∧ l.s17 ≤ 2097151 ∧
  (0) ≤ l.s18 ∧ l.s18 ≤ 2097151 ∧
  (0) ≤ l.s19 ∧ l.s19 ≤ 2097151 ∧
  (0) ≤ l.s20 ∧ l.s20 ≤ 2097151 ∧
  (0) ≤ l.s21 ∧ l.s21 ≤ 2097151 ∧
  l.s22 = 0 ∧
  l.s23 = 0

theorem scReduce_b2_spec (l : Limbs) (h : R1 l) :
    R2 (scReduce_b2 l) ∧ scReduce_b2_safe l ∧ (val (scReduce_b2 l) - val l) % L = 0 := by
  simp only [R1] at h
  simp only [R2, scReduce_b2, scReduce_b2_safe, val, L, Go.inI64, Go.ishr, Go.ishl]
  and_intros <;> first | trivial | omega

def R3 (l : Limbs) : Prop :=
  (0) ≤ l.s0 ∧ l.s0 ≤ 2097151 ∧
  (0) ≤ l.s1 ∧ l.s1 ≤ 2097151 ∧
  (0) ≤ l.s2 ∧ l.s2 ≤ 2097151 ∧
  (0) ≤ l.s3 ∧ l.s3 ≤ 2097151 ∧
  (0) ≤ l.s4 ∧ l.s4 ≤ 2097151 ∧
  (0) ≤ l.s5 ∧ l.s5 ≤ 2097151 ∧
  (0) ≤ l.s6 ∧ l.s6 ≤ 2097151 ∧
  (0) ≤ l.s7 ∧ l.s7 ≤ 2097151 ∧
  (0) ≤ l.s8 ∧ l.s8 ≤ 2097151 ∧
  (0) ≤ l.s9 ∧ l.s9 ≤ 1398053131244 ∧
  (0) ≤ l.s10 ∧ l.s10 ≤ 2384334857940 ∧
  (0) ≤ l.s11 ∧ l.s11 ≤ 360259439078253 ∧
  (-2092547753555) ≤ l.s12 ∧ l.s12 ≤ 253860164589440 ∧
  (-2092547753555) ≤ l.s13 ∧ l.s13 ≤ 351498415632071 ∧
  (-537126723016406) ≤ l.s14 ∧ l.s14 ≤ 286592461358 ∧
  (-1434243666051) ≤ l.s15 ∧ l.s15 ≤ 73367170181678 ∧
  (-367166552903811) ≤ l.s16 ∧ l.s16 ≤ 2097151 ∧
  (0) ≤ l.s17 ∧ l.s17 ≤ 2097151 ∧
  (0) ≤ l.s18 ∧ l.s18 ≤ 2097151 ∧
  (0) ≤ l.s19 ∧ l.s19 ≤ 2097151 ∧
  (0) ≤ l.s20 ∧ l.s20 ≤ 2097151 ∧
  l.s21 = 0 ∧
  l.s22 = 0 ∧
  l.s23 = 0

theorem scReduce_b3_spec (l : Limbs) (h : R2 l) :
    R3 (scReduce_b3 l) ∧ scReduce_b3_safe l ∧ (val (scReduce_b3 l) - val l) % L = 0 := by
  simp only [R2] at h
  simp only [R3, scReduce_b3, scReduce_b3_safe, val, L, Go.inI64, Go.ishr, Go.ishl]
  and_intros <;> first | trivial | omega

def R4 (l : Limbs) : Prop :=
  (0) ≤ l.s0 ∧ l.s0 ≤ 2097151 ∧
  (0) ≤ l.s1 ∧ l.s1 ≤ 2097151 ∧
  (0) ≤ l.s2 ∧ l.s2 ≤ 2097151 ∧
  (0) ≤ l.s3 ∧ l.s3 ≤ 2097151 ∧
  (0) ≤ l.s4 ∧ l.s4 ≤ 2097151 ∧
  (0) ≤ l.s5 ∧ l.s5 ≤ 2097151 ∧
  (0) ≤ l.s6 ∧ l.s6 ≤ 2097151 ∧
  (0) ≤ l.s7 ∧ l.s7 ≤ 2097151 ∧
  (0) ≤ l.s8 ∧ l.s8 ≤ 1398053131244 ∧
  (0) ≤ l.s9 ∧ l.s9 ≤ 2384334857940 ∧
  (0) ≤ l.s10 ∧ l.s10 ≤ 3756255390573 ∧
  (-2092547753555) ≤ l.s11 ∧ l.s11 ≤ 360259439078253 ∧
  (-2092547753555) ≤ l.s12 ∧ l.s12 ≤ 254146754953647 ∧
  (-3526791419606) ≤ l.s13 ∧ l.s13 ≤ 351498415632071 ∧
  (-537126723016406) ≤ l.s14 ∧ l.s14 ≤ 286592461358 ∧
  (-1434243666051) ≤ l.s15 ∧ l.s15 ≤ 73367170181678 ∧
  (-367166552903811) ≤ l.s16 ∧ l.s16 ≤ 2097151 ∧
  (0) ≤ l.s17 ∧ l.s17 ≤ 2097151 ∧
  (0) ≤ l.s18 ∧ l.s18 ≤ 2097151 ∧
  (0) ≤ l.s19 ∧ l.s19 ≤ 2097151 ∧
  l.s20 = 0 ∧
  l.s21 = 0 ∧
  l.s22 = 0 ∧
  l.s23 = 0

theorem scReduce_b4_spec (l : Limbs) (h : R3 l) :
    R4 (scReduce_b4 l) ∧ scReduce_b4_safe l ∧ (val (scReduce_b4 l) - val l) % L = 0 := by
  simp only [R3] at h
  simp only [R4, scReduce_b4, scReduce_b4_safe, val, L, Go.inI64, Go.ishr, Go.ishl]
  and_intros <;> first | trivial | omega

def R5 (l : Limbs) : Prop :=
  (0) ≤ l.s0 ∧ l.s0 ≤ 2097151 ∧
  (0) ≤ l.s1 ∧ l.s1 ≤ 2097151 ∧
  (0) ≤ l.s2 ∧ l.s2 ≤ 2097151 ∧
  (0) ≤ l.s3 ∧ l.s3 ≤ 2097151 ∧
  (0) ≤ l.s4 ∧ l.s4 ≤ 2097151 ∧
  (0) ≤ l.s5 ∧ l.s5 ≤ 2097151 ∧
  (0) ≤ l.s6 ∧ l.s6 ≤ 2097151 ∧
  (0) ≤ l.s7 ∧ l.s7 ≤ 1398053131244 ∧
  (0) ≤ l.s8 ∧ l.s8 ≤ 2384334857940 ∧
  (0) ≤ l.s9 ∧ l.s9 ≤ 3756255390573 ∧
  (-2092547753555) ≤ l.s10 ∧ l.s10 ≤ 3756255390573 ∧
  (-2092547753555) ≤ l.s11 ∧ l.s11 ≤ 360546029442460 ∧
  (-3526791419606) ≤ l.s12 ∧ l.s12 ≤ 254146754953647 ∧
  (-3526791419606) ≤ l.s13 ∧ l.s13 ≤ 351498415632071 ∧
  (-537126723016406) ≤ l.s14 ∧ l.s14 ≤ 286592461358 ∧
  (-1434243666051) ≤ l.s15 ∧ l.s15 ≤ 73367170181678 ∧
  (-367166552903811) ≤ l.s16 ∧ l.s16 ≤ 2097151 ∧
  (0) ≤ l.s17 ∧ l.s17 ≤ 2097151 ∧
  (0) ≤ l.s18 ∧ l.s18 ≤ 2097151 ∧
  l.s19 = 0 ∧
  l.s20 = 0 ∧
  l.s21 = 0 ∧
  l.s22 = 0 ∧
  l.s23 = 0

theorem scReduce_b5_spec (l : Limbs) (h : R4 l) :
    R5 (scReduce_b5 l) ∧ scReduce_b5_safe l ∧ (val (scReduce_b5 l) - val l) % L = 0 := by
  simp only [R4] at h
  simp only [R5, scReduce_b5, scReduce_b5_safe, val, L, Go.inI64, Go.ishr, Go.ishl]
  and_intros <;> first | trivial | omega

def R6 (l : Limbs) : Prop :=
  (0) ≤ l.s0 ∧ l.s0 ≤ 2097151 ∧
  (0) ≤ l.s1 ∧ l.s1 ≤ 2097151 ∧
  (0) ≤ l.s2 ∧ l.s2 ≤ 2097151 ∧
  (0) ≤ l.s3 ∧ l.s3 ≤ 2097151 ∧
  (0) ≤ l.s4 ∧ l.s4 ≤ 2097151 ∧
  (0) ≤ l.s5 ∧ l.s5 ≤ 2097151 ∧
  (0) ≤ l.s6 ∧ l.s6 ≤ 1398053131244 ∧
  (0) ≤ l.s7 ∧ l.s7 ≤ 2384334857940 ∧
  (0) ≤ l.s8 ∧ l.s8 ≤ 3756255390573 ∧
  (-2092547753555) ≤ l.s9 ∧ l.s9 ≤ 3756255390573 ∧
  (-2092547753555) ≤ l.s10 ∧ l.s10 ≤ 4042845754780 ∧
  (-3526791419606) ≤ l.s11 ∧ l.s11 ≤ 360546029442460 ∧
  (-3526791419606) ≤ l.s12 ∧ l.s12 ≤ 254146754953647 ∧
  (-3526791419606) ≤ l.s13 ∧ l.s13 ≤ 351498415632071 ∧
  (-537126723016406) ≤ l.s14 ∧ l.s14 ≤ 286592461358 ∧
  (-1434243666051) ≤ l.s15 ∧ l.s15 ≤ 73367170181678 ∧
  (-367166552903811) ≤ l.s16 ∧ l.s16 ≤ 2097151 ∧
  (0) ≤ l.s17 ∧ l.s17 ≤ 2097151 ∧
  l.s18 = 0 ∧
  l.s19 = 0 ∧
  l.s20 = 0 ∧
  l.s21 = 0 ∧
  l.s22 = 0 ∧
  l.s23 = 0

theorem scReduce_b6_spec (l : Limbs) (h : R5 l) :
    R6 (scReduce_b6 l) ∧ scReduce_b6_safe l ∧ (val (scReduce_b6 l) - val l) % L = 0 := by
  simp only [R5] at h
  simp only [R6, scReduce_b6, scReduce_b6_safe, val, L, Go.inI64, Go.ishr, Go.ishl]
  and_intros <;> first | trivial | omega

def R7 (l : Limbs) : Prop :=
  (0) ≤ l.s0 ∧ l.s0 ≤ 2097151 ∧
  (0) ≤ l.s1 ∧ l.s1 ≤ 2097151 ∧
  (0) ≤ l.s2 ∧ l.s2 ≤ 2097151 ∧
  (0) ≤ l.s3 ∧ l.s3 ≤ 2097151 ∧
  (0) ≤ l.s4 ∧ l.s4 ≤ 2097151 ∧
  (0) ≤ l.s5 ∧ l.s5 ≤ 2097151 ∧
  (-1048576) ≤ l.s6 ∧ l.s6 ≤ 1048575 ∧
  (0) ≤ l.s7 ∧ l.s7 ≤ 2384335524584 ∧
  (-1048576) ≤ l.s8 ∧ l.s8 ≤ 1048575 ∧
  (-2092547753555) ≤ l.s9 ∧ l.s9 ≤ 3756257181695 ∧
  (-1048576) ≤ l.s10 ∧ l.s10 ≤ 1048575 ∧
  (-3526792417411) ≤ l.s11 ∧ l.s11 ≤ 360546031370239 ∧
  (-1048576) ≤ l.s12 ∧ l.s12 ≤ 1048575 ∧
  (-3526793101311) ≤ l.s13 ∧ l.s13 ≤ 351498536818687 ∧
  (-1048576) ≤ l.s14 ∧ l.s14 ≤ 1048575 ∧
  (-1434499788031) ≤ l.s15 ∧ l.s15 ≤ 73367170318336 ∧
  (-1048576) ≤ l.s16 ∧ l.s16 ≤ 1048575 ∧
  (-175078656) ≤ l.s17 ∧ l.s17 ≤ 2097152 ∧
  l.s18 = 0 ∧
  l.s19 = 0 ∧
  l.s20 = 0 ∧
  l.s21 = 0 ∧
  l.s22 = 0 ∧
  l.s23 = 0

theorem scReduce_b7_spec (l : Limbs) (h : R6 l) :
    R7 (scReduce_b7 l) ∧ scReduce_b7_safe l ∧ (val (scReduce_b7 l) - val l) % L = 0 := by
  simp only [R6] at h
  simp only [R7, scReduce_b7, scReduce_b7_safe, val, L, Go.inI64, Go.ishr, Go.ishl]
  and_intros <;> first | trivial | omega

def R8 (l : Limbs) : Prop :=
  (0) ≤ l.s0 ∧ l.s0 ≤ 2097151 ∧
  (0) ≤ l.s1 ∧ l.s1 ≤ 2097151 ∧
  (0) ≤ l.s2 ∧ l.s2 ≤ 2097151 ∧
  (0) ≤ l.s3 ∧ l.s3 ≤ 2097151 ∧
  (0) ≤ l.s4 ∧ l.s4 ≤ 2097151 ∧
  (0) ≤ l.s5 ∧ l.s5 ≤ 2097151 ∧
  (-1048576) ≤ l.s6 ∧ l.s6 ≤ 1048575 ∧
  (-1048576) ≤ l.s7 ∧ l.s7 ≤ 1048575 ∧
  (-1048576) ≤ l.s8 ∧ l.s8 ≤ 2185515 ∧
  (-1048576) ≤ l.s9 ∧ l.s9 ≤ 1048575 ∧
  (-2046381) ≤ l.s10 ∧ l.s10 ≤ 2839698 ∧
  (-1048576) ≤ l.s11 ∧ l.s11 ≤ 1048575 ∧
  (-2730282) ≤ l.s12 ∧ l.s12 ≤ 172970320 ∧
  (-1048576) ≤ l.s13 ∧ l.s13 ≤ 1048575 ∧
  (-2730282) ≤ l.s14 ∧ l.s14 ≤ 168656138 ∧
  (-1048576) ≤ l.s15 ∧ l.s15 ≤ 1048575 ∧
  (-1732599) ≤ l.s16 ∧ l.s16 ≤ 36032768 ∧
  (-175078656) ≤ l.s17 ∧ l.s17 ≤ 2097152 ∧
  l.s18 = 0 ∧
  l.s19 = 0 ∧
  l.s20 = 0 ∧
  l.s21 = 0 ∧
  l.s22 = 0 ∧
  l.s23 = 0

theorem scReduce_b8_spec (l : Limbs) (h : R7 l) :
    R8 (scReduce_b8 l) ∧ scReduce_b8_safe l ∧ (val (scReduce_b8 l) - val l) % L = 0 := by
  simp only [R7] at h
  simp only [R8, scReduce_b8, scReduce_b8_safe, val, L, Go.inI64, Go.ishr, Go.ishl]
  and_intros <;> first | trivial | omega

def R9 (l : Limbs) : Prop :=
  (0) ≤ l.s0 ∧ l.s0 ≤ 2097151 ∧
  (0) ≤ l.s1 ∧ l.s1 ≤ 2097151 ∧
  (0) ≤ l.s2 ∧ l.s2 ≤ 2097151 ∧
  (0) ≤ l.s3 ∧ l.s3 ≤ 2097151 ∧
  (0) ≤ l.s4 ∧ l.s4 ≤ 2097151 ∧
  (-116714960471808) ≤ l.s5 ∧ l.s5 ≤ 1398053797887 ∧
  (-82338792650752) ≤ l.s6 ∧ l.s6 ≤ 986283245567 ∧
  (-114533481466624) ≤ l.s7 ∧ l.s7 ≤ 1371922235391 ∧
  (-2092549799936) ≤ l.s8 ∧ l.s8 ≤ 174694360535595 ∧
  (-23925724941568) ≤ l.s9 ∧ l.s9 ≤ 286591549439 ∧
  (-1434246396333) ≤ l.s10 ∧ l.s10 ≤ 119736470756754 ∧
  (-1048576) ≤ l.s11 ∧ l.s11 ≤ 1048575 ∧
  (-2730282) ≤ l.s12 ∧ l.s12 ≤ 172970320 ∧
  (-1048576) ≤ l.s13 ∧ l.s13 ≤ 1048575 ∧
  (-2730282) ≤ l.s14 ∧ l.s14 ≤ 168656138 ∧
  (-1048576) ≤ l.s15 ∧ l.s15 ≤ 1048575 ∧
  (-1732599) ≤ l.s16 ∧ l.s16 ≤ 36032768 ∧
  l.s17 = 0 ∧
  l.s18 = 0 ∧
  l.s19 = 0 ∧
  l.s20 = 0 ∧
  l.s21 = 0 ∧
  l.s22 = 0 ∧
  l.s23 = 0

theorem scReduce_b9_spec (l : Limbs) (h : R8 l) :
    R9 (scReduce_b9 l) ∧ scReduce_b9_safe l ∧ (val (scReduce_b9 l) - val l) % L = 0 := by
  simp only [R8] at h
  simp only [R9, scReduce_b9, scReduce_b9_safe, val, L, Go.inI64, Go.ishr, Go.ishl]
  and_intros <;> first | trivial | omega

def R10 (l : Limbs) : Prop :=
  (0) ≤ l.s0 ∧ l.s0 ≤ 2097151 ∧
  (0) ≤ l.s1 ∧ l.s1 ≤ 2097151 ∧
  (0) ≤ l.s2 ∧ l.s2 ≤ 2097151 ∧
  (0) ≤ l.s3 ∧ l.s3 ≤ 2097151 ∧
  (-1155024995157) ≤ l.s4 ∧ l.s4 ≤ 24020994654975 ∧
  (-117529794851112) ≤ l.s5 ∧ l.s5 ≤ 18344120457215 ∧
  (-83472229462369) ≤ l.s6 ∧ l.s6 ≤ 24558307514111 ∧
  (-150487157540864) ≤ l.s7 ∧ l.s7 ≤ 3100718180586 ∧
  (-2329321581479) ≤ l.s8 ∧ l.s8 ≤ 179618490512171 ∧
  (-48568571009536) ≤ l.s9 ∧ l.s9 ≤ 1471517738138 ∧
  (-1434246396333) ≤ l.s10 ∧ l.s10 ≤ 119736470756754 ∧
  (-1048576) ≤ l.s11 ∧ l.s11 ≤ 1048575 ∧
  (-2730282) ≤ l.s12 ∧ l.s12 ≤ 172970320 ∧
  (-1048576) ≤ l.s13 ∧ l.s13 ≤ 1048575 ∧
  (-2730282) ≤ l.s14 ∧ l.s14 ≤ 168656138 ∧
  (-1048576) ≤ l.s15 ∧ l.s15 ≤ 1048575 ∧
  l.s16 = 0 ∧
  l.s17 = 0 ∧
  l.s18 = 0 ∧
  l.s19 = 0 ∧
  l.s20 = 0 ∧
  l.s21 = 0 ∧
  l.s22 = 0 ∧
  l.s23 = 0

theorem scReduce_b10_spec (l : Limbs) (h : R9 l) :
    R10 (scReduce_b10 l) ∧ scReduce_b10_safe l ∧ (val (scReduce_b10 l) - val l) % L = 0 := by
  simp only [R9] at h
  simp only [R10, scReduce_b10, scReduce_b10_safe, val, L, Go.inI64, Go.ishr, Go.ishl]
  and_intros <;> first | trivial | omega

def R11 (l : Limbs) : Prop :=
  (0) ≤ l.s0 ∧ l.s0 ≤ 2097151 ∧
  (0) ≤ l.s1 ∧ l.s1 ≤ 2097151 ∧
  (0) ≤ l.s2 ∧ l.s2 ≤ 2097151 ∧
  (-699025850368) ≤ l.s3 ∧ l.s3 ≤ 699027280876 ∧
  (-1648166093653) ≤ l.s4 ∧ l.s4 ≤ 24514135283175 ∧
  (-118215755444520) ≤ l.s5 ∧ l.s5 ≤ 19030080396440 ∧
  (-84518502840244) ≤ l.s6 ∧ l.s6 ≤ 25604581889791 ∧
  (-150630452791296) ≤ l.s7 ∧ l.s7 ≤ 3244013294361 ∧
  (-3046443072554) ≤ l.s8 ∧ l.s8 ≤ 180335612687147 ∧
  (-48568571009536) ≤ l.s9 ∧ l.s9 ≤ 1471517738138 ∧
  (-1434246396333) ≤ l.s10 ∧ l.s10 ≤ 119736470756754 ∧
  (-1048576) ≤ l.s11 ∧ l.s11 ≤ 1048575 ∧
  (-2730282) ≤ l.s12 ∧ l.s12 ≤ 172970320 ∧
  (-1048576) ≤ l.s13 ∧ l.s13 ≤ 1048575 ∧
  (-2730282) ≤ l.s14 ∧ l.s14 ≤ 168656138 ∧
  l.s15 = 0 ∧
  l.s16 = 0 ∧
  l.s17 = 0 ∧
  l.s18 = 0 ∧
  l.s19 = 0 ∧
  l.s20 = 0 ∧
  l.s21 = 0 ∧
  l.s22 = 0 ∧
  l.s23 = 0

theorem scReduce_b11_spec (l : Limbs) (h : R10 l) :
    R11 (scReduce_b11 l) ∧ scReduce_b11_safe l ∧ (val (scReduce_b11 l) - val l) % L = 0 := by
  simp only [R10] at h
  simp only [R11, scReduce_b11, scReduce_b11_safe, val, L, Go.inI64, Go.ishr, Go.ishl]
  and_intros <;> first | trivial | omega

def R12 (l : Limbs) : Prop :=
  (0) ≤ l.s0 ∧ l.s0 ≤ 2097151 ∧
  (0) ≤ l.s1 ∧ l.s1 ≤ 2097151 ∧
  (-1820123383326) ≤ l.s2 ∧ l.s2 ≤ 112433435901885 ∧
  (-1983066553840) ≤ l.s3 ∧ l.s3 ≤ 80017334357724 ∧
  (-3434270163259) ≤ l.s4 ∧ l.s4 ≤ 134846113608429 ∧
  (-286501693221610) ≤ l.s5 ∧ l.s5 ≤ 21754369427450 ∧
  (-84891614987518) ≤ l.s6 ∧ l.s6 ≤ 48652623740457 ∧
  (-265974554225634) ≤ l.s7 ∧ l.s7 ≤ 5111255884443 ∧
  (-3046443072554) ≤ l.s8 ∧ l.s8 ≤ 180335612687147 ∧
  (-48568571009536) ≤ l.s9 ∧ l.s9 ≤ 1471517738138 ∧
  (-1434246396333) ≤ l.s10 ∧ l.s10 ≤ 119736470756754 ∧
  (-1048576) ≤ l.s11 ∧ l.s11 ≤ 1048575 ∧
  (-2730282) ≤ l.s12 ∧ l.s12 ≤ 172970320 ∧
  (-1048576) ≤ l.s13 ∧ l.s13 ≤ 1048575 ∧
  l.s14 = 0 ∧
  l.s15 = 0 ∧
  l.s16 = 0 ∧
  l.s17 = 0 ∧
  l.s18 = 0 ∧
  l.s19 = 0 ∧
  l.s20 = 0 ∧
  l.s21 = 0 ∧
  l.s22 = 0 ∧
  l.s23 = 0

theorem scReduce_b12_spec (l : Limbs) (h : R11 l) :
    R12 (scReduce_b12 l) ∧ scReduce_b12_safe l ∧ (val (scReduce_b12 l) - val l) % L = 0 := by
  simp only [R11] at h
  simp only [R12, scReduce_b12, scReduce_b12_safe, val, L, Go.inI64, Go.ishr, Go.ishl]
  and_intros <;> first | trivial | omega

def R13 (l : Limbs) : Prop :=
  (0) ≤ l.s0 ∧ l.s0 ≤ 2097151 ∧
  (-699025850368) ≤ l.s1 ∧ l.s1 ≤ 699027280876 ∧
  (-2313264481822) ≤ l.s2 ∧ l.s2 ≤ 112926576530085 ∧
  (-2669027147248) ≤ l.s3 ∧ l.s3 ≤ 80703294296949 ∧
  (-4480543541134) ≤ l.s4 ∧ l.s4 ≤ 135892387984109 ∧
  (-286644988472042) ≤ l.s5 ∧ l.s5 ≤ 21897664541225 ∧
  (-85608736478593) ≤ l.s6 ∧ l.s6 ≤ 49369745915433 ∧
  (-265974554225634) ≤ l.s7 ∧ l.s7 ≤ 5111255884443 ∧
  (-3046443072554) ≤ l.s8 ∧ l.s8 ≤ 180335612687147 ∧
  (-48568571009536) ≤ l.s9 ∧ l.s9 ≤ 1471517738138 ∧
  (-1434246396333) ≤ l.s10 ∧ l.s10 ≤ 119736470756754 ∧
  (-1048576) ≤ l.s11 ∧ l.s11 ≤ 1048575 ∧
  (-2730282) ≤ l.s12 ∧ l.s12 ≤ 172970320 ∧
  l.s13 = 0 ∧
  l.s14 = 0 ∧
  l.s15 = 0 ∧
  l.s16 = 0 ∧
  l.s17 = 0 ∧
  l.s18 = 0 ∧
  l.s19 = 0 ∧
  l.s20 = 0 ∧
  l.s21 = 0 ∧
  l.s22 = 0 ∧
  l.s23 = 0

theorem scReduce_b13_spec (l : Limbs) (h : R12 l) :
    R13 (scReduce_b13 l) ∧ scReduce_b13_safe l ∧ (val (scReduce_b13 l) - val l) % L = 0 := by
  simp only [R12] at h
  simp only [R13, scReduce_b13, scReduce_b13_safe, val, L, Go.inI64, Go.ishr, Go.ishl]
  and_intros <;> first | trivial | omega

def R14 (l : Limbs) : Prop :=
  (-1820123383326) ≤ l.s0 ∧ l.s0 ≤ 115309455132911 ∧
  (-1983066553840) ≤ l.s1 ∧ l.s1 ≤ 82046276895596 ∧
  (-4099368551428) ≤ l.s2 ∧ l.s2 ≤ 226080819378645 ∧
  (-175259677294848) ≤ l.s3 ∧ l.s3 ≤ 83427583327959 ∧
  (-4853655688408) ≤ l.s4 ∧ l.s4 ≤ 159529993004349 ∧
  (-404939563290362) ≤ l.s5 ∧ l.s5 ≤ 23764907131307 ∧
  (-85608736478593) ≤ l.s6 ∧ l.s6 ≤ 49369745915433 ∧
  (-265974554225634) ≤ l.s7 ∧ l.s7 ≤ 5111255884443 ∧
  (-3046443072554) ≤ l.s8 ∧ l.s8 ≤ 180335612687147 ∧
  (-48568571009536) ≤ l.s9 ∧ l.s9 ≤ 1471517738138 ∧
  (-1434246396333) ≤ l.s10 ∧ l.s10 ≤ 119736470756754 ∧
  (-1048576) ≤ l.s11 ∧ l.s11 ≤ 1048575 ∧
  l.s12 = 0 ∧
  l.s13 = 0 ∧
  l.s14 = 0 ∧
  l.s15 = 0 ∧
  l.s16 = 0 ∧
  l.s17 = 0 ∧
  l.s18 = 0 ∧
  l.s19 = 0 ∧
  l.s20 = 0 ∧
  l.s21 = 0 ∧
  l.s22 = 0 ∧
  l.s23 = 0

theorem scReduce_b14_spec (l : Limbs) (h : R13 l) :
    R14 (scReduce_b14 l) ∧ scReduce_b14_safe l ∧ (val (scReduce_b14 l) - val l) % L = 0 := by
  simp only [R13] at h
  simp only [R14, scReduce_b14, scReduce_b14_safe, val, L, Go.inI64, Go.ishr, Go.ishl]
  and_intros <;> first | trivial | omega

def R15 (l : Limbs) : Prop :=
  (-1048576) ≤ l.s0 ∧ l.s0 ≤ 1048575 ∧
  (-1983067421742) ≤ l.s1 ∧ l.s1 ≤ 82046331879429 ∧
  (-1048576) ≤ l.s2 ∧ l.s2 ≤ 1048575 ∧
  (-175259679249579) ≤ l.s3 ∧ l.s3 ≤ 83427691131694 ∧
  (-1048576) ≤ l.s4 ∧ l.s4 ≤ 1048575 ∧
  (-404939565604765) ≤ l.s5 ∧ l.s5 ≤ 23764983201136 ∧
  (-1048576) ≤ l.s6 ∧ l.s6 ≤ 1048575 ∧
  (-265974595047061) ≤ l.s7 ∧ l.s7 ≤ 5111279425772 ∧
  (-1048576) ≤ l.s8 ∧ l.s8 ≤ 1048575 ∧
  (-48568572462193) ≤ l.s9 ∧ l.s9 ≤ 1471603728859 ∧
  (-1048576) ≤ l.s10 ∧ l.s10 ≤ 1048575 ∧
  (-1732478) ≤ l.s11 ∧ l.s11 ≤ 58143373 ∧
  l.s12 = 0 ∧
  l.s13 = 0 ∧
  l.s14 = 0 ∧
  l.s15 = 0 ∧
  l.s16 = 0 ∧
  l.s17 = 0 ∧
  l.s18 = 0 ∧
  l.s19 = 0 ∧
  l.s20 = 0 ∧
  l.s21 = 0 ∧
  l.s22 = 0 ∧
  l.s23 = 0

theorem scReduce_b15_spec (l : Limbs) (h : R14 l) :
    R15 (scReduce_b15 l) ∧ scReduce_b15_safe l ∧ (val (scReduce_b15 l) - val l) % L = 0 := by
  simp only [R14] at h
  simp only [R15, scReduce_b15, scReduce_b15_safe, val, L, Go.inI64, Go.ishr, Go.ishl]
  and_intros <;> first | trivial | omega

def R16 (l : Limbs) : Prop :=
  (-1048576) ≤ l.s0 ∧ l.s0 ≤ 1048575 ∧
  (-1048576) ≤ l.s1 ∧ l.s1 ≤ 1048575 ∧
  (-1994176) ≤ l.s2 ∧ l.s2 ≤ 40171315 ∧
  (-1048576) ≤ l.s3 ∧ l.s3 ≤ 1048575 ∧
  (-84618903) ≤ l.s4 ∧ l.s4 ≤ 40829998 ∧
  (-1048576) ≤ l.s5 ∧ l.s5 ≤ 1048575 ∧
  (-194138808) ≤ l.s6 ∧ l.s6 ≤ 12380602 ∧
  (-1048576) ≤ l.s7 ∧ l.s7 ≤ 1048575 ∧
  (-127875146) ≤ l.s8 ∧ l.s8 ≤ 3485823 ∧
  (-1048576) ≤ l.s9 ∧ l.s9 ≤ 1048575 ∧
  (-24207876) ≤ l.s10 ∧ l.s10 ≤ 1750290 ∧
  (-1048576) ≤ l.s11 ∧ l.s11 ≤ 1048575 ∧
  (-1) ≤ l.s12 ∧ l.s12 ≤ 28 ∧
  l.s13 = 0 ∧
  l.s14 = 0 ∧
  l.s15 = 0 ∧
  l.s16 = 0 ∧
  l.s17 = 0 ∧
  l.s18 = 0 ∧
  l.s19 = 0 ∧
  l.s20 = 0 ∧
  l.s21 = 0 ∧
  l.s22 = 0 ∧
  l.s23 = 0

theorem scReduce_b16_spec (l : Limbs) (h : R15 l) :
    R16 (scReduce_b16 l) ∧ scReduce_b16_safe l ∧ (val (scReduce_b16 l) - val l) % L = 0 := by
  simp only [R15] at h
  simp only [R16, scReduce_b16, scReduce_b16_safe, val, L, Go.inI64, Go.ishr, Go.ishl]
  and_intros <;> first | trivial | omega

def R17 (l : Limbs) : Prop :=
  (-1715219) ≤ l.s0 ∧ l.s0 ≤ 19714579 ∧
  (-1518872) ≤ l.s1 ∧ l.s1 ≤ 14216863 ∧
  (-2648359) ≤ l.s2 ∧ l.s2 ≤ 58488439 ∧
  (-28987116) ≤ l.s3 ∧ l.s3 ≤ 2046380 ∧
  (-84755560) ≤ l.s4 ∧ l.s4 ≤ 44656394 ∧
  (-20197804) ≤ l.s5 ∧ l.s5 ≤ 1732476 ∧
  (-194138808) ≤ l.s6 ∧ l.s6 ≤ 12380602 ∧
  (-1048576) ≤ l.s7 ∧ l.s7 ≤ 1048575 ∧
  (-127875146) ≤ l.s8 ∧ l.s8 ≤ 3485823 ∧
  (-1048576) ≤ l.s9 ∧ l.s9 ≤ 1048575 ∧
  (-24207876) ≤ l.s10 ∧ l.s10 ≤ 1750290 ∧
  (-1048576) ≤ l.s11 ∧ l.s11 ≤ 1048575 ∧
  l.s12 = 0 ∧
  l.s13 = 0 ∧
  l.s14 = 0 ∧
  l.s15 = 0 ∧
  l.s16 = 0 ∧
  l.s17 = 0 ∧
  l.s18 = 0 ∧
  l.s19 = 0 ∧
  l.s20 = 0 ∧
  l.s21 = 0 ∧
  l.s22 = 0 ∧
  l.s23 = 0

theorem scReduce_b17_spec (l : Limbs) (h : R16 l) :
    R17 (scReduce_b17 l) ∧ scReduce_b17_safe l ∧ (val (scReduce_b17 l) - val l) % L = 0 := by
  simp only [R16] at h
  simp only [R17, scReduce_b17, scReduce_b17_safe, val, L, Go.inI64, Go.ishr, Go.ishl]
  and_intros <;> first | trivial | omega

def R18 (l : Limbs) : Prop :=
  (0) ≤ l.s0 ∧ l.s0 ≤ 2097151 ∧
  (0) ≤ l.s1 ∧ l.s1 ≤ 2097151 ∧
  (0) ≤ l.s2 ∧ l.s2 ≤ 2097151 ∧
  (0) ≤ l.s3 ∧ l.s3 ≤ 2097151 ∧
  (0) ≤ l.s4 ∧ l.s4 ≤ 2097151 ∧
  (0) ≤ l.s5 ∧ l.s5 ≤ 2097151 ∧
  (0) ≤ l.s6 ∧ l.s6 ≤ 2097151 ∧
  (0) ≤ l.s7 ∧ l.s7 ≤ 2097151 ∧
  (0) ≤ l.s8 ∧ l.s8 ≤ 2097151 ∧
  (0) ≤ l.s9 ∧ l.s9 ≤ 2097151 ∧
  (0) ≤ l.s10 ∧ l.s10 ≤ 2097151 ∧
  (0) ≤ l.s11 ∧ l.s11 ≤ 2097151 ∧
  (-1) ≤ l.s12 ∧ l.s12 ≤ 0 ∧
  l.s13 = 0 ∧
  l.s14 = 0 ∧
  l.s15 = 0 ∧
  l.s16 = 0 ∧
  l.s17 = 0 ∧
  l.s18 = 0 ∧
  l.s19 = 0 ∧
  l.s20 = 0 ∧
  l.s21 = 0 ∧
  l.s22 = 0 ∧
  l.s23 = 0

theorem scReduce_b18_spec (l : Limbs) (h : R17 l) :
    R18 (scReduce_b18 l) ∧ scReduce_b18_safe l ∧ (val (scReduce_b18 l) - val l) % L = 0 := by
  simp only [R17] at h
  simp only [R18, scReduce_b18, scReduce_b18_safe, val, L, Go.inI64, Go.ishr, Go.ishl]
  and_intros <;> first | trivial | omega


/-- the last fold and the last round of carries: the result is the canonical representative -/
theorem scReduce_final (l : Limbs) (h : R18 l) :
    RF (scReduce_b20 (scReduce_b19 l)) ∧ scReduce_b19_safe l ∧ scReduce_b20_safe (scReduce_b19 l) ∧
    (val (scReduce_b20 (scReduce_b19 l)) - val l) % L = 0 ∧ 0 ≤ val (scReduce_b20 (scReduce_b19 l)) ∧ val (scReduce_b20 (scReduce_b19 l)) < L := by
  simp only [R18] at h
  simp only [RF, scReduce_b20, scReduce_b19, scReduce_b19_safe, scReduce_b20_safe, val, L, Go.inI64, Go.ishr, Go.ishl]
  and_intros <;> first | trivial | omega

theorem scReduce_load_spec (s : Nat → Int) (hs : ∀ i, 0 ≤ s i ∧ s i ≤ 255) :
    R0 (scReduce_load s) ∧ scReduce_load_safe s ∧ val (scReduce_load s) = leFn s 64 := by
  have e3_s0 := load3_eq s 0 (hs (0 + 0)) (hs (0 + 1)) (hs (0 + 2))
  have e4_s2 := load4_eq s 2 (hs (2 + 0)) (hs (2 + 1)) (hs (2 + 2)) (hs (2 + 3))
  have e3_s5 := load3_eq s 5 (hs (5 + 0)) (hs (5 + 1)) (hs (5 + 2))
  have e4_s7 := load4_eq s 7 (hs (7 + 0)) (hs (7 + 1)) (hs (7 + 2)) (hs (7 + 3))
  have e4_s10 := load4_eq s 10 (hs (10 + 0)) (hs (10 + 1)) (hs (10 + 2)) (hs (10 + 3))
  have e3_s13 := load3_eq s 13 (hs (13 + 0)) (hs (13 + 1)) (hs (13 + 2))
  have e4_s15 := load4_eq s 15 (hs (15 + 0)) (hs (15 + 1)) (hs (15 + 2)) (hs (15 + 3))
  have e3_s18 := load3_eq s 18 (hs (18 + 0)) (hs (18 + 1)) (hs (18 + 2))
  have e3_s21 := load3_eq s 21 (hs (21 + 0)) (hs (21 + 1)) (hs (21 + 2))
  have e4_s23 := load4_eq s 23 (hs (23 + 0)) (hs (23 + 1)) (hs (23 + 2)) (hs (23 + 3))
  have e3_s26 := load3_eq s 26 (hs (26 + 0)) (hs (26 + 1)) (hs (26 + 2))
  have e4_s28 := load4_eq s 28 (hs (28 + 0)) (hs (28 + 1)) (hs (28 + 2)) (hs (28 + 3))
  have e4_s31 := load4_eq s 31 (hs (31 + 0)) (hs (31 + 1)) (hs (31 + 2)) (hs (31 + 3))
  have e3_s34 := load3_eq s 34 (hs (34 + 0)) (hs (34 + 1)) (hs (34 + 2))
  have e4_s36 := load4_eq s 36 (hs (36 + 0)) (hs (36 + 1)) (hs (36 + 2)) (hs (36 + 3))
  have e3_s39 := load3_eq s 39 (hs (39 + 0)) (hs (39 + 1)) (hs (39 + 2))
  have e3_s42 := load3_eq s 42 (hs (42 + 0)) (hs (42 + 1)) (hs (42 + 2))
  have e4_s44 := load4_eq s 44 (hs (44 + 0)) (hs (44 + 1)) (hs (44 + 2)) (hs (44 + 3))
  have e3_s47 := load3_eq s 47 (hs (47 + 0)) (hs (47 + 1)) (hs (47 + 2))
  have e4_s49 := load4_eq s 49 (hs (49 + 0)) (hs (49 + 1)) (hs (49 + 2)) (hs (49 + 3))
  have e4_s52 := load4_eq s 52 (hs (52 + 0)) (hs (52 + 1)) (hs (52 + 2)) (hs (52 + 3))
  have e3_s55 := load3_eq s 55 (hs (55 + 0)) (hs (55 + 1)) (hs (55 + 2))
  have e4_s57 := load4_eq s 57 (hs (57 + 0)) (hs (57 + 1)) (hs (57 + 2)) (hs (57 + 3))
  have e4_s60 := load4_eq s 60 (hs (60 + 0)) (hs (60 + 1)) (hs (60 + 2)) (hs (60 + 3))
  have e3_s0s := e3_s0.2
  have e4_s2s := e4_s2.2
  have e3_s5s := e3_s5.2
  have e4_s7s := e4_s7.2
  have e4_s10s := e4_s10.2
  have e3_s13s := e3_s13.2
  have e4_s15s := e4_s15.2
  have e3_s18s := e3_s18.2
  have e3_s21s := e3_s21.2
  have e4_s23s := e4_s23.2
  have e3_s26s := e3_s26.2
  have e4_s28s := e4_s28.2
  have e4_s31s := e4_s31.2
  have e3_s34s := e3_s34.2
  have e4_s36s := e4_s36.2
  have e3_s39s := e3_s39.2
  have e3_s42s := e3_s42.2
  have e4_s44s := e4_s44.2
  have e3_s47s := e3_s47.2
  have e4_s49s := e4_s49.2
  have e4_s52s := e4_s52.2
  have e3_s55s := e3_s55.2
  have e4_s57s := e4_s57.2
  have e4_s60s := e4_s60.2
  simp only [R0, scReduce_load, scReduce_load_safe, val, leFn]
  simp only [e3_s0.1, e4_s2.1, e3_s5.1, e4_s7.1, e4_s10.1, e3_s13.1, e4_s15.1, e3_s18.1, e3_s21.1, e4_s23.1, e3_s26.1, e4_s28.1, e4_s31.1, e3_s34.1, e4_s36.1, e3_s39.1, e3_s42.1, e4_s44.1, e3_s47.1, e4_s49.1, e4_s52.1, e3_s55.1, e4_s57.1, e4_s60.1]
  clear e3_s0 e4_s2 e3_s5 e4_s7 e4_s10 e3_s13 e4_s15 e3_s18 e3_s21 e4_s23 e3_s26 e4_s28 e4_s31 e3_s34 e4_s36 e3_s39 e3_s42 e4_s44 e3_s47 e4_s49 e4_s52 e3_s55 e4_s57 e4_s60
  simp only [e3_s0s, e4_s2s, e3_s5s, e4_s7s, e4_s10s, e3_s13s, e4_s15s, e3_s18s, e3_s21s, e4_s23s, e3_s26s, e4_s28s, e4_s31s, e3_s34s, e4_s36s, e3_s39s, e3_s42s, e4_s44s, e3_s47s, e4_s49s, e4_s52s, e3_s55s, e4_s57s, e4_s60s, true_and]
  simp only [Go.iand, Go.ishr, Nat.reduceAdd, Nat.reduceMul]
  have b0 := hs 0
  have b1 := hs 1
  have b2 := hs 2
  have b3 := hs 3
  have b4 := hs 4
  have b5 := hs 5
  have b6 := hs 6
  have b7 := hs 7
  have b8 := hs 8
  have b9 := hs 9
  have b10 := hs 10
  have b11 := hs 11
  have b12 := hs 12
  have b13 := hs 13
  have b14 := hs 14
  have b15 := hs 15
  have b16 := hs 16
  have b17 := hs 17
  have b18 := hs 18
  have b19 := hs 19
  have b20 := hs 20
  have b21 := hs 21
  have b22 := hs 22
  have b23 := hs 23
  have b24 := hs 24
  have b25 := hs 25
  have b26 := hs 26
  have b27 := hs 27
  have b28 := hs 28
  have b29 := hs 29
  have b30 := hs 30
  have b31 := hs 31
  have b32 := hs 32
  have b33 := hs 33
  have b34 := hs 34
  have b35 := hs 35
  have b36 := hs 36
  have b37 := hs 37
  have b38 := hs 38
  have b39 := hs 39
  have b40 := hs 40
  have b41 := hs 41
  have b42 := hs 42
  have b43 := hs 43
  have b44 := hs 44
  have b45 := hs 45
  have b46 := hs 46
  have b47 := hs 47
  have b48 := hs 48
  have b49 := hs 49
  have b50 := hs 50
  have b51 := hs 51
  have b52 := hs 52
  have b53 := hs 53
  have b54 := hs 54
  have b55 := hs 55
  have b56 := hs 56
  have b57 := hs 57
  have b58 := hs 58
  have b59 := hs 59
  have b60 := hs 60
  have b61 := hs 61
  have b62 := hs 62
  have b63 := hs 63
  and_intros <;> first | trivial | assumption | omega

theorem scReduce_store_spec (l : Limbs) (h : RF l) :
    scReduce_store_safe l ∧ bytesOK (scReduce_store l) ∧ (scReduce_store l).length = 32 ∧ leVal (scReduce_store l) = val l := by
  simp only [RF] at h
  have o0 := ior_ishl (Go.ishr l.s0 16) l.s1 5 (by simp only [Go.ishr]; omega) (by simp only [Go.ishr]; omega) (by omega)
  have o1 := ior_ishl (Go.ishr l.s1 19) l.s2 2 (by simp only [Go.ishr]; omega) (by simp only [Go.ishr]; omega) (by omega)
  have o2 := ior_ishl (Go.ishr l.s2 14) l.s3 7 (by simp only [Go.ishr]; omega) (by simp only [Go.ishr]; omega) (by omega)
  have o3 := ior_ishl (Go.ishr l.s3 17) l.s4 4 (by simp only [Go.ishr]; omega) (by simp only [Go.ishr]; omega) (by omega)
  have o4 := ior_ishl (Go.ishr l.s4 20) l.s5 1 (by simp only [Go.ishr]; omega) (by simp only [Go.ishr]; omega) (by omega)
  have o5 := ior_ishl (Go.ishr l.s5 15) l.s6 6 (by simp only [Go.ishr]; omega) (by simp only [Go.ishr]; omega) (by omega)
  have o6 := ior_ishl (Go.ishr l.s6 18) l.s7 3 (by simp only [Go.ishr]; omega) (by simp only [Go.ishr]; omega) (by omega)
  have o7 := ior_ishl (Go.ishr l.s8 16) l.s9 5 (by simp only [Go.ishr]; omega) (by simp only [Go.ishr]; omega) (by omega)
  have o8 := ior_ishl (Go.ishr l.s9 19) l.s10 2 (by simp only [Go.ishr]; omega) (by simp only [Go.ishr]; omega) (by omega)
  have o9 := ior_ishl (Go.ishr l.s10 14) l.s11 7 (by simp only [Go.ishr]; omega) (by simp only [Go.ishr]; omega) (by omega)
  simp only [scReduce_store, scReduce_store_safe, bytesOK, leVal, List.length, val]
  simp only [o0, o1, o2, o3, o4, o5, o6, o7, o8, o9]
  clear o0 o1 o2 o3 o4 o5 o6 o7 o8 o9
  simp only [Go.toByte, Go.ishr, Go.ishl, Go.inI64]
  and_intros <;> first | trivial | omega

/-- `scReduce` as translated from scalar.go: no int64 operation overflows, the output is 32 bytes, and it is the
little-endian encoding of the canonical representative modulo the group order -/
theorem scReduce_correct (s : Nat → Int) (hs : ∀ i, 0 ≤ s i ∧ s i ≤ 255) :
    scReduce_load_safe s ∧ safeChain scReduce_blocks scReduce_safes (scReduce_load s) ∧
    scReduce_store_safe (scReduce_blocks.foldl (fun l f => f l) (scReduce_load s)) ∧
    bytesOK (scReduce s) ∧ (scReduce s).length = 32 ∧ leVal (scReduce s) = (leFn s 64) % L := by
  simp only [scReduce, scReduce_blocks, scReduce_safes, safeChain, List.foldl]
  generalize hl0 : scReduce_load s = l0
  generalize hl1 : scReduce_b1 l0 = l1
  generalize hl2 : scReduce_b2 l1 = l2
  generalize hl3 : scReduce_b3 l2 = l3
  generalize hl4 : scReduce_b4 l3 = l4
  generalize hl5 : scReduce_b5 l4 = l5
  generalize hl6 : scReduce_b6 l5 = l6
  generalize hl7 : scReduce_b7 l6 = l7
  generalize hl8 : scReduce_b8 l7 = l8
  generalize hl9 : scReduce_b9 l8 = l9
  generalize hl10 : scReduce_b10 l9 = l10
  generalize hl11 : scReduce_b11 l10 = l11
  generalize hl12 : scReduce_b12 l11 = l12
  generalize hl13 : scReduce_b13 l12 = l13
  generalize hl14 : scReduce_b14 l13 = l14
  generalize hl15 : scReduce_b15 l14 = l15
  generalize hl16 : scReduce_b16 l15 = l16
  generalize hl17 : scReduce_b17 l16 = l17
  generalize hl18 : scReduce_b18 l17 = l18
  generalize hl19 : scReduce_b19 l18 = l19
  generalize hl20 : scReduce_b20 l19 = l20
  have h0 := scReduce_load_spec s hs
  rw [hl0] at h0
  obtain ⟨g0, sl, v0⟩ := h0
  have h1 := scReduce_b1_spec l0 g0
  rw [hl1] at h1
  obtain ⟨g1, s1, v1⟩ := h1
  have h2 := scReduce_b2_spec l1 g1
  rw [hl2] at h2
  obtain ⟨g2, s2, v2⟩ := h2
  have h3 := scReduce_b3_spec l2 g2
  rw [hl3] at h3
  obtain ⟨g3, s3, v3⟩ := h3
  have h4 := scReduce_b4_spec l3 g3
  rw [hl4] at h4
  obtain ⟨g4, s4, v4⟩ := h4
  have h5 := scReduce_b5_spec l4 g4
  rw [hl5] at h5
  obtain ⟨g5, s5, v5⟩ := h5
  have h6 := scReduce_b6_spec l5 g5
  rw [hl6] at h6
  obtain ⟨g6, s6, v6⟩ := h6
  have h7 := scReduce_b7_spec l6 g6
  rw [hl7] at h7
  obtain ⟨g7, s7, v7⟩ := h7
  have h8 := scReduce_b8_spec l7 g7
  rw [hl8] at h8
  obtain ⟨g8, s8, v8⟩ := h8
  have h9 := scReduce_b9_spec l8 g8
  rw [hl9] at h9
  obtain ⟨g9, s9, v9⟩ := h9
  have h10 := scReduce_b10_spec l9 g9
  rw [hl10] at h10
  obtain ⟨g10, s10, v10⟩ := h10
  have h11 := scReduce_b11_spec l10 g10
  rw [hl11] at h11
  obtain ⟨g11, s11, v11⟩ := h11
  have h12 := scReduce_b12_spec l11 g11
  rw [hl12] at h12
  obtain ⟨g12, s12, v12⟩ := h12
  have h13 := scReduce_b13_spec l12 g12
  rw [hl13] at h13
  obtain ⟨g13, s13, v13⟩ := h13
  have h14 := scReduce_b14_spec l13 g13
  rw [hl14] at h14
  obtain ⟨g14, s14, v14⟩ := h14
  have h15 := scReduce_b15_spec l14 g14
  rw [hl15] at h15
  obtain ⟨g15, s15, v15⟩ := h15
  have h16 := scReduce_b16_spec l15 g15
  rw [hl16] at h16
  obtain ⟨g16, s16, v16⟩ := h16
  have h17 := scReduce_b17_spec l16 g16
  rw [hl17] at h17
  obtain ⟨g17, s17, v17⟩ := h17
  have h18 := scReduce_b18_spec l17 g17
  rw [hl18] at h18
  obtain ⟨g18, s18, v18⟩ := h18
  have hF := scReduce_final l18 g18
  rw [hl19, hl20] at hF
  obtain ⟨gF, s19, s20, vF, vlo, vhi⟩ := hF
  obtain ⟨ss, sb, sn, sv⟩ := scReduce_store_spec l20 gF
  refine ⟨sl, ⟨s1, s2, s3, s4, s5, s6, s7, s8, s9, s10, s11, s12, s13, s14, s15, s16, s17, s18, s19, s20, trivial⟩, ss, sb, sn, ?_⟩
  rw [sv]
  clear sl ss sb sn sv gF g0 g1 g2 g3 g4 g5 g6 g7 g8 g9 g10 g11 g12 g13 g14 g15 g16 g17 g18 s1 s2 s3 s4 s5 s6 s7 s8 s9 s10 s11 s12 s13 s14 s15 s16 s17 s18 s19 s20 hl0 hl1 hl2 hl3 hl4 hl5 hl6 hl7 hl8 hl9 hl10 hl11 hl12 hl13 hl14 hl15 hl16 hl17 hl18 hl19 hl20
  simp only [L] at *
  omega

end PatVerif.Proofs.ScReduce
