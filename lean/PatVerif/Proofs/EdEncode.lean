import Mathlib.Data.ZMod.Basic
import Mathlib.Tactic.Ring
import Mathlib.Tactic.FieldSimp
import PatVerif.Proofs.FeInv
import PatVerif.Proofs.EdRefBridge
import PatVerif.Proofs.EdRefGroup
/-!
# The Go point encoder and the RFC 8032 reference encoder write the same 32 bytes for the same group element

`encodeEd g` is the canonical number `y + 2^255 · (x mod 2)` of a group element `g = (x, y)`. The reference encoder
(`Exec.Ed25519.Point.encode`, which inverts `Z` by Fermat with the square-and-multiply `modPow`) and the translated Go encoder
(`Generated.EdPoints.Point_bytes`) both write the 32-byte little-endian encoding of `encodeEd g` when their inputs stand for `g`.
-/
namespace PatVerif.Proofs.EdEncode
open PatVerif PatVerif.Generated PatVerif.Generated.FeLimbs PatVerif.Generated.EdPoints PatVerif.Proofs.FeHelp PatVerif.Proofs.FeField
  PatVerif.Proofs.EdPoints PatVerif.Proofs.EdComplete PatVerif.Proofs.EdGroup PatVerif.Proofs.EdRefBridge PatVerif.Proofs.FeInv
  PatVerif.Proofs.EdRefGroup

/-! ## 1. `modPow` is the power in `ZMod m` -/

/-- invariant of the square-and-multiply loop -/
theorem modPowAux_cast (m : ℕ) : ∀ (fuel b e acc : ℕ), e < 2 ^ fuel →
    ((Exec.Ed25519.modPowAux m fuel b e acc : ℕ) : ZMod m) = (acc : ZMod m) * (b : ZMod m) ^ e := by
  intro fuel
  induction fuel with
  | zero =>
    intro b e acc he
    have : e = 0 := by simpa using he
    subst this
    simp [Exec.Ed25519.modPowAux]
  | succ n ih =>
    intro b e acc he
    unfold Exec.Ed25519.modPowAux
    split
    · next h0 => subst h0; simp
    · next h0 =>
      have he2 : e / 2 < 2 ^ n := by rw [pow_succ] at he; omega
      rw [ih _ _ _ he2, ZMod.natCast_mod, Nat.cast_mul]
      split
      · next h1 =>
        have hk : e = 2 * (e / 2) + 1 := by omega
        rw [ZMod.natCast_mod, Nat.cast_mul]
        generalize e / 2 = k at hk
        subst hk
        rw [pow_succ, pow_mul, pow_two]
        ring
      · next h1 =>
        have hk : e = 2 * (e / 2) := by omega
        generalize e / 2 = k at hk
        subst hk
        rw [pow_mul, pow_two]

theorem modPow_cast (b e m : ℕ) (_hm : 1 < m) : ((Exec.Ed25519.modPow b e m : ℕ) : ZMod m) = (b : ZMod m) ^ e := by
  unfold Exec.Ed25519.modPow
  rw [modPowAux_cast m _ _ _ _ Nat.lt_log2_self, ZMod.natCast_mod, ZMod.natCast_mod, Nat.cast_one, one_mul]

/-! ## 2. `modInv · p` is the inverse of the field -/

theorem modInv_cast (a : ℕ) : ((Exec.Ed25519.modInv a Exec.Ed25519.p : ℕ) : F) = ((a : ℕ) : F)⁻¹ := by
  unfold Exec.Ed25519.modInv
  rw [p_eq, modPow_cast _ _ P (by decide)]
  exact pow_pm2 _

/-! ## 3. the canonical encoding and the reference encoder -/

/-- the canonical encoding of a group element `(x, y)`: `y` with the parity of `x` in bit 255 -/
def encodeEd (g : EdPoint) : ℕ := g.1.2.val + 2 ^ 255 * (g.1.1.val % 2)

theorem toNat_ofNat_mod (v : ℕ) : (UInt8.ofNat (v % 256)).toNat = v % 256 := by
  simp

theorem leNat_leBytes_mod (n v : ℕ) : Exec.Ed25519.leNat (Exec.Ed25519.leBytes n v) = v % 256 ^ n := by
  induction n generalizing v with
  | zero => simp [Exec.Ed25519.leBytes, Exec.Ed25519.leNat, Nat.mod_one]
  | succ n ih =>
    simp only [Exec.Ed25519.leBytes, Exec.Ed25519.leNat]
    rw [ih, toNat_ofNat_mod, Nat.pow_succ', Nat.mod_mul]

theorem leNat_leBytes (n v : ℕ) (h : v < 256 ^ n) : Exec.Ed25519.leNat (Exec.Ed25519.leBytes n v) = v := by
  rw [leNat_leBytes_mod, Nat.mod_eq_of_lt h]

/-- a reduced residue is the `val` of its cast -/
theorem val_of_cast {n : ℕ} {a : F} (h : ((n % Exec.Ed25519.p : ℕ) : F) = a) : n % Exec.Ed25519.p = a.val := by
  rw [← h, ZMod.val_natCast, p_eq, Nat.mod_mod]

theorem val_lt_P (a : F) : a.val < P := ZMod.val_lt a

theorem encodeEd_lt (g : EdPoint) : encodeEd g < 256 ^ 32 := by
  have h1 : g.1.2.val < 57896044618658097711785492504343953926634992332820282019728792003956564819949 := val_lt_P g.1.2
  have h2 : g.1.1.val % 2 < 2 := Nat.mod_lt _ (by decide)
  unfold encodeEd
  norm_num
  omega

/-- the reference affine coordinates are the `val`s of the coordinates of the group element -/
theorem affine_ref (e : Exec.Ed25519.Point) (g : EdPoint) (h : ReprRef e g) : e.affine = (g.1.1.val, g.1.2.val) := by
  obtain ⟨_, _, _, ha⟩ := h
  have hx : (e.X : F) / (e.Z : F) = g.1.1 := congrArg Prod.fst ha
  have hy : (e.Y : F) / (e.Z : F) = g.1.2 := congrArg Prod.snd ha
  simp only [Exec.Ed25519.Point.affine]
  rw [val_of_cast (a := g.1.1) (by rw [cast_mod, Nat.cast_mul, modInv_cast, ← div_eq_mul_inv, hx]),
    val_of_cast (a := g.1.2) (by rw [cast_mod, Nat.cast_mul, modInv_cast, ← div_eq_mul_inv, hy])]

theorem encode_eq (e : Exec.Ed25519.Point) (g : EdPoint) (h : ReprRef e g) : e.encode = Exec.Ed25519.leBytes 32 (encodeEd g) := by
  simp only [Exec.Ed25519.Point.encode, affine_ref e g h, encodeEd]

/-- **the reference encoder writes the canonical encoding** -/
theorem encode_ref (e : Exec.Ed25519.Point) (g : EdPoint) (h : ReprRef e g) :
    Exec.Ed25519.leNat e.encode = encodeEd g ∧ e.encode.length = 32 := by
  rw [encode_eq e g h]
  exact ⟨leNat_leBytes _ _ (encodeEd_lt g), Exec.Ed25519.leBytes_length _ _⟩

/-! ## 4. the translated Go encoder -/

/-- **the translated Go encoder writes the canonical encoding** (with the byte-range facts) -/
theorem encode_go' (q : Point) (buf : List Nat) (g : EdPoint) (h : EdRepr.ReprP3 q g) :
    (Point_bytes q buf).length = 32 ∧ (∀ i, i < 32 → (Point_bytes q buf).getD i 0 < 256) ∧
    FeBytes.leN (fun i => (Point_bytes q buf).getD i 0) 32 = encodeEd g := by
  obtain ⟨x, y, ex, ey, hl, hb, he⟩ := Point_bytes_affine q buf h.1.1
  have hx : fv q.x / fv q.z = g.1.1 := congrArg Prod.fst h.2
  have hy : fv q.y / fv q.z = g.1.2 := congrArg Prod.snd h.2
  refine ⟨hl, hb, ?_⟩
  rw [he]
  have vx : val x % P = g.1.1.val := by rw [← hx, ← ex]; unfold fv; rw [ZMod.val_natCast]
  have vy : val y % P = g.1.2.val := by rw [← hy, ← ey]; unfold fv; rw [ZMod.val_natCast]
  rw [vx, vy]
  unfold encodeEd
  rw [Nat.mul_comm]
  norm_num

theorem encode_go (q : Point) (buf : List Nat) (g : EdPoint) (h : EdRepr.ReprP3 q g) :
    FeBytes.leN (fun i => (Point_bytes q buf).getD i 0) 32 = encodeEd g := (encode_go' q buf g h).2.2

/-! ## 5. the two encoders write the same bytes -/

/-- `leN` peeled from the least significant byte -/
theorem leN_shift (f : ℕ → ℕ) (n : ℕ) : FeBytes.leN f (n + 1) = f 0 + 256 * FeBytes.leN (fun i => f (i + 1)) n := by
  induction n with
  | zero => simp [FeBytes.leN]
  | succ n ih =>
    rw [FeBytes.leN, ih, FeBytes.leN]
    have : 2 ^ (8 * (n + 1)) = 256 * 2 ^ (8 * n) := by
      rw [show 8 * (n + 1) = 8 + 8 * n by omega, Nat.pow_add]
    rw [this]
    ring

/-- the little-endian value of a byte string, entry by entry -/
theorem leNat_eq_leN (bs : Bytes) : Exec.Ed25519.leNat bs = FeBytes.leN (fun i => (bs.getD i 0).toNat) bs.length := by
  induction bs with
  | nil => simp [Exec.Ed25519.leNat, FeBytes.leN]
  | cons b bs ih =>
    rw [List.length_cons, leN_shift, Exec.Ed25519.leNat, ih]
    simp only [List.getD_cons_zero, List.getD_cons_succ]

/-- **the two encoders write the same byte values**: a Go point and a reference point standing for the same group element are
encoded to the same 32 bytes -/
theorem encode_agree (q : Point) (buf : List Nat) (e : Exec.Ed25519.Point) (g : EdPoint) (hq : EdRepr.ReprP3 q g) (he : ReprRef e g) :
    ∀ i, i < 32 → (Point_bytes q buf).getD i 0 = (e.encode.getD i 0).toNat := by
  obtain ⟨_, hb, hv⟩ := encode_go' q buf g hq
  obtain ⟨rv, rl⟩ := encode_ref e g he
  rw [leNat_eq_leN, rl] at rv
  exact FeBytes.leN_inj _ _ 32 hb (fun i _ => UInt8.toNat_lt _) (hv.trans rv.symm)

/-- the same, as an equality of lists -/
theorem encode_agree_list (q : Point) (buf : List Nat) (e : Exec.Ed25519.Point) (g : EdPoint) (hq : EdRepr.ReprP3 q g) (he : ReprRef e g) :
    Point_bytes q buf = e.encode.map UInt8.toNat := by
  obtain ⟨hl, _, _⟩ := encode_go' q buf g hq
  obtain ⟨_, rl⟩ := encode_ref e g he
  apply FeBytes.list_ext_getD _ _ (by rw [hl, List.length_map, rl])
  intro i hi
  rw [hl] at hi
  rw [encode_agree q buf e g hq he i hi]
  simp only [List.getD_eq_getElem?_getD, List.getElem?_map]
  rw [List.getElem?_eq_getElem (by rw [rl]; exact hi)]
  rfl

open PatVerif.Model.Recode PatVerif.Model.ScalarMultLit in
/-- **`scalarMult_bytes_agree`**: for every scalar `s` the Go code can hold, a Go point `q` and a reference point `e` standing for the same
group element `g`, the bytes the translated Go pipeline (recoding, the `ScalarMult` loop over the translated formulas, `Point.bytes`)
writes are the bytes of the reference `(Point.mul (leNat s) e).encode`; both are the canonical encoding of `(leNat s) • g` -/
theorem scalarMult_bytes_agree (s : List Nat) (hs : PatVerif.Proofs.Recode.IsScalar s) (q : Point) (e : Exec.Ed25519.Point) (g : EdPoint)
    (hq : EdRepr.ReprP3 q g) (he : ReprRef e g) (buf : List Nat) :
    ∃ ds, signedRadix16 s = some ds ∧
      Point_bytes (scalarMult ds q) buf = ((Exec.Ed25519.Point.mul (leNat s) e).encode).map UInt8.toNat ∧
      (∀ i, i < 32 → (Point_bytes (scalarMult ds q) buf).getD i 0 = (((Exec.Ed25519.Point.mul (leNat s) e).encode).getD i 0).toNat) ∧
      Exec.Ed25519.leNat (Exec.Ed25519.Point.mul (leNat s) e).encode = encodeEd ((leNat s : ℤ) • g) := by
  obtain ⟨ds, hd, hr, hm, _⟩ := scalarMult_agrees s hs q e g hq he
  exact ⟨ds, hd, encode_agree_list _ buf _ _ hr hm, encode_agree _ buf _ _ hr hm, (encode_ref _ _ hm).1⟩

end PatVerif.Proofs.EdEncode
