import Mathlib.Tactic.LinearCombination
import Mathlib.Tactic.FieldSimp
import Mathlib.Tactic.Ring
import Mathlib.Algebra.Field.Basic

/-!
Associativity of the affine a = −1 twisted-Edwards addition law over an arbitrary field,
under the completeness hypothesis.  Polynomial certificates were computed with sympy
(`reduced` of the cleared-denominator numerator differences modulo the three curve equations).
-/

namespace PatVerif.Proofs.EdAssoc
variable {K : Type*} [Field K]

/-- the curve −x² + y² = 1 + d x²y²  (a = −1 twisted Edwards) -/
def OnCurve (d : K) (x y : K) : Prop := y * y - x * x = 1 + d * x * x * y * y

/-- the affine twisted-Edwards sum -/
def edAdd (d : K) (P Q : K × K) : K × K :=
  ((P.1 * Q.2 + P.2 * Q.1) / (1 + d * P.1 * Q.1 * P.2 * Q.2), (P.2 * Q.2 + P.1 * Q.1) / (1 - d * P.1 * Q.1 * P.2 * Q.2))

/-- completeness hypothesis (proved elsewhere for edwards25519: d is a non-square, −1 is a square) -/
def Complete (d : K) : Prop :=
  ∀ x1 y1 x2 y2 : K, OnCurve d x1 y1 → OnCurve d x2 y2 → 1 + d * x1 * x2 * y1 * y2 ≠ 0 ∧ 1 - d * x1 * x2 * y1 * y2 ≠ 0

/-! ### Cleared-denominator polynomial identities -/

theorem closure_poly (d x1 y1 x2 y2 : K)
    (h1 : y1 * y1 - x1 * x1 = 1 + d * x1 * x1 * y1 * y1)
    (h2 : y2 * y2 - x2 * x2 = 1 + d * x2 * x2 * y2 * y2) :
    (y1 * y2 + x1 * x2) * (y1 * y2 + x1 * x2) * ((1 + d * x1 * x2 * y1 * y2) * (1 + d * x1 * x2 * y1 * y2)) - (x1 * y2 + y1 * x2) * (x1 * y2 + y1 * x2) * ((1 - d * x1 * x2 * y1 * y2) * (1 - d * x1 * x2 * y1 * y2))
      = (1 + d * x1 * x2 * y1 * y2) * (1 + d * x1 * x2 * y1 * y2) * ((1 - d * x1 * x2 * y1 * y2) * (1 - d * x1 * x2 * y1 * y2)) + d * (x1 * y2 + y1 * x2) * (x1 * y2 + y1 * x2) * (y1 * y2 + x1 * x2) * (y1 * y2 + x1 * x2) := by
  linear_combination (d^3*x1^2*x2^4*y1^2*y2^4 - d^2*x1^2*x2^4*y2^4 + d^2*x2^4*y1^2*y2^4 - d^2*x2^4*y2^4 - d*x1^2*x2^4*y2^2 + d*x1^2*x2^2*y2^4 + d*x2^4*y1^2*y2^2 - 2*d*x2^4*y2^4 - d*x2^2*y1^2*y2^4 - 2*d*x2^2*y2^2 - 2*x2^4*y2^2 + x2^4 + 2*x2^2*y2^4 - 4*x2^2*y2^2 + y2^4) * h1 + (d*x1^4*x2^2*y2^2 + 2*d*x1^2*x2^2*y2^2 + d*x2^2*y1^4*y2^2 - 2*d*x2^2*y1^2*y2^2 + d*x2^2*y2^2 + 2*x1^2*x2^2*y2^2 - x1^2*x2^2 + x1^2*y2^2 - 2*x2^2*y1^2*y2^2 + x2^2*y1^2 + 2*x2^2*y2^2 - x2^2 - y1^2*y2^2 + y2^2 + 1) * h2

set_option maxHeartbeats 4000000 in
theorem assoc_x_poly (d x1 y1 x2 y2 x3 y3 : K)
    (h1 : y1 * y1 - x1 * x1 = 1 + d * x1 * x1 * y1 * y1)
    (h2 : y2 * y2 - x2 * x2 = 1 + d * x2 * x2 * y2 * y2)
    (h3 : y3 * y3 - x3 * x3 = 1 + d * x3 * x3 * y3 * y3) :
    ((x1 * y2 + y1 * x2) * (1 - d * x1 * x2 * y1 * y2) * y3 + (y1 * y2 + x1 * x2) * (1 + d * x1 * x2 * y1 * y2) * x3) * ((1 + d * x2 * x3 * y2 * y3) * (1 - d * x2 * x3 * y2 * y3) + d * x1 * y1 * (x2 * y3 + y2 * x3) * (y2 * y3 + x2 * x3))
      = (x1 * (y2 * y3 + x2 * x3) * (1 + d * x2 * x3 * y2 * y3) + y1 * (x2 * y3 + y2 * x3) * (1 - d * x2 * x3 * y2 * y3)) * ((1 + d * x1 * x2 * y1 * y2) * (1 - d * x1 * x2 * y1 * y2) + d * (x1 * y2 + y1 * x2) * (y1 * y2 + x1 * x2) * x3 * y3) := by
  linear_combination (-d^2*x1*x2^4*x3^2*y2^3*y3 - d^2*x1*x2^3*x3*y2^4*y3^2 + d^2*x2^4*x3*y1*y2^3*y3^2 + d^2*x2^3*x3^2*y1*y2^4*y3 - d*x1*x2^4*x3^2*y2*y3 - d*x1*x2^3*x3^3*y2^2 - d*x1*x2^3*x3*y2^2 + d*x1*x2^2*y2^3*y3^3 - d*x1*x2^2*y2^3*y3 + d*x1*x2*x3*y2^4*y3^2 + d*x2^4*x3*y1*y2*y3^2 + d*x2^3*y1*y2^2*y3^3 - d*x2^3*y1*y2^2*y3 - d*x2^2*x3^3*y1*y2^3 - d*x2^2*x3*y1*y2^3 - d*x2*x3^2*y1*y2^4*y3) * h1 + (d^2*x1^2*x2^2*x3^3*y1*y2*y3^2 - d^2*x1^2*x2*x3^2*y1*y2^2*y3^3 - d^2*x1*x2^2*x3^2*y1^2*y2*y3^3 + d^2*x1*x2*x3^3*y1^2*y2^2*y3^2 + d*x1^3*x2^2*x3^2*y2*y3 + d*x1^3*x2*x3^3*y3^2 + d*x1^3*x2*x3*y2^2*y3^2 + d*x1^3*x3^2*y2*y3^3 - d*x1^2*x2^2*x3*y1*y2*y3^2 - d*x1^2*x2*x3^2*y1*y2^2*y3 + d*x1^2*x2*x3^2*y1*y3^3 + d*x1^2*x3^3*y1*y2*y3^2 - d*x1*x2^2*x3^2*y1^2*y2*y3 + d*x1*x2^2*x3^2*y2*y3 - d*x1*x2*x3^3*y1^2*y3^2 + d*x1*x2*x3^3*y3^2 - d*x1*x2*x3*y1^2*y2^2*y3^2 + d*x1*x2*x3*y2^2*y3^2 - d*x1*x3^2*y1^2*y2*y3^3 + d*x1*x3^2*y2*y3^3 + d*x2^2*x3*y1^3*y2*y3^2 - d*x2^2*x3*y1*y2*y3^2 + d*x2*x3^2*y1^3*y2^2*y3 - d*x2*x3^2*y1^3*y3^3 - d*x2*x3^2*y1*y2^2*y3 + d*x2*x3^2*y1*y3^3 - d*x3^3*y1^3*y2*y3^2 + d*x3^3*y1*y2*y3^2 + x1^3*x2*x3^3 - x1^3*x2*x3*y3^2 + x1^3*x2*x3 + x1^3*x3^2*y2*y3 - x1^3*y2*y3^3 + x1^3*y2*y3 + x1^2*x2*x3^2*y1*y3 - x1^2*x2*y1*y3^3 + x1^2*x2*y1*y3 + x1^2*x3^3*y1*y2 - x1^2*x3*y1*y2*y3^2 + x1^2*x3*y1*y2 - x1*x2*x3^3*y1^2 + x1*x2*x3^3 + x1*x2*x3*y1^2*y3^2 - x1*x2*x3*y1^2 - x1*x2*x3*y3^2 + x1*x2*x3 - x1*x3^2*y1^2*y2*y3 + x1*x3^2*y2*y3 + x1*y1^2*y2*y3^3 - x1*y1^2*y2*y3 - x1*y2*y3^3 + x1*y2*y3 - x2*x3^2*y1^3*y3 + x2*x3^2*y1*y3 + x2*y1^3*y3^3 - x2*y1^3*y3 - x2*y1*y3^3 + x2*y1*y3 - x3^3*y1^3*y2 + x3^3*y1*y2 + x3*y1^3*y2*y3^2 - x3*y1^3*y2 - x3*y1*y2*y3^2 + x3*y1*y2) * h2 + (-d*x1^2*x2^2*x3*y1*y2 + d*x1^2*x2*y1*y2^2*y3 + d*x1*x2^2*y1^2*y2*y3 - d*x1*x2*x3*y1^2*y2^2 - x1^3*x2^3*x3 - x1^3*x2^2*y2*y3 + x1^3*x2*x3*y2^2 - x1^3*x2*x3 + x1^3*y2^3*y3 - x1^3*y2*y3 - x1^2*x2^3*y1*y3 - x1^2*x2^2*x3*y1*y2 + x1^2*x2*y1*y2^2*y3 - x1^2*x2*y1*y3 + x1^2*x3*y1*y2^3 - x1^2*x3*y1*y2 + x1*x2^3*x3*y1^2 - x1*x2^3*x3 + x1*x2^2*y1^2*y2*y3 - x1*x2^2*y2*y3 - x1*x2*x3*y1^2*y2^2 + x1*x2*x3*y1^2 + x1*x2*x3*y2^2 - x1*x2*x3 - x1*y1^2*y2^3*y3 + x1*y1^2*y2*y3 + x1*y2^3*y3 - x1*y2*y3 + x2^3*y1^3*y3 - x2^3*y1*y3 + x2^2*x3*y1^3*y2 - x2^2*x3*y1*y2 - x2*y1^3*y2^2*y3 + x2*y1^3*y3 + x2*y1*y2^2*y3 - x2*y1*y3 - x3*y1^3*y2^3 + x3*y1^3*y2 + x3*y1*y2^3 - x3*y1*y2) * h3

set_option maxHeartbeats 4000000 in
theorem assoc_y_poly (d x1 y1 x2 y2 x3 y3 : K)
    (h1 : y1 * y1 - x1 * x1 = 1 + d * x1 * x1 * y1 * y1)
    (h2 : y2 * y2 - x2 * x2 = 1 + d * x2 * x2 * y2 * y2)
    (h3 : y3 * y3 - x3 * x3 = 1 + d * x3 * x3 * y3 * y3) :
    ((y1 * y2 + x1 * x2) * (1 + d * x1 * x2 * y1 * y2) * y3 + (x1 * y2 + y1 * x2) * (1 - d * x1 * x2 * y1 * y2) * x3) * ((1 + d * x2 * x3 * y2 * y3) * (1 - d * x2 * x3 * y2 * y3) - d * x1 * y1 * (x2 * y3 + y2 * x3) * (y2 * y3 + x2 * x3))
      = (y1 * (y2 * y3 + x2 * x3) * (1 + d * x2 * x3 * y2 * y3) + x1 * (x2 * y3 + y2 * x3) * (1 - d * x2 * x3 * y2 * y3)) * ((1 + d * x1 * x2 * y1 * y2) * (1 - d * x1 * x2 * y1 * y2) - d * (x1 * y2 + y1 * x2) * (y1 * y2 + x1 * x2) * x3 * y3) := by
  linear_combination (d^2*x1*x2^4*x3*y2^3*y3^2 + d^2*x1*x2^3*x3^2*y2^4*y3 - d^2*x2^4*x3^2*y1*y2^3*y3 - d^2*x2^3*x3*y1*y2^4*y3^2 + d*x1*x2^4*x3*y2*y3^2 + d*x1*x2^3*y2^2*y3^3 - d*x1*x2^3*y2^2*y3 - d*x1*x2^2*x3^3*y2^3 - d*x1*x2^2*x3*y2^3 - d*x1*x2*x3^2*y2^4*y3 - d*x2^4*x3^2*y1*y2*y3 - d*x2^3*x3^3*y1*y2^2 - d*x2^3*x3*y1*y2^2 + d*x2^2*y1*y2^3*y3^3 - d*x2^2*y1*y2^3*y3 + d*x2*x3*y1*y2^4*y3^2) * h1 + (d^2*x1^2*x2^2*x3^2*y1*y2*y3^3 - d^2*x1^2*x2*x3^3*y1*y2^2*y3^2 - d^2*x1*x2^2*x3^3*y1^2*y2*y3^2 + d^2*x1*x2*x3^2*y1^2*y2^2*y3^3 - d*x1^3*x2^2*x3*y2*y3^2 - d*x1^3*x2*x3^2*y2^2*y3 + d*x1^3*x2*x3^2*y3^3 + d*x1^3*x3^3*y2*y3^2 + d*x1^2*x2^2*x3^2*y1*y2*y3 + d*x1^2*x2*x3^3*y1*y3^2 + d*x1^2*x2*x3*y1*y2^2*y3^2 + d*x1^2*x3^2*y1*y2*y3^3 + d*x1*x2^2*x3*y1^2*y2*y3^2 - d*x1*x2^2*x3*y2*y3^2 + d*x1*x2*x3^2*y1^2*y2^2*y3 - d*x1*x2*x3^2*y1^2*y3^3 - d*x1*x2*x3^2*y2^2*y3 + d*x1*x2*x3^2*y3^3 - d*x1*x3^3*y1^2*y2*y3^2 + d*x1*x3^3*y2*y3^2 - d*x2^2*x3^2*y1^3*y2*y3 + d*x2^2*x3^2*y1*y2*y3 - d*x2*x3^3*y1^3*y3^2 + d*x2*x3^3*y1*y3^2 - d*x2*x3*y1^3*y2^2*y3^2 + d*x2*x3*y1*y2^2*y3^2 - d*x3^2*y1^3*y2*y3^3 + d*x3^2*y1*y2*y3^3 + x1^3*x2*x3^2*y3 - x1^3*x2*y3^3 + x1^3*x2*y3 + x1^3*x3^3*y2 - x1^3*x3*y2*y3^2 + x1^3*x3*y2 + x1^2*x2*x3^3*y1 - x1^2*x2*x3*y1*y3^2 + x1^2*x2*x3*y1 + x1^2*x3^2*y1*y2*y3 - x1^2*y1*y2*y3^3 + x1^2*y1*y2*y3 - x1*x2*x3^2*y1^2*y3 + x1*x2*x3^2*y3 + x1*x2*y1^2*y3^3 - x1*x2*y1^2*y3 - x1*x2*y3^3 + x1*x2*y3 - x1*x3^3*y1^2*y2 + x1*x3^3*y2 + x1*x3*y1^2*y2*y3^2 - x1*x3*y1^2*y2 - x1*x3*y2*y3^2 + x1*x3*y2 - x2*x3^3*y1^3 + x2*x3^3*y1 + x2*x3*y1^3*y3^2 - x2*x3*y1^3 - x2*x3*y1*y3^2 + x2*x3*y1 - x3^2*y1^3*y2*y3 + x3^2*y1*y2*y3 + y1^3*y2*y3^3 - y1^3*y2*y3 - y1*y2*y3^3 + y1*y2*y3) * h2 + (-d*x1^2*x2^2*y1*y2*y3 + d*x1^2*x2*x3*y1*y2^2 + d*x1*x2^2*x3*y1^2*y2 - d*x1*x2*y1^2*y2^2*y3 - x1^3*x2^3*y3 - x1^3*x2^2*x3*y2 + x1^3*x2*y2^2*y3 - x1^3*x2*y3 + x1^3*x3*y2^3 - x1^3*x3*y2 - x1^2*x2^3*x3*y1 - x1^2*x2^2*y1*y2*y3 + x1^2*x2*x3*y1*y2^2 - x1^2*x2*x3*y1 + x1^2*y1*y2^3*y3 - x1^2*y1*y2*y3 + x1*x2^3*y1^2*y3 - x1*x2^3*y3 + x1*x2^2*x3*y1^2*y2 - x1*x2^2*x3*y2 - x1*x2*y1^2*y2^2*y3 + x1*x2*y1^2*y3 + x1*x2*y2^2*y3 - x1*x2*y3 - x1*x3*y1^2*y2^3 + x1*x3*y1^2*y2 + x1*x3*y2^3 - x1*x3*y2 + x2^3*x3*y1^3 - x2^3*x3*y1 + x2^2*y1^3*y2*y3 - x2^2*y1*y2*y3 - x2*x3*y1^3*y2^2 + x2*x3*y1^3 + x2*x3*y1*y2^2 - x2*x3*y1 - y1^3*y2^3*y3 + y1^3*y2*y3 + y1*y2^3*y3 - y1*y2*y3) * h3

/-! ### Field-level wrappers (denominators abstracted to atoms so that `field_simp` clears them) -/

theorem closure_frac (d p q A B : K) (hA : A ≠ 0) (hB : B ≠ 0)
    (h : p * p * (A * A) - q * q * (B * B) = A * A * (B * B) + d * q * q * p * p) :
    (p / B) * (p / B) - (q / A) * (q / A) = 1 + d * (q / A) * (q / A) * (p / B) * (p / B) := by
  field_simp
  linear_combination h

theorem assoc_x_frac (d x1 y1 x3 y3 q12 p12 A12 B12 q23 p23 A23 B23 : K)
    (hA12 : A12 ≠ 0) (hB12 : B12 ≠ 0) (hA23 : A23 ≠ 0) (hB23 : B23 ≠ 0)
    (hL : 1 + d * (q12 / A12) * x3 * (p12 / B12) * y3 ≠ 0) (hR : 1 + d * x1 * (q23 / A23) * y1 * (p23 / B23) ≠ 0)
    (h : (q12 * B12 * y3 + p12 * A12 * x3) * (A23 * B23 + d * x1 * y1 * q23 * p23)
      = (x1 * p23 * A23 + y1 * q23 * B23) * (A12 * B12 + d * q12 * p12 * x3 * y3)) :
    ((q12 / A12) * y3 + (p12 / B12) * x3) / (1 + d * (q12 / A12) * x3 * (p12 / B12) * y3)
      = (x1 * (p23 / B23) + y1 * (q23 / A23)) / (1 + d * x1 * (q23 / A23) * y1 * (p23 / B23)) := by
  rw [div_eq_div_iff hL hR]
  field_simp
  linear_combination h

theorem assoc_y_frac (d x1 y1 x3 y3 q12 p12 A12 B12 q23 p23 A23 B23 : K)
    (hA12 : A12 ≠ 0) (hB12 : B12 ≠ 0) (hA23 : A23 ≠ 0) (hB23 : B23 ≠ 0)
    (hL : 1 - d * (q12 / A12) * x3 * (p12 / B12) * y3 ≠ 0) (hR : 1 - d * x1 * (q23 / A23) * y1 * (p23 / B23) ≠ 0)
    (h : (p12 * A12 * y3 + q12 * B12 * x3) * (A23 * B23 - d * x1 * y1 * q23 * p23)
      = (y1 * p23 * A23 + x1 * q23 * B23) * (A12 * B12 - d * q12 * p12 * x3 * y3)) :
    ((p12 / B12) * y3 + (q12 / A12) * x3) / (1 - d * (q12 / A12) * x3 * (p12 / B12) * y3)
      = (y1 * (p23 / B23) + x1 * (q23 / A23)) / (1 - d * x1 * (q23 / A23) * y1 * (p23 / B23)) := by
  rw [div_eq_div_iff hL hR]
  field_simp
  linear_combination h

/-! ### The group-law statements -/

theorem edAdd_on_curve (d : K) (hc : Complete d) (P Q : K × K) (hP : OnCurve d P.1 P.2) (hQ : OnCurve d Q.1 Q.2) :
    OnCurve d (edAdd d P Q).1 (edAdd d P Q).2 := by
  obtain ⟨x1, y1⟩ := P
  obtain ⟨x2, y2⟩ := Q
  obtain ⟨hA, hB⟩ := hc x1 y1 x2 y2 hP hQ
  exact closure_frac d _ _ _ _ hA hB (closure_poly d x1 y1 x2 y2 hP hQ)

theorem edAdd_comm (d : K) (P Q : K × K) : edAdd d P Q = edAdd d Q P := by
  obtain ⟨x1, y1⟩ := P
  obtain ⟨x2, y2⟩ := Q
  simp only [edAdd]
  refine Prod.ext ?_ ?_ <;> ring

theorem edAdd_zero (d : K) (P : K × K) : edAdd d P (0, 1) = P := by
  obtain ⟨x1, y1⟩ := P
  simp [edAdd]

theorem edAdd_neg (d : K) (hc : Complete d) (P : K × K) (hP : OnCurve d P.1 P.2) : edAdd d P (-P.1, P.2) = (0, 1) := by
  obtain ⟨x1, y1⟩ := P
  have hN : OnCurve d (-x1) y1 := by
    simp only [OnCurve] at hP ⊢
    linear_combination hP
  obtain ⟨hA, hB⟩ := hc x1 y1 (-x1) y1 hP hN
  simp only [OnCurve] at hP
  simp only [edAdd]
  refine Prod.ext ?_ ?_
  · show (x1 * y1 + y1 * -x1) / (1 + d * x1 * -x1 * y1 * y1) = 0
    rw [div_eq_zero_iff]; left; ring
  · show (y1 * y1 + x1 * -x1) / (1 - d * x1 * -x1 * y1 * y1) = 1
    rw [div_eq_one_iff_eq hB]
    linear_combination hP

/-- THE MAIN RESULT -/
theorem edAdd_assoc (d : K) (hc : Complete d) (P Q R : K × K)
    (hP : OnCurve d P.1 P.2) (hQ : OnCurve d Q.1 Q.2) (hR : OnCurve d R.1 R.2) :
    edAdd d (edAdd d P Q) R = edAdd d P (edAdd d Q R) := by
  have hPQ := edAdd_on_curve d hc P Q hP hQ
  have hQR := edAdd_on_curve d hc Q R hQ hR
  obtain ⟨hL1, hL2⟩ := hc _ _ _ _ hPQ hR
  obtain ⟨hR1, hR2⟩ := hc _ _ _ _ hP hQR
  obtain ⟨x1, y1⟩ := P
  obtain ⟨x2, y2⟩ := Q
  obtain ⟨x3, y3⟩ := R
  obtain ⟨hA12, hB12⟩ := hc x1 y1 x2 y2 hP hQ
  obtain ⟨hA23, hB23⟩ := hc x2 y2 x3 y3 hQ hR
  refine Prod.ext ?_ ?_
  · exact assoc_x_frac d x1 y1 x3 y3 _ _ _ _ _ _ _ _ hA12 hB12 hA23 hB23 hL1 hR1
      (assoc_x_poly d x1 y1 x2 y2 x3 y3 hP hQ hR)
  · exact assoc_y_frac d x1 y1 x3 y3 _ _ _ _ _ _ _ _ hA12 hB12 hA23 hB23 hL2 hR2
      (assoc_y_poly d x1 y1 x2 y2 x3 y3 hP hQ hR)

end PatVerif.Proofs.EdAssoc
