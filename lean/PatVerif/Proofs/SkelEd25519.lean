import PatVerif.Generated.Skeletons
/-!
# The Ed25519 fork's top level, statement by statement (C14, C15)

`Exec/Ed25519.lean` is the hand-written RFC 8032 reference for `ed25519/ed25519.go`: key derivation (SHA-512, clamping, `A = [s]B`),
`signInternal` (`r = H(prefix ‖ M)`, `R = [r]B`, `k = H(R ‖ A ‖ M)`, `S = k·s + r`), `Verify` (length checks, decode `A`, canonical
`S`, `R' = [S]B − [k]A`, byte comparison with `R`), key blinding (`SHA-512(blind ‖ 0x00 ‖ context)[:32]` as a scalar, multiplied
into the key; unblinding with its inverse; blinded signing with `s·b` and a prefix derived from both). The arithmetic below this
level is translated and proved (`Generated/ScLimbs`, `FeLimbs`, `EdPoints`); this file pins the glue: every statement, condition
and return of the eight functions as text, in source order, compared with what the reference was written against.
-/
namespace PatVerif.Proofs.SkelEd25519

/-- ed25519: .GenerateKey -/
def expected_ed_GenerateKey : List String :=
  ["if rand == nil {",
   "stmt rand = cryptorand.Reader",
   "}",
   "stmt seed := make([]byte, SeedSize)",
   "stmt _, err := io.ReadFull(rand, seed)",
   "call io.ReadFull",
   "if err != nil {",
   "return error: return nil, nil, err",
   "}",
   "stmt privateKey := NewKeyFromSeed(seed)",
   "call NewKeyFromSeed",
   "stmt publicKey := make([]byte, PublicKeySize)",
   "stmt copy(publicKey, privateKey[32:])",
   "return no-error: return publicKey, privateKey, nil"]

theorem ed_GenerateKey_as_modelled : Generated.Skeletons.ed_GenerateKey = expected_ed_GenerateKey := rfl

/-- ed25519: .newKeyFromSeed -/
def expected_ed_newKeyFromSeed : List String :=
  ["stmt l := len(seed)",
   "if l != SeedSize {",
   "stmt panic(\"ed25519: bad seed length: \" + strconv.Itoa(l))",
   "call panic",
   "call strconv.Itoa",
   "}",
   "stmt h := sha512.Sum512(seed)",
   "call sha512.Sum512",
   "stmt s := edwards25519.NewScalar().SetBytesWithClamping(h[:32])",
   "call (…).SetBytesWithClamping",
   "call edwards25519.NewScalar",
   "stmt A := (&edwards25519.Point{}).ScalarBaseMult(s)",
   "call (…).ScalarBaseMult",
   "stmt publicKey := A.Bytes()",
   "call A.Bytes",
   "stmt copy(privateKey, seed)",
   "stmt copy(privateKey[32:], publicKey)"]

theorem ed_newKeyFromSeed_as_modelled : Generated.Skeletons.ed_newKeyFromSeed = expected_ed_newKeyFromSeed := rfl

/-- ed25519: .signInternal -/
def expected_ed_signInternal : List String :=
  ["stmt mh := sha512.New()",
   "call sha512.New",
   "stmt mh.Write(prefix)",
   "call mh.Write",
   "stmt mh.Write(message)",
   "call mh.Write",
   "stmt messageDigest := make([]byte, 0, sha512.Size)",
   "stmt messageDigest = mh.Sum(messageDigest)",
   "call mh.Sum",
   "stmt r := edwards25519.NewScalar().SetUniformBytes(messageDigest)",
   "call (…).SetUniformBytes",
   "call edwards25519.NewScalar",
   "stmt R := (&edwards25519.Point{}).ScalarBaseMult(r)",
   "call (…).ScalarBaseMult",
   "stmt kh := sha512.New()",
   "call sha512.New",
   "stmt kh.Write(R.Bytes())",
   "call kh.Write",
   "call R.Bytes",
   "stmt kh.Write(publicKey)",
   "call kh.Write",
   "stmt kh.Write(message)",
   "call kh.Write",
   "stmt hramDigest := make([]byte, 0, sha512.Size)",
   "stmt hramDigest = kh.Sum(hramDigest)",
   "call kh.Sum",
   "stmt k := edwards25519.NewScalar().SetUniformBytes(hramDigest)",
   "call (…).SetUniformBytes",
   "call edwards25519.NewScalar",
   "stmt S := edwards25519.NewScalar().MultiplyAdd(k, s, r)",
   "call (…).MultiplyAdd",
   "call edwards25519.NewScalar",
   "stmt copy(signature[:32], R.Bytes())",
   "call R.Bytes",
   "stmt copy(signature[32:], S.Bytes())",
   "call S.Bytes"]

theorem ed_signInternal_as_modelled : Generated.Skeletons.ed_signInternal = expected_ed_signInternal := rfl

/-- ed25519: .sign -/
def expected_ed_sign : List String :=
  ["stmt l := len(privateKey)",
   "if l != PrivateKeySize {",
   "stmt panic(\"ed25519: bad private key length: \" + strconv.Itoa(l))",
   "call panic",
   "call strconv.Itoa",
   "}",
   "stmt seed, publicKey := privateKey[:SeedSize], privateKey[SeedSize:]",
   "stmt h := sha512.Sum512(seed)",
   "call sha512.Sum512",
   "stmt s := edwards25519.NewScalar().SetBytesWithClamping(h[:32])",
   "call (…).SetBytesWithClamping",
   "call edwards25519.NewScalar",
   "stmt prefix := h[32:]",
   "stmt signInternal(signature, publicKey, message, prefix, s)",
   "call signInternal"]

theorem ed_sign_as_modelled : Generated.Skeletons.ed_sign = expected_ed_sign := rfl

/-- ed25519: .Verify -/
def expected_ed_Verify : List String :=
  ["stmt l := len(publicKey)",
   "if l != PublicKeySize {",
   "stmt panic(\"ed25519: bad public key length: \" + strconv.Itoa(l))",
   "call panic",
   "call strconv.Itoa",
   "}",
   "if len(sig) != SignatureSize || sig[63]&224 != 0 {",
   "return false: return false",
   "}",
   "stmt A, err := (&edwards25519.Point{}).SetBytes(publicKey)",
   "call (…).SetBytes",
   "if err != nil {",
   "return false: return false",
   "}",
   "stmt kh := sha512.New()",
   "call sha512.New",
   "stmt kh.Write(sig[:32])",
   "call kh.Write",
   "stmt kh.Write(publicKey)",
   "call kh.Write",
   "stmt kh.Write(message)",
   "call kh.Write",
   "stmt hramDigest := make([]byte, 0, sha512.Size)",
   "stmt hramDigest = kh.Sum(hramDigest)",
   "call kh.Sum",
   "stmt k := edwards25519.NewScalar().SetUniformBytes(hramDigest)",
   "call (…).SetUniformBytes",
   "call edwards25519.NewScalar",
   "stmt S, err := edwards25519.NewScalar().SetCanonicalBytes(sig[32:])",
   "call (…).SetCanonicalBytes",
   "call edwards25519.NewScalar",
   "if err != nil {",
   "return false: return false",
   "}",
   "stmt minusA := (&edwards25519.Point{}).Negate(A)",
   "call (…).Negate",
   "stmt R := (&edwards25519.Point{}).VarTimeDoubleScalarBaseMult(k, minusA, S)",
   "call (…).VarTimeDoubleScalarBaseMult",
   "call bytes.Equal",
   "call R.Bytes",
   "return value: return bytes.Equal(sig[:32], R.Bytes())"]

theorem ed_Verify_as_modelled : Generated.Skeletons.ed_Verify = expected_ed_Verify := rfl

/-- ed25519: .BlindPublicKeyWithContext -/
def expected_ed_BlindPublicKeyWithContext : List String :=
  ["stmt blindContext := make([]byte, 0, len(blind)+1+len(context))",
   "stmt blindContext = append(blindContext, blind...)",
   "stmt blindContext = append(blindContext, 0x00)",
   "stmt blindContext = append(blindContext, context...)",
   "stmt b := sha512.Sum512(blindContext)",
   "call sha512.Sum512",
   "stmt r := edwards25519.NewScalar().SetBytes(b[:32])",
   "call (…).SetBytes",
   "call edwards25519.NewScalar",
   "stmt P, err := (&edwards25519.Point{}).SetBytes(publicKey)",
   "call (…).SetBytes",
   "if err != nil {",
   "return error: return nil, err",
   "}",
   "stmt P.ScalarMult(r, P)",
   "call P.ScalarMult",
   "stmt blindedKey := P.Bytes()",
   "call P.Bytes",
   "return no-error: return blindedKey, nil"]

theorem ed_BlindPublicKeyWithContext_as_modelled : Generated.Skeletons.ed_BlindPublicKeyWithContext = expected_ed_BlindPublicKeyWithContext := rfl

/-- ed25519: .UnblindPublicKeyWithContext -/
def expected_ed_UnblindPublicKeyWithContext : List String :=
  ["stmt blindContext := make([]byte, 0, len(blind)+1+len(context))",
   "stmt blindContext = append(blindContext, blind...)",
   "stmt blindContext = append(blindContext, 0x00)",
   "stmt blindContext = append(blindContext, context...)",
   "stmt b := sha512.Sum512(blindContext)",
   "call sha512.Sum512",
   "stmt r := edwards25519.NewScalar().SetBytes(b[:32])",
   "call (…).SetBytes",
   "call edwards25519.NewScalar",
   "stmt rInv := edwards25519.NewScalar().Set(r).ModInverse()",
   "call (…).ModInverse",
   "call (…).Set",
   "call edwards25519.NewScalar",
   "stmt P, err := (&edwards25519.Point{}).SetBytes(publicKey)",
   "call (…).SetBytes",
   "if err != nil {",
   "return error: return nil, err",
   "}",
   "stmt P.ScalarMult(rInv, P)",
   "call P.ScalarMult",
   "stmt unblindedKey := P.Bytes()",
   "call P.Bytes",
   "return no-error: return unblindedKey, nil"]

theorem ed_UnblindPublicKeyWithContext_as_modelled : Generated.Skeletons.ed_UnblindPublicKeyWithContext = expected_ed_UnblindPublicKeyWithContext := rfl

/-- ed25519: .blindKeySign -/
def expected_ed_blindKeySign : List String :=
  ["stmt l := len(privateKey)",
   "if l != PrivateKeySize {",
   "stmt panic(\"ed25519: bad private key length: \" + strconv.Itoa(l))",
   "call panic",
   "call strconv.Itoa",
   "}",
   "stmt l := len(blind)",
   "if l != 32 {",
   "stmt panic(\"ed25519: bad blind length: \" + strconv.Itoa(l))",
   "call panic",
   "call strconv.Itoa",
   "}",
   "stmt blindContext := make([]byte, 0, len(blind)+1+len(context))",
   "stmt blindContext = append(blindContext, blind...)",
   "stmt blindContext = append(blindContext, 0x00)",
   "stmt blindContext = append(blindContext, context...)",
   "stmt b := sha512.Sum512(blindContext)",
   "call sha512.Sum512",
   "stmt r := edwards25519.NewScalar().SetBytes(b[:32])",
   "call (…).SetBytes",
   "call edwards25519.NewScalar",
   "stmt prefix2 := b[32:]",
   "stmt seed, publicKey := privateKey[:SeedSize], privateKey[SeedSize:]",
   "stmt h := sha512.Sum512(seed)",
   "call sha512.Sum512",
   "stmt k := edwards25519.NewScalar().SetBytesWithClamping(h[:32])",
   "call (…).SetBytesWithClamping",
   "call edwards25519.NewScalar",
   "stmt prefix1 := h[32:]",
   "stmt prefix := append(prefix1, prefix2...)",
   "stmt s := edwards25519.NewScalar().Multiply(k, r)",
   "call (…).Multiply",
   "call edwards25519.NewScalar",
   "stmt A, err := (&edwards25519.Point{}).SetBytes(publicKey)",
   "call (…).SetBytes",
   "if err != nil {",
   "stmt panic(\"ed25519: \" + err.Error())",
   "call panic",
   "call err.Error",
   "}",
   "stmt A.ScalarMult(r, A)",
   "call A.ScalarMult",
   "stmt signInternal(signature, A.Bytes(), message, prefix, s)",
   "call signInternal",
   "call A.Bytes"]

theorem ed_blindKeySign_as_modelled : Generated.Skeletons.ed_blindKeySign = expected_ed_blindKeySign := rfl

end PatVerif.Proofs.SkelEd25519
